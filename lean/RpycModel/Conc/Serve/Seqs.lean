import RpycModel.Conc.Serve.Basic
import RpycModel.Conc.Serve.SeqsAux
/-
`InvS` (sequence numbers, callbacks table, result cells, results handed to callers, deadlines)
holds in every reachable state of the receive-side machine.

The proof goes through the stronger `InvS'` of `SeqsAux.lean` (see the comment there for what was
added and why), one theorem per program counter / actor.
-/
namespace Rpyc.Conc.Serve

/-- all shared components `InvS` looks at are definitionally unchanged -/
local macro "same_glob" : term => `(⟨rfl, rfl, rfl, rfl, rfl, rfl, rfl, Nat.le_refl _, fun _ h => h⟩)

/-- only thread `t`'s program counter (and things `InvS` does not mention) changed -/
theorem InvS'.pcOnly {s s' : St} {t : Tid} {p : PC} (p' : PC) (h : InvS' s) (hp : (s.loc t).pc = p)
    (ok : PC.FrameOK p p') (g : SameGlob s s')
    (hl : s'.loc = (setLoc s t { s.loc t with pc := p' }).loc) : InvS' s' := by
  apply h.locOnly t g
  · intro u hu; rw [hl]; exact setLoc_loc_ne _ _ hu
  · rw [hl, setLoc_loc_self]; exact (h.thr t).setPc p' hp ok
  · rw [hl, setLoc_loc_self]; exact setPc_hasSeq hp ok.1

/-- only thread `t`'s local state (and things `InvS` does not mention) changed -/
theorem InvS'.locOnly' {s s' : St} {t : Tid} (l' : Loc) (h : InvS' s) (g : SameGlob s s')
    (hl : s'.loc = (setLoc s t l').loc) (ht : ThrOK s t l')
    (hseq : l'.hasSeq = true → (s.loc t).hasSeq = true ∧ l'.seq = (s.loc t).seq) : InvS' s' := by
  apply h.locOnly t g
  · intro u hu; rw [hl]; exact setLoc_loc_ne _ _ hu
  · rw [hl, setLoc_loc_self]; exact ht
  · rw [hl, setLoc_loc_self]; exact hseq

/-! ### steps that leave the shared state alone -/

theorem invS'_w0 {s : St} {t : Tid} (h : InvS' s) (hp : (s.loc t).pc = .w0) : InvS' (doW0 s t (s.loc t)) := by
  unfold doW0
  cases hc : (!(s.cells (s.loc t).seq).ready && !expiredAt (s.cells (s.loc t).seq).ttl s.now)
  · exact h.pcOnly .w9 hp (by decide) same_glob rfl
  · refine h.locOnly' _ same_glob rfl ?_ (setPc_hasSeq hp (by decide))
    refine (h.thr t).setPc' .s0 hp (by decide) ?_ (by simp [PC.inServe])
    intro _ hr
    simp [hr] at hc

theorem invS'_s0 {s : St} {t : Tid} (h : InvS' s) (hp : (s.loc t).pc = .s0) : InvS' (doS0 s t (s.loc t)) := by
  unfold doS0
  have ht := h.thr t
  refine h.locOnly' _ same_glob rfl ?_ ?_
  · exact {
      bg_pc := by simp [PC.client]
      seq_issued := by simpa [Loc.hasSeq, hp] using ht.seq_issued
      at_c1 := by simp
      at_c2 := by simp
      cb_pc := by simpa [hp, PC.completing] using ht.cb_pc
      completing := by simp [PC.completing]
      data_answer := ht.data_answer
      at_w10 := by simp
      result_ok := ht.result_ok
      self_dispatch := by simpa [Loc.hasSeq, hp, PC.waiting] using ht.self_dispatch
      dl_ttl := by
        simp only [hasSeq_iff]
        intro ⟨hb, _⟩ _
        simp [hb]
      wdl_le := by simp }
  · simp [Loc.hasSeq, hp]

theorem invS'_s1 {s s' : St} {t : Tid} (h : InvS' s) (hp : (s.loc t).pc = .s1)
    (hs : doS1 s t (s.loc t) = some s') : InvS' s' := by
  unfold doS1 at hs
  split at hs
  · cases hs; exact h.pcOnly .s2 hp (by decide) same_glob rfl
  · cases hs

theorem invS'_s2 {s : St} {t : Tid} (h : InvS' s) (hp : (s.loc t).pc = .s2) : InvS' (doS2 s t (s.loc t)) := by
  unfold doS2
  split
  · exact h.pcOnly .s3 hp (by decide) same_glob rfl
  · exact h.pcOnly .s2w hp (by decide) same_glob rfl

theorem invS'_s2w {s : St} {t : Tid} (h : InvS' s) (hp : (s.loc t).pc = .s2w) : InvS' (doS2w s t (s.loc t)) := by
  unfold doS2w
  have ht := h.thr t
  refine h.locOnly' _ same_glob rfl ?_ ?_
  · exact {
      bg_pc := by simp [PC.client]
      seq_issued := by simpa [Loc.hasSeq, hp] using ht.seq_issued
      at_c1 := by simp
      at_c2 := by simp
      cb_pc := by simpa [hp, PC.completing] using ht.cb_pc
      completing := by simp [PC.completing]
      data_answer := ht.data_answer
      at_w10 := by simp
      result_ok := ht.result_ok
      self_dispatch := by simpa [Loc.hasSeq, hp, PC.waiting] using ht.self_dispatch
      dl_ttl := by simpa [Loc.hasSeq, hp, PC.inServe] using ht.dl_ttl
      wdl_le := by
        intro _ d hd
        simp only at hd
        simp [hd] }
  · simp [Loc.hasSeq, hp]

theorem invS'_zz {s s' : St} {t : Tid} (h : InvS' s) (hp : (s.loc t).pc = .zz)
    (hs : doZz s t (s.loc t) = some s') : InvS' s' := by
  unfold doZz at hs
  split at hs
  · cases hs; exact h.pcOnly .s2r hp (by decide) same_glob rfl
  · split at hs
    · cases hs; exact h.pcOnly .s2r hp (by decide) same_glob rfl
    · cases hs

theorem invS'_leave {s : St} {t : Tid} (h : InvS' s) (hp : (s.loc t).pc ≠ .idle) :
    InvS' (setLoc s t (leaveServe (s.loc t))) :=
  h.locOnly' _ same_glob rfl ((h.thr t).leaveServe hp) (leaveServe_hasSeq hp)

theorem invS'_s2r {s s' : St} {t : Tid} (h : InvS' s) (hp : (s.loc t).pc = .s2r)
    (hs : doS2r s t (s.loc t) = some s') : InvS' s' := by
  unfold doS2r at hs
  split at hs
  · cases hs; exact invS'_leave h (by rw [hp]; decide)
  · cases hs

theorem invS'_s3 {s : St} {t : Tid} (h : InvS' s) (hp : (s.loc t).pc = .s3) : InvS' (doS3 s t (s.loc t)) :=
  h.pcOnly .p0 hp (by decide) same_glob rfl

theorem invS'_p0 {s s' : St} {t : Tid} (h : InvS' s) (hp : (s.loc t).pc = .p0)
    (hs : doP0 s t (s.loc t) = some s') : InvS' s' := by
  have ht := h.thr t
  unfold doP0 at hs
  split at hs
  · rename_i f rest heq
    cases hs
    refine h.locOnly' _ ⟨rfl, rfl, rfl, rfl, rfl, rfl, rfl, Nat.le_refl _, fun g hg => ?_⟩ rfl ?_ ?_
    · show g ∈ s.chan
      rw [heq]; exact List.mem_cons_of_mem _ hg
    · exact {
        bg_pc := by simp [PC.client]
        seq_issued := by simpa [Loc.hasSeq, hp] using ht.seq_issued
        at_c1 := by simp
        at_c2 := by simp
        cb_pc := by simpa [hp, PC.completing] using ht.cb_pc
        completing := by simp [PC.completing]
        data_answer := by
          intro g hg
          simp only [Option.some.injEq] at hg
          subst hg
          exact h.glob.chan_answer _ (by rw [heq]; exact List.mem_cons_self)
        at_w10 := by simp
        result_ok := ht.result_ok
        self_dispatch := by simpa [Loc.hasSeq, hp, PC.waiting] using ht.self_dispatch
        dl_ttl := by simpa [Loc.hasSeq, hp, PC.inServe] using ht.dl_ttl
        wdl_le := by simp }
    · simp [Loc.hasSeq, hp]
  · split at hs
    · cases hs
      refine h.locOnly' _ same_glob rfl ?_ ?_
      · exact {
          bg_pc := by simp [PC.client]
          seq_issued := by simpa [Loc.hasSeq, hp] using ht.seq_issued
          at_c1 := by simp
          at_c2 := by simp
          cb_pc := by simpa [hp, PC.completing] using ht.cb_pc
          completing := by simp [PC.completing]
          data_answer := by simp
          at_w10 := by simp
          result_ok := ht.result_ok
          self_dispatch := by simpa [Loc.hasSeq, hp, PC.waiting] using ht.self_dispatch
          dl_ttl := by simpa [Loc.hasSeq, hp, PC.inServe] using ht.dl_ttl
          wdl_le := by simp }
      · simp [Loc.hasSeq, hp]
    · cases hs

theorem invS'_r0 {s : St} {t : Tid} (h : InvS' s) (hp : (s.loc t).pc = .r0) : InvS' (doR0 s t (s.loc t)) :=
  h.pcOnly .n0 hp (by decide) same_glob rfl

theorem invS'_n0 {s s' : St} {t : Tid} (h : InvS' s) (hp : (s.loc t).pc = .n0)
    (hs : doN0 s t (s.loc t) = some s') : InvS' s' := by
  unfold doN0 at hs
  split at hs
  · cases hs; exact h.pcOnly .n1 hp (by decide) same_glob rfl
  · cases hs

theorem invS'_n1 {s : St} {t : Tid} (h : InvS' s) (hp : (s.loc t).pc = .n1) : InvS' (doN1 s t (s.loc t)) :=
  h.pcOnly .n2 hp (by decide) same_glob rfl

theorem invS'_n2 {s : St} {t : Tid} (h : InvS' s) (hp : (s.loc t).pc = .n2) : InvS' (doN2 s t (s.loc t)) :=
  h.pcOnly .d0 hp (by decide) same_glob rfl

theorem invS'_d0 {s : St} {t : Tid} (h : InvS' s) (hp : (s.loc t).pc = .d0) : InvS' (doD0 s t (s.loc t)) := by
  unfold doD0
  split
  · exact invS'_leave h (by rw [hp]; decide)
  · exact h.pcOnly .d1 hp (by decide) same_glob rfl

theorem invS'_d2 {s s' : St} {t : Tid} (h : InvS' s) (hp : (s.loc t).pc = .d2)
    (hs : doD2 s t (s.loc t) = some s') : InvS' s' := by
  unfold doD2 at hs
  split at hs
  · cases hs
  · split at hs
    · cases hs; exact invS'_leave h (by rw [hp]; decide)
    · cases hs; exact h.pcOnly .d3 hp (by decide) same_glob rfl

/-- the call is over (or the serving thread was stopped): nothing is claimed about the thread except its result -/
theorem ThrOK.toIdle {s : St} {t : Tid} {l : Loc} (h : ThrOK s t l) (hc : l.pc.completing = false)
    (r : Option Outcome)
    (hr : ∀ e o, r = some (.value e o) → ∃ e' v, s.answer l.seq = some (e', v) ∧ e = some e' ∧ o = some v) :
    ThrOK s t { l with pc := .idle, bg := false, result := r } where
  bg_pc := by simp
  seq_issued := by simp [Loc.hasSeq]
  at_c1 := by simp
  at_c2 := by simp
  cb_pc := fun q hq => by have := h.cb_pc q hq; rw [hc] at this; cases this
  completing := by simp [PC.completing]
  data_answer := h.data_answer
  at_w10 := by simp
  result_ok := hr
  self_dispatch := by simp [Loc.hasSeq]
  dl_ttl := by simp [Loc.hasSeq]
  wdl_le := by simp

theorem invS'_w9 {s : St} {t : Tid} (h : InvS' s) (hp : (s.loc t).pc = .w9) : InvS' (doW9 s t (s.loc t)) := by
  have ht := h.thr t
  have hb : (s.loc t).bg = false := ht.bg_false_of_client (by rw [hp]; rfl)
  unfold doW9
  split
  · rename_i hr
    refine h.locOnly' _ same_glob rfl ?_ (by simp [Loc.hasSeq, hp])
    exact {
      bg_pc := by simp [hb]
      seq_issued := by simpa [Loc.hasSeq, hp] using ht.seq_issued
      at_c1 := by simp
      at_c2 := by simp
      cb_pc := by simpa [hp, PC.completing] using ht.cb_pc
      completing := by simp [PC.completing]
      data_answer := ht.data_answer
      at_w10 := fun _ _ => hr
      result_ok := ht.result_ok
      self_dispatch := by simp [PC.waiting]
      dl_ttl := by simp [PC.inServe]
      wdl_le := by simp }
  · refine h.locOnly' _ same_glob rfl ?_ (by simp [Loc.hasSeq])
    have := ht.toIdle (by rw [hp]; rfl) (some .timeout) (by simp)
    rw [← hb] at this
    exact this

theorem invS'_w10 {s : St} {t : Tid} (h : InvS' s) (hp : (s.loc t).pc = .w10) : InvS' (doW10 s t (s.loc t)) := by
  have ht := h.thr t
  have hb : (s.loc t).bg = false := ht.bg_false_of_client (by rw [hp]; rfl)
  unfold doW10
  refine h.locOnly' _ same_glob rfl ?_ (by simp [Loc.hasSeq])
  have hr := ht.at_w10 ((hasSeq_iff _).2 ⟨hb, by rw [hp]; decide⟩) hp
  obtain ⟨_, ho, he⟩ := h.glob.ready_compl _ hr
  have := ht.toIdle (by rw [hp]; rfl) (some (.value (s.cells (s.loc t).seq).isExc (s.cells (s.loc t).seq).obj)) (by
    intro e o heq
    simp only [Option.some.injEq, Outcome.value.injEq] at heq
    obtain ⟨rfl, rfl⟩ := heq
    obtain ⟨v, hv⟩ := Option.isSome_iff_exists.1 ho
    obtain ⟨e, he'⟩ := Option.isSome_iff_exists.1 he
    obtain ⟨e1, h1⟩ := h.glob.obj_answer _ _ hv
    obtain ⟨v1, h2⟩ := h.glob.exc_answer _ _ he'
    rw [h1] at h2
    simp only [Option.some.injEq, Prod.mk.injEq] at h2
    obtain ⟨rfl, rfl⟩ := h2
    exact ⟨e1, v, h1, he', hv⟩)
  rw [← hb] at this
  exact this

theorem invS'_b0 {s : St} {t : Tid} (h : InvS' s) (hp : (s.loc t).pc = .b0) :
    InvS' (setLoc s t { s.loc t with pc := .s0 }) :=
  h.pcOnly .s0 hp (by decide) same_glob rfl

theorem invS'_bS {s : St} {t : Tid} (h : InvS' s) (hp : (s.loc t).pc = .bS) :
    InvS' (setLoc s t { s.loc t with pc := .b0 }) :=
  h.pcOnly .b0 hp (by decide) same_glob rfl

theorem invS'_bg {s : St} {t : Tid} (h : InvS' s) (hp : (s.loc t).pc = .idle) :
    InvS' (setLoc s t { s.loc t with pc := .b0, bg := true }) := by
  have ht := h.thr t
  refine h.locOnly' _ same_glob rfl ?_ (by simp [Loc.hasSeq])
  exact {
    bg_pc := by simp [PC.client]
    seq_issued := by simp [Loc.hasSeq]
    at_c1 := by simp
    at_c2 := by simp
    cb_pc := by simpa [hp, PC.completing] using ht.cb_pc
    completing := by simp [PC.completing]
    data_answer := ht.data_answer
    at_w10 := by simp
    result_ok := ht.result_ok
    self_dispatch := by simp [Loc.hasSeq]
    dl_ttl := by simp [Loc.hasSeq]
    wdl_le := by simp }

theorem invS'_stop {s : St} {t : Tid} (h : InvS' s) (hp : (s.loc t).pc = .b0) :
    InvS' (setLoc s t { s.loc t with pc := .idle, bg := false }) :=
  h.locOnly' _ same_glob rfl ((h.thr t).toIdle (by rw [hp]; rfl) _ (h.thr t).result_ok) (by simp [Loc.hasSeq])

end Rpyc.Conc.Serve
