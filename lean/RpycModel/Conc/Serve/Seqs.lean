import RpycModel.Conc.Serve.Basic
import RpycModel.Conc.Serve.SeqsAux
/-
`InvS` (sequence numbers, callbacks table, result cells, results handed to callers, deadlines)
holds in every reachable state of the receive-side machine.

The proof goes through the stronger `InvS'` of `SeqsAux.lean` (see the comment there for what was
added and why), one theorem per program counter / actor.
-/
namespace Rpyc.Conc.Serve

/-- all shared components `InvS` looks at are definitionally unchanged -/
local macro "same_glob" : term => `(⟨rfl, rfl, rfl, rfl, rfl, rfl, rfl, Nat.le_refl _, fun _ h => h, rfl⟩)

/-- only thread `t`'s program counter (and things `InvS` does not mention) changed -/
theorem InvS'.pcOnly {s s' : St} {t : Tid} {p : PC} (p' : PC) (h : InvS' s) (hp : (s.loc t).pc = p)
    (ok : PC.FrameOK p p') (g : SameGlob s s')
    (hl : s'.loc = (setLoc s t { s.loc t with pc := p' }).loc) : InvS' s' := by
  apply h.locOnly t g
  · intro u hu; rw [hl]; exact setLoc_loc_ne _ _ hu
  · rw [hl, setLoc_loc_self]; exact (h.thr t).setPc p' hp ok
  · rw [hl, setLoc_loc_self]; exact setPc_hasSeq hp ok.1

/-- only thread `t`'s local state (and things `InvS` does not mention) changed -/
theorem InvS'.locOnly' {s s' : St} {t : Tid} (l' : Loc) (h : InvS' s) (g : SameGlob s s')
    (hl : s'.loc = (setLoc s t l').loc) (ht : ThrOK s t l')
    (hseq : l'.hasSeq = true → (s.loc t).hasSeq = true ∧ l'.seq = (s.loc t).seq) : InvS' s' := by
  apply h.locOnly t g
  · intro u hu; rw [hl]; exact setLoc_loc_ne _ _ hu
  · rw [hl, setLoc_loc_self]; exact ht
  · rw [hl, setLoc_loc_self]; exact hseq

/-! ### steps that leave the shared state alone -/

theorem invS'_w0 {s : St} {t : Tid} (h : InvS' s) (hp : (s.loc t).pc = .w0) : InvS' (doW0 s t (s.loc t)) := by
  unfold doW0
  cases hc : (!(s.cells (s.loc t).seq).ready && !expiredAt (s.cells (s.loc t).seq).ttl s.now)
  · exact h.pcOnly .w9 hp (by decide) same_glob rfl
  · refine h.locOnly' _ same_glob rfl ?_ (setPc_hasSeq hp (by decide))
    refine (h.thr t).setPc' .s0 hp (by decide) ?_ (by simp [PC.inServe])
    intro _ hr
    simp [hr] at hc

theorem invS'_s0 {s : St} {t : Tid} (h : InvS' s) (hp : (s.loc t).pc = .s0) : InvS' (doS0 s t (s.loc t)) := by
  unfold doS0
  have ht := h.thr t
  have hra : (s.loc t).raising = false := ht.raising_false (by rw [hp]; rfl)
  refine h.locOnly' _ same_glob rfl ?_ ?_
  · exact {
      bg_pc := by simp [PC.client]
      nowait_ok := by simpa [hp, PC.bgLoop] using ht.nowait_ok
      raising_pc := by simp [hra]
      nodata := by simp [hra]
      seq_issued := by simpa [Loc.hasSeq, hp] using ht.seq_issued
      at_c1 := by simp
      at_c2 := by simp
      cb_pc := by simpa [hp, PC.completing] using ht.cb_pc
      completing := by simp [PC.completing]
      data_answer := ht.data_answer
      at_w10 := by simp
      result_ok := ht.result_ok
      self_dispatch := by simpa [Loc.hasSeq, hp, PC.waiting] using ht.self_dispatch
      dl_ttl := by
        simp only [hasSeq_iff]
        intro ⟨hb, _⟩ _
        simp [hb, ht.nowait_false_of_bg hb]
      wdl_le := by simp }
  · simp [Loc.hasSeq, hp]

theorem invS'_s1 {s s' : St} {t : Tid} (h : InvS' s) (hp : (s.loc t).pc = .s1)
    (hs : doS1 s t (s.loc t) = some s') : InvS' s' := by
  unfold doS1 at hs
  split at hs
  · cases hs; exact h.pcOnly .s2 hp (by decide) same_glob rfl
  · cases hs

theorem invS'_s2 {s : St} {t : Tid} (h : InvS' s) (hp : (s.loc t).pc = .s2) : InvS' (doS2 s t (s.loc t)) := by
  unfold doS2
  split
  · exact h.pcOnly .s3 hp (by decide) same_glob rfl
  · split
    · exact h.pcOnly .s2f hp (by decide) same_glob rfl
    · exact h.pcOnly .s2w hp (by decide) same_glob rfl

theorem invS'_s2f {s : St} {t : Tid} (h : InvS' s) (hp : (s.loc t).pc = .s2f) :
    InvS' { setLoc s t (leaveServe (s.loc t)) with condLock := none } :=
  h.locOnly' _ same_glob rfl ((h.thr t).leaveServe (by rw [hp]; decide) ((h.thr t).raising_false (by rw [hp]; rfl)))
    (leaveServe_hasSeq (by rw [hp]; decide))

theorem invS'_q1 {s : St} {t : Tid} (h : InvS' s) (hp : (s.loc t).pc = .q1) :
    InvS' (if expiredAt (s.loc t).pdl s.now then setLoc s t { s.loc t with pc := .idle, bg := false, nowait := false }
      else setLoc s t { s.loc t with pc := .s0 }) := by
  have ht := h.thr t
  have hra : (s.loc t).raising = false := ht.raising_false (by rw [hp]; rfl)
  split
  · refine h.locOnly' _ same_glob rfl (thrOK_idle ht rfl rfl rfl hra ?_ rfl rfl ht.result_ok) (by simp [Loc.hasSeq])
    exact ht.cb_none (by rw [hp]; rfl)
  · exact h.pcOnly .s0 hp (by decide) same_glob rfl

theorem invS'_s2w {s : St} {t : Tid} (h : InvS' s) (hp : (s.loc t).pc = .s2w) : InvS' (doS2w s t (s.loc t)) := by
  unfold doS2w
  have ht := h.thr t
  have hra : (s.loc t).raising = false := ht.raising_false (by rw [hp]; rfl)
  refine h.locOnly' _ same_glob rfl ?_ ?_
  · exact {
      bg_pc := by simp [PC.client]
      nowait_ok := by simpa [hp, PC.bgLoop] using ht.nowait_ok
      raising_pc := by simp [hra]
      nodata := by simp [hra]
      seq_issued := by simpa [Loc.hasSeq, hp] using ht.seq_issued
      at_c1 := by simp
      at_c2 := by simp
      cb_pc := by simpa [hp, PC.completing] using ht.cb_pc
      completing := by simp [PC.completing]
      data_answer := ht.data_answer
      at_w10 := by simp
      result_ok := ht.result_ok
      self_dispatch := by simpa [Loc.hasSeq, hp, PC.waiting] using ht.self_dispatch
      dl_ttl := by simpa [Loc.hasSeq, hp, PC.inServe] using ht.dl_ttl
      wdl_le := by
        intro _ d hd
        simp only at hd
        simp [hd] }
  · simp [Loc.hasSeq, hp]

theorem invS'_zz {s s' : St} {t : Tid} (h : InvS' s) (hp : (s.loc t).pc = .zz)
    (hs : doZz s t (s.loc t) = some s') : InvS' s' := by
  unfold doZz at hs
  split at hs
  · cases hs; exact h.pcOnly .s2r hp (by decide) same_glob rfl
  · split at hs
    · cases hs; exact h.pcOnly .s2r hp (by decide) same_glob rfl
    · cases hs

theorem invS'_leave {s : St} {t : Tid} (h : InvS' s) (hp : (s.loc t).pc ≠ .idle)
    (hr : (s.loc t).raising = false) : InvS' (setLoc s t (leaveServe (s.loc t))) :=
  h.locOnly' _ same_glob rfl ((h.thr t).leaveServe hp hr) (leaveServe_hasSeq hp)

theorem invS'_s2r {s s' : St} {t : Tid} (h : InvS' s) (hp : (s.loc t).pc = .s2r)
    (hs : doS2r s t (s.loc t) = some s') : InvS' s' := by
  unfold doS2r at hs
  split at hs
  · cases hs; exact invS'_leave h (by rw [hp]; decide) ((h.thr t).raising_false (by rw [hp]; rfl))
  · cases hs

theorem invS'_s3 {s : St} {t : Tid} (h : InvS' s) (hp : (s.loc t).pc = .s3) : InvS' (doS3 s t (s.loc t)) :=
  h.pcOnly .p0 hp (by decide) same_glob rfl

/-- `poll` timed out (→ `r0`) or `recv` raised `EOFError` (→ `x0`): no frame in hand -/
theorem invS'_p0_none {s : St} {t : Tid} (p' : PC) (hp' : p' = .x0 ∨ p' = .r0) (h : InvS' s)
    (hp : (s.loc t).pc = .p0) : InvS' (setLoc s t { s.loc t with pc := p', data := none }) := by
  have ht := h.thr t
  have hra : (s.loc t).raising = false := ht.raising_false (by rw [hp]; rfl)
  refine h.locOnly' _ same_glob rfl ?_ (by simp only [Loc.hasSeq, hp]; simp; exact fun a _ => a)
  rcases hp' with rfl | rfl <;>
  exact {
    bg_pc := by simp [PC.client]
    nowait_ok := by simpa [hp, PC.bgLoop] using ht.nowait_ok
    raising_pc := by simp [hra]
    nodata := by simp [hra]
    seq_issued := by simpa [Loc.hasSeq, hp] using ht.seq_issued
    at_c1 := by simp
    at_c2 := by simp
    cb_pc := by simpa [hp, PC.completing] using ht.cb_pc
    completing := by simp [PC.completing]
    data_answer := by simp
    at_w10 := by simp
    result_ok := ht.result_ok
    self_dispatch := by simpa [Loc.hasSeq, hp, PC.waiting] using ht.self_dispatch
    dl_ttl := by simpa [Loc.hasSeq, hp, PC.inServe] using ht.dl_ttl
    wdl_le := by simp }

theorem invS'_p0 {s s' : St} {t : Tid} (h : InvS' s) (hp : (s.loc t).pc = .p0)
    (hs : doP0 s t (s.loc t) = some s') : InvS' s' := by
  have ht := h.thr t
  have hra : (s.loc t).raising = false := ht.raising_false (by rw [hp]; rfl)
  unfold doP0 at hs
  split at hs
  · cases hs; exact invS'_p0_none _ (.inl rfl) h hp
  split at hs
  · rename_i f rest heq
    cases hs
    refine h.locOnly' _ ⟨rfl, rfl, rfl, rfl, rfl, rfl, rfl, Nat.le_refl _, fun g hg => ?_, rfl⟩ rfl ?_ ?_
    · show g ∈ s.chan
      rw [heq]; exact List.mem_cons_of_mem _ hg
    · exact {
        bg_pc := by simp [PC.client]
        nowait_ok := by simpa [hp, PC.bgLoop] using ht.nowait_ok
        raising_pc := by simp [hra]
        nodata := by simp [hra]
        seq_issued := by simpa [Loc.hasSeq, hp] using ht.seq_issued
        at_c1 := by simp
        at_c2 := by simp
        cb_pc := by simpa [hp, PC.completing] using ht.cb_pc
        completing := by simp [PC.completing]
        data_answer := by
          intro g hg
          simp only [Option.some.injEq] at hg
          subst hg
          exact h.glob.chan_answer _ (by rw [heq]; exact List.mem_cons_self)
        at_w10 := by simp
        result_ok := ht.result_ok
        self_dispatch := by simpa [Loc.hasSeq, hp, PC.waiting] using ht.self_dispatch
        dl_ttl := by simpa [Loc.hasSeq, hp, PC.inServe] using ht.dl_ttl
        wdl_le := by simp }
    · simp [Loc.hasSeq, hp]
  · split at hs
    · cases hs; exact invS'_p0_none _ (.inl rfl) h hp
    · split at hs
      · cases hs; exact invS'_p0_none _ (.inr rfl) h hp
      · cases hs

/-- `self.close(); raise` -/
theorem invS'_x0 {s : St} {t : Tid} (h : InvS' s) (hp : (s.loc t).pc = .x0) : InvS' (doX0 s t (s.loc t)) := by
  have ht := h.thr t
  have hdn : (s.loc t).data = none := ht.nodata (.inl hp)
  have ht' : ThrOK s t { s.loc t with pc := .r0, raising := true } := {
    bg_pc := by simp [PC.client]
    nowait_ok := by simpa [hp, PC.bgLoop] using ht.nowait_ok
    raising_pc := by simp [PC.holding]
    nodata := fun _ => hdn
    seq_issued := by simpa [Loc.hasSeq, hp] using ht.seq_issued
    at_c1 := by simp
    at_c2 := by simp
    cb_pc := by simpa [hp, PC.completing] using ht.cb_pc
    completing := by simp [PC.completing]
    data_answer := ht.data_answer
    at_w10 := by simp
    result_ok := ht.result_ok
    self_dispatch := fun _ _ _ => .inr rfl
    dl_ttl := by simpa [Loc.hasSeq, hp, PC.inServe] using ht.dl_ttl
    wdl_le := by simp }
  unfold doX0
  split
  · exact h.locOnly' _ same_glob rfl ht' (by simp [Loc.hasSeq, hp])
  · refine h.step' t _ rfl (by simp [Loc.hasSeq, hp])
      (h.glob.close (t := t) ⟨rfl, rfl, rfl, rfl, rfl, rfl, rfl, rfl, rfl, rfl⟩)
      (ht'.close h.glob ⟨rfl, rfl, rfl, rfl, rfl, rfl, rfl, rfl, rfl, rfl⟩ (fun _ => rfl))
      (fun u hu => (h.thr u).close h.glob ⟨rfl, rfl, rfl, rfl, rfl, rfl, rfl, rfl, rfl, rfl⟩ (fun e => absurd e hu))

theorem invS'_r0 {s : St} {t : Tid} (h : InvS' s) (hp : (s.loc t).pc = .r0) : InvS' (doR0 s t (s.loc t)) :=
  h.pcOnly .n0 hp (by decide) same_glob rfl

theorem invS'_n0 {s s' : St} {t : Tid} (h : InvS' s) (hp : (s.loc t).pc = .n0)
    (hs : doN0 s t (s.loc t) = some s') : InvS' s' := by
  unfold doN0 at hs
  split at hs
  · cases hs; exact h.pcOnly .n1 hp (by decide) same_glob rfl
  · cases hs

theorem invS'_n1 {s : St} {t : Tid} (h : InvS' s) (hp : (s.loc t).pc = .n1) : InvS' (doN1 s t (s.loc t)) :=
  h.pcOnly .n2 hp (by decide) same_glob rfl

theorem invS'_n2 {s : St} {t : Tid} (h : InvS' s) (hp : (s.loc t).pc = .n2) : InvS' (doN2 s t (s.loc t)) :=
  h.pcOnly .d0 hp (by decide) same_glob rfl

theorem invS'_d0 {s : St} {t : Tid} (h : InvS' s) (hp : (s.loc t).pc = .d0) : InvS' (doD0 s t (s.loc t)) := by
  have ht := h.thr t
  unfold doD0
  split
  · exact h.pcOnly .d1 hp (by decide) same_glob rfl
  · split
    · split
      · exact h.locOnly' _ same_glob rfl (thrOK_idle ht rfl rfl rfl rfl rfl rfl rfl ht.result_ok)
          (by simp [Loc.hasSeq])
      · rename_i hb
        have hb' : (s.loc t).bg = false := by simpa using hb
        exact h.locOnly' _ same_glob rfl
          (thrOK_idle ht rfl hb' (ht.nowait_false_of_bg hb') rfl rfl rfl rfl (by simp)) (by simp [Loc.hasSeq])
    · rename_i hr
      exact invS'_leave h (by rw [hp]; decide) (by simpa using hr)

theorem invS'_d2 {s s' : St} {t : Tid} (h : InvS' s) (hp : (s.loc t).pc = .d2)
    (hs : doD2 s t (s.loc t) = some s') : InvS' s' := by
  unfold doD2 at hs
  split at hs
  · cases hs
  · split at hs
    · cases hs; exact invS'_leave h (by rw [hp]; decide) ((h.thr t).raising_false (by rw [hp]; rfl))
    · cases hs; exact h.pcOnly .d3 hp (by decide) same_glob rfl

/-- the call is over (or the serving thread was stopped): nothing is claimed about the thread except its result -/
theorem ThrOK.toIdle {s : St} {t : Tid} {l : Loc} (h : ThrOK s t l) (hc : l.pc.completing = false)
    (hn : l.nowait = false) (hra : l.raising = false)
    (r : Option Outcome)
    (hr : ∀ e o, r = some (.value e o) → ∃ e' v, s.answer l.seq = some (e', v) ∧ e = some e' ∧ o = some v ∧
      (s.cells l.seq).ready = true) :
    ThrOK s t { l with pc := .idle, bg := false, result := r } where
  bg_pc := by simp
  nowait_ok := by simp [hn]
  raising_pc := by simp [hra]
  nodata := by simp [hra]
  seq_issued := by simp [Loc.hasSeq]
  at_c1 := by simp
  at_c2 := by simp
  cb_pc := fun q hq => by have := h.cb_pc q hq; rw [hc] at this; cases this
  completing := by simp [PC.completing]
  data_answer := h.data_answer
  at_w10 := by simp
  result_ok := hr
  self_dispatch := by simp [Loc.hasSeq]
  dl_ttl := by simp [Loc.hasSeq]
  wdl_le := by simp

theorem invS'_w9 {s : St} {t : Tid} (h : InvS' s) (hp : (s.loc t).pc = .w9) : InvS' (doW9 s t (s.loc t)) := by
  have ht := h.thr t
  have hra : (s.loc t).raising = false := ht.raising_false (by rw [hp]; rfl)
  have hb : (s.loc t).bg = false := ht.bg_false_of_client (by rw [hp]; rfl)
  unfold doW9
  split
  · rename_i hr
    refine h.locOnly' _ same_glob rfl ?_ (by simp [Loc.hasSeq, hp])
    exact {
      bg_pc := by simp [hb]
      nowait_ok := by simp [ht.nowait_false_of_bg hb]
      raising_pc := by simp [hra]
      nodata := by simp [hra]
      seq_issued := by simpa [Loc.hasSeq, hp] using ht.seq_issued
      at_c1 := by simp
      at_c2 := by simp
      cb_pc := by simpa [hp, PC.completing] using ht.cb_pc
      completing := by simp [PC.completing]
      data_answer := ht.data_answer
      at_w10 := fun _ _ => hr
      result_ok := ht.result_ok
      self_dispatch := by simp [PC.waiting]
      dl_ttl := by simp [PC.inServe]
      wdl_le := by simp }
  · refine h.locOnly' _ same_glob rfl ?_ (by simp [Loc.hasSeq])
    have := ht.toIdle (by rw [hp]; rfl) (ht.nowait_false_of_bg hb) hra (some .timeout) (by simp)
    rw [← hb] at this
    exact this

theorem invS'_w10 {s : St} {t : Tid} (h : InvS' s) (hp : (s.loc t).pc = .w10) : InvS' (doW10 s t (s.loc t)) := by
  have ht := h.thr t
  have hra : (s.loc t).raising = false := ht.raising_false (by rw [hp]; rfl)
  have hb : (s.loc t).bg = false := ht.bg_false_of_client (by rw [hp]; rfl)
  unfold doW10
  refine h.locOnly' _ same_glob rfl ?_ (by simp [Loc.hasSeq])
  have hr := ht.at_w10 ((hasSeq_iff _).2 ⟨hb, by rw [hp]; decide⟩) hp
  obtain ⟨_, ho, he⟩ := h.glob.ready_compl _ hr
  have := ht.toIdle (by rw [hp]; rfl) (ht.nowait_false_of_bg hb) hra (some (.value (s.cells (s.loc t).seq).isExc (s.cells (s.loc t).seq).obj)) (by
    intro e o heq
    simp only [Option.some.injEq, Outcome.value.injEq] at heq
    obtain ⟨rfl, rfl⟩ := heq
    obtain ⟨v, hv⟩ := Option.isSome_iff_exists.1 ho
    obtain ⟨e, he'⟩ := Option.isSome_iff_exists.1 he
    obtain ⟨e1, h1⟩ := h.glob.obj_answer _ _ hv
    obtain ⟨v1, h2⟩ := h.glob.exc_answer _ _ he'
    rw [h1] at h2
    simp only [Option.some.injEq, Prod.mk.injEq] at h2
    obtain ⟨rfl, rfl⟩ := h2
    exact ⟨e1, v, h1, he', hv, hr⟩)
  rw [← hb] at this
  exact this

theorem invS'_b0 {s : St} {t : Tid} (h : InvS' s) (hp : (s.loc t).pc = .b0) :
    InvS' (setLoc s t { s.loc t with pc := .s0 }) :=
  h.pcOnly .s0 hp (by decide) same_glob rfl

theorem invS'_bS {s : St} {t : Tid} (h : InvS' s) (hp : (s.loc t).pc = .bS) :
    InvS' (setLoc s t { s.loc t with pc := .b0 }) :=
  h.pcOnly .b0 hp (by decide) same_glob rfl

theorem invS'_bg {s : St} {t : Tid} (h : InvS' s) (hp : (s.loc t).pc = .idle) (hb : (s.loc t).bg = false) :
    InvS' (setLoc s t { s.loc t with pc := .b0, bg := true }) := by
  have ht := h.thr t
  have hra : (s.loc t).raising = false := ht.raising_false (by rw [hp]; rfl)
  refine h.locOnly' _ same_glob rfl ?_ (by simp [Loc.hasSeq])
  exact {
    bg_pc := by simp [PC.client]
    nowait_ok := by simp [ht.nowait_false_of_bg hb]
    raising_pc := by simp [hra]
    nodata := by simp [hra]
    seq_issued := by simp [Loc.hasSeq]
    at_c1 := by simp
    at_c2 := by simp
    cb_pc := by simpa [hp, PC.completing] using ht.cb_pc
    completing := by simp [PC.completing]
    data_answer := ht.data_answer
    at_w10 := by simp
    result_ok := ht.result_ok
    self_dispatch := by simp [Loc.hasSeq]
    dl_ttl := by simp [Loc.hasSeq]
    wdl_le := by simp }

theorem invS'_pollAll {s : St} {t : Tid} (d : Nat) (h : InvS' s) (hp : (s.loc t).pc = .idle) :
    InvS' (setLoc s t { s.loc t with pc := .s0, bg := true, nowait := true, pdl := some (s.now + d) }) := by
  have ht := h.thr t
  have hra : (s.loc t).raising = false := ht.raising_false (by rw [hp]; rfl)
  refine h.locOnly' _ same_glob rfl ?_ (by simp [Loc.hasSeq])
  exact {
    bg_pc := by simp [PC.client]
    nowait_ok := by simp [PC.bgLoop]
    raising_pc := by simp [hra]
    nodata := by simp [hra]
    seq_issued := by simp [Loc.hasSeq]
    at_c1 := by simp
    at_c2 := by simp
    cb_pc := by simpa [hp, PC.completing] using ht.cb_pc
    completing := by simp [PC.completing]
    data_answer := ht.data_answer
    at_w10 := by simp
    result_ok := ht.result_ok
    self_dispatch := by simp [Loc.hasSeq]
    dl_ttl := by simp [Loc.hasSeq]
    wdl_le := by simp }

theorem invS'_stop {s : St} {t : Tid} (h : InvS' s) (hp : (s.loc t).pc = .b0) :
    InvS' (setLoc s t { s.loc t with pc := .idle, bg := false }) :=
  h.locOnly' _ same_glob rfl ((h.thr t).toIdle (by rw [hp]; rfl) ((h.thr t).nowait_false_of_bgLoop (by rw [hp]; rfl))
    ((h.thr t).raising_false (by rw [hp]; rfl)) _ (h.thr t).result_ok) (by simp [Loc.hasSeq])

/-! ### steps that change the shared state -/

theorem invS'_tick {s : St} (d : Nat) (h : InvS' s) : InvS' { s with now := s.now + d } :=
  h.locOnly 0 ⟨rfl, rfl, rfl, rfl, rfl, rfl, rfl, Nat.le_add_right _ _, fun _ h => h, rfl⟩ (fun _ _ => rfl) (h.thr 0)
    (fun x => ⟨x, rfl⟩)

theorem invS'_call {s : St} {t : Tid} (tmo : Option Nat) (h : InvS' s) (hp : (s.loc t).pc = .idle)
    (hb : (s.loc t).bg = false) : InvS' (doCall s t (s.loc t) tmo) := by
  have ht := h.thr t
  have hra : (s.loc t).raising = false := ht.raising_false (by rw [hp]; rfl)
  have hlt : ∀ u, (s.loc u).hasSeq = true → (s.loc u).seq < s.seqCounter :=
    fun u hu => h.glob.issued_lt _ ((h.thr u).seq_issued hu)
  have hfr := h.glob.fresh s.seqCounter (Nat.le_refl _)
  unfold doCall
  refine { glob := ?_, thr := ?_, seq_inj := ?_ }
  · exact {
      issued_lt := fun q hq => by
        rcases List.mem_cons.1 hq with rfl | hq
        · exact Nat.lt_succ_self _
        · exact Nat.lt_succ_of_lt (h.glob.issued_lt q hq)
      issued_nodup := List.nodup_cons.2 ⟨fun hm => Nat.lt_irrefl _ (h.glob.issued_lt _ hm), h.glob.issued_nodup⟩
      fresh := fun q hq => h.glob.fresh q (Nat.le_of_succ_le hq)
      out_nodup := h.glob.out_nodup
      out_unanswered := fun q hq =>
        ⟨(h.glob.out_unanswered q hq).1, Nat.lt_succ_of_lt (h.glob.out_unanswered q hq).2⟩
      reg_clean := h.glob.reg_clean
      chan_answer := h.glob.chan_answer
      eofed_ready := h.glob.eofed_ready
      obj_answer := h.glob.obj_answer
      exc_answer := h.glob.exc_answer
      compl_le := h.glob.compl_le
      ready_compl := h.glob.ready_compl }
  · intro u
    by_cases hu : u = t
    · subst hu
      show ThrOK _ u ((setLoc s u _).loc u)
      rw [setLoc_loc_self]
      exact {
        bg_pc := by simp [hb]
        nowait_ok := by simp [ht.nowait_false_of_bg hb]
        raising_pc := by simp [hra]
        nodata := by simp [hra]
        seq_issued := fun _ => List.mem_cons_self
        at_c1 := fun _ _ => hfr
        at_c2 := by simp
        cb_pc := by simp
        completing := by simp [PC.completing]
        data_answer := by simp
        at_w10 := by simp
        result_ok := by simp
        self_dispatch := fun _ hr => by
          have : (s.cells s.seqCounter).ready = true := hr
          rw [hfr.1] at this; cases this
        dl_ttl := by simp [PC.inServe]
        wdl_le := by simp }
    · show ThrOK _ u ((setLoc s t _).loc u)
      rw [setLoc_loc_ne _ _ hu]
      exact (h.thr u).transfer (fun _ x => List.mem_cons_of_mem _ x) (fun _ _ x => x) (fun _ _ a b => ⟨a, b⟩)
        (fun _ x => ⟨x, rfl, rfl, rfl, rfl, rfl⟩) (fun _ _ x => x) (fun x => x) (fun _ a b => ⟨a, b⟩)
        (fun _ _ => rfl) (Nat.le_refl _) rfl (fun _ x => x)
  · intro u w
    show ((setLoc s t _).loc u).hasSeq = true → ((setLoc s t _).loc w).hasSeq = true →
      ((setLoc s t _).loc u).seq = ((setLoc s t _).loc w).seq → u = w
    by_cases hu : u = t <;> by_cases hw : w = t
    · intros; rw [hu, hw]
    · subst hu
      rw [setLoc_loc_self, setLoc_loc_ne _ _ hw]
      intro _ a e
      have := hlt w a
      rw [← e] at this
      exact absurd this (Nat.lt_irrefl _)
    · subst hw
      rw [setLoc_loc_self, setLoc_loc_ne _ _ hu]
      intro a _ e
      have := hlt u a
      rw [e] at this
      exact absurd this (Nat.lt_irrefl _)
    · rw [setLoc_loc_ne _ _ hu, setLoc_loc_ne _ _ hw]
      exact h.seq_inj u w

theorem invS'_c1 {s : St} {t : Tid} (h : InvS' s) (hp : (s.loc t).pc = .c1) : InvS' (doC1 s t (s.loc t)) := by
  have ht := h.thr t
  have hra : (s.loc t).raising = false := ht.raising_false (by rw [hp]; rfl)
  have hb : (s.loc t).bg = false := ht.bg_false_of_client (by rw [hp]; rfl)
  have hseq : (s.loc t).hasSeq = true := (hasSeq_iff _).2 ⟨hb, by rw [hp]; decide⟩
  obtain ⟨f1, f2, f3, f4, f5⟩ := ht.at_c1 hseq hp
  have hq : (s.loc t).seq < s.seqCounter := h.glob.issued_lt _ (ht.seq_issued hseq)
  unfold doC1
  refine h.step' t _ rfl (setPc_hasSeq' _ (by rw [hp]; decide)) ?_ ?_ ?_
  · refine h.glob.updAt (s.loc t).seq rfl rfl rfl rfl rfl (fun r hr => ?_) (fun _ _ => rfl) (fun _ _ => rfl) hq
      ?_ ?_ ?_ ?_ ?_ ?_ ?_
    · rw [setLoc_cells, setCell_cells_ne _ _ hr]
    · intro _; simp [f1, f4, f5]
    · simp [f1]
    · simp [f1]
    · simp [f5]
    · simp [f1]
    · rw [setLoc_cells, setCell_cells_self]
    · simp [f1]
  · exact {
      bg_pc := by simp [hb]
      nowait_ok := by simp [ht.nowait_false_of_bg hb]
      raising_pc := by simp [hra]
      nodata := by simp [hra]
      seq_issued := fun _ => ht.seq_issued hseq
      at_c1 := by simp
      at_c2 := fun _ _ _ => ⟨f2, f3⟩
      cb_pc := by simpa [hp, PC.completing] using ht.cb_pc
      completing := by simp [PC.completing]
      data_answer := fun f a => (ht.data_answer f a).imp id (fun x => by rw [setLoc_cells, setCell_eofed_of]; exact x; rfl)
      at_w10 := by simp
      result_ok := fun e o a => by
        obtain ⟨e', v, r1, r2, r3, r4⟩ := ht.result_ok e o a
        exact ⟨e', v, r1, r2, r3, by rw [setLoc_cells, setCell_ready_of]; exact r4; rfl⟩
      self_dispatch := fun _ hr => by simp [f1] at hr
      dl_ttl := by simp [PC.inServe]
      wdl_le := by simp }
  · intro u hu
    have hne : (s.loc u).hasSeq = true → (s.loc u).seq ≠ (s.loc t).seq := fun a e => hu (h.seq_inj u t a hseq e)
    refine (h.thr u).transfer (fun _ x => x) ?_ (fun _ _ a b => ⟨a, b⟩) ?_ (fun _ _ x => x) ?_ ?_ ?_ (Nat.le_refl _)
      rfl (fun r x => by rw [setLoc_cells, setCell_eofed_of]; exact x; rfl)
    · intro a _ fr
      exact freshSeq_of_eq fr (by rw [setLoc_cells, setCell_cells_ne _ _ (hne a)]) rfl (fun x => x) rfl rfl
    · intro q hq
      have : q ≠ (s.loc t).seq := fun e => by subst e; rw [f4] at hq; cases hq
      refine ⟨hq, rfl, ?_, ?_, ?_, ?_⟩ <;> rw [setLoc_cells, setCell_cells_ne _ _ this]
    · intro x; rw [setLoc_cells, setCell_ready_of]; exact x; rfl
    · intro _ a b; rw [setLoc_cells, setCell_ready_of] at a; exact ⟨a, b⟩; rfl
    · intro _ _; rw [setLoc_cells, setCell_ttl_of]; rfl

theorem invS'_c2_aux {s : St} {t : Tid} (p' : PC) (hp' : p' = .c3 ∨ p' = .w0) (h : InvS' s)
    (hp : (s.loc t).pc = .c2) (hcl : s.closed = false) :
    InvS' { setLoc s t { s.loc t with pc := p' } with outstanding := s.outstanding ++ [(s.loc t).seq] } := by
  have ht := h.thr t
  have hb : (s.loc t).bg = false := ht.bg_false_of_client (by rw [hp]; rfl)
  have hseq : (s.loc t).hasSeq = true := (hasSeq_iff _).2 ⟨hb, by rw [hp]; decide⟩
  obtain ⟨f2, f3⟩ := ht.at_c2 hseq hp hcl
  have hq : (s.loc t).seq < s.seqCounter := h.glob.issued_lt _ (ht.seq_issued hseq)
  have hok : PC.FrameOK .c2 p' := by rcases hp' with rfl | rfl <;> decide
  have hmem : ∀ r, r ∈ s.outstanding ++ [(s.loc t).seq] → r ∈ s.outstanding ∨ r = (s.loc t).seq := by
    intro r hr
    rcases List.mem_append.1 hr with x | x
    · exact .inl x
    · exact .inr (List.mem_singleton.1 x)
  refine h.step' t _ rfl (setPc_hasSeq' _ (by rw [hp]; decide)) ?_ ?_ ?_
  · exact {
      issued_lt := h.glob.issued_lt
      issued_nodup := h.glob.issued_nodup
      fresh := fun r hr => by
        refine freshSeq_of_eq (h.glob.fresh r hr) rfl rfl (fun x => ?_) rfl rfl
        rcases hmem r x with x | x
        · exact x
        · subst x; exact absurd hq (Nat.not_lt.2 hr)
      out_nodup := List.nodup_append.2 ⟨h.glob.out_nodup, List.pairwise_singleton _ _, fun a ha b hb => by
        rw [List.mem_singleton.1 hb]; intro e; subst e; exact f3 ha⟩
      out_unanswered := fun r hr => by
        rcases hmem r hr with x | x
        · exact h.glob.out_unanswered r x
        · subst x; exact ⟨f2, hq⟩
      reg_clean := h.glob.reg_clean
      chan_answer := h.glob.chan_answer
      eofed_ready := h.glob.eofed_ready
      obj_answer := h.glob.obj_answer
      exc_answer := h.glob.exc_answer
      compl_le := h.glob.compl_le
      ready_compl := h.glob.ready_compl }
  · refine (ht.setPc p' hp hok).transfer (fun _ x => x) ?_ ?_ (fun _ x => ⟨x, rfl, rfl, rfl, rfl, rfl⟩)
      (fun _ _ x => x) (fun x => x) (fun _ a b => ⟨a, b⟩) (fun _ _ => rfl) (Nat.le_refl _) rfl (fun _ x => x)
    · intro _ b; rcases hp' with rfl | rfl <;> cases b
    · intro _ b; rcases hp' with rfl | rfl <;> cases b
  · intro u hu
    have hne : (s.loc u).hasSeq = true → (s.loc u).seq ≠ (s.loc t).seq := fun a e => hu (h.seq_inj u t a hseq e)
    refine (h.thr u).transfer (fun _ x => x) ?_ ?_ (fun _ x => ⟨x, rfl, rfl, rfl, rfl, rfl⟩)
      (fun _ _ x => x) (fun x => x) (fun _ a b => ⟨a, b⟩) (fun _ _ => rfl) (Nat.le_refl _) rfl (fun _ x => x)
    · intro a _ fr
      refine freshSeq_of_eq fr rfl rfl (fun x => ?_) rfl rfl
      rcases hmem _ x with x | x
      · exact x
      · exact absurd x (hne a)
    · intro a _ x y
      refine ⟨x, fun z => ?_⟩
      rcases hmem _ z with z | z
      · exact y z
      · exact hne a z

theorem invS'_c2 {s : St} {t : Tid} (h : InvS' s) (hp : (s.loc t).pc = .c2) : InvS' (doC2 s t (s.loc t)) := by
  unfold doC2
  split
  · have ht := h.thr t
    have hb : (s.loc t).bg = false := ht.bg_false_of_client (by rw [hp]; rfl)
    have hcells : ∀ r, (setLoc (setCell s (s.loc t).seq { s.cells (s.loc t).seq with reg := false }) t
          { s.loc t with pc := .idle, result := some .eof }).cells r = s.cells r ∨
        (setLoc (setCell s (s.loc t).seq { s.cells (s.loc t).seq with reg := false }) t
          { s.loc t with pc := .idle, result := some .eof }).cells r = { s.cells r with reg := false } := by
      intro r
      rw [setLoc_cells]
      by_cases e : r = (s.loc t).seq
      · subst e; exact .inr (setCell_cells_self _ _ _)
      · exact .inl (setCell_cells_ne _ _ e)
    refine h.step' t _ rfl (by simp [Loc.hasSeq]) ?_ ?_ ?_
    · exact h.glob.clearReg rfl rfl rfl rfl rfl rfl (Nat.le_refl _) hcells
    · exact thrOK_idle (ht.clearReg h.glob rfl rfl rfl rfl rfl rfl rfl hcells) rfl hb (ht.nowait_false_of_bg hb)
        (ht.raising_false (by rw [hp]; rfl)) (ht.cb_none (by rw [hp]; rfl)) rfl rfl (by simp)
    · intro u _
      exact (h.thr u).clearReg h.glob rfl rfl rfl rfl rfl rfl rfl hcells
  · rename_i hcl
    exact invS'_c2_aux _ (by split <;> simp) h hp (by simpa using hcl)

theorem invS'_c3 {s : St} {t : Tid} (h : InvS' s) (hp : (s.loc t).pc = .c3) : InvS' (doC3 s t (s.loc t)) := by
  have ht := h.thr t
  have hb : (s.loc t).bg = false := ht.bg_false_of_client (by rw [hp]; rfl)
  have hseq : (s.loc t).hasSeq = true := (hasSeq_iff _).2 ⟨hb, by rw [hp]; decide⟩
  have hq : (s.loc t).seq < s.seqCounter := h.glob.issued_lt _ (ht.seq_issued hseq)
  unfold doC3
  refine h.step' t _ rfl (setPc_hasSeq' _ (by rw [hp]; decide)) ?_ ?_ ?_
  · refine h.glob.updAt (s.loc t).seq rfl rfl rfl rfl rfl (fun r hr => ?_) (fun _ _ => rfl) (fun _ _ => rfl) hq
      ?_ ?_ ?_ ?_ ?_ ?_ ?_
    · rw [setLoc_cells, setCell_cells_ne _ _ hr]
    · rw [setLoc_cells, setCell_cells_self]; exact h.glob.reg_clean _
    · rw [setLoc_cells, setCell_cells_self]; exact h.glob.obj_answer _
    · rw [setLoc_cells, setCell_cells_self]; exact h.glob.exc_answer _
    · exact h.glob.compl_le _
    · rw [setLoc_cells, setCell_cells_self]; exact h.glob.ready_compl _
    · rw [setLoc_cells, setCell_cells_self]
    · rw [setLoc_cells, setCell_cells_self]; exact h.glob.eofed_ready _
  · refine (ht.setPc .w0 hp (by decide)).transfer (fun _ x => x) ?_ ?_ ?_
      (fun _ _ x => x) ?_ ?_ ?_ (Nat.le_refl _) rfl (fun r x => by rw [setLoc_cells, setCell_eofed_of]; exact x; rfl)
    · intro _ b; cases b
    · intro _ b; cases b
    · intro q hq
      refine ⟨hq, rfl, ?_, ?_, ?_, ?_⟩ <;> rw [setLoc_cells]
      · rw [setCell_reg_of]; rfl
      · rw [setCell_ready_of]; rfl
      · rw [setCell_isExc_of]; rfl
      · rw [setCell_obj_of]; rfl
    · intro x; rw [setLoc_cells, setCell_ready_of]; exact x; rfl
    · intro _ a b; rw [setLoc_cells, setCell_ready_of] at a; exact ⟨a, b⟩; rfl
    · intro _ b; cases b
  · intro u hu
    have hne : (s.loc u).hasSeq = true → (s.loc u).seq ≠ (s.loc t).seq := fun a e => hu (h.seq_inj u t a hseq e)
    refine (h.thr u).transfer (fun _ x => x) ?_ (fun _ _ a b => ⟨a, b⟩) ?_ (fun _ _ x => x) ?_ ?_ ?_ (Nat.le_refl _)
      rfl (fun r x => by rw [setLoc_cells, setCell_eofed_of]; exact x; rfl)
    · intro a _ fr
      exact freshSeq_of_eq fr (by rw [setLoc_cells, setCell_cells_ne _ _ (hne a)]) rfl (fun x => x) rfl rfl
    · intro q hq
      refine ⟨hq, rfl, ?_, ?_, ?_, ?_⟩ <;> rw [setLoc_cells]
      · rw [setCell_reg_of]; rfl
      · rw [setCell_ready_of]; rfl
      · rw [setCell_isExc_of]; rfl
      · rw [setCell_obj_of]; rfl
    · intro x; rw [setLoc_cells, setCell_ready_of]; exact x; rfl
    · intro _ a b; rw [setLoc_cells, setCell_ready_of] at a; exact ⟨a, b⟩; rfl
    · intro a _; rw [setLoc_cells, setCell_cells_ne _ _ (hne a)]

theorem invS'_d1 {s s' : St} {t : Tid} (h : InvS' s) (hp : (s.loc t).pc = .d1)
    (hs : doD1 s t (s.loc t) = some s') : InvS' s' := by
  have ht := h.thr t
  unfold doD1 at hs
  split at hs
  · cases hs
  · rename_i f hd
    have hra : (s.loc t).raising = false := ht.raising_false_of_data hd
    split at hs
    · rename_i hreg
      cases hs
      obtain ⟨g1, g2, g3⟩ := h.glob.reg_clean _ hreg
      have eofd : ∀ r, (s.cells r).eofed = true →
          ((setCell (markDispatched s f) f.seq { s.cells f.seq with reg := false }).cells r).eofed = true :=
        fun r x => by rw [setCell_eofed_of]; exact x; rfl
      have hq : f.seq < s.seqCounter := Nat.lt_of_not_le (fun hle => by
        have := (h.glob.fresh _ hle).1
        rw [this] at hreg; cases hreg)
      have rdy : ∀ r, ((setCell (markDispatched s f) f.seq { s.cells f.seq with reg := false }).cells r).ready
          = (s.cells r).ready := fun r => by rw [setCell_ready_of]; rfl; rfl
      have ttl : ∀ r, ((setCell (markDispatched s f) f.seq { s.cells f.seq with reg := false }).cells r).ttl
          = (s.cells r).ttl := fun r => by rw [setCell_ttl_of]; rfl; rfl
      have cne : ∀ r, r ≠ f.seq →
          (setCell (markDispatched s f) f.seq { s.cells f.seq with reg := false }).cells r = s.cells r :=
        fun r hr => by rw [setCell_cells_ne _ _ hr]; rfl
      have pne : ∀ r, r ≠ f.seq → (if r = f.seq then some t else s.popper r) = s.popper r :=
        fun r hr => if_neg hr
      refine h.step' t _ rfl (by simp [Loc.hasSeq, hp]) ?_ ?_ ?_
      · refine h.glob.updAt f.seq rfl rfl rfl rfl rfl cne pne (fun _ _ => rfl) hq ?_ ?_ ?_ ?_ ?_ ?_ ?_
        rotate_right 2
        · simp only [setLoc_cells, setCell_cells_self]
        · intro x
          have : (s.cells f.seq).eofed = true := by
            simpa only [setLoc_cells, setCell_cells_self] using x
          rw [h.glob.eofed_unreg _ this] at hreg; cases hreg
        · simp
        · simp only [setLoc_cells, setCell_cells_self]; exact h.glob.obj_answer _
        · simp only [setLoc_cells, setCell_cells_self]; exact h.glob.exc_answer _
        · exact h.glob.compl_le _
        · intro x
          have := (rdy f.seq).symm.trans x
          rw [g3] at this; cases this
      · exact {
          bg_pc := by simp [PC.client]
          nowait_ok := by simpa [hp, PC.bgLoop] using ht.nowait_ok
          raising_pc := by simp [hra]
          nodata := by simp [hra]
          seq_issued := by simpa [Loc.hasSeq, hp] using ht.seq_issued
          at_c1 := by simp
          at_c2 := by simp
          cb_pc := by simp [PC.completing]
          completing := fun _ => ⟨f.seq, f, rfl, hd, rfl, by simp, by simp, g2, (rdy f.seq).trans g3, by simp, by simp⟩
          data_answer := fun g a => (ht.data_answer g a).imp id (eofd _)
          at_w10 := by simp
          result_ok := fun e o a => by
            obtain ⟨e', v, r1, r2, r3, r4⟩ := ht.result_ok e o a
            exact ⟨e', v, r1, r2, r3, (rdy _).trans r4⟩
          self_dispatch := fun a b c => by
            have b' := (rdy _).symm.trans b
            have a' : (s.loc t).hasSeq = true := by simpa [Loc.hasSeq, hp] using a
            by_cases e : (s.loc t).seq = f.seq
            · rw [show (s.cells (s.loc t).seq).ready = (s.cells f.seq).ready from by rw [e], g3] at b'
              cases b'
            · have c' : s.popper (s.loc t).seq = some t := (pne _ e).symm.trans c
              rcases ht.self_dispatch a' b' c' with x | x
              · rw [hp] at x; cases x
              · rw [hra] at x; cases x
          dl_ttl := fun a b => by
            have a' : (s.loc t).hasSeq = true := by simpa [Loc.hasSeq, hp] using a
            exact (ht.dl_ttl a' (by rw [hp]; rfl)).trans (ttl _).symm
          wdl_le := by simp }
      · intro u hu
        refine (h.thr u).transfer (fun _ x => x) ?_ (fun _ _ a b => ⟨a, b⟩) ?_ (fun _ _ x => x) ?_ ?_ ?_ (Nat.le_refl _)
          rfl eofd
        · intro _ _ fr
          have : (s.loc u).seq ≠ f.seq := fun e => by
            have := fr.1
            rw [e] at this; rw [this] at hreg; cases hreg
          exact freshSeq_of_eq fr (cne _ this) rfl (fun x => x) (pne _ this) rfl
        · intro r hr
          have : r ≠ f.seq := fun e => by subst e; rw [g1] at hr; cases hr
          refine ⟨(pne r this).trans hr, rfl, ?_, ?_, ?_, ?_⟩ <;>
            simp only [setLoc_cells, setCell_cells_ne _ _ this, markDispatched_cells]
        · intro x; exact (rdy _).trans x
        · intro _ a b
          refine ⟨(rdy _).symm.trans a, ?_⟩
          by_cases e : (s.loc u).seq = f.seq
          · have : some t = some u := (if_pos e).symm.trans b
            cases this; exact absurd rfl hu
          · exact (pne _ e).symm.trans b
        · intro _ _; exact ttl _
    · cases hs
      exact h.locOnly' _ same_glob rfl (ht.leaveServe (by rw [hp]; decide) hra)
        (leaveServe_hasSeq (by rw [hp]; decide))

theorem invS'_d3 {s s' : St} {t : Tid} (h : InvS' s) (hp : (s.loc t).pc = .d3)
    (hs : doD3 s t (s.loc t) = some s') : InvS' s' := by
  have ht := h.thr t
  have hra : (s.loc t).raising = false := ht.raising_false (by rw [hp]; rfl)
  unfold doD3 at hs
  split at hs
  · rename_i q f hcb hd
    cases hs
    obtain ⟨f0, d0, c3, c4, c5, c6, c7, _, _⟩ := ht.compl_facts (by rw [hp]; rfl) hcb
    rw [hd] at d0; cases d0
    have hq : q < s.seqCounter := Nat.lt_of_not_le (fun hle => by
      have := (h.glob.fresh _ hle).2.2.2.1
      rw [c4] at this; cases this)
    have hne : (s.cells q).eofed = false := h.glob.not_eofed c7
    have hans : s.answer q = some (f.exc, f.val) := by
      rcases ht.data_answer f hd with x | x
      · rw [c3] at x; exact x
      · rw [c3, hne] at x; cases x
    refine h.step' t _ rfl (setPc_hasSeq' _ (by rw [hp]; decide)) ?_ ?_ ?_
    · refine h.glob.updAt q rfl rfl rfl rfl rfl (fun r hr => ?_) (fun _ _ => rfl) (fun _ _ => rfl) hq ?_ ?_ ?_ ?_ ?_
        ?_ ?_
      rotate_right 2
      · rw [setLoc_cells, setCell_cells_self]
      · rw [setLoc_cells, setCell_cells_self]
        intro x
        have : (s.cells q).eofed = true := x
        rw [hne] at this; cases this
      · rw [setLoc_cells, setCell_cells_ne _ _ hr]
      · rw [setLoc_cells, setCell_cells_self]; exact h.glob.reg_clean _
      · rw [setLoc_cells, setCell_cells_self]; exact h.glob.obj_answer _
      · rw [setLoc_cells, setCell_cells_self]
        intro e he
        cases he
        exact ⟨f.val, hans⟩
      · exact h.glob.compl_le _
      · rw [setLoc_cells, setCell_cells_self]
        intro x
        have : (s.cells q).ready = true := x
        rw [c7] at this; cases this
    · exact {
        bg_pc := by simp [PC.client]
        nowait_ok := by simpa [hp, PC.bgLoop] using ht.nowait_ok
        raising_pc := by simp [hra]
        nodata := by simp [hra]
        seq_issued := by simpa [Loc.hasSeq, hp] using ht.seq_issued
        at_c1 := by simp
        at_c2 := by simp
        cb_pc := by simp [PC.completing]
        completing := fun _ => ⟨q, f, hcb, hd, c3, c4, by simpa using c5, c6, by simpa using c7, by simp, by simp⟩
        data_answer := fun f a => (ht.data_answer f a).imp id (fun x => by rw [setLoc_cells, setCell_eofed_of]; exact x; rfl)
        at_w10 := by simp
        result_ok := fun e o a => by
          obtain ⟨e', v, r1, r2, r3, r4⟩ := ht.result_ok e o a
          exact ⟨e', v, r1, r2, r3, by rw [setLoc_cells, setCell_ready_of]; exact r4; rfl⟩
        self_dispatch := fun a b c => by
          have a' : (s.loc t).hasSeq = true := by simpa [Loc.hasSeq, hp] using a
          rw [setLoc_cells, setCell_ready_of] at b
          · rcases ht.self_dispatch a' b c with x | x
            · rw [hp] at x; cases x
            · rw [hra] at x; cases x
          · rfl
        dl_ttl := fun a b => by
          have a' : (s.loc t).hasSeq = true := by simpa [Loc.hasSeq, hp] using a
          rw [setLoc_cells, setCell_ttl_of]
          · exact ht.dl_ttl a' (by rw [hp]; rfl)
          · rfl
        wdl_le := by simp }
    · intro u hu
      refine (h.thr u).other_completing hu c4 rfl rfl rfl rfl rfl (fun r hr => ?_) (fun _ _ => rfl) ?_ ?_ rfl ?_
      · rw [setLoc_cells, setCell_cells_ne _ _ hr]
      · intro x; rw [setLoc_cells, setCell_cells_self]; exact x
      · rw [setLoc_cells, setCell_cells_self]
      · rw [setLoc_cells, setCell_cells_self]
  · cases hs

theorem invS'_d4 {s s' : St} {t : Tid} (h : InvS' s) (hp : (s.loc t).pc = .d4)
    (hs : doD4 s t (s.loc t) = some s') : InvS' s' := by
  have ht := h.thr t
  have hra : (s.loc t).raising = false := ht.raising_false (by rw [hp]; rfl)
  unfold doD4 at hs
  split at hs
  · rename_i q f hcb hd
    cases hs
    obtain ⟨f0, d0, c3, c4, c5, c6, c7, c8, _⟩ := ht.compl_facts (by rw [hp]; rfl) hcb
    rw [hd] at d0; cases d0
    have c8 := c8 (.inl hp)
    have hq : q < s.seqCounter := Nat.lt_of_not_le (fun hle => by
      have := (h.glob.fresh _ hle).2.2.2.1
      rw [c4] at this; cases this)
    have hne : (s.cells q).eofed = false := h.glob.not_eofed c7
    have hans : s.answer q = some (f.exc, f.val) := by
      rcases ht.data_answer f hd with x | x
      · rw [c3] at x; exact x
      · rw [c3, hne] at x; cases x
    refine h.step' t _ rfl (setPc_hasSeq' _ (by rw [hp]; decide)) ?_ ?_ ?_
    · refine h.glob.updAt q rfl rfl rfl rfl rfl (fun r hr => ?_) (fun _ _ => rfl) (fun _ _ => rfl) hq ?_ ?_ ?_ ?_ ?_
        ?_ ?_
      rotate_right 2
      · rw [setLoc_cells, setCell_cells_self]
      · rw [setLoc_cells, setCell_cells_self]
        intro x
        have : (s.cells q).eofed = true := x
        rw [hne] at this; cases this
      · rw [setLoc_cells, setCell_cells_ne _ _ hr]
      · rw [setLoc_cells, setCell_cells_self]; exact h.glob.reg_clean _
      · rw [setLoc_cells, setCell_cells_self]
        intro v hv
        cases hv
        exact ⟨f.exc, hans⟩
      · rw [setLoc_cells, setCell_cells_self]; exact h.glob.exc_answer _
      · exact h.glob.compl_le _
      · rw [setLoc_cells, setCell_cells_self]
        intro x
        have : (s.cells q).ready = true := x
        rw [c7] at this; cases this
    · exact {
        bg_pc := by simp [PC.client]
        nowait_ok := by simpa [hp, PC.bgLoop] using ht.nowait_ok
        raising_pc := by simp [hra]
        nodata := by simp [hra]
        seq_issued := by simpa [Loc.hasSeq, hp] using ht.seq_issued
        at_c1 := by simp
        at_c2 := by simp
        cb_pc := by simp [PC.completing]
        completing := fun _ => ⟨q, f, hcb, hd, c3, c4, by simpa using c5, c6, by simpa using c7,
          by simpa using c8, by simp⟩
        data_answer := fun f a => (ht.data_answer f a).imp id (fun x => by rw [setLoc_cells, setCell_eofed_of]; exact x; rfl)
        at_w10 := by simp
        result_ok := fun e o a => by
          obtain ⟨e', v, r1, r2, r3, r4⟩ := ht.result_ok e o a
          exact ⟨e', v, r1, r2, r3, by rw [setLoc_cells, setCell_ready_of]; exact r4; rfl⟩
        self_dispatch := fun a b c => by
          have a' : (s.loc t).hasSeq = true := by simpa [Loc.hasSeq, hp] using a
          rw [setLoc_cells, setCell_ready_of] at b
          · rcases ht.self_dispatch a' b c with x | x
            · rw [hp] at x; cases x
            · rw [hra] at x; cases x
          · rfl
        dl_ttl := fun a b => by
          have a' : (s.loc t).hasSeq = true := by simpa [Loc.hasSeq, hp] using a
          rw [setLoc_cells, setCell_ttl_of]
          · exact ht.dl_ttl a' (by rw [hp]; rfl)
          · rfl
        wdl_le := by simp }
    · intro u hu
      refine (h.thr u).other_completing hu c4 rfl rfl rfl rfl rfl (fun r hr => ?_) (fun _ _ => rfl) ?_ ?_ rfl ?_
      · rw [setLoc_cells, setCell_cells_ne _ _ hr]
      · intro x; rw [setLoc_cells, setCell_cells_self]; exact x
      · rw [setLoc_cells, setCell_cells_self]
      · rw [setLoc_cells, setCell_cells_self]
  · cases hs

theorem invS'_d5 {s s' : St} {t : Tid} (h : InvS' s) (hp : (s.loc t).pc = .d5)
    (hs : doD5 s t (s.loc t) = some s') : InvS' s' := by
  have ht := h.thr t
  unfold doD5 at hs
  split at hs
  · rename_i q hcb
    cases hs
    obtain ⟨f, hd, c3, c4, c5, c6, c7, c8, c9⟩ := ht.compl_facts (by rw [hp]; rfl) hcb
    have c8 := c8 (.inr hp)
    have c9 := c9 hp
    have hq : q < s.seqCounter := Nat.lt_of_not_le (fun hle => by
      have := (h.glob.fresh _ hle).2.2.2.1
      rw [c4] at this; cases this)
    have cne : ∀ r, r ≠ q → (if r = q then s.completions r + 1 else s.completions r) = s.completions r :=
      fun r hr => if_neg hr
    have ceq : (if q = q then s.completions q + 1 else s.completions q) = 1 := by
      rw [if_pos rfl, c6]
    refine h.step' t _ rfl (leaveServe_hasSeq (by rw [hp]; decide)) ?_ ?_ ?_
    · refine h.glob.updAt q rfl rfl rfl rfl rfl (fun r hr => ?_) (fun _ _ => rfl) cne hq ?_ ?_ ?_ ?_ ?_ ?_ ?_
      rotate_right 2
      · show ((setCell _ _ _).cells q).eofed = _
        rw [setCell_cells_self]
      · show _ → ((setCell _ _ _).cells q).ready = true
        rw [setCell_cells_self]
        intro _; rfl
      · show (setCell _ _ _).cells r = _
        rw [setCell_cells_ne _ _ hr]
      · show ((setCell _ _ _).cells q).reg = true → _
        rw [setCell_cells_self]
        intro x
        have : (s.cells q).reg = true := x
        rw [c5] at this; cases this
      · show ∀ v, ((setCell _ _ _).cells q).obj = some v → _
        rw [setCell_cells_self]; exact h.glob.obj_answer _
      · show ∀ e, ((setCell _ _ _).cells q).isExc = some e → _
        rw [setCell_cells_self]; exact h.glob.exc_answer _
      · exact Nat.le_of_eq ceq
      · show ((setCell _ _ _).cells q).ready = true → _ ∧ ((setCell _ _ _).cells q).obj.isSome = true ∧
          ((setCell _ _ _).cells q).isExc.isSome = true
        rw [setCell_cells_self]
        intro _
        refine ⟨ceq, ?_, ?_⟩
        · show (s.cells q).obj.isSome = true
          rw [c9]; rfl
        · show (s.cells q).isExc.isSome = true
          rw [c8]; rfl
    · refine thrOK_leaveServe (fun hn => (ht.nowait_ok hn).1) (ht.raising_false (by rw [hp]; rfl))
        (fun hb => ht.seq_issued ((hasSeq_iff _).2 ⟨hb, by rw [hp]; decide⟩)) (fun e o a => ?_)
      obtain ⟨e', v, r1, r2, r3, r4⟩ := ht.result_ok e o a
      refine ⟨e', v, r1, r2, r3, ?_⟩
      show ((setCell _ _ _).cells _).ready = true
      rw [setCell_cells]; split
      · rfl
      · exact r4
    · intro u hu
      refine (h.thr u).other_completing hu c4 rfl rfl rfl rfl rfl (fun r hr => ?_) cne ?_ ?_ rfl ?_
      rotate_right
      · show ((setCell _ _ _).cells q).eofed = _
        rw [setCell_cells_self]
      · show (setCell _ _ _).cells r = _
        rw [setCell_cells_ne _ _ hr]
      · intro _
        show ((setCell _ _ _).cells q).ready = true
        rw [setCell_cells_self]
      · show ((setCell _ _ _).cells q).ttl = _
        rw [setCell_cells_self]
  · cases hs

/-- the peer writes a reply frame for `q` (first answer or a repetition of it): what both cases need -/
theorem invS'_peer_aux {s : St} {q : Seq} (exc : Bool) (v : Nat) (h : InvS' s) (hlt : q < s.seqCounter)
    (hans : ∀ r x, s.answer r = some x → (if r = q then some (exc, v) else s.answer r) = some x)
    (hout : ∀ r, r ∈ s.outstanding.erase q → r ≠ q)
    (hnone : ∀ r, s.answer r = none → r ∉ s.outstanding → r ≠ q) :
    InvS' (doPeer s q exc v) := by
  have ane : ∀ r, r ≠ q → (if r = q then some (exc, v) else s.answer r) = s.answer r := fun r hr => if_neg hr
  unfold doPeer
  refine { glob := ?_, thr := ?_, seq_inj := h.seq_inj }
  · exact {
      issued_lt := h.glob.issued_lt
      issued_nodup := h.glob.issued_nodup
      fresh := fun r hr => by
        have : r ≠ q := Nat.ne_of_gt (Nat.lt_of_lt_of_le hlt hr)
        exact freshSeq_of_eq (h.glob.fresh r hr) rfl (ane r this) List.mem_of_mem_erase rfl rfl
      out_nodup := h.glob.out_nodup.erase q
      out_unanswered := fun r hr => by
        have r1 := hout r hr
        obtain ⟨r3, r4⟩ := h.glob.out_unanswered r (List.mem_of_mem_erase hr)
        exact ⟨(ane r r1).trans r3, r4⟩
      reg_clean := h.glob.reg_clean
      chan_answer := fun f hf => by
        rcases List.mem_append.1 hf with x | x
        · exact (h.glob.chan_answer f x).imp (hans _ _) id
        · rw [List.mem_singleton.1 x]
          exact .inl (if_pos rfl)
      eofed_ready := h.glob.eofed_ready
      obj_answer := fun r w hw => by
        obtain ⟨e, he⟩ := h.glob.obj_answer r w hw
        exact ⟨e, hans _ _ he⟩
      exc_answer := fun r e he => by
        obtain ⟨w, hw⟩ := h.glob.exc_answer r e he
        exact ⟨w, hans _ _ hw⟩
      compl_le := h.glob.compl_le
      ready_compl := h.glob.ready_compl }
  · intro u
    refine (h.thr u).transfer (fun _ x => x) ?_ ?_ (fun _ x => ⟨x, rfl, rfl, rfl, rfl, rfl⟩) hans (fun x => x)
      (fun _ a b => ⟨a, b⟩) (fun _ _ => rfl) (Nat.le_refl _) rfl (fun _ x => x)
    · intro _ _ fr
      have : (s.loc u).seq ≠ q := hnone _ fr.2.1 fr.2.2.1
      exact freshSeq_of_eq fr rfl (ane _ this) List.mem_of_mem_erase rfl rfl
    · intro _ _ a b
      have : (s.loc u).seq ≠ q := hnone _ a b
      exact ⟨(ane _ this).trans a, fun x => b (List.mem_of_mem_erase x)⟩

theorem invS'_peer {s : St} {q : Seq} (exc : Bool) (v : Nat) (h : InvS' s) (hq : q ∈ s.outstanding) :
    InvS' (doPeer s q exc v) := by
  obtain ⟨a0, hlt⟩ := h.glob.out_unanswered q hq
  refine invS'_peer_aux exc v h hlt ?_ (fun r hr => ((h.glob.out_nodup.mem_erase_iff).1 hr).1)
    (fun r _ b e => b (e ▸ hq))
  intro r x hx
  have : r ≠ q := fun e => by subst e; rw [a0] at hx; cases hx
  rw [if_neg this]; exact hx

/-- the peer repeats the answer it already gave -/
theorem invS'_peerDup {s : St} {q : Seq} (exc : Bool) (v : Nat) (h : InvS' s) (ha : s.answer q = some (exc, v)) :
    InvS' (doPeer s q exc v) := by
  have hlt : q < s.seqCounter := Nat.lt_of_not_le (fun hle => by
    have := (h.glob.fresh _ hle).2.1
    rw [ha] at this; cases this)
  refine invS'_peer_aux exc v h hlt ?_ ?_ ?_
  · intro r x hx
    by_cases e : r = q
    · subst e; rw [if_pos rfl, ← ha]; exact hx
    · rw [if_neg e]; exact hx
  · intro r hr e
    have := (h.glob.out_unanswered r (List.mem_of_mem_erase hr)).1
    rw [e, ha] at this; cases this
  · intro r a _ e
    rw [e, ha] at a; cases a

/-! ### the theorems -/

theorem invS'_init : InvS' init where
  glob := {
    issued_lt := by simp [init]
    issued_nodup := by simp [init]
    fresh := fun _ _ => ⟨rfl, rfl, by simp [init], rfl, rfl⟩
    out_nodup := by simp [init]
    out_unanswered := by simp [init]
    reg_clean := by simp [init]
    chan_answer := by simp [init]
    eofed_ready := by simp [init]
    obj_answer := by simp [init]
    exc_answer := by simp [init]
    compl_le := by simp [init]
    ready_compl := by simp [init] }
  thr := fun t => {
    bg_pc := by simp [init]
    nowait_ok := by simp [init]
    raising_pc := by simp [init]
    nodata := by simp [init]
    seq_issued := by simp [init, Loc.hasSeq]
    at_c1 := by simp [init]
    at_c2 := by simp [init]
    cb_pc := by simp [init]
    completing := by simp [init, PC.completing]
    data_answer := by simp [init]
    at_w10 := by simp [init]
    result_ok := by simp [init]
    self_dispatch := by simp [init, Loc.hasSeq]
    dl_ttl := by simp [init, Loc.hasSeq]
    wdl_le := by simp [init] }
  seq_inj := by simp [init, Loc.hasSeq]

theorem invS'_run {s s' : St} (t : Tid) (h : InvS' s) (hs : stepRun s t = some s') : InvS' s' := by
  simp only [stepRun] at hs
  generalize hpc : (s.loc t).pc = pc at hs
  cases pc <;> simp only [Option.some.injEq, reduceCtorEq] at hs
  case c1 => exact hs ▸ invS'_c1 h hpc
  case c2 => exact hs ▸ invS'_c2 h hpc
  case c3 => exact hs ▸ invS'_c3 h hpc
  case w0 => exact hs ▸ invS'_w0 h hpc
  case s0 => exact hs ▸ invS'_s0 h hpc
  case s1 => exact invS'_s1 h hpc hs
  case s2 => exact hs ▸ invS'_s2 h hpc
  case s2w => exact hs ▸ invS'_s2w h hpc
  case s2f => exact hs ▸ invS'_s2f h hpc
  case q1 => exact hs ▸ invS'_q1 h hpc
  case zz => exact invS'_zz h hpc hs
  case s2r => exact invS'_s2r h hpc hs
  case s3 => exact hs ▸ invS'_s3 h hpc
  case p0 => exact invS'_p0 h hpc hs
  case x0 => exact hs ▸ invS'_x0 h hpc
  case r0 => exact hs ▸ invS'_r0 h hpc
  case n0 => exact invS'_n0 h hpc hs
  case n1 => exact hs ▸ invS'_n1 h hpc
  case n2 => exact hs ▸ invS'_n2 h hpc
  case d0 => exact hs ▸ invS'_d0 h hpc
  case d1 => exact invS'_d1 h hpc hs
  case d2 => exact invS'_d2 h hpc hs
  case d3 => exact invS'_d3 h hpc hs
  case d4 => exact invS'_d4 h hpc hs
  case d5 => exact invS'_d5 h hpc hs
  case w9 => exact hs ▸ invS'_w9 h hpc
  case w10 => exact hs ▸ invS'_w10 h hpc
  case b0 => exact hs ▸ invS'_b0 h hpc
  case bS => exact hs ▸ invS'_bS h hpc

theorem invS'_step {s s' : St} (a : Actor) (h : InvS' s) (hs : step s a = some s') : InvS' s' := by
  cases a with
  | call t tmo =>
    simp only [step] at hs
    split at hs
    · rename_i hc; cases hs; exact invS'_call tmo h hc.1 hc.2
    · cases hs
  | bg t =>
    simp only [step] at hs
    split at hs
    · rename_i hc; cases hs; exact invS'_bg h hc.1 hc.2
    · cases hs
  | pollAll t d =>
    simp only [step] at hs
    split at hs
    · rename_i hc; cases hs; exact invS'_pollAll d h hc.1
    · cases hs
  | stop t =>
    simp only [step] at hs
    split at hs
    · rename_i hc; cases hs; exact invS'_stop h hc
    · cases hs
  | run t => exact invS'_run t h hs
  | peer q exc v =>
    simp only [step] at hs
    split at hs
    · rename_i hc; cases hs; exact invS'_peer exc v h hc.1
    · cases hs
  | peerDup q exc v =>
    simp only [step] at hs
    split at hs
    · rename_i hc; cases hs; exact invS'_peerDup exc v h hc.1
    · cases hs
  | peerEof =>
    simp only [step] at hs
    split at hs
    · cases hs
      exact h.locOnly 0 same_glob (fun _ _ => rfl) (h.thr 0) (fun x => ⟨x, rfl⟩)
    · cases hs
  | tick d =>
    simp only [step, Option.some.injEq] at hs
    exact hs ▸ invS'_tick d h

theorem invS'_of_reachable {s : St} (h : Reachable s) : InvS' s := by
  induction h with
  | init => exact invS'_init
  | step a _ hs ih => exact invS'_step a ih hs

theorem invS_init : InvS init := invS'_init.toInvS

theorem invSX_init : InvSX init := invS'_init.toInvSX

/-- `InvS` is preserved by every step, given the two extra facts `InvSX` about background threads … -/
theorem invS_step {s s' : St} (a : Actor) (h : InvS s) (hx : InvSX s) (hs : step s a = some s') : InvS s' :=
  (invS'_step a (InvS'.of_InvS h hx) hs).toInvS

/-- … which are preserved as well -/
theorem invSX_step {s s' : St} (a : Actor) (h : InvS s) (hx : InvSX s) (hs : step s a = some s') : InvSX s' :=
  (invS'_step a (InvS'.of_InvS h hx) hs).toInvSX

theorem invS_of_reachable {s : St} (h : Reachable s) : InvS s := (invS'_of_reachable h).toInvS

theorem invSX_of_reachable {s : St} (h : Reachable s) : InvSX s := (invS'_of_reachable h).toInvSX

/-- one step from a reachable state keeps `InvS` (the form of `invS_step` that needs no extra hypothesis) -/
theorem invS_step_of_reachable {s s' : St} (a : Actor) (h : Reachable s) (hs : step s a = some s') : InvS s' :=
  invS_of_reachable (Reachable.step a h hs)

/-! ### `InvS` alone is not inductive

A (unreachable) state in which a background thread at `b0` carries a stale `result` satisfies `InvS`
(`result_ok` only speaks about `bg = false`); `.stop` makes the thread a client again and `result_ok` fails. -/

def cexS : St :=
  { loc := fun t => if t = 0 then { pc := .b0, bg := true, result := some (.value (some true) (some 0)) } else {} }

theorem cexS_loc (t : Tid) : cexS.loc t = { pc := .b0, bg := true, result := some (.value (some true) (some 0)) } ∨
    cexS.loc t = {} := by
  by_cases h : t = 0
  · exact .inl (if_pos h)
  · exact .inr (if_neg h)

theorem invS_cexS : InvS cexS where
  issued_lt := by simp [cexS]
  issued_nodup := by simp [cexS]
  seq_issued := fun t => by rcases cexS_loc t with h | h <;> rw [h] <;> simp [Loc.hasSeq]
  seq_inj := fun t u => by rcases cexS_loc t with h | h <;> rw [h] <;> simp [Loc.hasSeq]
  fresh := fun _ _ => ⟨rfl, rfl, by simp [cexS], rfl, rfl⟩
  at_c1 := fun t => by rcases cexS_loc t with h | h <;> rw [h] <;> simp [Loc.hasSeq]
  at_c2 := fun t => by rcases cexS_loc t with h | h <;> rw [h] <;> simp [Loc.hasSeq]
  out_nodup := by simp [cexS]
  out_unanswered := by simp [cexS]
  reg_clean := by simp [cexS]
  cb_pc := fun t => by rcases cexS_loc t with h | h <;> rw [h] <;> simp
  completing := fun t => by rcases cexS_loc t with h | h <;> rw [h] <;> simp [PC.completing]
  chan_answer := by simp [cexS]
  data_answer := fun t => by rcases cexS_loc t with h | h <;> rw [h] <;> simp
  eofed_unreg := by simp [cexS]
  raising_pc := fun t => by rcases cexS_loc t with h | h <;> rw [h] <;> simp
  obj_answer := by simp [cexS]
  exc_answer := by simp [cexS]
  compl_le := by simp [cexS]
  ready_compl := by simp [cexS]
  at_w10 := fun t => by rcases cexS_loc t with h | h <;> rw [h] <;> simp [Loc.hasSeq]
  result_ok := fun t => by rcases cexS_loc t with h | h <;> rw [h] <;> simp
  self_dispatch := fun t => by rcases cexS_loc t with h | h <;> rw [h] <;> simp [Loc.hasSeq]
  dl_ttl := fun t => by rcases cexS_loc t with h | h <;> rw [h] <;> simp [Loc.hasSeq]
  wdl_le := fun t => by rcases cexS_loc t with h | h <;> rw [h] <;> simp

/-- `invS_step` without `InvSX` is false -/
theorem invS_not_inductive : ∃ s s' a, InvS s ∧ step s a = some s' ∧ ¬ InvS s' := by
  refine ⟨cexS, setLoc cexS 0 { cexS.loc 0 with pc := .idle, bg := false }, .stop 0, invS_cexS, ?_, ?_⟩
  · simp [step, cexS]
  · intro h
    obtain ⟨e', v, ha, _⟩ := h.result_ok 0 (some true) (some 0) (by simp) (by simp [cexS])
    simp [cexS] at ha

end Rpyc.Conc.Serve
