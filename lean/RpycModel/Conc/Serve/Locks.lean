import RpycModel.Conc.Serve.Basic
/-
`InvL` (locks, wait-set, wake-ups) holds in every reachable state of the receive-side machine, and
what follows from it: the receive region is exclusive (`recv_exclusive`), no wake-up is lost
(`no_lost_wakeup`), and with data pending in the channel some thread can always move
(`no_deadlock_with_data`).

The last theorem needs one fact that is not part of `InvL`: a thread at `d1` has a frame in hand and a
thread at `d2`…`d5` has a frame and a popped callback (otherwise `doD1`…`doD5` return `none`).  That is
`InvD` below; it is thread-local and proved here from `Reachable` as well.
-/
namespace Rpyc.Conc.Serve

/-! ### generic frame lemmas -/

/-- a lock that `t` takes, frees, or leaves alone looks the same to everybody else -/
theorem lock_frame {t u : Tid} (hu : u ≠ t) {c c' : Option Tid}
    (hC : c' = c ∨ (c = none ∧ c' = some t) ∨ (c = some t ∧ c' = none)) :
    c' = some u ↔ c = some u := by
  have hu' : t ≠ u := fun e => hu e.symm
  rcases hC with e | ⟨e1, e2⟩ | ⟨e1, e2⟩
  · rw [e]
  · subst e1 e2; simp [hu']
  · subst e1 e2; simp [hu']

/-- `wake` survives a step of `t` that does not free the receive lock, adds to the wait-set only from
`s2w`, enters `s2w` only while the receive lock is held, and does not leave `n0`/`n1` -/
theorem wake_frame {s s' : St} {t : Tid} (h : InvL s)
    (hne : ∀ u, u ≠ t → s'.loc u = s.loc u)
    (hrl : s.recvLock ≠ none → s'.recvLock ≠ none)
    (hw : ∀ u, u ∈ s'.waiters → u ∈ s.waiters ∨ (s.loc t).pc = .s2w)
    (h4 : (s'.loc t).pc = .s2w → (s.loc t).pc = .s2w ∨ s'.recvLock ≠ none)
    (h5 : ((s.loc t).pc = .n0 ∨ (s.loc t).pc = .n1) → ((s'.loc t).pc = .n0 ∨ (s'.loc t).pc = .n1)) :
    ((∃ u, u ∈ s'.waiters) ∨ (∃ u, (s'.loc u).pc = .s2w)) →
      s'.recvLock ≠ none ∨ ∃ u, (s'.loc u).pc = .n0 ∨ (s'.loc u).pc = .n1 := by
  intro hP
  have key : ((∃ u, u ∈ s.waiters) ∨ (∃ u, (s.loc u).pc = .s2w)) ∨ s'.recvLock ≠ none := by
    rcases hP with ⟨u, hu⟩ | ⟨u, hu⟩
    · rcases hw u hu with h1 | h1
      · exact .inl (.inl ⟨u, h1⟩)
      · exact .inl (.inr ⟨t, h1⟩)
    · by_cases hut : u = t
      · rw [hut] at hu
        rcases h4 hu with h1 | h1
        · exact .inl (.inr ⟨t, h1⟩)
        · exact .inr h1
      · rw [hne u hut] at hu; exact .inl (.inr ⟨u, hu⟩)
  rcases key with hPs | hq
  · rcases h.wake hPs with h1 | ⟨u, hu⟩
    · exact .inl (hrl h1)
    · by_cases hut : u = t
      · rw [hut] at hu; exact .inr ⟨t, h5 hu⟩
      · refine .inr ⟨u, ?_⟩; rw [hne u hut]; exact hu
  · exact .inl hq

/-- the invariant after a step of thread `t`, from what the step did to `t`'s pc, the two locks and the
wait-set; `wake` is left to the caller -/
theorem invL_frame {s s' : St} {t : Tid} (h : InvL s)
    (hne : ∀ u, u ≠ t → s'.loc u = s.loc u)
    (hcs : (s'.loc t).pc.holdsCond = true ↔ s'.condLock = some t)
    (hC : s'.condLock = s.condLock ∨ (s.condLock = none ∧ s'.condLock = some t) ∨
          (s.condLock = some t ∧ s'.condLock = none))
    (hrs : (s'.loc t).pc.holdsRecv = true ↔ s'.recvLock = some t)
    (hR : s'.recvLock = s.recvLock ∨ (s.recvLock = none ∧ s'.recvLock = some t) ∨
          (s.recvLock = some t ∧ s'.recvLock = none))
    (hws : t ∈ s'.waiters → (s'.loc t).pc = .zz)
    (hwn : ∀ u, u ≠ t → u ∈ s'.waiters → u ∈ s.waiters)
    (hnd : s'.waiters.Nodup)
    (hwk : ((∃ u, u ∈ s'.waiters) ∨ (∃ u, (s'.loc u).pc = .s2w)) →
      s'.recvLock ≠ none ∨ ∃ u, (s'.loc u).pc = .n0 ∨ (s'.loc u).pc = .n1) : InvL s' := by
  refine ⟨?_, ?_, ?_, hnd, hwk⟩
  · intro u
    by_cases hu : u = t
    · rw [hu]; exact hcs
    · rw [hne u hu, lock_frame hu hC]; exact h.cond_iff u
  · intro u
    by_cases hu : u = t
    · rw [hu]; exact hrs
    · rw [hne u hu, lock_frame hu hR]; exact h.recv_iff u
  · intro u hm
    by_cases hu : u = t
    · rw [hu] at hm ⊢; exact hws hm
    · rw [hne u hu]; exact h.waiter_pc u (hwn u hu hm)

/-- pcs that are in none of the classes `InvL` talks about -/
def PC.neutral : PC → Bool
  | .s2 | .s2w | .s2f | .s3 | .n1 | .n2 | .p0 | .x0 | .r0 | .zz | .n0 => false
  | _ => true

/-- a step between neutral pcs that touches neither lock nor the wait-set -/
theorem invL_neutral {s s' : St} {t : Tid} (h : InvL s)
    (hne : ∀ u, u ≠ t → s'.loc u = s.loc u)
    (hcl : s'.condLock = s.condLock) (hrl : s'.recvLock = s.recvLock) (hw : s'.waiters = s.waiters)
    (ho : (s.loc t).pc.neutral = true) (hn : (s'.loc t).pc.neutral = true) : InvL s' := by
  have hc := h.cond_iff t
  have hr := h.recv_iff t
  have hwp := h.waiter_pc t
  generalize hp : (s.loc t).pc = p at ho hc hr hwp
  generalize hp' : (s'.loc t).pc = p' at hn
  have hc' : s.condLock ≠ some t := by cases p <;> simp_all [PC.neutral, PC.holdsCond]
  have hr' : s.recvLock ≠ some t := by cases p <;> simp_all [PC.neutral, PC.holdsRecv]
  have hw' : t ∉ s.waiters := by cases p <;> simp_all [PC.neutral]
  refine invL_frame h hne ?_ (.inl hcl) ?_ (.inl hrl) ?_ ?_ (hw ▸ h.waiters_nodup) ?_
  · rw [hp', hcl]; cases p' <;> simp_all [PC.neutral, PC.holdsCond]
  · rw [hp', hrl]; cases p' <;> simp_all [PC.neutral, PC.holdsRecv]
  · rw [hw]; intro hm; exact absurd hm hw'
  · intro u _ hm; rw [hw] at hm; exact hm
  · refine wake_frame h hne (by rw [hrl]; exact id) (by rw [hw]; exact fun u hu => .inl hu) ?_ ?_
    · rw [hp']; intro e; subst e; simp [PC.neutral] at hn
    · rw [hp]; intro e; exfalso; cases p <;> simp_all [PC.neutral]

/-! ### what `InvL` says about one thread -/

theorem InvL.has_cond {s : St} {t : Tid} (h : InvL s) (hp : (s.loc t).pc.holdsCond = true) :
    s.condLock = some t := (h.cond_iff t).mp hp

theorem InvL.not_cond {s : St} {t : Tid} (h : InvL s) (hp : (s.loc t).pc.holdsCond = false) :
    s.condLock ≠ some t := fun e => by
  have := (h.cond_iff t).mpr e; rw [hp] at this; cases this

theorem InvL.has_recv {s : St} {t : Tid} (h : InvL s) (hp : (s.loc t).pc.holdsRecv = true) :
    s.recvLock = some t := (h.recv_iff t).mp hp

theorem InvL.not_recv {s : St} {t : Tid} (h : InvL s) (hp : (s.loc t).pc.holdsRecv = false) :
    s.recvLock ≠ some t := fun e => by
  have := (h.recv_iff t).mpr e; rw [hp] at this; cases this

theorem InvL.not_waiter {s : St} {t : Tid} (h : InvL s) (hp : (s.loc t).pc ≠ .zz) : t ∉ s.waiters :=
  fun hm => hp (h.waiter_pc t hm)

/-! ### the steps that touch a lock or the wait-set -/

theorem invL_doS1 {s s' : St} {t : Tid} (h : InvL s) (hpc : (s.loc t).pc = .s1)
    (hs : doS1 s t (s.loc t) = some s') : InvL s' := by
  have hr := h.not_recv (t := t) (by rw [hpc]; rfl)
  have hwp := h.not_waiter (t := t) (by rw [hpc]; decide)
  unfold doS1 at hs
  by_cases hcl : s.condLock = none
  · rw [if_pos hcl] at hs; cases hs
    refine invL_frame h (t := t) (fun u hu => by simp [hu]) (by simp [PC.holdsCond])
      (.inr (.inl ⟨hcl, rfl⟩)) (by simpa [PC.holdsRecv] using hr) (.inl rfl)
      (fun hm => absurd hm hwp) (fun u _ hm => hm) h.waiters_nodup ?_
    exact wake_frame h (t := t) (fun u hu => by simp [hu]) id (fun u hu => .inl hu) (by simp)
      (by simp [hpc])
  · rw [if_neg hcl] at hs; cases hs

theorem invL_doS2 {s : St} {t : Tid} (h : InvL s) (hpc : (s.loc t).pc = .s2) :
    InvL (doS2 s t (s.loc t)) := by
  have hc := h.has_cond (t := t) (by rw [hpc]; rfl)
  have hr := h.not_recv (t := t) (by rw [hpc]; rfl)
  have hwp := h.not_waiter (t := t) (by rw [hpc]; decide)
  unfold doS2
  by_cases hrl : s.recvLock = none
  · rw [if_pos hrl]
    refine invL_frame h (t := t) (fun u hu => by simp [hu]) (by simp [PC.holdsCond, hc])
      (.inl rfl) (by simp [PC.holdsRecv]) (.inr (.inl ⟨hrl, rfl⟩))
      (fun hm => absurd hm hwp) (fun u _ hm => hm) h.waiters_nodup ?_
    exact wake_frame h (t := t) (fun u hu => by simp [hu]) (by simp) (fun u hu => .inl hu) (by simp)
      (by simp [hpc])
  · rw [if_neg hrl]
    by_cases hnw : (s.loc t).nowait = true
    · refine invL_frame h (t := t) (fun u hu => by simp [hu]) (by simp [PC.holdsCond, hc, hnw])
        (.inl rfl) (by simpa [PC.holdsRecv, hnw] using hr) (.inl rfl)
        (fun hm => absurd hm hwp) (fun u _ hm => hm) h.waiters_nodup ?_
      exact wake_frame h (t := t) (fun u hu => by simp [hu]) id (fun u hu => .inl hu)
        (by simp [hnw]) (by simp [hpc])
    · refine invL_frame h (t := t) (fun u hu => by simp [hu]) (by simp [PC.holdsCond, hc, hnw])
        (.inl rfl) (by simpa [PC.holdsRecv, hnw] using hr) (.inl rfl)
        (fun hm => absurd hm hwp) (fun u _ hm => hm) h.waiters_nodup ?_
      exact wake_frame h (t := t) (fun u hu => by simp [hu]) id (fun u hu => .inl hu)
        (fun _ => .inr hrl) (by simp [hpc])

/-- `wait_for_lock=False` after a failed try-lock: leave `with` (free the condition's lock), `serve` returns -/
theorem invL_doS2f {s : St} {t : Tid} (h : InvL s) (hpc : (s.loc t).pc = .s2f) :
    InvL { setLoc s t (leaveServe (s.loc t)) with condLock := none } := by
  have hc := h.has_cond (t := t) (by rw [hpc]; rfl)
  have hr := h.not_recv (t := t) (by rw [hpc]; rfl)
  have hwp := h.not_waiter (t := t) (by rw [hpc]; decide)
  have hn : (afterServe (s.loc t)).neutral = true := by
    unfold afterServe
    split
    · rfl
    · split <;> rfl
  have e : ({ setLoc s t (leaveServe (s.loc t)) with condLock := none } : St).loc t = leaveServe (s.loc t) := by
    simp [setLoc]
  refine invL_frame h (t := t) (fun u hu => by simp [setLoc, hu]) ?_
    (.inr (.inr ⟨hc, rfl⟩)) ?_ (.inl rfl)
    (fun hm => absurd hm hwp) (fun u _ hm => hm) h.waiters_nodup ?_
  · rw [e]; simp only [leaveServe]
    generalize afterServe (s.loc t) = p at hn
    cases p <;> simp_all [PC.neutral, PC.holdsCond]
  · rw [e]; simp only [leaveServe]
    generalize afterServe (s.loc t) = p at hn
    cases p <;> simp_all [PC.neutral, PC.holdsRecv]
  · refine wake_frame h (t := t) (fun u hu => by simp [setLoc, hu]) id (fun u hu => .inl hu) ?_ ?_
    · rw [e]; simp only [leaveServe]
      generalize afterServe (s.loc t) = p at hn
      intro e'; subst e'; simp [PC.neutral] at hn
    · simp [hpc]

theorem invL_doS2w {s : St} {t : Tid} (h : InvL s) (hpc : (s.loc t).pc = .s2w) :
    InvL (doS2w s t (s.loc t)) := by
  have hc := h.has_cond (t := t) (by rw [hpc]; rfl)
  have hr := h.not_recv (t := t) (by rw [hpc]; rfl)
  have hwp := h.not_waiter (t := t) (by rw [hpc]; decide)
  unfold doS2w
  refine invL_frame h (t := t) (fun u hu => by simp [hu]) (by simp [PC.holdsCond])
    (.inr (.inr ⟨hc, rfl⟩)) (by simpa [PC.holdsRecv] using hr) (.inl rfl)
    (fun _ => by simp) (fun u hu hm => by simpa [hu] using hm) ?_ ?_
  · show (s.waiters ++ [t]).Nodup
    rw [List.nodup_append]
    refine ⟨h.waiters_nodup, by simp, ?_⟩
    intro a ha b hb e
    simp at hb; subst hb; subst e; exact hwp ha
  · refine wake_frame h (t := t) (fun u hu => by simp [hu]) id ?_ (by simp) (by simp [hpc])
    intro u hu
    exact .inr hpc

theorem invL_doZz {s s' : St} {t : Tid} (h : InvL s) (hpc : (s.loc t).pc = .zz)
    (hs : doZz s t (s.loc t) = some s') : InvL s' := by
  have hc := h.not_cond (t := t) (by rw [hpc]; rfl)
  have hr := h.not_recv (t := t) (by rw [hpc]; rfl)
  unfold doZz at hs
  by_cases hm : t ∉ s.waiters
  · rw [if_pos hm] at hs; cases hs
    refine invL_frame h (t := t) (fun u hu => by simp [hu]) (by simpa [PC.holdsCond] using hc)
      (.inl rfl) (by simpa [PC.holdsRecv] using hr) (.inl rfl)
      (fun hm' => absurd hm' hm) (fun u _ hm => hm) h.waiters_nodup ?_
    exact wake_frame h (t := t) (fun u hu => by simp [hu]) id (fun u hu => .inl hu) (by simp)
      (by simp [hpc])
  · rw [if_neg hm] at hs
    by_cases he : expiredAt (s.loc t).wdl s.now = true
    · rw [if_pos he] at hs; cases hs
      have hnd : (s.waiters.erase t).Nodup := h.waiters_nodup.erase t
      refine invL_frame h (t := t) (fun u hu => by simp [hu]) (by simpa [PC.holdsCond] using hc)
        (.inl rfl) (by simpa [PC.holdsRecv] using hr) (.inl rfl)
        (fun hm' => absurd hm' (by
          show t ∉ s.waiters.erase t
          exact fun hx => (List.Nodup.mem_erase_iff h.waiters_nodup).mp hx |>.1 rfl))
        (fun u _ hm => List.mem_of_mem_erase hm) hnd ?_
      exact wake_frame h (t := t) (fun u hu => by simp [hu]) id
        (fun u hu => .inl (List.mem_of_mem_erase hu)) (by simp) (by simp [hpc])
    · rw [if_neg he] at hs; cases hs

theorem invL_doS3 {s : St} {t : Tid} (h : InvL s) (hpc : (s.loc t).pc = .s3) :
    InvL (doS3 s t (s.loc t)) := by
  have hc := h.has_cond (t := t) (by rw [hpc]; rfl)
  have hr := h.has_recv (t := t) (by rw [hpc]; rfl)
  have hwp := h.not_waiter (t := t) (by rw [hpc]; decide)
  unfold doS3
  refine invL_frame h (t := t) (fun u hu => by simp [hu]) (by simp [PC.holdsCond])
    (.inr (.inr ⟨hc, rfl⟩)) (by simpa [PC.holdsRecv] using hr) (.inl rfl)
    (fun hm => absurd hm hwp) (fun u _ hm => hm) h.waiters_nodup ?_
  exact wake_frame h (t := t) (fun u hu => by simp [hu]) id (fun u hu => .inl hu) (by simp)
    (by simp [hpc])

/-- a thread in the receive region (`p0`, `x0`) moves on to `x0`/`r0`: it still holds the receive lock -/
theorem invL_recvStay {s s' : St} {t : Tid} (h : InvL s) (hpc : (s.loc t).pc = .p0 ∨ (s.loc t).pc = .x0)
    (hne : ∀ u, u ≠ t → s'.loc u = s.loc u) (hp' : (s'.loc t).pc = .x0 ∨ (s'.loc t).pc = .r0)
    (hcl : s'.condLock = s.condLock) (hrl : s'.recvLock = s.recvLock) (hw : s'.waiters = s.waiters) : InvL s' := by
  have hc := h.not_cond (t := t) (by rcases hpc with e | e <;> rw [e] <;> rfl)
  have hr := h.has_recv (t := t) (by rcases hpc with e | e <;> rw [e] <;> rfl)
  have hwp := h.not_waiter (t := t) (by rcases hpc with e | e <;> rw [e] <;> decide)
  refine invL_frame h (t := t) hne ?_ (.inl hcl) ?_ (.inl hrl) ?_ ?_ (hw ▸ h.waiters_nodup) ?_
  · rw [hcl]; rcases hp' with e | e <;> rw [e] <;> simpa [PC.holdsCond] using hc
  · rw [hrl]; rcases hp' with e | e <;> rw [e] <;> simpa [PC.holdsRecv] using hr
  · rw [hw]; exact fun hm => absurd hm hwp
  · intro u _ hm; rw [hw] at hm; exact hm
  · refine wake_frame h (t := t) hne (by rw [hrl]; exact id) (by rw [hw]; exact fun u hu => .inl hu) ?_ ?_
    · rcases hp' with e | e <;> rw [e] <;> simp
    · rcases hpc with e | e <;> rw [e] <;> simp

theorem invL_doP0 {s s' : St} {t : Tid} (h : InvL s) (hpc : (s.loc t).pc = .p0)
    (hs : doP0 s t (s.loc t) = some s') : InvL s' := by
  unfold doP0 at hs
  split at hs
  · cases hs
    exact invL_recvStay h (.inl hpc) (fun u hu => by simp [hu]) (.inl (by simp)) rfl rfl rfl
  · split at hs
    · cases hs
      exact invL_recvStay h (.inl hpc) (fun u hu => by simp [setLoc, hu]) (.inr (by simp [setLoc])) rfl rfl rfl
    · split at hs
      · cases hs
        exact invL_recvStay h (.inl hpc) (fun u hu => by simp [hu]) (.inl (by simp)) rfl rfl rfl
      · split at hs
        · cases hs
          exact invL_recvStay h (.inl hpc) (fun u hu => by simp [hu]) (.inr (by simp)) rfl rfl rfl
        · cases hs

theorem invL_doX0 {s : St} {t : Tid} (h : InvL s) (hpc : (s.loc t).pc = .x0) :
    InvL (doX0 s t (s.loc t)) := by
  unfold doX0
  split
  · exact invL_recvStay h (.inr hpc) (fun u hu => by simp [hu]) (.inr (by simp)) rfl rfl rfl
  · exact invL_recvStay h (.inr hpc) (fun u hu => by simp [setLoc, hu]) (.inr (by simp [setLoc])) rfl rfl rfl

theorem invL_doR0 {s : St} {t : Tid} (h : InvL s) (hpc : (s.loc t).pc = .r0) :
    InvL (doR0 s t (s.loc t)) := by
  have hc := h.not_cond (t := t) (by rw [hpc]; rfl)
  have hr := h.has_recv (t := t) (by rw [hpc]; rfl)
  have hwp := h.not_waiter (t := t) (by rw [hpc]; decide)
  unfold doR0
  refine invL_frame h (t := t) (fun u hu => by simp [hu]) (by simpa [PC.holdsCond] using hc)
    (.inl rfl) (by simp [PC.holdsRecv]) (.inr (.inr ⟨hr, rfl⟩))
    (fun hm => absurd hm hwp) (fun u _ hm => hm) h.waiters_nodup ?_
  intro _
  exact .inr ⟨t, .inl (by simp)⟩

theorem invL_doN0 {s s' : St} {t : Tid} (h : InvL s) (hpc : (s.loc t).pc = .n0)
    (hs : doN0 s t (s.loc t) = some s') : InvL s' := by
  have hr := h.not_recv (t := t) (by rw [hpc]; rfl)
  have hwp := h.not_waiter (t := t) (by rw [hpc]; decide)
  unfold doN0 at hs
  by_cases hcl : s.condLock = none
  · rw [if_pos hcl] at hs; cases hs
    refine invL_frame h (t := t) (fun u hu => by simp [hu]) (by simp [PC.holdsCond])
      (.inr (.inl ⟨hcl, rfl⟩)) (by simpa [PC.holdsRecv] using hr) (.inl rfl)
      (fun hm => absurd hm hwp) (fun u _ hm => hm) h.waiters_nodup ?_
    intro _
    exact .inr ⟨t, .inr (by simp)⟩
  · rw [if_neg hcl] at hs; cases hs

theorem invL_doN1 {s : St} {t : Tid} (h : InvL s) (hpc : (s.loc t).pc = .n1) :
    InvL (doN1 s t (s.loc t)) := by
  have hc := h.has_cond (t := t) (by rw [hpc]; rfl)
  have hr := h.not_recv (t := t) (by rw [hpc]; rfl)
  unfold doN1
  refine invL_frame h (t := t) (fun u hu => by simp [hu]) (by simp [PC.holdsCond, hc])
    (.inl rfl) (by simpa [PC.holdsRecv] using hr) (.inl rfl)
    (fun hm => by simp at hm) (fun u _ hm => by simp at hm) (by simp) ?_
  rintro (⟨u, hu⟩ | ⟨u, hu⟩)
  · simp at hu
  · exfalso
    by_cases hut : u = t
    · rw [hut] at hu; simp at hu
    · simp [hut] at hu
      have := h.has_cond (t := u) (by rw [hu]; rfl)
      rw [hc] at this
      exact hut (Option.some.inj this).symm

theorem invL_doN2 {s : St} {t : Tid} (h : InvL s) (hpc : (s.loc t).pc = .n2) :
    InvL (doN2 s t (s.loc t)) := by
  have hc := h.has_cond (t := t) (by rw [hpc]; rfl)
  have hr := h.not_recv (t := t) (by rw [hpc]; rfl)
  have hwp := h.not_waiter (t := t) (by rw [hpc]; decide)
  unfold doN2
  refine invL_frame h (t := t) (fun u hu => by simp [hu]) (by simp [PC.holdsCond])
    (.inr (.inr ⟨hc, rfl⟩)) (by simpa [PC.holdsRecv] using hr) (.inl rfl)
    (fun hm => absurd hm hwp) (fun u _ hm => hm) h.waiters_nodup ?_
  exact wake_frame h (t := t) (fun u hu => by simp [hu]) id (fun u hu => .inl hu) (by simp)
    (by simp [hpc])

/-! ### all steps -/

theorem neutral_ite (c : Prop) [Decidable c] {a b : PC} (ha : a.neutral = true) (hb : b.neutral = true) :
    (if c then a else b).neutral = true := by
  split <;> assumption

theorem neutral_afterServe (l : Loc) : (afterServe l).neutral = true := by
  unfold afterServe
  split
  · rfl
  · split <;> rfl

set_option hygiene false in
/-- close `InvL s'` for a step of `t` between neutral pcs (`h : InvL s`, `hpc : (s.loc t).pc = _`) -/
local macro "neutral_step" : tactic =>
  `(tactic| exact invL_neutral h (t := t) (fun u hu => by simp [hu]) rfl rfl rfl (by rw [hpc]; rfl)
      (by first
        | exact neutral_afterServe _
        | rfl
        | (simp only [setLoc_loc_self]; first | rfl | exact neutral_ite _ rfl rfl | exact neutral_afterServe _)))

theorem invL_run {s s' : St} {t : Tid} (h : InvL s) (hs : stepRun s t = some s') : InvL s' := by
  unfold stepRun at hs
  generalize hpc : (s.loc t).pc = pc at hs
  cases pc <;> simp only [Option.some.injEq] at hs
  case idle => cases hs
  case c1 => subst hs; unfold doC1; neutral_step
  case c2 => subst hs; unfold doC2; split <;> neutral_step
  case c3 => subst hs; unfold doC3; neutral_step
  case w0 => subst hs; unfold doW0; neutral_step
  case s0 => subst hs; unfold doS0; neutral_step
  case s1 => exact invL_doS1 h hpc hs
  case s2 => subst hs; exact invL_doS2 h hpc
  case s2w => subst hs; exact invL_doS2w h hpc
  case s2f => subst hs; exact invL_doS2f h hpc
  case zz => exact invL_doZz h hpc hs
  case s2r =>
    unfold doS2r at hs
    split at hs
    · cases hs; neutral_step
    · cases hs
  case s3 => subst hs; exact invL_doS3 h hpc
  case p0 => exact invL_doP0 h hpc hs
  case x0 => subst hs; exact invL_doX0 h hpc
  case r0 => subst hs; exact invL_doR0 h hpc
  case n0 => exact invL_doN0 h hpc hs
  case n1 => subst hs; exact invL_doN1 h hpc
  case n2 => subst hs; exact invL_doN2 h hpc
  case d0 =>
    subst hs; unfold doD0
    split
    · neutral_step
    · split
      · split <;> neutral_step
      · neutral_step
  case d1 =>
    unfold doD1 at hs
    split at hs
    · cases hs
    · split at hs <;> cases hs <;> neutral_step
  case d2 =>
    unfold doD2 at hs
    split at hs
    · cases hs
    · split at hs <;> cases hs <;> neutral_step
  case d3 =>
    unfold doD3 at hs
    split at hs
    · cases hs; neutral_step
    · cases hs
  case d4 =>
    unfold doD4 at hs
    split at hs
    · cases hs; neutral_step
    · cases hs
  case d5 =>
    unfold doD5 at hs
    split at hs
    · cases hs; neutral_step
    · cases hs
  case w9 => subst hs; unfold doW9; split <;> neutral_step
  case w10 => subst hs; unfold doW10; neutral_step
  case b0 => subst hs; neutral_step
  case bS => subst hs; neutral_step
  case q1 => subst hs; split <;> neutral_step

theorem invL_init : InvL init := by
  refine ⟨fun t => ?_, fun t => ?_, fun t hm => ?_, ?_, ?_⟩
  · simp [init, PC.holdsCond]
  · simp [init, PC.holdsRecv]
  · simp [init] at hm
  · simp [init]
  · rintro (⟨t, ht⟩ | ⟨t, ht⟩)
    · simp [init] at ht
    · simp [init] at ht

theorem invL_step {s s' : St} (a : Actor) (h : InvL s) (hs : step s a = some s') : InvL s' := by
  cases a with
  | call t tmo =>
    simp only [step] at hs
    split at hs
    · rename_i hc
      have hpc := hc.1
      cases hs; unfold doCall; neutral_step
    · cases hs
  | bg t =>
    simp only [step] at hs
    split at hs
    · rename_i hc
      have hpc := hc.1
      cases hs; neutral_step
    · cases hs
  | stop t =>
    simp only [step] at hs
    split at hs
    · rename_i hpc
      cases hs; neutral_step
    · cases hs
  | pollAll t d =>
    simp only [step] at hs
    split at hs
    · rename_i hc
      have hpc := hc.1
      cases hs; neutral_step
    · cases hs
  | run t => exact invL_run h hs
  | peer q exc v =>
    simp only [step] at hs
    split at hs
    · cases hs; exact ⟨h.cond_iff, h.recv_iff, h.waiter_pc, h.waiters_nodup, h.wake⟩
    · cases hs
  | peerDup q exc v =>
    simp only [step] at hs
    split at hs
    · cases hs; exact ⟨h.cond_iff, h.recv_iff, h.waiter_pc, h.waiters_nodup, h.wake⟩
    · cases hs
  | peerEof =>
    simp only [step] at hs
    split at hs
    · cases hs; exact ⟨h.cond_iff, h.recv_iff, h.waiter_pc, h.waiters_nodup, h.wake⟩
    · cases hs
  | tick d =>
    simp only [step, Option.some.injEq] at hs
    subst hs; exact ⟨h.cond_iff, h.recv_iff, h.waiter_pc, h.waiters_nodup, h.wake⟩

theorem invL_of_reachable {s : St} (h : Reachable s) : InvL s := by
  induction h with
  | init => exact invL_init
  | step a _ hs ih => exact invL_step a ih hs

/-! ### consequences -/

/-- the region between `_recvlock.acquire` and `_recvlock.release` holds at most one thread -/
theorem recv_exclusive {s : St} (h : Reachable s) (t u : Tid)
    (ht : (s.loc t).pc.holdsRecv = true) (hu : (s.loc u).pc.holdsRecv = true) : t = u := by
  have hL := invL_of_reachable h
  have h1 := hL.has_recv ht
  have h2 := hL.has_recv hu
  rw [h1] at h2
  exact Option.some.inj h2

/-- same for the condition's own lock -/
theorem cond_exclusive {s : St} (h : Reachable s) (t u : Tid)
    (ht : (s.loc t).pc.holdsCond = true) (hu : (s.loc u).pc.holdsCond = true) : t = u := by
  have hL := invL_of_reachable h
  have h1 := hL.has_cond ht
  have h2 := hL.has_cond hu
  rw [h1] at h2
  exact Option.some.inj h2

theorem zz_enabled_or_waiting {s : St} (t : Tid) (h : (s.loc t).pc = .zz) :
    enabled s t = true ∨ t ∈ s.waiters := by
  by_cases hm : t ∈ s.waiters
  · exact .inr hm
  · left
    simp [enabled, stepRun, h, doZz, hm]

/-- a thread in the wait-set will be notified: the receive lock is held by a thread inside the receive
region, or a thread that released it is on its way to `notify_all` -/
theorem no_lost_wakeup {s : St} (h : Reachable s) (t : Tid) (ht : t ∈ s.waiters) :
    (∃ v, s.recvLock = some v ∧ (s.loc v).pc.holdsRecv = true) ∨
      ∃ u, (s.loc u).pc = .n0 ∨ (s.loc u).pc = .n1 := by
  have hL := invL_of_reachable h
  rcases hL.wake (.inl ⟨t, ht⟩) with h1 | h1
  · left
    cases hr : s.recvLock with
    | none => exact absurd hr h1
    | some v => exact ⟨v, rfl, (hL.recv_iff v).mpr hr⟩
  · exact .inr h1

/-! ### the dispatch pcs have what they need (thread-local) -/

/-- inside `_dispatch` / `AsyncResult.__call__` -/
def PC.disp : PC → Bool
  | .d1 | .d2 | .d3 | .d4 | .d5 => true
  | _ => false

/-- at `d1` the thread has a frame; at `d2`…`d5` a frame and a popped callback -/
def Loc.ok (l : Loc) : Bool :=
  match l.pc with
  | .d1 => l.data.isSome
  | .d2 | .d3 | .d4 | .d5 => l.data.isSome && l.cb.isSome
  | _ => true

def InvD (s : St) : Prop := ∀ t, (s.loc t).ok = true

theorem ok_of_not_disp {l : Loc} (h : l.pc.disp = false) : l.ok = true := by
  unfold Loc.ok
  generalize l.pc = p at h
  cases p <;> first | rfl | cases h

theorem disp_ite (c : Prop) [Decidable c] {a b : PC} (ha : a.disp = false) (hb : b.disp = false) :
    (if c then a else b).disp = false := by
  split <;> assumption

theorem disp_afterServe (l : Loc) : (afterServe l).disp = false := by
  unfold afterServe
  split
  · rfl
  · split <;> rfl

theorem invD_frame {s s' : St} {t : Tid} (h : InvD s)
    (hne : ∀ u, u ≠ t → s'.loc u = s.loc u) (ht : (s'.loc t).ok = true) : InvD s' := by
  intro u
  by_cases hu : u = t
  · rw [hu]; exact ht
  · rw [hne u hu]; exact h u

set_option hygiene false in
/-- close `InvD s'` for a step of `t` to a pc outside `d1`…`d5` (`h : InvD s`) -/
local macro "nondisp_step" : tactic =>
  `(tactic| exact invD_frame h (t := t) (fun u hu => by simp [hu])
      (ok_of_not_disp (by first
        | exact disp_afterServe _
        | rfl
        | (simp only [setLoc_loc_self]; first | rfl | exact disp_ite _ rfl rfl | exact disp_afterServe _))))

theorem invD_run {s s' : St} {t : Tid} (h : InvD s) (hs : stepRun s t = some s') : InvD s' := by
  have hok := h t
  unfold Loc.ok at hok
  unfold stepRun at hs
  generalize hpc : (s.loc t).pc = pc at hs hok
  cases pc <;> simp only [Option.some.injEq, Bool.and_eq_true] at hs hok
  case idle => cases hs
  case c1 => subst hs; unfold doC1; nondisp_step
  case c2 => subst hs; unfold doC2; split <;> nondisp_step
  case c3 => subst hs; unfold doC3; nondisp_step
  case w0 => subst hs; unfold doW0; nondisp_step
  case s0 => subst hs; unfold doS0; nondisp_step
  case s1 => unfold doS1 at hs; split at hs <;> cases hs; nondisp_step
  case s2 => subst hs; unfold doS2; split <;> nondisp_step
  case s2w => subst hs; unfold doS2w; nondisp_step
  case s2f =>
    subst hs
    exact invD_frame h (t := t) (fun u hu => by simp [setLoc, hu])
      (ok_of_not_disp (by simp [setLoc, leaveServe, disp_afterServe]))
  case zz =>
    unfold doZz at hs
    split at hs
    · cases hs; nondisp_step
    · split at hs <;> cases hs; nondisp_step
  case s2r => unfold doS2r at hs; split at hs <;> cases hs; nondisp_step
  case s3 => subst hs; unfold doS3; nondisp_step
  case p0 =>
    unfold doP0 at hs
    split at hs
    · cases hs; nondisp_step
    · split at hs
      · cases hs; nondisp_step
      · split at hs
        · cases hs; nondisp_step
        · split at hs <;> cases hs; nondisp_step
  case x0 => subst hs; unfold doX0; split <;> nondisp_step
  case r0 => subst hs; unfold doR0; nondisp_step
  case n0 => unfold doN0 at hs; split at hs <;> cases hs; nondisp_step
  case n1 => subst hs; unfold doN1; nondisp_step
  case n2 => subst hs; unfold doN2; nondisp_step
  case d0 =>
    subst hs; unfold doD0
    split
    · rename_i f hf
      exact invD_frame h (t := t) (fun u hu => by simp [hu]) (by simp [Loc.ok, hf])
    · split
      · split <;> nondisp_step
      · nondisp_step
  case d1 =>
    unfold doD1 at hs
    split at hs
    · cases hs
    · rename_i f hf
      split at hs <;> cases hs
      · exact invD_frame h (t := t) (fun u hu => by simp [hu]) (by simp [Loc.ok, hf])
      · nondisp_step
  case d2 =>
    unfold doD2 at hs
    split at hs
    · cases hs
    · split at hs <;> cases hs
      · nondisp_step
      · exact invD_frame h (t := t) (fun u hu => by simp [hu]) (by simp [Loc.ok, hok])
  case d3 =>
    unfold doD3 at hs
    split at hs
    · cases hs
      exact invD_frame h (t := t) (fun u hu => by simp [hu]) (by simp [Loc.ok, hok])
    · cases hs
  case d4 =>
    unfold doD4 at hs
    split at hs
    · cases hs
      exact invD_frame h (t := t) (fun u hu => by simp [hu]) (by simp [Loc.ok, hok])
    · cases hs
  case d5 =>
    unfold doD5 at hs
    split at hs
    · cases hs; nondisp_step
    · cases hs
  case w9 => subst hs; unfold doW9; split <;> nondisp_step
  case w10 => subst hs; unfold doW10; nondisp_step
  case b0 => subst hs; nondisp_step
  case bS => subst hs; nondisp_step
  case q1 => subst hs; split <;> nondisp_step

theorem invD_init : InvD init := fun _ => rfl

theorem invD_step {s s' : St} (a : Actor) (h : InvD s) (hs : step s a = some s') : InvD s' := by
  cases a with
  | call t tmo =>
    simp only [step] at hs
    split at hs
    · cases hs; unfold doCall; nondisp_step
    · cases hs
  | bg t =>
    simp only [step] at hs
    split at hs
    · cases hs; nondisp_step
    · cases hs
  | stop t =>
    simp only [step] at hs
    split at hs
    · cases hs; nondisp_step
    · cases hs
  | pollAll t d =>
    simp only [step] at hs
    split at hs
    · cases hs; nondisp_step
    · cases hs
  | run t => exact invD_run h hs
  | peer q exc v =>
    simp only [step] at hs
    split at hs
    · cases hs; exact h
    · cases hs
  | peerDup q exc v =>
    simp only [step] at hs
    split at hs
    · cases hs; exact h
    · cases hs
  | peerEof =>
    simp only [step] at hs
    split at hs
    · cases hs; exact h
    · cases hs
  | tick d =>
    simp only [step, Option.some.injEq] at hs
    subst hs; exact h

theorem invD_of_reachable {s : St} (h : Reachable s) : InvD s := by
  induction h with
  | init => exact invD_init
  | step a _ hs ih => exact invD_step a ih hs

/-! ### progress -/

/-- pcs whose step never blocks (given `InvD` for `d1`…`d5`) -/
def PC.free : PC → Bool
  | .idle | .s1 | .zz | .s2r | .p0 | .n0 => false
  | _ => true

theorem doD1_isSome (s : St) (t : Tid) (l : Loc) (h : l.data.isSome = true) : (doD1 s t l).isSome = true := by
  unfold doD1
  cases hd : l.data with
  | none => rw [hd] at h; cases h
  | some f => simp only; split <;> rfl

theorem doD2_isSome (s : St) (t : Tid) (l : Loc) (h : l.cb.isSome = true) : (doD2 s t l).isSome = true := by
  unfold doD2
  cases hd : l.cb with
  | none => rw [hd] at h; cases h
  | some f => simp only; split <;> rfl

theorem doD3_isSome (s : St) (t : Tid) (l : Loc) (h : l.data.isSome = true) (h' : l.cb.isSome = true) :
    (doD3 s t l).isSome = true := by
  unfold doD3
  cases hd : l.data with
  | none => rw [hd] at h; cases h
  | some f =>
    cases hc : l.cb with
    | none => rw [hc] at h'; cases h'
    | some q => rfl

theorem doD4_isSome (s : St) (t : Tid) (l : Loc) (h : l.data.isSome = true) (h' : l.cb.isSome = true) :
    (doD4 s t l).isSome = true := by
  unfold doD4
  cases hd : l.data with
  | none => rw [hd] at h; cases h
  | some f =>
    cases hc : l.cb with
    | none => rw [hc] at h'; cases h'
    | some q => rfl

theorem doD5_isSome (s : St) (t : Tid) (l : Loc) (h : l.cb.isSome = true) : (doD5 s t l).isSome = true := by
  unfold doD5
  cases hd : l.cb with
  | none => rw [hd] at h; cases h
  | some f => rfl

theorem enabled_of_free {s : St} {t : Tid} (hD : InvD s) (h : (s.loc t).pc.free = true) :
    enabled s t = true := by
  have hok := hD t
  unfold Loc.ok at hok
  unfold enabled stepRun
  generalize hpc : (s.loc t).pc = pc at h hok
  cases pc <;> simp only [Bool.and_eq_true] at hok ⊢ <;> first | rfl | cases h | skip
  case d1 => exact doD1_isSome _ _ _ hok
  case d2 => exact doD2_isSome _ _ _ hok.2
  case d3 => exact doD3_isSome _ _ _ hok.1 hok.2
  case d4 => exact doD4_isSome _ _ _ hok.1 hok.2
  case d5 => exact doD5_isSome _ _ _ hok.2

theorem free_of_holdsCond {p : PC} (h : p.holdsCond = true) : p.free = true := by
  cases p <;> first | rfl | cases h

theorem enabled_of_condFree {s : St} {t : Tid} (hc : s.condLock = none)
    (hp : (s.loc t).pc = .s1 ∨ (s.loc t).pc = .s2r ∨ (s.loc t).pc = .n0) : enabled s t = true := by
  rcases hp with e | e | e <;> simp [enabled, stepRun, e, doS1, doS2r, doN0, hc]

/-- whoever holds the condition's lock can move -/
theorem enabled_condHolder {s : St} (hL : InvL s) (hD : InvD s) {v : Tid} (hv : s.condLock = some v) :
    enabled s v = true ∧ (s.loc v).pc ≠ .bS := by
  have hh := (hL.cond_iff v).mpr hv
  refine ⟨enabled_of_free hD (free_of_holdsCond hh), fun e => ?_⟩
  rw [e] at hh; cases hh

theorem cond_free_or_holder {s : St} (hL : InvL s) (hD : InvD s) :
    s.condLock = none ∨ ∃ u, enabled s u = true ∧ (s.loc u).pc ≠ .bS := by
  cases hc : s.condLock with
  | none => exact .inl rfl
  | some v => exact .inr ⟨v, enabled_condHolder hL hD hc⟩

/-- a thread waiting for the condition's lock: it, or the lock's holder, can move -/
theorem progress_condWaiter {s : St} (hL : InvL s) (hD : InvD s) {t : Tid}
    (hp : (s.loc t).pc = .s1 ∨ (s.loc t).pc = .s2r ∨ (s.loc t).pc = .n0) :
    ∃ u, enabled s u = true ∧ (s.loc u).pc ≠ .bS := by
  rcases cond_free_or_holder hL hD with hc | hx
  · refine ⟨t, enabled_of_condFree hc hp, fun e => ?_⟩
    rcases hp with e' | e' | e' <;> rw [e] at e' <;> cases e'
  · exact hx

/-- `poll()` returns at once when there is data, when the stream has ended, or when the connection is closed -/
theorem p0_enabled {s : St} {t : Tid} (hp : (s.loc t).pc = .p0)
    (hc : s.chan ≠ [] ∨ s.eof = true ∨ s.closed = true) : enabled s t = true := by
  by_cases hcl : s.closed = true
  · simp [enabled, stepRun, hp, doP0, hcl]
  · cases hch : s.chan with
    | cons f r => simp [enabled, stepRun, hp, doP0, hcl, hch]
    | nil =>
      rcases hc with h | h | h
      · exact absurd hch h
      · simp [enabled, stepRun, hp, doP0, hcl, hch, h]
      · exact absurd h hcl

/-- with data in the channel (or the stream ended / the connection closed), whoever holds the receive lock
can move -/
theorem enabled_recvHolder {s : St} (hL : InvL s) (hD : InvD s)
    (hch : s.chan ≠ [] ∨ s.eof = true ∨ s.closed = true) {v : Tid}
    (hv : s.recvLock = some v) : enabled s v = true ∧ (s.loc v).pc ≠ .bS := by
  have hh := (hL.recv_iff v).mpr hv
  refine ⟨?_, fun e => by rw [e] at hh; cases hh⟩
  by_cases hp : (s.loc v).pc = .p0
  · exact p0_enabled hp hch
  · apply enabled_of_free hD
    generalize (s.loc v).pc = p at hh hp
    cases p <;> first | rfl | exact absurd rfl hp | cases hh

/-- strong form: the thread that can move is not merely a background thread in `time.sleep` -/
theorem progress_with_data {s : St} (hL : InvL s) (hD : InvD s)
    (hc : s.chan ≠ [] ∨ s.eof = true ∨ s.closed = true) (t : Tid)
    (ht : (s.loc t).pc ≠ .idle) (hb : (s.loc t).pc ≠ .bS) :
    ∃ u, enabled s u = true ∧ (s.loc u).pc ≠ .bS := by
  by_cases hf : (s.loc t).pc.free = true
  · exact ⟨t, enabled_of_free hD hf, hb⟩
  · have hcases : (s.loc t).pc = .s1 ∨ (s.loc t).pc = .s2r ∨ (s.loc t).pc = .n0 ∨
        (s.loc t).pc = .p0 ∨ (s.loc t).pc = .zz := by
      revert hf ht
      generalize (s.loc t).pc = p
      cases p <;> simp [PC.free]
    rcases hcases with e | e | e | e | e
    · exact progress_condWaiter hL hD (.inl e)
    · exact progress_condWaiter hL hD (.inr (.inl e))
    · exact progress_condWaiter hL hD (.inr (.inr e))
    · exact ⟨t, p0_enabled e hc, hb⟩
    · rcases zz_enabled_or_waiting t e with hen | hm
      · exact ⟨t, hen, hb⟩
      · rcases hL.wake (.inl ⟨t, hm⟩) with h1 | ⟨u, hu | hu⟩
        · cases hr : s.recvLock with
          | none => exact absurd hr h1
          | some v => exact ⟨v, enabled_recvHolder hL hD hc hr⟩
        · exact progress_condWaiter hL hD (.inr (.inr hu))
        · refine ⟨u, enabled_of_free hD (by rw [hu]; rfl), fun e' => ?_⟩
          rw [hu] at e'; cases e'

theorem no_deadlock_with_data_strong {s : St} (h : Reachable s) (hc : s.chan ≠ []) (t : Tid)
    (ht : (s.loc t).pc ≠ .idle) (hb : (s.loc t).pc ≠ .bS) :
    ∃ u, enabled s u = true ∧ (s.loc u).pc ≠ .bS :=
  progress_with_data (invL_of_reachable h) (invD_of_reachable h) (.inl hc) t ht hb

/-- once the peer has closed the stream, or the connection has been closed, no thread inside a call or a
serving loop can be stuck: some thread other than a sleeping background thread has an enabled step, and
needs no timeout for it -/
theorem no_parking_after_eof {s : St} (h : Reachable s) (he : s.eof = true ∨ s.closed = true) (t : Tid)
    (ht : (s.loc t).pc ≠ .idle) (hb : (s.loc t).pc ≠ .bS) :
    ∃ u, enabled s u = true ∧ (s.loc u).pc ≠ .bS :=
  progress_with_data (invL_of_reachable h) (invD_of_reachable h) (.inr he) t ht hb

/-- a thread in the wait-set of a closed connection always has a wake-up on its way: an ENABLED thread that
is the receive-lock holder (it will release and notify), a pending notifier, or the holder of the condition's
lock that the notifier is waiting for -/
theorem waiter_has_waker {s : St} (h : Reachable s) (hc : s.chan ≠ [] ∨ s.eof = true ∨ s.closed = true) (t : Tid)
    (ht : t ∈ s.waiters) :
    ∃ u, enabled s u = true ∧ ((s.loc u).pc.holdsRecv = true ∨ (s.loc u).pc = .n0 ∨ (s.loc u).pc = .n1 ∨
      (s.loc u).pc.holdsCond = true) := by
  have hL := invL_of_reachable h
  have hD := invD_of_reachable h
  rcases hL.wake (.inl ⟨t, ht⟩) with h1 | ⟨u, hu | hu⟩
  · cases hr : s.recvLock with
    | none => exact absurd hr h1
    | some v => exact ⟨v, (enabled_recvHolder hL hD hc hr).1, .inl ((hL.recv_iff v).mpr hr)⟩
  · cases hcl : s.condLock with
    | none => exact ⟨u, enabled_of_condFree hcl (.inr (.inr hu)), .inr (.inl hu)⟩
    | some v =>
      have hv := (hL.cond_iff v).mpr hcl
      exact ⟨v, enabled_of_free hD (free_of_holdsCond hv), .inr (.inr (.inr hv))⟩
  · exact ⟨u, enabled_of_free hD (by rw [hu]; rfl), .inr (.inr (.inl hu))⟩

theorem waiter_has_waker_after_close {s : St} (h : Reachable s) (hc : s.closed = true) (t : Tid)
    (ht : t ∈ s.waiters) :
    ∃ u, enabled s u = true ∧ ((s.loc u).pc.holdsRecv = true ∨ (s.loc u).pc = .n0 ∨ (s.loc u).pc = .n1 ∨
      (s.loc u).pc.holdsCond = true) :=
  waiter_has_waker h (.inr (.inr hc)) t ht

/-- if data is pending in the channel and some thread is inside a call or a serving loop, some thread
has an enabled step -/
theorem no_deadlock_with_data {s : St} (h : Reachable s) (hc : s.chan ≠ []) (t : Tid)
    (ht : (s.loc t).pc ≠ .idle) : ∃ u, enabled s u = true := by
  by_cases hb : (s.loc t).pc = .bS
  · exact ⟨t, enabled_of_free (invD_of_reachable h) (by rw [hb]; rfl)⟩
  · obtain ⟨u, hu, _⟩ := no_deadlock_with_data_strong h hc t ht hb
    exact ⟨u, hu⟩
