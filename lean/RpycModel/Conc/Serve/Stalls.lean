import RpycModel.Conc.Serve.Locks
import RpycModel.Conc.Serve.Seqs
/-
Lemmas behind the C14 classification / release / single-thread theorems (`Props/C14.lean`):
a published result stays published, a published result has a popper, and in a run in which only one thread
ever acts every popper is that thread.
-/
namespace Rpyc.Conc.Serve

set_option linter.unusedSimpArgs false

/-- a published result stays published -/
theorem ready_stable {s s' : St} (a : Actor) (hs : step s a = some s') (q : Seq)
    (hr : (s.cells q).ready = true) : (s'.cells q).ready = true := by
  cases a with
  | run t =>
    simp only [step, stepRun] at hs
    generalize hpc : (s.loc t).pc = pc at hs
    by_cases hx : pc = .x0
    · subst hx
      simp only [doX0, Option.some.injEq] at hs
      subst hs
      by_cases hcl : s.closed = true
      · simpa [hcl, setLoc] using hr
      · by_cases hreg : (s.cells q).reg = true
        · by_cases he : expiredAt (s.cells q).ttl s.now = true
          · simpa [hcl, setLoc, hreg, he] using hr
          · simp [hcl, setLoc, hreg, he]
        · simpa [hcl, setLoc, hreg] using hr
    cases pc <;>
      simp only [doC1, doC2, doC3, doW0, doS0, doS1, doS2, doS2w, doZz, doS2r, doS3, doP0, doX0, doR0, doN0, doN1, doN2,
        doD0, doD1, doD2, doD3, doD4, doD5, doW9, doW10, Option.some.injEq] at hs <;>
      (first | exact absurd rfl hx | skip) <;>
      (repeat' split at hs) <;>
      (first | cases hs | skip) <;>
      (try subst hs) <;>
      (first | done | exact hr
             | (simp [setLoc, setCell, markDispatched, leaveServe]; first | done | exact hr | (split <;> rfl) | (split <;> simp_all) | simp_all))
  | call t tmo => simp only [step] at hs; split at hs <;> cases hs; simpa [doCall, setLoc] using hr
  | bg t => simp only [step] at hs; split at hs <;> cases hs; simpa [setLoc] using hr
  | stop t => simp only [step] at hs; split at hs <;> cases hs; simpa [setLoc] using hr
  | pollAll t d => simp only [step] at hs; split at hs <;> cases hs; simpa [setLoc] using hr
  | peer q' e v => simp only [step] at hs; split at hs <;> cases hs; simpa [doPeer] using hr
  | peerDup q' e v => simp only [step] at hs; split at hs <;> cases hs; simpa [doPeer] using hr
  | peerEof => simp only [step] at hs; split at hs <;> cases hs; exact hr
  | tick d => simp only [step, Option.some.injEq] at hs; subst hs; exact hr

/-- the popper of a seq, once set, is only ever replaced by another `some` -/
theorem popper_some_stable {s s' : St} (a : Actor) (hs : step s a = some s') (q : Seq)
    (hp : ∃ u, s.popper q = some u) : ∃ u, s'.popper q = some u := by
  cases a with
  | run t =>
    simp only [step, stepRun] at hs
    generalize hpc : (s.loc t).pc = pc at hs
    cases pc <;>
      simp only [doC1, doC2, doC3, doW0, doS0, doS1, doS2, doS2w, doZz, doS2r, doS3, doP0, doX0, doR0, doN0, doN1, doN2,
        doD0, doD1, doD2, doD3, doD4, doD5, doW9, doW10, Option.some.injEq] at hs <;>
      (repeat' split at hs) <;>
      (first | cases hs | skip) <;>
      (try subst hs) <;>
      (first | done | exact hp
             | (simp [setLoc, setCell, markDispatched, leaveServe]; first | done | exact hp | (split <;> simp_all) | simp_all))
  | call t tmo => simp only [step] at hs; split at hs <;> cases hs; simpa [doCall, setLoc] using hp
  | bg t => simp only [step] at hs; split at hs <;> cases hs; simpa [setLoc] using hp
  | stop t => simp only [step] at hs; split at hs <;> cases hs; simpa [setLoc] using hp
  | pollAll t d => simp only [step] at hs; split at hs <;> cases hs; simpa [setLoc] using hp
  | peer q' e v => simp only [step] at hs; split at hs <;> cases hs; simpa [doPeer] using hp
  | peerDup q' e v => simp only [step] at hs; split at hs <;> cases hs; simpa [doPeer] using hp
  | peerEof => simp only [step] at hs; split at hs <;> cases hs; exact hp
  | tick d => simp only [step, Option.some.injEq] at hs; subst hs; exact hp

/-- readiness appears only in `d5`, by a thread that popped the callback -/
theorem ready_new {s s' : St} (hI : InvS s) (a : Actor) (hs : step s a = some s') (q : Seq)
    (hr : (s.cells q).ready = false) (hr' : (s'.cells q).ready = true) : ∃ u, s'.popper q = some u := by
  cases a with
  | run t =>
    simp only [step, stepRun] at hs
    generalize hpc : (s.loc t).pc = pc at hs
    by_cases h5 : pc = .d5
    · subst h5
      simp only [doD5] at hs
      obtain ⟨q0, f, hcb, _, _, hpop, _⟩ := hI.completing t (by rw [hpc]; rfl)
      rw [hcb] at hs
      simp only [Option.some.injEq] at hs
      subst hs
      by_cases hq : q = q0
      · subst hq; exact ⟨t, by simpa [setLoc, setCell] using hpop⟩
      · simp [setLoc, setCell, hq, hr] at hr'
    · by_cases hx : pc = .x0
      · subst hx
        simp only [doX0, Option.some.injEq] at hs
        subst hs
        by_cases hcl : s.closed = true
        · simp [hcl, setLoc, hr] at hr'
        · by_cases hreg : (s.cells q).reg = true
          · exact ⟨t, by simp [hcl, setLoc, hreg]⟩
          · simp [hcl, setLoc, hreg, hr] at hr'
      exfalso
      revert hr'
      cases pc <;>
        simp only [doC1, doC2, doC3, doW0, doS0, doS1, doS2, doS2w, doZz, doS2r, doS3, doP0, doX0, doR0, doN0, doN1, doN2,
          doD0, doD1, doD2, doD3, doD4, doD5, doW9, doW10, Option.some.injEq] at hs <;>
        (first | exact absurd rfl h5 | exact absurd rfl hx | skip) <;>
        (repeat' split at hs) <;>
        (first | cases hs | skip) <;>
        (try subst hs) <;>
        (first | done
               | (simp [setLoc, setCell, markDispatched, leaveServe, hr]; first | done | (split <;> simp_all) | simp_all))
  | call t tmo => simp only [step] at hs; split at hs <;> cases hs; simp [doCall, setLoc, hr] at hr'
  | bg t => simp only [step] at hs; split at hs <;> cases hs; simp [setLoc, hr] at hr'
  | stop t => simp only [step] at hs; split at hs <;> cases hs; simp [setLoc, hr] at hr'
  | pollAll t d => simp only [step] at hs; split at hs <;> cases hs; simp [setLoc, hr] at hr'
  | peer q' e v => simp only [step] at hs; split at hs <;> cases hs; simp [doPeer, hr] at hr'
  | peerDup q' e v => simp only [step] at hs; split at hs <;> cases hs; simp [doPeer, hr] at hr'
  | peerEof => simp only [step] at hs; split at hs <;> cases hs; simp [hr] at hr'
  | tick d => simp only [step, Option.some.injEq] at hs; subst hs; simp [hr] at hr'

/-- **a published result was popped by somebody** -/
theorem ready_popped {s : St} (h : Reachable s) (q : Seq) (hr : (s.cells q).ready = true) :
    ∃ u, s.popper q = some u := by
  induction h with
  | init => simp [init] at hr
  | step a h hs ih =>
    rename_i s0 s1
    cases hr0 : (s0.cells q).ready with
    | true => exact popper_some_stable a hs q (ih hr0)
    | false => exact ready_new (invS_of_reachable h) a hs q hr0 hr

/-- the actor is thread `t` or the environment -/
def Actor.byOrEnv (t : Tid) : Actor → Prop
  | .call u _ | .bg u | .stop u | .pollAll u _ | .run u => u = t
  | .peer _ _ _ | .peerDup _ _ _ | .peerEof | .tick _ => True

/-- every callback popped so far was popped by `t` -/
def OnlyPopper (t : Tid) (s : St) : Prop := ∀ q u, s.popper q = some u → u = t

theorem onlyPopper_step {s s' : St} {t : Tid} (a : Actor) (ha : a.byOrEnv t) (h : OnlyPopper t s)
    (hs : step s a = some s') : OnlyPopper t s' := by
  intro q u
  cases a with
  | run t' =>
    have e : t' = t := ha
    subst e
    simp only [step, stepRun] at hs
    generalize hpc : (s.loc t').pc = pc at hs
    have h' := h q u
    cases pc <;>
      simp only [doC1, doC2, doC3, doW0, doS0, doS1, doS2, doS2w, doZz, doS2r, doS3, doP0, doX0, doR0, doN0, doN1, doN2,
        doD0, doD1, doD2, doD3, doD4, doD5, doW9, doW10, Option.some.injEq] at hs <;>
      (repeat' split at hs) <;>
      (first | cases hs | skip) <;>
      (try subst hs) <;>
      (first | done | exact h'
             | (simp [setLoc, setCell, markDispatched, leaveServe]; first | done | exact h' | (split <;> simp_all) | simp_all))
  | call t' tmo => simp only [step] at hs; split at hs <;> cases hs; simpa [doCall, setLoc] using h q u
  | bg t' => simp only [step] at hs; split at hs <;> cases hs; simpa [setLoc] using h q u
  | stop t' => simp only [step] at hs; split at hs <;> cases hs; simpa [setLoc] using h q u
  | pollAll t' d => simp only [step] at hs; split at hs <;> cases hs; simpa [setLoc] using h q u
  | peer q' e v => simp only [step] at hs; split at hs <;> cases hs; simpa [doPeer] using h q u
  | peerDup q' e v => simp only [step] at hs; split at hs <;> cases hs; simpa [doPeer] using h q u
  | peerEof => simp only [step] at hs; split at hs <;> cases hs; exact h q u
  | tick d => simp only [step, Option.some.injEq] at hs; subst hs; exact h q u

theorem onlyPopper_run {t : Tid} : ∀ (as : List Actor) (s s' : St), (∀ a ∈ as, a.byOrEnv t) → Reachable s →
    OnlyPopper t s → run s as = some s' → Reachable s' ∧ OnlyPopper t s' := by
  intro as
  induction as with
  | nil => intro s s' _ hr hp e; simp [run] at e; subst e; exact ⟨hr, hp⟩
  | cons a as ih =>
    intro s s' hall hr hp e
    simp only [run] at e
    cases hs : step s a with
    | none => simp [hs] at e
    | some s1 =>
      simp [hs] at e
      exact ih s1 s' (fun b hb => hall b (List.mem_cons_of_mem _ hb)) (Reachable.step a hr hs)
        (onlyPopper_step a (hall a List.mem_cons_self) hp hs) e

/-- (definitional: unfolds `doP0` / `doZz`; used by `C14_bounded_stall`)  A client blocked in `poll()` is enabled again as soon as a frame arrives, the
stream ends, the connection is closed, or its deadline is reached; a client asleep on the condition as soon as it
is notified or its deadline is reached. -/
theorem stalled_waiter_released {s : St} (t : Tid) :
    ((s.loc t).pc = .p0 → (s.chan ≠ [] ∨ s.eof = true ∨ s.closed = true ∨ expiredAt (s.loc t).dl s.now = true) →
        enabled s t = true) ∧
    ((s.loc t).pc = .zz → (t ∉ s.waiters ∨ expiredAt (s.loc t).wdl s.now = true) → enabled s t = true) := by
  constructor
  · intro hp hc
    rcases hc with h | h | h | h
    · exact p0_enabled hp (.inl h)
    · exact p0_enabled hp (.inr (.inl h))
    · exact p0_enabled hp (.inr (.inr h))
    · by_cases hcl : s.closed = true
      · exact p0_enabled hp (.inr (.inr hcl))
      · cases hch : s.chan with
        | cons f r => exact p0_enabled hp (.inl (by rw [hch]; simp))
        | nil =>
          by_cases he : s.eof = true
          · exact p0_enabled hp (.inr (.inl he))
          · simp [enabled, stepRun, hp, doP0, hcl, hch, he, h]
  · intro hp hc
    rcases hc with h | h
    · simp [enabled, stepRun, hp, doZz, h]
    · by_cases hw : t ∈ s.waiters
      · simp [enabled, stepRun, hp, doZz, hw, h]
      · simp [enabled, stepRun, hp, doZz, hw]


/-- (true of the MODEL by construction) **dispatching a reply makes no request of its own.**  Between receiving a frame and publishing the result
(`r0 … d5`: release, notify, `_dispatch`, `_seq_request_callback`, `AsyncResult.__call__`) a model thread sends
nothing and takes no sequence number.  This is a fact about the MODEL's steps, true by construction.  Of the real
code it holds for results that travel by value or are references to builtin classes (checked by trace acceptance,
also with a DEBUG logger configured: a dispatcher that sends a request there — e.g. `repr()` of a proxy in a log
line — is rejected, and the stall it causes carries the signature
`C14:dispatcher-blocks-in-nested-request-before-publication`).  It does NOT hold for a reference to an instance of
a user class: `_unbox` → `_netref_factory` makes a `sync_request(HANDLE_INSPECT)` on the dispatching thread,
between the lock hand-off and the publication.  That nested call is represented as a fresh logical thread of the
machine (the locks have no owner), so every theorem still applies to those runs; the stalls it widens are
reproduced on the real code (witness `userclass-priority`) and fall under the first listed signature. -/
theorem dispatcher_sends_no_request {s s' : St} (t : Tid)
    (hp : (s.loc t).pc.holding = true ∨ (s.loc t).pc.completing = true) (hs : step s (.run t) = some s') :
    s'.outstanding = s.outstanding ∧ s'.seqCounter = s.seqCounter ∧ s'.issued = s.issued := by
  simp only [step, stepRun] at hs
  generalize hpc : (s.loc t).pc = pc at hs hp
  cases pc <;> simp [PC.holding, PC.completing] at hp <;>
    simp only [doR0, doN0, doN1, doN2, doD0, doD1, doD2, doD3, doD4, doD5, Option.some.injEq] at hs <;>
    (repeat' split at hs) <;>
    (first | (subst hs; simp [setLoc, setCell, markDispatched])
           | (cases hs; first | done | simp [setLoc, setCell, markDispatched]))


end Rpyc.Conc.Serve
