import RpycModel.Conc.Serve.Locks
import RpycModel.Conc.Serve.Seqs
/-
Lemmas behind the C14 classification / release / single-thread theorems (`Props/C14.lean`):
a published result stays published, a published result has a popper, and in a run in which only one thread
ever acts every popper is that thread.
-/
namespace Rpyc.Conc.Serve

set_option linter.unusedSimpArgs false

/-- a published result stays published -/
theorem ready_stable {s s' : St} (a : Actor) (hs : step s a = some s') (q : Seq)
    (hr : (s.cells q).ready = true) : (s'.cells q).ready = true := by
  cases a with
  | run t =>
    simp only [step, stepRun] at hs
    generalize hpc : (s.loc t).pc = pc at hs
    cases pc <;>
      simp only [doC1, doC2, doC3, doW0, doS0, doS1, doS2, doS2w, doZz, doS2r, doS3, doP0, doX0, doR0, doN0, doN1, doN2,
        doD0, doD1, doD2, doD3, doD4, doD5, doW9, doW10, Option.some.injEq] at hs <;>
      (repeat' split at hs) <;>
      (first | cases hs | skip) <;>
      (try subst hs) <;>
      (first | done | exact hr
             | (simp [setLoc, setCell, markDispatched, leaveServe]; first | done | exact hr | (split <;> simp_all) | simp_all))
  | call t tmo => simp only [step] at hs; split at hs <;> cases hs; simpa [doCall, setLoc] using hr
  | bg t => simp only [step] at hs; split at hs <;> cases hs; simpa [setLoc] using hr
  | stop t => simp only [step] at hs; split at hs <;> cases hs; simpa [setLoc] using hr
  | pollAll t d => simp only [step] at hs; split at hs <;> cases hs; simpa [setLoc] using hr
  | peer q' e v => simp only [step] at hs; split at hs <;> cases hs; simpa [doPeer] using hr
  | peerDup q' e v => simp only [step] at hs; split at hs <;> cases hs; simpa [doPeer] using hr
  | peerEof => simp only [step] at hs; split at hs <;> cases hs; exact hr
  | tick d => simp only [step, Option.some.injEq] at hs; subst hs; exact hr

/-- the popper of a seq, once set, is only ever replaced by another `some` -/
theorem popper_some_stable {s s' : St} (a : Actor) (hs : step s a = some s') (q : Seq)
    (hp : ∃ u, s.popper q = some u) : ∃ u, s'.popper q = some u := by
  cases a with
  | run t =>
    simp only [step, stepRun] at hs
    generalize hpc : (s.loc t).pc = pc at hs
    cases pc <;>
      simp only [doC1, doC2, doC3, doW0, doS0, doS1, doS2, doS2w, doZz, doS2r, doS3, doP0, doX0, doR0, doN0, doN1, doN2,
        doD0, doD1, doD2, doD3, doD4, doD5, doW9, doW10, Option.some.injEq] at hs <;>
      (repeat' split at hs) <;>
      (first | cases hs | skip) <;>
      (try subst hs) <;>
      (first | done | exact hp
             | (simp [setLoc, setCell, markDispatched, leaveServe]; first | done | exact hp | (split <;> simp_all) | simp_all))
  | call t tmo => simp only [step] at hs; split at hs <;> cases hs; simpa [doCall, setLoc] using hp
  | bg t => simp only [step] at hs; split at hs <;> cases hs; simpa [setLoc] using hp
  | stop t => simp only [step] at hs; split at hs <;> cases hs; simpa [setLoc] using hp
  | pollAll t d => simp only [step] at hs; split at hs <;> cases hs; simpa [setLoc] using hp
  | peer q' e v => simp only [step] at hs; split at hs <;> cases hs; simpa [doPeer] using hp
  | peerDup q' e v => simp only [step] at hs; split at hs <;> cases hs; simpa [doPeer] using hp
  | peerEof => simp only [step] at hs; split at hs <;> cases hs; exact hp
  | tick d => simp only [step, Option.some.injEq] at hs; subst hs; exact hp

/-- readiness appears only in `d5`, by a thread that popped the callback -/
theorem ready_new {s s' : St} (hI : InvS s) (a : Actor) (hs : step s a = some s') (q : Seq)
    (hr : (s.cells q).ready = false) (hr' : (s'.cells q).ready = true) : ∃ u, s'.popper q = some u := by
  cases a with
  | run t =>
    simp only [step, stepRun] at hs
    generalize hpc : (s.loc t).pc = pc at hs
    by_cases h5 : pc = .d5
    · subst h5
      simp only [doD5] at hs
      obtain ⟨q0, f, hcb, _, _, hpop, _⟩ := hI.completing t (by rw [hpc]; rfl)
      rw [hcb] at hs
      simp only [Option.some.injEq] at hs
      subst hs
      by_cases hq : q = q0
      · subst hq; exact ⟨t, by simpa [setLoc, setCell] using hpop⟩
      · simp [setLoc, setCell, hq, hr] at hr'
    · exfalso
      revert hr'
      cases pc <;>
        simp only [doC1, doC2, doC3, doW0, doS0, doS1, doS2, doS2w, doZz, doS2r, doS3, doP0, doX0, doR0, doN0, doN1, doN2,
          doD0, doD1, doD2, doD3, doD4, doD5, doW9, doW10, Option.some.injEq] at hs <;>
        (first | exact absurd rfl h5 | skip) <;>
        (repeat' split at hs) <;>
        (first | cases hs | skip) <;>
        (try subst hs) <;>
        (first | done
               | (simp [setLoc, setCell, markDispatched, leaveServe, hr]; first | done | (split <;> simp_all) | simp_all))
  | call t tmo => simp only [step] at hs; split at hs <;> cases hs; simp [doCall, setLoc, hr] at hr'
  | bg t => simp only [step] at hs; split at hs <;> cases hs; simp [setLoc, hr] at hr'
  | stop t => simp only [step] at hs; split at hs <;> cases hs; simp [setLoc, hr] at hr'
  | pollAll t d => simp only [step] at hs; split at hs <;> cases hs; simp [setLoc, hr] at hr'
  | peer q' e v => simp only [step] at hs; split at hs <;> cases hs; simp [doPeer, hr] at hr'
  | peerDup q' e v => simp only [step] at hs; split at hs <;> cases hs; simp [doPeer, hr] at hr'
  | peerEof => simp only [step] at hs; split at hs <;> cases hs; simp [hr] at hr'
  | tick d => simp only [step, Option.some.injEq] at hs; subst hs; simp [hr] at hr'

/-- **a published result was popped by somebody** -/
theorem ready_popped {s : St} (h : Reachable s) (q : Seq) (hr : (s.cells q).ready = true) :
    ∃ u, s.popper q = some u := by
  induction h with
  | init => simp [init] at hr
  | step a h hs ih =>
    rename_i s0 s1
    cases hr0 : (s0.cells q).ready with
    | true => exact popper_some_stable a hs q (ih hr0)
    | false => exact ready_new (invS_of_reachable h) a hs q hr0 hr

/-- the actor is thread `t` or the environment -/
def Actor.byOrEnv (t : Tid) : Actor → Prop
  | .call u _ | .bg u | .stop u | .pollAll u _ | .run u => u = t
  | .peer _ _ _ | .peerDup _ _ _ | .peerEof | .tick _ => True

/-- every callback popped so far was popped by `t` -/
def OnlyPopper (t : Tid) (s : St) : Prop := ∀ q u, s.popper q = some u → u = t

theorem onlyPopper_step {s s' : St} {t : Tid} (a : Actor) (ha : a.byOrEnv t) (h : OnlyPopper t s)
    (hs : step s a = some s') : OnlyPopper t s' := by
  intro q u
  cases a with
  | run t' =>
    have e : t' = t := ha
    subst e
    simp only [step, stepRun] at hs
    generalize hpc : (s.loc t').pc = pc at hs
    have h' := h q u
    cases pc <;>
      simp only [doC1, doC2, doC3, doW0, doS0, doS1, doS2, doS2w, doZz, doS2r, doS3, doP0, doX0, doR0, doN0, doN1, doN2,
        doD0, doD1, doD2, doD3, doD4, doD5, doW9, doW10, Option.some.injEq] at hs <;>
      (repeat' split at hs) <;>
      (first | cases hs | skip) <;>
      (try subst hs) <;>
      (first | done | exact h'
             | (simp [setLoc, setCell, markDispatched, leaveServe]; first | done | exact h' | (split <;> simp_all) | simp_all))
  | call t' tmo => simp only [step] at hs; split at hs <;> cases hs; simpa [doCall, setLoc] using h q u
  | bg t' => simp only [step] at hs; split at hs <;> cases hs; simpa [setLoc] using h q u
  | stop t' => simp only [step] at hs; split at hs <;> cases hs; simpa [setLoc] using h q u
  | pollAll t' d => simp only [step] at hs; split at hs <;> cases hs; simpa [setLoc] using h q u
  | peer q' e v => simp only [step] at hs; split at hs <;> cases hs; simpa [doPeer] using h q u
  | peerDup q' e v => simp only [step] at hs; split at hs <;> cases hs; simpa [doPeer] using h q u
  | peerEof => simp only [step] at hs; split at hs <;> cases hs; exact h q u
  | tick d => simp only [step, Option.some.injEq] at hs; subst hs; exact h q u

theorem onlyPopper_run {t : Tid} : ∀ (as : List Actor) (s s' : St), (∀ a ∈ as, a.byOrEnv t) → Reachable s →
    OnlyPopper t s → run s as = some s' → Reachable s' ∧ OnlyPopper t s' := by
  intro as
  induction as with
  | nil => intro s s' _ hr hp e; simp [run] at e; subst e; exact ⟨hr, hp⟩
  | cons a as ih =>
    intro s s' hall hr hp e
    simp only [run] at e
    cases hs : step s a with
    | none => simp [hs] at e
    | some s1 =>
      simp [hs] at e
      exact ih s1 s' (fun b hb => hall b (List.mem_cons_of_mem _ hb)) (Reachable.step a hr hs)
        (onlyPopper_step a (hall a List.mem_cons_self) hp hs) e

end Rpyc.Conc.Serve
