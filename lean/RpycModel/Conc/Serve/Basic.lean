import RpycModel.Conc.Serve.Model
/-
Projection lemmas for `setLoc`/`setCell` and the statements of the four invariant groups of the
receive-side machine.  The proofs that every reachable state satisfies them are in
`Locks.lean`, `Seqs.lean`, `Frames.lean`.
-/
namespace Rpyc.Conc.Serve

/-! ### projections -/
@[simp] theorem setLoc_loc_self (s : St) (t : Tid) (l : Loc) : (setLoc s t l).loc t = l := by simp [setLoc]
theorem setLoc_loc (s : St) (t u : Tid) (l : Loc) : (setLoc s t l).loc u = if u = t then l else s.loc u := rfl
@[simp] theorem setLoc_loc_ne (s : St) {t u : Tid} (l : Loc) (h : u ≠ t) : (setLoc s t l).loc u = s.loc u := by
  simp [setLoc, h]
@[simp] theorem setLoc_recvLock (s : St) (t : Tid) (l : Loc) : (setLoc s t l).recvLock = s.recvLock := rfl
@[simp] theorem setLoc_condLock (s : St) (t : Tid) (l : Loc) : (setLoc s t l).condLock = s.condLock := rfl
@[simp] theorem setLoc_waiters (s : St) (t : Tid) (l : Loc) : (setLoc s t l).waiters = s.waiters := rfl
@[simp] theorem setLoc_chan (s : St) (t : Tid) (l : Loc) : (setLoc s t l).chan = s.chan := rfl
@[simp] theorem setLoc_cells (s : St) (t : Tid) (l : Loc) : (setLoc s t l).cells = s.cells := rfl
@[simp] theorem setLoc_seqCounter (s : St) (t : Tid) (l : Loc) : (setLoc s t l).seqCounter = s.seqCounter := rfl
@[simp] theorem setLoc_now (s : St) (t : Tid) (l : Loc) : (setLoc s t l).now = s.now := rfl
@[simp] theorem setLoc_outstanding (s : St) (t : Tid) (l : Loc) : (setLoc s t l).outstanding = s.outstanding := rfl
@[simp] theorem setLoc_eof (s : St) (t : Tid) (l : Loc) : (setLoc s t l).eof = s.eof := rfl
@[simp] theorem setLoc_closed (s : St) (t : Tid) (l : Loc) : (setLoc s t l).closed = s.closed := rfl
@[simp] theorem setLoc_issued (s : St) (t : Tid) (l : Loc) : (setLoc s t l).issued = s.issued := rfl
@[simp] theorem setLoc_nsent (s : St) (t : Tid) (l : Loc) : (setLoc s t l).nsent = s.nsent := rfl
@[simp] theorem setLoc_answer (s : St) (t : Tid) (l : Loc) : (setLoc s t l).answer = s.answer := rfl
@[simp] theorem setLoc_fstat (s : St) (t : Tid) (l : Loc) : (setLoc s t l).fstat = s.fstat := rfl
@[simp] theorem setLoc_dcount (s : St) (t : Tid) (l : Loc) : (setLoc s t l).dcount = s.dcount := rfl
@[simp] theorem setLoc_popper (s : St) (t : Tid) (l : Loc) : (setLoc s t l).popper = s.popper := rfl
@[simp] theorem setLoc_completions (s : St) (t : Tid) (l : Loc) : (setLoc s t l).completions = s.completions := rfl

@[simp] theorem setCell_cells_self (s : St) (q : Seq) (c : Cell) : (setCell s q c).cells q = c := by simp [setCell]
theorem setCell_cells (s : St) (q r : Seq) (c : Cell) : (setCell s q c).cells r = if r = q then c else s.cells r := rfl
@[simp] theorem setCell_cells_ne (s : St) {q r : Seq} (c : Cell) (h : r ≠ q) : (setCell s q c).cells r = s.cells r := by
  simp [setCell, h]
@[simp] theorem setCell_loc (s : St) (q : Seq) (c : Cell) : (setCell s q c).loc = s.loc := rfl
@[simp] theorem setCell_recvLock (s : St) (q : Seq) (c : Cell) : (setCell s q c).recvLock = s.recvLock := rfl
@[simp] theorem setCell_condLock (s : St) (q : Seq) (c : Cell) : (setCell s q c).condLock = s.condLock := rfl
@[simp] theorem setCell_waiters (s : St) (q : Seq) (c : Cell) : (setCell s q c).waiters = s.waiters := rfl
@[simp] theorem setCell_chan (s : St) (q : Seq) (c : Cell) : (setCell s q c).chan = s.chan := rfl
@[simp] theorem setCell_seqCounter (s : St) (q : Seq) (c : Cell) : (setCell s q c).seqCounter = s.seqCounter := rfl
@[simp] theorem setCell_now (s : St) (q : Seq) (c : Cell) : (setCell s q c).now = s.now := rfl
@[simp] theorem setCell_outstanding (s : St) (q : Seq) (c : Cell) : (setCell s q c).outstanding = s.outstanding := rfl
@[simp] theorem setCell_eof (s : St) (q : Seq) (c : Cell) : (setCell s q c).eof = s.eof := rfl
@[simp] theorem setCell_closed (s : St) (q : Seq) (c : Cell) : (setCell s q c).closed = s.closed := rfl
@[simp] theorem setCell_issued (s : St) (q : Seq) (c : Cell) : (setCell s q c).issued = s.issued := rfl
@[simp] theorem setCell_nsent (s : St) (q : Seq) (c : Cell) : (setCell s q c).nsent = s.nsent := rfl
@[simp] theorem setCell_answer (s : St) (q : Seq) (c : Cell) : (setCell s q c).answer = s.answer := rfl
@[simp] theorem setCell_fstat (s : St) (q : Seq) (c : Cell) : (setCell s q c).fstat = s.fstat := rfl
@[simp] theorem setCell_dcount (s : St) (q : Seq) (c : Cell) : (setCell s q c).dcount = s.dcount := rfl
@[simp] theorem setCell_popper (s : St) (q : Seq) (c : Cell) : (setCell s q c).popper = s.popper := rfl
@[simp] theorem setCell_completions (s : St) (q : Seq) (c : Cell) : (setCell s q c).completions = s.completions := rfl

@[simp] theorem markDispatched_loc (s : St) (f : Frame) : (markDispatched s f).loc = s.loc := rfl
@[simp] theorem markDispatched_cells (s : St) (f : Frame) : (markDispatched s f).cells = s.cells := rfl
@[simp] theorem markDispatched_recvLock (s : St) (f : Frame) : (markDispatched s f).recvLock = s.recvLock := rfl
@[simp] theorem markDispatched_condLock (s : St) (f : Frame) : (markDispatched s f).condLock = s.condLock := rfl
@[simp] theorem markDispatched_waiters (s : St) (f : Frame) : (markDispatched s f).waiters = s.waiters := rfl
@[simp] theorem markDispatched_chan (s : St) (f : Frame) : (markDispatched s f).chan = s.chan := rfl
@[simp] theorem markDispatched_seqCounter (s : St) (f : Frame) : (markDispatched s f).seqCounter = s.seqCounter := rfl
@[simp] theorem markDispatched_now (s : St) (f : Frame) : (markDispatched s f).now = s.now := rfl
@[simp] theorem markDispatched_outstanding (s : St) (f : Frame) : (markDispatched s f).outstanding = s.outstanding := rfl
@[simp] theorem markDispatched_eof (s : St) (f : Frame) : (markDispatched s f).eof = s.eof := rfl
@[simp] theorem markDispatched_closed (s : St) (f : Frame) : (markDispatched s f).closed = s.closed := rfl
@[simp] theorem markDispatched_issued (s : St) (f : Frame) : (markDispatched s f).issued = s.issued := rfl
@[simp] theorem markDispatched_nsent (s : St) (f : Frame) : (markDispatched s f).nsent = s.nsent := rfl
@[simp] theorem markDispatched_answer (s : St) (f : Frame) : (markDispatched s f).answer = s.answer := rfl
@[simp] theorem markDispatched_popper (s : St) (f : Frame) : (markDispatched s f).popper = s.popper := rfl
@[simp] theorem markDispatched_completions (s : St) (f : Frame) : (markDispatched s f).completions = s.completions := rfl

/-! ### program-counter classes -/

/-- the thread holds the condition's own lock -/
def PC.holdsCond : PC → Bool
  | .s2 | .s2w | .s2f | .s3 | .n1 | .n2 => true
  | _ => false

/-- the thread holds the receive lock -/
def PC.holdsRecv : PC → Bool
  | .s3 | .p0 | .x0 | .r0 => true
  | _ => false

/-- the thread has a received frame in hand that it has not yet dispatched -/
def PC.holding : PC → Bool
  | .r0 | .n0 | .n1 | .n2 | .d0 | .d1 => true
  | _ => false

/-- inside `AsyncResult.__call__` with a popped callback -/
def PC.completing : PC → Bool
  | .d2 | .d3 | .d4 | .d5 => true
  | _ => false

/-- inside `serve()` (after `Timeout(timeout)` was computed) -/
def PC.inServe : PC → Bool
  | .s1 | .s2 | .s2w | .s2f | .zz | .s2r | .s3 | .p0 | .x0 | .r0 | .n0 | .n1 | .n2 | .d0 | .d1 | .d2 | .d3 | .d4 | .d5 => true
  | _ => false

/-- the client thread owns a live request (its `seq` field is meaningful) -/
def Loc.hasSeq (l : Loc) : Bool := !l.bg && l.pc != .idle

/-- a thread step is enabled -/
def enabled (s : St) (t : Tid) : Bool := (stepRun s t).isSome

/-! ### the invariants -/

/-- locks, wait-set, wake-ups -/
structure InvL (s : St) : Prop where
  cond_iff : ∀ t, (s.loc t).pc.holdsCond = true ↔ s.condLock = some t
  recv_iff : ∀ t, (s.loc t).pc.holdsRecv = true ↔ s.recvLock = some t
  waiter_pc : ∀ t, t ∈ s.waiters → (s.loc t).pc = .zz
  waiters_nodup : s.waiters.Nodup
  /-- no lost wake-up: whenever somebody is (about to be) in the wait-set, the receive lock is held
  or a thread that released it has not yet called `notify_all` -/
  wake : ((∃ t, t ∈ s.waiters) ∨ (∃ t, (s.loc t).pc = .s2w)) →
         s.recvLock ≠ none ∨ ∃ u, (s.loc u).pc = .n0 ∨ (s.loc u).pc = .n1

/-- the result cell of a seq nobody has touched -/
def freshSeq (s : St) (q : Seq) : Prop :=
  s.cells q = {} ∧ s.answer q = none ∧ q ∉ s.outstanding ∧ s.popper q = none ∧ s.completions q = 0

/-- sequence numbers, callbacks table, result cells -/
structure InvS (s : St) : Prop where
  issued_lt : ∀ q ∈ s.issued, q < s.seqCounter
  issued_nodup : s.issued.Nodup
  seq_issued : ∀ t, (s.loc t).hasSeq = true → (s.loc t).seq ∈ s.issued
  seq_inj : ∀ t u, (s.loc t).hasSeq = true → (s.loc u).hasSeq = true → (s.loc t).seq = (s.loc u).seq → t = u
  fresh : ∀ q, s.seqCounter ≤ q → freshSeq s q
  at_c1 : ∀ t, (s.loc t).hasSeq = true → (s.loc t).pc = .c1 → freshSeq s (s.loc t).seq
  at_c2 : ∀ t, (s.loc t).hasSeq = true → (s.loc t).pc = .c2 → s.closed = false →
            s.answer (s.loc t).seq = none ∧ (s.loc t).seq ∉ s.outstanding
  out_nodup : s.outstanding.Nodup
  out_unanswered : ∀ q ∈ s.outstanding, s.answer q = none ∧ q < s.seqCounter
  reg_clean : ∀ q, (s.cells q).reg = true → s.popper q = none ∧ s.completions q = 0 ∧ (s.cells q).ready = false
  cb_pc : ∀ t q, (s.loc t).cb = some q → (s.loc t).pc.completing = true
  completing : ∀ t, (s.loc t).pc.completing = true → ∃ q f, (s.loc t).cb = some q ∧ (s.loc t).data = some f ∧
      f.seq = q ∧ s.popper q = some t ∧ (s.cells q).reg = false ∧ s.completions q = 0 ∧ (s.cells q).ready = false ∧
      (((s.loc t).pc = .d4 ∨ (s.loc t).pc = .d5) → (s.cells q).isExc = some f.exc) ∧
      ((s.loc t).pc = .d5 → (s.cells q).obj = some f.val)
  /-- frames are answers the peer gave — unless the request was meanwhile completed by `_cleanup` with the end of the
  connection (then the frame finds no callback) -/
  chan_answer : ∀ f ∈ s.chan, s.answer f.seq = some (f.exc, f.val) ∨ (s.cells f.seq).eofed = true
  data_answer : ∀ t f, (s.loc t).data = some f → s.answer f.seq = some (f.exc, f.val) ∨ (s.cells f.seq).eofed = true
  eofed_unreg : ∀ q, (s.cells q).eofed = true → (s.cells q).reg = false
  raising_pc : ∀ t, (s.loc t).raising = true → (s.loc t).pc.holding = true
  obj_answer : ∀ q v, (s.cells q).obj = some v → ∃ e, s.answer q = some (e, v)
  exc_answer : ∀ q e, (s.cells q).isExc = some e → ∃ v, s.answer q = some (e, v)
  compl_le : ∀ q, s.completions q ≤ 1
  ready_compl : ∀ q, (s.cells q).ready = true →
      s.completions q = 1 ∧ (s.cells q).obj.isSome = true ∧ (s.cells q).isExc.isSome = true
  at_w10 : ∀ t, (s.loc t).hasSeq = true → (s.loc t).pc = .w10 → (s.cells (s.loc t).seq).ready = true
  result_ok : ∀ t e o, (s.loc t).bg = false → (s.loc t).result = some (.value e o) →
      ∃ e' v, s.answer (s.loc t).seq = some (e', v) ∧ e = some e' ∧ o = some v
  /-- a waiter whose reply was dispatched by itself has left `serve` -/
  self_dispatch : ∀ t, (s.loc t).hasSeq = true → (s.cells (s.loc t).seq).ready = true →
      s.popper (s.loc t).seq = some t →
      (s.loc t).pc = .w0 ∨ (s.loc t).pc = .w9 ∨ (s.loc t).pc = .w10 ∨ (s.loc t).raising = true
  /-- inside `serve`, a client's deadline is its request's expiry -/
  dl_ttl : ∀ t, (s.loc t).hasSeq = true → (s.loc t).pc.inServe = true → (s.loc t).dl = (s.cells (s.loc t).seq).ttl
  /-- the condition wait never outlasts `serve`'s deadline -/
  wdl_le : ∀ t, (s.loc t).pc = .zz → ∀ d, (s.loc t).dl = some d → ∃ w, (s.loc t).wdl = some w ∧ w ≤ max s.now d

/-- frames: each is in the channel, in exactly one hand, or dispatched once -/
structure InvF (s : St) : Prop where
  unsent_iff : ∀ k, s.fstat k = .unsent ↔ s.nsent ≤ k
  chan_sorted : (s.chan.map (·.id)).Pairwise (· < ·)
  chan_stat : ∀ f ∈ s.chan, s.fstat f.id = .inChan
  stat_chan : ∀ k, s.fstat k = .inChan → ∃ f ∈ s.chan, f.id = k
  data_pc : ∀ t f, (s.loc t).data = some f → (s.loc t).pc.holding = true ∨ (s.loc t).pc.completing = true
  holding_stat : ∀ t f, (s.loc t).data = some f → (s.loc t).pc.holding = true → s.fstat f.id = .held t
  completing_stat : ∀ t f, (s.loc t).data = some f → (s.loc t).pc.completing = true → s.fstat f.id = .dispatched
  held_data : ∀ k t, s.fstat k = .held t → ∃ f, (s.loc t).data = some f ∧ f.id = k ∧ (s.loc t).pc.holding = true
  dcount_eq : ∀ k, s.dcount k = if s.fstat k = .dispatched then 1 else 0

end Rpyc.Conc.Serve
