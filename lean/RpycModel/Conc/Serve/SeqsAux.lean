import RpycModel.Conc.Serve.Basic
/-
Auxiliary definitions and frame lemmas for `Seqs.lean` (the proof that `InvS` holds in every
reachable state).

`InvS` as stated in `Basic.lean` is not inductive by itself: `result_ok` only speaks about threads
with `bg = false`, so after `.stop t` (which flips `bg` back to `false` at `b0`) nothing is known
about `t`'s old `result`; and `at_c1`/`at_c2`/`at_w10` need `hasSeq`, i.e. `bg = false`, for a thread
at `c1`/`c2`/`w10`.  The stronger invariant `InvS'` proved here adds
  * `bg_pc`     : a background thread is never at a client-only program counter
                  (`idle`, `c1`, `c2`, `c3`, `w0`, `w9`, `w10`);
  * `result_ok` : without the premise `bg = false`.
It is organised as a global part `GlobOK`, a per-thread part `ThrOK` and `seq_inj`.
-/
namespace Rpyc.Conc.Serve

/-- program counters only a client thread (never a background serving thread) can be at -/
def PC.client : PC → Bool
  | .idle | .c1 | .c2 | .c3 | .w0 | .w9 | .w10 => true
  | _ => false

/-- waiting for the result outside `serve` -/
def PC.waiting : PC → Bool
  | .w0 | .w9 | .w10 => true
  | _ => false

/-- the loop of `BgServingThread._bg_server` (a polling thread is never there) -/
def PC.bgLoop : PC → Bool
  | .b0 | .bS => true
  | _ => false

/-- the part of the invariant that speaks about one thread -/
structure ThrOK (s : St) (t : Tid) (l : Loc) : Prop where
  bg_pc : l.bg = true → l.pc.client = false
  nowait_ok : l.nowait = true → l.bg = true ∧ l.pc.bgLoop = false
  seq_issued : l.hasSeq = true → l.seq ∈ s.issued
  at_c1 : l.hasSeq = true → l.pc = .c1 → freshSeq s l.seq
  at_c2 : l.hasSeq = true → l.pc = .c2 → s.answer l.seq = none ∧ l.seq ∉ s.outstanding
  cb_pc : ∀ q, l.cb = some q → l.pc.completing = true
  completing : l.pc.completing = true → ∃ q f, l.cb = some q ∧ l.data = some f ∧
      f.seq = q ∧ s.popper q = some t ∧ (s.cells q).reg = false ∧ s.completions q = 0 ∧ (s.cells q).ready = false ∧
      ((l.pc = .d4 ∨ l.pc = .d5) → (s.cells q).isExc = some f.exc) ∧
      (l.pc = .d5 → (s.cells q).obj = some f.val)
  data_answer : ∀ f, l.data = some f → s.answer f.seq = some (f.exc, f.val)
  at_w10 : l.hasSeq = true → l.pc = .w10 → (s.cells l.seq).ready = true
  result_ok : ∀ e o, l.result = some (.value e o) →
      ∃ e' v, s.answer l.seq = some (e', v) ∧ e = some e' ∧ o = some v
  self_dispatch : l.hasSeq = true → (s.cells l.seq).ready = true →
      s.popper l.seq = some t → l.pc.waiting = true
  dl_ttl : l.hasSeq = true → l.pc.inServe = true → l.dl = (s.cells l.seq).ttl
  wdl_le : l.pc = .zz → ∀ d, l.dl = some d → ∃ w, l.wdl = some w ∧ w ≤ max s.now d

/-- the part of the invariant that speaks about no thread -/
structure GlobOK (s : St) : Prop where
  issued_lt : ∀ q ∈ s.issued, q < s.seqCounter
  issued_nodup : s.issued.Nodup
  fresh : ∀ q, s.seqCounter ≤ q → freshSeq s q
  out_nodup : s.outstanding.Nodup
  out_unanswered : ∀ q ∈ s.outstanding, s.answer q = none ∧ q < s.seqCounter
  reg_clean : ∀ q, (s.cells q).reg = true → s.popper q = none ∧ s.completions q = 0 ∧ (s.cells q).ready = false
  chan_answer : ∀ f ∈ s.chan, s.answer f.seq = some (f.exc, f.val)
  obj_answer : ∀ q v, (s.cells q).obj = some v → ∃ e, s.answer q = some (e, v)
  exc_answer : ∀ q e, (s.cells q).isExc = some e → ∃ v, s.answer q = some (e, v)
  compl_le : ∀ q, s.completions q ≤ 1
  ready_compl : ∀ q, (s.cells q).ready = true →
      s.completions q = 1 ∧ (s.cells q).obj.isSome = true ∧ (s.cells q).isExc.isSome = true

/-- the inductive strengthening of `InvS` -/
structure InvS' (s : St) : Prop where
  glob : GlobOK s
  thr : ∀ t, ThrOK s t (s.loc t)
  seq_inj : ∀ t u, (s.loc t).hasSeq = true → (s.loc u).hasSeq = true → (s.loc t).seq = (s.loc u).seq → t = u

/-- what has to be added to `InvS` to make it inductive -/
structure InvSX (s : St) : Prop where
  /-- a background serving thread is never at a client-only program counter -/
  bg_pc : ∀ t, (s.loc t).bg = true → (s.loc t).pc.client = false
  /-- a polling thread (`poll_all`) counts as a background thread and is never in `_bg_server`'s loop -/
  nowait_ok : ∀ t, (s.loc t).nowait = true → (s.loc t).bg = true ∧ (s.loc t).pc.bgLoop = false
  /-- `result_ok` for background threads (their `result`/`seq` are left over from an earlier call) -/
  result_bg : ∀ t e o, (s.loc t).bg = true → (s.loc t).result = some (.value e o) →
      ∃ e' v, s.answer (s.loc t).seq = some (e', v) ∧ e = some e' ∧ o = some v

theorem le_max_mono {a b d w : Nat} (h : a ≤ b) (hw : w ≤ max a d) : w ≤ max b d := by omega

theorem PC.waiting_iff (p : PC) : p.waiting = true ↔ p = .w0 ∨ p = .w9 ∨ p = .w10 := by
  cases p <;> simp [PC.waiting]

theorem InvS'.toInvS {s : St} (h : InvS' s) : InvS s where
  issued_lt := h.glob.issued_lt
  issued_nodup := h.glob.issued_nodup
  seq_issued t := (h.thr t).seq_issued
  seq_inj := h.seq_inj
  fresh := h.glob.fresh
  at_c1 t := (h.thr t).at_c1
  at_c2 t := (h.thr t).at_c2
  out_nodup := h.glob.out_nodup
  out_unanswered := h.glob.out_unanswered
  reg_clean := h.glob.reg_clean
  cb_pc t := (h.thr t).cb_pc
  completing t := (h.thr t).completing
  chan_answer := h.glob.chan_answer
  data_answer t := (h.thr t).data_answer
  obj_answer := h.glob.obj_answer
  exc_answer := h.glob.exc_answer
  compl_le := h.glob.compl_le
  ready_compl := h.glob.ready_compl
  at_w10 t := (h.thr t).at_w10
  result_ok t e o _ := (h.thr t).result_ok e o
  self_dispatch t h1 h2 h3 := (PC.waiting_iff _).1 ((h.thr t).self_dispatch h1 h2 h3)
  dl_ttl t := (h.thr t).dl_ttl
  wdl_le t := (h.thr t).wdl_le

theorem InvS'.toInvSX {s : St} (h : InvS' s) : InvSX s where
  bg_pc t := (h.thr t).bg_pc
  nowait_ok t := (h.thr t).nowait_ok
  result_bg t e o _ := (h.thr t).result_ok e o

theorem InvS'.of_InvS {s : St} (h : InvS s) (hx : InvSX s) : InvS' s where
  glob := {
    issued_lt := h.issued_lt
    issued_nodup := h.issued_nodup
    fresh := h.fresh
    out_nodup := h.out_nodup
    out_unanswered := h.out_unanswered
    reg_clean := h.reg_clean
    chan_answer := h.chan_answer
    obj_answer := h.obj_answer
    exc_answer := h.exc_answer
    compl_le := h.compl_le
    ready_compl := h.ready_compl }
  thr t := {
    bg_pc := hx.bg_pc t
    nowait_ok := hx.nowait_ok t
    seq_issued := h.seq_issued t
    at_c1 := h.at_c1 t
    at_c2 := h.at_c2 t
    cb_pc := fun q => h.cb_pc t q
    completing := h.completing t
    data_answer := h.data_answer t
    at_w10 := h.at_w10 t
    result_ok := fun e o hr => by
      cases hb : (s.loc t).bg with
      | false => exact h.result_ok t e o hb hr
      | true => exact hx.result_bg t e o hb hr
    self_dispatch := fun a b c => (PC.waiting_iff _).2 (h.self_dispatch t a b c)
    dl_ttl := h.dl_ttl t
    wdl_le := h.wdl_le t }
  seq_inj := h.seq_inj

theorem invS'_iff {s : St} : InvS' s ↔ InvS s ∧ InvSX s :=
  ⟨fun h => ⟨h.toInvS, h.toInvSX⟩, fun h => InvS'.of_InvS h.1 h.2⟩

/-! ### facts about one thread -/

theorem ThrOK.bg_false_of_client {s : St} {t : Tid} {l : Loc} (h : ThrOK s t l) (hc : l.pc.client = true) :
    l.bg = false := by
  cases hb : l.bg with
  | false => rfl
  | true => rw [h.bg_pc hb] at hc; cases hc

theorem ThrOK.nowait_false_of_bg {s : St} {t : Tid} {l : Loc} (h : ThrOK s t l) (hb : l.bg = false) :
    l.nowait = false := by
  cases hn : l.nowait with
  | false => rfl
  | true => rw [(h.nowait_ok hn).1] at hb; cases hb

theorem ThrOK.nowait_false_of_bgLoop {s : St} {t : Tid} {l : Loc} (h : ThrOK s t l) (hb : l.pc.bgLoop = true) :
    l.nowait = false := by
  cases hn : l.nowait with
  | false => rfl
  | true => rw [(h.nowait_ok hn).2] at hb; cases hb

theorem hasSeq_iff (l : Loc) : l.hasSeq = true ↔ l.bg = false ∧ l.pc ≠ .idle := by
  simp [Loc.hasSeq]

/-! ### steps that leave the shared state alone -/

/-- `s'` has the same shared state as `s` as far as `InvS` can see (the channel may have lost frames) -/
structure SameGlob (s s' : St) : Prop where
  cells : s'.cells = s.cells
  answer : s'.answer = s.answer
  outstanding : s'.outstanding = s.outstanding
  popper : s'.popper = s.popper
  completions : s'.completions = s.completions
  seqCounter : s'.seqCounter = s.seqCounter
  issued : s'.issued = s.issued
  now : s.now ≤ s'.now
  chan : ∀ f ∈ s'.chan, f ∈ s.chan

theorem SameGlob.freshSeq {s s' : St} (g : SameGlob s s') (q : Seq) : freshSeq s' q ↔ freshSeq s q := by
  simp only [Serve.freshSeq, g.cells, g.answer, g.outstanding, g.popper, g.completions]

theorem SameGlob.thr {s s' : St} (g : SameGlob s s') {u : Tid} {l : Loc} (h : ThrOK s u l) : ThrOK s' u l where
  bg_pc := h.bg_pc
  nowait_ok := h.nowait_ok
  seq_issued := by simpa only [g.issued] using h.seq_issued
  at_c1 := by simpa only [g.freshSeq] using h.at_c1
  at_c2 := by simpa only [g.answer, g.outstanding] using h.at_c2
  cb_pc := h.cb_pc
  completing := by simpa only [g.cells, g.popper, g.completions] using h.completing
  data_answer := by simpa only [g.answer] using h.data_answer
  at_w10 := by simpa only [g.cells] using h.at_w10
  result_ok := by simpa only [g.answer] using h.result_ok
  self_dispatch := by simpa only [g.cells, g.popper] using h.self_dispatch
  dl_ttl := by simpa only [g.cells] using h.dl_ttl
  wdl_le := fun a d hd => by
    obtain ⟨w, hw, hle⟩ := h.wdl_le a d hd
    exact ⟨w, hw, le_max_mono g.now hle⟩

theorem SameGlob.glob {s s' : St} (g : SameGlob s s') (h : GlobOK s) : GlobOK s' where
  issued_lt := by simpa only [g.issued, g.seqCounter] using h.issued_lt
  issued_nodup := by simpa only [g.issued] using h.issued_nodup
  fresh := by simpa only [g.freshSeq, g.seqCounter] using h.fresh
  out_nodup := by simpa only [g.outstanding] using h.out_nodup
  out_unanswered := by simpa only [g.outstanding, g.answer, g.seqCounter] using h.out_unanswered
  reg_clean := by simpa only [g.cells, g.popper, g.completions] using h.reg_clean
  chan_answer := fun f hf => by simpa only [g.answer] using h.chan_answer f (g.chan f hf)
  obj_answer := by simpa only [g.cells, g.answer] using h.obj_answer
  exc_answer := by simpa only [g.cells, g.answer] using h.exc_answer
  compl_le := by simpa only [g.completions] using h.compl_le
  ready_compl := by simpa only [g.cells, g.completions] using h.ready_compl

/-- `seq_inj` survives every step in which no thread acquires a sequence number -/
theorem seq_inj_frame {s s' : St}
    (hf : ∀ u, (s'.loc u).hasSeq = true → (s.loc u).hasSeq = true ∧ (s'.loc u).seq = (s.loc u).seq)
    (h : ∀ t u, (s.loc t).hasSeq = true → (s.loc u).hasSeq = true → (s.loc t).seq = (s.loc u).seq → t = u) :
    ∀ t u, (s'.loc t).hasSeq = true → (s'.loc u).hasSeq = true → (s'.loc t).seq = (s'.loc u).seq → t = u := by
  intro t u ht hu e
  obtain ⟨ht1, ht2⟩ := hf t ht
  obtain ⟨hu1, hu2⟩ := hf u hu
  exact h t u ht1 hu1 (by rw [← ht2, ← hu2, e])

/-- the frame lemma: thread `t` changed its own local state, the shared state is the same -/
theorem InvS'.locOnly {s s' : St} (t : Tid) (h : InvS' s) (g : SameGlob s s')
    (hne : ∀ u, u ≠ t → s'.loc u = s.loc u)
    (ht : ThrOK s t (s'.loc t))
    (hseq : (s'.loc t).hasSeq = true → (s.loc t).hasSeq = true ∧ (s'.loc t).seq = (s.loc t).seq) : InvS' s' where
  glob := g.glob h.glob
  thr u := by
    by_cases hu : u = t
    · subst hu; exact g.thr ht
    · rw [hne u hu]; exact g.thr (h.thr u)
  seq_inj := by
    apply seq_inj_frame _ h.seq_inj
    intro u
    by_cases hu : u = t
    · subst hu; exact hseq
    · rw [hne u hu]; exact fun x => ⟨x, rfl⟩

/-- how the program counter may change without touching the per-thread invariant
(except `self_dispatch` and `dl_ttl`) -/
def PC.FrameOK0 (p p' : PC) : Prop :=
  (p'.client = true → p.client = true) ∧ (p = .idle → p' = .idle) ∧ (p' = .c1 → p = .c1) ∧ (p' = .c2 → p = .c2) ∧
  (p' = .w10 → p = .w10) ∧ (p'.completing = p.completing) ∧
  (p' = .d4 ∨ p' = .d5 → p = .d4 ∨ p = .d5) ∧ (p' = .d5 → p = .d5) ∧ (p' = .zz → p = .zz) ∧
  (p'.bgLoop = true → p.bgLoop = true)

/-- how the program counter may change without touching the per-thread invariant -/
def PC.FrameOK (p p' : PC) : Prop :=
  PC.FrameOK0 p p' ∧ (p.waiting = true → p'.waiting = true) ∧ (p'.inServe = true → p.inServe = true)

instance (p p' : PC) : Decidable (PC.FrameOK0 p p') := by unfold PC.FrameOK0; infer_instance
instance (p p' : PC) : Decidable (PC.FrameOK p p') := by unfold PC.FrameOK; infer_instance

/-- a step that changes only the program counter -/
theorem ThrOK.setPc' {s : St} {t : Tid} {l : Loc} {p : PC} (p' : PC) (h : ThrOK s t l) (hp : l.pc = p)
    (ok : PC.FrameOK0 p p')
    (kw : l.hasSeq = true → (s.cells l.seq).ready = true → s.popper l.seq = some t → p'.waiting = true)
    (kd : l.hasSeq = true → p'.inServe = true → l.dl = (s.cells l.seq).ttl) :
    ThrOK s t { l with pc := p' } := by
  subst hp
  obtain ⟨k1, k2, k3, k4, k5, k6, k7, k8, k11, k12⟩ := ok
  have hs : ({ l with pc := p' } : Loc).hasSeq = true → l.hasSeq = true := by
    simp only [hasSeq_iff]
    exact fun ⟨a, b⟩ => ⟨a, fun c => b (k2 c)⟩
  exact {
    bg_pc := fun hb => by
      have := h.bg_pc hb
      cases hc : p'.client with
      | false => rfl
      | true => rw [k1 hc] at this; cases this
    nowait_ok := fun a => ⟨(h.nowait_ok a).1, by
      have := (h.nowait_ok a).2
      cases hc : p'.bgLoop with
      | false => rfl
      | true => rw [k12 hc] at this; cases this⟩
    seq_issued := fun a => h.seq_issued (hs a)
    at_c1 := fun a b => h.at_c1 (hs a) (k3 b)
    at_c2 := fun a b => h.at_c2 (hs a) (k4 b)
    cb_pc := fun q a => by have := h.cb_pc q a; simpa only [k6] using this
    completing := fun a => by
      have a' : l.pc.completing = true := by rw [← k6]; exact a
      obtain ⟨q, f, c1, c2, c3, c4, c5, c6, c7, c8, c9⟩ := h.completing a'
      exact ⟨q, f, c1, c2, c3, c4, c5, c6, c7, fun x => c8 (k7 x), fun x => c9 (k8 x)⟩
    data_answer := h.data_answer
    at_w10 := fun a b => h.at_w10 (hs a) (k5 b)
    result_ok := h.result_ok
    self_dispatch := fun a b c => kw (hs a) b c
    dl_ttl := fun a b => kd (hs a) b
    wdl_le := fun a => h.wdl_le (k11 a) }

/-- a step that changes only the program counter, within the same class -/
theorem ThrOK.setPc {s : St} {t : Tid} {l : Loc} {p : PC} (p' : PC) (h : ThrOK s t l) (hp : l.pc = p)
    (ok : PC.FrameOK p p') : ThrOK s t { l with pc := p' } :=
  h.setPc' p' hp ok.1 (fun a b c => ok.2.1 (hp ▸ h.self_dispatch a b c))
    (fun a b => h.dl_ttl a (hp ▸ ok.2.2 b))

theorem setPc_hasSeq {l : Loc} {p p' : PC} (hp : l.pc = p) (ok : PC.FrameOK0 p p') :
    ({ l with pc := p' } : Loc).hasSeq = true → l.hasSeq = true ∧ ({ l with pc := p' } : Loc).seq = l.seq := by
  intro hh
  obtain ⟨a, b⟩ := (hasSeq_iff _).1 hh
  exact ⟨(hasSeq_iff _).2 ⟨a, fun c => b (ok.2.1 (hp ▸ c))⟩, rfl⟩

theorem setPc_hasSeq' {l : Loc} (p' : PC) (hp : l.pc ≠ .idle) :
    ({ l with pc := p' } : Loc).hasSeq = true → l.hasSeq = true ∧ ({ l with pc := p' } : Loc).seq = l.seq := by
  intro hh
  obtain ⟨a, _⟩ := (hasSeq_iff _).1 hh
  exact ⟨(hasSeq_iff _).2 ⟨a, hp⟩, rfl⟩

/-- `serve()` returns -/
theorem thrOK_leaveServe {s : St} {t : Tid} {l : Loc} (h0 : l.nowait = true → l.bg = true)
    (h1 : l.bg = false → l.seq ∈ s.issued)
    (h2 : ∀ e o, l.result = some (.value e o) → ∃ e' v, s.answer l.seq = some (e', v) ∧ e = some e' ∧ o = some v) :
    ThrOK s t (leaveServe l) := by
  cases hn : l.nowait <;> cases hb : l.bg
  case true.false => have := h0 hn; rw [hb] at this; cases this
  all_goals exact {
    bg_pc := by simp [leaveServe, afterServe, hn, hb, PC.client]
    nowait_ok := by simp [leaveServe, afterServe, hn, hb, PC.bgLoop]
    seq_issued := fun a => h1 ((hasSeq_iff _).1 a).1
    at_c1 := by simp [leaveServe, afterServe, hn, hb]
    at_c2 := by simp [leaveServe, afterServe, hn, hb]
    cb_pc := by simp [leaveServe]
    completing := by simp [leaveServe, afterServe, hn, hb, PC.completing]
    data_answer := by simp [leaveServe]
    at_w10 := by simp [leaveServe, afterServe, hn, hb]
    result_ok := h2
    self_dispatch := by simp [leaveServe, afterServe, hn, hb, PC.waiting, Loc.hasSeq]
    dl_ttl := by simp [leaveServe, afterServe, hn, hb, PC.inServe, Loc.hasSeq]
    wdl_le := by simp [leaveServe, afterServe, hn, hb] }

theorem ThrOK.leaveServe {s : St} {t : Tid} {l : Loc} (h : ThrOK s t l) (hp : l.pc ≠ .idle) :
    ThrOK s t (leaveServe l) :=
  thrOK_leaveServe (fun hn => (h.nowait_ok hn).1) (fun hb => h.seq_issued ((hasSeq_iff l).2 ⟨hb, hp⟩)) h.result_ok

theorem leaveServe_hasSeq {l : Loc} (hp : l.pc ≠ .idle) :
    (leaveServe l).hasSeq = true → l.hasSeq = true ∧ (leaveServe l).seq = l.seq := by
  simp only [hasSeq_iff]
  exact fun ⟨a, _⟩ => ⟨⟨a, hp⟩, rfl⟩

/-! ### steps that change the shared state -/

/-- what another thread's part of the invariant needs from a change of the shared state -/
theorem ThrOK.transfer {s s' : St} {u : Tid} {l : Loc} (h : ThrOK s u l)
    (h_iss : ∀ q ∈ s.issued, q ∈ s'.issued)
    (h_c1 : l.hasSeq = true → l.pc = .c1 → freshSeq s l.seq → freshSeq s' l.seq)
    (h_c2 : l.hasSeq = true → l.pc = .c2 → s.answer l.seq = none → l.seq ∉ s.outstanding →
      s'.answer l.seq = none ∧ l.seq ∉ s'.outstanding)
    (h_pop : ∀ q, s.popper q = some u → s'.popper q = some u ∧ s'.completions q = s.completions q ∧
      (s'.cells q).reg = (s.cells q).reg ∧ (s'.cells q).ready = (s.cells q).ready ∧
      (s'.cells q).isExc = (s.cells q).isExc ∧ (s'.cells q).obj = (s.cells q).obj)
    (h_ans : ∀ r x, s.answer r = some x → s'.answer r = some x)
    (h_rdy : (s.cells l.seq).ready = true → (s'.cells l.seq).ready = true)
    (h_self : l.hasSeq = true → (s'.cells l.seq).ready = true → s'.popper l.seq = some u →
      (s.cells l.seq).ready = true ∧ s.popper l.seq = some u)
    (h_ttl : l.hasSeq = true → l.pc.inServe = true → (s'.cells l.seq).ttl = (s.cells l.seq).ttl)
    (h_now : s.now ≤ s'.now) : ThrOK s' u l where
  bg_pc := h.bg_pc
  nowait_ok := h.nowait_ok
  seq_issued := fun a => h_iss _ (h.seq_issued a)
  at_c1 := fun a b => h_c1 a b (h.at_c1 a b)
  at_c2 := fun a b => h_c2 a b (h.at_c2 a b).1 (h.at_c2 a b).2
  cb_pc := h.cb_pc
  completing := fun a => by
    obtain ⟨q, f, c1, c2, c3, c4, c5, c6, c7, c8, c9⟩ := h.completing a
    obtain ⟨p1, p2, p3, p4, p5, p6⟩ := h_pop q c4
    exact ⟨q, f, c1, c2, c3, p1, by rw [p3]; exact c5, by rw [p2]; exact c6, by rw [p4]; exact c7,
      fun x => by rw [p5]; exact c8 x, fun x => by rw [p6]; exact c9 x⟩
  data_answer := fun f a => h_ans _ _ (h.data_answer f a)
  at_w10 := fun a b => h_rdy (h.at_w10 a b)
  result_ok := fun e o a => by
    obtain ⟨e', v, r1, r2, r3⟩ := h.result_ok e o a
    exact ⟨e', v, h_ans _ _ r1, r2, r3⟩
  self_dispatch := fun a b c => by
    obtain ⟨x, y⟩ := h_self a b c
    exact h.self_dispatch a x y
  dl_ttl := fun a b => by rw [h_ttl a b]; exact h.dl_ttl a b
  wdl_le := fun a d hd => by
    obtain ⟨w, hw, hle⟩ := h.wdl_le a d hd
    exact ⟨w, hw, le_max_mono h_now hle⟩

/-- the shared state changed only at seq `q` (its cell, its popper, its completion count) -/
theorem GlobOK.updAt {s s' : St} (h : GlobOK s) (q : Seq)
    (e_iss : s'.issued = s.issued) (e_cnt : s'.seqCounter = s.seqCounter)
    (e_out : s'.outstanding = s.outstanding) (e_ans : s'.answer = s.answer) (e_chan : s'.chan = s.chan)
    (e_cells : ∀ r, r ≠ q → s'.cells r = s.cells r) (e_pop : ∀ r, r ≠ q → s'.popper r = s.popper r)
    (e_compl : ∀ r, r ≠ q → s'.completions r = s.completions r)
    (hq : q < s.seqCounter)
    (hreg : (s'.cells q).reg = true → s'.popper q = none ∧ s'.completions q = 0 ∧ (s'.cells q).ready = false)
    (hobj : ∀ v, (s'.cells q).obj = some v → ∃ e, s.answer q = some (e, v))
    (hexc : ∀ e, (s'.cells q).isExc = some e → ∃ v, s.answer q = some (e, v))
    (hcompl : s'.completions q ≤ 1)
    (hrdy : (s'.cells q).ready = true →
      s'.completions q = 1 ∧ (s'.cells q).obj.isSome = true ∧ (s'.cells q).isExc.isSome = true) :
    GlobOK s' where
  issued_lt := by simpa only [e_iss, e_cnt] using h.issued_lt
  issued_nodup := by simpa only [e_iss] using h.issued_nodup
  fresh := fun r hr => by
    rw [e_cnt] at hr
    have hne : r ≠ q := Nat.ne_of_gt (Nat.lt_of_lt_of_le hq hr)
    have := h.fresh r hr
    simpa only [freshSeq, e_cells r hne, e_pop r hne, e_compl r hne, e_ans, e_out] using this
  out_nodup := by simpa only [e_out] using h.out_nodup
  out_unanswered := by simpa only [e_out, e_ans, e_cnt] using h.out_unanswered
  reg_clean := fun r => by
    by_cases hr : r = q
    · subst hr; exact hreg
    · simpa only [e_cells r hr, e_pop r hr, e_compl r hr] using h.reg_clean r
  chan_answer := by simpa only [e_chan, e_ans] using h.chan_answer
  obj_answer := fun r => by
    by_cases hr : r = q
    · subst hr; simpa only [e_ans] using hobj
    · simpa only [e_cells r hr, e_ans] using h.obj_answer r
  exc_answer := fun r => by
    by_cases hr : r = q
    · subst hr; simpa only [e_ans] using hexc
    · simpa only [e_cells r hr, e_ans] using h.exc_answer r
  compl_le := fun r => by
    by_cases hr : r = q
    · subst hr; exact hcompl
    · simpa only [e_compl r hr] using h.compl_le r
  ready_compl := fun r => by
    by_cases hr : r = q
    · subst hr; exact hrdy
    · simpa only [e_cells r hr, e_compl r hr] using h.ready_compl r

theorem setCell_reg_of (s : St) (q : Seq) (c : Cell) (r : Seq) (hc : c.reg = (s.cells q).reg) :
    ((setCell s q c).cells r).reg = (s.cells r).reg := by
  rw [setCell_cells]; split
  · rename_i e; subst e; exact hc
  · rfl

theorem setCell_ready_of (s : St) (q : Seq) (c : Cell) (r : Seq) (hc : c.ready = (s.cells q).ready) :
    ((setCell s q c).cells r).ready = (s.cells r).ready := by
  rw [setCell_cells]; split
  · rename_i e; subst e; exact hc
  · rfl

theorem setCell_isExc_of (s : St) (q : Seq) (c : Cell) (r : Seq) (hc : c.isExc = (s.cells q).isExc) :
    ((setCell s q c).cells r).isExc = (s.cells r).isExc := by
  rw [setCell_cells]; split
  · rename_i e; subst e; exact hc
  · rfl

theorem setCell_obj_of (s : St) (q : Seq) (c : Cell) (r : Seq) (hc : c.obj = (s.cells q).obj) :
    ((setCell s q c).cells r).obj = (s.cells r).obj := by
  rw [setCell_cells]; split
  · rename_i e; subst e; exact hc
  · rfl

theorem setCell_ttl_of (s : St) (q : Seq) (c : Cell) (r : Seq) (hc : c.ttl = (s.cells q).ttl) :
    ((setCell s q c).cells r).ttl = (s.cells r).ttl := by
  rw [setCell_cells]; split
  · rename_i e; subst e; exact hc
  · rfl

theorem freshSeq_of_eq {s s' : St} {r : Seq} (h : freshSeq s r) (e1 : s'.cells r = s.cells r)
    (e2 : s'.answer r = s.answer r) (e3 : r ∈ s'.outstanding → r ∈ s.outstanding) (e4 : s'.popper r = s.popper r)
    (e5 : s'.completions r = s.completions r) : freshSeq s' r := by
  obtain ⟨a, b, c, d, e⟩ := h
  exact ⟨e1 ▸ a, e2 ▸ b, fun x => c (e3 x), e4 ▸ d, e5 ▸ e⟩

/-- what a thread in `AsyncResult.__call__` knows about the cell it popped -/
theorem ThrOK.compl_facts {s : St} {t : Tid} {l : Loc} (h : ThrOK s t l) (hc : l.pc.completing = true)
    {q : Seq} (hcb : l.cb = some q) :
    ∃ f, l.data = some f ∧ f.seq = q ∧ s.popper q = some t ∧ (s.cells q).reg = false ∧ s.completions q = 0 ∧
      (s.cells q).ready = false ∧ ((l.pc = .d4 ∨ l.pc = .d5) → (s.cells q).isExc = some f.exc) ∧
      (l.pc = .d5 → (s.cells q).obj = some f.val) := by
  obtain ⟨q0, f, c1, c2, c3, c4, c5, c6, c7, c8, c9⟩ := h.completing hc
  rw [hcb] at c1
  cases c1
  exact ⟨f, c2, c3, c4, c5, c6, c7, c8, c9⟩

/-- thread `t` is completing the cell of `q` (it popped it) and changes that cell; another thread `u` does not care -/
theorem ThrOK.other_completing {s s' : St} {t u : Tid} {l : Loc} {q : Seq} (h : ThrOK s u l) (hu : u ≠ t)
    (hpop : s.popper q = some t)
    (e_iss : s'.issued = s.issued) (e_ans : s'.answer = s.answer) (e_out : s'.outstanding = s.outstanding)
    (e_pop : s'.popper = s.popper) (e_now : s'.now = s.now)
    (e_cells : ∀ r, r ≠ q → s'.cells r = s.cells r) (e_compl : ∀ r, r ≠ q → s'.completions r = s.completions r)
    (e_rdy : (s.cells q).ready = true → (s'.cells q).ready = true)
    (e_ttl : (s'.cells q).ttl = (s.cells q).ttl) : ThrOK s' u l := by
  have hne : ∀ r, s.popper r = some u → r ≠ q := fun r hr e => by
    subst e; rw [hpop] at hr; cases hr; exact hu rfl
  refine h.transfer (fun _ x => e_iss ▸ x) ?_ ?_ ?_ (fun _ _ x => e_ans ▸ x) ?_ ?_ ?_ (e_now ▸ Nat.le_refl _)
  · intro _ _ fr
    have : l.seq ≠ q := fun e => by
      have := fr.2.2.2.1
      rw [e, hpop] at this; cases this
    exact freshSeq_of_eq fr (e_cells _ this) (by rw [e_ans]) (fun x => e_out ▸ x) (by rw [e_pop]) (e_compl _ this)
  · intro _ _ a b
    rw [e_ans, e_out]; exact ⟨a, b⟩
  · intro r hr
    have := hne r hr
    rw [e_pop, e_cells r this, e_compl r this]
    exact ⟨hr, rfl, rfl, rfl, rfl, rfl⟩
  · intro x
    by_cases e : l.seq = q
    · rw [e] at x ⊢; exact e_rdy x
    · rw [e_cells _ e]; exact x
  · intro _ a b
    rw [e_pop] at b
    rw [e_cells _ (hne _ b)] at a
    exact ⟨a, b⟩
  · intro _ _
    by_cases e : l.seq = q
    · rw [e]; exact e_ttl
    · rw [e_cells _ e]

/-- `raising` is not mentioned by the invariant -/
theorem ThrOK.setRaising {s : St} {t : Tid} {l : Loc} (b : Bool) (h : ThrOK s t l) :
    ThrOK s t { l with raising := b } :=
  ⟨h.bg_pc, h.nowait_ok, h.seq_issued, h.at_c1, h.at_c2, h.cb_pc, h.completing, h.data_answer, h.at_w10, h.result_ok,
    h.self_dispatch, h.dl_ttl, h.wdl_le⟩

/-- the thread becomes an idle client: nothing is claimed about it except its result -/
theorem thrOK_idle {s : St} {t : Tid} {l l' : Loc} (h : ThrOK s t l) (hpc : l'.pc = .idle) (hbg : l'.bg = false)
    (hnw : l'.nowait = false)
    (hcb : l'.cb = none) (hdata : l'.data = l.data) (hseq : l'.seq = l.seq)
    (hr : ∀ e o, l'.result = some (.value e o) → ∃ e' v, s.answer l.seq = some (e', v) ∧ e = some e' ∧ o = some v) :
    ThrOK s t l' where
  bg_pc := fun a => by rw [hbg] at a; cases a
  nowait_ok := fun a => by rw [hnw] at a; cases a
  seq_issued := fun a => absurd hpc ((hasSeq_iff _).1 a).2
  at_c1 := fun _ b => by rw [hpc] at b; cases b
  at_c2 := fun _ b => by rw [hpc] at b; cases b
  cb_pc := fun q a => by rw [hcb] at a; cases a
  completing := fun a => by rw [hpc] at a; cases a
  data_answer := fun f a => h.data_answer f (hdata ▸ a)
  at_w10 := fun _ b => by rw [hpc] at b; cases b
  result_ok := fun e o a => by rw [hseq]; exact hr e o a
  self_dispatch := fun a => absurd hpc ((hasSeq_iff _).1 a).2
  dl_ttl := fun a => absurd hpc ((hasSeq_iff _).1 a).2
  wdl_le := fun b => by rw [hpc] at b; cases b

/-! ### `close()`: callbacks are dropped (`reg := false` on some or all cells), the counter may grow -/

theorem GlobOK.clearReg {s s' : St} (h : GlobOK s)
    (e_iss : s'.issued = s.issued) (e_out : s'.outstanding = s.outstanding) (e_ans : s'.answer = s.answer)
    (e_chan : s'.chan = s.chan) (e_pop : s'.popper = s.popper) (e_compl : s'.completions = s.completions)
    (e_cnt : s.seqCounter ≤ s'.seqCounter)
    (e_cells : ∀ r, s'.cells r = s.cells r ∨ s'.cells r = { s.cells r with reg := false }) : GlobOK s' := by
  have hobj : ∀ r, (s'.cells r).obj = (s.cells r).obj := fun r => by rcases e_cells r with e | e <;> rw [e]
  have hexc : ∀ r, (s'.cells r).isExc = (s.cells r).isExc := fun r => by rcases e_cells r with e | e <;> rw [e]
  have hrdy : ∀ r, (s'.cells r).ready = (s.cells r).ready := fun r => by rcases e_cells r with e | e <;> rw [e]
  have hreg : ∀ r, (s'.cells r).reg = true → (s.cells r).reg = true := fun r x => by
    rcases e_cells r with e | e <;> rw [e] at x
    · exact x
    · cases x
  exact {
    issued_lt := fun q hq => Nat.lt_of_lt_of_le (h.issued_lt q (e_iss ▸ hq)) e_cnt
    issued_nodup := e_iss ▸ h.issued_nodup
    fresh := fun r hr => by
      obtain ⟨a, b, c, d, e⟩ := h.fresh r (Nat.le_trans e_cnt hr)
      refine ⟨?_, by rw [e_ans]; exact b, by rw [e_out]; exact c, by rw [e_pop]; exact d, by rw [e_compl]; exact e⟩
      rcases e_cells r with x | x
      · exact x.trans a
      · rw [x, a]
    out_nodup := e_out ▸ h.out_nodup
    out_unanswered := fun q hq => by
      obtain ⟨a, b⟩ := h.out_unanswered q (e_out ▸ hq)
      exact ⟨by rw [e_ans]; exact a, Nat.lt_of_lt_of_le b e_cnt⟩
    reg_clean := fun r x => by
      rw [e_pop, e_compl, hrdy]; exact h.reg_clean r (hreg r x)
    chan_answer := fun f hf => by rw [e_ans]; exact h.chan_answer f (e_chan ▸ hf)
    obj_answer := fun r v x => by rw [e_ans]; exact h.obj_answer r v ((hobj r).symm.trans x)
    exc_answer := fun r e x => by rw [e_ans]; exact h.exc_answer r e ((hexc r).symm.trans x)
    compl_le := fun r => by rw [e_compl]; exact h.compl_le r
    ready_compl := fun r x => by
      rw [e_compl, hobj, hexc]; exact h.ready_compl r ((hrdy r).symm.trans x) }

theorem ThrOK.clearReg {s s' : St} {u : Tid} {l : Loc} (h : ThrOK s u l) (g : GlobOK s)
    (e_iss : s'.issued = s.issued) (e_out : s'.outstanding = s.outstanding) (e_ans : s'.answer = s.answer)
    (e_pop : s'.popper = s.popper) (e_compl : s'.completions = s.completions) (e_now : s'.now = s.now)
    (e_cells : ∀ r, s'.cells r = s.cells r ∨ s'.cells r = { s.cells r with reg := false }) : ThrOK s' u l := by
  have hobj : ∀ r, (s'.cells r).obj = (s.cells r).obj := fun r => by rcases e_cells r with e | e <;> rw [e]
  have hexc : ∀ r, (s'.cells r).isExc = (s.cells r).isExc := fun r => by rcases e_cells r with e | e <;> rw [e]
  have hrdy : ∀ r, (s'.cells r).ready = (s.cells r).ready := fun r => by rcases e_cells r with e | e <;> rw [e]
  have httl : ∀ r, (s'.cells r).ttl = (s.cells r).ttl := fun r => by rcases e_cells r with e | e <;> rw [e]
  refine h.transfer (fun _ x => e_iss ▸ x) ?_ ?_ ?_ (fun _ _ x => e_ans ▸ x) (fun x => (hrdy _).trans x) ?_
    (fun _ _ => httl _) (e_now ▸ Nat.le_refl _)
  · intro _ _ ⟨a, b, c, d, e⟩
    refine ⟨?_, by rw [e_ans]; exact b, by rw [e_out]; exact c, by rw [e_pop]; exact d, by rw [e_compl]; exact e⟩
    rcases e_cells l.seq with x | x
    · exact x.trans a
    · rw [x, a]
  · intro _ _ a b
    rw [e_ans, e_out]; exact ⟨a, b⟩
  · intro q hq
    refine ⟨by rw [e_pop]; exact hq, by rw [e_compl], ?_, hrdy q, hexc q, hobj q⟩
    rcases e_cells q with x | x
    · rw [x]
    · rw [x]
      cases hr : (s.cells q).reg with
      | false => rfl
      | true => rw [(g.reg_clean q hr).1] at hq; cases hq
  · intro _ a b
    rw [e_pop] at b
    exact ⟨(hrdy _).symm.trans a, b⟩

/-- assemble `InvS'` after a step of thread `t` in which no thread acquires a sequence number -/
theorem InvS'.step' {s s' : St} (t : Tid) (l' : Loc) (h : InvS' s) (hl : s'.loc = (setLoc s t l').loc)
    (hseq : l'.hasSeq = true → (s.loc t).hasSeq = true ∧ l'.seq = (s.loc t).seq)
    (glob : GlobOK s') (ht : ThrOK s' t l') (hu : ∀ u, u ≠ t → ThrOK s' u (s.loc u)) : InvS' s' where
  glob := glob
  thr u := by
    by_cases e : u = t
    · subst e; rw [hl, setLoc_loc_self]; exact ht
    · rw [hl, setLoc_loc_ne _ _ e]; exact hu u e
  seq_inj := by
    apply seq_inj_frame _ h.seq_inj
    intro u
    by_cases e : u = t
    · subst e; rw [hl, setLoc_loc_self]; exact hseq
    · rw [hl, setLoc_loc_ne _ _ e]; exact fun x => ⟨x, rfl⟩

end Rpyc.Conc.Serve
