import RpycModel.Conc.Serve.Basic
/-
Auxiliary definitions and frame lemmas for `Seqs.lean` (the proof that `InvS` holds in every
reachable state).

`InvS` as stated in `Basic.lean` is not inductive by itself: `result_ok` only speaks about threads
with `bg = false`, so after `.stop t` (which flips `bg` back to `false` at `b0`) nothing is known
about `t`'s old `result`; and `at_c1`/`at_c2`/`at_w10` need `hasSeq`, i.e. `bg = false`, for a thread
at `c1`/`c2`/`w10`.  The stronger invariant `InvS'` proved here adds
  * `bg_pc`     : a background thread is never at a client-only program counter
                  (`idle`, `c1`, `c2`, `c3`, `w0`, `w9`, `w10`);
  * `result_ok` : without the premise `bg = false`, and with `(cells seq).ready = true` (so that `close()`, which
                  only overwrites the answers of still registered, hence not ready, requests leaves it alone);
  * `nowait_ok` : a polling thread has `bg = true` and is never in `_bg_server`'s loop;
  * `nodata`    : at `x0` and while `raising`, the thread has no frame in hand;
  * `eofed_ready` : a cell completed by `close()` is ready.
It is organised as a global part `GlobOK`, a per-thread part `ThrOK` and `seq_inj`.
-/
namespace Rpyc.Conc.Serve

/-- program counters only a client thread (never a background serving thread) can be at -/
def PC.client : PC → Bool
  | .idle | .c1 | .c2 | .c3 | .w0 | .w9 | .w10 => true
  | _ => false

/-- waiting for the result outside `serve` -/
def PC.waiting : PC → Bool
  | .w0 | .w9 | .w10 => true
  | _ => false

/-- the loop of `BgServingThread._bg_server` (a polling thread is never there) -/
def PC.bgLoop : PC → Bool
  | .b0 | .bS => true
  | _ => false

/-- the part of the invariant that speaks about one thread -/
structure ThrOK (s : St) (t : Tid) (l : Loc) : Prop where
  bg_pc : l.bg = true → l.pc.client = false
  nowait_ok : l.nowait = true → l.bg = true ∧ l.pc.bgLoop = false
  seq_issued : l.hasSeq = true → l.seq ∈ s.issued
  at_c1 : l.hasSeq = true → l.pc = .c1 → freshSeq s l.seq
  at_c2 : l.hasSeq = true → l.pc = .c2 → s.closed = false → s.answer l.seq = none ∧ l.seq ∉ s.outstanding
  raising_pc : l.raising = true → l.pc.holding = true
  nodata : l.pc = .x0 ∨ l.raising = true → l.data = none
  cb_pc : ∀ q, l.cb = some q → l.pc.completing = true
  completing : l.pc.completing = true → ∃ q f, l.cb = some q ∧ l.data = some f ∧
      f.seq = q ∧ s.popper q = some t ∧ (s.cells q).reg = false ∧ s.completions q = 0 ∧ (s.cells q).ready = false ∧
      ((l.pc = .d4 ∨ l.pc = .d5) → (s.cells q).isExc = some f.exc) ∧
      (l.pc = .d5 → (s.cells q).obj = some f.val)
  data_answer : ∀ f, l.data = some f → s.answer f.seq = some (f.exc, f.val) ∨ (s.cells f.seq).eofed = true
  at_w10 : l.hasSeq = true → l.pc = .w10 → (s.cells l.seq).ready = true
  result_ok : ∀ e o, l.result = some (.value e o) →
      ∃ e' v, s.answer l.seq = some (e', v) ∧ e = some e' ∧ o = some v ∧ (s.cells l.seq).ready = true
  self_dispatch : l.hasSeq = true → (s.cells l.seq).ready = true →
      s.popper l.seq = some t → l.pc.waiting = true ∨ l.raising = true
  dl_ttl : l.hasSeq = true → l.pc.inServe = true → l.dl = (s.cells l.seq).ttl
  wdl_le : l.pc = .zz → ∀ d, l.dl = some d → ∃ w, l.wdl = some w ∧ w ≤ max s.now d

/-- the part of the invariant that speaks about no thread -/
structure GlobOK (s : St) : Prop where
  issued_lt : ∀ q ∈ s.issued, q < s.seqCounter
  issued_nodup : s.issued.Nodup
  fresh : ∀ q, s.seqCounter ≤ q → freshSeq s q
  out_nodup : s.outstanding.Nodup
  out_unanswered : ∀ q ∈ s.outstanding, s.answer q = none ∧ q < s.seqCounter
  reg_clean : ∀ q, (s.cells q).reg = true → s.popper q = none ∧ s.completions q = 0 ∧ (s.cells q).ready = false
  chan_answer : ∀ f ∈ s.chan, s.answer f.seq = some (f.exc, f.val) ∨ (s.cells f.seq).eofed = true
  eofed_ready : ∀ q, (s.cells q).eofed = true → (s.cells q).ready = true
  obj_answer : ∀ q v, (s.cells q).obj = some v → ∃ e, s.answer q = some (e, v)
  exc_answer : ∀ q e, (s.cells q).isExc = some e → ∃ v, s.answer q = some (e, v)
  compl_le : ∀ q, s.completions q ≤ 1
  ready_compl : ∀ q, (s.cells q).ready = true →
      s.completions q = 1 ∧ (s.cells q).obj.isSome = true ∧ (s.cells q).isExc.isSome = true

theorem GlobOK.unreg_of_ready {s : St} (h : GlobOK s) {q : Seq} (hr : (s.cells q).ready = true) :
    (s.cells q).reg = false := by
  cases hg : (s.cells q).reg with
  | false => rfl
  | true => rw [(h.reg_clean q hg).2.2] at hr; cases hr

theorem GlobOK.eofed_unreg {s : St} (h : GlobOK s) (q : Seq) (he : (s.cells q).eofed = true) :
    (s.cells q).reg = false := h.unreg_of_ready (h.eofed_ready q he)

theorem GlobOK.not_eofed {s : St} (h : GlobOK s) {q : Seq} (hr : (s.cells q).ready = false) :
    (s.cells q).eofed = false := by
  cases he : (s.cells q).eofed with
  | false => rfl
  | true => rw [h.eofed_ready q he] at hr; cases hr

/-- the inductive strengthening of `InvS` -/
structure InvS' (s : St) : Prop where
  glob : GlobOK s
  thr : ∀ t, ThrOK s t (s.loc t)
  seq_inj : ∀ t u, (s.loc t).hasSeq = true → (s.loc u).hasSeq = true → (s.loc t).seq = (s.loc u).seq → t = u

/-- what has to be added to `InvS` to make it inductive -/
structure InvSX (s : St) : Prop where
  /-- a background serving thread is never at a client-only program counter -/
  bg_pc : ∀ t, (s.loc t).bg = true → (s.loc t).pc.client = false
  /-- a polling thread (`poll_all`) counts as a background thread and is never in `_bg_server`'s loop -/
  nowait_ok : ∀ t, (s.loc t).nowait = true → (s.loc t).bg = true ∧ (s.loc t).pc.bgLoop = false
  /-- `result_ok` for background threads (their `result`/`seq` are left over from an earlier call) -/
  result_bg : ∀ t e o, (s.loc t).bg = true → (s.loc t).result = some (.value e o) →
      ∃ e' v, s.answer (s.loc t).seq = some (e', v) ∧ e = some e' ∧ o = some v
  /-- the cell behind a handed-out result is ready (hence no longer registered: `close()` leaves it alone) -/
  result_ready : ∀ t e o, (s.loc t).result = some (.value e o) → (s.cells (s.loc t).seq).ready = true
  /-- at `x0` and while the `EOFError` propagates the thread has no frame in hand -/
  nodata : ∀ t, (s.loc t).pc = .x0 ∨ (s.loc t).raising = true → (s.loc t).data = none
  /-- a cell completed by `close()` is ready -/
  eofed_ready : ∀ q, (s.cells q).eofed = true → (s.cells q).ready = true

theorem le_max_mono {a b d w : Nat} (h : a ≤ b) (hw : w ≤ max a d) : w ≤ max b d := by omega

theorem PC.waiting_iff (p : PC) : p.waiting = true ↔ p = .w0 ∨ p = .w9 ∨ p = .w10 := by
  cases p <;> simp [PC.waiting]

theorem InvS'.toInvS {s : St} (h : InvS' s) : InvS s where
  issued_lt := h.glob.issued_lt
  issued_nodup := h.glob.issued_nodup
  seq_issued t := (h.thr t).seq_issued
  seq_inj := h.seq_inj
  fresh := h.glob.fresh
  at_c1 t := (h.thr t).at_c1
  at_c2 t := (h.thr t).at_c2
  out_nodup := h.glob.out_nodup
  out_unanswered := h.glob.out_unanswered
  reg_clean := h.glob.reg_clean
  cb_pc t := (h.thr t).cb_pc
  completing t := (h.thr t).completing
  chan_answer := h.glob.chan_answer
  data_answer t := (h.thr t).data_answer
  eofed_unreg := h.glob.eofed_unreg
  raising_pc t := (h.thr t).raising_pc
  obj_answer := h.glob.obj_answer
  exc_answer := h.glob.exc_answer
  compl_le := h.glob.compl_le
  ready_compl := h.glob.ready_compl
  at_w10 t := (h.thr t).at_w10
  result_ok t e o _ hr := by
    obtain ⟨e', v, a, b, c, _⟩ := (h.thr t).result_ok e o hr
    exact ⟨e', v, a, b, c⟩
  self_dispatch t h1 h2 h3 := by
    rcases (h.thr t).self_dispatch h1 h2 h3 with x | x
    · rcases (PC.waiting_iff _).1 x with y | y | y
      · exact .inl y
      · exact .inr (.inl y)
      · exact .inr (.inr (.inl y))
    · exact .inr (.inr (.inr x))
  dl_ttl t := (h.thr t).dl_ttl
  wdl_le t := (h.thr t).wdl_le

theorem InvS'.toInvSX {s : St} (h : InvS' s) : InvSX s where
  bg_pc t := (h.thr t).bg_pc
  nowait_ok t := (h.thr t).nowait_ok
  result_bg t e o _ hr := by
    obtain ⟨e', v, a, b, c, _⟩ := (h.thr t).result_ok e o hr
    exact ⟨e', v, a, b, c⟩
  result_ready t e o hr := by
    obtain ⟨_, _, _, _, _, d⟩ := (h.thr t).result_ok e o hr
    exact d
  nodata t := (h.thr t).nodata
  eofed_ready := h.glob.eofed_ready

theorem InvS'.of_InvS {s : St} (h : InvS s) (hx : InvSX s) : InvS' s where
  glob := {
    issued_lt := h.issued_lt
    issued_nodup := h.issued_nodup
    fresh := h.fresh
    out_nodup := h.out_nodup
    out_unanswered := h.out_unanswered
    reg_clean := h.reg_clean
    chan_answer := h.chan_answer
    eofed_ready := hx.eofed_ready
    obj_answer := h.obj_answer
    exc_answer := h.exc_answer
    compl_le := h.compl_le
    ready_compl := h.ready_compl }
  thr t := {
    bg_pc := hx.bg_pc t
    nowait_ok := hx.nowait_ok t
    seq_issued := h.seq_issued t
    at_c1 := h.at_c1 t
    at_c2 := h.at_c2 t
    raising_pc := h.raising_pc t
    nodata := hx.nodata t
    cb_pc := fun q => h.cb_pc t q
    completing := h.completing t
    data_answer := h.data_answer t
    at_w10 := h.at_w10 t
    result_ok := fun e o hr => by
      have hd := hx.result_ready t e o hr
      cases hb : (s.loc t).bg with
      | false =>
        obtain ⟨e', v, a, b, c⟩ := h.result_ok t e o hb hr
        exact ⟨e', v, a, b, c, hd⟩
      | true =>
        obtain ⟨e', v, a, b, c⟩ := hx.result_bg t e o hb hr
        exact ⟨e', v, a, b, c, hd⟩
    self_dispatch := fun a b c => by
      rcases h.self_dispatch t a b c with x | x | x | x
      · exact .inl ((PC.waiting_iff _).2 (.inl x))
      · exact .inl ((PC.waiting_iff _).2 (.inr (.inl x)))
      · exact .inl ((PC.waiting_iff _).2 (.inr (.inr x)))
      · exact .inr x
    dl_ttl := h.dl_ttl t
    wdl_le := h.wdl_le t }
  seq_inj := h.seq_inj

theorem invS'_iff {s : St} : InvS' s ↔ InvS s ∧ InvSX s :=
  ⟨fun h => ⟨h.toInvS, h.toInvSX⟩, fun h => InvS'.of_InvS h.1 h.2⟩

/-! ### facts about one thread -/

theorem ThrOK.bg_false_of_client {s : St} {t : Tid} {l : Loc} (h : ThrOK s t l) (hc : l.pc.client = true) :
    l.bg = false := by
  cases hb : l.bg with
  | false => rfl
  | true => rw [h.bg_pc hb] at hc; cases hc

theorem ThrOK.nowait_false_of_bg {s : St} {t : Tid} {l : Loc} (h : ThrOK s t l) (hb : l.bg = false) :
    l.nowait = false := by
  cases hn : l.nowait with
  | false => rfl
  | true => rw [(h.nowait_ok hn).1] at hb; cases hb

theorem ThrOK.nowait_false_of_bgLoop {s : St} {t : Tid} {l : Loc} (h : ThrOK s t l) (hb : l.pc.bgLoop = true) :
    l.nowait = false := by
  cases hn : l.nowait with
  | false => rfl
  | true => rw [(h.nowait_ok hn).2] at hb; cases hb

theorem ThrOK.raising_false {s : St} {t : Tid} {l : Loc} (h : ThrOK s t l) (hp : l.pc.holding = false) :
    l.raising = false := by
  cases hr : l.raising with
  | false => rfl
  | true => rw [h.raising_pc hr] at hp; cases hp

theorem ThrOK.raising_false_of_data {s : St} {t : Tid} {l : Loc} (h : ThrOK s t l) {f : Frame}
    (hd : l.data = some f) : l.raising = false := by
  cases hr : l.raising with
  | false => rfl
  | true => rw [h.nodata (.inr hr)] at hd; cases hd

theorem ThrOK.cb_none {s : St} {t : Tid} {l : Loc} (h : ThrOK s t l) (hp : l.pc.completing = false) :
    l.cb = none := by
  cases hc : l.cb with
  | none => rfl
  | some q => rw [h.cb_pc q hc] at hp; cases hp

theorem hasSeq_iff (l : Loc) : l.hasSeq = true ↔ l.bg = false ∧ l.pc ≠ .idle := by
  simp [Loc.hasSeq]

/-! ### steps that leave the shared state alone -/

/-- `s'` has the same shared state as `s` as far as `InvS` can see (the channel may have lost frames) -/
structure SameGlob (s s' : St) : Prop where
  cells : s'.cells = s.cells
  answer : s'.answer = s.answer
  outstanding : s'.outstanding = s.outstanding
  popper : s'.popper = s.popper
  completions : s'.completions = s.completions
  seqCounter : s'.seqCounter = s.seqCounter
  issued : s'.issued = s.issued
  now : s.now ≤ s'.now
  chan : ∀ f ∈ s'.chan, f ∈ s.chan
  closed : s'.closed = s.closed

theorem SameGlob.freshSeq {s s' : St} (g : SameGlob s s') (q : Seq) : freshSeq s' q ↔ freshSeq s q := by
  simp only [Serve.freshSeq, g.cells, g.answer, g.outstanding, g.popper, g.completions]

theorem SameGlob.thr {s s' : St} (g : SameGlob s s') {u : Tid} {l : Loc} (h : ThrOK s u l) : ThrOK s' u l where
  bg_pc := h.bg_pc
  nowait_ok := h.nowait_ok
  seq_issued := by simpa only [g.issued] using h.seq_issued
  at_c1 := by simpa only [g.freshSeq] using h.at_c1
  at_c2 := by simpa only [g.answer, g.outstanding, g.closed] using h.at_c2
  raising_pc := h.raising_pc
  nodata := h.nodata
  cb_pc := h.cb_pc
  completing := by simpa only [g.cells, g.popper, g.completions] using h.completing
  data_answer := by simpa only [g.answer, g.cells] using h.data_answer
  at_w10 := by simpa only [g.cells] using h.at_w10
  result_ok := by simpa only [g.answer, g.cells] using h.result_ok
  self_dispatch := by simpa only [g.cells, g.popper] using h.self_dispatch
  dl_ttl := by simpa only [g.cells] using h.dl_ttl
  wdl_le := fun a d hd => by
    obtain ⟨w, hw, hle⟩ := h.wdl_le a d hd
    exact ⟨w, hw, le_max_mono g.now hle⟩

theorem SameGlob.glob {s s' : St} (g : SameGlob s s') (h : GlobOK s) : GlobOK s' where
  issued_lt := by simpa only [g.issued, g.seqCounter] using h.issued_lt
  issued_nodup := by simpa only [g.issued] using h.issued_nodup
  fresh := by simpa only [g.freshSeq, g.seqCounter] using h.fresh
  out_nodup := by simpa only [g.outstanding] using h.out_nodup
  out_unanswered := by simpa only [g.outstanding, g.answer, g.seqCounter] using h.out_unanswered
  reg_clean := by simpa only [g.cells, g.popper, g.completions] using h.reg_clean
  chan_answer := fun f hf => by simpa only [g.answer, g.cells] using h.chan_answer f (g.chan f hf)
  eofed_ready := by simpa only [g.cells] using h.eofed_ready
  obj_answer := by simpa only [g.cells, g.answer] using h.obj_answer
  exc_answer := by simpa only [g.cells, g.answer] using h.exc_answer
  compl_le := by simpa only [g.completions] using h.compl_le
  ready_compl := by simpa only [g.cells, g.completions] using h.ready_compl

/-- `seq_inj` survives every step in which no thread acquires a sequence number -/
theorem seq_inj_frame {s s' : St}
    (hf : ∀ u, (s'.loc u).hasSeq = true → (s.loc u).hasSeq = true ∧ (s'.loc u).seq = (s.loc u).seq)
    (h : ∀ t u, (s.loc t).hasSeq = true → (s.loc u).hasSeq = true → (s.loc t).seq = (s.loc u).seq → t = u) :
    ∀ t u, (s'.loc t).hasSeq = true → (s'.loc u).hasSeq = true → (s'.loc t).seq = (s'.loc u).seq → t = u := by
  intro t u ht hu e
  obtain ⟨ht1, ht2⟩ := hf t ht
  obtain ⟨hu1, hu2⟩ := hf u hu
  exact h t u ht1 hu1 (by rw [← ht2, ← hu2, e])

/-- the frame lemma: thread `t` changed its own local state, the shared state is the same -/
theorem InvS'.locOnly {s s' : St} (t : Tid) (h : InvS' s) (g : SameGlob s s')
    (hne : ∀ u, u ≠ t → s'.loc u = s.loc u)
    (ht : ThrOK s t (s'.loc t))
    (hseq : (s'.loc t).hasSeq = true → (s.loc t).hasSeq = true ∧ (s'.loc t).seq = (s.loc t).seq) : InvS' s' where
  glob := g.glob h.glob
  thr u := by
    by_cases hu : u = t
    · subst hu; exact g.thr ht
    · rw [hne u hu]; exact g.thr (h.thr u)
  seq_inj := by
    apply seq_inj_frame _ h.seq_inj
    intro u
    by_cases hu : u = t
    · subst hu; exact hseq
    · rw [hne u hu]; exact fun x => ⟨x, rfl⟩

/-- how the program counter may change without touching the per-thread invariant
(except `self_dispatch` and `dl_ttl`) -/
def PC.FrameOK0 (p p' : PC) : Prop :=
  (p'.client = true → p.client = true) ∧ (p = .idle → p' = .idle) ∧ (p' = .c1 → p = .c1) ∧ (p' = .c2 → p = .c2) ∧
  (p' = .w10 → p = .w10) ∧ (p'.completing = p.completing) ∧
  (p' = .d4 ∨ p' = .d5 → p = .d4 ∨ p = .d5) ∧ (p' = .d5 → p = .d5) ∧ (p' = .zz → p = .zz) ∧
  (p'.bgLoop = true → p.bgLoop = true) ∧ (p' = .x0 → p = .x0) ∧ (p.holding = true → p'.holding = true)

/-- how the program counter may change without touching the per-thread invariant -/
def PC.FrameOK (p p' : PC) : Prop :=
  PC.FrameOK0 p p' ∧ (p.waiting = true → p'.waiting = true) ∧ (p'.inServe = true → p.inServe = true)

instance (p p' : PC) : Decidable (PC.FrameOK0 p p') := by unfold PC.FrameOK0; infer_instance
instance (p p' : PC) : Decidable (PC.FrameOK p p') := by unfold PC.FrameOK; infer_instance

/-- a step that changes only the program counter -/
theorem ThrOK.setPc' {s : St} {t : Tid} {l : Loc} {p : PC} (p' : PC) (h : ThrOK s t l) (hp : l.pc = p)
    (ok : PC.FrameOK0 p p')
    (kw : l.hasSeq = true → (s.cells l.seq).ready = true → s.popper l.seq = some t →
      p'.waiting = true ∨ l.raising = true)
    (kd : l.hasSeq = true → p'.inServe = true → l.dl = (s.cells l.seq).ttl) :
    ThrOK s t { l with pc := p' } := by
  subst hp
  obtain ⟨k1, k2, k3, k4, k5, k6, k7, k8, k11, k12, k13, k14⟩ := ok
  have hs : ({ l with pc := p' } : Loc).hasSeq = true → l.hasSeq = true := by
    simp only [hasSeq_iff]
    exact fun ⟨a, b⟩ => ⟨a, fun c => b (k2 c)⟩
  exact {
    bg_pc := fun hb => by
      have := h.bg_pc hb
      cases hc : p'.client with
      | false => rfl
      | true => rw [k1 hc] at this; cases this
    nowait_ok := fun a => ⟨(h.nowait_ok a).1, by
      have := (h.nowait_ok a).2
      cases hc : p'.bgLoop with
      | false => rfl
      | true => rw [k12 hc] at this; cases this⟩
    seq_issued := fun a => h.seq_issued (hs a)
    at_c1 := fun a b => h.at_c1 (hs a) (k3 b)
    at_c2 := fun a b => h.at_c2 (hs a) (k4 b)
    raising_pc := fun a => k14 (h.raising_pc a)
    nodata := fun a => h.nodata (a.imp k13 id)
    cb_pc := fun q a => by have := h.cb_pc q a; simpa only [k6] using this
    completing := fun a => by
      have a' : l.pc.completing = true := by rw [← k6]; exact a
      obtain ⟨q, f, c1, c2, c3, c4, c5, c6, c7, c8, c9⟩ := h.completing a'
      exact ⟨q, f, c1, c2, c3, c4, c5, c6, c7, fun x => c8 (k7 x), fun x => c9 (k8 x)⟩
    data_answer := h.data_answer
    at_w10 := fun a b => h.at_w10 (hs a) (k5 b)
    result_ok := h.result_ok
    self_dispatch := fun a b c => kw (hs a) b c
    dl_ttl := fun a b => kd (hs a) b
    wdl_le := fun a => h.wdl_le (k11 a) }

/-- a step that changes only the program counter, within the same class -/
theorem ThrOK.setPc {s : St} {t : Tid} {l : Loc} {p : PC} (p' : PC) (h : ThrOK s t l) (hp : l.pc = p)
    (ok : PC.FrameOK p p') : ThrOK s t { l with pc := p' } :=
  h.setPc' p' hp ok.1 (fun a b c => (h.self_dispatch a b c).imp (fun w => ok.2.1 (hp ▸ w)) id)
    (fun a b => h.dl_ttl a (hp ▸ ok.2.2 b))

theorem setPc_hasSeq {l : Loc} {p p' : PC} (hp : l.pc = p) (ok : PC.FrameOK0 p p') :
    ({ l with pc := p' } : Loc).hasSeq = true → l.hasSeq = true ∧ ({ l with pc := p' } : Loc).seq = l.seq := by
  intro hh
  obtain ⟨a, b⟩ := (hasSeq_iff _).1 hh
  exact ⟨(hasSeq_iff _).2 ⟨a, fun c => b (ok.2.1 (hp ▸ c))⟩, rfl⟩

theorem setPc_hasSeq' {l : Loc} (p' : PC) (hp : l.pc ≠ .idle) :
    ({ l with pc := p' } : Loc).hasSeq = true → l.hasSeq = true ∧ ({ l with pc := p' } : Loc).seq = l.seq := by
  intro hh
  obtain ⟨a, _⟩ := (hasSeq_iff _).1 hh
  exact ⟨(hasSeq_iff _).2 ⟨a, hp⟩, rfl⟩

/-- `serve()` returns -/
theorem thrOK_leaveServe {s : St} {t : Tid} {l : Loc} (h0 : l.nowait = true → l.bg = true)
    (hr : l.raising = false)
    (h1 : l.bg = false → l.seq ∈ s.issued)
    (h2 : ∀ e o, l.result = some (.value e o) → ∃ e' v, s.answer l.seq = some (e', v) ∧ e = some e' ∧ o = some v ∧
      (s.cells l.seq).ready = true) :
    ThrOK s t (leaveServe l) := by
  cases hn : l.nowait <;> cases hb : l.bg
  case true.false => have := h0 hn; rw [hb] at this; cases this
  all_goals exact {
    bg_pc := by simp [leaveServe, afterServe, hn, hb, PC.client]
    nowait_ok := by simp [leaveServe, afterServe, hn, hb, PC.bgLoop]
    seq_issued := fun a => h1 ((hasSeq_iff _).1 a).1
    at_c1 := by simp [leaveServe, afterServe, hn, hb]
    at_c2 := by simp [leaveServe, afterServe, hn, hb]
    raising_pc := by simp [leaveServe, hr]
    nodata := by simp [leaveServe]
    cb_pc := by simp [leaveServe]
    completing := by simp [leaveServe, afterServe, hn, hb, PC.completing]
    data_answer := by simp [leaveServe]
    at_w10 := by simp [leaveServe, afterServe, hn, hb]
    result_ok := h2
    self_dispatch := by simp [leaveServe, afterServe, hn, hb, PC.waiting, Loc.hasSeq]
    dl_ttl := by simp [leaveServe, afterServe, hn, hb, PC.inServe, Loc.hasSeq]
    wdl_le := by simp [leaveServe, afterServe, hn, hb] }

theorem ThrOK.leaveServe {s : St} {t : Tid} {l : Loc} (h : ThrOK s t l) (hp : l.pc ≠ .idle)
    (hr : l.raising = false) : ThrOK s t (leaveServe l) :=
  thrOK_leaveServe (fun hn => (h.nowait_ok hn).1) hr (fun hb => h.seq_issued ((hasSeq_iff l).2 ⟨hb, hp⟩)) h.result_ok

theorem leaveServe_hasSeq {l : Loc} (hp : l.pc ≠ .idle) :
    (leaveServe l).hasSeq = true → l.hasSeq = true ∧ (leaveServe l).seq = l.seq := by
  simp only [hasSeq_iff]
  exact fun ⟨a, _⟩ => ⟨⟨a, hp⟩, rfl⟩

/-! ### steps that change the shared state -/

/-- what a thread's part of the invariant needs from a change of the shared state (general form) -/
theorem ThrOK.transfer' {s s' : St} {u : Tid} {l : Loc} (h : ThrOK s u l)
    (h_iss : ∀ q ∈ s.issued, q ∈ s'.issued)
    (h_c1 : l.hasSeq = true → l.pc = .c1 → freshSeq s l.seq → freshSeq s' l.seq)
    (h_c2 : l.hasSeq = true → l.pc = .c2 → s'.closed = false → s.closed = false ∧
      (s.answer l.seq = none → l.seq ∉ s.outstanding → s'.answer l.seq = none ∧ l.seq ∉ s'.outstanding))
    (h_pop : ∀ q, s.popper q = some u → (s.cells q).reg = false → s'.popper q = some u ∧
      s'.completions q = s.completions q ∧
      (s'.cells q).reg = (s.cells q).reg ∧ (s'.cells q).ready = (s.cells q).ready ∧
      (s'.cells q).isExc = (s.cells q).isExc ∧ (s'.cells q).obj = (s.cells q).obj)
    (h_data : ∀ f : Frame, s.answer f.seq = some (f.exc, f.val) ∨ (s.cells f.seq).eofed = true →
      s'.answer f.seq = some (f.exc, f.val) ∨ (s'.cells f.seq).eofed = true)
    (h_res : ∀ x, s.answer l.seq = some x → (s.cells l.seq).ready = true → s'.answer l.seq = some x)
    (h_rdy : (s.cells l.seq).ready = true → (s'.cells l.seq).ready = true)
    (h_self : l.hasSeq = true → (s'.cells l.seq).ready = true → s'.popper l.seq = some u →
      ((s.cells l.seq).ready = true ∧ s.popper l.seq = some u) ∨ l.raising = true)
    (h_ttl : l.hasSeq = true → l.pc.inServe = true → (s'.cells l.seq).ttl = (s.cells l.seq).ttl)
    (h_now : s.now ≤ s'.now) : ThrOK s' u l where
  bg_pc := h.bg_pc
  nowait_ok := h.nowait_ok
  seq_issued := fun a => h_iss _ (h.seq_issued a)
  at_c1 := fun a b => h_c1 a b (h.at_c1 a b)
  at_c2 := fun a b c => by
    obtain ⟨c', k⟩ := h_c2 a b c
    exact k (h.at_c2 a b c').1 (h.at_c2 a b c').2
  raising_pc := h.raising_pc
  nodata := h.nodata
  cb_pc := h.cb_pc
  completing := fun a => by
    obtain ⟨q, f, c1, c2, c3, c4, c5, c6, c7, c8, c9⟩ := h.completing a
    obtain ⟨p1, p2, p3, p4, p5, p6⟩ := h_pop q c4 c5
    exact ⟨q, f, c1, c2, c3, p1, by rw [p3]; exact c5, by rw [p2]; exact c6, by rw [p4]; exact c7,
      fun x => by rw [p5]; exact c8 x, fun x => by rw [p6]; exact c9 x⟩
  data_answer := fun f a => h_data f (h.data_answer f a)
  at_w10 := fun a b => h_rdy (h.at_w10 a b)
  result_ok := fun e o a => by
    obtain ⟨e', v, r1, r2, r3, r4⟩ := h.result_ok e o a
    exact ⟨e', v, h_res _ r1 r4, r2, r3, h_rdy r4⟩
  self_dispatch := fun a b c => by
    rcases h_self a b c with ⟨x, y⟩ | x
    · exact h.self_dispatch a x y
    · exact .inr x
  dl_ttl := fun a b => by rw [h_ttl a b]; exact h.dl_ttl a b
  wdl_le := fun a d hd => by
    obtain ⟨w, hw, hle⟩ := h.wdl_le a d hd
    exact ⟨w, hw, le_max_mono h_now hle⟩

/-- what another thread's part of the invariant needs from a change of the shared state in which answers and
`eofed` marks stay and `closed` is the same -/
theorem ThrOK.transfer {s s' : St} {u : Tid} {l : Loc} (h : ThrOK s u l)
    (h_iss : ∀ q ∈ s.issued, q ∈ s'.issued)
    (h_c1 : l.hasSeq = true → l.pc = .c1 → freshSeq s l.seq → freshSeq s' l.seq)
    (h_c2 : l.hasSeq = true → l.pc = .c2 → s.answer l.seq = none → l.seq ∉ s.outstanding →
      s'.answer l.seq = none ∧ l.seq ∉ s'.outstanding)
    (h_pop : ∀ q, s.popper q = some u → s'.popper q = some u ∧ s'.completions q = s.completions q ∧
      (s'.cells q).reg = (s.cells q).reg ∧ (s'.cells q).ready = (s.cells q).ready ∧
      (s'.cells q).isExc = (s.cells q).isExc ∧ (s'.cells q).obj = (s.cells q).obj)
    (h_ans : ∀ r x, s.answer r = some x → s'.answer r = some x)
    (h_rdy : (s.cells l.seq).ready = true → (s'.cells l.seq).ready = true)
    (h_self : l.hasSeq = true → (s'.cells l.seq).ready = true → s'.popper l.seq = some u →
      (s.cells l.seq).ready = true ∧ s.popper l.seq = some u)
    (h_ttl : l.hasSeq = true → l.pc.inServe = true → (s'.cells l.seq).ttl = (s.cells l.seq).ttl)
    (h_now : s.now ≤ s'.now) (h_closed : s'.closed = s.closed)
    (h_eofed : ∀ q, (s.cells q).eofed = true → (s'.cells q).eofed = true) : ThrOK s' u l :=
  h.transfer' h_iss h_c1 (fun a b c => ⟨h_closed ▸ c, h_c2 a b⟩) (fun q a _ => h_pop q a)
    (fun _ x => x.imp (h_ans _ _) (h_eofed _)) (fun x a _ => h_ans _ x a) h_rdy
    (fun a b c => .inl (h_self a b c)) h_ttl h_now

/-- the shared state changed only at seq `q` (its cell, its popper, its completion count) -/
theorem GlobOK.updAt {s s' : St} (h : GlobOK s) (q : Seq)
    (e_iss : s'.issued = s.issued) (e_cnt : s'.seqCounter = s.seqCounter)
    (e_out : s'.outstanding = s.outstanding) (e_ans : s'.answer = s.answer) (e_chan : s'.chan = s.chan)
    (e_cells : ∀ r, r ≠ q → s'.cells r = s.cells r) (e_pop : ∀ r, r ≠ q → s'.popper r = s.popper r)
    (e_compl : ∀ r, r ≠ q → s'.completions r = s.completions r)
    (hq : q < s.seqCounter)
    (hreg : (s'.cells q).reg = true → s'.popper q = none ∧ s'.completions q = 0 ∧ (s'.cells q).ready = false)
    (hobj : ∀ v, (s'.cells q).obj = some v → ∃ e, s.answer q = some (e, v))
    (hexc : ∀ e, (s'.cells q).isExc = some e → ∃ v, s.answer q = some (e, v))
    (hcompl : s'.completions q ≤ 1)
    (hrdy : (s'.cells q).ready = true →
      s'.completions q = 1 ∧ (s'.cells q).obj.isSome = true ∧ (s'.cells q).isExc.isSome = true)
    (heof : (s'.cells q).eofed = (s.cells q).eofed)
    (heofr : (s'.cells q).eofed = true → (s'.cells q).ready = true) :
    GlobOK s' where
  issued_lt := by simpa only [e_iss, e_cnt] using h.issued_lt
  issued_nodup := by simpa only [e_iss] using h.issued_nodup
  fresh := fun r hr => by
    rw [e_cnt] at hr
    have hne : r ≠ q := Nat.ne_of_gt (Nat.lt_of_lt_of_le hq hr)
    have := h.fresh r hr
    simpa only [freshSeq, e_cells r hne, e_pop r hne, e_compl r hne, e_ans, e_out] using this
  out_nodup := by simpa only [e_out] using h.out_nodup
  out_unanswered := by simpa only [e_out, e_ans, e_cnt] using h.out_unanswered
  reg_clean := fun r => by
    by_cases hr : r = q
    · subst hr; exact hreg
    · simpa only [e_cells r hr, e_pop r hr, e_compl r hr] using h.reg_clean r
  chan_answer := fun f hf => by
    rw [e_ans]
    refine (h.chan_answer f (e_chan ▸ hf)).imp id (fun x => ?_)
    by_cases hr : f.seq = q
    · rw [hr] at x ⊢; rw [heof]; exact x
    · rw [e_cells _ hr]; exact x
  eofed_ready := fun r => by
    by_cases hr : r = q
    · subst hr; exact heofr
    · simpa only [e_cells r hr] using h.eofed_ready r
  obj_answer := fun r => by
    by_cases hr : r = q
    · subst hr; simpa only [e_ans] using hobj
    · simpa only [e_cells r hr, e_ans] using h.obj_answer r
  exc_answer := fun r => by
    by_cases hr : r = q
    · subst hr; simpa only [e_ans] using hexc
    · simpa only [e_cells r hr, e_ans] using h.exc_answer r
  compl_le := fun r => by
    by_cases hr : r = q
    · subst hr; exact hcompl
    · simpa only [e_compl r hr] using h.compl_le r
  ready_compl := fun r => by
    by_cases hr : r = q
    · subst hr; exact hrdy
    · simpa only [e_cells r hr, e_compl r hr] using h.ready_compl r

theorem setCell_reg_of (s : St) (q : Seq) (c : Cell) (r : Seq) (hc : c.reg = (s.cells q).reg) :
    ((setCell s q c).cells r).reg = (s.cells r).reg := by
  rw [setCell_cells]; split
  · rename_i e; subst e; exact hc
  · rfl

theorem setCell_ready_of (s : St) (q : Seq) (c : Cell) (r : Seq) (hc : c.ready = (s.cells q).ready) :
    ((setCell s q c).cells r).ready = (s.cells r).ready := by
  rw [setCell_cells]; split
  · rename_i e; subst e; exact hc
  · rfl

theorem setCell_isExc_of (s : St) (q : Seq) (c : Cell) (r : Seq) (hc : c.isExc = (s.cells q).isExc) :
    ((setCell s q c).cells r).isExc = (s.cells r).isExc := by
  rw [setCell_cells]; split
  · rename_i e; subst e; exact hc
  · rfl

theorem setCell_obj_of (s : St) (q : Seq) (c : Cell) (r : Seq) (hc : c.obj = (s.cells q).obj) :
    ((setCell s q c).cells r).obj = (s.cells r).obj := by
  rw [setCell_cells]; split
  · rename_i e; subst e; exact hc
  · rfl

theorem setCell_eofed_of (s : St) (q : Seq) (c : Cell) (r : Seq) (hc : c.eofed = (s.cells q).eofed) :
    ((setCell s q c).cells r).eofed = (s.cells r).eofed := by
  rw [setCell_cells]; split
  · rename_i e; subst e; exact hc
  · rfl

theorem setCell_ttl_of (s : St) (q : Seq) (c : Cell) (r : Seq) (hc : c.ttl = (s.cells q).ttl) :
    ((setCell s q c).cells r).ttl = (s.cells r).ttl := by
  rw [setCell_cells]; split
  · rename_i e; subst e; exact hc
  · rfl

theorem freshSeq_of_eq {s s' : St} {r : Seq} (h : freshSeq s r) (e1 : s'.cells r = s.cells r)
    (e2 : s'.answer r = s.answer r) (e3 : r ∈ s'.outstanding → r ∈ s.outstanding) (e4 : s'.popper r = s.popper r)
    (e5 : s'.completions r = s.completions r) : freshSeq s' r := by
  obtain ⟨a, b, c, d, e⟩ := h
  exact ⟨e1 ▸ a, e2 ▸ b, fun x => c (e3 x), e4 ▸ d, e5 ▸ e⟩

/-- what a thread in `AsyncResult.__call__` knows about the cell it popped -/
theorem ThrOK.compl_facts {s : St} {t : Tid} {l : Loc} (h : ThrOK s t l) (hc : l.pc.completing = true)
    {q : Seq} (hcb : l.cb = some q) :
    ∃ f, l.data = some f ∧ f.seq = q ∧ s.popper q = some t ∧ (s.cells q).reg = false ∧ s.completions q = 0 ∧
      (s.cells q).ready = false ∧ ((l.pc = .d4 ∨ l.pc = .d5) → (s.cells q).isExc = some f.exc) ∧
      (l.pc = .d5 → (s.cells q).obj = some f.val) := by
  obtain ⟨q0, f, c1, c2, c3, c4, c5, c6, c7, c8, c9⟩ := h.completing hc
  rw [hcb] at c1
  cases c1
  exact ⟨f, c2, c3, c4, c5, c6, c7, c8, c9⟩

/-- thread `t` is completing the cell of `q` (it popped it) and changes that cell; another thread `u` does not care -/
theorem ThrOK.other_completing {s s' : St} {t u : Tid} {l : Loc} {q : Seq} (h : ThrOK s u l) (hu : u ≠ t)
    (hpop : s.popper q = some t)
    (e_iss : s'.issued = s.issued) (e_ans : s'.answer = s.answer) (e_out : s'.outstanding = s.outstanding)
    (e_pop : s'.popper = s.popper) (e_now : s'.now = s.now)
    (e_cells : ∀ r, r ≠ q → s'.cells r = s.cells r) (e_compl : ∀ r, r ≠ q → s'.completions r = s.completions r)
    (e_rdy : (s.cells q).ready = true → (s'.cells q).ready = true)
    (e_ttl : (s'.cells q).ttl = (s.cells q).ttl) (e_closed : s'.closed = s.closed)
    (e_eof : (s'.cells q).eofed = (s.cells q).eofed) : ThrOK s' u l := by
  have hne : ∀ r, s.popper r = some u → r ≠ q := fun r hr e => by
    subst e; rw [hpop] at hr; cases hr; exact hu rfl
  refine h.transfer (fun _ x => e_iss ▸ x) ?_ ?_ ?_ (fun _ _ x => e_ans ▸ x) ?_ ?_ ?_ (e_now ▸ Nat.le_refl _)
    e_closed ?_
  rotate_right
  · intro r x
    by_cases e : r = q
    · rw [e] at x ⊢; rw [e_eof]; exact x
    · rw [e_cells _ e]; exact x
  · intro _ _ fr
    have : l.seq ≠ q := fun e => by
      have := fr.2.2.2.1
      rw [e, hpop] at this; cases this
    exact freshSeq_of_eq fr (e_cells _ this) (by rw [e_ans]) (fun x => e_out ▸ x) (by rw [e_pop]) (e_compl _ this)
  · intro _ _ a b
    rw [e_ans, e_out]; exact ⟨a, b⟩
  · intro r hr
    have := hne r hr
    rw [e_pop, e_cells r this, e_compl r this]
    exact ⟨hr, rfl, rfl, rfl, rfl, rfl⟩
  · intro x
    by_cases e : l.seq = q
    · rw [e] at x ⊢; exact e_rdy x
    · rw [e_cells _ e]; exact x
  · intro _ a b
    rw [e_pop] at b
    rw [e_cells _ (hne _ b)] at a
    exact ⟨a, b⟩
  · intro _ _
    by_cases e : l.seq = q
    · rw [e]; exact e_ttl
    · rw [e_cells _ e]

/-- the thread becomes an idle client: nothing is claimed about it except its result -/
theorem thrOK_idle {s : St} {t : Tid} {l l' : Loc} (h : ThrOK s t l) (hpc : l'.pc = .idle) (hbg : l'.bg = false)
    (hnw : l'.nowait = false) (hra : l'.raising = false)
    (hcb : l'.cb = none) (hdata : l'.data = l.data) (hseq : l'.seq = l.seq)
    (hr : ∀ e o, l'.result = some (.value e o) → ∃ e' v, s.answer l.seq = some (e', v) ∧ e = some e' ∧ o = some v ∧
      (s.cells l.seq).ready = true) :
    ThrOK s t l' where
  bg_pc := fun a => by rw [hbg] at a; cases a
  nowait_ok := fun a => by rw [hnw] at a; cases a
  seq_issued := fun a => absurd hpc ((hasSeq_iff _).1 a).2
  at_c1 := fun _ b => by rw [hpc] at b; cases b
  at_c2 := fun _ b => by rw [hpc] at b; cases b
  raising_pc := fun a => by rw [hra] at a; cases a
  nodata := fun a => by
    rcases a with a | a
    · rw [hpc] at a; cases a
    · rw [hra] at a; cases a
  cb_pc := fun q a => by rw [hcb] at a; cases a
  completing := fun a => by rw [hpc] at a; cases a
  data_answer := fun f a => h.data_answer f (hdata ▸ a)
  at_w10 := fun _ b => by rw [hpc] at b; cases b
  result_ok := fun e o a => by rw [hseq]; exact hr e o a
  self_dispatch := fun a => absurd hpc ((hasSeq_iff _).1 a).2
  dl_ttl := fun a => absurd hpc ((hasSeq_iff _).1 a).2
  wdl_le := fun b => by rw [hpc] at b; cases b

/-! ### `close()`: callbacks are dropped (`reg := false` on some or all cells), the counter may grow -/

theorem GlobOK.clearReg {s s' : St} (h : GlobOK s)
    (e_iss : s'.issued = s.issued) (e_out : s'.outstanding = s.outstanding) (e_ans : s'.answer = s.answer)
    (e_chan : s'.chan = s.chan) (e_pop : s'.popper = s.popper) (e_compl : s'.completions = s.completions)
    (e_cnt : s.seqCounter ≤ s'.seqCounter)
    (e_cells : ∀ r, s'.cells r = s.cells r ∨ s'.cells r = { s.cells r with reg := false }) : GlobOK s' := by
  have hobj : ∀ r, (s'.cells r).obj = (s.cells r).obj := fun r => by rcases e_cells r with e | e <;> rw [e]
  have hexc : ∀ r, (s'.cells r).isExc = (s.cells r).isExc := fun r => by rcases e_cells r with e | e <;> rw [e]
  have hrdy : ∀ r, (s'.cells r).ready = (s.cells r).ready := fun r => by rcases e_cells r with e | e <;> rw [e]
  have heof : ∀ r, (s'.cells r).eofed = (s.cells r).eofed := fun r => by rcases e_cells r with e | e <;> rw [e]
  have hreg : ∀ r, (s'.cells r).reg = true → (s.cells r).reg = true := fun r x => by
    rcases e_cells r with e | e <;> rw [e] at x
    · exact x
    · cases x
  exact {
    issued_lt := fun q hq => Nat.lt_of_lt_of_le (h.issued_lt q (e_iss ▸ hq)) e_cnt
    issued_nodup := e_iss ▸ h.issued_nodup
    fresh := fun r hr => by
      obtain ⟨a, b, c, d, e⟩ := h.fresh r (Nat.le_trans e_cnt hr)
      refine ⟨?_, by rw [e_ans]; exact b, by rw [e_out]; exact c, by rw [e_pop]; exact d, by rw [e_compl]; exact e⟩
      rcases e_cells r with x | x
      · exact x.trans a
      · rw [x, a]
    out_nodup := e_out ▸ h.out_nodup
    out_unanswered := fun q hq => by
      obtain ⟨a, b⟩ := h.out_unanswered q (e_out ▸ hq)
      exact ⟨by rw [e_ans]; exact a, Nat.lt_of_lt_of_le b e_cnt⟩
    reg_clean := fun r x => by
      rw [e_pop, e_compl, hrdy]; exact h.reg_clean r (hreg r x)
    chan_answer := fun f hf => by rw [e_ans, heof]; exact h.chan_answer f (e_chan ▸ hf)
    eofed_ready := fun r x => by rw [hrdy]; exact h.eofed_ready r ((heof r).symm.trans x)
    obj_answer := fun r v x => by rw [e_ans]; exact h.obj_answer r v ((hobj r).symm.trans x)
    exc_answer := fun r e x => by rw [e_ans]; exact h.exc_answer r e ((hexc r).symm.trans x)
    compl_le := fun r => by rw [e_compl]; exact h.compl_le r
    ready_compl := fun r x => by
      rw [e_compl, hobj, hexc]; exact h.ready_compl r ((hrdy r).symm.trans x) }

theorem ThrOK.clearReg {s s' : St} {u : Tid} {l : Loc} (h : ThrOK s u l) (g : GlobOK s)
    (e_iss : s'.issued = s.issued) (e_out : s'.outstanding = s.outstanding) (e_ans : s'.answer = s.answer)
    (e_pop : s'.popper = s.popper) (e_compl : s'.completions = s.completions) (e_now : s'.now = s.now)
    (e_closed : s'.closed = s.closed)
    (e_cells : ∀ r, s'.cells r = s.cells r ∨ s'.cells r = { s.cells r with reg := false }) : ThrOK s' u l := by
  have heof : ∀ r, (s'.cells r).eofed = (s.cells r).eofed := fun r => by rcases e_cells r with e | e <;> rw [e]
  have hobj : ∀ r, (s'.cells r).obj = (s.cells r).obj := fun r => by rcases e_cells r with e | e <;> rw [e]
  have hexc : ∀ r, (s'.cells r).isExc = (s.cells r).isExc := fun r => by rcases e_cells r with e | e <;> rw [e]
  have hrdy : ∀ r, (s'.cells r).ready = (s.cells r).ready := fun r => by rcases e_cells r with e | e <;> rw [e]
  have httl : ∀ r, (s'.cells r).ttl = (s.cells r).ttl := fun r => by rcases e_cells r with e | e <;> rw [e]
  refine h.transfer (fun _ x => e_iss ▸ x) ?_ ?_ ?_ (fun _ _ x => e_ans ▸ x) (fun x => (hrdy _).trans x) ?_
    (fun _ _ => httl _) (e_now ▸ Nat.le_refl _) e_closed (fun r x => (heof r).trans x)
  · intro _ _ ⟨a, b, c, d, e⟩
    refine ⟨?_, by rw [e_ans]; exact b, by rw [e_out]; exact c, by rw [e_pop]; exact d, by rw [e_compl]; exact e⟩
    rcases e_cells l.seq with x | x
    · exact x.trans a
    · rw [x, a]
  · intro _ _ a b
    rw [e_ans, e_out]; exact ⟨a, b⟩
  · intro q hq
    refine ⟨by rw [e_pop]; exact hq, by rw [e_compl], ?_, hrdy q, hexc q, hobj q⟩
    rcases e_cells q with x | x
    · rw [x]
    · rw [x]
      cases hr : (s.cells q).reg with
      | false => rfl
      | true => rw [(g.reg_clean q hr).1] at hq; cases hq
  · intro _ a b
    rw [e_pop] at b
    exact ⟨(hrdy _).symm.trans a, b⟩

/-! ### the first `close()`: every still registered request is dropped, and completed with `EOFError` unless expired -/

/-- `s'` is `s` after thread `t` ran `close()` for the first time (shared part) -/
structure CloseRel (s s' : St) (t : Tid) : Prop where
  issued : s'.issued = s.issued
  now : s'.now = s.now
  chan : s'.chan = s.chan
  closed : s'.closed = true
  counter : s'.seqCounter = s.seqCounter + 1
  cells : s'.cells = fun q =>
    if (s.cells q).reg then
      (if expiredAt (s.cells q).ttl s.now then { s.cells q with reg := false }
       else { s.cells q with reg := false, isExc := some true, obj := some eofVal, ready := true, eofed := true })
    else s.cells q
  answer : s'.answer = fun q => if closePublishes s q then some (true, eofVal) else s.answer q
  completions : s'.completions = fun q => if closePublishes s q then s.completions q + 1 else s.completions q
  popper : s'.popper = fun q => if (s.cells q).reg then some t else s.popper q
  outstanding : s'.outstanding = s.outstanding.filter (fun q => !closePublishes s q)

/-- an unregistered request is not touched -/
theorem CloseRel.unreg {s s' : St} {t : Tid} (c : CloseRel s s' t) {q : Seq} (hr : (s.cells q).reg = false) :
    s'.cells q = s.cells q ∧ s'.answer q = s.answer q ∧ s'.completions q = s.completions q ∧
    s'.popper q = s.popper q := by
  simp [c.cells, c.answer, c.completions, c.popper, closePublishes, hr]

/-- a registered, unexpired request is completed -/
theorem CloseRel.pub {s s' : St} {t : Tid} (c : CloseRel s s' t) {q : Seq} (hc : closePublishes s q = true) :
    s'.cells q = { s.cells q with reg := false, isExc := some true, obj := some eofVal, ready := true, eofed := true } ∧
    s'.answer q = some (true, eofVal) ∧ s'.completions q = s.completions q + 1 ∧ s'.popper q = some t := by
  have h1 : (s.cells q).reg = true ∧ expiredAt (s.cells q).ttl s.now = false := by
    simpa [closePublishes] using hc
  simp [c.cells, c.answer, c.completions, c.popper, hc, h1.1, h1.2]

/-- a registered, expired request is only dropped -/
theorem CloseRel.exp {s s' : St} {t : Tid} (c : CloseRel s s' t) {q : Seq} (hr : (s.cells q).reg = true)
    (hc : closePublishes s q = false) :
    s'.cells q = { s.cells q with reg := false } ∧ s'.answer q = s.answer q ∧
    s'.completions q = s.completions q ∧ s'.popper q = some t := by
  have h1 : expiredAt (s.cells q).ttl s.now = true := by
    simpa [closePublishes, hr] using hc
  simp [c.cells, c.answer, c.completions, c.popper, hc, hr, h1]

theorem CloseRel.cases {s : St} (q : Seq) :
    (s.cells q).reg = false ∨ closePublishes s q = true ∨ ((s.cells q).reg = true ∧ closePublishes s q = false) := by
  cases hr : (s.cells q).reg
  · exact .inl rfl
  · cases hc : closePublishes s q
    · exact .inr (.inr ⟨rfl, rfl⟩)
    · exact .inr (.inl rfl)

theorem closePublishes_reg {s : St} {q : Seq} (hc : closePublishes s q = true) : (s.cells q).reg = true := by
  have : (s.cells q).reg = true ∧ expiredAt (s.cells q).ttl s.now = false := by simpa [closePublishes] using hc
  exact this.1

theorem closePublishes_false {s : St} {q : Seq} (hr : (s.cells q).reg = false) : closePublishes s q = false := by
  simp [closePublishes, hr]

theorem CloseRel.reg {s s' : St} {t : Tid} (c : CloseRel s s' t) (q : Seq) : (s'.cells q).reg = false := by
  rcases CloseRel.cases (s := s) q with h | h | ⟨h, h'⟩
  · rw [(c.unreg h).1]; exact h
  · rw [(c.pub h).1]
  · rw [(c.exp h h').1]

theorem CloseRel.ttl {s s' : St} {t : Tid} (c : CloseRel s s' t) (q : Seq) : (s'.cells q).ttl = (s.cells q).ttl := by
  rcases CloseRel.cases (s := s) q with h | h | ⟨h, h'⟩
  · rw [(c.unreg h).1]
  · rw [(c.pub h).1]
  · rw [(c.exp h h').1]

theorem CloseRel.mem_out {s s' : St} {t : Tid} (c : CloseRel s s' t) {q : Seq} (hq : q ∈ s'.outstanding) :
    q ∈ s.outstanding ∧ closePublishes s q = false := by
  rw [c.outstanding] at hq
  obtain ⟨a, b⟩ := List.mem_filter.1 hq
  exact ⟨a, by simpa using b⟩

theorem CloseRel.fresh {s s' : St} {t : Tid} (c : CloseRel s s' t) {q : Seq} (h : freshSeq s q) : freshSeq s' q := by
  have hr : (s.cells q).reg = false := by rw [h.1]
  obtain ⟨e1, e2, e3, e4⟩ := c.unreg hr
  exact freshSeq_of_eq h e1 e2 (fun x => (c.mem_out x).1) e4 e3

/-- frames: an answer stays, or the request is now marked `eofed` -/
theorem CloseRel.frame {s s' : St} {t : Tid} (c : CloseRel s s' t) (g : GlobOK s) (f : Frame)
    (h : s.answer f.seq = some (f.exc, f.val) ∨ (s.cells f.seq).eofed = true) :
    s'.answer f.seq = some (f.exc, f.val) ∨ (s'.cells f.seq).eofed = true := by
  rcases CloseRel.cases (s := s) f.seq with k | k | ⟨k, k'⟩
  · obtain ⟨e1, e2, _, _⟩ := c.unreg k
    rw [e1, e2]; exact h
  · right; rw [(c.pub k).1]
  · rcases h with h | h
    · left; rw [(c.exp k k').2.1]; exact h
    · rw [g.eofed_unreg _ h] at k; cases k

theorem GlobOK.close {s s' : St} {t : Tid} (h : GlobOK s) (c : CloseRel s s' t) : GlobOK s' where
  issued_lt := fun q hq => by
    rw [c.counter]; exact Nat.lt_succ_of_lt (h.issued_lt q (c.issued ▸ hq))
  issued_nodup := c.issued ▸ h.issued_nodup
  fresh := fun q hq => by
    rw [c.counter] at hq
    exact c.fresh (h.fresh q (Nat.le_of_succ_le hq))
  out_nodup := by rw [c.outstanding]; exact List.Pairwise.filter _ h.out_nodup
  out_unanswered := fun q hq => by
    obtain ⟨a, b⟩ := c.mem_out hq
    obtain ⟨x, y⟩ := h.out_unanswered q a
    refine ⟨?_, by rw [c.counter]; exact Nat.lt_succ_of_lt y⟩
    simp only [c.answer, b]
    exact x
  reg_clean := fun q hq => by rw [c.reg q] at hq; cases hq
  chan_answer := fun f hf => c.frame h f (h.chan_answer f (c.chan ▸ hf))
  eofed_ready := fun q hq => by
    rcases CloseRel.cases (s := s) q with k | k | ⟨k, k'⟩
    · rw [(c.unreg k).1] at hq ⊢; exact h.eofed_ready q hq
    · rw [(c.pub k).1]
    · rw [(c.exp k k').1] at hq
      have : (s.cells q).eofed = true := hq
      rw [h.eofed_unreg _ this] at k; cases k
  obj_answer := fun q v hv => by
    rcases CloseRel.cases (s := s) q with k | k | ⟨k, k'⟩
    · obtain ⟨e1, e2, _, _⟩ := c.unreg k
      rw [e1] at hv; rw [e2]; exact h.obj_answer q v hv
    · obtain ⟨e1, e2, _, _⟩ := c.pub k
      rw [e1] at hv
      cases hv
      exact ⟨true, e2⟩
    · obtain ⟨e1, e2, _, _⟩ := c.exp k k'
      rw [e1] at hv; rw [e2]; exact h.obj_answer q v hv
  exc_answer := fun q e he => by
    rcases CloseRel.cases (s := s) q with k | k | ⟨k, k'⟩
    · obtain ⟨e1, e2, _, _⟩ := c.unreg k
      rw [e1] at he; rw [e2]; exact h.exc_answer q e he
    · obtain ⟨e1, e2, _, _⟩ := c.pub k
      rw [e1] at he
      cases he
      exact ⟨eofVal, e2⟩
    · obtain ⟨e1, e2, _, _⟩ := c.exp k k'
      rw [e1] at he; rw [e2]; exact h.exc_answer q e he
  compl_le := fun q => by
    rcases CloseRel.cases (s := s) q with k | k | ⟨k, k'⟩
    · rw [(c.unreg k).2.2.1]; exact h.compl_le q
    · rw [(c.pub k).2.2.1, (h.reg_clean q (closePublishes_reg k)).2.1]; exact Nat.le_refl _
    · rw [(c.exp k k').2.2.1]; exact h.compl_le q
  ready_compl := fun q hq => by
    rcases CloseRel.cases (s := s) q with k | k | ⟨k, k'⟩
    · obtain ⟨e1, _, e3, _⟩ := c.unreg k
      rw [e1] at hq ⊢; rw [e3]; exact h.ready_compl q hq
    · obtain ⟨e1, _, e3, _⟩ := c.pub k
      rw [e1, e3, (h.reg_clean q (closePublishes_reg k)).2.1]
      exact ⟨rfl, rfl, rfl⟩
    · rw [(c.exp k k').1] at hq
      have : (s.cells q).ready = true := hq
      rw [(h.reg_clean q k).2.2] at this; cases this

/-- every thread's part survives the first `close()` by `t` (for `t` itself: it is `raising` afterwards) -/
theorem ThrOK.close {s s' : St} {t u : Tid} {l : Loc} (h : ThrOK s u l) (g : GlobOK s) (c : CloseRel s s' t)
    (hself : u = t → l.raising = true) : ThrOK s' u l := by
  refine h.transfer' (fun _ x => c.issued ▸ x) (fun _ _ fr => c.fresh fr) ?_ ?_ (c.frame g) ?_ ?_ ?_
    (fun _ _ => c.ttl _) (c.now ▸ Nat.le_refl _)
  · intro _ _ x
    rw [c.closed] at x; cases x
  · intro q hq hr
    obtain ⟨e1, _, e3, e4⟩ := c.unreg hr
    rw [e1, e3, e4]
    exact ⟨hq, rfl, rfl, rfl, rfl, rfl⟩
  · intro x hx hr
    rw [(c.unreg (g.unreg_of_ready hr)).2.1]; exact hx
  · intro hr
    rw [(c.unreg (g.unreg_of_ready hr)).1]; exact hr
  · intro _ a b
    cases k : (s.cells l.seq).reg with
    | false =>
      obtain ⟨e1, _, _, e4⟩ := c.unreg k
      rw [e1] at a; rw [e4] at b
      exact .inl ⟨a, b⟩
    | true =>
      have : s'.popper l.seq = some t := by simp [c.popper, k]
      rw [this] at b
      cases b
      exact .inr (hself rfl)

/-- assemble `InvS'` after a step of thread `t` in which no thread acquires a sequence number -/
theorem InvS'.step' {s s' : St} (t : Tid) (l' : Loc) (h : InvS' s) (hl : s'.loc = (setLoc s t l').loc)
    (hseq : l'.hasSeq = true → (s.loc t).hasSeq = true ∧ l'.seq = (s.loc t).seq)
    (glob : GlobOK s') (ht : ThrOK s' t l') (hu : ∀ u, u ≠ t → ThrOK s' u (s.loc u)) : InvS' s' where
  glob := glob
  thr u := by
    by_cases e : u = t
    · subst e; rw [hl, setLoc_loc_self]; exact ht
    · rw [hl, setLoc_loc_ne _ _ e]; exact hu u e
  seq_inj := by
    apply seq_inj_frame _ h.seq_inj
    intro u
    by_cases e : u = t
    · subst e; rw [hl, setLoc_loc_self]; exact hseq
    · rw [hl, setLoc_loc_ne _ _ e]; exact fun x => ⟨x, rfl⟩

end Rpyc.Conc.Serve
