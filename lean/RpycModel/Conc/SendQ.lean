import RpycModel.Conc.SendQ.Model
import RpycModel.Conc.SendQ.Lemmas
/-! L8 `SendQ` — the send side of a shared connection (C12): model + invariants. -/
