import RpycModel.Conc.SendQ.Model
import RpycModel.Conc.SendQ.Lemmas
import RpycModel.Conc.SendQ.Progress
import RpycModel.Conc.SendQ.OsOrder
/-! L8 `SendQ` — the send side of a shared connection (C12): model + invariants. -/
