import RpycModel.Conc.Serve.Model
import RpycModel.Conc.Serve.Basic
import RpycModel.Conc.Serve.Locks
import RpycModel.Conc.Serve.Frames
import RpycModel.Conc.Serve.Seqs
import RpycModel.Conc.Serve.Stalls
/-
L8 `Serve`: the receive side of a connection shared by several threads.
`Model` = the machine (DESIGN.md Appendix C.1), `Basic` = projections and the invariant statements,
`Locks` / `Frames` / `Seqs`(+`SeqsAux`) = the proofs that every reachable state satisfies them,
`Stalls` = lemmas behind the C14 classification / release / single-thread theorems.
Property theorems: `Props/C13.lean`, `Props/C14.lean`.
-/
