import RpycModel.Conc.Serve.Model
import RpycModel.Conc.Serve.Basic
import RpycModel.Conc.Serve.Locks
import RpycModel.Conc.Serve.Frames
import RpycModel.Conc.Serve.Seqs
/-
L8 `Serve`: the receive side of a connection shared by several threads.
`Model` = the machine (DESIGN.md Appendix C.1), `Basic` = projections and the invariant statements,
`Locks` / `Frames` / `Seqs`(+`SeqsAux`) = the proofs that every reachable state satisfies them.
Property theorems: `Props/C13.lean`, `Props/C14.lean`.
-/
