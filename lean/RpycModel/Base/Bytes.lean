/-
L0 — bytes, big-endian integers, Python's decimal text for integers and the `int(bytes)` grammar,
UTF-8 over code points (lone surrogates are representable because Python strings can hold them).

Bytes are modelled as `List Nat`; real byte strings are the lists whose members are < 256.  Theorems
that quantify over "all byte strings" quantify over all lists of naturals, which is a superset.
-/
namespace Rpyc

abbrev Bytes := List Nat

/-- exception classes the models can raise; messages are never modelled -/
inductive Err where
  | typeError | valueError | unicodeDecodeError | unicodeEncodeError | attributeError
  | structError | keyError | eofError | zlibError | recursionError | indexError
  | stopIteration | timeoutError | notModelled
  deriving DecidableEq, Repr, Inhabited

def Err.name : Err → String
  | .typeError => "TypeError" | .valueError => "ValueError"
  | .unicodeDecodeError => "UnicodeDecodeError" | .unicodeEncodeError => "UnicodeEncodeError"
  | .attributeError => "AttributeError" | .structError => "struct.error" | .keyError => "KeyError"
  | .eofError => "EOFError" | .zlibError => "zlib.error" | .recursionError => "RecursionError"
  | .indexError => "IndexError" | .stopIteration => "StopIteration" | .timeoutError => "TimeoutError"
  | .notModelled => "NOT-MODELLED"

/-! ### big-endian fixed-width integers (`struct` formats `!B`, `!L`, and the raw bits of `!d`) -/

/-- `k`-byte big-endian representation of `n` (low `8k` bits) -/
def beN : Nat → Nat → Bytes
  | 0, _ => []
  | k+1, n => beN k (n / 256) ++ [n % 256]

/-- big-endian value of a byte string -/
def unbe (bs : Bytes) : Nat := bs.foldl (fun acc b => acc * 256 + b) 0

@[simp] theorem beN_length (k n : Nat) : (beN k n).length = k := by
  induction k generalizing n with
  | zero => rfl
  | succ k ih => simp [beN, ih]

theorem unbe_append_single (bs : Bytes) (b : Nat) : unbe (bs ++ [b]) = unbe bs * 256 + b := by
  simp [unbe, List.foldl_append]

theorem unbe_beN (k n : Nat) (h : n < 256 ^ k) : unbe (beN k n) = n := by
  induction k generalizing n with
  | zero => simp [beN, unbe] at *; omega
  | succ k ih =>
    have h1 : n / 256 < 256 ^ k := by
      rw [Nat.pow_succ] at h
      exact Nat.div_lt_of_lt_mul (by rwa [Nat.mul_comm] at h)
    rw [beN, unbe_append_single, ih _ h1]
    omega

theorem beN_bytes (k n : Nat) : ∀ b ∈ beN k n, b < 256 := by
  induction k generalizing n with
  | zero => simp [beN]
  | succ k ih =>
    intro b hb
    simp [beN] at hb
    rcases hb with hb | hb
    · exact ih _ _ hb
    · omega

/-! ### decimal text of integers: `str(int)` and `int(bytes)` -/

/-- ASCII decimal digits of a natural number, most significant first (no leading zeros) -/
def natDigits (n : Nat) : Bytes :=
  if n < 10 then [48 + n] else natDigits (n / 10) ++ [48 + n % 10]
decreasing_by omega

/-- `str(i).encode()` -/
def intRepr (i : Int) : Bytes :=
  if i < 0 then 45 :: natDigits i.natAbs else natDigits i.natAbs

def isSpace (b : Nat) : Bool := b == 32 || (9 ≤ b && b ≤ 13)
def isDigit (b : Nat) : Bool := 48 ≤ b && b ≤ 57

/-- Body of Python's decimal integer grammar after leading whitespace and sign: digits with single
underscores between digits, then optional trailing whitespace.  Returns value and digit count. -/
def parseDigitsGo (acc nd : Nat) (prevUnderscore : Bool) : Bytes → Option (Nat × Nat)
  | [] => if prevUnderscore || nd == 0 then none else some (acc, nd)
  | b :: rest =>
    if isDigit b then parseDigitsGo (acc * 10 + (b - 48)) (nd + 1) false rest
    else if b == 95 && !prevUnderscore && nd != 0 then parseDigitsGo acc nd true rest
    else if isSpace b && !prevUnderscore && nd != 0 && rest.all isSpace then some (acc, nd)
    else none

def splitSign : Bytes → Bool × Bytes
  | 45 :: r => (true, r)
  | 43 :: r => (false, r)
  | s => (false, s)

def finishInt (maxDigits : Nat) (neg : Bool) : Option (Nat × Nat) → Option Int
  | none => none
  | some (v, nd) =>
    if maxDigits != 0 && nd > maxDigits then none
    else some (if neg then - (v : Int) else (v : Int))

/-- `int(bs)` for a bytes argument, base 10, with the interpreter's digit limit (`0` = none).
`none` is `ValueError`. -/
def parseInt (maxDigits : Nat) (bs : Bytes) : Option Int :=
  finishInt maxDigits (splitSign (bs.dropWhile isSpace)).1
    (parseDigitsGo 0 0 false (splitSign (bs.dropWhile isSpace)).2)

theorem natDigits_ne_nil (n : Nat) : natDigits n ≠ [] := by
  unfold natDigits; split <;> simp

theorem natDigits_all_digit (n : Nat) : ∀ b ∈ natDigits n, isDigit b = true := by
  induction n using Nat.strongRecOn with
  | _ n ih =>
    unfold natDigits
    split
    · intro b hb; simp at hb; subst hb; simp [isDigit]; omega
    · intro b hb
      simp at hb
      rcases hb with hb | hb
      · exact ih (n / 10) (by omega) b hb
      · subst hb; simp [isDigit]; omega

theorem parseDigitsGo_natDigits (n acc nd : Nat) (pu : Bool) (tl : Bytes) :
    parseDigitsGo acc nd pu (natDigits n ++ tl)
      = parseDigitsGo (acc * 10 ^ (natDigits n).length + n) (nd + (natDigits n).length) false tl := by
  induction n using Nat.strongRecOn generalizing acc nd pu tl with
  | _ n ih =>
    unfold natDigits
    split
    · rename_i h
      have hd : isDigit (48 + n) = true := by simp [isDigit]; omega
      simp [parseDigitsGo, hd]
    · rename_i h
      have hd : isDigit (48 + n % 10) = true := by simp [isDigit]; omega
      rw [List.append_assoc, ih (n / 10) (by omega)]
      simp only [List.singleton_append, parseDigitsGo, hd, if_true, List.length_append,
        List.length_singleton]
      congr 1
      · have : 48 + n % 10 - 48 = n % 10 := by omega
        rw [this, Nat.pow_succ]
        have := Nat.div_add_mod n 10
        rw [Nat.add_mul, Nat.mul_assoc]
        omega

theorem parseInt_intRepr (maxDigits : Nat) (i : Int)
    (h : maxDigits = 0 ∨ (natDigits i.natAbs).length ≤ maxDigits) :
    parseInt maxDigits (intRepr i) = some i := by
  have hne := natDigits_ne_nil i.natAbs
  have hall := natDigits_all_digit i.natAbs
  -- the first character of the digit string is a digit: not a space, '-' or '+'
  obtain ⟨d, ds, hds⟩ : ∃ d ds, natDigits i.natAbs = d :: ds := by
    cases hh : natDigits i.natAbs with
    | nil => exact absurd hh hne
    | cons d ds => exact ⟨d, ds, rfl⟩
  have hd : isDigit d = true := hall d (by rw [hds]; simp)
  have hd' : 48 ≤ d ∧ d ≤ 57 := by simpa [isDigit] using hd
  have hsp : isSpace d = false := by simp [isSpace]; omega
  have hgo : parseDigitsGo 0 0 false (natDigits i.natAbs)
      = some (i.natAbs, (natDigits i.natAbs).length) := by
    have := parseDigitsGo_natDigits i.natAbs 0 0 false []
    simp only [List.append_nil, Nat.zero_mul, Nat.zero_add] at this
    rw [this]
    have hl : (natDigits i.natAbs).length ≠ 0 := by rw [hds]; simp
    simp [parseDigitsGo, hl]
  have hlim : (maxDigits != 0 && decide ((natDigits i.natAbs).length > maxDigits)) = false := by
    rcases h with h | h
    · simp [h]
    · simp; intro _; omega
  unfold parseInt intRepr
  by_cases hneg : i < 0
  · simp only [hneg, if_true]
    have : List.dropWhile isSpace (45 :: natDigits i.natAbs) = 45 :: natDigits i.natAbs := by
      simp [List.dropWhile, isSpace]
    rw [this]
    simp only [splitSign, hgo, finishInt, hlim]
    simp
    omega
  · simp only [hneg, if_false]
    have h1 : List.dropWhile isSpace (natDigits i.natAbs) = natDigits i.natAbs := by
      rw [hds]; simp [List.dropWhile, hsp]
    rw [h1]
    have h2 : splitSign (natDigits i.natAbs) = (false, natDigits i.natAbs) := by
      rw [hds]
      unfold splitSign
      split
      · rename_i heq; simp at heq; omega
      · rename_i heq; simp at heq; omega
      · rfl
    rw [h2]
    simp only [hgo, finishInt, hlim]
    simp
    omega

/-! ### UTF-8 over code points

`sp = true` is Python's `surrogatepass` error handler (surrogate code points are encoded and decoded
like any other three-byte character), `sp = false` is `strict`. -/

def isSurrogate (c : Nat) : Bool := 0xD800 ≤ c && c ≤ 0xDFFF

def utf8EncCp (c : Nat) : Bytes :=
  if c < 0x80 then [c]
  else if c < 0x800 then [0xC0 + c / 64, 0x80 + c % 64]
  else if c < 0x10000 then [0xE0 + c / 4096, 0x80 + c / 64 % 64, 0x80 + c % 64]
  else [0xF0 + c / 262144, 0x80 + c / 4096 % 64, 0x80 + c / 64 % 64, 0x80 + c % 64]

/-- `str.encode("utf8", errors)`; `none` is `UnicodeEncodeError` -/
def utf8Enc (sp : Bool) : List Nat → Option Bytes
  | [] => some []
  | c :: cs =>
    if isSurrogate c && !sp then none
    else match utf8Enc sp cs with
      | none => none
      | some r => some (utf8EncCp c ++ r)

def isCont (b : Nat) : Bool := 0x80 ≤ b && b < 0xC0

/-- one code point from the front of a byte string; `none` = invalid (`UnicodeDecodeError`) -/
def utf8DecCp (sp : Bool) : Bytes → Option (Nat × Bytes)
  | [] => none
  | b0 :: rest =>
    if b0 < 0x80 then some (b0, rest)
    else if b0 < 0xC2 then none
    else if b0 < 0xE0 then
      match rest with
      | b1 :: r => if isCont b1 then some ((b0 - 0xC0) * 64 + (b1 - 0x80), r) else none
      | _ => none
    else if b0 < 0xF0 then
      match rest with
      | b1 :: b2 :: r =>
        let c := (b0 - 0xE0) * 4096 + (b1 - 0x80) * 64 + (b2 - 0x80)
        if isCont b1 && isCont b2 && 0x800 ≤ c && (sp || !isSurrogate c) then some (c, r) else none
      | _ => none
    else if b0 < 0xF5 then
      match rest with
      | b1 :: b2 :: b3 :: r =>
        let c := (b0 - 0xF0) * 262144 + (b1 - 0x80) * 4096 + (b2 - 0x80) * 64 + (b3 - 0x80)
        if isCont b1 && isCont b2 && isCont b3 && 0x10000 ≤ c && c < 0x110000 then some (c, r) else none
      | _ => none
    else none

/-- `bytes.decode("utf-8", errors)` with fuel (one unit per code point) -/
def utf8DecFuel (sp : Bool) : Nat → Bytes → Option (List Nat)
  | _, [] => some []
  | 0, _ :: _ => none
  | f+1, b :: bs =>
    match utf8DecCp sp (b :: bs) with
    | none => none
    | some (c, r) => match utf8DecFuel sp f r with
      | none => none
      | some cs => some (c :: cs)

def utf8Dec (sp : Bool) (bs : Bytes) : Option (List Nat) := utf8DecFuel sp bs.length bs

theorem utf8DecCp_encCp (sp : Bool) (c : Nat) (rest : Bytes) (hc : c < 0x110000)
    (hs : isSurrogate c = false ∨ sp = true) :
    utf8DecCp sp (utf8EncCp c ++ rest) = some (c, rest) := by
  unfold utf8EncCp
  split
  · rename_i h; simp [utf8DecCp, h]
  · split
    · rename_i h1 h2
      have a1 : ¬ (0xC0 + c / 64 < 0x80) := by omega
      have a2 : ¬ (0xC0 + c / 64 < 0xC2) := by omega
      have a3 : 0xC0 + c / 64 < 0xE0 := by omega
      have a4 : isCont (0x80 + c % 64) = true := by simp [isCont]; omega
      simp only [List.cons_append, List.nil_append, utf8DecCp, a1, a2, a3, a4, if_true, if_false]
      simp; omega
    · split
      · rename_i h1 h2 h3
        have a1 : ¬ (0xE0 + c / 4096 < 0x80) := by omega
        have a2 : ¬ (0xE0 + c / 4096 < 0xC2) := by omega
        have a3 : ¬ (0xE0 + c / 4096 < 0xE0) := by omega
        have a4 : 0xE0 + c / 4096 < 0xF0 := by omega
        have a5 : isCont (0x80 + c / 64 % 64) = true := by simp [isCont]; omega
        have a6 : isCont (0x80 + c % 64) = true := by simp [isCont]; omega
        have a7 : (0xE0 + c / 4096 - 0xE0) * 4096 + (0x80 + c / 64 % 64 - 0x80) * 64
            + (0x80 + c % 64 - 0x80) = c := by omega
        have a8 : (sp || !isSurrogate c) = true := by rcases hs with hs | hs <;> simp [hs]
        have a9 : 0x800 ≤ c := by omega
        simp only [List.cons_append, List.nil_append, utf8DecCp, a1, a2, a3, a4, a5, a6, a7, a8,
          if_true, if_false, Bool.and_self, decide_eq_true a9]
      · rename_i h1 h2 h3
        have a1 : ¬ (0xF0 + c / 262144 < 0x80) := by omega
        have a2 : ¬ (0xF0 + c / 262144 < 0xC2) := by omega
        have a3 : ¬ (0xF0 + c / 262144 < 0xE0) := by omega
        have a4 : ¬ (0xF0 + c / 262144 < 0xF0) := by omega
        have a4' : 0xF0 + c / 262144 < 0xF5 := by omega
        have a5 : isCont (0x80 + c / 4096 % 64) = true := by simp [isCont]; omega
        have a6 : isCont (0x80 + c / 64 % 64) = true := by simp [isCont]; omega
        have a6' : isCont (0x80 + c % 64) = true := by simp [isCont]; omega
        have a7 : (0xF0 + c / 262144 - 0xF0) * 262144 + (0x80 + c / 4096 % 64 - 0x80) * 4096
            + (0x80 + c / 64 % 64 - 0x80) * 64 + (0x80 + c % 64 - 0x80) = c := by omega
        have a9 : 0x10000 ≤ c := by omega
        simp only [List.cons_append, List.nil_append, utf8DecCp, a1, a2, a3, a4, a4', a5, a6, a6', a7,
          if_true, if_false, Bool.and_self, Bool.true_and, decide_eq_true a9, decide_eq_true hc]

theorem utf8EncCp_ne_nil (c : Nat) : utf8EncCp c ≠ [] := by
  unfold utf8EncCp; split <;> (try split) <;> (try split) <;> simp

theorem utf8EncCp_length_pos (c : Nat) : 0 < (utf8EncCp c).length := by
  have := utf8EncCp_ne_nil c
  cases h : utf8EncCp c with
  | nil => exact absurd h this
  | cons _ _ => simp

theorem utf8Enc_cons_some (sp : Bool) (c : Nat) (cs : List Nat) (bs : Bytes)
    (h : utf8Enc sp (c :: cs) = some bs) :
    (isSurrogate c = false ∨ sp = true) ∧ ∃ r, utf8Enc sp cs = some r ∧ bs = utf8EncCp c ++ r := by
  simp only [utf8Enc] at h
  split at h
  · simp at h
  · rename_i hsur
    split at h
    · simp at h
    · rename_i r hr
      simp at h
      refine ⟨?_, r, hr, h.symm⟩
      cases hsp : sp <;> cases hsu : isSurrogate c <;> simp [hsp, hsu] at hsur ⊢

/-- decoding (handler `spD`) what was encoded (handler `spE`) gives the text back, provided the
decoder is at least as permissive as the encoder -/
theorem utf8DecFuel_enc (spE spD : Bool) (hmode : spE = true → spD = true) (cs : List Nat) (bs : Bytes)
    (hv : ∀ c ∈ cs, c < 0x110000) (h : utf8Enc spE cs = some bs) (f : Nat) (hf : cs.length ≤ f) :
    utf8DecFuel spD f bs = some cs := by
  induction cs generalizing bs f with
  | nil => simp [utf8Enc] at h; subst h; cases f <;> simp [utf8DecFuel]
  | cons c cs ih =>
    obtain ⟨hs0, r, hr, rfl⟩ := utf8Enc_cons_some spE c cs bs h
    obtain ⟨f', rfl⟩ : ∃ f', f = f' + 1 := ⟨f - 1, by simp at hf; omega⟩
    have hc : c < 0x110000 := hv c (by simp)
    have hs : isSurrogate c = false ∨ spD = true := by
      rcases hs0 with h0 | h0
      · exact Or.inl h0
      · exact Or.inr (hmode h0)
    have hdec := utf8DecCp_encCp spD c r hc hs
    obtain ⟨b, bs', hb⟩ : ∃ b bs', utf8EncCp c ++ r = b :: bs' := by
      cases hh : utf8EncCp c with
      | nil => exact absurd hh (utf8EncCp_ne_nil c)
      | cons b t => exact ⟨b, t ++ r, rfl⟩
    rw [hb] at hdec ⊢
    have ih' := ih r (fun c' hc' => hv c' (by simp [hc'])) hr f' (by simp at hf; omega)
    simp [utf8DecFuel, hdec, ih']

theorem utf8Enc_length_ge (sp : Bool) (cs : List Nat) (bs : Bytes) (h : utf8Enc sp cs = some bs) :
    cs.length ≤ bs.length := by
  induction cs generalizing bs with
  | nil => simp
  | cons c cs ih =>
    simp only [utf8Enc] at h
    split at h
    · simp at h
    · split at h
      · simp at h
      · rename_i r hr
        simp at h; subst h
        have := ih r hr
        have := utf8EncCp_length_pos c
        simp; omega

theorem utf8Dec_enc (spE spD : Bool) (hmode : spE = true → spD = true) (cs : List Nat) (bs : Bytes)
    (hv : ∀ c ∈ cs, c < 0x110000) (h : utf8Enc spE cs = some bs) : utf8Dec spD bs = some cs :=
  utf8DecFuel_enc spE spD hmode cs bs hv h _ (utf8Enc_length_ge spE cs bs h)

/-- under `surrogatepass` every Python string encodes -/
theorem utf8Enc_total_sp (cs : List Nat) : ∃ bs, utf8Enc true cs = some bs := by
  induction cs with
  | nil => exact ⟨[], rfl⟩
  | cons c cs ih =>
    obtain ⟨r, hr⟩ := ih
    exact ⟨utf8EncCp c ++ r, by simp [utf8Enc, hr]⟩

end Rpyc
