import RpycModel.Base.Bytes
/-
L0 — the Python values brine knows, plus `other` for every object it does not (lists, dicts,
instances of subclasses of the brine types, functions, ...).  A float is its 64 IEEE bits, so
signed zeros, infinities and NaN payloads are distinct values here.  A frozenset carries the
iteration order the encoder saw (the model cannot know CPython's hash order; the harness supplies it).
-/
namespace Rpyc

inductive Val where
  | none | notImpl | ellipsis
  | bool (b : Bool)
  | int (i : Int)
  | float (bits : Nat)
  | complex (re im : Nat)
  | bytes (b : Bytes)
  | str (cps : List Nat)
  | tuple (xs : List Val)
  | fset (xs : List Val)
  | slice (a b c : Val)
  | other (k : Nat)
  deriving Repr, Inhabited

mutual
/-- `brine.dumpable`: exact-type membership, recursion through tuple / frozenset / slice -/
def dumpable : Val → Bool
  | .other _ => false
  | .tuple xs => dumpableL xs
  | .fset xs => dumpableL xs
  | .slice a b c => dumpable a && dumpable b && dumpable c
  | _ => true
def dumpableL : List Val → Bool
  | [] => true
  | x :: xs => dumpable x && dumpableL xs
end

mutual
/-- representation invariants of genuine Python values: float bits fit 64 bits, byte strings hold
bytes, code points are below 0x110000 -/
def Val.wf : Val → Bool
  | .float b => b < 2 ^ 64
  | .complex r i => r < 2 ^ 64 && i < 2 ^ 64
  | .bytes b => b.all (· < 256)
  | .str s => s.all (· < 0x110000)
  | .tuple xs => Val.wfL xs
  | .fset xs => Val.wfL xs
  | .slice a b c => a.wf && b.wf && c.wf
  | _ => true
def Val.wfL : List Val → Bool
  | [] => true
  | x :: xs => x.wf && Val.wfL xs
end

mutual
def Val.beq : Val → Val → Bool
  | .none, .none | .notImpl, .notImpl | .ellipsis, .ellipsis => true
  | .bool a, .bool b => a == b
  | .int a, .int b => a == b
  | .float a, .float b => a == b
  | .complex a b, .complex c d => a == c && b == d
  | .bytes a, .bytes b => a == b
  | .str a, .str b => a == b
  | .tuple a, .tuple b => Val.beqL a b
  | .fset a, .fset b => Val.beqL a b
  | .slice a b c, .slice d e f => Val.beq a d && Val.beq b e && Val.beq c f
  | .other a, .other b => a == b
  | _, _ => false
def Val.beqL : List Val → List Val → Bool
  | [], [] => true
  | x :: xs, y :: ys => Val.beq x y && Val.beqL xs ys
  | _, _ => false
end

end Rpyc
