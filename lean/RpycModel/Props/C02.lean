import RpycModel.Proto.DataModel
/-
C02 — operating on a proxy is indistinguishable from operating on the target.

Only the property theorems and their non-vacuity examples live here (namespace Rpyc.Props.C02).  The model is
lean/RpycModel/Proto/Forward.lean, helper lemmas are in Proto/ForwardLemmas.lean.

The theorems are about FORWARDING: for every object semantics (`ObjSem`, universally quantified), the request a proxy
operation issues makes the peer's handler apply to the target exactly what the operation is when applied to the
target directly.  That an operator on an object is a call of the special method of its type is CPython's data model;
it is not modelled and is tied to the code by the twin runs of the correspondence only.  Marshalling of operands and
results is C01's `marshal_identity` (values by value, objects of the target's side by reference).
-/
namespace Rpyc.Props.C02
open Rpyc Rpyc.Calls Rpyc.Forward

/-! ### the model's request table is the source's (generated: observed by running the real methods of netref.py / helpers.py against a recording connection) -/

/-- `BaseNetref` has no `__getattr__`: Python would call it after every `__getattribute__` that raised AttributeError, and
a forwarding `__getattr__` evaluates a failing attribute read on the target a second time.  Observed as well: ONE
`getattr(proxy, name)` through the interpreter, on a connection that answers AttributeError, costs exactly one
`HANDLE_GETATTR` request - a retry anywhere would show as a second row -/
theorem no_second_attribute_request :
    Gen.Netref.baseMethods.contains "__getattr__" = false
    ∧ Gen.Netref.failingReadRequests = ["syncreq HANDLE_GETATTR self $1"] := by decide

/-- every request a `BaseNetref` method issues: handler and argument pattern (`$k` = k-th argument) -/
theorem base_requests_are_modelled :
    Gen.Netref.baseRequests =
      [("__del__", "asyncreq", "self", "HANDLE_DEL", ["self.____refcount__"]),
       ("__getattribute__", "syncreq", "self", "HANDLE_GETATTR", ["$1"]),
       ("__delattr__", "syncreq", "self", "HANDLE_DELATTR", ["$1"]),
       ("__setattr__", "syncreq", "self", "HANDLE_SETATTR", ["$1", "$2"]),
       ("__dir__", "syncreq", "self", "HANDLE_DIR", []),
       ("__hash__", "syncreq", "self", "HANDLE_HASH", []),
       ("__cmp__", "syncreq", "self", "HANDLE_CMP", ["$1", "'__cmp__'"]),
       ("__eq__", "syncreq", "self", "HANDLE_CMP", ["$1", "'__eq__'"]),
       ("__ne__", "syncreq", "self", "HANDLE_CMP", ["$1", "'__ne__'"]),
       ("__lt__", "syncreq", "self", "HANDLE_CMP", ["$1", "'__lt__'"]),
       ("__gt__", "syncreq", "self", "HANDLE_CMP", ["$1", "'__gt__'"]),
       ("__le__", "syncreq", "self", "HANDLE_CMP", ["$1", "'__le__'"]),
       ("__ge__", "syncreq", "self", "HANDLE_CMP", ["$1", "'__ge__'"]),
       ("__repr__", "syncreq", "self", "HANDLE_REPR", []),
       ("__str__", "syncreq", "self", "HANDLE_STR", []),
       ("__exit__", "syncreq", "self", "HANDLE_CTXEXIT", ["$1"]),
       ("__reduce_ex__", "syncreq", "self", "HANDLE_PICKLE", ["$1"]),
       ("__instancecheck__", "syncreq", "self", "HANDLE_INSTANCECHECK", ["$1.____id_pack__"])] := by
  decide

/-- the four shapes of `_make_method`, and the request of `helpers.buffiter`.  In a signature `self` stands for a leading
NAMED parameter that receives the proxy (whatever it is called): the two shapes that forward `**kwargs` have none, so no
keyword name is kept from the target -/
theorem made_methods_are_modelled :
    Gen.Netref.makeMethodShapes =
      [("__call__", "(*,**)", "syncreq", "self", "HANDLE_CALL", ["$*", "tuple(items($**))"]),
       ("<slicers>", "(self,$1,$2,*)", "syncreq", "self", "HANDLE_OLDSLICING", ["slicers[$name]", "$name", "$1", "$2", "$*"]),
       ("__array__", "(self)", "syncreq", "self", "HANDLE_PICKLE", ["-1"]),
       ("<other>", "(*,**)", "syncreq", "self", "HANDLE_CALLATTR", ["$name", "$*", "tuple(items($**))"])]
    ∧ Gen.Netref.buffiterRequest = ("syncreq", "iter($1)", "HANDLE_BUFFITER", ["$2"]) := by
  exact ⟨rfl, rfl⟩

/-- a made `__call__` / method forwards EVERY keyword argument: no candidate name - every parameter name of the made
functions' own signatures (a keyword is captured exactly when it names a parameter), plus `self`, `_self`, `args`,
`kwargs`, `name`, `cls`, ... - is taken by the made function for itself (observed by calling the real made methods
with each of them) — the model's `wireOf (.call args kwargs)` / `(.method n args kwargs)` forwards all of `kwargs` -/
theorem made_methods_reserve_no_keyword : Gen.Netref.reservedKeywords = [] := by decide

/-- the handler ids `wireOf` uses are the `HANDLE_*` constants of those names, and the handler table routes each of
them to the `_handle_*` method `serve` implements, with the arity the model assumes (defaults: `kwargs=()`,
`op='__cmp__'`) -/
theorem handlers_are_modelled :
    (Gen.Netref.handleIds.lookup "HANDLE_GETATTR" = some Gen.Netref.handleGetattr
      ∧ Gen.Netref.handleIds.lookup "HANDLE_SETATTR" = some Gen.Netref.handleSetattr
      ∧ Gen.Netref.handleIds.lookup "HANDLE_DELATTR" = some Gen.Netref.handleDelattr
      ∧ Gen.Netref.handleIds.lookup "HANDLE_CALL" = some Gen.Netref.handleCall
      ∧ Gen.Netref.handleIds.lookup "HANDLE_CALLATTR" = some Gen.Netref.handleCallattr
      ∧ Gen.Netref.handleIds.lookup "HANDLE_CMP" = some Gen.Netref.handleCmp
      ∧ Gen.Netref.handleIds.lookup "HANDLE_BUFFITER" = some Gen.Netref.handleBuffiter
      ∧ Gen.Netref.handleIds.lookup "HANDLE_CTXEXIT" = some Gen.Netref.handleCtxexit)
    ∧ Gen.Netref.handlerTable.map (·.2) =
        ["_handle_ping", "_handle_close", "_handle_getroot", "_handle_getattr", "_handle_delattr", "_handle_setattr",
         "_handle_call", "_handle_callattr", "_handle_repr", "_handle_str", "_handle_cmp", "_handle_hash",
         "_handle_dir", "_handle_pickle", "_handle_del", "_handle_inspect", "_handle_buffiter",
         "_handle_oldslicing", "_handle_ctxexit", "_handle_instancecheck"]
    ∧ (Gen.Netref.handlerTable.map (·.1)).Nodup
    ∧ Gen.Netref.handlerArity.lookup Gen.Netref.handleGetattr = some (2, 2)
    ∧ Gen.Netref.handlerArity.lookup Gen.Netref.handleSetattr = some (3, 3)
    ∧ Gen.Netref.handlerArity.lookup Gen.Netref.handleDelattr = some (2, 2)
    ∧ Gen.Netref.handlerArity.lookup Gen.Netref.handleCall = some (2, 3)
    ∧ Gen.Netref.handlerArity.lookup Gen.Netref.handleCallattr = some (3, 4)
    ∧ Gen.Netref.handlerArity.lookup Gen.Netref.handleCmp = some (2, 3)
    ∧ Gen.Netref.handlerArity.lookup Gen.Netref.handleBuffiter = some (2, 2)
    ∧ Gen.Netref.handlerArity.lookup Gen.Netref.handleCtxexit = some (2, 2) := by
  decide

/-- does the model treat one row `(name, get, set, del)` of the observed table the way the code was seen to -/
def localRowAgrees (row : String × String × String × String) : Bool :=
  let n := nameOf row.1
  (match row.2.1 with
   | "local" => attrClass n == .localHeld
   | "local-unless-class-unknown" => attrClass n == .klass
   | "raises" => attrClass n == .deleted
   | "remote" => attrClass n == .doc
   | "local-then-remote" => attrClass n == .localMissing
   | _ => false)
  && (match row.2.1, wireOf (.getattr n) with
   | "local", .local_ .objectAttr => true
   | "local-unless-class-unknown", .local_ .classDescriptor => true
   | "raises", .local_ .attributeError => true
   | "remote", .request h [.imm (.str m)] => h == Gen.Netref.handleGetattr && m == n
   | "local-then-remote", .request h [.imm (.str m)] => h == Gen.Netref.handleGetattr && m == n
   | _, _ => false)
  && row.2.2.1 == "local" && row.2.2.2 == "local" && Forward.localAttrs.contains n

/-- **names the netref object keeps to itself, as observed.**  `Gen.Netref.localAttrBehaviour` lists, for EVERY name of
`LOCAL_ATTRS`, what reading / writing / deleting it on a real proxy did against a recording connection; the model agrees
row by row: read locally (the netref object holds the name), `__class__` by the class descriptor, `DELETED_ATTRS` raise,
`__doc__` always forwarded, and the names the netref object does NOT hold (`__dict__`, `__methods__`, `__metaclass__`,
`__getattr__`) forwarded as ONE `HANDLE_GETATTR` of that name - the try-local-then-remote branch; writing and deleting any
of them never leaves the proxy.  (`__class__` of a class that cannot be imported on the proxy's side is asked remotely:
`class_query`.) -/
theorem local_names_behave_as_observed :
    Gen.Netref.localAttrBehaviour.all localRowAgrees = true
    ∧ Gen.Netref.localAttrBehaviour.map (·.1) = Gen.Netref.localAttrs
    ∧ (∀ n v, Forward.localAttrs.contains n = true → wireOf (.setattr n v) = .local_ .objectAttr)
    ∧ (∀ n, Forward.localAttrs.contains n = true → wireOf (.delattr n) = .local_ .objectAttr) := by
  refine ⟨by decide, by decide, ?_, ?_⟩
  · intro n v h; simp only [wireOf, h]; rfl
  · intro n h; simp only [wireOf, h]; rfl

/-! ### forwarding -/

/-- **forwarding is faithful.**  For every object semantics, heap, target and operation that is forwarded: if the
policy lets the operation's attribute name through unchanged and keyword names are distinct, the handler applies to
the target exactly the primitive steps of the operation applied directly — same result or exception, same heap. -/
theorem forwarding_faithful {H : Type} (S : ObjSem H) (pol : Policy) (allowPickle : Bool) (target : PyVal)
    (op : ProxyOp) (hpol : ∀ perm obj n, (perm, n) ∈ policyNames op → pol perm obj n = .ok n) (hkw : kwNodup op)
    (hin : inScope op)
    (handler : Nat) (args : List PyVal) (hw : wireOf op = .request handler args) :
    serve S pol allowPickle handler (target :: args) = direct S allowPickle target op := by
  cases op with
  | getattr n =>
    have hp := hpol .get target n (by simp [policyNames])
    simp only [wireOf] at hw
    cases hc : attrClass n <;> simp [hc] at hw <;> obtain ⟨rfl, rfl⟩ := hw <;>
      simp [serve, direct, hGetattr_ok S pol target n hp]
  | setattr n v =>
    have hp := hpol .set target n (by simp [policyNames])
    simp only [wireOf] at hw
    split at hw
    · simp at hw
    · simp only [Wire.request.injEq] at hw
      obtain ⟨rfl, rfl⟩ := hw
      funext x
      simp [serve, direct, accessAttr, nameOfVal, hp]
  | delattr n =>
    have hp := hpol .del target n (by simp [policyNames])
    simp only [wireOf] at hw
    split at hw
    · simp at hw
    · simp only [Wire.request.injEq] at hw
      obtain ⟨rfl, rfl⟩ := hw
      funext x
      simp [serve, direct, accessAttr, nameOfVal, hp]
  | dir => simp only [wireOf, Wire.request.injEq] at hw; obtain ⟨rfl, rfl⟩ := hw; simp [serve, direct]
  | hash => simp only [wireOf, Wire.request.injEq] at hw; obtain ⟨rfl, rfl⟩ := hw; simp [serve, direct]
  | repr => simp only [wireOf, Wire.request.injEq] at hw; obtain ⟨rfl, rfl⟩ := hw; simp [serve, direct]
  | str => simp only [wireOf, Wire.request.injEq] at hw; obtain ⟨rfl, rfl⟩ := hw; simp [serve, direct]
  | cmp o other =>
    simp only [wireOf, Wire.request.injEq] at hw
    obtain ⟨rfl, rfl⟩ := hw
    have hp : ∀ t, pol .get t (nameOf o.method) = .ok (nameOf o.method) :=
      fun t => hpol .get t _ (by simp [policyNames])
    simp [serve, direct, strVal, fun t => hGetattr_ok S pol t _ (hp t), andThen_apply]
  | ctxExit exc typ tb =>
    simp only [wireOf, Wire.request.injEq] at hw
    obtain ⟨rfl, rfl⟩ := hw
    obtain ⟨⟨v, rfl, hv⟩, rfl, rfl⟩ := hin
    have hp : pol .get target (nameOf "__exit__") = .ok (nameOf "__exit__") := hpol .get target _ (by simp [policyNames])
    have hg := hGetattr_ok S pol target _ hp
    simp only [serve, lookup_ctxexit, hCtxexit, hv, if_true, exitPlain, direct, strVal, hg, andThen_apply]
    simp
  | reduceEx proto =>
    simp only [wireOf, Wire.request.injEq] at hw; obtain ⟨rfl, rfl⟩ := hw; simp [serve, direct]
  | instancecheck other =>
    simp only [wireOf, Wire.request.injEq] at hw; obtain ⟨rfl, rfl⟩ := hw; simp [serve, direct]
  | call a kw =>
    simp only [wireOf, Wire.request.injEq] at hw
    obtain ⟨rfl, rfl⟩ := hw
    simp [serve, direct, hCall_ok S target a kw hkw]
  | method n a kw =>
    simp only [wireOf, Wire.request.injEq] at hw
    obtain ⟨rfl, rfl⟩ := hw
    have hp := hpol .get target n (by simp [policyNames])
    simp [serve, direct, hGetattr_ok S pol target n hp, andThen_apply, fun f => hCall_ok S f a kw hkw]
  | array =>
    simp only [wireOf, Wire.request.injEq] at hw; obtain ⟨rfl, rfl⟩ := hw; simp [serve, direct]
  | buffiterFetch c =>
    simp only [wireOf, Wire.request.injEq] at hw; obtain ⟨rfl, rfl⟩ := hw; simp [serve, direct]

/-- **a denied attribute operation touches nothing.**  If the policy refuses the name, the handler returns the
policy's exception and the target's heap is unchanged (no accessor, no call ran). -/
theorem denied_no_effect {H : Type} (S : ObjSem H) (pol : Policy) (allowPickle : Bool) (target : PyVal)
    (n : Name) (e : Exc) (x : H) :
    (pol .get target n = .error e →
      serve S pol allowPickle Gen.Netref.handleGetattr [target, .imm (.str n)] x = (.error e, x)
      ∧ ∀ a kw, serve S pol allowPickle Gen.Netref.handleCallattr [target, .imm (.str n), a, kw] x = (.error e, x))
    ∧ (pol .set target n = .error e →
      ∀ v, serve S pol allowPickle Gen.Netref.handleSetattr [target, .imm (.str n), v] x = (.error e, x))
    ∧ (pol .del target n = .error e →
      serve S pol allowPickle Gen.Netref.handleDelattr [target, .imm (.str n)] x = (.error e, x)) := by
  refine ⟨fun h => ⟨?_, fun a kw => ?_⟩, fun h v => ?_, fun h => ?_⟩
  · simp [serve, hGetattr, accessAttr_denied pol .get target n e _ h]
  · simp [serve, andThen, hGetattr, accessAttr_denied pol .get target n e _ h]
  · simp [serve, accessAttr_denied pol .set target n e _ h]
  · simp [serve, accessAttr_denied pol .del target n e _ h]

/-- **any finite sequence of operations.**  If every operation of the sequence is permitted (its name passes the
policy unchanged; distinct keyword names), the results the proxy user sees and the final heap of the target are those
of the same sequence applied to the target itself. -/
theorem sequence_equiv {H : Type} (S : ObjSem H) (pol : Policy) (allowPickle : Bool) (target : PyVal) :
    ∀ (ops : List ProxyOp) (h : H),
      (∀ op ∈ ops, (∀ perm obj n, (perm, n) ∈ policyNames op → pol perm obj n = .ok n) ∧ kwNodup op ∧ inScope op
        ∧ isForwarded op) →
      runProxy S pol allowPickle target ops h = runDirect S allowPickle target ops h
  | [], _, _ => rfl
  | op :: ops, h, hall => by
    obtain ⟨hpol, hkw, hin, handler, args, hw⟩ := hall op (by simp)
    have ih := fun h' => sequence_equiv S pol allowPickle target ops h' (fun o ho => hall o (by simp [ho]))
    simp only [runProxy, runDirect, throughProxy, hw,
      forwarding_faithful S pol allowPickle target op hpol hkw hin handler args hw, ih]

/-! ### the interpreter's own algorithms over proxies: an independent data-model layer (Proto/DataModel.lean) -/

/-- a made special method of a proxy IS the target type's method: for every object semantics in which special methods
are looked up on the type (`SpecialBound`) and a policy that passes the name -/
theorem proxy_method_is_type_method {H : Type} (S : ObjSem H) (pol : Policy) (ap defines : Bool) (x : PyVal) (name : Name)
    (hpol : ∀ obj, pol .get obj name = .ok name) (hb : SpecialBound S x name) :
    proxyMeth S pol ap defines x name = directMeth S defines x name := by
  unfold proxyMeth directMeth
  cases defines
  · rfl
  · simp only [if_true, Option.some.injEq]
    funext o
    have := forwarding_faithful S pol ap x (.method name [o] []) (fun perm obj n hm => by
      simp [policyNames] at hm; obtain ⟨rfl, rfl⟩ := hm; exact hpol obj) (by simp [kwNodup]) trivial _ _ rfl
    simp only [wireOf] at this ⊢
    rw [this]
    simpa [direct] using hb o

/-- a comparison method of a proxy IS the target type's comparison method (HANDLE_CMP looks it up on the type itself) -/
theorem proxy_cmp_is_type_method {H : Type} (S : ObjSem H) (pol : Policy) (ap : Bool) (x : PyVal) (op : CmpOp)
    (hpol : ∀ obj, pol .get obj (nameOf op.method) = .ok (nameOf op.method)) :
    proxyCmp S pol ap x op = directMeth S true x (nameOf op.method) := by
  unfold proxyCmp directMeth
  simp only [if_true, Option.some.injEq]
  funext o
  have := forwarding_faithful S pol ap x (.cmp op o) (fun perm obj n hm => by
    simp [policyNames] at hm; obtain ⟨rfl, rfl⟩ := hm; exact hpol obj) trivial trivial _ _ rfl
  simp only [wireOf] at this ⊢
  rw [this]
  simp [direct]

/-- **a binary operator between proxies (or a proxy and a value) is the operator between the targets**: the
interpreter's dispatch — left method, `NotImplemented` / absence, reflected method of the right operand, TypeError —
runs on the same methods, so a `NotImplemented` answered by the target reaches the caller's interpreter unchanged and
the reflected attempt is made exactly as it would be locally -/
theorem binary_operator_through_proxies {H : Type} (S : ObjSem H) (pol : Policy) (ap dl dr : Bool) (a b : PyVal)
    (name rname : Name) (hpl : ∀ obj, pol .get obj name = .ok name) (hpr : ∀ obj, pol .get obj rname = .ok rname)
    (hbl : SpecialBound S a name) (hbr : SpecialBound S b rname) (h : H) :
    binaryOp (proxyMeth S pol ap dl a name) (proxyMeth S pol ap dr b rname) a b h
      = binaryOp (directMeth S dl a name) (directMeth S dr b rname) a b h := by
  rw [proxy_method_is_type_method S pol ap dl a name hpl hbl, proxy_method_is_type_method S pol ap dr b rname hpr hbr]

/-- the same with an immutable right operand, whose reflected method is the caller's own (`5 + proxy`, `proxy + 5`) -/
theorem binary_operator_with_value {H : Type} (S : ObjSem H) (pol : Policy) (ap dl : Bool) (a b : PyVal) (name : Name)
    (valueMeth : Meth H) (hpl : ∀ obj, pol .get obj name = .ok name) (hbl : SpecialBound S a name) (h : H) :
    binaryOp (proxyMeth S pol ap dl a name) valueMeth a b h = binaryOp (directMeth S dl a name) valueMeth a b h := by
  rw [proxy_method_is_type_method S pol ap dl a name hpl hbl]

/-- **`==`, `!=`, `<`, `<=`, `>`, `>=` between two proxies are the comparisons between the targets**, including the
case where the left type answers `NotImplemented` and only the right operand's reflected method decides, and the
identity fallback of `==` / `!=` -/
theorem comparison_through_proxies {H : Type} (S : ObjSem H) (pol : Policy) (ap : Bool) (op rop : CmpOp) (a b : PyVal)
    (identical : Bool) (hpl : ∀ obj, pol .get obj (nameOf op.method) = .ok (nameOf op.method))
    (hpr : ∀ obj, pol .get obj (nameOf rop.method) = .ok (nameOf rop.method)) (h : H) :
    richCompare op (proxyCmp S pol ap a op) (proxyCmp S pol ap b rop) identical a b h
      = richCompare op (directMeth S true a (nameOf op.method)) (directMeth S true b (nameOf rop.method)) identical a b h := by
  rw [proxy_cmp_is_type_method S pol ap a op hpl, proxy_cmp_is_type_method S pol ap b rop hpr]

/-- **`with proxy:` left without an exception is `with target:`** — `__enter__` through the made method, `__exit__`
through HANDLE_CTXEXIT with `None` -/
theorem with_block_through_proxy {H : Type} (S : ObjSem H) (pol : Policy) (ap : Bool) (target : PyVal)
    (hpe : ∀ obj, pol .get obj (nameOf "__enter__") = .ok (nameOf "__enter__"))
    (hpx : ∀ obj, pol .get obj (nameOf "__exit__") = .ok (nameOf "__exit__"))
    (body : PyVal → H → H) (h : H) :
    withBlock (serve S pol ap Gen.Netref.handleCallattr [target, .imm (.str (nameOf "__enter__")), mkTup [], kwTuple []])
        (serve S pol ap Gen.Netref.handleCtxexit [target, pyNone]) body h
      = withBlock (direct S ap target (.method (nameOf "__enter__") [] []))
          (direct S ap target (.ctxExit pyNone pyNone pyNone)) body h := by
  have h1 := forwarding_faithful S pol ap target (.method (nameOf "__enter__") [] []) (fun perm obj n hm => by
    simp [policyNames] at hm; obtain ⟨rfl, rfl⟩ := hm; exact hpe obj) (by simp [kwNodup]) trivial _ _ rfl
  have h2 := forwarding_faithful S pol ap target (.ctxExit pyNone pyNone pyNone) (fun perm obj n hm => by
    simp [policyNames] at hm; obtain ⟨rfl, rfl⟩ := hm; exact hpx obj) trivial
    ⟨⟨.none, rfl, rfl⟩, rfl, rfl⟩ _ _ rfl
  rw [h1, h2]

/-- `proxy.__class__`: answered by the caller's own class of that name when the descriptor resolved it, otherwise ONE
request for the attribute `__class__` (forwarded like any attribute read); `NetrefClass.__get__` names the class for a
proxy of an instance and the class's class for a proxy of a class -/
theorem class_query :
    classQuery true = .local_ .classDescriptor
    ∧ classQuery false = .request Gen.Netref.handleGetattr [.imm (.str (nameOf "__class__"))]
    ∧ (∀ inst, inst ≠ 0 → netrefClassGet inst = .theClass) ∧ netrefClassGet 0 = .theMetaclass := by
  refine ⟨rfl, rfl, fun inst h => by simp [netrefClassGet, h], rfl⟩

/-- `isinstance(other_proxy, class_proxy)` decided at the caller: only a proxy of a CLASS can be asked; a proxy whose
class id is that class is an instance iff it is not the class object itself; any other class id is forwarded to the
peer (HANDLE_INSTANCECHECK) -/
theorem instancecheck_local (c i oc oi : Nat) :
    (i ≠ 0 → instanceCheck c i oc oi = .typeError)
    ∧ (i = 0 → c = oc → instanceCheck c i oc oi = .answer (decide (oi ≠ 0)))
    ∧ (i = 0 → c ≠ oc → instanceCheck c i oc oi = .forwarded) := by
  refine ⟨fun h => by simp [instanceCheck, h], fun h1 h2 => by simp [instanceCheck, h1, h2], fun h1 h2 => by simp [instanceCheck, h1, h2]⟩

/-- **operands and the target reference travel unchanged** (the operand discipline of the property): the argument
tuple of a request — the proxy itself first — whose members are immutable values or objects living on the target's
side that the caller holds proxies of, boxed at the caller, carried by brine and unboxed at the target's side, is the
tuple that was supplied: values equal, each reference the very object (C01's marshalling lemma) -/
theorem request_operands_arrive (s : Side) (tbl : List Nat) (target : PyVal) (args : List PyVal)
    (hg : goodL (target :: args) = true) (hlen : (target :: args).length < 2 ^ 32)
    (hv : validL s tbl (target :: args) = true) :
    ∃ bs, Rpyc.Brine.dump (box s (mkTup (target :: args))) = .ok bs
      ∧ Rpyc.Brine.load bs = .ok (box s (mkTup (target :: args)))
      ∧ unbox s.other tbl (box s (mkTup (target :: args))) = .ok (mkTup (target :: args))
      ∧ itemsOf (mkTup (target :: args)) = .ok (target :: args) := by
  have hgood := mkTup_good _ hg hlen
  obtain ⟨bs, hd, hl⟩ := wire _ (box_ok s _ hgood)
  exact ⟨bs, hd, hl, unbox_box s tbl _ hgood (mkTup_valid s tbl _ hv), itemsOf_mkTup _⟩

/-! ### which operations the three configurations permit -/

/-- classic mode (the switches of a connection established through the live `SlaveService`, generated): EVERY name
passes unchanged for get, set and delete, whatever attributes the object has - the `exposed_` prefix is off, so no
`exposed_` namesake is ever consulted -/
theorem classic_permits_all (has : Name → Bool) (perm : Perm) (name : Name) :
    checkAttr classicConfig has perm name = .ok name := by
  apply checkAttr_plain_noprefix
  · cases perm <;> decide
  · have h : classicConfig.allowAll = true := by decide
    simp [Config.plain, h]
  · have h : classicConfig.allowExposed = false := by decide
    simp [Config.prefixOn, h]

/-- the harness's all-attributes configuration (every name allowed, `exposed_` prefix ON; not a mode of rpyc's): every
name passes unchanged unless the object has an `exposed_` twin of the name but not the name itself, in which case the
twin is used — by design -/
theorem all_attrs_permits (has : Name → Bool) (perm : Perm) (name : Name)
    (h : has name = true ∨ has (allAttrsConfig.exposedPrefix ++ name) = false) :
    checkAttr allAttrsConfig has perm name = .ok name := by
  apply checkAttr_plain _ _ _ _ _ _ h
  · cases perm <;> decide
  · simp [Config.plain, allAttrsConfig]

/-- public-attribute mode: a name that does not start with an underscore, and every name on the safe list, passes
unchanged for get, set and delete -/
theorem public_permits (has : Name → Bool) (perm : Perm) (name : Name)
    (hn : (nameOf "_").isPrefixOf name = false ∨ publicConfig.safeAttrs.contains name = true)
    (h : has name = true ∨ has (publicConfig.exposedPrefix ++ name) = false) :
    checkAttr publicConfig has perm name = .ok name := by
  apply checkAttr_plain _ _ _ _ _ _ h
  · cases perm <;> decide
  · have hs : publicConfig.allowSafe = true := by decide
    have hpb : publicConfig.allowPublic = true := by decide
    rcases hn with hn | hn
    · simp [Config.plain, hn, hpb]
    · have hm : name ∈ publicConfig.safeAttrs := by simpa using hn
      simp [Config.plain, hm, hs]

/-- the default configuration, for an object without `exposed_` twins: reading a name passes iff the name starts with
the exposed prefix or is on the safe list; writing and deleting never pass -/
theorem default_permits (has : Name → Bool) (name : Name)
    (hno : has (defaultConfig.exposedPrefix ++ name) = false) :
    (checkAttr defaultConfig has .get name = .ok name ↔
      (defaultConfig.exposedPrefix.isPrefixOf name = true ∨ defaultConfig.safeAttrs.contains name = true))
    ∧ checkAttr defaultConfig has .set name = .error attributeError
    ∧ checkAttr defaultConfig has .del name = .error attributeError := by
  have hg : defaultConfig.perm .get = true := by decide
  have hsw : defaultConfig.allowAll = false ∧ defaultConfig.allowExposed = true ∧ defaultConfig.allowSafe = true
      ∧ defaultConfig.allowPublic = false := by decide
  refine ⟨?_, checkAttr_noperm _ _ _ _ (by decide), checkAttr_noperm _ _ _ _ (by decide)⟩
  rw [checkAttr_notwin _ _ _ _ hno, hg]
  simp only [Config.plain, hsw.1, hsw.2.1, hsw.2.2.1, hsw.2.2.2]
  cases defaultConfig.exposedPrefix.isPrefixOf name <;> cases defaultConfig.safeAttrs.contains name <;>
    simp [attributeError]

/-- the special methods behind the operations the property lists: arithmetic / bitwise operators (plain, reflected,
in-place), unary operators, comparisons, indexing and slicing (`__getitem__` with a slice), containment, `len`, `iter`,
`next`, `bool`, `hash`, `str`, `repr`, `int`/`float`/`index`, `format`, context manager enter/exit, `__length_hint__` -/
def operatorMethods : List String :=
  ["__add__", "__sub__", "__mul__", "__truediv__", "__floordiv__", "__mod__", "__divmod__", "__pow__",
   "__lshift__", "__rshift__", "__and__", "__or__", "__xor__",
   "__radd__", "__rsub__", "__rmul__", "__rtruediv__", "__rfloordiv__", "__rmod__", "__rdivmod__", "__rpow__",
   "__rlshift__", "__rrshift__", "__rand__", "__ror__", "__rxor__",
   "__iadd__", "__isub__", "__imul__", "__itruediv__", "__ifloordiv__", "__imod__", "__ipow__",
   "__ilshift__", "__irshift__", "__iand__", "__ior__", "__ixor__",
   "__neg__", "__pos__", "__abs__", "__invert__",
   "__eq__", "__ne__", "__lt__", "__le__", "__gt__", "__ge__",
   "__getitem__", "__setitem__", "__delitem__", "__contains__", "__len__", "__iter__", "__next__", "__bool__",
   "__hash__", "__str__", "__repr__", "__int__", "__float__", "__index__", "__format__",
   "__enter__", "__exit__", "__length_hint__"]

/-- ... are all on the default configuration's safe list, so the default configuration permits every one of those
operations on any object (only `__matmul__`, `__reversed__`, `__round__` and friends, added to Python after the list
was written, and every ordinary method or attribute name are not) -/
theorem default_permits_operators :
    operatorMethods.all (fun m => Gen.Netref.safeAttrs.contains m) = true
    ∧ ["__matmul__", "__rmatmul__", "__imatmul__", "__reversed__", "__round__", "__trunc__", "__floor__", "__ceil__",
       "__dir__", "__class__", "append", "__dict__"].all (fun m => !Gen.Netref.safeAttrs.contains m) = true := by
  decide

/-! ### buffered iteration -/

/-- **`buffiter` yields exactly what plain iteration yields**, for every finite iterable, every `chunk ≥ 1`,
`max_chunk ≥ 1` and integer `factor ≥ 1` -/
theorem buffiter_all (chunk maxChunk factor : Int) (hc : 1 ≤ chunk) (hm : 1 ≤ maxChunk) (hf : 1 ≤ factor)
    (items : List PyVal) :
    buffiter chunk maxChunk factor ⟨items, none⟩ = .ok (plainIter ⟨items, none⟩) := by
  have h1 : ¬ factor < 1 := by omega
  have h2 : ¬ (chunk < 1 ∨ maxChunk < 1) := by omega
  simp only [buffiter, h1, h2, if_false, plainIter]
  rw [buffLoop_all maxChunk.toNat factor.toNat (by omega) (by omega) _ items chunk.toNat [] (by omega) (by omega)]
  simp

/-- for an iterator that raises: the same exception ends the buffered iteration, what was yielded before it is a prefix
of what plain iteration yields, and fewer than `max(chunk, max_chunk)` items are missing: exactly those of the chunk in
which the exception struck (the request of that chunk fails as a whole) -/
theorem buffiter_raising (chunk maxChunk factor : Int) (hc : 1 ≤ chunk) (hm : 1 ≤ maxChunk) (hf : 1 ≤ factor)
    (items : List PyVal) (e : Exc) :
    ∃ k, buffiter chunk maxChunk factor ⟨items, some e⟩ = .ok (items.take k, some e)
      ∧ (plainIter ⟨items, some e⟩).2 = some e
      ∧ k ≤ items.length ∧ items.length - k < max chunk.toNat maxChunk.toNat := by
  have h1 : ¬ factor < 1 := by omega
  have h2 : ¬ (chunk < 1 ∨ maxChunk < 1) := by omega
  obtain ⟨k, hk, hk1, hk2⟩ := buffLoop_raising maxChunk.toNat factor.toNat (by omega) (by omega) e (items.length + 2) items
    chunk.toNat [] (by omega) (by omega)
  exact ⟨k, by simp [buffiter, h1, h2, hk], rfl, hk1, hk2⟩

/-- every other parameter choice is refused with `ValueError` -/
theorem buffiter_rejects (chunk maxChunk factor : Int) (h : factor < 1 ∨ chunk < 1 ∨ maxChunk < 1) (it : Iter) :
    buffiter chunk maxChunk factor it = .error valueError := by
  unfold buffiter
  by_cases hf : factor < 1
  · simp [hf]
  · have : chunk < 1 ∨ maxChunk < 1 := by omega
    simp [hf, this]

/-- the guard is needed: without it `chunk = 0` yields nothing of a non-empty list, and `max_chunk = 0` truncates
after the first chunk (the behaviour of the code before its repair) -/
theorem unguarded_truncates :
    buffiterUnguarded 0 1000 2 ⟨[pyNone], none⟩ = .ok ([], none)
    ∧ buffiterUnguarded 1 0 2 ⟨[pyNone, pyNone, pyNone], none⟩ = .ok ([pyNone], none) := by
  constructor <;> rfl

/-! ### non-vacuity -/

/-- a policy that lets everything through, and a toy object semantics in which every primitive fails: the theorems'
hypotheses are satisfiable and `serve` really reaches `apply` -/
example : ∃ (S : ObjSem Nat), serve S (fun _ _ n => .ok n) false Gen.Netref.handleCallattr
    [.ref .B 0, .imm (.str (nameOf "append")), mkTup [.imm (.int 1)], kwTuple []] 0
    = (.ok (.imm (.int 7)), 2) :=
  ⟨⟨fun p h => match p with
      | .getattr _ _ => (.ok (.ref .B 1), h + 1)
      | .call _ _ _ => (.ok (.imm (.int 7)), h + 1)
      | _ => (.error typeErrorExc, h)⟩, by
    rw [forwarding_faithful _ _ false (.ref .B 0) (.method (nameOf "append") [.imm (.int 1)] [])
      (fun _ _ _ _ => rfl) (by simp [kwNodup]) trivial _ _ rfl]
    rfl⟩

example : buffiter 3 4 2 ⟨[pyNone, pyNone, pyNone, pyNone, pyNone, pyNone, pyNone, pyNone], none⟩
    = .ok ([pyNone, pyNone, pyNone, pyNone, pyNone, pyNone, pyNone, pyNone], none) :=
  buffiter_all 3 4 2 (by decide) (by decide) (by decide) _

example : checkAttr defaultConfig (fun _ => false) .get (nameOf "__add__") = .ok (nameOf "__add__")
    ∧ checkAttr defaultConfig (fun _ => false) .get (nameOf "append") = .error attributeError
    ∧ checkAttr publicConfig (fun _ => false) .set (nameOf "value") = .ok (nameOf "value")
    ∧ checkAttr classicConfig (fun _ => false) .del (nameOf "_private") = .ok (nameOf "_private") :=
  ⟨rfl, rfl, rfl, rfl⟩

end Rpyc.Props.C02
