import RpycModel.Files.Lemmas
import RpycModel.Gen.Files
/-
C20 — uploading a file or directory tree to the peer, and downloading one from it, reproduces every file
byte for byte under the same relative names — for every file size relative to the chunk size, any chunk
size ≥ 1, nested and empty directories — and a name filter excludes exactly the entries it rejects.

Only property theorems and non-vacuity examples (namespace Rpyc.Props.C20).  Model:
RpycModel/Files/Model.lean (`download…` is a second copy of the `upload…` recursion); lemmas (and the
definitional `invalid_top_level`, `top_level_not_filtered`):
RpycModel/Files/Lemmas.lean.  No bound on file sizes, tree depth or width.
-/
namespace Rpyc.Props.C20
open Rpyc Rpyc.Files

/-- **The chunk loop copies every file exactly**, for every content and every chunk size ≥ 1: empty
files, one byte, exact multiples of the chunk size, one more or one less. -/
theorem copyLoop_id (chunk : Nat) (hc : 1 ≤ chunk) (src : Bytes) : copyFile chunk src = src := by
  unfold copyFile
  rw [copyLoop_spec chunk hc _ _ _ (Nat.lt_succ_self _)]
  simp

/-- **Transfer = prune.** For every tree, filter, chunk size ≥ 1: `upload` creates exactly the source
tree without the entries whose name the filter rejects (with all below them) and without non-files,
every remaining name and every byte unchanged; when nothing is left of the top-level path (it is
neither a directory nor a regular file) it raises `ValueError` unless `ignore_invalid`. -/
theorem transfer_eq_prune (chunk : Nat) (hc : 1 ≤ chunk) (f : Filter) (ignoreInvalid : Bool) (t : Tree) :
    upload chunk f ignoreInvalid t = outcome ignoreInvalid (prune f t) :=
  upload_eq chunk hc f ignoreInvalid t

/-- **`download` does what `upload` does** — in the model: `download…` is the same recursion written down a second
time (the model has no local / remote state), so this is an unfolding; that the real `download*` (remote
`isdir`/`isfile`/`listdir`/`read`, local `makedirs`/`write`) behaves like the model is the correspondence's business. -/
theorem download_is_upload (chunk : Nat) (f : Filter) (ignoreInvalid : Bool) (t : Tree) :
    download chunk f ignoreInvalid t = upload chunk f ignoreInvalid t :=
  download_eq_upload chunk f ignoreInvalid t

/-- **Path by path**: whatever `upload` leaves at the destination consists of exactly those files — same
relative path, same bytes — and directories (empty ones included) of the source all of whose path
components pass the filter; nothing else, nothing twice, in the same order. -/
theorem transfer_items (chunk : Nat) (hc : 1 ≤ chunk) (f : Filter) (ignoreInvalid : Bool) (t : Tree)
    (r : Option Tree) (h : upload chunk f ignoreInvalid t = .ok r) :
    itemsOpt [] r = (items [] t).filter (keeps f 0) := by
  rw [transfer_eq_prune chunk hc] at h
  have hp := prune_items f t []
  cases hpr : prune f t with
  | some t' =>
    rw [hpr] at h hp
    simp only [outcome] at h
    injection h with h; subst h
    exact hp
  | none =>
    rw [hpr] at h hp
    simp only [outcome] at h
    split at h
    · injection h with h; subst h; exact hp
    · cases h

/-- **Without a filter a tree of files and directories arrives identical** — nested and empty directories
included. -/
theorem transfer_no_filter_identity (chunk : Nat) (hc : 1 ≤ chunk) (ignoreInvalid : Bool) (t : Tree)
    (hr : regular t = true) : upload chunk none ignoreInvalid t = .ok (some t) := by
  rw [transfer_eq_prune chunk hc, prune_none_regular t hr]
  rfl

/-! ### histories: a transfer onto a name that already exists -/

/-- onto an absent destination the history-aware transfer is the plain one (so everything above applies to
the first step of a history) -/
theorem transfer_onto_absent (chunk : Nat) (hc : 1 ≤ chunk) (f : Filter) (ii : Bool) (t : Tree)
    (hd : distinctNames t = true) : uploadOver chunk f ii t none = upload chunk f ii t := by
  rw [uploadOver_absent chunk hc f ii t hd, transfer_eq_prune chunk hc]

/-- **The last transfer wins.** Transferring `t` onto a destination of the shape `t` transfers to (same names,
files where files are, directories where directories are; any contents) leaves exactly what `t` transfers to:
every file byte for byte from the last source. -/
theorem last_transfer_wins (chunk : Nat) (hc : 1 ≤ chunk) (f : Filter) (ii : Bool) (t d pt : Tree)
    (hd : distinctNames t = true) (hp : prune f t = some pt) (hs : sameShape pt d = true) :
    uploadOver chunk f ii t (some d) = .ok (some pt) :=
  uploadOver_sameShape chunk hc f ii t d pt hd hp hs

/-- in particular for a two-step history to one name: first `a`, then `b` whose transferred shape is that of
`a`'s (a new version of the same tree, or a roll-back to an old one): the destination is `b`'s tree -/
theorem second_transfer_replaces_first (chunk : Nat) (hc : 1 ≤ chunk) (f : Filter) (ii : Bool) (a b pa pb : Tree)
    (hda : distinctNames a = true) (hdb : distinctNames b = true)
    (hpa : prune f a = some pa) (hpb : prune f b = some pb) (hs : sameShape pb pa = true) :
    uploadOver chunk f ii a none = .ok (some pa)
      ∧ uploadOver chunk f ii b (some pa) = .ok (some pb) := by
  refine ⟨?_, last_transfer_wins chunk hc f ii b pa pb hdb hpb hs⟩
  rw [uploadOver_absent chunk hc f ii a hda, hpa]; rfl

/-- **Re-running a transfer is harmless**: transferring the same source a second time onto what the first transfer
left changes nothing (the destination is again exactly the pruned source). -/
theorem transfer_idempotent (chunk : Nat) (hc : 1 ≤ chunk) (f : Filter) (ii : Bool) (t pt : Tree)
    (hd : distinctNames t = true) (hp : prune f t = some pt) :
    uploadOver chunk f ii t none = .ok (some pt) ∧ uploadOver chunk f ii t (some pt) = .ok (some pt) := by
  refine ⟨?_, last_transfer_wins chunk hc f ii t pt pt hd hp (sameShape_refl pt)⟩
  rw [uploadOver_absent chunk hc f ii t hd, hp]; rfl

/-- **Round trip**: what an upload (any filter, any chunk size ≥ 1) created, downloaded again without a filter
(any other chunk size ≥ 1), is that same tree — every name and every byte. -/
theorem upload_then_download (chunk chunk' : Nat) (hc : 1 ≤ chunk) (hc' : 1 ≤ chunk') (f : Filter) (ii ii' : Bool)
    (t pt : Tree) (h : upload chunk f ii t = .ok (some pt)) :
    download chunk' none ii' pt = .ok (some pt) := by
  rw [transfer_eq_prune chunk hc] at h
  have hp : prune f t = some pt := by
    cases hpr : prune f t with
    | some t' => rw [hpr] at h; simpa [outcome] using h
    | none => rw [hpr] at h; simp only [outcome] at h; split at h <;> cases h
  rw [download_is_upload]
  exact transfer_no_filter_identity chunk' hc' ii' pt (prune_regular f t pt hp)

/-- **A transfer onto ANY destination** (absent, a file, a directory with whatever in it): the result is the
source pruned by the filter, laid over what was there — files replace files whatever their size or age,
directories are merged entry by entry, entries only the destination has stay; a regular file where a
directory is needed raises `FileExistsError` (from `makedirs`), a directory where a file is to be written
`IsADirectoryError` (from `open`). -/
theorem transfer_onto_any_destination (chunk : Nat) (hc : 1 ≤ chunk) (f : Filter) (ii : Bool) (t : Tree)
    (dst : Option Tree) : uploadOver chunk f ii t dst = overSpec f ii t dst :=
  uploadOver_eq_overlay chunk hc f ii t dst

/-- the default chunk size of every transfer function, as found in the source, is ≥ 1: transfers that do
not pass `chunk_size` are covered by the theorems above (regenerated from /repo on every run) -/
theorem default_chunk_sizes_copy_exactly :
    ∀ p ∈ Gen.Files.defaultChunks, ∀ src : Bytes, copyFile p.2 src = src := by
  intro p hp src
  have h : Gen.Files.defaultChunks.all (fun p => decide (1 ≤ p.2)) = true := by decide
  rw [List.all_eq_true] at h
  exact copyLoop_id p.2 (by simpa using h p hp) src

/-! ### non-vacuity -/

def rejectSuffix (s : String) : Filter := some (fun n => !(nm s).isSuffixOf n)

/-- nested tree with an empty directory, a rejected file, a rejected directory and a fifo -/
def sample : Tree :=
  .dir (.cons (nm "a.txt") (.file [1, 2, 3]) (.cons (nm "empty") (.dir .nil) (.cons (nm "b.tmp") (.file [9])
    (.cons (nm "sub") (.dir (.cons (nm "c.txt") (.file []) (.cons (nm "fifo") .other (.cons (nm "d.tmp") (.dir (.cons (nm "x") (.file [7]) .nil)) .nil))))
      .nil))))

example : upload 2 (rejectSuffix ".tmp") false sample
    = .ok (some (.dir (.cons (nm "a.txt") (.file [1, 2, 3]) (.cons (nm "empty") (.dir .nil)
        (.cons (nm "sub") (.dir (.cons (nm "c.txt") (.file []) .nil)) .nil))))) := by
  have hp : prune (rejectSuffix ".tmp") sample
      = some (.dir (.cons (nm "a.txt") (.file [1, 2, 3]) (.cons (nm "empty") (.dir .nil)
          (.cons (nm "sub") (.dir (.cons (nm "c.txt") (.file []) .nil)) .nil)))) := by decide +kernel
  rw [transfer_eq_prune 2 (by omega), hp]
  rfl

example : (items [] sample).filter (keeps (rejectSuffix ".tmp") 0)
    = [.dirAt [], .fileAt [nm "a.txt"] [1, 2, 3], .dirAt [nm "empty"], .dirAt [nm "sub"], .fileAt [nm "sub", nm "c.txt"] []] := by
  decide +kernel

example : regular (.dir (.cons (nm "e") (.dir .nil) (.cons (nm "f") (.file [0, 255]) .nil))) = true := by decide

/-- a history: version 1, then version 2 with a same-size file changed, then version 1 again (roll-back) -/
example :
    uploadOver 2 none false (.dir (.cons (nm "f") (.file [9, 9, 9]) (.cons (nm "d") (.dir (.cons (nm "g") (.file [5]) .nil)) .nil)))
        (some (.dir (.cons (nm "f") (.file [1, 2, 3]) (.cons (nm "d") (.dir (.cons (nm "g") (.file [4]) .nil)) .nil))))
      = .ok (some (.dir (.cons (nm "f") (.file [9, 9, 9]) (.cons (nm "d") (.dir (.cons (nm "g") (.file [5]) .nil)) .nil)))) :=
  last_transfer_wins 2 (by omega) none false _ _ _ (by decide) (by decide +kernel) (by decide)

/-- an entry the destination has and the new source has not stays (directories are merged, not mirrored) -/
example :
    uploadOver 2 none false (.dir (.cons (nm "f") (.file [9]) .nil)) (some (.dir (.cons (nm "old") (.file [1]) (.cons (nm "f") (.file [2]) .nil))))
      = .ok (some (.dir (.cons (nm "old") (.file [1]) (.cons (nm "f") (.file [9]) .nil)))) := by
  have h : nm "old" ≠ nm "f" := by decide
  simp [uploadOver, uploadDirOver, passes, Entries.find, Entries.set, copyFile, copyLoop, h]

/-- the round trip and the idempotence on the nested sample (filter `.tmp`, chunk sizes 2 and 5) -/
example : ∃ pt, upload 2 (rejectSuffix ".tmp") false sample = .ok (some pt) ∧ download 5 none false pt = .ok (some pt)
    ∧ uploadOver 2 (rejectSuffix ".tmp") false sample (some pt) = .ok (some pt) := by
  have hp : prune (rejectSuffix ".tmp") sample
      = some (.dir (.cons (nm "a.txt") (.file [1, 2, 3]) (.cons (nm "empty") (.dir .nil)
          (.cons (nm "sub") (.dir (.cons (nm "c.txt") (.file []) .nil)) .nil)))) := by decide +kernel
  have hu : upload 2 (rejectSuffix ".tmp") false sample = .ok (some (.dir (.cons (nm "a.txt") (.file [1, 2, 3])
      (.cons (nm "empty") (.dir .nil) (.cons (nm "sub") (.dir (.cons (nm "c.txt") (.file []) .nil)) .nil))))) := by
    rw [transfer_eq_prune 2 (by omega), hp]; rfl
  exact ⟨_, hu, upload_then_download 2 5 (by omega) (by omega) _ false false _ _ hu,
    (transfer_idempotent 2 (by omega) _ false sample _ (by decide +kernel) hp).2⟩

/-- sizes around the chunk size, computed by the loop itself (chunk 3: 0, 1, 2, 3, 4, 6, 10 bytes) -/
example : (List.map (fun n => copyFile 3 (List.range n)) [0, 1, 2, 3, 4, 6, 10])
    = List.map List.range [0, 1, 2, 3, 4, 6, 10] := by decide +kernel

/-- the hypothesis `1 ≤ chunk` is needed: with chunk size 0 the first read is empty and nothing is copied -/
example : copyFile 0 [1, 2, 3] = [] := by decide

end Rpyc.Props.C20

/-! ### instances, duplicates and guards — NOT counted (outside `Rpyc.Props.C20`)

`download_eq_prune` is `transfer_eq_prune` through `download_is_upload`; `overwrite_file` is an instance of
`last_transfer_wins`; `transfer_functions_are_modelled` is a guard that cannot fail in Lean (the generator refuses
any other list of functions before Lean sees it). -/
namespace Rpyc.Files.C20Aux
open Rpyc Rpyc.Files Rpyc.Props.C20

theorem download_eq_prune (chunk : Nat) (hc : 1 ≤ chunk) (f : Filter) (ignoreInvalid : Bool) (t : Tree) :
    download chunk f ignoreInvalid t = outcome ignoreInvalid (prune f t) := by
  rw [download_eq_upload]; exact upload_eq chunk hc f ignoreInvalid t

/-- **A transfer overwrites**: whatever regular file is at the destination name — same size or not, newer or
not — afterwards it holds the source's bytes exactly. -/
theorem overwrite_file (chunk : Nat) (hc : 1 ≤ chunk) (f : Filter) (ii : Bool) (b old : Bytes) :
    uploadOver chunk f ii (.file b) (some (.file old)) = .ok (some (.file b)) :=
  uploadOver_sameShape chunk hc f ii (.file b) (.file old) (.file b) rfl rfl rfl

/-- all six transfer functions are the ones modelled, and `upload`/`download` default to no filter and
`ignore_invalid = False` -/
theorem transfer_functions_are_modelled :
    Gen.Files.defaultChunks.map Prod.fst
        = ["upload", "upload_file", "upload_dir", "download", "download_file", "download_dir"]
      ∧ Gen.Files.plainDefaults = ["upload", "download"] := by decide

end Rpyc.Files.C20Aux
