import RpycModel.Proto.LedgerInv
/-
C08 — every request gets exactly one response, to its own requester.

The machine is `Rpyc.Proto.Ledger` (`RpycModel/Proto/Ledger.lean`: `_async_request`, `_dispatch`,
`_dispatch_request`, `_seq_request_callback`, the wait loop of `AsyncResult`); the invariant and its proof
are in `RpycModel/Proto/LedgerLemmas.lean` and `LedgerInv.lean`.  Everything below is about *every* event
sequence (any mix of synchronous, asynchronous and nested requests, any handler outcomes, any number
outstanding at once, any hand-built response frames), from any starting values of the two counters.

`C08_statement` is the full property over every way a request can leave its `try:` suite: value, reference,
an `Exception`, a `BaseException` that is not an `Exception` (CancelledError, GeneratorExit, user classes,
SystemExit / KeyboardInterrupt under the default configuration: the `except:` is bare), undecodable
arguments, unencodable result (answered since the repair of F2) and an exception whose own payload cannot be
built or encoded (answered since the repair `C08:unserializable-exception-no-response`).  The one outcome it
leaves out is the one the CONFIGURATION routes elsewhere: SystemExit / KeyboardInterrupt on a side whose
`propagate_*_locally` switch is on (`raiseLocal`; `configured_local_propagation` shows what happens then).
The model follows the repaired code and `exactly_one` proves the statement in full; reverting a repair —
or narrowing the bare `except:` — in the model's `dispatchRequest`/`sendException` breaks
`exactly_one_dispatch`.
-/
namespace Rpyc.Props.C08
open Rpyc.Proto.Ledger

/-! ### the handler table the dispatcher uses is the one the constants name (generated) -/

/-- `_request_handlers()` has exactly one entry per `HANDLE_*` constant, and the three message types
`_dispatch` distinguishes are the three `MSG_*` constants, pairwise distinct -/
theorem tables_are_modelled :
    Gen.Proto.handlerTable.map Prod.fst = Gen.Proto.handleConsts.map Prod.fst
    ∧ (Gen.Proto.handleConsts.map Prod.fst).Nodup
    ∧ Gen.Proto.dispatchedMsgs = [Gen.Proto.msgRequest, Gen.Proto.msgReply, Gen.Proto.msgException]
    ∧ Gen.Proto.dispatchedMsgs.Nodup
    ∧ RKind.reply.code ≠ RKind.exc.code := by
  decide

/-- **obligation on the code** (measured on the live `Connection._dispatch` by the constants generator): a response — reply
or exception — whose payload cannot be decoded is delivered to its waiter as an error instead of leaving `_dispatch` -/
theorem obligation_decode_guarded : Gen.Proto.responseDecodeGuarded = true := decode_guarded

/-! ### (1) sequence numbers -/

/-- **seq_fresh.** The sequence numbers of the request frames a side has put on the wire are strictly
increasing, and all below its counter: no number is ever reused on a connection. -/
theorem seq_fresh {s : St} (h : Reach s) (x : Side) :
    (s.wire.filterMap (reqOf x)).Pairwise (· < ·) ∧ ∀ r ∈ s.wire.filterMap (reqOf x), r < (s.get x).seq := by
  have d := h.inv.dir x
  rw [d.wireReq]
  exact ⟨d.sorted, d.below⟩

/-- every successful `_async_request` uses the current counter value and advances the counter -/
theorem issue_allocates {s s' : St} {x : Side} {k : Kind} (h : step s ⟨x, .issue k⟩ = some s') :
    s'.wire = s.wire ++ [(x, .req (s.get x).seq)] ∧ (s'.get x).seq = (s.get x).seq + 1
    ∧ (s'.get x.peer).inbox = (s.get x.peer).inbox ++ [.req (s.get x).seq]
    ∧ registered (s'.get x).callbacks (s.get x).seq = true := by
  obtain ⟨me, pr, w, hl, rfl⟩ := step_some s s' x _ h
  simp only [lstep, lstepWith] at hl
  split at hl
  · cases hl
  simp only [Option.some.injEq, Prod.mk.injEq] at hl
  obtain ⟨rfl, rfl, rfl⟩ := hl
  simp [registered, register]

/-! ### (2) at most once -/

/-- **at_most_once.** In every reachable state, each request has been executed at most once by the peer
that received it and has produced at most one response there; the response frames a side has put on the wire
under a number are exactly those (plus hand-built ones, if the harness injected any). -/
theorem at_most_once {s : St} (h : Reach s) (y : Side) (r : Nat) :
    nSeq r (s.get y).executed ≤ 1 ∧ nKey r (s.get y).answered ≤ 1
    ∧ nWireResp y r s.wire = nKey r (s.get y).answered + nKey r (s.get y.peer).injected := by
  have d := h.inv.dir y.peer
  simp only [Side.peer_peer] at d
  have hc := d.count r
  have ho := d.once r
  have he := d.exec r
  have hw := d.wireResp r
  simp only [Side.peer_peer] at hw
  refine ⟨by omega, by omega, hw⟩

/-- the response bears the request's own number: finishing the request at the top of the stack writes
exactly one frame `resp k r v` with the `r` of that `handling r` frame, or (exception leaving
`_dispatch_request`) writes nothing -/
theorem response_bears_own_seq {s s' : St} {x : Side} {o : Outcome} {v : Nat}
    (h : step s ⟨x, .finish o v⟩ = some s') :
    ∃ r rest, (s.get x).stack = .handling r :: rest ∧
      ((∃ k, dispatchRequest o = .respond k ∧ s'.wire = s.wire ++ [(x, .resp k r v)]
          ∧ (s'.get x.peer).inbox = (s.get x.peer).inbox ++ [.resp k r v]
          ∧ (s'.get x).answered = (s.get x).answered ++ [(r, k, v)]
          ∧ (s'.get x).dead = false)
       ∨ (dispatchRequest o = .propagate ∧ s'.wire = s.wire ∧ (s'.get x).dead = true)) := by
  obtain ⟨me, pr, w, hl, rfl⟩ := step_some s s' x _ h
  simp only [lstep, lstepWith] at hl
  split at hl
  · cases hl
  rename_i hdead
  split at hl
  · rename_i r rest hst
    refine ⟨r, rest, hst, ?_⟩
    split at hl
    · rename_i k hk
      simp only [Option.some.injEq, Prod.mk.injEq] at hl
      obtain ⟨rfl, rfl, rfl⟩ := hl
      simp only [Bool.or_eq_true, not_or, Bool.not_eq_true] at hdead
      exact Or.inl ⟨k, hk, by simp, by simp, by simp, by simpa using hdead.1⟩
    · rename_i hk
      simp only [Option.some.injEq, Prod.mk.injEq] at hl
      obtain ⟨rfl, rfl, rfl⟩ := hl
      exact Or.inr ⟨hk, by simp, by simp⟩
  · cases hl

/-! ### (3) routing -/

/-- **routed (one delivery).** A response bearing `q` that a side receives goes to the waiter registered
under `q` — which is removed from the table — and to nobody else; with no waiter under `q` it is dropped and
nothing else changes. -/
theorem routed {s s' : St} {x : Side} {k : RKind} {q v : Nat} {rest : List Msg}
    (h : step s ⟨x, .deliver⟩ = some s') (hin : (s.get x).inbox = .resp k q v :: rest) :
    (s'.get x).inbox = rest ∧ s'.get x.peer = s.get x.peer ∧ s'.wire = s.wire ∧
    (if registered (s.get x).callbacks q then
        (s'.get x).results = (s.get x).results ++ [(q, k, v)]
        ∧ (s'.get x).callbacks = unregister q (s.get x).callbacks
        ∧ registered (s'.get x).callbacks q = false
        ∧ (∀ t, t ≠ q → nKey t (s'.get x).callbacks = nKey t (s.get x).callbacks)
        ∧ (s'.get x).dropped = (s.get x).dropped
     else
        (s'.get x).results = (s.get x).results ∧ (s'.get x).callbacks = (s.get x).callbacks
        ∧ (s'.get x).dropped = (s.get x).dropped ++ [q]) := by
  obtain ⟨me, pr, w, hl, rfl⟩ := step_some s s' x _ h
  simp only [lstep, lstepWith] at hl
  split at hl
  · cases hl
  split at hl
  · cases hl
  rw [hin] at hl
  simp only at hl
  split at hl
  · rename_i hreg
    simp only [Option.some.injEq, Prod.mk.injEq] at hl
    obtain ⟨rfl, rfl, rfl⟩ := hl
    simp only [St.put_get_self, St.put_get_peer, St.put_wire, hreg, if_true, true_and]
    refine ⟨?_, ?_, trivial⟩
    · apply (not_registered_iff _ _).mpr
      simp [nKey_unregister]
    · intro t ht
      simp [nKey_unregister, Ne.symm ht]
  · rename_i hreg
    simp only [Option.some.injEq, Prod.mk.injEq] at hl
    obtain ⟨rfl, rfl, rfl⟩ := hl
    simp [hreg]

/-- **routed (a response this side cannot decode).** A response whose payload cannot be decoded by the receiver (an
exception class it cannot rebuild, a reference it no longer knows) still goes to the waiter registered under its
number — as an error — and the waiter is removed; with no waiter it is dropped; nothing else changes and nothing
leaves `serve()`.  (This rests on the obligation `decode_guarded`, measured on the live `_dispatch`.) -/
theorem undecodable_response_is_delivered {s s' : St} {x : Side} {k : RKind} {q v : Nat} {rest : List Msg}
    (h : step s ⟨x, .deliverFail⟩ = some s') (hin : (s.get x).inbox = .resp k q v :: rest) :
    (s'.get x).inbox = rest ∧ s'.get x.peer = s.get x.peer ∧ s'.wire = s.wire ∧ (s'.get x).dead = (s.get x).dead ∧
    (if registered (s.get x).callbacks q then
        (s'.get x).results = (s.get x).results ++ [(q, k, v)]
        ∧ (s'.get x).undecodable = (s.get x).undecodable ++ [q]
        ∧ (s'.get x).callbacks = unregister q (s.get x).callbacks
        ∧ registered (s'.get x).callbacks q = false
     else
        (s'.get x).results = (s.get x).results ∧ (s'.get x).callbacks = (s.get x).callbacks
        ∧ (s'.get x).dropped = (s.get x).dropped ++ [q]) := by
  obtain ⟨me, pr, w, hl, rfl⟩ := step_some s s' x _ h
  simp only [lstep, lstepWith, decode_guarded, if_true] at hl
  split at hl
  · cases hl
  split at hl
  · cases hl
  rw [hin] at hl
  simp only at hl
  split at hl
  · rename_i hreg
    simp only [Option.some.injEq, Prod.mk.injEq] at hl
    obtain ⟨rfl, rfl, rfl⟩ := hl
    simp only [St.put_get_self, St.put_get_peer, St.put_wire, hreg, if_true, true_and]
    apply (not_registered_iff _ _).mpr
    simp [nKey_unregister]
  · rename_i hreg
    simp only [Option.some.injEq, Prod.mk.injEq] at hl
    obtain ⟨rfl, rfl, rfl⟩ := hl
    simp [hreg]

/-- what the code did before `_dispatch` guarded the decoding (the machine with the guard switched off): the response
is consumed, nobody is given anything, the waiter stays registered for ever — the requester of an answered request
never gets its response.  This is the counterexample the obligation `decode_guarded` excludes. -/
theorem unguarded_decode_loses_response :
    ∃ s, runWith false (St.init 0 0)
        [⟨.A, .issue .async⟩, ⟨.B, .deliver⟩, ⟨.B, .finish .raise 7⟩, ⟨.A, .deliverFail⟩] = some s
      ∧ s.b.answered = [(0, .exc, 7)] ∧ s.a.inbox = [] ∧ s.a.results = [] ∧ s.a.callbacks = [(0, .async)]
      ∧ s.a.dropped = [] :=
  ⟨_, rfl, rfl, rfl, rfl, rfl, rfl⟩

/-- **routed (over a whole run).** Each of a side's requests is either still registered or has been given
exactly one outcome, never both and never two; every outcome given is a response the peer produced for that
very number (or a hand-built frame the harness wrote): nobody receives a value that was not sent. -/
theorem each_waiter_one_outcome {s : St} (h : Reach s) (x : Side) (r : Nat) :
    nKey r (s.get x).callbacks + nKey r (s.get x).results = nSeq r (s.get x).issued
    ∧ nKey r (s.get x).callbacks + nKey r (s.get x).results ≤ 1
    ∧ (∀ e ∈ (s.get x).results, e ∈ (s.get x.peer).answered ∨ e ∈ (s.get x).injected) := by
  have d := h.inv.dir x
  have hw := d.waiter r
  have ho := d.once r
  exact ⟨by omega, by omega, d.provRes⟩

/-- a side that received no hand-built frame never drops a response: every response finds its waiter -/
theorem honest_nothing_dropped {s : St} (h : Reach s) (x : Side) (hinj : (s.get x).injected = []) :
    (s.get x).dropped = [] := (h.inv.dir x).honest hinj

/-! ### (4) exactly one -/

/-- the counting invariant of DESIGN.md Appendix C.3, with the fourth place a request can be on the pinned
code (abandoned by an exception that left `_dispatch_request`) -/
theorem counting {s : St} (h : Reach s) (x : Side) (r : Nat) :
    nReq r (s.get x.peer).inbox + nHand r (s.get x.peer).stack + nKey r (s.get x.peer).answered
      + nSeq r (s.get x.peer).abandoned = nSeq r (s.get x).issued
    ∧ nSeq r (s.get x).issued ≤ 1 := by
  have d := h.inv.dir x
  have := d.count r
  exact ⟨by omega, d.once r⟩

/-- **The full property**: after every event sequence, with every handler outcome (every outcome under the
default configuration; with a `propagate_*_locally` switch on, every outcome but the one it routes locally). -/
def C08_statement : Prop :=
  ∀ (sa sb : Nat) (es : List Ev) (s : St), run (St.init sa sb) es = some s →
    (∀ e ∈ es, e.act.notLocal = true) → Good s

/-- **exactly_one (dispatch).** For every outcome class `_dispatch_request` sends exactly one message: a reply
for a value or a reference, the exception otherwise — an `Exception`, any other `BaseException`, arguments that
cannot be decoded, a result that cannot be encoded, an exception that cannot itself be serialized.  Only the
configured local propagation of SystemExit / KeyboardInterrupt leaves it without a response. -/
theorem exactly_one_dispatch :
    dispatchRequest .value = .respond .reply ∧ dispatchRequest .ref = .respond .reply
    ∧ dispatchRequest .raise = .respond .exc ∧ dispatchRequest .raiseBase = .respond .exc
    ∧ dispatchRequest .undecodableArgs = .respond .exc
    ∧ dispatchRequest .unencodableResult = .respond .exc ∧ dispatchRequest .unserializableExc = .respond .exc
    ∧ (∀ o, o ≠ .raiseLocal → dispatchRequest o ≠ .propagate) :=
  ⟨by decide, by decide, by decide, by decide, by decide, by decide, by decide, dispatch_never_propagates⟩

/-- **exactly_one (the full property).** After every event sequence — every mix of synchronous, asynchronous
and nested requests, every handler outcome, any number outstanding — nobody has died, and every request
sent is in the peer's inbox, or being handled, or has been answered: exactly one of the three, exactly
once. -/
theorem exactly_one : C08_statement := by
  intro sa sb es s h hloc
  have hr : Reach s := ⟨sa, sb, es, h⟩
  have hl := run_alive es _ _ h (fun e he => Act.answered_of_notLocal e.act (hloc e he)) (alive_init sa sb)
  refine ⟨hl.a, hl.b, ?_⟩
  intro x r hmem
  have hc := counting hr x r
  have hab := (hl.get x.peer).2
  have hpos := (nSeq_pos_iff r _).mpr hmem
  rw [hab] at hc
  simp only [nSeq_nil] at hc
  omega

/-- what the configuration asks for instead: with `propagate_SystemExit_locally` (or the KeyboardInterrupt
switch) on, a handler raising that exception is executed, nothing is sent, and the exception leaves the
serving side's `serve()` — by configuration, not a violation of the statement -/
theorem configured_local_propagation :
    ∃ s, run (St.init 0 0) [⟨.A, .issue .sync⟩, ⟨.B, .deliver⟩, ⟨.B, .finish .raiseLocal 0⟩] = some s
      ∧ s.b.dead = true ∧ s.b.executed = [0] ∧ s.b.answered = [] ∧ s.wire = [(.A, .req 0)] :=
  ⟨_, rfl, rfl, rfl, rfl, rfl⟩

/-- **usable afterwards.** After every such event sequence the connection stays usable: either side can issue the next
request (synchronous or asynchronous), a handler at the top of a stack can finish with any outcome, and a
side whose serve loop or wait loop is at the top receives the next message of a non-empty inbox. -/
theorem stays_usable (sa sb : Nat) (es : List Ev) (s : St) (h : run (St.init sa sb) es = some s)
    (hloc : ∀ e ∈ es, e.act.notLocal = true) (x : Side) :
    (∀ k, ∃ s', step s ⟨x, .issue k⟩ = some s')
    ∧ (∀ r rest o v, (s.get x).stack = .handling r :: rest → ∃ s', step s ⟨x, .finish o v⟩ = some s')
    ∧ (canServe (s.get x).stack = true → (s.get x).inbox ≠ [] → ∃ s', step s ⟨x, .deliver⟩ = some s') := by
  have hl := run_alive es _ _ h (fun e he => Act.answered_of_notLocal e.act (hloc e he)) (alive_init sa sb)
  have hx := (hl.get x).1
  have hp := (hl.get x.peer).1
  refine ⟨?_, ?_, ?_⟩
  · intro k
    simp [step, lstep, lstepWith, hx, hp]
  · intro r rest o v hst
    simp only [step, lstep, lstepWith, hx, hp, hst, Bool.or_self, Bool.false_eq_true, if_false]
    cases dispatchRequest o <;> simp
  · intro hcs hne
    simp only [step, lstep, lstepWith, hx, hp, hcs, Bool.or_self, Bool.false_eq_true, if_false, Bool.not_true]
    cases hin : (s.get x).inbox with
    | nil => exact absurd hin hne
    | cons m rest =>
      cases m with
      | req r => simp
      | resp k q v => by_cases hreg : registered (s.get x).callbacks q <;> simp [hreg]

/-- **exactly one, end to end.** When a side has received no hand-built frame and nothing is in flight any
more (both inboxes empty, the peer handling nothing), every request it sent has been answered exactly once
by the peer, that answer has been delivered exactly once — to the waiter registered under the request's own
number — and no waiter is left in the table. -/
theorem quiescent_all_answered (sa sb : Nat) (es : List Ev) (s : St) (h : run (St.init sa sb) es = some s)
    (hloc : ∀ e ∈ es, e.act.notLocal = true) (x : Side)
    (hinj : (s.get x).injected = []) (hq1 : (s.get x).inbox = []) (hq2 : (s.get x.peer).inbox = [])
    (hq3 : (s.get x.peer).stack = []) (r : Nat) (hr : r ∈ (s.get x).issued) :
    nKey r (s.get x.peer).answered = 1 ∧ nKey r (s.get x).results = 1 ∧ nKey r (s.get x).callbacks = 0
    ∧ (∀ e ∈ (s.get x).results, e ∈ (s.get x.peer).answered) := by
  have hreach : Reach s := ⟨sa, sb, es, h⟩
  have hl := run_alive es _ _ h (fun e he => Act.answered_of_notLocal e.act (hloc e he)) (alive_init sa sb)
  have d := hreach.inv.dir x
  have hc := d.count r
  have hw := d.waiter r
  have hf := d.flow r
  have ho := d.once r
  have hdrop := d.honest hinj
  have hpos := (nSeq_pos_iff r _).mpr hr
  rw [hq2, hq3, (hl.get x.peer).2] at hc
  rw [hinj, hq1, hdrop] at hf
  simp only [nReq_nil, nHand_nil, nSeq_nil, nKey_nil, nResp_nil] at hc hf
  refine ⟨by omega, by omega, by omega, ?_⟩
  intro e he
  rcases d.provRes e he with h' | h'
  · exact h'
  · rw [hinj] at h'; cases h'

/-! ### (5) the send-failure path -/

/-- **send failure.** An `_async_request` whose `_send` raises consumes a sequence number and leaves the
table of waiters exactly as it was: the callback registered for it has been unregistered (no waiter is left
under a number that was never sent); nothing is written and nothing else changes. -/
theorem send_failure_unregisters {s s' : St} (h : Reach s) {x : Side} (hs : step s ⟨x, .issueFail⟩ = some s') :
    (s'.get x).callbacks = (s.get x).callbacks ∧ (s'.get x).seq = (s.get x).seq + 1
    ∧ registered (s'.get x).callbacks (s.get x).seq = false
    ∧ (s'.get x).issued = (s.get x).issued ∧ s'.wire = s.wire ∧ s'.get x.peer = s.get x.peer := by
  have d := h.inv.dir x
  obtain ⟨me, pr, w, hl, rfl⟩ := step_some s s' x _ hs
  simp only [lstep, lstepWith] at hl
  split at hl
  · cases hl
  simp only [Option.some.injEq, Prod.mk.injEq] at hl
  obtain ⟨rfl, rfl, rfl⟩ := hl
  have hfresh : nSeq (s.get x).seq (s.get x).issued = 0 :=
    nSeq_eq_zero _ _ (fun hm => by have := d.below _ hm; omega)
  have hcb : nKey (s.get x).seq (s.get x).callbacks = 0 := by have := d.waiter (s.get x).seq; omega
  simp only [St.put_get_self, St.put_get_peer, St.put_wire, unregister_register_fresh _ _ _ hcb, true_and]
  exact ⟨(not_registered_iff _ _).mpr hcb, trivial⟩

/-! ### non-vacuity: a concrete run with every kind of event and all answered outcome classes -/

/-- asynchronous and synchronous requests outstanding together, a nested callback (B's handler calls A
back, A's handler calls B again), a reply that arrives while a deeper wait loop is on top, an unencodable
result, undecodable arguments, a failed send, an await, a duplicate and an unmatched hand-built response -/
def sample : List Ev :=
  [⟨.A, .issue .async⟩,                 -- A: seq 0 (async)
   ⟨.A, .issueFail⟩,                    -- A: seq 1 consumed, nothing sent
   ⟨.A, .issue .sync⟩,                  -- A: seq 2 (sync), waiting 2
   ⟨.B, .deliver⟩,                      -- B handles 0
   ⟨.B, .issue .sync⟩,                  -- B's handler calls back: B seq 0, waiting
   ⟨.A, .deliver⟩,                      -- A (waiting 2) handles B's 0
   ⟨.A, .issue .sync⟩,                  -- A's handler calls B again: A seq 3
   ⟨.B, .deliver⟩,                      -- B (waiting 0) handles A's 2
   ⟨.B, .finish .unencodableResult 7⟩,  -- answered with an exception
   ⟨.B, .deliver⟩,                      -- B handles A's 3
   ⟨.B, .finish .ref 9⟩,
   ⟨.A, .deliver⟩,                      -- A receives EXC 2 while waiting 3 is on top: buried wait loop
   ⟨.A, .deliver⟩,                      -- A receives REPLY 3: waiting 3 returns
   ⟨.A, .finish .value 5⟩,              -- A's handler answers B's 0; then waiting 2 returns too
   ⟨.B, .deliver⟩,                      -- B receives REPLY 0
   ⟨.B, .finish .raise 4⟩,              -- B answers A's 0 with an exception
   ⟨.A, .inject .reply 2 99⟩,           -- duplicate response for A's 2: dropped
   ⟨.A, .inject .reply 50 1⟩,           -- unmatched number: dropped
   ⟨.A, .await 0⟩,
   ⟨.A, .deliver⟩,                      -- EXC 0 delivered to the awaited async result
   ⟨.A, .deliver⟩, ⟨.A, .deliver⟩,      -- the two hand-built frames
   ⟨.A, .issue .async⟩, ⟨.B, .deliver⟩, ⟨.B, .finish .undecodableArgs 0⟩, ⟨.A, .deliver⟩,
   ⟨.A, .issue .sync⟩, ⟨.B, .deliver⟩, ⟨.B, .finish .unserializableExc 6⟩, ⟨.A, .deliver⟩,
   ⟨.A, .issue .sync⟩, ⟨.B, .deliver⟩, ⟨.B, .finish .raiseBase 8⟩, ⟨.A, .deliver⟩]

example : ∃ s, run (St.init 0 0) sample = some s
    ∧ s.a.results = [(2, .exc, 7), (3, .reply, 9), (0, .exc, 4), (4, .exc, 0), (5, .exc, 6), (6, .exc, 8)]
    ∧ s.b.results = [(0, .reply, 5)]
    ∧ s.a.dropped = [2, 50] ∧ s.a.callbacks = [] ∧ s.b.callbacks = []
    ∧ s.b.executed = [2, 3, 0, 5, 6] ∧ s.a.executed = [0]
    ∧ s.a.stack = [] ∧ s.b.stack = [] ∧ s.a.seq = 7 ∧ s.a.issued = [0, 2, 3, 4, 5, 6] :=
  ⟨_, rfl, rfl, rfl, rfl, rfl, rfl, rfl, rfl, rfl, rfl, rfl, rfl⟩

/-- a response the requester cannot decode (e.g. an ExceptionGroup) arriving while another wait loop is serving:
it reaches its own waiter, the other request is unaffected -/
example : ∃ s, run (St.init 0 0) [⟨.A, .issue .async⟩, ⟨.A, .issue .sync⟩, ⟨.B, .deliver⟩, ⟨.B, .finish .raise 3⟩,
      ⟨.B, .deliver⟩, ⟨.B, .finish .value 4⟩, ⟨.A, .deliverFail⟩, ⟨.A, .deliver⟩] = some s
    ∧ s.a.results = [(0, .exc, 3), (1, .reply, 4)] ∧ s.a.undecodable = [0] ∧ s.a.callbacks = [] ∧ s.a.stack = [] := by
  simp only [run, step, lstep, decode_guarded]
  exact ⟨_, rfl, rfl, rfl, rfl, rfl⟩

example : ∃ s, run (St.init 0 0) sample = some s ∧ Good s := by
  have h : ∃ s, run (St.init 0 0) sample = some s := ⟨_, rfl⟩
  obtain ⟨s, hs⟩ := h
  exact ⟨s, hs, exactly_one 0 0 sample s hs (by decide)⟩

end Rpyc.Props.C08
