import RpycModel.Brine.Closed
import RpycModel.Brine.Fuel
/-
C04 — the value serializer is lossless and exact about what it accepts.
Only property theorems and their non-vacuity examples live here (namespace Rpyc.Props.C04);
helper lemmas are in RpycModel/Brine/*.lean.
-/
namespace Rpyc.Props.C04
open Rpyc Rpyc.Brine

/-- **Lossless.** `load (dump v) = v` for every well-formed value that `dump` accepts: same
constructor tree (= identical type and structure), floats and complex numbers as bit patterns
(signed zeros, infinities, NaN payloads), integers of any size, any text or byte string, any nesting. -/
theorem load_dump (v : Val) (e : Bytes) (hwf : v.wf = true) (h : dump v = .ok e) : load e = .ok v := by
  have hn := (need_le v e h).1
  have := dec_enc v e hwf h (2 * e.length + 2) [] (by omega)
  simp only [List.append_nil] at this
  simp [load, this]

/-- the same inside any stream: decoding consumes exactly the encoding and leaves the rest -/
theorem dec_dump_append (v : Val) (e rest : Bytes) (hwf : v.wf = true) (h : dump v = .ok e)
    (fuel : Nat) (hf : need v ≤ fuel) : dec fuel (e ++ rest) = .ok (v, rest) :=
  dec_enc v e hwf h fuel rest hf

/-- **No two values share an encoding.** Distinct well-formed values — `True` and `1`, `0.0` and `-0.0`, `(1,)` and
`1`, `""` and `b""`, two NaNs with different payloads — never produce the same bytes: the type and structure are
recoverable because the encoding is injective. -/
theorem dump_injective (v w : Val) (e : Bytes) (hv : v.wf = true) (hw : w.wf = true)
    (h1 : dump v = .ok e) (h2 : dump w = .ok e) : v = w := by
  have a := load_dump v e hv h1
  have b := load_dump w e hw h2
  rw [a] at b
  injection b

/-- **Encodings are prefix-free**: no encoding is a proper prefix of another, so a concatenation of encodings (a
tuple's items, a packet's payload) splits in exactly one way. -/
theorem dump_prefix_free (v w : Val) (e rest : Bytes) (hv : v.wf = true) (hw : w.wf = true)
    (h1 : dump v = .ok e) (h2 : dump w = .ok (e ++ rest)) : v = w ∧ rest = [] := by
  have a := dec_dump_append v e rest hv h1 (need v + need w) (by omega)
  have b := dec_dump_append w (e ++ rest) [] hw h2 (need v + need w) (by omega)
  rw [List.append_nil, a] at b
  injection b with b
  injection b with b1 b2
  exact ⟨b1, b2⟩

/-- **Accepts what it declares.** Every value `dumpable` accepts is encoded, within the explicit
domain (integers the interpreter can render as text, lengths `struct` can frame: < 2^32).
Full strength: no condition on the text — lone surrogates included. -/
theorem dump_total (v : Val) (hd : dumpable v = true) (hdom : InDomain v = true) : ∃ e, dump v = .ok e :=
  enc_ok v hd hdom

/-- **Refuses what it declares unserializable, with TypeError.** -/
theorem dump_refuses (v : Val) (hd : dumpable v = false) (hdom : InDomain v = true) :
    dump v = .error .typeError :=
  enc_refuses v hd hdom

/-- `dumpable` and `dump` agree in both directions on the domain -/
theorem dumpable_iff_dump_ok (v : Val) (hdom : InDomain v = true) :
    dumpable v = true ↔ ∃ e, dump v = .ok e := by
  constructor
  · exact fun hd => dump_total v hd hdom
  · intro ⟨e, he⟩
    cases hd : dumpable v with
    | true => rfl
    | false => rw [dump_refuses v hd hdom] at he; cases he

/-- **Decoder closed and total.** For *every* byte string, `load` (a total function) either raises
or returns a value built only from the twelve immutable plain types; the result type of the model
has no constructor for anything else except `other`, which is excluded here.

One of the model's errors is not an exception of the code: `Err.notModelled`, answered in exactly one place
(`unpack3` of a frozenset: `TAG_SLICE` followed by an encoded frozenset, where `_load_slice` unpacks the set in
CPython's iteration order and returns `slice(x, y, z)` over three already-decoded plain values, or raises ValueError
when the set does not have three elements).  For those inputs the theorem's left disjunct stands for "a slice of three
plain values, or ValueError"; the correspondence checks on the real code that the result there is plain
(`decode:not-modelled(slice-of-frozenset)` in the evidence). -/
theorem load_safe (bs : Bytes) : (∃ e, load bs = .error e) ∨ (∃ v, load bs = .ok v ∧ dumpable v = true) := by
  unfold load
  cases h : dec (2 * bs.length + 2) bs with
  | error e => exact Or.inl ⟨e, rfl⟩
  | ok p => exact Or.inr ⟨p.1, rfl, dec_dumpable _ _ p.1 p.2 (by rw [h])⟩

/-- the model's `load` never fails for lack of fuel, whatever the bytes: its failures are exactly the
transcribed failures of `_load` (so `load_safe`'s "raises" is never an artefact of the model) -/
theorem load_fuel_adequate (bs : Bytes) : load bs ≠ .error .recursionError :=
  load_never_out_of_fuel bs

/-- the model builds `frozenset(items)` without a failure branch: every plain value must be hashable, which holds iff
slices are (CPython ≥ 3.12).  Measured on the interpreter the checks run under; on an older interpreter this obligation
fails instead of the model being silently wrong about `TAG_FSET` over slices. -/
theorem interpreter_hashes_slices : Gen.sliceHashable = true := by decide

/-- the loader's registry has exactly the tags the model decodes (generated; a new or re-keyed
`_load_*` entry breaks this) -/
theorem load_registry_is_modelled :
    Gen.loadRegistryTags.all (fun t => (classify t).isSome && !isImm t) = true
    ∧ (List.range 256).all (fun t => (classify t).isSome == (isImm t || Gen.loadRegistryTags.contains t)) = true := by
  decide +kernel

/-- every function the `_load_*` bodies call is one of the primitives the model has (AST, generated):
no import, no attribute lookup on loaded data other than `.decode`, no call of loaded data -/
theorem loader_calls_allowed : Gen.loaderCalls.all (fun c => Brine.loaderCallsAllowed.contains c) = true := by
  decide

/-- observed, not read off the source: while the live `brine.load` decoded a fixed corpus of valid, truncated and
mutated encodings (including byte strings that spell pickles and dotted names) the interpreter's audit hooks reported no
import, exec, compile, open, os/subprocess/socket/ctypes/pickle event ("never imports or executes anything", measured) -/
theorem decode_audit_silent : Gen.decodeAuditEvents = [] := by decide

/-- the dump registry and `simple_types` cover exactly the twelve modelled types -/
theorem dump_registry_is_modelled :
    Gen.dumpRegistryTypes = ["builtins.NoneType", "builtins.NotImplementedType", "builtins.bool", "builtins.bytes",
      "builtins.complex", "builtins.ellipsis", "builtins.float", "builtins.frozenset", "builtins.int",
      "builtins.slice", "builtins.str", "builtins.tuple"]
    ∧ Gen.simpleTypes = ["builtins.NoneType", "builtins.NotImplementedType", "builtins.bool", "builtins.bytes",
      "builtins.complex", "builtins.ellipsis", "builtins.float", "builtins.int", "builtins.str"] := by
  decide

/-! ### non-vacuity: concrete non-trivial values meet the hypotheses -/

/-- a nested value with a NaN payload, -0.0, a lone surrogate, a frozenset of tuples and a slice -/
def sample : Val :=
  .tuple [.int (-49), .float 0x7FF0000000000001, .float 0x8000000000000000, .str [0x61, 0xD800, 0x1F600],
          .fset [.tuple [.int 1, .bytes [0, 255]], .tuple []], .slice (.int 1) .none (.tuple [.bool true]),
          .complex 0x7FF8000000000000 0xFFF0000000000000, .int (10 ^ 300)]

example : sample.wf = true ∧ dumpable sample = true ∧ InDomain sample = true := by decide +kernel
example : ∃ e, dump sample = .ok e ∧ load e = .ok sample := by
  obtain ⟨e, he⟩ := dump_total sample (by decide +kernel) (by decide +kernel)
  exact ⟨e, he, load_dump sample e (by decide +kernel) he⟩
example : dumpable (.tuple [.int 1, .tuple [.other 0]]) = false
    ∧ dump (.tuple [.int 1, .tuple [.other 0]]) = .error .typeError := ⟨rfl, rfl⟩
/-- the hypotheses of `dump_injective` / `dump_prefix_free` are met by every encodable value (here the sample, `rest = []`),
and the look-alikes really do encode differently -/
example : ∃ e, dump sample = .ok e ∧ dump sample = .ok (e ++ []) ∧ sample.wf = true := by
  obtain ⟨e, he⟩ := dump_total sample (by decide +kernel) (by decide +kernel)
  exact ⟨e, he, by simpa using he, by decide +kernel⟩
example (e : Bytes) (h1 : dump (.bool true) = .ok e) : dump (.int 1) ≠ .ok e := fun h2 => by
  have := dump_injective _ _ e (by decide) (by decide) h1 h2
  cases this
example (e : Bytes) (h1 : dump (.tuple [.int 1]) = .ok e) : dump (.int 1) ≠ .ok e := fun h2 => by
  have := dump_injective _ _ e (by decide) (by decide) h1 h2
  cases this
/-- a truncated tuple (two items announced, one present) is refused: reading past the end raises -/
example : load [Gen.tagTupL1, 2, Gen.tagNone] = .error .typeError := by
  simp [load, dec_tag_tupL1, decTup, decN, dec_tag_none, dec]

end Rpyc.Props.C04
