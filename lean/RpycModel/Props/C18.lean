import RpycModel.Srv.RegistryFrame
/-
C18 — the registry reflects exactly the live registrations and cannot be knocked over.

Only property theorems and their non-vacuity examples live here (namespace Rpyc.Props.C18); the model is
RpycModel/Srv/Registry.lean, helper lemmas are in RpycModel/Srv/Registry*.lean.

Reading of the statement: *membership* is the stored table, seen through `view : (NAME code, address code) ↦
last refresh` (codes identify keys up to Python's `==`).  An entry exists from its first register until an
unregister or until a query prunes it; refreshing a stale entry that no query has pruned yet keeps it the same
member.  `intent` is the MODEL'S OWN reading of what a datagram means (it is built from the same helpers `_work`'s
model uses - `load`, `unpack3'`, `lookupCmd`, `iterate'`, `pyUpper`, `allStr` - so it is a convenient name for the
refinement theorems, not an independent specification): `none` for everything that is not a well-formed command,
otherwise the query / register / unregister it asks for.  The clauses of the statement about malformed datagrams and
about "registrations it does not legitimately name" are therefore ALSO stated without `intent`:
`not_a_command_changes_nothing` (on the decoded value) and `touches_only_own_or_stale` (on the sender's host).

Kinds of theorem in this file.  Obligations on generated facts (a changed constant / code shape breaks them by name):
commands_are_modelled, client_requests_understood, reregister_within_pruning, tcp_recv_closes_unreplied,
all_brine_values_hashable, logger_warn_survives, reply_dump_is_guarded, datagram_bounded.  Structural facts the property
theorems are read with: query_order, registration_order, stored_iff_view, received_is_genuine, tcp_client_is_workStep,
tcp_silent_step.  Counterexamples: C18_counterexample_unguarded_reply_dump (repaired defect),
C18_counterexample_silent_client_outlasts_default_client (known finding).  Everything else carries the property.

Case-insensitivity is `str.upper()`: exact for ASCII; for other text it is whatever Python's `upper()` identifies
('straße' and 'STRASSE' meet, 'STRAẞE' does not; 'İstanbul' and its `lower()` do not).  All theorems are for every environment (`Env`: `str.upper`/`str.lower` of
non-ASCII text, frozenset iteration order), every pruning interval, every clock, every byte string.
-/
namespace Rpyc.Props.C18
open Rpyc Rpyc.Brine Rpyc.Registry

/-! ### the generated facts the model is written over -/

/-- the `cmd_*` methods of `RegistryServer` are exactly the three the model executes, with the argument
counts the model passes (a new command, or a changed signature, breaks this) -/
theorem commands_are_modelled :
    Gen.cmdNames = ["query", "register", "unregister"]
    ∧ Gen.cmdTable = [(nmQuery, 1), (nmRegister, 2), (nmUnregister, 1)] := by decide

/-- every request the six client methods send (observed on a recording socket) carries the magic `_work` checks and a command the registry
knows after lower-casing, with as many arguments as that command takes -/
theorem client_requests_understood :
    Gen.clientRequests.all (fun r => (r.1.toList.map Char.toNat == Gen.magic)
      && (cmdOfName ((r.2.toList.map Char.toNat).map asciiLower)).isSome) = true
    ∧ Gen.clientRequestArgs.all (fun r =>
        (findCmd ((r.1.toList.map Char.toNat).map asciiLower) Gen.cmdTable).map Prod.snd == some r.2) = true := by decide

/-- a server that re-registers every `REREGISTER_INTERVAL` is never stale under the default pruning interval -/
theorem reregister_within_pruning : Gen.reregisterIntervalMs < Gen.defaultPruningTimeoutMs := by decide

/-- `TCPRegistryServer._recv` closes the sockets of requests that got no reply before it accepts again
(observed on the live method; reverting that repair breaks this) -/
theorem tcp_recv_closes_unreplied : Gen.tcpRecvClosesUnreplied = true := by decide

/-- **Interpreter obligation.**  Every brine value can be a dict key on the interpreter the check runs under
(`hash()` measured per type; `slice` is hashable from Python 3.12 on).  The model has the other branch too: with an
unhashable `(host, port)` `cmd_register` is refused after `_add_service` has already created an empty inner dict
(`registerUnhashable`), i.e. a refused datagram would alter the table.  `malformed_is_noop`,
`wellformed_changes_only_named` and the rest are proved through this fact and break with it. -/
theorem all_brine_values_hashable : Gen.allBrineValuesHashable = true := brine_values_hashable

/-- what the model does where that obligation fails (Python < 3.12, a `slice` port): refused, no notification, and an
empty inner dict left under the upper-cased first name -/
example : (registerUnhashable { upper := id, lower := id, fsetIter := id } [] [[122, 122]]).sv.length = 1
    ∧ (registerUnhashable { upper := id, lower := id, fsetIter := id } [] [[122, 122]]).notes.length = 0 := by decide +kernel

/-- **Interpreter obligation.**  `_work`'s two `self.logger.warn(...)` calls (wrong magic, unknown command) sit outside
every `try`; with a real `logging.Logger` they do not raise on this interpreter (observed; `Logger.warn` is removed in
Python 3.13, where the first such datagram would end the loop — the model's `warnStep` carries that). -/
theorem logger_warn_survives : Gen.realLoggerSurvivesWarn = true := real_logger_survives_warn

/-- what `_recv` hands to `_work` is at most `MAX_DGRAM_SIZE` bytes, far below what `struct` can frame -/
theorem datagram_bounded (d : Bytes) : (udpRecv d).length ≤ Gen.maxDgramSize ∧ Gen.maxDgramSize < 2 ^ 32 := by
  refine ⟨?_, by decide⟩
  simp [udpRecv, List.length_take]
  omega

/-! ### (1) query_spec -/

/-- **A query answers exactly the live registrations, oldest refresh first.**  For a name with an `upper()`
(text or bytes) the command does not fail, its reply is the tuple of the addresses stored under the upper-cased
name whose last refresh is not older than `now - pruning`, in the order of the stable sort by refresh time, and
the abstract map loses exactly the stale entries of that name and nothing else. -/
theorem query_spec (env : Env) (pruning : Int) (sv : Services) (name NAME : Val) (now : Int)
    (hinv : Inv sv) (hup : pyUpper env name = .ok NAME) :
    (cmdQuery env pruning sv name now).out = .ok (.tuple ((answer pruning sv NAME now).map addrVal))
    ∧ (∀ n x, view (cmdQuery env pruning sv name now).sv n x
        = if n = keyCode NAME ∧ staleOpt (now - pruning) (view sv n x) = true then none else view sv n x)
    ∧ Inv (cmdQuery env pruning sv name now).sv := by
  unfold cmdQuery
  rw [hup]
  obtain ⟨g, ho⟩ := queryUpper_good pruning sv NAME now hinv
  exact ⟨ho, g.refines, g.inv⟩

/-- the answer contains an address exactly when the abstract map holds it under that name with a refresh time
within the pruning interval (so: registered, not unregistered, not pruned, not stale) -/
theorem query_members (pruning : Int) (sv : Services) (NAME : Val) (now : Int) (a : Addr) :
    a ∈ answer pruning sv NAME now ↔ ∃ t, (a, t) ∈ innerOf sv NAME ∧ now - pruning ≤ t := by
  unfold answer
  simp only [List.mem_map, List.mem_filter, Bool.not_eq_true', decide_eq_false_iff_not, Int.not_lt]
  constructor
  · rintro ⟨e, ⟨hm, ht⟩, rfl⟩
    exact ⟨e.2, (sortByTime_perm _).mem_iff.mp hm, ht⟩
  · rintro ⟨t, hm, ht⟩
    exact ⟨(a, t), ⟨(sortByTime_perm _).mem_iff.mpr hm, ht⟩, rfl⟩

/-- a stored pair is what the abstract map says: `(a, t)` is in the inner dict of `NAME` iff the view maps
(NAME, a) to `t` -/
theorem stored_iff_view (sv : Services) (NAME : Val) (hinv : Inv sv) (a : Addr) (t : Int) :
    (a, t) ∈ innerOf sv NAME → view sv (keyCode NAME) (addrCode a) = some t := by
  intro hm
  rw [← viewInner_innerOf]
  exact alFind_of_mem addrCode _ a t (innerOf_nodup sv NAME hinv) hm

/-- order of the answer: the snapshot is sorted by refresh time, and entries with equal refresh times keep the
order of the inner dict, which is the order in which they (last) joined -/
theorem query_order (inner : Inner) :
    (sortByTime inner).Pairwise (fun a b => a.2 ≤ b.2)
    ∧ (∀ k, (sortByTime inner).filter (fun e => e.2 == k) = inner.filter (fun e => e.2 == k))
    ∧ (sortByTime inner).Perm inner :=
  ⟨sortByTime_sorted inner, fun k => sortByTime_stable k inner, sortByTime_perm inner⟩

/-- a new member joins at the end of the inner dict; a refresh keeps its place and its spelling -/
theorem registration_order (inner : Inner) (a : Addr) (now : Int) :
    (alFind addrCode inner (addrCode a) = none → alSet addrCode inner a now = inner ++ [(a, now)])
    ∧ (alKeys addrCode (alSet addrCode inner a now)
        = if addrCode a ∈ alKeys addrCode inner then alKeys addrCode inner else alKeys addrCode inner ++ [addrCode a]) := by
  refine ⟨?_, alKeys_alSet addrCode inner a now⟩
  intro h
  induction inner with
  | nil => rfl
  | cons e l ih =>
    obtain ⟨k, v⟩ := e
    simp only [alFind] at h
    by_cases hk : addrCode k = addrCode a
    · rw [if_pos hk] at h; cases h
    · rw [if_neg hk] at h
      simp only [alSet, if_neg hk, ih h, List.cons_append]

/-- **Refinement, for every history.**  Starting from the empty registry, after any sequence of datagrams (any
bytes, any hosts, any clock readings) the table denotes exactly what the abstract registry
`(NAME, address) ↦ last refresh` holds after the meanings of those datagrams; the representation invariant
holds throughout. -/
theorem registry_refines (env : Env) (pruning : Int) (evs : List Event) :
    Inv (run env pruning St.init evs).sv
    ∧ ∀ n x, view (run env pruning St.init evs).sv n x = absRun env pruning (fun _ _ => none) evs n x := by
  obtain ⟨i, _, v⟩ := run_good env pruning evs St.init inv_nil balanced_init
  exact ⟨i, v⟩

/-! ### (2) notifications_exact -/

/-- **Per step, for every datagram**: the notifications fired contain exactly one `added` for each pair that
became a member, exactly one `removed` for each pair that stopped being one, and nothing else. -/
theorem notifications_exact_step (env : Env) (pruning : Int) (sv : Services) (host : Val) (dgram : Bytes) (now : Int)
    (hinv : Inv sv) (n a : List Nat) :
    countAdd (workStep env pruning sv host dgram now).notes n a
        = (if !mem sv n a && mem (workStep env pruning sv host dgram now).sv n a then 1 else 0)
    ∧ countRem (workStep env pruning sv host dgram now).notes n a
        = (if mem sv n a && !mem (workStep env pruning sv host dgram now).sv n a then 1 else 0) :=
  (workStep_good env pruning sv host dgram now hinv).exact n a

/-- **Per history**: over any history the log of notifications and the membership of the table are in
bijection: for every pair, #added = #removed + (1 if it is a member now, else 0). -/
theorem notifications_exact (env : Env) (pruning : Int) (evs : List Event) (n a : List Nat) :
    countAdd (run env pruning St.init evs).log n a
      = countRem (run env pruning St.init evs).log n a + (if mem (run env pruning St.init evs).sv n a then 1 else 0) :=
  (run_good env pruning evs St.init inv_nil balanced_init).2.1 n a

/-! ### (3) work_total -/

/-- **Code obligation.**  `self._send(brine.dump(reply), addrinfo)` sits inside a guard of its own (observed on the live
`_work` with a `brine` whose dump of one reply raises `RecursionError`): a reply that cannot be serialized or sent is
logged and the loop goes on. -/
theorem reply_dump_is_guarded : Gen.replyDumpGuarded = true := reply_dump_guarded

/-- **Why that guard is needed (the defect it repairs).**  With `brine.dump(reply)` bare in the `else:` clause, a command
that returned normally whose reply the interpreter cannot dump ends `_work`: `RecursionError` for a stored port nested
near the recursion limit — a REGISTER with such a port is accepted, because dumping the innermost value takes a frame
more than loading it took, and the next QUERY for that name by anyone kills the loop.  Concretely: any environment in
which the dump of the acknowledgement overflows, any command result `OK`. -/
theorem C18_counterexample_unguarded_reply_dump :
    ∃ (env : Env) (r : CmdRes), r.out = .ok ack ∧ (finishG false env r).alive = false ∧ (finishG true env r).alive = true :=
  ⟨{ upper := id, lower := id, fsetIter := id, dumpOverflows := fun _ => true }, ⟨[], [], .ok ack⟩, rfl,
   finishG_unguarded_dies _ _ ack rfl rfl, finishG_alive _ _⟩

/-- **For EVERY datagram — all byte strings — every table, every environment (recursion limit included), the loop
keeps running.**  No hypothesis. -/
theorem work_total (env : Env) (pruning : Int) (sv : Services) (host : Val) (dgram : Bytes) (now : Int) :
    (workStep env pruning sv host dgram now).alive = true :=
  workStep_alive env pruning sv host dgram now

/-- what the real `_recv` hands over is a genuine datagram in the sense of `stored_can_always_be_sent`: bytes, and at most
`MAX_DGRAM_SIZE` of them -/
theorem received_is_genuine (d : Bytes) (hb : ∀ x ∈ d, x < 256) : Genuine (udpRecv d) := by
  refine ⟨fun x hx => hb x (List.mem_of_mem_take hx), ?_⟩
  have h1 := (datagram_bounded d).1
  have h2 : Gen.maxDgramSize < 2 ^ 29 := by decide
  omega

/-- **The loop never dies, for every history**: any datagrams, any hosts, any clocks, any start state. -/
theorem registry_never_dies (env : Env) (pruning : Int) (st : St) (evs : List Event) :
    allAlive env pruning st evs = true :=
  allAlive_all env pruning evs st

/-- **... and it keeps answering.**  From the empty registry, after any history of fewer than 2^32 genuine datagrams
(what `_recv` returns) from hosts whose text `brine.dump` accepts, everything stored can be dumped again
(`load_storable`: whatever `brine.load` returns can be dumped; a name gains at most one server per datagram), so a
command that runs to its end is answered with exactly what it returned — unless the interpreter's recursion limit
stops `brine.dump` of that reply (`env.dumpOverflows`), in which case nothing is sent and the loop goes on. -/
theorem stored_can_always_be_sent (env : Env) (hE : EnvOk env) (pruning : Int) (evs : List Event)
    (hev : EventsOk evs) (hlen : evs.length < 2 ^ 32) :
    SvStorable (run env pruning St.init evs).sv
    ∧ ∀ host now c xs reply,
        (callCmd env pruning (run env pruning St.init evs).sv host now c xs).out = .ok reply →
        env.dumpOverflows reply = false →
        (finish env (callCmd env pruning (run env pruning St.init evs).sv host now c xs)).reply = some reply := by
  have hs := run_storable env hE pruning evs St.init 0 inv_nil (by intro e he; simp [St.init] at he)
    (by intro e he; simp [St.init] at he) hev (by omega)
  have hi := (run_good env pruning evs St.init inv_nil balanced_init).1
  exact ⟨hs, fun host now c xs reply ho hov => callCmd_is_answered env pruning _ host now hi hs c xs reply ho hov⟩

/-- **A datagram that is not a well-formed command changes nothing**: table identical (order included),
no notification, no reply, loop running.  No hypothesis on the table. -/
theorem malformed_is_noop (env : Env) (pruning : Int) (sv : Services) (host : Val) (dgram : Bytes) (now : Int)
    (hi : intent env host dgram = .none) :
    (workStep env pruning sv host dgram now).sv = sv ∧ (workStep env pruning sv host dgram now).notes = []
    ∧ (workStep env pruning sv host dgram now).reply = none ∧ (workStep env pruning sv host dgram now).alive = true :=
  workStep_noop env pruning sv host dgram now hi

/-- **A well-formed command changes only the entries it names**: whatever pair's abstract value differs after
the step is named by the datagram's meaning — the queried name's stale entries; (one of the names, the sender's
own (host, port)) for register; the sender's own (host, port) for unregister. -/
theorem wellformed_changes_only_named (env : Env) (pruning : Int) (sv : Services) (host : Val) (dgram : Bytes) (now : Int)
    (hinv : Inv sv) (n x : List Nat)
    (hch : view (workStep env pruning sv host dgram now).sv n x ≠ view sv n x) :
    (intent env host dgram).names (now - pruning) (view sv) n x := by
  rw [(workStep_good env pruning sv host dgram now hinv).refines n x] at hch
  exact absApply_frame pruning now (view sv) _ n x hch

/-- **Whose registrations a datagram can touch, stated without the model's notion of meaning.**  For EVERY datagram:
a pair whose abstract value differs after the step either has an address `(host, port)` of the SENDER's own host, or
was stale (refresh older than `now - pruning`) and is gone.  So no datagram, however malformed, alters a live
registration of another host. -/
theorem touches_only_own_or_stale (env : Env) (pruning : Int) (sv : Services) (host : Val) (dgram : Bytes) (now : Int)
    (hinv : Inv sv) (n x : List Nat)
    (hch : view (workStep env pruning sv host dgram now).sv n x ≠ view sv n x) :
    (∃ port, x = addrCode (host, port))
    ∨ (∃ t, view sv n x = some t ∧ t < now - pruning ∧ view (workStep env pruning sv host dgram now).sv n x = none) :=
  sender_frame env pruning sv host dgram now hinv n x hch

/-- **The statement's classes of malformed datagram, stated on the decoded value.**  What appears in the statement:
C04's `load`, the literal shape of the decoded value, `strLower` for the command's `lower()`, the generated command table
through `lookupCmd` (argument count, and which command a text names), `allStr` ("every item is text") and `notIterable`;
NOT `intent`, `unpack3'`, `dispatch`.  The classes: undecodable bytes; a value that cannot be unpacked; a tuple that is
not a triple; a first field that is not the magic text; a command that is not text; a text command that is none of the
three after lower-casing; a tuple of arguments of the wrong length; arguments of the wrong types (a query name that is
neither text nor bytes; register names that cannot be iterated or contain a non-text item).  Each changes nothing at all:
table identical, no notification, no reply, loop running. -/
theorem not_a_command_changes_nothing (env : Env) (pruning : Int) (sv : Services) (host : Val) (d : Bytes) (now : Int) :
    (∀ e, load d = .error e → (workStep env pruning sv host d now).Noop sv)
    ∧ (∀ v, load d = .ok v → notIterable v = true → (workStep env pruning sv host d now).Noop sv)
    ∧ (∀ xs, load d = .ok (.tuple xs) → xs.length ≠ 3 → (workStep env pruning sv host d now).Noop sv)
    ∧ (∀ m c a, load d = .ok (.tuple [m, c, a]) → (∀ s, m = .str s → s ≠ Gen.magic) → (workStep env pruning sv host d now).Noop sv)
    ∧ (∀ m c a, load d = .ok (.tuple [m, c, a]) → (∀ s, c ≠ .str s) → (workStep env pruning sv host d now).Noop sv)
    ∧ (∀ m s a, load d = .ok (.tuple [m, .str s, a]) → strLower env s ∉ [nmQuery, nmRegister, nmUnregister] →
        (workStep env pruning sv host d now).Noop sv)
    ∧ (∀ m s args c, load d = .ok (.tuple [m, .str s, .tuple args]) → lookupCmd env (.str s) = some c → args.length ≠ c.2 →
        (workStep env pruning sv host d now).Noop sv)
    ∧ (∀ m s n name, load d = .ok (.tuple [m, .str s, .tuple [name]]) → lookupCmd env (.str s) = some (.query, n) →
        (∀ t, name ≠ .str t) → (∀ b, name ≠ .bytes b) → (workStep env pruning sv host d now).Noop sv)
    ∧ (∀ m s n names port, load d = .ok (.tuple [m, .str s, .tuple [.tuple names, port]]) →
        lookupCmd env (.str s) = some (.register, n) → (∃ x ∈ names, ∀ t, x ≠ .str t) →
        (workStep env pruning sv host d now).Noop sv)
    ∧ (∀ m s n names port, load d = .ok (.tuple [m, .str s, .tuple [names, port]]) →
        lookupCmd env (.str s) = some (.register, n) → notIterable names = true →
        (workStep env pruning sv host d now).Noop sv) :=
  ⟨fun e h => noop_of_load_error env pruning sv host d now e h,
   fun v h hv => noop_of_not_iterable env pruning sv host d now v h hv,
   fun xs h hl => noop_of_wrong_length env pruning sv host d now xs h hl,
   fun m c a h hm => noop_of_wrong_magic env pruning sv host d now m c a h hm,
   fun m c a h hc => noop_of_non_text_command env pruning sv host d now m c a h hc,
   fun m s a h hs => noop_of_unknown_command env pruning sv host d now m a s h hs,
   fun m s args c h hc hn => noop_of_wrong_arg_count env pruning sv host d now m s args c h hc hn,
   fun m s n name h hc h1 h2 => noop_of_query_bad_name env pruning sv host d now m name s n h hc h1 h2,
   fun m s n names port h hc hb =>
     noop_of_register_bad_names env pruning sv host d now m port s n names h hc ((allStr_none_iff names).mpr hb),
   fun m s n names port h hc hb => noop_of_register_names_not_iterable env pruning sv host d now m names port s n h hc hb⟩

/-- **Case-insensitive.**  A query sees only the upper-cased name: two spellings with the same `upper()` give the same
reply, the same pruning, the same table; for ASCII names lower- or upper-casing a spelling does not change its
`upper()`. -/
theorem query_case_insensitive (env : Env) (pruning : Int) (sv : Services) (s1 s2 : List Nat) (now : Int) :
    (strUpper env s1 = strUpper env s2 →
      cmdQuery env pruning sv (.str s1) now = cmdQuery env pruning sv (.str s2) now)
    ∧ (isAscii s1 = true → strUpper env (s1.map asciiLower) = strUpper env s1 ∧ strUpper env (s1.map asciiUpper) = strUpper env s1) :=
  ⟨cmdQuery_congr env pruning sv s1 s2 now, strUpper_case_insensitive env s1⟩

/-- a server that registers (an address that can be sent back) under one spelling is found, at once, by a query under
any spelling with the same `upper()` -/
theorem register_then_query_finds (env : Env) (pruning : Int) (sv : Services) (host port : Val) (s1 s2 : List Nat) (now : Int)
    (hinv : Inv sv) (hp : 0 ≤ pruning) (hcase : strUpper env s1 = strUpper env s2)
    (hsend : registerRefuses env (host, port) = false) :
    ∃ a, a ∈ answer pruning (cmdRegister env sv host (.tuple [.str s1]) port now).sv (.str (strUpper env s2)) now
      ∧ addrCode a = addrCode (host, port) := by
  have hv := registered_view env sv host port s1 now hinv hsend
  rw [hcase] at hv
  obtain ⟨a, hm, hc⟩ := mem_innerOf_of_view _ _ _ _ hv
  exact ⟨a, (query_members pruning _ _ now a).mpr ⟨now, hm, by omega⟩, hc⟩

/-- **The registry executes exactly what a well-formed request names** (the datagrams the client classes
build): a QUERY / REGISTER / UNREGISTER request with the right number of arguments runs that command on exactly
those arguments. -/
theorem wellformed_is_executed (env : Env) (pruning : Int) (sv : Services) (host : Val) (now : Int)
    (cmd : List Nat) (args : List Val) (e : Bytes) (c : CmdName × Nat)
    (hwf : (request cmd args).wf = true) (hd : dump (request cmd args) = .ok e)
    (hc : lookupCmd env (.str cmd) = some c) (hlen : args.length = c.2) (hov : env.loadOverflows e = false) :
    workStep env pruning sv host e now = finish env (callCmd env pruning sv host now c.1 args) :=
  workStep_request env pruning sv host now cmd args e c hwf hd hc hlen hov

/-! ### (4) tcp_liveness -/

/-- **A silent TCP client costs at most the socket timeout, and nothing else.**  For every history of TCP
clients — sending a payload at once (possibly partial, empty or garbage) or nothing — with room for at least
one accepted socket: every client is accepted; the clock after the history is the start plus TIMEOUT per silent
client; a silent client leaves the table untouched and fires nothing. -/
theorem tcp_liveness (env : Env) (pruning : Int) (fdLimit : Nat) (hfd : 0 < fdLimit) (evs : List TcpEv) (ts : TcpSt)
    (hc : ts.conn = []) :
    (∀ o ∈ (tcpRun env pruning fdLimit ts evs).2, o.accepted = true)
    ∧ (tcpRun env pruning fdLimit ts evs).1.clock = ts.clock + Gen.tcpServerTimeoutMs * (evs.countP isSilent) :=
  tcpRun_spec env pruning fdLimit hfd tcp_recv_closes_unreplied evs ts hc

/-- **How long others wait behind silent clients, and whose patience that exceeds.**  `k` silent clients in a row cost
exactly `k × TCPRegistryServer.TIMEOUT`; a client with rpyc's default reply timeout that queues behind them is answered
in time iff `k ≤ silentClientsTolerated = (client default − 1 ms) / server TIMEOUT` (generated constants; with 2000 ms
against 3000 ms that number is 0: one silent client already outlasts a default client's patience — the registry is
delayed, not knocked over). -/
theorem tcp_delay_and_patience (env : Env) (pruning : Int) (fdLimit : Nat) (hfd : 0 < fdLimit) (ts : TcpSt) (hc : ts.conn = [])
    (k p : Nat) :
    (tcpRun env pruning fdLimit ts (List.replicate k (.silent p))).1.clock = ts.clock + Gen.tcpServerTimeoutMs * k
    ∧ (k * Gen.tcpServerTimeoutMs < Gen.tcpClientTimeoutMs ↔ k ≤ silentClientsTolerated) := by
  refine ⟨?_, patience k⟩
  rw [(tcp_liveness env pruning fdLimit hfd _ ts hc).2, countP_replicate_silent]

/-- what the statement asks of the TCP front end towards rpyc's own clients: a client with the default reply timeout that
queues behind ONE silent connection still gets its answer in time -/
def C18_tcp_patience_statement : Prop := 1 ≤ silentClientsTolerated

/-- **Known finding** `C18:tcp-silent-client-outlasts-default-client-timeout`: it does not.  The registry spends
`TCPRegistryServer.TIMEOUT` (3000 ms) on a connection that sends nothing, the clients give up after 2000 ms and
`TCPRegistryClient.discover` then returns `()` - a silent wrong answer; one idle connection every 3 s starves every
default client for as long as it goes on.  (`tcp_liveness` / `tcp_delay_and_patience` are the part that holds: nobody is
refused, the cost is exactly TIMEOUT per silent connection.)  Replayed on real sockets by `known_probes` in c18.py. -/
theorem C18_counterexample_silent_client_outlasts_default_client : ¬ C18_tcp_patience_statement := by
  unfold C18_tcp_patience_statement silentClientsTolerated; decide

theorem tcp_silent_step (env : Env) (pruning : Int) (fdLimit : Nat) (ts : TcpSt) (p : Nat) :
    (tcpStep env pruning fdLimit ts (.silent p)).1.sv = ts.sv
    ∧ (tcpStep env pruning fdLimit ts (.silent p)).2.step.notes = []
    ∧ (tcpStep env pruning fdLimit ts (.silent p)).2.elapsed ≤ Gen.tcpServerTimeoutMs := by
  obtain ⟨h1, h2⟩ := tcpStep_silent_sv env pruning fdLimit ts p
  refine ⟨h1, h2, ?_⟩
  rw [(tcpStep_elapsed env pruning fdLimit ts (.silent p)).1]
  split <;> omega

/-- no accepted socket outlives the request it belongs to: whatever the client sent, nothing is tracked when
the registry waits in `accept` again -/
theorem tcp_no_socket_left (env : Env) (pruning : Int) (fdLimit : Nat) (ts : TcpSt) (ev : TcpEv) :
    (tcpStep env pruning fdLimit ts ev).1.conn = [] :=
  tcpStep_conn env pruning fdLimit ts ev tcp_recv_closes_unreplied

/-- a TCP client's payload is handled exactly as a datagram with those bytes (first MAX_DGRAM_SIZE of them) -/
theorem tcp_client_is_workStep (env : Env) (pruning : Int) (fdLimit : Nat) (ts : TcpSt) (peer : Nat) (host : Val)
    (payload : Bytes) (hc : ts.conn.length < fdLimit) :
    (tcpStep env pruning fdLimit ts (.client peer host payload)).2.step
      = workStep env pruning ts.sv host (payload.take Gen.maxDgramSize) ts.clock := by
  simp [tcpStep, hc]

/-! ### non-vacuity: concrete, non-trivial states and histories -/

def env0 : Env := { upper := id, lower := id, fsetIter := id }
def hostA : Val := .str [49, 48, 46, 48, 46, 48, 46, 49]
def hostB : Val := .str [49, 48, 46, 48, 46, 48, 46, 50]
def sCalc : List Nat := [99, 97, 108, 99]
def sCALC : List Nat := [67, 65, 76, 67]
def sDb : List Nat := [100, 98]

/-- a table with two names, three servers, a tie in refresh time and a stale entry -/
def table : Services :=
  (regLoop env0 (hostB, .int 7) 5000 [sCalc]
    (regLoop env0 (hostA, .int 9) 5000 [sCALC, sDb]
      (regLoop env0 (hostA, .int 7) 1000 [sCalc] []).1).1).1

example : Inv table := (regLoop_spec env0 _ _ _ _ (regLoop_spec env0 _ _ _ _ (regLoop_spec env0 _ _ _ _ inv_nil).1).1).1

example : SvStorable table := by
  intro e he
  have : table = [(.str sCALC, [((hostA, .int 7), 1000), ((hostA, .int 9), 5000), ((hostB, .int 7), 5000)]),
                  (.str [68, 66], [((hostA, .int 9), 5000)])] := by rfl
  rw [this] at he
  simp only [List.mem_cons, List.not_mem_nil, or_false] at he
  rcases he with rfl | rfl <;> refine ⟨by decide, ?_⟩ <;> intro x hx <;>
    simp only [List.mem_cons, List.not_mem_nil, or_false] at hx <;>
    (rcases hx with rfl | rfl | rfl <;> exact ⟨by decide +kernel, by decide +kernel⟩) <;> skip

/-- the query of the statement on that table: case-insensitive, stale entry dropped (and pruned with one
notification), tie answered in registration order -/
example : (answer 3000 table (.str sCALC) 6000).map addrVal = [addrVal (hostA, .int 9), addrVal (hostB, .int 7)]
    ∧ (cmdQuery env0 3000 table (.str sCalc) 6000).notes.length = 1
    ∧ mem (cmdQuery env0 3000 table (.str sCalc) 6000).sv (keyCode (.str sCALC)) (addrCode (hostA, .int 7)) = false
    ∧ mem (cmdQuery env0 3000 table (.str sCalc) 6000).sv (keyCode (.str sCALC)) (addrCode (hostA, .int 9)) = true :=
  ⟨by rfl, by decide +kernel, by decide +kernel, by decide +kernel⟩

/-- `True == 1 == 1.0`: the same port in three spellings is one registration -/
example : addrCode (hostA, .int 1) = addrCode (hostA, .bool true) ∧ addrCode (hostA, .int 1) = addrCode (hostA, .float 0x3FF0000000000000)
    ∧ addrCode (hostA, .int 1) ≠ addrCode (hostA, .str [49]) := by decide +kernel

/-- the three request shapes of the clients are well-formed, encodable and understood -/
example : ∃ e, dump (request [81, 85, 69, 82, 89] [.str sCalc]) = .ok e
    ∧ workStep env0 3000 table hostB e 6000 = finish env0 (callCmd env0 3000 table hostB 6000 .query [.str sCalc]) := by
  obtain ⟨e, he⟩ := enc_ok (request [81, 85, 69, 82, 89] [.str sCalc]) (by decide +kernel) (by decide +kernel)
  exact ⟨e, he, wellformed_is_executed env0 3000 table hostB 6000 _ _ e (.query, 1) (by decide +kernel) he (lookup_QUERY env0) rfl rfl⟩

/-- a history satisfying the hypotheses of `stored_can_always_be_sent`: garbage, a truncated command, a non-text command -/
example : EnvOk env0 ∧ EventsOk [⟨0, hostA, [255, 255]⟩, ⟨5, hostB, [18, 8, 13, 82, 80]⟩, ⟨5, hostB, [18, 8, 13, 82, 80, 89, 67, 85, 2]⟩] := by
  refine ⟨fun _ _ h => h, ?_⟩
  intro e he
  simp only [List.mem_cons, List.not_mem_nil, or_false] at he
  rcases he with rfl | rfl | rfl <;> exact ⟨by decide +kernel, by decide, by decide⟩

/-- `("RPYC", 5, ())`, a non-text command: means nothing, so nothing happens (the finding F5(a), repaired) -/
example : lookupCmd env0 (.int 5) = none := rfl

/-- an unregister by a host that is registered under one name only fires one notification (F5(b), repaired) -/
example : (cmdUnregister table hostB (.int 7)).notes.length = 1 := by decide +kernel

/-- a TCP history with silent clients in front of a query: all accepted, 2 x TIMEOUT later -/
example : (tcpRun env0 3000 1 ⟨table, [], 6000⟩ [.silent 1, .client 2 hostB [255], .silent 3, .client 4 hostB []]).1.clock
    = 6000 + Gen.tcpServerTimeoutMs * 2 :=
  (tcp_liveness env0 3000 1 (by decide) _ ⟨table, [], 6000⟩ rfl).2

end Rpyc.Props.C18
