import RpycModel.Proto.LifeLemmas
import RpycModel.Proto.LifePairLemmas
/-
C11 — every way a connection can end leaves both sides clean, once, nobody hanging.

The automaton is `Rpyc.Proto.Life` (`RpycModel/Proto/Life.lean`): one side of a connection, its flags
(`_closed`, the channel, the hook counter, whether `_cleanup` has completed, whether the tables are cleared)
and its requests (pending, blocked in a wait loop, resolved).  Both sides of a connection are two instances
of it.  Everything below holds after EVERY finite sequence of its events, in any order: local close (also
from inside a callback, also with a `before_closed` hook that serves the connection, raises, or meets EOF),
close received from the peer, both, EOF or an I/O error while receiving (header or body) or while sending a
request or a reply, `serve_all` ending, requests issued and waited for before, during and after.

"Reports closed" is taken at API-call boundaries: `closed ∧ ¬inClose`.  Inside `close()` the flag is set
before the hook runs (`closed ∧ inClose ∧ hookRuns = 0` is reachable: `in_close_window`); a second thread or
the `before_closed` callback can observe that window — it is named in the evidence and not claimed away.
Two threads racing `close()` against a received close are covered as the orders of the events.
-/
namespace Rpyc.Props.C11
open Rpyc.Proto.Life

/-! ### the obligations on the code (facts measured on the live classes by the constants generator, `Gen.Proto.*`) -/

/-- a request made from inside the delivery of a response that meets the end closes the connection -/
theorem obligation_dispatch_closes_on_eof : Gen.Proto.dispatchClosesOnEof = true := dispatch_closes_on_eof
/-- boxing by reference on a closed channel raises EOFError and registers nothing -/
theorem obligation_box_refuses_on_closed_channel : Gen.Proto.boxRefusesOnClosedChannel = true := box_refuses_on_closed_channel
/-- `_cleanup` completes every request still waiting for its answer with EOFError (ready, an error, callbacks run) -/
theorem obligation_cleanup_fails_pending : Gen.Proto.cleanupFailsPending = true := cleanup_fails_pending
/-- a second `_cleanup` on the same connection returns quietly -/
theorem obligation_cleanup_idempotent : Gen.Proto.cleanupIdempotent = true := cleanup_idempotent
/-- when the stream's own close() raises (alone, with a raising disconnect hook, under close() with a raising
`before_closed`), the hook still runs exactly once and all three tables are released -/
theorem obligation_cleanup_survives_channel_close_error : Gen.Proto.cleanupSurvivesChannelCloseError = true :=
  cleanup_survives_channel_close_error

/-! ### (1)–(3) once, exactly once when closed, tables cleared -/

/-- **hook_at_most_once.** The disconnect hook never runs twice. -/
theorem hook_at_most_once {l : Life} (h : Reach l) : l.hookRuns ≤ 1 := by
  have := h.inv.flags.hook
  split at this <;> omega

/-- **closed_implies_hook_once.** By the time a side reports closed (outside a `close()` call in progress)
its disconnect hook has run exactly once. -/
theorem closed_implies_hook_once {l : Life} (h : Reach l) (hc : l.closed = true) (hi : l.inClose = false) :
    l.hookRuns = 1 := by
  have f := h.inv.flags
  have := f.hook
  rw [f.done hc hi] at this
  simpa using this

/-- **tables_cleared_on_close.** A side that reports closed has released what it held for the peer
(`_local_objects`, `_proxy_cache`, `_request_callbacks` cleared and nothing added since) and its channel is
closed — and this stays so whatever happens afterwards, since it holds in every reachable state. -/
theorem tables_cleared_on_close {l : Life} (h : Reach l) (hc : l.closed = true) (hi : l.inClose = false) :
    l.tablesCleared = true ∧ l.chanClosed = true := by
  have f := h.inv.flags
  have := f.cl (f.done hc hi)
  exact ⟨this.2.2, this.2.1⟩

/-! ### (4) closing again -/

/-- **close_idempotent.** `close()` on a closed side changes nothing: no second hook run, no exception, no
state change at all.  (Definitional: it restates the first line of `close()` — `if self._closed: return` — as the
automaton has it; what ties that line to the code is the correspondence, where every run closes twice.) -/
theorem close_idempotent (l : Life) (hc : l.closed = true) : step l .closeAgain = some l := by
  simp [step, hc]

/-- **`close()` never raises AttributeError**: whatever happened while it was under way (the peer's close served inside
`before_closed`, so that `_cleanup` runs a second time in the `finally`), what a `close()` call raises is only a user
hook's own exception or the stream's own close() error.  (Obligation `cleanup_idempotent`, measured on the code.) -/
theorem close_never_raises_attribute_error {l l' : Life} {r : TryRes} (h : step l (.closeEnd r) = some l') :
    ∃ x : Option CloseExc, l'.closeRaised = l.closeRaised ++ x.toList ∧ x ≠ some .attributeError := by
  simp only [step] at h
  split at h
  · simp only [Option.some.injEq] at h
    subst h
    refine ⟨(finishClose r l).2, ?_, finishClose_no_attribute_error r l⟩
    show (finishClose r l).1.closeRaised ++ _ = _
    rw [finishClose_fst]
    simp [(cleanup_lists l).2.2.2.2.2]
  · cases h

/-! ### (6) every ending event leads to closed -/

theorem clean_of_closed {l : Life} (h : Reach l) (hc : l.closed = true) (hi : l.inClose = false) : Clean l :=
  ⟨hc, hi, closed_implies_hook_once h hc hi, (tables_cleared_on_close h hc hi).1, (tables_cleared_on_close h hc hi).2⟩

/-- **local close.** `close()` is always possible; once its `try:` suite is over — however it ended: the
HANDLE_CLOSE written, EOFError, a raising `before_closed` hook — the side is cleanly closed.  (Whether the
call then raises the hook's exception is `close_catchall`'s business; the side is clean either way.) -/
theorem local_close_leads_to_closed {l : Life} (h : Reach l) :
    ∃ l1, step l .closeBegin = some l1 ∧ l1.closed = true ∧
      ∀ r l2, step l1 (.closeEnd r) = some l2 → Clean l2 := by
  by_cases hc : l.closed = true
  · refine ⟨l, close_idempotent l hc, hc, ?_⟩
    intro r l2 hs
    have h2 := reach_step h hs
    simp only [step] at hs
    split at hs
    · simp only [Option.some.injEq] at hs
      have f := finishClose_flags r l h.inv.flags.hook (fun hcl => (h.inv.flags.cl hcl).2.2)
      exact clean_of_closed h2 (by rw [← hs]; exact f.2.2.1) (by rw [← hs]; exact f.2.2.2.1)
    · cases hs
  · refine ⟨{ l with closed := true, inClose := true }, by simp [step, hc], rfl, ?_⟩
    intro r l2 hs
    have h1 : Reach { l with closed := true, inClose := true } :=
      reach_step (e := .closeBegin) h (by simp [step, hc])
    have h2 := reach_step h1 hs
    simp only [step, if_true, Option.some.injEq] at hs
    have f := finishClose_flags r _ h1.inv.flags.hook (fun hcl => (h1.inv.flags.cl hcl).2.2)
    exact clean_of_closed h2 (by rw [← hs]; exact f.2.2.1) (by rw [← hs]; exact f.2.2.2.1)

/-- **close by the peer.** Receiving the peer's HANDLE_CLOSE leaves the side closed with the hook run once
and the tables cleared, and releases every blocked waiter with EOFError. -/
theorem recv_close_leads_to_closed {l l' : Life} (h : Reach l) (hs : step l .recvClose = some l') :
    l'.closed = true ∧ l'.hookRuns = 1 ∧ l'.tablesCleared = true ∧ l'.chanClosed = true
    ∧ (l.inClose = false → Clean l') ∧ Released .eof l l' := by
  have h' := reach_step h hs
  simp only [step] at hs
  split at hs
  · cases hs
  · simp only [Option.some.injEq] at hs
    have c := cleanup_flags l h.inv.flags.hook (fun hcl => (h.inv.flags.cl hcl).2.2)
    have hrel : Released .eof l l' := by
      rw [← hs]
      exact released_of_blocked_eq (cleanup_lists l).2.2.2.1 (resolveBlocked_released _ _)
    have hcl : l'.closed = true := by rw [← hs]; exact c.2.1
    have hin : l'.inClose = l.inClose := by rw [← hs]; exact c.2.2.2.2.2
    refine ⟨hcl, by rw [← hs]; exact c.2.2.2.2.1, by rw [← hs]; exact c.2.2.2.1, by rw [← hs]; exact c.2.2.1, ?_, hrel⟩
    intro hi
    exact clean_of_closed h' hcl (by rw [hin, hi])

/-- **EOF or an I/O error while receiving**, at any byte of the packet: always possible, and the side
becomes closed — cleanly closed unless it happens inside a `close()` call already in progress, whose
`finally` then cleans up (`local_close_leads_to_closed`); every blocked waiter is released. -/
theorem eof_in_serve_leads_to_closed {l : Life} (h : Reach l) (r : TryRes) :
    ∃ l', step l (.eofInServe r) = some l' ∧ l'.closed = true ∧ l'.chanClosed = true
      ∧ (l.inClose = false → Clean l') ∧ l'.blocked = [] := by
  have hf : Flags { l with chanClosed := true } := by
    have f := h.inv.flags
    exact ⟨f.hook, fun hc => ⟨(f.cl hc).1, rfl, (f.cl hc).2.2⟩, f.done, f.inc, f.tab⟩
  have c := closeCall_flags r { l with chanClosed := true } hf
  refine ⟨_, rfl, c.2.1, c.2.2.2 rfl, ?_, rfl⟩
  intro hi
  have h' : Reach (resolveBlocked (excRes (closeCall r { l with chanClosed := true }).2)
      (closeCall r { l with chanClosed := true }).1) := reach_step (e := .eofInServe r) h rfl
  exact clean_of_closed h' c.2.1 (by show (closeCall r _).1.inClose = false; rw [c.2.2.1]; exact hi)

/-- **failure while the response to a request is being written** (the case repaired in F8): always
possible, and the side becomes closed, cleanly unless inside a `close()` call in progress; every blocked
waiter is released.  The result, boxed by reference or not, leaves nothing in the tables. -/
theorem fail_send_reply_leads_to_closed {l : Life} (h : Reach l) (ref : Bool) (r : TryRes) :
    ∃ l', step l (.failSendReply ref r) = some l' ∧ l'.closed = true ∧ l'.chanClosed = true
      ∧ (l.inClose = false → Clean l') ∧ l'.blocked = [] := by
  have h1 : ∃ l', step l (.failSendReply ref r) = some l' := ⟨_, rfl⟩
  obtain ⟨l', hs⟩ := h1
  have h' := reach_step h hs
  refine ⟨l', hs, ?_⟩
  simp only [step, Option.some.injEq] at hs
  have hf : Flags { l with chanClosed := true, tablesCleared := l.tablesCleared && !boxRegisters l.chanClosed ref } := by
    have f := h.inv.flags
    refine ⟨f.hook, ?_, f.done, f.inc, ?_⟩
    · intro hc
      have := f.cl hc
      exact ⟨this.1, rfl, by simp [this.2.1, this.2.2, boxRegisters, box_refuses_on_closed_channel]⟩
    · intro ht
      simp only [Bool.and_eq_true] at ht
      exact f.tab ht.1
  have c := closeCall_flags r _ hf
  have hcl : l'.closed = true := by rw [← hs]; exact c.2.1
  refine ⟨hcl, by rw [← hs]; exact c.2.2.2 rfl, ?_, by rw [← hs]; rfl⟩
  intro hi
  exact clean_of_closed h' hcl (by rw [← hs]; show (closeCall r _).1.inClose = false; rw [c.2.2.1]; exact hi)

/-- **`serve_all` ending**, for whatever reason: its `finally` leaves the side closed. -/
theorem serve_all_exit_leads_to_closed {l : Life} (h : Reach l) (r : TryRes) :
    ∃ l', step l (.serveAllExit r) = some l' ∧ l'.closed = true ∧ (l.inClose = false → Clean l') := by
  have c := closeCall_flags r l h.inv.flags
  refine ⟨_, rfl, c.2.1, ?_⟩
  intro hi
  exact clean_of_closed (reach_step (e := .serveAllExit r) h rfl) c.2.1 (by rw [c.2.2.1]; exact hi)

/-- **failure of a request made while a response is being delivered** (`_unbox` inspecting the class of a first
reference, a result callback issuing a request): the end is met while serving — always possible, the side becomes
closed (cleanly unless inside a `close()` call in progress), every blocked waiter is released.  (Obligation
`dispatch_closes_on_eof`, measured on the code: before the repair only the MSG_REQUEST branch of `_dispatch` closed.) -/
theorem fail_send_nested_leads_to_closed {l : Life} (h : Reach l) (s : Nat) (r : TryRes) (hs : s ∉ l.issued) :
    ∃ l', step l (.failSendNested s r) = some l' ∧ l'.closed = true ∧ l'.chanClosed = true
      ∧ (l.inClose = false → Clean l') ∧ l'.blocked = [] ∧ (s, Res.eof) ∈ l'.outcomes := by
  have hstep : ∃ l', step l (.failSendNested s r) = some l' := by
    simp only [step, dispatch_closes_on_eof, if_true]
    simp [hs]
  obtain ⟨l', hl'⟩ := hstep
  have h' := reach_step h hl'
  refine ⟨l', hl', ?_⟩
  simp only [step, dispatch_closes_on_eof, if_true] at hl'
  split at hl'
  · cases hl'
  simp only [Option.some.injEq] at hl'
  have hf : Flags { l with issued := l.issued ++ [s], chanClosed := true, outcomes := l.outcomes ++ [(s, .eof)] } := by
    have f := h.inv.flags
    exact ⟨f.hook, fun hc => ⟨(f.cl hc).1, rfl, (f.cl hc).2.2⟩, f.done, f.inc, f.tab⟩
  have c := closeCall_flags r _ hf
  have hcl : l'.closed = true := by rw [← hl']; exact c.2.1
  refine ⟨hcl, by rw [← hl']; exact c.2.2.2 rfl, ?_, by rw [← hl']; rfl, ?_⟩
  · intro hi
    exact clean_of_closed h' hcl (by rw [← hl']; show (closeCall r _).1.inClose = false; rw [c.2.2.1]; exact hi)
  · rw [← hl']
    simp only [resolveBlocked, List.mem_append]
    refine Or.inl ?_
    rw [(closeCall_lists r _).1]
    simp

/-- a failure while a TOP-LEVEL request is being written (the application calling `async_request`, not inside `serve()`)
is not met while serving: the requester gets EOFError, the channel is dead, and the code does not close the side (its
next `serve()` or `close()` does).  (A concrete run, by evaluation.) -/
example : ∃ l, run Life.init [.issue 0 false, .failSendRequest 1] = some l ∧ l.closed = false ∧ l.chanClosed = true
      ∧ l.outcomes = [(1, .eof)] ∧ l.pending = [0] :=
  ⟨_, rfl, rfl, rfl, rfl, rfl⟩

/-! ### (5) nobody hangs, nobody gets a value the peer did not send -/

/-- **no_hang (values).** Whatever a requester was given as a value is a response received from the peer
for that very request. -/
theorem no_unsent_value {l : Life} (h : Reach l) (s v : Nat) (hm : (s, Res.value v) ∈ l.outcomes) :
    (s, v) ∈ l.fromPeer := h.inv.vals s v hm

/-- **no_hang (the end reaches everybody who is blocked).** The three ways an end is met while serving —
the peer's close, EOF / I/O error while receiving, failure while replying — release every blocked waiter,
innermost to outermost, with EOFError (or with what `close()` raised in its place: a raising
`before_closed` hook with `close_catchall` off); none of them is given a value. -/
theorem blocked_are_released {l l' : Life} (e : Ev) (hs : step l e = some l')
    (he : e = .recvClose ∨ (∃ r, e = .eofInServe r) ∨ (∃ ref r, e = .failSendReply ref r)) :
    ∃ res, res.isValue = false ∧ Released res l l' := by
  rcases he with rfl | ⟨r, rfl⟩ | ⟨ref, r, rfl⟩
  · simp only [step] at hs
    split at hs
    · cases hs
    · simp only [Option.some.injEq] at hs; subst hs
      exact ⟨.eof, rfl, released_of_blocked_eq (cleanup_lists l).2.2.2.1 (resolveBlocked_released _ _)⟩
  · simp only [step, Option.some.injEq] at hs; subst hs
    exact ⟨_, excRes_isValue _, close_resolve_released r l _ rfl⟩
  · simp only [step, Option.some.injEq] at hs; subst hs
    exact ⟨_, excRes_isValue _, close_resolve_released r l _ rfl⟩

/-- **no_hang (after the end, safety part).** Once the channel is closed — in particular once the side reports
closed — no event gives anybody a value, nobody newly becomes blocked, and the channel stays closed.  (That the
waiters who ARE blocked get released is `blocked_are_released` for the event that ends the side and
`blocked_waiter_next_serve_releases` / `other_side_is_reached` for the steps that lead there.) -/
theorem after_end {l l' : Life} (h : Reach l) (hc : l.chanClosed = true) (e : Ev) (hs : step l e = some l') :
    NoNewValues l l' ∧ l'.blocked.length ≤ l.blocked.length ∧ l'.chanClosed = true := by
  refine ⟨step_nnv l l' e hs ?_, step_no_new_block l l' e hs hc, step_chanClosed l l' e hs h.inv.flags hc⟩
  intro s v he
  subst he
  simp [step, hc] at hs

/-- **no_hang (progress on one side).** A side whose channel is closed (by whatever: a failed request send, a close
inside a callback) and that still has blocked waiters: their next `serve()` — which meets the closed stream — is
always possible, closes the side and releases every one of them without a value.  (The hypothesis `_hc` is not used by
the proof: `eofInServe` is enabled in every state of the automaton, so "progress" here means "the step is enabled and
leads there"; `_hc` records WHEN the code takes that step — a `serve()` on a closed channel meets EOFError.  That the
blocked thread's `poll()` actually returns is the channel law assumed for the pair, not proved: see the PipeStream
finding.) -/
theorem blocked_waiter_next_serve_releases {l : Life} (h : Reach l) (_hc : l.chanClosed = true) (r : TryRes) :
    ∃ l' res, step l (.eofInServe r) = some l' ∧ l'.closed = true ∧ l'.blocked = [] ∧ res.isValue = false
      ∧ Released res l l' := by
  obtain ⟨l', hs, hcl, _, _, hb⟩ := eof_in_serve_leads_to_closed h r
  obtain ⟨res, hv, hrel⟩ := blocked_are_released (.eofInServe r) hs (Or.inr (Or.inl ⟨r, rfl⟩))
  exact ⟨l', res, hs, hcl, hb, hv, hrel⟩

/-- **no_hang (pending results: `ready` / `error` / callbacks).** On a side that reports closed (outside a `close()`
call) every result is ready: the requests already resolved, and every request still waiting for its answer - `_cleanup`
completed it with EOFError (obligation `cleanup_fails_pending`, measured), so `ar.ready` is True, `ar.error` is True, its
`add_callback` functions have run, and `while not ar.ready:` ends.  (Own timeout not passed: an expired result stays
"expired" by AsyncResult's own rule.) -/
theorem pending_results_ready_after_end {l : Life} (h : Reach l) (hc : l.closed = true) (hi : l.inClose = false)
    (s : Nat) : resultReady l s = true := by
  have hcl : l.cleaned = true := h.inv.flags.done hc hi
  simp [resultReady, resultReadyWith, completedByEndWith, hcl, cleanup_fails_pending]

/-- the other behaviour (the code before the repair, `fails = false`): a request pending at a local close is never ready -
the state in which `while not ar.ready:` spins for ever -/
theorem unrepaired_pending_never_ready :
    ∃ l, run Life.init [.issue 0 false, .closeBegin, .closeEnd .sent] = some l ∧ l.closed = true ∧ l.inClose = false
      ∧ resultReadyWith false l 0 = false := by
  refine ⟨_, rfl, ?_, ?_, ?_⟩ <;> decide

/-- **no_hang (pending requests).** After the end, waiting for a request that was pending returns at once:
with EOFError, or its own timeout if that has passed, (or the raising hook's exception) — never a value,
never blocking. -/
theorem pending_fails_after_end {l : Life} (hc : l.chanClosed = true) (s : Nat) (expired : Bool) (r : TryRes)
    (hp : s ∈ l.pending) (hb : s ∉ l.blocked) :
    ∃ l' res, step l (.wait s expired r) = some l' ∧ res.isValue = false ∧ (s, res) ∈ l'.outcomes
      ∧ s ∉ l'.pending ∧ l'.blocked.length ≤ l.blocked.length := by
  cases expired with
  | true =>
    refine ⟨resolveOne s .timeout l, .timeout, by simp [step, hp, hb], rfl, by simp [resolveOne], ?_, ?_⟩
    · simp [resolveOne]
    · exact filter_length_le _ _
  | false =>
    refine ⟨resolveOne s (excRes (closeCall r l).2) (closeCall r l).1, excRes (closeCall r l).2,
      by simp [step, hp, hb, hc], excRes_isValue _, by simp [resolveOne], ?_, ?_⟩
    · simp [resolveOne]
    · simp only [resolveOne]
      rw [(closeCall_lists r l).2.2.2.1]
      exact filter_length_le _ _

/-- **no_hang (requests issued afterwards).** After the end every new request fails with EOFError at once:
it is never pending, never blocks, and — arguments boxed by reference or not — leaves the tables cleared. -/
theorem issued_afterwards_fails {l : Life} (hc : l.chanClosed = true) (s : Nat) (refArg : Bool)
    (hn : s ∉ l.issued) :
    ∃ l', step l (.issue s refArg) = some l' ∧ (s, Res.eof) ∈ l'.outcomes ∧ l'.pending = l.pending
      ∧ l'.blocked = l.blocked ∧ l'.tablesCleared = l.tablesCleared ∧ l'.closed = l.closed := by
  refine ⟨{ l with issued := l.issued ++ [s], outcomes := l.outcomes ++ [(s, .eof)],
                   tablesCleared := l.tablesCleared && !boxRegisters true refArg },
    by simp [step, hn, hc], by simp, rfl, rfl, ?_, rfl⟩
  simp [boxRegisters, box_refuses_on_closed_channel]

/-! ### both sides: two automata joined by the channel (`Proto/LifePair.lean`) -/

/-- **the other side is reached.** In every reachable state of the PAIR: once a side's stream is closed — in particular
once it reports closed, however that came about — its peer cannot keep waiting: each `serve()` of the peer is enabled
(it reads a frame still in flight, e.g. the HANDLE_CLOSE, or end-of-stream), and after at most (frames in flight + 1)
of them the peer is closed too.  With the one-sided theorems: clean, hook once, every blocked waiter released. -/
theorem other_side_is_reached {p : Pair} (h : PReach p) (x : PSide) (r : TryRes)
    (hpeer : (p.get x.peer).chanClosed = true) :
    (∃ p', serveOnce x r p = some p')
    ∧ ((serveUntilClosed x r ((p.to x).length + 1) p).get x).closed = true :=
  ⟨serveOnce_enabled p x r h.inv hpeer, serveUntilClosed_closes x r _ p h.inv hpeer (Nat.lt_succ_self _)⟩

/-- a side that reports closed has a closed stream, so the above applies to its peer -/
theorem closed_side_ends_its_peer {p : Pair} (h : PReach p) (x : PSide) (r : TryRes)
    (hc : (p.get x.peer).closed = true) (hi : (p.get x.peer).inClose = false) :
    ((serveUntilClosed x r ((p.to x).length + 1) p).get x).closed = true := by
  have f := (h.inv.side x.peer).inv.flags
  exact (other_side_is_reached h x r (f.cl (f.done hc hi)).2.1).2

/-- **none returns a value the peer did not send (two-sided).** Whatever value a requester was given is a response its
peer really wrote into the channel for that very request. -/
theorem value_was_written_by_peer {p : Pair} (h : PReach p) (x : PSide) (s v : Nat)
    (hm : (s, Res.value v) ∈ (p.get x).outcomes) : (s, v) ∈ p.sentTo x :=
  (h.inv.side x).got s v ((h.inv.side x).inv.vals s v hm)

/-- A closes (HANDLE_CLOSE written) while B is blocked in a request: B reads the close, is closed with its hook run
once, and its waiter gets EOFError -/
example : ∃ p, prun (Pair.init false false false false)
      [.own .B (.issue 0 false), .own .B (.wait 0 false .eof), .own .A .closeBegin, .closeSent .A] = some p
    ∧ (p.get .A).closed = true ∧ p.toB = [.close]
    ∧ ((serveUntilClosed .B .eof 2 p).get .B).closed = true
    ∧ ((serveUntilClosed .B .eof 2 p).get .B).hookRuns = 1
    ∧ ((serveUntilClosed .B .eof 2 p).get .B).outcomes = [(0, .eof)] :=
  ⟨_, rfl, rfl, rfl, rfl, rfl, rfl⟩

/-! ### the whole statement -/

/-- **C11**, clause by clause, for every reachable state of a side: the hook never runs twice; a side that
reports closed is clean (hook once, tables cleared, channel closed); closing again is a no-op; local close,
close by the peer, EOF / I/O error while receiving, and failure while replying each lead to closed (and
release every blocked waiter); nobody is given a value the peer did not send; after the end no event gives
a value or blocks anybody. -/
def C11_statement : Prop :=
  (∀ l, Reach l → l.hookRuns ≤ 1)
  ∧ (∀ l, Reach l → l.closed = true → l.inClose = false → Clean l)
  ∧ (∀ l, l.closed = true → step l .closeAgain = some l)
  ∧ (∀ l, Reach l → ∃ l1, step l .closeBegin = some l1 ∧ l1.closed = true ∧
      ∀ r l2, step l1 (.closeEnd r) = some l2 → Clean l2)
  ∧ (∀ l l', Reach l → step l .recvClose = some l' →
      l'.closed = true ∧ (l.inClose = false → Clean l') ∧ Released .eof l l')
  ∧ (∀ l r, Reach l → ∃ l', step l (.eofInServe r) = some l' ∧ l'.closed = true
      ∧ (l.inClose = false → Clean l') ∧ l'.blocked = [])
  ∧ (∀ l ref r, Reach l → ∃ l', step l (.failSendReply ref r) = some l' ∧ l'.closed = true
      ∧ (l.inClose = false → Clean l') ∧ l'.blocked = [])
  ∧ (∀ l, Reach l → ∀ s v, (s, Res.value v) ∈ l.outcomes → (s, v) ∈ l.fromPeer)
  ∧ (∀ l l' e, Reach l → l.chanClosed = true → step l e = some l' →
      NoNewValues l l' ∧ l'.blocked.length ≤ l.blocked.length ∧ l'.chanClosed = true)

/-- **The full property holds** of the automaton that follows the code in /repo. -/
theorem C11_holds : C11_statement := by
  refine ⟨fun _ h => hook_at_most_once h, fun _ h hc hi => clean_of_closed h hc hi, close_idempotent,
    fun _ h => local_close_leads_to_closed h, ?_, ?_, ?_, fun _ h => no_unsent_value h,
    fun _ _ e h hc hs => after_end h hc e hs⟩
  · intro l l' h hs
    have := recv_close_leads_to_closed h hs
    exact ⟨this.1, this.2.2.2.2.1, this.2.2.2.2.2⟩
  · intro l r h
    obtain ⟨l', h1, h2, _, h4, h5⟩ := eof_in_serve_leads_to_closed h r
    exact ⟨l', h1, h2, h4, h5⟩
  · intro l ref r h
    obtain ⟨l', h1, h2, _, h4, h5⟩ := fail_send_reply_leads_to_closed h ref r
    exact ⟨l', h1, h2, h4, h5⟩

/-! ### the window the statement's "by the time it reports closed" leaves open, and non-vacuity -/

/-- inside `close()` the flag is already set while the hook has not run yet (what a second thread or the
`before_closed` callback can observe); the theorems above speak about API-call boundaries -/
theorem in_close_window : ∃ l, Reach l ∧ l.closed = true ∧ l.inClose = true ∧ l.hookRuns = 0 :=
  ⟨_, ⟨false, false, [.closeBegin], rfl⟩, rfl, rfl, rfl⟩

/-- a sync request answered, an async one pending and one blocked when EOF is met while serving, a waiter
for the pending one afterwards, a request issued afterwards with a by-reference argument, a second close -/
def sampleEof : List Ev :=
  [.issue 0 false, .wait 0 false .eof, .reply 0 7, .issue 1 true, .issue 2 false, .wait 2 false .eof,
   .eofInServe .eof, .wait 1 false .eof, .issue 3 true, .closeBegin, .serveAllExit .eof]

example : ∃ l, run Life.init sampleEof = some l ∧ l.closed = true ∧ l.hookRuns = 1 ∧ l.tablesCleared = true
    ∧ l.outcomes = [(0, .value 7), (2, .eof), (1, .eof), (3, .eof)] ∧ l.pending = [] ∧ l.blocked = []
    ∧ l.fromPeer = [(0, 7)] ∧ l.closeRaised = [] :=
  ⟨_, rfl, rfl, rfl, rfl, rfl, rfl, rfl, rfl, rfl⟩

/-- `close()` whose `before_closed(self.root)` serves the connection and receives the peer's HANDLE_CLOSE
(a transport that accepts a write after the peer has closed): `_cleanup` runs inside and again in the
`finally`; the second run does nothing (obligation `cleanup_idempotent`: before the repair it raised
AttributeError out of `close()`) — the hook has run once, the side is clean, `close()` returns normally, a
further `close()` is a no-op -/
def sampleBothAtOnce : List Ev :=
  [.closeBegin, .issue 0 false, .wait 0 false .eof, .recvClose, .closeEnd .eof, .closeAgain]

example : ∃ l, run Life.init sampleBothAtOnce = some l ∧ l.closed = true ∧ l.inClose = false ∧ l.hookRuns = 1
    ∧ l.tablesCleared = true ∧ l.outcomes = [(0, .eof)] ∧ l.closeRaised = [] :=
  ⟨_, rfl, rfl, rfl, rfl, rfl, rfl, rfl⟩

/-- close from inside a callback while two wait loops are blocked below it, the handler returning a
reference: the reply cannot be written, both waiters get EOFError, nothing is left in the tables -/
def sampleCloseInCallback : List Ev :=
  [.issue 0 false, .wait 0 false .eof, .issue 1 false, .wait 1 false .eof, .closeBegin, .closeEnd .sent,
   .failSendReply true .eof]

example : ∃ l, run Life.init sampleCloseInCallback = some l ∧ l.closed = true ∧ l.hookRuns = 1
    ∧ l.tablesCleared = true ∧ l.outcomes = [(1, .eof), (0, .eof)] ∧ l.blocked = [] ∧ l.pending = [] :=
  ⟨_, rfl, rfl, rfl, rfl, rfl, rfl, rfl⟩

/-- a side whose DISCONNECT hook raises (user code; e.g. a hook that undoes what `on_connect` installed when the
peer vanished before `on_connect` got that far): EOF while a request is blocked — the hook runs once, everything
is released (the clearing is in `_cleanup`'s `finally`), the waiter is released with the hook's exception in
place of EOFError, the side is clean and closing again is a no-op.  All theorems above hold for such a side
too: `Reach` covers both kinds of hook. -/
example : ∃ l, run (Life.initWith true) [.issue 0 false, .wait 0 false .eof, .eofInServe .eof, .closeAgain] = some l
    ∧ l.closed = true ∧ l.inClose = false ∧ l.hookRuns = 1 ∧ l.tablesCleared = true ∧ l.blocked = []
    ∧ l.outcomes = [(0, .closeExc)] :=
  ⟨_, rfl, rfl, rfl, rfl, rfl, rfl, rfl⟩

example : ∃ l, run (Life.initWith true) [.closeBegin, .closeEnd .sent, .closeAgain] = some l ∧ l.closed = true
    ∧ l.hookRuns = 1 ∧ l.tablesCleared = true ∧ l.closeRaised = [.hook] :=
  ⟨_, rfl, rfl, rfl, rfl, rfl⟩

/-- a side whose STREAM raises from its own close(): `close()` raises that error, yet the hook has run once and
everything is released (obligation `cleanup_survives_channel_close_error`: before the repair `_channel.close()` sat
outside `_cleanup`'s `finally`, and the side stayed closed-but-uncleaned for good) -/
example : ∃ l, run (Life.initWith false true) [.issue 0 true, .closeBegin, .closeEnd .sent, .closeAgain] = some l
    ∧ l.closed = true ∧ l.hookRuns = 1 ∧ l.tablesCleared = true ∧ l.closeRaised = [.channel] :=
  ⟨_, rfl, rfl, rfl, rfl, rfl⟩

/-- a raising `before_closed` hook (`close_catchall` off): the call raises, the side is clean all the same -/
example : ∃ l, run Life.init [.closeBegin, .closeEnd (.hookRaised false)] = some l ∧ l.closed = true
    ∧ l.hookRuns = 1 ∧ l.tablesCleared = true ∧ l.closeRaised = [.user] :=
  ⟨_, rfl, rfl, rfl, rfl, rfl⟩

end Rpyc.Props.C11
