import RpycModel.Proto.HandlersLemmas
import RpycModel.Proto.HandlersBridge
/-
C07 — a hostile peer cannot step outside what the service exposes.

Only the property theorems and their non-vacuity examples live here (namespace Rpyc.Props.C07); the helper lemmas
are in RpycModel/Proto/HandlersLemmas.lean.

Every theorem quantifies over
  * `b : Ctx` — the connection's configuration, the service root, and the ENVIRONMENT: what every primitive operation
    on a Python object answers (any value, any exception, any number of callbacks into the peer, stateful), plus
    `str()` of plain values and the bounds `maxCb`, `depth`;
  * `bursts : List (List Wire)` — any finite sequence of well-framed messages (each an ARBITRARY decoded value, an
    undecodable payload, or an empty frame), grouped in any way into bursts (what is in the inbox at once);
  * `fuel : Nat`.
`run b fuel {} bursts` is the state of a fresh connection after serving them (`serve_all`, nested dispatch while
a handler waits for the peer included).
-/
namespace Rpyc.Props.C07
open Rpyc Rpyc.Handlers

/-- the state of a fresh connection after any message sequence satisfies the invariants -/
theorem reachable_inv (b : Ctx) (fuel : Nat) (bursts : List (List Wire)) :
    Inv b.cfg b.root (run b fuel {} bursts) :=
  (run_ok b fuel bursts {} (Inv.init _ _)).1

/-- **(1) touch_policy**, any configuration: every `getattr/setattr/delattr` the protocol performs through the
default accessor has its operation kind enabled and a name the configuration allows (`_check_attr` let it through),
and every `hasattr` probe of `_check_attr` is on an allowed name.  This covers the operator name of `HANDLE_CMP`
(the CVE-2019-16328 shape), `__exit__` in `HANDLE_CTXEXIT`, both names of `HANDLE_OLDSLICING`, `HANDLE_CALLATTR`. -/
theorem touch_policy (b : Ctx) (fuel : Nat) (bursts : List (List Wire)) (t : Touch)
    (ht : Ev.touch t ∈ (run b fuel {} bursts).log) :
    (∀ op, t.kind = .attr op → b.cfg.perm op = true ∧ plainAllowed b.cfg t.name = true) ∧
    (t.kind = .probe → plainAllowed b.cfg t.name = true) := by
  have hg := (reachable_inv b fuel bursts).good
  have := List.all_eq_true.mp hg _ ht
  simp only [Ev.good, Touch.good] at this
  constructor
  · intro op hk
    rw [hk] at this
    simpa using this
  · intro hk
    rw [hk] at this
    exact this

/-- (1) under the generated default configuration, in the statement's words: only reads, and only of names that
carry the exposed prefix or are on the safe list -/
theorem touch_policy_default (b : Ctx) (hcfg : b.cfg = defaultConfig) (fuel : Nat) (bursts : List (List Wire))
    (t : Touch) (ht : Ev.touch t ∈ (run b fuel {} bursts).log) (op : Op) (hk : t.kind = .attr op) :
    op = .get ∧ (Gen.Handlers.cfgExposedPrefix.isPrefixOf t.name = true ∨ Gen.Handlers.cfgSafe.contains t.name = true) := by
  obtain ⟨hp, hn⟩ := (touch_policy b fuel bursts t ht).1 op hk
  rw [hcfg] at hp hn
  constructor
  · cases op with
    | get => rfl
    | set => exact absurd hp (by decide)
    | del => exact absurd hp (by decide)
  · have e1 : defaultConfig.allowAll = false := by decide
    have e2 : defaultConfig.allowPublic = false := by decide
    have e3 : defaultConfig.exposedPrefix = Gen.Handlers.cfgExposedPrefix := rfl
    have e4 : defaultConfig.safe = Gen.Handlers.cfgSafe := rfl
    simp only [plainAllowed, e1, e2, e3, e4, Bool.false_or, Bool.false_and, Bool.or_false, Bool.or_eq_true,
      Bool.and_eq_true] at hn
    rcases hn with h | h
    · exact Or.inl h.2
    · exact Or.inr h.2

/-- **(3) no_pickle**: no `pickle.dumps` unless `allow_pickle` -/
theorem no_pickle (b : Ctx) (hcfg : b.cfg.allowPickle = false) (fuel : Nat) (bursts : List (List Wire)) (t : Touch)
    (ht : Ev.touch t ∈ (run b fuel {} bursts).log) : t.kind ≠ .pickle := by
  intro hk
  have := List.all_eq_true.mp (reachable_inv b fuel bursts).good _ ht
  simp [Ev.good, Touch.good, hk, hcfg] at this

/-- **(4) no_import**: no `__import__` unless `import_custom_exceptions`; no lookup in `sys.modules` unless one of the
two exception switches is on — whatever exception payload arrives.  (A class is read out of a present module's namespace
as data; there is no attribute access on a module in the model at all.) -/
theorem no_import (b : Ctx) (hi : b.cfg.importCustomExc = false) (fuel : Nat) (bursts : List (List Wire)) (t : Touch)
    (ht : Ev.touch t ∈ (run b fuel {} bursts).log) :
    t.kind ≠ .import_ ∧ (b.cfg.instantiateCustomExc = false → t.kind ≠ .modPresent) := by
  have := List.all_eq_true.mp (reachable_inv b fuel bursts).good _ ht
  refine ⟨?_, fun hj => ?_⟩ <;> intro hk <;> simp_all [Ev.good, Touch.good]

/-- obligation on the interpreter: `hash(slice(...))` works (CPython >= 3.12; measured by the generator on the interpreter
the checks run under), so EVERY decoded value is hashable and looking an arbitrary peer-sent identifier up in the table
(`tableGet`, `decref`) fails with `KeyError`, never `TypeError`, as the model has it -/
theorem interpreter_hashes_slices : Gen.sliceHashable = true := by decide

/-- (3)+(4) for the generated default configuration -/
theorem default_gates_closed :
    defaultConfig.allowPickle = false ∧ defaultConfig.importCustomExc = false ∧ defaultConfig.instantiateCustomExc = false := by
  decide

/-- **(2) touch_caps**: at every point of every history, every object that is an operand of a primitive operation
(subject or argument, at any tuple depth) is the service root or was handed to the protocol code by the environment
earlier in this connection's log (the result of an earlier permitted operation, or an argument the service itself
chose to send) — the protocol never conjures a reference. -/
theorem touch_caps (b : Ctx) (fuel : Nat) (bursts : List (List Wire)) (pre post : List Ev) (t : Touch)
    (h : (run b fuel {} bursts).log = pre ++ .touch t :: post) : ∀ o ∈ t.needs, o ∈ known b.root pre := by
  have hj := (reachable_inv b fuel bursts).just
  rw [h] at hj
  intro o ho
  have := justifiedFrom_split [b.root] pre post t hj o ho
  simpa [known] using this

/-- (2) **the table only holds such objects**: it grows only by boxing results of performed operations, callback
arguments of the service, or the root (`getroot`) -/
theorem table_growth (b : Ctx) (fuel : Nat) (bursts : List (List Wire)) (s : Slot)
    (hs : s ∈ (run b fuel {} bursts).table) : s.o ∈ known b.root (run b fuel {} bursts).log :=
  (reachable_inv b fuel bursts).tbl s hs

/-- (2) **what the peer holds is what was boxed for it**: every entry of the table was put there by `_box`
(`_local_objects.add`) under that very id pack - the `lent` events of the log are exactly the objects passed by
reference in frames written to this peer (results, callback arguments, the root) -/
theorem table_only_lent (b : Ctx) (fuel : Nat) (bursts : List (List Wire)) (s : Slot)
    (hs : s ∈ (run b fuel {} bursts).table) : Ev.lent s.key s.o ∈ (run b fuel {} bursts).log :=
  (reachable_inv b fuel bursts).lent s hs

/-- (2) **a LOCAL_REF yields only an object that was lent to this peer on this connection**: in every reachable state, an
identifier the table knows unboxes to the object stored under it, and that object was boxed for this peer under the
stored id pack; the objects the environment merely returned to the protocol (`known`: modules looked up, `type(obj)`,
attribute values not yet sent) are NOT reachable by identifier unless and until they are boxed -/
theorem local_ref_only_lent (b : Ctx) (fuel : Nat) (bursts : List (List Wire)) (c : Ctx) (fut : List Wire) (f : Nat)
    (key : Val) (s : Slot) (h : lookupSlot (run b fuel {} bursts).table key = some s) :
    unbox (f + 1) (.tuple [.int Gen.Handlers.labelLocalRef, key]) c (run b fuel {} bursts) fut
        = ⟨.ok (.obj s.o), run b fuel {} bursts, fut⟩
      ∧ Ev.lent s.key s.o ∈ (run b fuel {} bursts).log := by
  refine ⟨?_, table_only_lent b fuel bursts s (List.mem_of_find?_eq_some h)⟩
  have e2 : pyEqNat (.int Gen.Handlers.labelLocalRef) Gen.Handlers.labelTuple = false := by
    rw [pyEqNat_int]; decide
  have e3 : pyEqNat (.int Gen.Handlers.labelLocalRef) Gen.Handlers.labelLocalRef = true := by
    rw [pyEqNat_int]; decide
  simp [unbox, resolve, unbox2, unpack2, iterVal, Handlers.liftE, Bind.bind, Pure.pure, e2, e3, tableGet, h]

/-- (2) **only lent objects are nameable, at any tuple depth**: whatever package arrives, if its first pass
(`_resolve_local_refs`) succeeds in a reachable state, then every object of the resolved package is the object of an
entry of THIS connection's table, and that entry was put there by `_box` under that very identifier (`lent` event) -/
theorem nested_local_refs_only_lent (b : Ctx) (fuel : Nat) (bursts : List (List Wire)) (c : Ctx) (fut : List Wire)
    (f : Nat) (pkg : Val) (p : Pkg) (h : (resolve f pkg c (run b fuel {} bursts) fut).r = .ok p) :
    ∀ o ∈ p.objs, ∃ s ∈ (run b fuel {} bursts).table, s.o = o ∧ Ev.lent s.key o ∈ (run b fuel {} bursts).log := by
  intro o ho
  obtain ⟨s, hs, e⟩ := (resolve_table c _ f pkg fut).2.2 p h o ho
  exact ⟨s, hs, e, e ▸ (reachable_inv b fuel bursts).lent s hs⟩

/-- (2) the same for `_unbox` as a whole: every local object in the value `_unbox` builds from ANY package, at any
depth, is a lent table object — the second pass adds proxies for the peer's own objects and nothing else -/
theorem unbox_only_lent (b : Ctx) (fuel : Nat) (bursts : List (List Wire)) (c : Ctx) (fut : List Wire)
    (f : Nat) (pkg : Val) (v : PV) (h : (unbox f pkg c (run b fuel {} bursts) fut).r = .ok v) :
    ∀ o ∈ v.objs, ∃ s ∈ (run b fuel {} bursts).table, s.o = o ∧ Ev.lent s.key o ∈ (run b fuel {} bursts).log := by
  intro o ho
  simp only [unbox, Bind.bind] at h
  have hq := resolve_table c (run b fuel {} bursts) f pkg fut
  cases hm : resolve f pkg c (run b fuel {} bursts) fut with
  | mk r st1 fut1 =>
    rw [hm] at h hq
    cases r with
    | error x => cases h
    | ok p =>
      have ho' := unbox2_objs c f p st1 fut1 v h o ho
      obtain ⟨s, hs, e⟩ := hq.2.2 p rfl o ho'
      exact ⟨s, hs, e, e ▸ (reachable_inv b fuel bursts).lent s hs⟩

/-- (2) whatever was lent had been handed to the protocol code by the environment (a result of a performed operation,
an argument the service chose to send) or is the root: `lent ⊆ known`, and only `lent` is nameable by the peer -/
theorem lent_known (b : Ctx) (fuel : Nat) (bursts : List (List Wire)) (k : Val) (o : Nat)
    (h : Ev.lent k o ∈ (run b fuel {} bursts).log) : o ∈ known b.root (run b fuel {} bursts).log :=
  (reachable_inv b fuel bursts).lentK k o h

/-- (2) **LOCAL_REF resolves only through this connection's table**: in ANY state, an identifier that is not a key
of the table (forged, stale, harvested from another connection) makes `_unbox` raise `KeyError` and changes nothing;
an identifier that is a key yields exactly the object stored under it. -/
theorem local_ref_only_table (c : Ctx) (st : St) (fut : List Wire) (f : Nat) (key : Val) :
    (lookupSlot st.table key = none →
      unbox (f + 1) (.tuple [.int Gen.Handlers.labelLocalRef, key]) c st fut = ⟨.error (Exc.ofErr .keyError), st, fut⟩) ∧
    (∀ s, lookupSlot st.table key = some s →
      unbox (f + 1) (.tuple [.int Gen.Handlers.labelLocalRef, key]) c st fut = ⟨.ok (.obj s.o), st, fut⟩) := by
  have e2 : pyEqNat (.int Gen.Handlers.labelLocalRef) Gen.Handlers.labelTuple = false := by
    rw [pyEqNat_int]; decide
  have e3 : pyEqNat (.int Gen.Handlers.labelLocalRef) Gen.Handlers.labelLocalRef = true := by
    rw [pyEqNat_int]; decide
  constructor
  · intro h
    simp [unbox, resolve, unpack2, iterVal, Handlers.liftE, Bind.bind, Pure.pure, e2, e3, tableGet, h]
  · intro s h
    simp [unbox, resolve, unbox2, unpack2, iterVal, Handlers.liftE, Bind.bind, Pure.pure, e2, e3, tableGet, h]

/-- (2) **every identifier of a package is resolved before anything else happens**: the first pass of `_unbox`
(`_resolve_local_refs`) reads the table and changes nothing — no proxy is created and no request goes to the peer
(`HANDLE_INSPECT`) until every LOCAL_REF of the package, at any tuple depth, has been found in the table -/
theorem local_refs_resolved_first (c : Ctx) (f : Nat) (pkg : Val) (st : St) (fut : List Wire) :
    (resolve f pkg c st fut).st = st ∧ (resolve f pkg c st fut).fut = fut :=
  resolve_quiet c f pkg st fut

/-- **(5) outcome_total**, per request: whatever the payload, `_dispatch_request` logs the request, then balanced
activity (the handler's touches; nested requests, each with its own answer), then EXACTLY ONE answer carrying this
request's sequence value: a reply, an exception reply, or an abort record (the exception is re-raised in the
serving thread — `KeyboardInterrupt` under the default configuration — or nothing can be written any more). -/
theorem outcome_total_request (c : Ctx) (hA : AwaitOK c) (seq raw : Val) (st : St) (fut : List Wire)
    (hI : Inv c.cfg c.root st) :
    ∃ l e, (dispatchRequest seq raw c st fut).st.log = st.log ++ [.request seq] ++ l ++ [e] ∧ balL l = 0 ∧
      e.answers seq :=
  let ⟨_, l, e, h1, h2, _, h4⟩ := dispatchRequest_step c hA seq raw st fut hI
  ⟨l, e, h1, h2, h4⟩

/-- **(5) outcome_total**, per history: after any message sequence the number of requests dispatched equals the number
of replies + exception replies + abort records; replies / exceptions from the peer and garbage never produce a frame
with a request's answer (they are delivered, dropped, ignored, or end the connection) -/
theorem outcome_total (b : Ctx) (fuel : Nat) (bursts : List (List Wire)) : balL (run b fuel {} bursts).log = 0 := by
  obtain ⟨l, e, hb⟩ := (run_ok b fuel bursts {} (Inv.init _ _)).2.ext
  have : ({} : St).log = [] := rfl
  rw [e, this, List.nil_append]; exact hb

/-- an exception that leaves `serve()` at the top level (an undecodable or malformed message, a hostile reply whose
payload does not unbox, an abort) ends this one connection: `serve_all` records it and closes -/
theorem top_level_error_ends (b : Ctx) (f : Nat) (st : St) (w : Wire) (rest : List Wire) (x : Exc) (st' : St)
    (fut' : List Wire) (hI : Inv b.cfg b.root st) (hc : st.closed = false)
    (h : dispatch w (b.tie f) st rest = ⟨.error x, st', fut'⟩) :
    Ev.ended x.cls ∈ (serveBurst b (f + 1) st (w :: rest)).log := by
  have hA : AwaitOK (b.tie f) := awaitF_ok b f
  have h1 : Inv b.cfg b.root (dispatch w (b.tie f) st rest).st :=
    (Sat.dispatch hA (need := []) w st rest hI (by intro o ho; cases ho)).1
  rw [h] at h1
  have hI2 := h1.pushNT (.ended x.cls) rfl (by intro t h; cases h)
  obtain ⟨l, e, _⟩ := (closeConn_ok (b.tie f) hA _ hI2).2.ext
  unfold serveBurst
  simp only [hc, Bool.false_eq_true, if_false, h]
  rw [e]
  simp

/-- the decision function these theorems are about is the one C06 characterises (`Rpyc.Policy.checkAttr`), and the
import gate is the one C09 characterises (`Rpyc.Vinegar.importAttempted`): the layers are tied, not copies drifting apart -/
theorem policy_and_loader_gates_are_the_layers (c : Config) (o : Bool) (has : PyStr → Bool) (n : PyStr) (op : Op)
    (env : Vinegar.Env) (m : Val) :
    checkAttr c has n op = Policy.checkAttr (Bridge.toPolicy c o) has n (Bridge.toOp op) ∧
    (c.importCustomExc && !env.loaded m) = Vinegar.importAttempted (Bridge.toRecv c o) env m ∧
    Bridge.toPolicy defaultConfig Gen.Policy.cfgInstantiateOldstyleExceptions = Policy.defaultConfig :=
  ⟨Bridge.checkAttr_eq c o has n op, Bridge.importGate_eq c o env m, Bridge.defaultConfig_eq⟩

/-- **(6) closed_world**: the handler table of the source is exactly the one the model dispatches on -/
theorem closed_world : Gen.Handlers.handlerTable = modelledHandlers := by decide

/-- the numbers of positional arguments the handlers accept are the ones the model binds argument lists against -/
theorem closed_world_params : Gen.Handlers.handlerArity = modelledArity := by decide

/-- the primitive touches in the handler bodies are the ones the model was transcribed from -/
theorem closed_world_touches : Gen.Handlers.handlerTouches = modelledTouches := by decide

/-- building the class of a proxy after the peer's HANDLE_INSPECT answer resolves the peer-chosen dotted name by lookups in
`sys.modules` and a read of the module's namespace (`classLookup`): the calls of `netref.class_factory` are the modelled
ones — no `getattr` on a module (which would run a module-level `__getattr__`), nothing that imports -/
theorem closed_world_class_factory : Gen.Handlers.classFactoryCalls = modelledClassFactoryCalls := by decide

/-- `classLookup` tries the whole name, then every dotted prefix from the right, e.g. for `a.b.C` -/
example : dotCuts [97, 46, 98, 46, 67] = [([97, 46, 98, 46, 67], []), ([97, 46, 98], [67]), ([97], [98, 46, 67])] := by decide

/-! ### non-vacuity: concrete histories, evaluated by the kernel -/

/-- an environment: the root's id pack (for GETROOT), "the type has no hook", "no exposed twin" (for `secret`), then for
`val`: no hook, `hasattr(root, "exposed_val")` is true, `getattr` returns 7; finally `on_disconnect` returns -/
def sampleEnv : Nat → Move
  | 0 => .done (.ret (.imm (.tuple [.str [115, 118, 99], .int 10, .int 20])))
  | 1 => .done (.ret (.imm .none))
  | 2 => .done (.ret (.imm (.bool false)))
  | 3 => .done (.ret (.imm .none))
  | 4 => .done (.ret (.imm (.bool true)))
  | 5 => .done (.ret (.imm (.int 7)))
  | 6 => .done (.ret (.imm .none))
  | _ => .done (.raise { cls := "Unexpected" })

def sampleCtx : Ctx :=
  { cfg := defaultConfig, root := 0, env := sampleEnv, strOf := fun _ => [], maxCb := 3, depth := 10,
    await := fun st _ fut => (.raise (Exc.ofErr .notModelled), st, fut) }

def rootId : Val := .tuple [.str [115, 118, 99], .int 10, .int 20]
def getattrMsg (seq : Int) (idp : Val) (name : List Nat) : Wire :=
  .val (.tuple [.int 1, .int seq, .tuple [.int 4, .tuple [.int 2, .tuple [.tuple [.int 3, idp], .tuple [.int 1, .str name]]]]])

/-- GETROOT; GETATTR(root, "secret"); GETATTR with a forged id (instance id + 8); GETATTR(root, "val");
a reply nobody asked for; a value that is not a message (ends the connection) -/
def sampleMsgs : List (List Wire) :=
  [[.val (.tuple [.int 1, .int 7, .tuple [.int 3, .tuple [.int 1, .tuple []]]])],
   [getattrMsg 8 rootId [115, 101, 99, 114, 101, 116],
    getattrMsg 9 (.tuple [.str [115, 118, 99], .int 10, .int 28]) [115, 101, 99, 114, 101, 116],
    getattrMsg 10 rootId [118, 97, 108]],
   [.val (.tuple [.int 2, .int 0, .tuple [.int 1, .int 5]]), .val (.int 5)]]

def evTag : Ev → String
  | .request _ => "request" | .touch t => (if t.kind == .probe then "probe" else if t.kind == .hookLookup then "hook?"
      else if t.kind == .attr .get then "getattr" else if t.kind == .idpack then "idpack" else if t.kind == .cleanup then "cleanup" else "touch")
  | .answer _ => "answer" | .reply _ _ => "reply" | .exc _ cls => "exc:" ++ cls | .ignored _ => "ignored"
  | .ended cls => "ended:" ++ cls | .outReq _ _ _ => "req" | .cleaned => "cleaned" | .lent _ _ => "lent" | _ => "other"

/-- the whole history, event by event: `secret` is refused after one probe and no access; the forged id is refused with
KeyError before anything is touched; `val` is served through its exposed twin; the stray reply is ignored; the
non-message ends the connection (HANDLE_CLOSE to the peer, cleanup, `on_disconnect`) -/
example : (run sampleCtx 20 {} sampleMsgs).log.map evTag =
    ["request", "idpack", "answer", "lent", "reply",
     "request", "hook?", "answer", "probe", "answer", "exc:AttributeError",
     "request", "exc:KeyError",
     "request", "hook?", "answer", "probe", "answer", "getattr", "answer", "reply",
     "ignored", "ended:TypeError", "req", "cleaned", "cleanup", "answer"] := by decide +kernel

/-- so the hypotheses of (1) are met by a real access: the one `getattr` of that history is on `exposed_val` -/
example : (run sampleCtx 20 {} sampleMsgs).log.any (fun e => match e with
    | .touch t => t.kind == .attr .get && t.name == [101, 120, 112, 111, 115, 101, 100, 95, 118, 97, 108]
    | _ => false) = true := by decide +kernel

/-- after the first two bursts the table holds exactly the root (count 0); the closed connection holds nothing -/
example : (run sampleCtx 20 {} (sampleMsgs.take 2)).table.map (fun s => s.o) = [0]
    ∧ (run sampleCtx 20 {} sampleMsgs).table.length = 0 := by decide +kernel

/-- and every request of it was answered exactly once -/
example : balL (run sampleCtx 20 {} sampleMsgs).log = 0 := outcome_total _ _ _

/-- `AwaitOK`, the hypothesis of the per-request theorem, holds for the waiting function the runs use -/
example (b : Ctx) (f : Nat) : AwaitOK (b.tie f) := awaitF_ok b f

/-- cross-type equality in lookups is modelled: label `3.0`, handler `True`, message type `1+0j` -/
example : pyEqNat (.float 0x4008000000000000) 3 = true ∧ pyEqNat (.bool true) 1 = true
    ∧ pyEqNat (.complex 0x3FF0000000000000 0) 1 = true ∧ pyEqNat (.float 0x3FF8000000000000) 1 = false := by decide +kernel

end Rpyc.Props.C07
