import RpycModel.Proto.Handlers
/-
C07 — a hostile peer cannot step outside what the service exposes.
(property theorems only; helper lemmas are in RpycModel/Proto/HandlersLemmas.lean)
-/
namespace Rpyc.Props.C07
open Rpyc Rpyc.Handlers

/-- **closed world**: the handler table of the source is exactly the one the model dispatches on -/
theorem closed_world : Gen.Handlers.handlerTable = modelledHandlers := by decide

/-- the parameter lists of the handlers are the ones the model binds arguments against -/
theorem closed_world_params : Gen.Handlers.handlerParams = modelledParams := by decide

/-- the primitive touches in the handler bodies are the ones the model was transcribed from -/
theorem closed_world_touches : Gen.Handlers.handlerTouches = modelledTouches := by decide

end Rpyc.Props.C07
