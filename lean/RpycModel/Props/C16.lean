import RpycModel.Srv.ServerContain
/-
C16 — a server keeps serving good clients whatever bad clients do.
Only property theorems and their non-vacuity examples live here (namespace Rpyc.Props.C16); the automaton is
RpycModel/Srv/Server.lean, the containment relation `Eff` and everything derived from it are in
RpycModel/Srv/ServerEffects.lean and ServerContain.lean.

Quantifier: every sequence (no bound on length or on the number of clients) of client actions — connect with good,
failing or no credentials, call, send ANY byte string (`Op.ofBytes`: cut into frames by `classify`, which is total on
all byte strings), disconnect gracefully or abruptly at any point — for the threaded, forking and pool automata, with
and without an authenticator.

On the pinned code the statement is FALSE for the pool server: `nbThreads` clients that hold an incomplete frame open
occupy every worker, and with an authenticator one client that sends no credentials occupies the accept thread.
`C16_statement` stays visible, `C16_pool_counterexample` / `C16_pool_stall_counterexample` refute it with concrete
witnesses, `C16_partial` proves everything else.
-/
namespace Rpyc.Props.C16
open Rpyc Rpyc.Srv

/-! ### the statements -/

/-- (1) the accept loop is alive, free and has taken every connection, after any history of client actions -/
def AcceptSurvives (cfg : Cfg) : Prop :=
  ∀ ops : List Op, (∀ op ∈ ops, op.c16 = true) → Accepting (run (init cfg) ops)

/-- (2) a well-behaved client that is being served stays served and gets every request answered - pings, calls that lend
it an object, uses of object ids (its own, foreign, released), releases - with the reply its OWN history entitles it to
(`answered`: a request/response ledger that the other clients' events do not enter), whatever the history before and
whatever the other clients do meanwhile -/
def GoodClientUnaffected (cfg : Cfg) : Prop :=
  ∀ (before : List Op) (g : Nat) (ops : List Op), (∀ op ∈ before, op.c16 = true) →
    Ready ((run (init cfg) before).cli g) → OthersAndCalls g ops →
    answered g ((run (init cfg) before).cli g).table ops (runObs (run (init cfg) before) ops)

/-- (3) distinct connections have distinct service instances and distinct object tables, always -/
def Isolation (cfg : Cfg) : Prop := ∀ ops : List Op, Iso (run (init cfg) ops)

/-- the configurations of the code as it is: how the pool's end-of-stream path treats a reused descriptor number is read
off the live code on every run (`Gen.Srv.poolDropSparesNewcomer`), and so are the accept loop's reaction to a failing
`accept()` and the order in which the pool's `close()` ends streams and joins workers -/
def ofCode (cfg : Cfg) : Prop :=
  cfg.spare = Gen.Srv.poolDropSparesNewcomer ∧ cfg.acceptTough = Gen.Srv.acceptSurvivesTransientError ∧
  cfg.closeUnblocks = Gen.Srv.poolCloseUnblocksWorkers

/-- the property at full strength, for the server kinds of its quantifier -/
def C16_statement : Prop :=
  ∀ cfg : Cfg, ofCode cfg → cfg.kind ≠ .oneshot → (cfg.kind = .pool → 0 < cfg.nb) →
    AcceptSurvives cfg ∧ GoodClientUnaffected cfg ∧ Isolation cfg

/-! ### threaded and forking servers: everything holds -/

/-- **accept_survives** (threaded, forking): for every sequence of client actions — hostile bytes, truncated frames,
absurd lengths, stalled or failing authentication, abrupt disconnects — the listener stays open, the accept thread alive
and free, and no connection is left waiting -/
theorem accept_survives (cfg : Cfg) (hk : cfg.kind = .threaded ∨ cfg.kind = .forking) : AcceptSurvives cfg := by
  intro ops hops
  refine accepting_run (accepting_init cfg) ?_ ops hops ?_
  · rcases hk with h | h
    · exact Or.inl h
    · exact Or.inr (Or.inl h)
  · intro op _ k; right
    rcases hk with h | h <;> simp [Srv.init, h]

/-- ... hence a new well-behaved client is served at once, by a service instance of its own -/
theorem new_client_served (cfg : Cfg) (hk : cfg.kind = .threaded ∨ cfg.kind = .forking) (ops : List Op)
    (hops : ∀ op ∈ ops, op.c16 = true) (g : Nat) (hg : ((run (init cfg) ops).cli g).phase = .absent) :
    ∃ t, step (run (init cfg) ops) (.connect g .good) = .ok (t, .ok) ∧ Ready (t.cli g) ∧
      (t.cli g).inst = some (run (init cfg) ops).nextInst := by
  have hne : (run (init cfg) ops).cfg.kind ≠ .oneshot := by
    rw [run_cfg]; rcases hk with h | h <;> simp [Srv.init, h]
  obtain ⟨t, h1, h2, h3, _⟩ := connect_served (accept_survives cfg hk ops hops) hne g hg
  exact ⟨t, h1, h2, h3⟩

/-- **isolation** (every kind, every history, the server's own close included): no two connections share a service
instance or an entry of their object tables; both are allocated from counters -/
theorem isolation (cfg : Cfg) : Isolation cfg := fun ops => (Iso.init cfg).run ops

/-- **good_client_unaffected** (threaded, forking): after any history, whatever the other clients do — each of them
only ever changes its own record (`others_untouched`) — every request of a served client, of whatever kind, is answered
as its own history says -/
theorem good_client_unaffected (cfg : Cfg) (hk : cfg.kind = .threaded ∨ cfg.kind = .forking) :
    GoodClientUnaffected cfg := by
  intro before g ops _ hr hops
  have hpool : cfg.kind ≠ .pool := by rcases hk with h | h <;> simp [h]
  exact answered_run g (by rw [run_cfg]; exact hk) (run_queue cfg hpool before) (isolation cfg before) hr ops hops

/-- ... so an object lent to one client does not resolve on another client's connection: the call fails there -/
theorem foreign_reference_fails (cfg : Cfg) (hk : cfg.kind ≠ .pool) (ops : List Op) (i g oid : Nat) (hne : i ≠ g)
    (ho : oid ∈ ((run (init cfg) ops).cli i).table) (hr : Ready ((run (init cfg) ops).cli g)) :
    ∃ t, step (run (init cfg) ops) (.call g (.probe oid)) = .ok (t, .reply .keyError) := by
  obtain ⟨t, ht, _⟩ := call_answered g (.probe oid) (by rw [run_cfg]; exact hk) hr
  rw [foreign_id_fails (isolation cfg ops) i g oid hne ho] at ht
  exact ⟨t, ht⟩

/-! ### the pool server: what holds, under which hypotheses -/

/-- **accept_survives** for the pool, as long as no client stalls its authentication: hostile frames, failing
credentials and abrupt disconnects never occupy or kill the accept thread -/
theorem accept_survives_pool (cfg : Cfg) (hk : cfg.kind = .pool) (ops : List Op) (hops : ∀ op ∈ ops, op.c16 = true)
    (hns : ∀ op ∈ ops, ∀ k, op ≠ .connect k .silent) : Accepting (run (init cfg) ops) := by
  refine accepting_run (accepting_init cfg) ?_ ops hops (fun op hop k => Or.inl (hns op hop k))
  exact Or.inr (Or.inr ⟨hk, fun j => by simp [Srv.init]⟩)

/-- **good_client_unaffected** for the pool, under the hypothesis that fewer than `nbThreads` workers are blocked at
every point of the run (the proof forces it: see `C16_pool_counterexample`): whatever the other clients do, every call
of a served client is answered correctly -/
theorem good_client_unaffected_pool (cfg : Cfg) (hk : cfg.kind = .pool) (hspare : cfg.spare = true) (before : List Op)
    (g : Nat) (ops : List Op)
    (hb : ∀ op ∈ before, op.c16 = true) (hr : Ready ((run (init cfg) before).cli g))
    (hfree : FreeWorkerAlong (run (init cfg) before) ops) (hops : OthersAndCalls g ops) :
    answered g ((run (init cfg) before).cli g).table ops (runObs (run (init cfg) before) ops) := by
  obtain ⟨hup, hq⟩ := run_pool_inv cfg hk before hb
  exact answered_run_pool g (by rw [run_cfg]; exact hk) (by rw [run_cfg]; exact hspare) hup hq (isolation cfg before) hr
    ops hfree hops

/-- **a new client of the pool is served** at once, by a service instance of its own, after any history in which nobody
stalled its authentication -/
theorem new_client_served_pool (cfg : Cfg) (hk : cfg.kind = .pool) (ops : List Op)
    (hops : ∀ op ∈ ops, op.c16 = true) (hns : ∀ op ∈ ops, ∀ k, op ≠ .connect k .silent) (g : Nat)
    (hg : ((run (init cfg) ops).cli g).phase = .absent) :
    ∃ t, step (run (init cfg) ops) (.connect g .good) = .ok (t, .ok) ∧ Ready (t.cli g) ∧
      (t.cli g).inst = some (run (init cfg) ops).nextInst := by
  have hne : (run (init cfg) ops).cfg.kind ≠ .oneshot := by rw [run_cfg]; simp [Srv.init, hk]
  obtain ⟨t, h1, h2, h3, _⟩ := connect_served (accept_survives_pool cfg hk ops hops hns) hne g hg
  exact ⟨t, h1, h2, h3⟩

/-- each step of it: a served client's request is answered as soon as one worker is free -/
theorem pool_call_answered (cfg : Cfg) (hk : cfg.kind = .pool) (ops : List Op) (hops : ∀ op ∈ ops, op.c16 = true)
    (g : Nat) (r : ReqKind) (hr : Ready ((run (init cfg) ops).cli g))
    (hfree : (run (init cfg) ops).blocked.length < cfg.nb) :
    ∃ t, step (run (init cfg) ops) (.call g r) =
      .ok (t, .reply (expected ((run (init cfg) ops).cli g) (run (init cfg) ops).nextObj r)) ∧ Ready (t.cli g) := by
  obtain ⟨hup, hq⟩ := run_pool_inv cfg hk ops hops
  have hk' : (run (init cfg) ops).cfg.kind = .pool := by rw [run_cfg]; exact hk
  have hpu : (run (init cfg) ops).poolUp = true := by rw [hup.2.2.2.2]; simp [hk']
  obtain ⟨t, h1, h2, _⟩ := call_answered_pool g r hk' hpu hq (by rw [run_cfg]; exact hfree) hr
  exact ⟨t, h1, h2⟩

/-- **a foreign object id does not resolve on the pool either**: used on another client's connection, as soon as a worker
is free, the call is answered - with a failure -/
theorem foreign_reference_fails_pool (cfg : Cfg) (hk : cfg.kind = .pool) (ops : List Op)
    (hops : ∀ op ∈ ops, op.c16 = true) (i g oid : Nat) (hne : i ≠ g)
    (ho : oid ∈ ((run (init cfg) ops).cli i).table) (hr : Ready ((run (init cfg) ops).cli g))
    (hfree : (run (init cfg) ops).blocked.length < cfg.nb) :
    ∃ t, step (run (init cfg) ops) (.call g (.probe oid)) = .ok (t, .reply .keyError) := by
  obtain ⟨t, ht, _⟩ := pool_call_answered cfg hk ops hops g (.probe oid) hr hfree
  rw [foreign_id_fails (isolation cfg ops) i g oid hne ho] at ht
  exact ⟨t, ht⟩

/-! ### the pool server: the statement fails (findings `C16:pool:>=nbThreads-incomplete-frame-clients`,
`C16:pool:auth-stall-blocks-accept`) -/

def poolCfg : Cfg :=
  { kind := .pool, auth := false, nb := 2, spare := Gen.Srv.poolDropSparesNewcomer,
    acceptTough := Gen.Srv.acceptSurvivesTransientError, closeUnblocks := Gen.Srv.poolCloseUnblocksWorkers }
/-- three clients connect; two of them send the header of a frame announcing 0xFFFFFFFF bytes and nothing else -/
def starve : List Op :=
  [.connect 1 .good, .connect 2 .good, .connect 3 .good,
   Op.ofBytes 1 ⟨fun _ => none, fun _ => true⟩ [255, 255, 255, 255, 0],
   Op.ofBytes 2 ⟨fun _ => none, fun _ => true⟩ [255, 255, 255, 255, 0]]

/-- the witness as a run: both workers are blocked in a read, client 3 is connected and served, and its call is left
unanswered; when one hostile client goes away the queued request is answered and calls work again -/
theorem C16_pool_witness :
    classify ⟨fun _ => none, fun _ => true⟩ [255, 255, 255, 255, 0] = [.part] ∧
    (run (init poolCfg) starve).blocked.length = 2 ∧
    runObs (run (init poolCfg) starve) [.call 3 .ping, .abruptClose 1, .call 3 .ping] =
      [some .timeout, some .none, some (.reply .pong)] := by
  decide

/-- **C16_pool_counterexample**: the full statement is false on the pinned code (worker starvation) -/
theorem C16_pool_counterexample : ¬ C16_statement := by
  intro h
  have h2 := (h poolCfg ⟨rfl, rfl, rfl⟩ (by decide) (by decide)).2.1 starve 3 [.call 3 .ping] (by decide)
    (by simp only [Ready]; decide) (by intro op hop; simp at hop; subst hop; exact ⟨rfl, fun _ => ⟨.ping, rfl⟩⟩)
  have hobs : runObs (run (init poolCfg) starve) [.call 3 .ping] = [some .timeout] := by decide
  rw [hobs] at h2
  simp [answered, callOf] at h2

def stallCfg : Cfg :=
  { kind := .pool, auth := true, nb := 2, spare := Gen.Srv.poolDropSparesNewcomer,
    acceptTough := Gen.Srv.acceptSurvivesTransientError, closeUnblocks := Gen.Srv.poolCloseUnblocksWorkers }
/-- a client connects to a pool server with an authenticator and sends nothing -/
def stall : List Op := [.connect 1 .good, .connect 2 .silent]

/-- the witness: the accept thread is occupied by client 2; client 3 connects at socket level, is not served, its call is
left unanswered; when client 2 goes away it is served -/
theorem C16_pool_stall_witness :
    (run (init stallCfg) stall).acceptBusy = some 2 ∧
    runObs (run (init stallCfg) stall) [.call 1 .ping, .connect 3 .good, .call 3 .ping, .abruptClose 2, .call 3 .ping] =
      [some (.reply .pong), some .ok, some .timeout, some .none, some (.reply .pong)] := by
  decide

/-- **C16_pool_stall_counterexample**: the full statement is false on the pinned code (accept thread stalled) -/
theorem C16_pool_stall_counterexample : ¬ C16_statement := by
  intro h
  have h1 := ((h stallCfg ⟨rfl, rfl, rfl⟩ (by decide) (by decide)).1 stall (by decide)).free
  revert h1
  decide

/-! ### the pool server and reused descriptor numbers (`C16:pool:fd-reuse-drops-newcomer`, repaired) -/

/-- **the obligation the pool theorems rest on**: the code's end-of-stream path removes only the connection it was
serving.  It is a measured fact of the live code (`harness/gen_server.py` runs the real `_serve_requests` on stand-in
connections); on a tree where `_drop_connection(fd)` pops whatever `fd_to_conn` holds under that number, this fails -/
theorem pool_drop_spares_newcomer : Gen.Srv.poolDropSparesNewcomer = true := by decide

/-- with it, the blocking `on_disconnect` of a departing client changes nothing for anybody else, whoever connected in the
meantime and whatever descriptor number they were given: only that client's own record changes -/
theorem release_touches_only_its_own (s t : St) (o : Obs) (k g : Nat) (hk : s.cfg.kind = .pool)
    (hs : s.cfg.spare = true) (hst : step s (.releaseHook k) = .ok (t, o)) (hg : g ≠ k)
    (hb : (s.cli g).phase ≠ .backlog) (hq : g ∉ s.queue) : Same (s.cli g) (t.cli g) :=
  others_untouched_pool hk hs (.releaseHook k) rfl g (by simp [Op.client, Ne.symm hg]) hb hq
    (by intro _ _ h; cases h) hst

/-- the interleaving: client 1 arms its service's `on_disconnect` to block and goes away; a worker closes its connection
(descriptor number free) and sits in the hook; client 3 connects and is given that number; the hook returns -/
def reuse : List Op :=
  [.connect 1 .good, .call 1 .arm, .connect 2 .good, .abruptClose 1, .connectReuse 3 1, .call 3 .ping, .releaseHook 1]

/-- repaired code: the newcomer is served before and after the release, nothing remains of client 1 -/
theorem reuse_ok :
    runObs (run (init { kind := .pool, auth := false, nb := 2, spare := true }) reuse) [.call 3 .ping, .call 2 .ping] =
      [some (.reply .pong), some (.reply .pong)] ∧
    ((run (init { kind := .pool, auth := false, nb := 2, spare := true }) reuse).cli 1).inFd = false ∧
    ((run (init { kind := .pool, auth := false, nb := 2, spare := true }) reuse).cli 3).inFd = true := by decide

/-- runs with reused descriptor numbers and blocking hooks are runs of the alphabet: the run-level theorems cover them -/
example : ∀ op ∈ reuse, op.c16 = true := by decide
example : Accepting (run (init { kind := .pool, auth := false, nb := 2 }) reuse) :=
  accept_survives_pool _ rfl reuse (by decide) (by intro op hop k h; subst h; simp [reuse] at hop)
/-- client 2, served all along, is answered whatever kind of request it makes while client 1 leaves through its blocking
hook and client 3 arrives on the reused number (`good_client_unaffected_pool` applies: its hypotheses hold) -/
example : Ready ((run (init { kind := .pool, auth := false, nb := 3 }) (reuse.take 3)).cli 2) ∧
    FreeWorkerAlong (run (init { kind := .pool, auth := false, nb := 3 }) (reuse.take 3))
      [.abruptClose 1, .call 2 .lend, .connectReuse 3 1, .call 2 (.probe 0), .releaseHook 1, .call 2 .ping] ∧
    runObs (run (init { kind := .pool, auth := false, nb := 3 }) (reuse.take 3))
      [.abruptClose 1, .call 2 .lend, .connectReuse 3 1, .call 2 (.probe 0), .releaseHook 1, .call 2 .ping] =
      [some .none, some (.reply (.ref 0)), some .ok, some (.reply .resolved), some .none, some (.reply .pong)] :=
  ⟨by simp only [Ready]; decide, FreeWorkerAlong.of_bool _ _ (by decide), by decide⟩

/-- **C16_pool_fd_reuse_counterexample**: with the pinned `_drop_connection(fd)` (remove whatever is stored under the number)
the worker coming out of client 1's hook closes client 3's connection: its disconnect hook runs, it gets end-of-stream -/
theorem C16_pool_fd_reuse_counterexample :
    runObs (run (init { kind := .pool, auth := false, nb := 2, spare := false }) reuse) [.call 3 .ping, .call 2 .ping] =
      [some .eof, some (.reply .pong)] ∧
    ((run (init { kind := .pool, auth := false, nb := 2, spare := false }) reuse).cli 3).discHooks = 1 := by decide

/-! ### errors from `accept()` (`C16:accept-error-closes-server`, repaired) -/

/-- **the obligation**: the code's accept loop survives an error from `accept()` that is neither EINTR / EAGAIN nor the
listener being gone - measured on the live `Server.accept` on every run (`harness/gen_server.py`: a listener stand-in that
fails once with EMFILE, once with ECONNABORTED); on a tree that turns such an error into EOFError this fails -/
theorem accept_survives_transient_errors : Gen.Srv.acceptSurvivesTransientError = true := by decide

/-- with it, after ANY history of client actions an error from `accept()` - the process out of descriptors because a client
opened connections up to the limit, a connection aborted while it was being set up - changes nothing at all: same server,
same accept loop, same clients (threaded and forking servers; `run_ignores_accept_faults`: hence every run-level theorem
holds for runs with such errors interleaved anywhere) -/
theorem accept_fault_changes_nothing (cfg : Cfg) (hk : cfg.kind = .threaded ∨ cfg.kind = .forking)
    (ht : cfg.acceptTough = true) (ops : List Op) (hops : ∀ op ∈ ops, op.c16 = true) :
    step (run (init cfg) ops) .acceptFault = .ok (run (init cfg) ops, .none) :=
  accept_fault_harmless _ (by rw [run_cfg]; exact ht) (accept_survives cfg hk ops hops).canAccept

/-- the two together, for the configurations of the code as it is (`ofCode`): the hypothesis `acceptTough = true` is the
measured obligation -/
theorem code_accept_fault_changes_nothing (cfg : Cfg) (hc : ofCode cfg) (hk : cfg.kind = .threaded ∨ cfg.kind = .forking)
    (ops : List Op) (hops : ∀ op ∈ ops, op.c16 = true) :
    step (run (init cfg) ops) .acceptFault = .ok (run (init cfg) ops, .none) :=
  accept_fault_changes_nothing cfg hk (hc.2.1.trans accept_survives_transient_errors) ops hops

/-- ... and for whole runs: a run of the code with such errors interleaved anywhere is the run without them, so every
run-level theorem of this file extends to alphabets with `acceptFault` -/
theorem code_run_ignores_accept_faults (cfg : Cfg) (hc : ofCode cfg) (ops : List Op) :
    run (init cfg) ops = run (init cfg) (ops.filter (fun op => !op.isFault)) :=
  run_ignores_accept_faults (init cfg) (hc.2.1.trans accept_survives_transient_errors) ops

/-- the same for the pool, as long as nobody stalls its authentication (then the accept thread is not in `accept()`) -/
theorem accept_fault_changes_nothing_pool (cfg : Cfg) (hk : cfg.kind = .pool) (ht : cfg.acceptTough = true)
    (ops : List Op) (hops : ∀ op ∈ ops, op.c16 = true) (hns : ∀ op ∈ ops, ∀ k, op ≠ .connect k .silent) :
    step (run (init cfg) ops) .acceptFault = .ok (run (init cfg) ops, .none) :=
  accept_fault_harmless _ (by rw [run_cfg]; exact ht) (accept_survives_pool cfg hk ops hops hns).canAccept

/-- **C16_accept_fault_counterexample**: the code that takes the error for the end of the server (`acceptTough := false`)
closes itself - listener gone, the well-behaved client that was being served gets end-of-stream; the repaired code goes
on serving it -/
theorem C16_accept_fault_counterexample :
    runObs (init { kind := .threaded, auth := false, nb := 1, acceptTough := false })
      [.connect 1 .good, .call 1 .ping, .acceptFault, .call 1 .ping, .connect 2 .good] =
      [some .ok, some (.reply .pong), some .none, some .eof, some .refused] ∧
    runObs (init { kind := .threaded, auth := false, nb := 1, acceptTough := true })
      [.connect 1 .good, .call 1 .ping, .acceptFault, .call 1 .ping, .connect 2 .good] =
      [some .ok, some (.reply .pong), some .none, some (.reply .pong), some .ok] := by decide

/-! ### no thread / child process for a new client (`C16:spawn-failure-closes-server`, repaired) -/

/-- **the obligation**: when `_accept_method` cannot start a thread / child for a new client (`spawn()`: RuntimeError,
`os.fork()`: OSError) the code's `Server.accept` comes back normally with that client's socket closed and forgotten -
measured on the live function on every run; on a tree where the exception leaves `accept()` (and `start()` closes the
server) this fails -/
theorem spawn_failure_turns_client_away : Gen.Srv.spawnFailureTurnsClientAway = true := by decide

/-- with it: after ANY history of client actions (threaded, forking) a client for which no thread / child can be started
is accepted and turned away - it is given end-of-stream, nothing is created for it, nothing of it remains -, every other
client's record is exactly as before, the accept loop is as alive and free as before, and the next client is served -/
theorem spawn_failure_turns_one_client_away (cfg : Cfg) (hk : cfg.kind = .threaded ∨ cfg.kind = .forking)
    (ops : List Op) (hops : ∀ op ∈ ops, op.c16 = true) (k : Nat) (hg : ((run (init cfg) ops).cli k).phase = .absent) :
    ∃ t, step (run (init cfg) ops) (.connectNoSpawn k) = .ok (t, .ok) ∧
      (t.cli k).shut = true ∧ (t.cli k).inst = none ∧
      ((t.cli k).tracked = false ∧ (t.cli k).srvFd = false ∧ (t.cli k).child = false ∧ (t.cli k).connOpen = false ∧
        (t.cli k).inFd = false ∧ (t.cli k).polled = false ∧ t.queue = (run (init cfg) ops).queue ∧
        t.blocked = (run (init cfg) ops).blocked) ∧
      (∀ j, j ≠ k → t.cli j = (run (init cfg) ops).cli j) ∧ Accepting t ∧
      ∀ g, g ≠ k → ((run (init cfg) ops).cli g).phase = .absent →
        ∃ u, step t (.connect g .good) = .ok (u, .ok) ∧ Ready (u.cli g) := by
  have hacc := accept_survives cfg hk (ops := ops) hops
  have hkind : (run (init cfg) ops).cfg.kind = .threaded ∨ (run (init cfg) ops).cfg.kind = .forking := by
    rw [run_cfg]; exact hk
  have hne : ∀ j, j ≠ k → (rejectNew (run (init cfg) ops) k).cli j = (run (init cfg) ops).cli j :=
    fun j hj => by simp [rejectNew, set_cli_ne _ _ _ _ hj]
  have hacc' : Accepting (rejectNew (run (init cfg) ops) k) := by
    refine ⟨hacc.up, hacc.free, ?_⟩
    intro j
    by_cases hj : j = k
    · subst hj; simp [rejectNew, turnedAway]
    · rw [hne j hj]; exact hacc.nobacklog j
  refine ⟨rejectNew (run (init cfg) ops) k, ?_, by simp [rejectNew, turnedAway], by simp [rejectNew, turnedAway], ?_,
    hne, hacc', ?_⟩
  · have hl : (run (init cfg) ops).listening = true := hacc.up.2.1
    have hc := hacc.canAccept
    rcases hkind with h | h <;> simp [step, hg, h, hl, hc]
  · exact ⟨by simp [rejectNew, turnedAway], by simp [rejectNew, turnedAway], by simp [rejectNew, turnedAway],
      by simp [rejectNew, turnedAway], by simp [rejectNew, turnedAway], by simp [rejectNew, turnedAway], rfl, rfl⟩
  · intro g hgk hga
    have hne' : (rejectNew (run (init cfg) ops) k).cfg.kind ≠ .oneshot := by
      rcases hkind with h | h <;> simp [rejectNew, h]
    obtain ⟨u, h1, h2, _⟩ := connect_served hacc' hne' g (by rw [hne g hgk]; exact hga)
    exact ⟨u, h1, h2⟩

/-! ### exception replies naming SystemExit & co. (`C16:pool:peer-named-baseexception-kills-workers`, repaired) -/

/-- **the obligation**: a BaseException the PEER names (an exception reply naming builtins.SystemExit / KeyboardInterrupt /
GeneratorExit, rebuilt by vinegar and raised where the server waited for that reply) costs the pool neither a worker - the
live `_serve_clients` survives it and serves the connection again - nor its accept loop; a local `sys.exit` still
propagates.  Measured on the live functions on every run.  The automaton has no dying workers: such a frame is a frame
that raises out of `serve()` (`Item.bad`: on the pool the connection stays, elsewhere it ends), which is what the repaired
code does; on a tree where this obligation fails the run theorems for the pool say nothing about the code -/
theorem pool_survives_peer_base_exception : Gen.Srv.poolSurvivesPeerBaseException = true := by decide

/-- everything the property says: in full for the threaded and forking servers; isolation for every kind; for the pool
under the two hypotheses the counterexamples show to be necessary -/
theorem C16_partial (cfg : Cfg) :
    ((cfg.kind = .threaded ∨ cfg.kind = .forking) → AcceptSurvives cfg ∧ GoodClientUnaffected cfg) ∧
    Isolation cfg ∧
    (cfg.kind = .pool → cfg.spare = true →
      (∀ ops : List Op, (∀ op ∈ ops, op.c16 = true) → (∀ op ∈ ops, ∀ k, op ≠ .connect k .silent) →
        Accepting (run (init cfg) ops)) ∧
      (∀ (before : List Op) (g : Nat) (ops : List Op), (∀ op ∈ before, op.c16 = true) →
        Ready ((run (init cfg) before).cli g) → FreeWorkerAlong (run (init cfg) before) ops → OthersAndCalls g ops →
        answered g ((run (init cfg) before).cli g).table ops (runObs (run (init cfg) before) ops))) :=
  ⟨fun hk => ⟨accept_survives cfg hk, good_client_unaffected cfg hk⟩, isolation cfg,
   fun hk hs => ⟨accept_survives_pool cfg hk, good_client_unaffected_pool cfg hk hs⟩⟩

/-! ### non-vacuity: concrete hostile histories meet the hypotheses and reach non-trivial states -/

def hostileEnv : Env := ⟨fun _ => none, fun _ => true⟩

/-- a threaded server behind an authenticator: a good client, garbage, a truncated frame held open, a failed and a
stalled authentication, an abrupt disconnect in the middle of a frame, a second good client -/
def hostile : List Op :=
  [.connect 1 .good, .call 1 .lend,
   .connect 2 .good, .raw 2 [.bad],                                     -- a complete frame with an undecodable payload
   .connect 3 .good, Op.ofBytes 3 hostileEnv [0, 0, 0, 9, 0, 1, 2],     -- truncated frame
   .connect 4 .bad, .connect 5 .silent,
   .connect 6 .good, Op.ofBytes 6 hostileEnv [0, 0, 1], .abruptClose 6, -- gone inside a header
   .connect 7 .good, .call 7 .lend]

def threadedCfg : Cfg := { kind := .threaded, auth := true, nb := 1 }

example : ∀ op ∈ hostile, op.c16 = true := by decide
/-- the frames the model makes of bytes: incomplete; incomplete; an absurd length field; nothing -/
example : classify hostileEnv [0, 0, 0, 9, 0, 1, 2] = [.part] ∧ classify hostileEnv [0, 0, 1] = [.part] ∧
    classify hostileEnv [255, 255, 255, 255, 0, 1, 2, 3] = [.part] ∧ classify hostileEnv [] = [] := by decide
/-- a complete frame of corrupt compressed data raises out of `serve` (`zlib.error` in `Channel.recv`) -/
example : classify hostileEnv [0, 0, 0, 3, 1, 120, 1, 2, 10] = [.bad] := by
  simp [classify, splitFrames, classifyFrame, hostileEnv, unbe, Gen.frameHeaderSize, Gen.frameLenWidth, Gen.flusher]
/-- after all that: accept loop alive and free, clients 1 and 7 served by different instances with different objects,
client 2 closed by the server with its hook run, client 3's reader blocked, client 5 still authenticating -/
example : Accepting (run (init threadedCfg) hostile) := accept_survives threadedCfg (Or.inl rfl) hostile (by decide)
example : ((run (init threadedCfg) hostile).cli 1).inst = some 0 ∧ ((run (init threadedCfg) hostile).cli 7).inst = some 4 ∧
    ((run (init threadedCfg) hostile).cli 1).table = [0] ∧ ((run (init threadedCfg) hostile).cli 7).table = [1] ∧
    ((run (init threadedCfg) hostile).cli 2).shut = true ∧ ((run (init threadedCfg) hostile).cli 2).discHooks = 1 ∧
    ((run (init threadedCfg) hostile).cli 3).phase = .blocked ∧ ((run (init threadedCfg) hostile).cli 5).phase = .authing := by
  decide
example : Ready ((run (init threadedCfg) hostile).cli 1) := by simp only [Ready]; decide
/-- client 1 calls while the others go on misbehaving: both calls answered -/
example : runObs (run (init threadedCfg) hostile)
      [.call 1 .ping, Op.ofBytes 7 hostileEnv [9, 9, 9, 9, 9, 9], .abruptClose 5, .call 1 .ping, .call 1 (.probe 1)] =
    [some (.reply .pong), some .none, some .none, some (.reply .pong), some (.reply .keyError)] := by decide
/-- ... and requests of every kind, while the others go on: client 1 is lent object 2, uses it (resolves), uses client 7's
object 1 (fails), releases its own, uses it again (fails).  The run meets `OthersAndCalls`, and what `answered` says of it -/
def goodOps : List Op :=
  [.call 1 .lend, Op.ofBytes 7 hostileEnv [9, 9, 9, 9, 9, 9], .call 1 (.probe 2), .abruptClose 5, .call 1 (.probe 1),
   .call 1 (.drop 2), .call 1 (.probe 2)]
example : OthersAndCalls 1 goodOps := by
  intro op hop
  simp only [goodOps, List.mem_cons, List.not_mem_nil, or_false] at hop
  rcases hop with rfl | rfl | rfl | rfl | rfl | rfl | rfl <;> refine ⟨by decide, ?_⟩ <;>
    first
      | exact fun _ => ⟨_, rfl⟩
      | (intro h; exact absurd h (by decide))
example : runObs (run (init threadedCfg) hostile) goodOps =
    [some (.reply (.ref 2)), some .none, some (.reply .resolved), some .none, some (.reply .keyError),
     some (.reply .done), some (.reply .keyError)] := by decide
example : answered 1 ((run (init threadedCfg) hostile).cli 1).table goodOps (runObs (run (init threadedCfg) hostile) goodOps) :=
  good_client_unaffected threadedCfg (Or.inl rfl) hostile 1 goodOps (by decide) (by simp only [Ready]; decide)
    (by
      intro op hop
      simp only [goodOps, List.mem_cons, List.not_mem_nil, or_false] at hop
      rcases hop with rfl | rfl | rfl | rfl | rfl | rfl | rfl <;> refine ⟨by decide, ?_⟩ <;>
        first
          | exact fun _ => ⟨_, rfl⟩
          | (intro h; exact absurd h (by decide)))
/-- the pool hypotheses are satisfiable: one blocked worker out of two, client 3 served and ready — and its call is
answered (`pool_call_answered`) -/
example : (run (init poolCfg) (starve.take 4)).blocked.length = 1 ∧ poolCfg.nb = 2 := by decide
example : Ready ((run (init poolCfg) (starve.take 4)).cli 3) := by simp only [Ready]; decide
example : runObs (run (init poolCfg) (starve.take 4)) [.call 3 .ping] = [some (.reply .pong)] := by decide
/-- ... along a whole run with a worker blocked throughout: client 3 is lent an object and uses it while client 2 sends an
undecodable frame and leaves (`FreeWorkerAlong` for a non-empty run) -/
example : FreeWorkerAlong (run (init poolCfg) (starve.take 4))
    [.call 3 .lend, .raw 2 [.bad], .call 3 (.probe 0), .abruptClose 2, .call 3 .ping] :=
  FreeWorkerAlong.of_bool _ _ (by decide)
example : runObs (run (init poolCfg) (starve.take 4))
    [.call 3 .lend, .raw 2 [.bad], .call 3 (.probe 0), .abruptClose 2, .call 3 .ping] =
    [some (.reply (.ref 0)), some .none, some (.reply .resolved), some .none, some (.reply .pong)] := by decide

end Rpyc.Props.C16

