import RpycModel.Proto.CallsSim
/-
C01 — remote calls compute what a local call would, at any nesting depth.

Only the property theorems and their non-vacuity examples live here (namespace Rpyc.Props.C01).  The model is
lean/RpycModel/Proto/Calls.lean (the call-tree language and its two semantics), the helper lemmas are in
Proto/CallsLemmas.lean and Proto/CallsSim.lean.

What the language covers: programs over two peers whose functions call each other (directly, through callables
handed over as positional or keyword arguments, through functions returned as results), nest to any depth in both
directions, build and return tuples mixing immutable values and references, raise built-in exceptions with any
arguments and catch them (`except cls` / `except Exception`) at any level.  Hypotheses, all decidable: the program's
constants are serializable values inside brine's domain (C04) and references the owning side may hold; keyword names
of one call are distinct; `repr` (the parameter) yields serializable text.  Not covered: mutation of objects,
exception attributes / tracebacks (C09), release of references during the computation (C10), sequence numbers (C08).
-/
namespace Rpyc.Props.C01
open Rpyc Rpyc.Calls

/-- **A computation spread over the two peers gives the same answer as the same computation in one process.**
For every well-formed program, every entry call (made by code at side `s` that may hold its arguments), and every
fuel: `evalDist` and `evalLocal` end with the same outcome — the same value, or an exception of the same class whose
arguments are equal after the normalisation a crossing applies (`dumpable ? itself : repr`), or both are out of fuel —
and with the same invocation counter of every function: each call ran its target exactly as often as the local run. -/
theorem evalDist_eq_evalLocal (R : Params) (hR : ReprOk R) (P : Prog) (st0 : St) (hP : Prog.wf P st0 = true)
    (s : Side) (callee : PyVal) (args : List PyVal) (kws : List (Name × PyVal))
    (hentry : CallOk st0 s callee args kws) (fuel : Nat) :
    ((evalDist R P fuel s callee args kws st0).1.normalize R = (evalLocal R P fuel s callee args kws st0).1.normalize R)
    ∧ (evalDist R P fuel s callee args kws st0).2.count = (evalLocal R P fuel s callee args kws st0).2.count := by
  have h := (sim_all R P st0 hR hP fuel).2.2 s callee args kws st0 st0 hentry (St.le_refl _) rfl
  exact ⟨h.out, h.cnt⟩

/-- the value part: whatever the one-process run returns, the distributed run returns — equal brine value, the same
object for a reference, member by member for a mixed tuple -/
theorem same_value (R : Params) (hR : ReprOk R) (P : Prog) (st0 : St) (hP : Prog.wf P st0 = true)
    (s : Side) (callee : PyVal) (args : List PyVal) (kws : List (Name × PyVal))
    (hentry : CallOk st0 s callee args kws) (fuel : Nat) (v : PyVal) :
    (evalLocal R P fuel s callee args kws st0).1 = .ret v ↔ (evalDist R P fuel s callee args kws st0).1 = .ret v := by
  have h := (evalDist_eq_evalLocal R hR P st0 hP s callee args kws hentry fuel).1
  rcases normalize_cases R _ _ h with ⟨w, hd, hl⟩ | ⟨w, hd, hl⟩ | ⟨e, e', hd, hl, _⟩ | ⟨x, hd, hl⟩ <;> simp [hd, hl]

/-- the exception part: the distributed run raises iff the one-process run raises, with the same class and the same
normalised arguments -/
theorem same_exception (R : Params) (hR : ReprOk R) (P : Prog) (st0 : St) (hP : Prog.wf P st0 = true)
    (s : Side) (callee : PyVal) (args : List PyVal) (kws : List (Name × PyVal))
    (hentry : CallOk st0 s callee args kws) (fuel : Nat) (e : Exc) :
    (evalLocal R P fuel s callee args kws st0).1 = .exc e →
      ∃ e', (evalDist R P fuel s callee args kws st0).1 = .exc e' ∧ e'.cls = e.cls ∧ e'.normalize R = e.normalize R := by
  intro hl
  have h := (evalDist_eq_evalLocal R hR P st0 hP s callee args kws hentry fuel).1
  rcases normalize_cases R _ _ h with ⟨w, hd, hl'⟩ | ⟨w, hd, hl'⟩ | ⟨e1, e2, hd, hl', hee⟩ | ⟨x, hd, hl'⟩
  all_goals rw [hl] at hl'
  all_goals try (cases hl')
  exact ⟨e1, hd, cls_of_normalize hee, hee⟩

/-- **exactly once**: entering a function, locally or through the connection, bumps its counter by one and runs its
body once on the counters so bumped (the one-process semantics; the distributed one has equal counters by the main
theorem) -/
theorem local_call_runs_once (R : Params) (P : Prog) (f : Nat) (s o : Side) (fid : Nat) (fn : Fn)
    (args : List PyVal) (kws : List (Name × PyVal)) (st : St) (h : P[fid]? = some fn) (ho : fn.owner = o) :
    evalLocal R P (f + 1) s (.ref o fid) args kws st
      = finish (evalBlock .loc R P f fn.owner fn.body ⟨args, kws, []⟩ (st.bump fid)) := by
  simp [evalLocal, callFn, target, h, ho]

/-- **positional and keyword arguments arrive as supplied.**  A request built by `__call__` at side `s`
(`args`, `tuple(kwargs.items())`), boxed, serialized, deserialized and dispatched by the peer enters the callee with
the very argument list and keyword dictionary (names, values, order) the caller supplied; values by value, everything
else as a reference to the same object. -/
theorem kwargs_preserved (P : Prog) (s : Side) (st : St) (callee : PyVal) (args : List PyVal)
    (kws : List (Name × PyVal)) (fid : Nat) (fn : Fn)
    (hok : CallOk st s callee args kws) (ht : target P callee = some (fid, fn)) (ho : fn.owner = s.other) :
    sendRequest P s st callee args kws
      = .dispatch fid fn args kws (st.lend s (lent s (requestArgs callee args kws))) := by
  apply sendRequest_ok P s st callee args kws fid fn hok.hcallee.1
    ⟨(goodL_iff _).2 (fun a ha => (hok.hargs a ha).1), hok.hnargs⟩
    ⟨fun kv hkv => ⟨(hok.hkws kv hkv).1, (hok.hkws kv hkv).2.1⟩, hok.hnkws, hok.hnodup⟩ _ ht ho
  exact requestArgs_valid s _ _ args kws hok.hcallee.2 ((validL_iff _ _ _).2 (fun a ha => (hok.hargs a ha).2))
    (fun kv hkv => (hok.hkws kv hkv).2.2)

/-- `dict(tuple(kwargs.items())) == kwargs` for the distinct keys of a `**kwargs` dictionary, order included -/
theorem kwargs_dict_roundtrip (kws : List (Name × PyVal)) (h : (kws.map (·.1)).Nodup) :
    dictOf (kwTuple kws) = .ok kws := dictOf_kwTuple kws h

/-- **the marshalling lemma**: box at one side, brine dump, brine load, unbox at the other side is the identity on
every well-formed value whose references to the receiver's objects the receiver still holds -/
theorem marshal_identity (s : Side) (tbl : List Nat) (x : PyVal) (hg : x.good = true) (hv : x.valid s tbl = true) :
    ∃ bs, Rpyc.Brine.dump (box s x) = .ok bs ∧ Rpyc.Brine.load bs = .ok (box s x)
      ∧ unbox s.other tbl (box s x) = .ok x := by
  obtain ⟨bs, hd, hl⟩ := wire _ (box_ok s x hg)
  exact ⟨bs, hd, hl, unbox_box s tbl x hg hv⟩

/-- a result travels back unchanged; what it lends enters the callee's table -/
theorem reply_arrives (R : Params) (o : Side) (v : PyVal) (st : St) (hg : v.good = true)
    (hv : v.valid o (st.tbl o.other) = true) :
    deliverReply R o o.other (.ret v, st) = (.ret v, st.lend o (lent o v)) :=
  deliverReply_ret R o o.other rfl v st hg hv

/-- an exception travels back as its class and normalised arguments -/
theorem exception_arrives (R : Params) (hR : ReprOk R) (e : Exc) (he : GoodExc e) (st : St) :
    deliverExc R e st = (.exc (e.normalize R), st) := deliverExc_ok R hR e he st

/-- **raised at one level, caught at another: the same control flow.**  Whatever the nesting below a `try` (calls
into the peer and back, to any depth), the distributed run enters the handler iff the one-process run does. -/
theorem caught_same_branch (R : Params) (hR : ReprOk R) (P : Prog) (st0 : St) (hP : Prog.wf P st0 = true)
    (s : Side) (body : List Stmt) (pat : Option Name) (env : Env) (sd sl : St)
    (hw : wfBlock s (st0.tbl s.other) body = true) (hm : st0.le sd) (he : EnvOk sd s env) (hc : sd.count = sl.count)
    (fuel : Nat) :
    (∃ e sd', evalBlock .dist R P fuel s body env sd = (.exc e, sd') ∧ catches pat e.cls = true)
    ↔ (∃ e sl', evalBlock .loc R P fuel s body env sl = (.exc e, sl') ∧ catches pat e.cls = true) := by
  have h := (sim_all R P st0 hR hP fuel).1 s body env sd sl hw hm he hc
  rcases hd : evalBlock .dist R P fuel s body env sd with ⟨od, sd'⟩
  rcases hl : evalBlock .loc R P fuel s body env sl with ⟨ol, sl'⟩
  rw [hd, hl] at h
  rcases normalize_cases R od ol h.out with ⟨v, rfl, rfl⟩ | ⟨v, rfl, rfl⟩ | ⟨e, e', rfl, rfl, hee⟩ | ⟨x, rfl, rfl⟩
  · simp
  · simp
  · simp [cls_of_normalize hee]
  · simp

/-! ### generated facts the model rests on -/

/-- the labels `_box` writes are pairwise distinct and are the ones `_unbox` tests for; likewise the message types -/
theorem labels_and_message_types_distinct :
    [lblValue, lblTuple, lblLocalRef, lblRemoteRef].Nodup ∧ [msgRequest, msgReply, msgException].Nodup := by decide

/-- `HANDLE_CALL` is routed to `_handle_call`, which accepts `(obj, args)` and `(obj, args, kwargs)` -/
theorem handle_call_routed :
    Gen.Netref.handlerTable.lookup Gen.Netref.handleCall = some "_handle_call"
    ∧ Gen.Netref.handlerArity.lookup Gen.Netref.handleCall = some (2, 3) := by decide

/-- the proxy's `__call__` issues `HANDLE_CALL` with `(args, tuple(kwargs.items()))` (observed by running the method `_make_method` makes against a recording connection) -/
theorem call_shape :
    Gen.Netref.makeMethodShapes.lookup "__call__" = some ("(*,**)", "syncreq", "self", "HANDLE_CALL", ["$*", "tuple(items($**))"]) := by
  decide

/-- the proxy's `__call__` takes no keyword name for itself (observed on the real made method for every parameter name
of its own signature - the only names it could capture - and for `self`, `_self`, `args`, `kwargs`, ...; `call_shape`'s
`(*,**)` says the same: no leading named parameter): whatever keyword arguments the caller supplies are the ones `kwargs_preserved` is about -/
theorem call_reserves_no_keyword : Gen.Netref.reservedKeywords = [] := by decide

/-! ### non-vacuity: a concrete program meets the hypotheses and computes across the connection -/

namespace Example
def R0 : Params := { reprOf := fun _ => [63] }
def valueError : Name := nameOf "ValueError"
def kName : Name := nameOf "k"

/-- `f0` lives on B: it calls back `f1` on A inside a `try`, handing over its own argument and a keyword argument;
`f1` raises `ValueError(k, arg)`; `f0` catches it and returns a tuple mixing a value and the reference it received -/
def prog : Prog :=
  [ ⟨.B, [ .try_ [ .call 0 (.const (.ref .A 1)) [.arg 0] [(kName, .const (.imm (.int 7)))] ] (some valueError)
             [ .ret (.tuple [.const (.imm (.int 1)), .arg 0]) ],
           .ret (.const (.imm (.int 2))) ]⟩,
    ⟨.A, [ .raise valueError [.kw kName, .arg 0] ]⟩ ]

/-- A holds a proxy of `f0` (B lent key 0), B holds a proxy of `f1` (A lent key 1) -/
def st0 : St := { count := fun _ => 0, tblA := [1], tblB := [0] }

theorem reprOk : ReprOk R0 := ⟨fun _ => (by decide : nameOk [63] = true)⟩
theorem prog_wf : Prog.wf prog st0 = true := by decide
theorem entry_ok : CallOk st0 .A (.ref .B 0) [.ref .A 5] [] :=
  ⟨⟨by decide, by decide⟩, fun a ha => by simp at ha; subst ha; exact ⟨by decide, by decide⟩, by simp,
   fun kv hkv => by simp at hkv, by simp, by simp⟩

/-- the hypotheses of the main theorem hold for it, so the two runs agree for every fuel -/
example (fuel : Nat) :
    (evalDist R0 prog fuel .A (.ref .B 0) [.ref .A 5] [] st0).2.count
      = (evalLocal R0 prog fuel .A (.ref .B 0) [.ref .A 5] [] st0).2.count :=
  (evalDist_eq_evalLocal R0 reprOk prog st0 prog_wf .A _ _ _ entry_ok fuel).2

/-- and the one-process run really computes something: the exception raised two levels down on the other side is
caught, the handler's tuple `(1, <the object A supplied>)` is the result, and each function ran once -/
example : (match evalLocal R0 prog 10 .A (.ref .B 0) [.ref .A 5] [] st0 with
    | (.ret (.tup [.imm (.int 1), .ref .A 5]), st) => st.count 0 == 1 && st.count 1 == 1
    | _ => false) = true := by decide

theorem local_result : (evalLocal R0 prog 10 .A (.ref .B 0) [.ref .A 5] [] st0).1 = .ret (.tup [.imm (.int 1), .ref .A 5]) := by
  rfl

/-- so does the distributed run — through box, brine, unbox, dispatch, the exception payload and the reply —
by the main theorem -/
example : (evalDist R0 prog 10 .A (.ref .B 0) [.ref .A 5] [] st0).1 = .ret (.tup [.imm (.int 1), .ref .A 5])
    ∧ (evalDist R0 prog 10 .A (.ref .B 0) [.ref .A 5] [] st0).2.count 0 = 1
    ∧ (evalDist R0 prog 10 .A (.ref .B 0) [.ref .A 5] [] st0).2.count 1 = 1 := by
  have hc := (evalDist_eq_evalLocal R0 reprOk prog st0 prog_wf .A _ _ _ entry_ok 10).2
  refine ⟨(same_value R0 reprOk prog st0 prog_wf .A _ _ _ entry_ok 10 _).1 local_result, ?_, ?_⟩
  · rw [hc]; rfl
  · rw [hc]; rfl
end Example

end Rpyc.Props.C01
