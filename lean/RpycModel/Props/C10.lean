import RpycModel.Box.Lemmas
/-
C10 — an object passed by reference lives at its owner exactly as long as the peer holds a proxy to it.
Only the property theorems and their non-vacuity examples live here (namespace Rpyc.Props.C10); the
machine is RpycModel/Box/Model.lean, the preservation lemmas RpycModel/Box/Lemmas.lean.

Histories are arbitrary finite lists over
  send ks (owner sends objects, alone or several / nested in tuples: `ks` is the boxing order),
  fetch ks (peer asks; the owner's *reply* carries them), back k (peer passes a proxy back; echo = the owner
  returns it once more), finalize k (the proxy's `__del__` runs: "drop"), deliverO2P, deliverP2O, close,
with no bound on length, on the number of objects, or on how often an object is sent.
-/
namespace Rpyc.Props.C10
open Rpyc Rpyc.Box

/-- the bookkeeping identity in the form DESIGN.md states it: for a lent object the stored count + 1 equals
references in flight + the live proxy's count + releases in flight; for an object not in the table all three are zero -/
def Balanced (s : St) : Prop :=
  ∀ k, (∀ n, s.tbl k = some n → n + 1 = refsO k s.o2p + cnt (s.px k) + delSum k s.p2o)
     ∧ (s.tbl k = none → refsO k s.o2p + cnt (s.px k) + delSum k s.p2o = 0)

theorem balanced_of_inv (s : St) (h : Inv s) : Balanced s := by
  intro k
  have hk := h.count k
  constructor
  · intro n hn; rw [hn] at hk; simpa [val] using hk
  · intro hn; rw [hn] at hk; simp [val] at hk; omega

/-- **I init.** -/
theorem invariant_init : Inv St.init := inv_init

/-- **Every operation preserves the invariant** (send / fetch / pass back / finalizer / either delivery / close). -/
theorem invariant_step (s : St) (op : Op) (h : Inv s) : Inv (step s op).2 := inv_step s op h

/-- **Hence every finite history does**, whatever the interleaving. -/
theorem invariant_history (ops : List Op) : Inv (run St.init ops) := inv_run ops _ inv_init

theorem balanced_history (ops : List Op) : Balanced (run St.init ops) :=
  balanced_of_inv _ (invariant_history ops)

/-- **Alive while held.**  After any history: if the peer has a live proxy of `k`, or a reference to `k` or a
release notice for `k` is still in flight, the owner's table holds `k` (so the object is kept alive). -/
theorem alive_while_held (ops : List Op) (k : Id)
    (hheld : (run St.init ops).px k ≠ none ∨ 1 ≤ refsO k (run St.init ops).o2p ∨ 1 ≤ delSum k (run St.init ops).p2o) :
    ∃ n, (run St.init ops).tbl k = some n := by
  have h := invariant_history ops
  have hk := h.count k
  cases ht : (run St.init ops).tbl k with
  | some n => exact ⟨n, rfl⟩
  | none =>
    rw [ht] at hk
    simp only [val] at hk
    rcases hheld with hp | hr | hd
    · have := cnt_pos_of_ne_zero (h.pxPos k) hp; omega
    · omega
    · omega

/-- **Reachable through every proxy.**  No operation of any history ever meets a reference that does not
resolve: a proxy handed back (alone or as the argument of its own release notice) always finds its object, and
`decref` never meets an absent key — including when a release notice crosses a fresh reference in flight. -/
theorem never_keyError (ops : List Op) (op : Op) : (step (run St.init ops) op).1 ≠ .keyError :=
  step_no_keyError _ op (invariant_history ops)

/-- **Released once dropped** (per object): no live proxy, nothing in flight either way ⇒ not in the table. -/
theorem released_when_dropped (ops : List Op) (k : Id)
    (hp : (run St.init ops).px k = none) (hr : refsO k (run St.init ops).o2p = 0)
    (hd : delSum k (run St.init ops).p2o = 0) : (run St.init ops).tbl k = none := by
  have hk := (invariant_history ops).count k
  rw [hp, hr, hd] at hk
  exact val_eq_zero.mp (by simpa [cnt] using hk)

/-- **No leak at quiescence.**  Both queues empty and no live proxy ⇒ the owner's table is empty. -/
theorem no_leak_at_quiescence (ops : List Op)
    (ho : (run St.init ops).o2p = []) (hp : (run St.init ops).p2o = [])
    (hx : ∀ k, (run St.init ops).px k = none) : ∀ k, (run St.init ops).tbl k = none := by
  intro k
  exact released_when_dropped ops k (hx k) (by rw [ho]; rfl) (by rw [hp]; rfl)

/-- **Close releases everything** it held, at both ends. -/
theorem close_releases (s : St) (hc : s.closed = false) :
    (∀ k, (step s .close).2.tbl k = none) ∧ (∀ k, (step s .close).2.px k = none)
    ∧ (step s .close).2.o2p = [] ∧ (step s .close).2.p2o = [] := by
  simp [step, hc, closeAll, Tbl.empty]

/-- the same for histories written in terms of what the peer's *application* does (hold, drop, collect a
result): they are histories of the machine, so everything above applies to them -/
theorem invariant_app_history (ops : List AOp) : Inv (appRun App.init ops).s := inv_appRun ops _ inv_init

theorem app_history_is_history (a : App) (op : AOp) : ∃ ops, (appStep a op).2.s = run a.s ops := appStep_base a op

/-! ### message processing that is not atomic

A package that carries a fresh reference of a class the receiver has not seen makes `_unbox` run a nested
`serve()` (the `HANDLE_INSPECT` round trip) before the package is fully unboxed; a release notice travelling right
behind the package is dispatched in there.  `deliverNested resolveFirst mid` is the owner's dispatch of a hand-back
with such a package; `mid` ranges over ALL finite operation sequences (a superset of what a nested serve can do). -/

/-- **The invariant survives a nested serve of any content**, with the order the code has now (generated constant
`localRefsResolvedFirst`, observed on the live `_unbox`: table lookups of the whole package before any proxy). -/
theorem invariant_nested (ops mid : List Op) :
    Inv (deliverNested Gen.Box.localRefsResolvedFirst mid (run St.init ops)).2 := by
  have : Gen.Box.localRefsResolvedFirst = true := by decide
  rw [this]; exact inv_deliverNested mid _ (invariant_history ops)

/-- **A release notice cannot overtake the reference it travels behind**: whatever the nested serve dispatches,
the hand-back of the package being unboxed finds its object. -/
theorem never_keyError_nested (ops mid : List Op) :
    (deliverNested Gen.Box.localRefsResolvedFirst mid (run St.init ops)).1 ≠ .keyError := by
  have : Gen.Box.localRefsResolvedFirst = true := by decide
  rw [this]; exact deliverNested_no_keyError mid _ (invariant_history ops)

/-- the hand-back whose only proxy dies at once: object 7 lent, received, handed back, dropped — the queue to the owner
holds the hand-back with the release notice right behind it -/
def overtaking : List Op := [.send [7], .deliverO2P, .deliverP2O, .back 7 false, .finalize 7]

example : (run St.init overtaking).p2o = [.back 7 false, .del 7 1] ∧ (run St.init overtaking).tbl 7 = some 0 := by decide

/-- **Counterexample for the one-pass order** (`_unbox` before commit e881f31, fresh reference in front of the
hand-back): the nested serve dispatches the release notice, the entry is gone, the hand-back raises KeyError —
in a state every theorem above covers.  With the lookups first the same schedule is served. -/
theorem onePass_order_counterexample :
    (deliverNested false [.deliverP2O] (run St.init overtaking)).1 = .keyError
    ∧ (deliverNested true [.deliverP2O] (run St.init overtaking)).1 = .ok := by decide

/-! ### messages that are boxed and then cannot be sent

`_box` registers the by-reference objects of a value; `brine.dump` of the whole message runs afterwards and can refuse
it (an int beyond the str() digit limit, a tuple nested too deep).  `sendFail ks` / `fetchBad ks` are those events in
the two directions.  The machine follows the generated constant `failedSendReleases` (observed on the live code: are
the registrations taken back?); the invariant — and with it every theorem above, which quantify over histories
containing these operations — needs it to be true. -/

/-- the code takes back what it registered for a message it could not send (generated constant) -/
theorem failed_send_is_released : Gen.Box.failedSendReleases = true := failedSend_released

/-- **Counterexample for code that does not**: one request that cannot be serialized leaves object 7 in the owner's
table although no proxy exists and nothing is in flight in either direction — exactly what `released_when_dropped`
and `no_leak_at_quiescence` exclude. -/
theorem unreleased_failed_send_leaks :
    (failedBox false Tbl.empty [7]) 7 = some 0
    ∧ ¬ Inv { St.init with tbl := failedBox false Tbl.empty [7] }
    ∧ (failedBox true Tbl.empty [7]) 7 = none := by
  refine ⟨by decide, ?_, by decide⟩
  intro h
  have := h.count 7
  simp [St.init, Tbl.empty, refsO, cnt, delSum] at this
  revert this
  decide

/-- with the registrations taken back: a failed request and a failed reply leave nothing behind -/
example : (run St.init [.sendFail [1, 2, 1], .fetchBad [2], .deliverP2O]).tbl 1 = none
    ∧ (run St.init [.sendFail [1, 2, 1], .fetchBad [2], .deliverP2O]).tbl 2 = none
    ∧ (run St.init [.sendFail [1, 2, 1], .fetchBad [2], .deliverP2O]).o2p = [.exc true] := by decide
/-- ... and an object that is lent meanwhile keeps exactly its count -/
example : (run St.init [.send [1], .sendFail [1, 1], .fetchBad [1], .deliverP2O]).tbl 1 = some 0 := by decide

/-- **A reception during the class-inspection round trip is counted.**  When the first proxy of an object needs a
`HANDLE_INSPECT` round trip and its nested serve() receives the same object in a second message, the owner has
registered two references; the peer's one proxy counts two (generated constant `oneProxyAcrossInspect`: one proxy
object AND `____refcount__` 2, observed on the live `_unbox`), so its single release notice releases both. -/
theorem reception_during_inspect_is_counted (s : Side) (id : Id) (h : s.px id = none) :
    cnt ((unboxRefAcrossInspect Gen.Box.oneProxyAcrossInspect s id).2.2.px id) = 2 := by
  have hc : Gen.Box.oneProxyAcrossInspect = true := by decide
  rw [hc]
  have hmiss : unboxRef s id = (.proxy id s.next,
      { s with px := s.px.recv id, pid := fun j => if j = id then s.next else s.pid j, next := s.next + 1 }) := by
    simp [unboxRef, h]
  have h1 : (unboxRef s id).2.px id = some 1 := by rw [hmiss]; simp [Tbl.recv, h, hit]
  have hhit : ∀ (t : Side) (c : Nat), t.px id = some c →
      unboxRef t id = (.proxy id (t.pid id), { t with px := t.px.recv id }) := by
    intro t c ht; simp [unboxRef, ht]
  simp only [unboxRefAcrossInspect, if_true]
  rw [hhit (unboxRef s id).2 1 h1]
  simp [Tbl.recv, h1, hit, cnt]

/-! ### messages the receiver cannot unbox

`_unbox` can fail half way (the class of an object cannot be inspected, the round trip times out, a stale `LOCAL_REF`,
an unknown label): the sender registered one reference per `REMOTE_REF`, but no proxy took over the ones not yet
reached.  `splitHead j` + the two deliveries are that event for a failure after `j` references; the machine follows the
generated constant `failedUnboxReleases` (observed on the live code: does a release notice go out for every reference
no proxy took over?), and the invariant needs it to be true. -/

/-- the code releases the references of a message it could not unbox (generated constant) -/
theorem unreceived_references_are_released : Gen.Box.failedUnboxReleases = true := failedUnbox_released

/-- **Counterexample for code that does not**: object 7 was sent, the receiver's `_unbox` failed before it, only the
exception reply comes back: 7 stays in the owner's table with no proxy and nothing in flight. -/
theorem unreleased_failed_unbox_leaks :
    unreceivedTail false [7] true = [.reply]
    ∧ ¬ Inv { St.init with tbl := addAll Tbl.empty [7], p2o := unreceivedTail false [7] true }
    ∧ delSum 7 (unreceivedTail true [7] true) = 1 := by
  refine ⟨rfl, ?_, by decide⟩
  intro h
  have := h.count 7
  revert this
  decide

/-- a message with objects 1, 2, 1 whose unboxing fails after the first reference: the proxy that took 1 over dies and
releases it, the two unreceived references are released one by one, then the exception reply; after delivery the
owner's table is empty -/
def unboxFails : List AOp := [.send [1, 2, 1], .deliverFail 1]

example : (appRun App.init unboxFails).s.p2o = [.del 1 1, .del 2 1, .del 1 1, .reply]
    ∧ (appRun App.init unboxFails).s.px 1 = none ∧ (appRun App.init unboxFails).s.tbl 1 = some 1 := by decide
example : (appRun App.init (unboxFails ++ [.deliverP2O, .deliverP2O, .deliverP2O])).s.tbl 1 = none
    ∧ (appRun App.init (unboxFails ++ [.deliverP2O, .deliverP2O, .deliverP2O])).s.tbl 2 = none := by decide

/-- **Counterexample for "found but not counted"**: the owner registered two references of object 3 (stored count 1),
the peer's one proxy counts one; its release notice leaves the entry in the table although no proxy exists and nothing
is in flight.  (`oneProxyAcrossInspect` is true only for code that finds the proxy AND counts the reception; the other
way to fail it, two proxy objects, is `C03.stale_miss_makes_two_proxies`.) -/
theorem uncounted_reception_leaks :
    cnt ((unboxRefAcrossInspectUncounted Side.init 3).2.2.px 3) = 1
    ∧ (addAll Tbl.empty [3, 3]) 3 = some 1
    ∧ (match (addAll Tbl.empty [3, 3]).decref 3 1 with | .ok t => t 3 | .error _ => none) = some 0 := by
  refine ⟨by decide, by decide, by decide⟩

/-! ### non-vacuity: the race the statement names, replayed concretely -/

/-- object 7 is sent, received, its proxy dropped (release notice in flight), and *at the same time* sent again
(fresh reference in flight); then both messages are delivered, crossing each other. -/
def crossing : List Op :=
  [.send [7], .deliverO2P, .finalize 7, .send [7], .deliverP2O, .deliverP2O, .deliverO2P, .deliverO2P]

/-- before the crossing messages are delivered: stored count 1 (two boxes), one reference and one release in flight, no proxy -/
example : (run St.init (crossing.take 4)).tbl 7 = some 1 ∧ (run St.init (crossing.take 4)).px 7 = none
    ∧ (run St.init (crossing.take 4)).o2p = [.req [7]] ∧ (run St.init (crossing.take 4)).p2o = [.reply, .del 7 1] := by
  decide

/-- afterwards: the object is still lent exactly once and the peer has a fresh proxy with count 1 -/
example : (run St.init crossing).tbl 7 = some 0 ∧ (run St.init crossing).px 7 = some 1
    ∧ (run St.init crossing).o2p = [] ∧ (run St.init crossing).p2o = [.reply] := by
  decide

/-- dropping that proxy too and delivering everything empties the table -/
example : (run St.init (crossing ++ [.finalize 7, .deliverP2O, .deliverP2O, .deliverO2P, .deliverO2P])).tbl 7 = none := by
  decide

/-- an object sent three times in one message (inside nested tuples), fetched once more by the peer and handed
back with echo: one proxy with count 5, stored count 4; one release notice of 5 removes the entry -/
def multi : List Op :=
  [.send [1, 2, 1, 1], .deliverO2P, .deliverP2O, .fetch [1], .deliverP2O, .deliverO2P, .back 1 true, .deliverP2O, .deliverO2P]

example : (run St.init multi).tbl 1 = some 4 ∧ (run St.init multi).px 1 = some 5 ∧ (run St.init multi).tbl 2 = some 0 := by
  decide
example : (run St.init (multi ++ [.finalize 1, .deliverP2O])).tbl 1 = none
    ∧ (run St.init (multi ++ [.finalize 1, .deliverP2O])).tbl 2 = some 0 := by
  decide

/-- a reply that arrives for an expired `AsyncResult` (objects 1, 2 and 1 again, nested): it is unboxed all the same —
the references are counted — the value is dropped, the proxies die at once (2 before 1: a tuple lets go of its items
from the last to the first), the release notices flow, and the owner's table is empty again -/
def expired : List AOp := [.fetch [1, 2, 1], .deliverP2O, .expire 0, .deliverO2P]

example : (appRun App.init expired).s.tbl 1 = some 1 ∧ (appRun App.init expired).s.tbl 2 = some 0
    ∧ (appRun App.init expired).s.px 1 = none ∧ (appRun App.init expired).s.p2o = [.del 2 1, .del 1 2]
    ∧ (appRun App.init expired).results = [] ∧ (appRun App.init expired).waiters = [] := by decide
example : (appRun App.init (expired ++ [.deliverP2O, .deliverP2O])).s.tbl 1 = none
    ∧ (appRun App.init (expired ++ [.deliverP2O, .deliverP2O])).s.tbl 2 = none := by decide

/-- what a wrong count would do: were a release of 1 to arrive for an absent key the machine answers KeyError — the
outcome `never_keyError` excludes for real histories -/
example : (step { St.init with p2o := [.del 3 1] } .deliverP2O).1 = .keyError := by decide

end Rpyc.Props.C10
