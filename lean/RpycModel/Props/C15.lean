import RpycModel.Async.Lemmas
import RpycModel.Gen.Async
/-
C15 — asynchronous results: pending until the reply arrives or the expiry passes, whichever happens
first; that outcome is final; callbacks run exactly once, in registration order (at once if registered
afterwards); waiting raises the timeout error at the expiry instant, never earlier, and later only by a
request the waiting thread is itself serving; a synchronous request is an asynchronous one carrying the
configured timeout.

Only property theorems and non-vacuity examples live here (namespace Rpyc.Props.C15); the model is
RpycModel/Async/Model.lean, helper lemmas RpycModel/Async/Lemmas.lean.  All theorems hold for every
sequence of events (no bound on length), every instant, every channel content and every timeout value
(`none`, negative, zero, positive).  "Arrival" is the instant the reply is dispatched (`__call__` runs).
-/
namespace Rpyc.Props.C15
open Rpyc Rpyc.Async

/-! ### timeouts: `None` and negative values mean "no expiry" -/

/-- a timeout is finite exactly when it is a number ≥ 0 (the code's `timeout is not None and timeout >= 0`) -/
theorem timeout_finite_iff (now : Nat) (τ : Option Int) :
    (Timeout.make now τ).finite = true ↔ ∃ t, τ = some t ∧ 0 ≤ t := by
  cases τ with
  | none => simp [Timeout.make]
  | some t =>
    by_cases h : 0 ≤ t
    · simp [Timeout.make, h]
    · simp [Timeout.make, h]

/-- its deadline is the instant it was set plus the value; it has expired from that instant on, not before -/
theorem timeout_deadline (now : Nat) (t : Int) (h : 0 ≤ t) (n : Nat) :
    (Timeout.make now (some t)).expired n = decide (now + t.toNat ≤ n) := by
  simp [Timeout.make, h, Timeout.expired]

/-- without a (non-negative) timeout nothing ever expires -/
theorem infinite_never_expires (now : Nat) (τ : Option Int) (h : (Timeout.make now τ).finite = false) (n : Nat) :
    (Timeout.make now τ).expired n = false := by
  simp [Timeout.expired, h]

/-! ### (1) one final outcome -/

/-- **Readiness is final** — under every later event, re-arming and duplicate replies included: still
ready, same value, same exception flag. -/
theorem ready_final (w : World) (hw : Reachable w) (hr : w.ar.isReady = true) (evs : List Ev) :
    (runs w evs).ar.isReady = true ∧ (runs w evs).ar.isExc = w.ar.isExc ∧ (runs w evs).ar.obj = w.ar.obj := by
  have := Frozen.runs evs (hw.inv.frozen hr)
  exact ⟨this.1, this.2.1, this.2.2.1⟩

/-- and the value (or exception) is available from then on: `value` returns (raises) it at once, `wait`
returns, `ready` is true, `expired` false, whatever happened in between. -/
theorem ready_value_available (w : World) (hw : Reachable w) (hr : w.ar.isReady = true) (evs : List Ev) :
    step (runs w evs) .qValue
        = (runs w evs, if w.ar.isExc = some true then .raised w.ar.obj else .value w.ar.obj)
      ∧ step (runs w evs) .wait = (runs w evs, .unit)
      ∧ step (runs w evs) .qReady = (runs w evs, .bool true)
      ∧ step (runs w evs) .qError = (runs w evs, .tri w.ar.isExc)
      ∧ step (runs w evs) .qExpired = (runs w evs, .bool false) := by
  obtain ⟨h1, h2, h3⟩ := ready_final w hw hr evs
  have hwait : wait (runs w evs) = (runs w evs, .unit) := by
    simp [wait, waitFuel, waitLoop, h1]
  refine ⟨?_, hwait, ?_, ?_, ?_⟩
  · simp only [step, value, hwait, h2, h3]
    split <;> rfl
  · simp [step, ready, h1]
  · simp [step, error, ready, h1, h2]
  · simp [step, AR.expired, h1]

/-- **Expiry while pending is final** for every later sequence of events that does not re-arm the expiry:
still expired, nothing published, no callback has run (the log is unchanged), registered callbacks are
only kept. -/
theorem expired_final (w : World) (hx : status w = .expired) (evs : List Ev) (hn : noRearm evs) :
    status (runs w evs) = .expired ∧ (runs w evs).cbLog = w.cbLog ∧ (runs w evs).ar.isExc = w.ar.isExc
      ∧ (runs w evs).ar.obj = w.ar.obj ∧ ∃ more, (runs w evs).ar.callbacks = w.ar.callbacks ++ more := by
  have hd := Dead.runs evs (Dead.of_expired ((status_expired_iff w).mp hx)) hn
  exact ⟨(status_expired_iff _).mpr hd.expired, hd.2.2.2.1, hd.2.2.2.2.1, hd.2.2.2.2.2.1, hd.2.2.2.2.2.2.2⟩

/-- what an expired result shows, then and ever after: waiting raises the timeout error at once (the clock
does not move), `ready` and `error` are false, `expired` is true. -/
theorem expired_observations (w : World) (hx : status w = .expired) (evs : List Ev) (hn : noRearm evs) :
    step (runs w evs) .wait = (runs w evs, .timeout)
      ∧ step (runs w evs) .qValue = (runs w evs, .timeout)
      ∧ step (runs w evs) .qReady = (runs w evs, .bool false)
      ∧ step (runs w evs) .qError = (runs w evs, .tri (some false))
      ∧ step (runs w evs) .qExpired = (runs w evs, .bool true) := by
  have hd := Dead.runs evs (Dead.of_expired ((status_expired_iff w).mp hx)) hn
  refine ⟨hd.wait, hd.value, ?_, ?_, ?_⟩
  · simp [step, hd.ready]
  · simp [step, hd.error]
  · simp [step, hd.expired]

/-- **A reply arriving after the expiry is discarded**: nothing changes but the connection's registry
entry, and no callback runs — whether it is dispatched directly or taken from the channel by a serve. -/
theorem late_reply_discarded (w : World) (hx : status w = .expired) (e : Bool) (v : Nat) :
    (step w (.arrive e v)).1 = { w with live := false } := by
  have hd := Dead.of_expired ((status_expired_iff w).mp hx)
  simp only [step, dispatch]
  split
  · have h' : Dead w.ar w.cbLog w.readyAt { w with live := false } := hd
    exact h'.call e v
  · next hl => simp at hl; cases w; simp_all

/-- **A reply arriving while pending decides for good**: ready with that value and flag, every stored
callback run at this instant in registration order, the list emptied. -/
theorem reply_accepted_when_pending (w : World) (hp : status w = .pending) (hl : w.live = true) (e : Bool) (v : Nat) :
    (step w (.arrive e v)).1.ar.isReady = true
      ∧ (step w (.arrive e v)).1.ar.isExc = some e ∧ (step w (.arrive e v)).1.ar.obj = some v
      ∧ (step w (.arrive e v)).1.cbLog = w.cbLog ++ w.ar.callbacks.map (fun c => (c, w.now))
      ∧ (step w (.arrive e v)).1.ar.callbacks = []
      ∧ (step w (.arrive e v)).1.readyAt = some w.now
      ∧ (step w (.arrive e v)).1.now = w.now := by
  obtain ⟨h1, h2⟩ := (status_pending_iff w).mp hp
  simp [step, dispatch, hl, call, AR.expired, h1, h2]

/-- every state is exactly one of pending / ready / expired, and a pending result stays pending under an
event unless a reply is dispatched in it or the clock reaches the deadline (nothing else decides) -/
theorem pending_until_decided (w : World) (hw : Reachable w) (hp : status w = .pending) (ev : Ev)
    (hne : ∀ τ, ev ≠ .setExpiry τ) :
    status (step w ev).1 = .pending
      ∨ (status (step w ev).1 = .ready ∧ (step w ev).1.readyAt.isSome ∧ (step w ev).1.live = false)
      ∨ (status (step w ev).1 = .expired ∧ w.ar.ttl.finite = true ∧ w.ar.ttl.tmax ≤ (step w ev).1.now) := by
  have hinv := hw.inv
  -- carried through every serve: expiry unchanged; ready implies accepted by `call`
  let P : World → Prop := fun x => x.ar.ttl = w.ar.ttl ∧ (x.ar.isReady = true → x.readyAt.isSome ∧ x.live = false)
  have hP0 : P w := ⟨rfl, fun h => by rw [((status_pending_iff w).mp hp).1] at h; cases h⟩
  have hPs : P (step w ev).1 := by
    refine @step_pres_noRearm P (fun x n ch hx _ => hx) ?_ ?_ w hP0 ev hne
    · intro x m ⟨a, b⟩
      cases m with
      | reply e v =>
        simp only [dispatch]
        split
        · unfold call
          split
          · exact ⟨a, fun h => ⟨(b h).1, rfl⟩⟩
          · exact ⟨a, fun _ => ⟨rfl, rfl⟩⟩
        · exact ⟨a, b⟩
      | other d => exact ⟨a, b⟩
    · intro x c ⟨a, b⟩
      unfold addCallback
      split
      · exact ⟨a, b⟩
      · next hr => exact ⟨a, fun h => by simp at hr; simp [hr] at h⟩
  cases hs : status (step w ev).1 with
  | pending => exact Or.inl rfl
  | ready =>
    have hr := (status_ready_iff _).mp hs
    exact Or.inr (Or.inl ⟨rfl, hPs.2 hr⟩)
  | expired =>
    have hx := (status_expired_iff _).mp hs
    simp [AR.expired, Timeout.expired, hPs.1] at hx
    exact Or.inr (Or.inr ⟨rfl, hx.2.1, hx.2.2⟩)

/-! ### (2) callbacks: exactly once, in registration order, at arrival or at once -/

/-- For every run from a freshly issued request: while not ready no callback has run and all
registrations are stored in order; once ready, the callback log is *exactly* the list of registrations in
registration order — each once — and the instant of each run is the arrival instant for those
registered before it and the registration instant for those registered after it (`max`). -/
theorem callbacks_once_in_order (t0 : Nat) (evs : List Ev) :
    ((runs (World.init t0) evs).ar.isReady = false →
        (runs (World.init t0) evs).cbLog = []
        ∧ (runs (World.init t0) evs).ar.callbacks = (regsOf (World.init t0) evs).map Prod.fst)
    ∧ ((runs (World.init t0) evs).ar.isReady = true →
        (runs (World.init t0) evs).ar.callbacks = []
        ∧ ∃ t, (runs (World.init t0) evs).readyAt = some t
          ∧ (runs (World.init t0) evs).cbLog = (regsOf (World.init t0) evs).map (fun p => (p.1, max p.2 t))) := by
  have h := (Ledger.runs evs (Ledger.init t0)).2.2
  simp only [List.nil_append] at h
  constructor
  · intro hr
    rcases h with ⟨a, _⟩ | ⟨_, b, c⟩
    · rw [hr] at a; cases a
    · exact ⟨b, c⟩
  · intro hr
    rcases h with ⟨_, b, t, c, _, e⟩ | ⟨a, _⟩
    · exact ⟨b, t, c, e⟩
    · rw [hr] at a; cases a

/-- in particular the callbacks that ran are the callbacks registered: same ones, same order, same count -/
theorem callbacks_each_once (t0 : Nat) (evs : List Ev) (hr : (runs (World.init t0) evs).ar.isReady = true) :
    (runs (World.init t0) evs).cbLog.map Prod.fst = (regsOf (World.init t0) evs).map Prod.fst := by
  obtain ⟨_, t, _, h⟩ := (callbacks_once_in_order t0 evs).2 hr
  rw [h]; simp [List.map_map, Function.comp_def]

/-- a callback registered on a ready result runs at once and only then -/
theorem callback_after_ready_runs_at_once (w : World) (hr : w.ar.isReady = true) (c : Nat) :
    (step w (.addCallback c)).1 = { w with cbLog := w.cbLog ++ [(c, w.now)] } := by
  simp [step, addCallback, hr]

/-! ### (3) waiting raises the timeout error at the expiry instant -/

/-- the loop of `wait` never needs more iterations than messages in the channel plus two -/
theorem wait_total (w : World) : (wait w).2 ≠ .fuel := by
  unfold wait
  have := waitLoop_fuel (waitFuel w) w (Nat.le_refl _)
  split
  · split <;> simp
  · simp
  · next h => exact absurd h this

/-- **Timeouts are exact.** If `wait` raises the timeout error then the result has a finite deadline `D`
(so the timeout was a number ≥ 0), the result is not ready, the clock reads at least `D` — never earlier —
and it reads exactly `max D (instant of the call)`, unless the last thing the waiting thread did was to
serve an unrelated request whose dispatch began at `s ≤ D` and lasted `d` with `D < s + d`: then it reads
`s + d`, the end of that request. -/
theorem timeout_exact (w : World) (h : (wait w).2 = .timeout) :
    w.ar.ttl.finite = true ∧ (wait w).1.ar.isReady = false ∧ (wait w).1.ar.ttl = w.ar.ttl
      ∧ w.ar.ttl.tmax ≤ (wait w).1.now
      ∧ ((wait w).1.now = max w.now w.ar.ttl.tmax
          ∨ ∃ s d pre, (wait w).1.busy = w.busy ++ pre ++ [(s, d)] ∧ s ≤ w.ar.ttl.tmax
              ∧ w.ar.ttl.tmax < s + d ∧ (wait w).1.now = s + d) := by
  unfold wait at h ⊢
  split at h
  · next w' hl =>
    split at h
    · cases h
    · next hnr =>
      simp only [hnr]
      simp at hnr
      obtain ⟨a, b, c, d⟩ := waitLoop_timeout _ w w' hl hnr
      exact ⟨b, hnr, a, c, d⟩
  · cases h
  · cases h

/-- the same for `value` (which is `wait` followed by returning or raising the content) -/
theorem value_timeout_exact (w : World) (h : (value w).2 = .timeout) :
    w.ar.ttl.finite = true ∧ w.ar.ttl.tmax ≤ (value w).1.now
      ∧ ((value w).1.now = max w.now w.ar.ttl.tmax
          ∨ ∃ s d pre, (value w).1.busy = w.busy ++ pre ++ [(s, d)] ∧ s ≤ w.ar.ttl.tmax
              ∧ w.ar.ttl.tmax < s + d ∧ (value w).1.now = s + d) := by
  have hv : (value w).1 = (wait w).1 := by
    unfold value; split
    · split <;> rfl
    · rfl
  have hw : (wait w).2 = .timeout := by
    unfold value at h
    split at h
    · split at h <;> cases h
    · exact h
  obtain ⟨a, _, _, c, d⟩ := timeout_exact w hw
  rw [hv]; exact ⟨a, c, d⟩

/-- with `None` or a negative timeout, waiting never raises the timeout error -/
theorem no_deadline_no_timeout (w : World) (h : w.ar.ttl.finite = false) : (wait w).2 ≠ .timeout := by
  intro ht
  have := (timeout_exact w ht).1
  rw [h] at this; cases this

/-- `wait` returning normally means the result is ready (so `value` yields its content) -/
theorem wait_returns_ready (w : World) (h : (wait w).2 = .unit) : (wait w).1.ar.isReady = true := by
  unfold wait at h ⊢
  split at h
  · next w' hl =>
    split at h
    · next hr => simp only [hr, if_true]
    · cases h
  · cases h
  · cases h

/-! ### (4) a synchronous request is an asynchronous one carrying the configured timeout -/

/-- `sync_request` with configured timeout `τ` = issue the request, `set_expiry(τ)`, read `.value` — for
every `τ`, `None` included (where `async_request` skips `set_expiry`, which is the same thing). -/
theorem sync_is_async_plus_timeout (w : World) (τ : Option Int) :
    syncRequest w τ = step (step (asyncRequest w none) (.setExpiry τ)).1 .qValue := by
  cases τ with
  | none => rfl
  | some t => rfl

/-- and `timed(proxy, τ)(…)` is `async_request(…, timeout=τ)` -/
theorem timed_is_async_with_timeout (w : World) (τ : Option Int) : timedCall w τ = asyncRequest w τ := by
  cases τ with
  | none => rfl
  | some t => rfl

/-- **Every request gets its own deadline, counted from the instant it is issued** — however old the
connection or a reused `timed` wrapper is: the fresh result of `async_request(timeout=τ)`, of a call of a
`timed(proxy, τ)` wrapper made at any earlier time, and of `sync_request` with configured timeout `τ`
expires at `issue instant + τ` (never for `None`/negative), is pending with an empty callback list, and
its registry entry is live. -/
theorem each_request_own_deadline (w : World) (τ : Option Int) :
    (asyncRequest w τ).ar.ttl = Timeout.make w.now τ
      ∧ (Timed.call w (Timed.make τ)).ar.ttl = Timeout.make w.now τ
      ∧ (asyncRequest w τ).ar.isReady = false ∧ (asyncRequest w τ).ar.callbacks = []
      ∧ (asyncRequest w τ).live = true ∧ (asyncRequest w τ).now = w.now
      ∧ Timed.call w (Timed.make τ) = asyncRequest w τ := by
  cases τ with
  | none => exact ⟨rfl, rfl, rfl, rfl, rfl, rfl, rfl⟩
  | some t => exact ⟨rfl, rfl, rfl, rfl, rfl, rfl, rfl⟩

/-- so a synchronous request raises the timeout error no earlier than `τ` after it was issued, and exactly
then unless the caller was busy serving a request -/
theorem sync_timeout_exact (w : World) (τ : Option Int) (h : (syncRequest w τ).2 = .timeout) :
    ∃ t : Int, τ = some t ∧ 0 ≤ t ∧ w.now + t.toNat ≤ (syncRequest w τ).1.now
      ∧ ((syncRequest w τ).1.now = w.now + t.toNat
          ∨ ∃ s d pre, (syncRequest w τ).1.busy = w.busy ++ pre ++ [(s, d)] ∧ s ≤ w.now + t.toNat
              ∧ w.now + t.toNat < s + d ∧ (syncRequest w τ).1.now = s + d) := by
  unfold syncRequest at h ⊢
  obtain ⟨a, c, d⟩ := value_timeout_exact _ h
  cases τ with
  | none => simp [asyncRequest, AR.init, Timeout.inf] at a
  | some t =>
    by_cases ht : 0 ≤ t
    · refine ⟨t, rfl, ht, ?_⟩
      simp only [asyncRequest, setExpiry, Timeout.make, ht, if_true] at c d ⊢
      refine ⟨c, ?_⟩
      rcases d with d | d
      · left; rw [d]; omega
      · right; exact d
    · simp [asyncRequest, setExpiry, Timeout.make, ht] at a

/-! ### generated facts about the source (regenerated from /repo on every run) -/

/-- the slots of `AsyncResult` are exactly the state the model has: `_is_ready`, `_is_exc`, `_obj`,
`_callbacks`, `_ttl` (the fields of `AR`) and `_conn` (the surrounding `World`); a new slot is new state -/
theorem slots_are_modelled :
    Gen.Async.slots = ["_conn", "_is_ready", "_is_exc", "_callbacks", "_obj", "_ttl"] := by decide

/-- with the *default* configuration (`sync_request_timeout` as found in the source) a synchronous request
that fails with the timeout error does so no earlier than that many ticks after it was issued -/
theorem default_sync_timeout (w : World) (h : (syncRequest w Gen.Async.syncRequestTimeout).2 = .timeout) :
    ∃ t : Int, Gen.Async.syncRequestTimeout = some t ∧ 0 ≤ t
      ∧ w.now + t.toNat ≤ (syncRequest w Gen.Async.syncRequestTimeout).1.now := by
  obtain ⟨t, h1, h2, h3, _⟩ := sync_timeout_exact w _ h
  exact ⟨t, h1, h2, h3⟩

/-! ### re-arming (outside the statement's events, recorded for completeness) -/

/-- `set_expiry` on an expired result makes it pending again when the new deadline lies in the future or
is absent: expiry is final only for as long as the user does not re-arm it. -/
theorem rearm_revives (w : World) (hx : status w = .expired) (τ : Option Int)
    (hτ : ∀ t, τ = some t → t ≠ 0) : status (setExpiry w τ) = .pending := by
  have h := (status_expired_iff w).mp hx
  simp [AR.expired] at h
  rw [status_pending_iff]
  refine ⟨h.1, ?_⟩
  cases τ with
  | none => rfl
  | some t =>
    by_cases ht : 0 ≤ t
    · have : t ≠ 0 := hτ t rfl
      simp [setExpiry, Timeout.make, ht, Timeout.expired]
      omega
    · simp [setExpiry, Timeout.make, ht, Timeout.expired]

/-! ### non-vacuity: concrete runs meet the hypotheses and show each behaviour -/

/-- reply first: two callbacks before, one after; value available; log in order with instants -/
example :
    run (World.init 0) [.setExpiry (some 3), .addCallback 1, .addCallback 2, .send 1 (.reply false 7), .tick 1,
                        .qReady, .addCallback 3, .tick 9, .qValue, .qExpired]
      = (⟨10, ⟨true, some false, some 7, [], ⟨true, 3⟩⟩, false, [], [(1, 1), (2, 1), (3, 1)], some 1, []⟩,
         [.unit, .unit, .unit, .unit, .unit, .bool true, .unit, .unit, .value (some 7), .bool false]) := by
  decide +kernel

/-- expiry first: wait raises exactly at the deadline; the late reply is discarded, callbacks never run -/
example :
    run (World.init 0) [.setExpiry (some 3), .addCallback 1, .send 5 (.reply false 7), .wait, .tick 4, .serve1,
                        .qReady, .qValue]
      = (⟨7, ⟨false, none, none, [1], ⟨true, 3⟩⟩, false, [], [], none, []⟩,
         [.unit, .unit, .unit, .timeout, .unit, .unit, .bool false, .timeout]) := by
  decide +kernel

/-- later than the deadline only by the request being served: deadline 3, a request arriving at 1 keeps the
thread busy for 4, the timeout error is raised at 5 -/
example :
    (run (World.init 0) [.setExpiry (some 3), .send 1 (.other 4), .send 2 (.reply true 9), .qValue]).2
        = [.unit, .unit, .unit, .timeout]
      ∧ (runs (World.init 0) [.setExpiry (some 3), .send 1 (.other 4), .send 2 (.reply true 9), .qValue]).now = 5
      ∧ (runs (World.init 0) [.setExpiry (some 3), .send 1 (.other 4), .send 2 (.reply true 9), .qValue]).busy = [(1, 4)] := by
  decide +kernel

/-- a negative timeout is no timeout: the reply at 50 is waited for and returned (as an exception) -/
example :
    (run (World.init 0) [.setExpiry (some (-1)), .send 50 (.reply true 9), .qValue]).2
      = [.unit, .unit, .raised (some 9)] := by
  decide +kernel

/-- the hypotheses of `expired_final` and `ready_final` are met by reachable worlds -/
example : status (runs (World.init 0) [.setExpiry (some 0)]) = .expired := by decide +kernel
example : Reachable (runs (World.init 0) [.arrive false 1]) ∧ (runs (World.init 0) [.arrive false 1]).ar.isReady = true :=
  ⟨⟨0, _, rfl⟩, by decide +kernel⟩
example : status (runs (World.init 0) [.setExpiry (some 2), .tick 1]) = .pending := by decide +kernel

/-- a synchronous request with timeout 2 whose reply comes at 5 fails at 2; with timeout `None` it returns -/
example : (syncRequest { World.init 0 with chan := [(5, .reply false 1)] } (some 2)).2 = .timeout
    ∧ (syncRequest { World.init 0 with chan := [(5, .reply false 1)] } (some 2)).1.now = 2
    ∧ (syncRequest { World.init 0 with chan := [(5, .reply false 1)] } none).2 = .value (some 1) := by
  decide +kernel

/-- a `timed(…, 3)` wrapper first used 5 ticks after it was made: the call at 5 has its deadline at 8, the reply
at 6 is returned; the second call at 10 has its deadline at 13 and times out exactly then -/
example :
    (Timed.call { World.init 5 with chan := [(6, .reply false 7)] } (Timed.make (some 3))).ar.ttl = ⟨true, 8⟩
    ∧ (value (Timed.call { World.init 5 with chan := [(6, .reply false 7)] } (Timed.make (some 3)))).2 = .value (some 7)
    ∧ (value (Timed.call { World.init 10 with chan := [(20, .reply false 7)] } (Timed.make (some 3)))).2 = .timeout
    ∧ (value (Timed.call { World.init 10 with chan := [(20, .reply false 7)] } (Timed.make (some 3)))).1.now = 13 := by
  decide +kernel

/-- re-arming: expired at 1, re-armed, the reply at 3 is then accepted -/
example :
    (run (World.init 0) [.setExpiry (some 1), .send 3 (.reply false 7), .tick 1, .qExpired, .setExpiry (some 5),
                         .qExpired, .qValue]).2
      = [.unit, .unit, .unit, .bool true, .unit, .bool false, .value (some 7)] := by
  decide +kernel

end Rpyc.Props.C15
