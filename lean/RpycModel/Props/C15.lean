import RpycModel.Async.Multi
import RpycModel.Gen.Async
/-
C15 — asynchronous results: pending until the reply arrives or the expiry passes, whichever happens
first; that outcome is final; callbacks run exactly once, in registration order (at once if registered
afterwards); waiting raises the timeout error at the expiry instant, never earlier, and later only by a
request the waiting thread is itself serving; a synchronous request is an asynchronous one carrying the
configured timeout.

Only property theorems, guards/obligations on generated constants and non-vacuity examples live in namespace
Rpyc.Props.C15 (corollaries and witnesses follow in Rpyc.Async.C15Aux, not counted); the model is
RpycModel/Async/Model.lean, helper lemmas and the *definitional* lemmas (one-step unfoldings of the
transcription: `timeout_finite_iff`, `timeout_deadline`, `infinite_never_expires`, `late_reply_discarded`,
`reply_accepted_when_pending`, `callback_after_ready_runs_at_once`, `sync_is_async_plus_timeout`,
`timed_is_async_with_timeout`, `each_request_own_deadline`) RpycModel/Async/Lemmas.lean.  All theorems hold for every
sequence of events (no bound on length), every instant, every channel content and every timeout value
(`none`, negative, zero, positive).  "Arrival" is the instant the reply is dispatched (`__call__` runs).
-/
namespace Rpyc.Props.C15
open Rpyc Rpyc.Async

/-! ### (1) one final outcome -/

/-- **Readiness is final** — under every later event, re-arming and duplicate replies included: still
ready, same value, same exception flag. -/
theorem ready_final (w : World) (hw : Reachable w) (hr : w.ar.isReady = true) (evs : List Ev) :
    (runs w evs).ar.isReady = true ∧ (runs w evs).ar.isExc = w.ar.isExc ∧ (runs w evs).ar.obj = w.ar.obj := by
  have := Frozen.runs evs (hw.inv.frozen hr)
  exact ⟨this.1, this.2.1, this.2.2.1⟩

/-- and the value (or exception) is available from then on: `value` returns (raises) it at once, `wait`
returns, `ready` is true, `expired` false, whatever happened in between. -/
theorem ready_value_available (w : World) (hw : Reachable w) (hr : w.ar.isReady = true) (evs : List Ev) :
    step (runs w evs) .qValue
        = (runs w evs, if w.ar.isExc = some true then .raised w.ar.obj else .value w.ar.obj)
      ∧ step (runs w evs) .wait = (runs w evs, .unit)
      ∧ step (runs w evs) .qReady = (runs w evs, .bool true)
      ∧ step (runs w evs) .qError = (runs w evs, .tri w.ar.isExc)
      ∧ step (runs w evs) .qExpired = (runs w evs, .bool false) := by
  obtain ⟨h1, h2, h3⟩ := ready_final w hw hr evs
  have hwait : wait (runs w evs) = (runs w evs, .unit) := by
    simp [wait, waitFuel, waitLoop, h1]
  refine ⟨?_, hwait, ?_, ?_, ?_⟩
  · simp only [step, value, hwait, h2, h3]
    split <;> rfl
  · simp [step, ready, h1]
  · simp [step, error, ready, h1, h2]
  · simp [step, AR.expired, h1]

/-- **Expiry while pending is final** for every later sequence of events that does not re-arm the expiry:
still expired, nothing published, no callback has run (the log is unchanged), registered callbacks are
only kept. -/
theorem expired_final (w : World) (hx : status w = .expired) (evs : List Ev) (hn : noRearm evs) :
    status (runs w evs) = .expired ∧ (runs w evs).cbLog = w.cbLog ∧ (runs w evs).ar.isExc = w.ar.isExc
      ∧ (runs w evs).ar.obj = w.ar.obj ∧ ∃ more, (runs w evs).ar.callbacks = w.ar.callbacks ++ more := by
  have hd := Dead.runs evs (Dead.of_expired ((status_expired_iff w).mp hx)) hn
  exact ⟨(status_expired_iff _).mpr hd.expired, hd.2.2.2.1, hd.2.2.2.2.1, hd.2.2.2.2.2.1, hd.2.2.2.2.2.2.2⟩

/-- what an expired result shows, then and ever after: waiting raises the timeout error at once (the clock
does not move), `ready` and `error` are false, `expired` is true. -/
theorem expired_observations (w : World) (hx : status w = .expired) (evs : List Ev) (hn : noRearm evs) :
    step (runs w evs) .wait = (runs w evs, .timeout)
      ∧ step (runs w evs) .qValue = (runs w evs, .timeout)
      ∧ step (runs w evs) .qReady = (runs w evs, .bool false)
      ∧ step (runs w evs) .qError = (runs w evs, .tri (some false))
      ∧ step (runs w evs) .qExpired = (runs w evs, .bool true) := by
  have hd := Dead.runs evs (Dead.of_expired ((status_expired_iff w).mp hx)) hn
  refine ⟨hd.wait, hd.value, ?_, ?_, ?_⟩
  · simp [step, hd.ready]
  · simp [step, hd.error]
  · simp [step, hd.expired]

/-- every state is exactly one of pending / ready / expired, and a pending result stays pending under an
event unless a reply is dispatched in it or the clock reaches the deadline (nothing else decides) -/
theorem pending_until_decided (w : World) (hw : Reachable w) (hp : status w = .pending) (ev : Ev)
    (hne : ∀ τ, ev ≠ .setExpiry τ) :
    status (step w ev).1 = .pending
      ∨ (status (step w ev).1 = .ready ∧ (step w ev).1.readyAt.isSome ∧ (step w ev).1.live = false)
      ∨ (status (step w ev).1 = .expired ∧ w.ar.ttl.finite = true ∧ w.ar.ttl.tmax ≤ (step w ev).1.now) := by
  have hinv := hw.inv
  -- carried through every serve: expiry unchanged; ready implies accepted by `call`
  let P : World → Prop := fun x => x.ar.ttl = w.ar.ttl ∧ (x.ar.isReady = true → x.readyAt.isSome ∧ x.live = false)
  have hP0 : P w := ⟨rfl, fun h => by rw [((status_pending_iff w).mp hp).1] at h; cases h⟩
  have hPs : P (step w ev).1 := by
    refine @step_pres_noRearm P (fun x n ch hx _ => hx) ?_ ?_ w hP0 ev hne
    · intro x m ⟨a, b⟩
      cases m with
      | reply e v =>
        simp only [dispatch]
        split
        · unfold call
          split
          · exact ⟨a, fun h => ⟨(b h).1, rfl⟩⟩
          · exact ⟨a, fun _ => ⟨rfl, rfl⟩⟩
        · exact ⟨a, b⟩
      | other d => exact ⟨a, b⟩
    · intro x c ⟨a, b⟩
      unfold addCallback
      split
      · exact ⟨a, b⟩
      · next hr => exact ⟨a, fun h => by simp at hr; simp [hr] at h⟩
  cases hs : status (step w ev).1 with
  | pending => exact Or.inl rfl
  | ready =>
    have hr := (status_ready_iff _).mp hs
    exact Or.inr (Or.inl ⟨rfl, hPs.2 hr⟩)
  | expired =>
    have hx := (status_expired_iff _).mp hs
    simp [AR.expired, Timeout.expired, hPs.1] at hx
    exact Or.inr (Or.inr ⟨rfl, hx.2.1, hx.2.2⟩)

/-! ### (2) callbacks: exactly once, in registration order, at arrival or at once -/

/-- For every run from a freshly issued request: while not ready no callback has run and all
registrations are stored in order; once ready, the callback log is *exactly* the list of registrations in
registration order — each once — and the instant of each run is the arrival instant for those
registered before it and the registration instant for those registered after it (`max`). -/
theorem callbacks_once_in_order (t0 : Nat) (evs : List Ev) :
    ((runs (World.init t0) evs).ar.isReady = false →
        (runs (World.init t0) evs).cbLog = []
        ∧ (runs (World.init t0) evs).ar.callbacks = (regsOf (World.init t0) evs).map Prod.fst)
    ∧ ((runs (World.init t0) evs).ar.isReady = true →
        (runs (World.init t0) evs).ar.callbacks = []
        ∧ ∃ t, (runs (World.init t0) evs).readyAt = some t
          ∧ (runs (World.init t0) evs).cbLog = (regsOf (World.init t0) evs).map (fun p => (p.1, max p.2 t))) := by
  have h := (Ledger.runs evs (Ledger.init t0)).2.2
  simp only [List.nil_append] at h
  constructor
  · intro hr
    rcases h with ⟨a, _⟩ | ⟨_, b, c⟩
    · rw [hr] at a; cases a
    · exact ⟨b, c⟩
  · intro hr
    rcases h with ⟨_, b, t, c, _, e⟩ | ⟨a, _⟩
    · exact ⟨b, t, c, e⟩
    · rw [hr] at a; cases a

/-! ### (2b) callbacks that raise or re-enter  (`callR`: `__call__` alone, any callbacks)

The worlds above take callbacks to return.  `callR` is `__call__` with callbacks that may raise and may
re-enter (register more callbacks, read the value, issue a request from inside); which of its two loops the
source has is *measured* on every run (`Gen.Async.callbacksAllRun`). -/

/-- **obligation on the source** (regenerated from /repo on every run): `__call__` runs every callback even when
one of them raises, clears the list, and re-raises the first error after the loop.  (On a tree whose loop stops
at the raising callback this is false, and the check reports it with a concrete replay.) -/
theorem callbacks_all_run : Gen.Async.callbacksAllRun = true := by decide

/-- the clause at full strength, for ALL callbacks — returning, raising (whatever the class of the error),
re-entrant: when the reply arrives the result is ready with its value, every registered callback has run exactly
once, in registration order, each followed at once by the callbacks it registered from inside itself; nothing
stays stored.  (Whether a callback's error then surfaces in the serving thread or is kept from it is not part of
the statement: `propagates` is left free.) -/
def C15_callbacks_clause : Prop :=
  ∀ (propagates : Bool) (now : Nat) (cbs : List Cb) (e : Bool) (v : Nat),
    (callR Gen.Async.callbacksAllRun propagates false now cbs e v).isReady = true
    ∧ (callR Gen.Async.callbacksAllRun propagates false now cbs e v).isExc = some e
    ∧ (callR Gen.Async.callbacksAllRun propagates false now cbs e v).obj = some v
    ∧ (callR Gen.Async.callbacksAllRun propagates false now cbs e v).log
        = cbs.flatMap (fun x => (x.id, now) :: x.adds.map (fun a => (a, now)))
    ∧ (callR Gen.Async.callbacksAllRun propagates false now cbs e v).stored = []

/-- **Every registered callback runs exactly once, in order — raising ones included.** -/
theorem C15_callbacks : C15_callbacks_clause := by
  intro p now cbs e v
  rw [callbacks_all_run]
  simp [callR, runAll_spec]

/-! ### (2c) a callback registered while another thread publishes the reply -/

/-- **obligation on the source** (measured on every run): `add_callback`'s test-and-append and `__call__`'s
set-ready-and-take-the-list exclude each other. -/
theorem add_callback_atomic : Gen.Async.addCallbackAtomic = true := by decide

/-- the clause: a registration that races with the publication is one of the two serial orders — here "register,
then publish" — so everything proved about event sequences applies to it: the callback runs exactly once -/
def C15_racing_registration_clause : Prop :=
  ∀ (w : World) (c : Nat) (e : Bool) (v : Nat),
    addCallbackRace Gen.Async.addCallbackAtomic w c e v = runs w [.addCallback c, .arrive e v]

theorem C15_racing_registration : C15_racing_registration_clause := by
  intro w c e v
  rw [add_callback_atomic]
  have hs : (addCallback w c).seq = w.seq := by unfold addCallback; split <;> rfl
  simp [addCallbackRace, runs, step, hs]

/-! ### (3) waiting raises the timeout error at the expiry instant -/

/-- **Timeouts are exact.** If `wait` raises the timeout error then the result has a finite deadline `D`
(so the timeout was a number ≥ 0), the result is not ready, the clock reads at least `D` — never earlier —
and it reads exactly `max D (instant of the call)`, unless the last thing the waiting thread did was to
serve an unrelated request whose dispatch began at `s ≤ D` and lasted `d` with `D < s + d`: then it reads
`s + d`, the end of that request. -/
theorem timeout_exact (w : World) (h : (wait w).2 = .timeout) :
    w.ar.ttl.finite = true ∧ (wait w).1.ar.isReady = false ∧ (wait w).1.ar.ttl = w.ar.ttl
      ∧ w.ar.ttl.tmax ≤ (wait w).1.now
      ∧ ((wait w).1.now = max w.now w.ar.ttl.tmax
          ∨ ∃ s d pre, (wait w).1.busy = w.busy ++ pre ++ [(s, d)] ∧ s ≤ w.ar.ttl.tmax
              ∧ w.ar.ttl.tmax < s + d ∧ (wait w).1.now = s + d) := by
  unfold wait at h ⊢
  split at h
  · next w' hl =>
    split at h
    · cases h
    · next hnr =>
      simp only [hnr]
      simp at hnr
      obtain ⟨a, b, c, d⟩ := waitLoop_timeout _ w w' hl hnr
      exact ⟨b, hnr, a, c, d⟩
  · cases h
  · cases h

/-- the same for `value` (which is `wait` followed by returning or raising the content) -/
theorem value_timeout_exact (w : World) (h : (value w).2 = .timeout) :
    w.ar.ttl.finite = true ∧ w.ar.ttl.tmax ≤ (value w).1.now
      ∧ ((value w).1.now = max w.now w.ar.ttl.tmax
          ∨ ∃ s d pre, (value w).1.busy = w.busy ++ pre ++ [(s, d)] ∧ s ≤ w.ar.ttl.tmax
              ∧ w.ar.ttl.tmax < s + d ∧ (value w).1.now = s + d) := by
  have hv : (value w).1 = (wait w).1 := by
    unfold value; split
    · split <;> rfl
    · rfl
  have hw : (wait w).2 = .timeout := by
    unfold value at h
    split at h
    · split at h <;> cases h
    · exact h
  obtain ⟨a, _, _, c, d⟩ := timeout_exact w hw
  rw [hv]; exact ⟨a, c, d⟩

/-! ### (4) a synchronous request is an asynchronous one carrying the configured timeout -/

/-- so a synchronous request raises the timeout error no earlier than `τ` after it was issued, and exactly
then unless the caller was busy serving a request -/
theorem sync_timeout_exact (w : World) (τ : Option Int) (h : (syncRequest w τ).2 = .timeout) :
    ∃ t : Int, τ = some t ∧ 0 ≤ t ∧ w.now + t.toNat ≤ (syncRequest w τ).1.now
      ∧ ((syncRequest w τ).1.now = w.now + t.toNat
          ∨ ∃ s d pre, (syncRequest w τ).1.busy = w.busy ++ pre ++ [(s, d)] ∧ s ≤ w.now + t.toNat
              ∧ w.now + t.toNat < s + d ∧ (syncRequest w τ).1.now = s + d) := by
  unfold syncRequest at h ⊢
  obtain ⟨a, c, d⟩ := value_timeout_exact _ h
  cases τ with
  | none => simp [asyncRequest, AR.init, Timeout.inf] at a
  | some t =>
    by_cases ht : 0 ≤ t
    · refine ⟨t, rfl, ht, ?_⟩
      simp only [asyncRequest, setExpiry, Timeout.make, ht, if_true] at c d ⊢
      refine ⟨c, ?_⟩
      rcases d with d | d
      · left; rw [d]; omega
      · right; exact d
    · simp [asyncRequest, setExpiry, Timeout.make, ht] at a

/-! ### (5) several requests on one connection: independent except through the environment

`MWorld` keeps one single-request world (a *view*) per request; replies carry the sequence number of their
request.  The theorems above are about one view and quantify over *all* its event sequences, environment
events (`tick`, `send`, `serve1`, `serveT`, `serveAt`) included. -/

/-- **One connection.** In every run of a multi-request world all per-request views agree on the clock, the
inbound channel and the busy log: the views are projections of one connection, not separate worlds. -/
theorem requests_share_one_connection (t0 : Nat) (es : List MEv) : MAgree (mruns (MWorld.init t0) es) :=
  mruns_agree es _ (MAgree.init t0)

/-- so readiness of one request is final whatever is done with the others: waits on them, their replies
(earlier or later ones, stale ones left over from abandoned requests), their expiry, new requests -/
theorem multi_ready_final (mw : MWorld) (es : List MEv) (k : Nat) (v : World) (hv : mw.views[k]? = some v)
    (hi : Inv v) (hr : v.ar.isReady = true) :
    ∃ v', (mruns mw es).views[k]? = some v' ∧ v'.ar.isReady = true ∧ v'.ar.isExc = v.ar.isExc
      ∧ v'.ar.obj = v.ar.obj := by
  obtain ⟨evs, h, _⟩ := view_after_runs es mw k v hv
  have := Frozen.runs evs (hi.frozen hr)
  exact ⟨_, h, this.1, this.2.1, this.2.2.1⟩

/-- and expiry of one request is final as long as *that* request is not re-armed: nothing done to other
requests can revive it or run its callbacks -/
theorem multi_expired_final (mw : MWorld) (es : List MEv) (k : Nat) (v : World) (hv : mw.views[k]? = some v)
    (hx : status v = .expired) (hn : ∀ τ, MEv.on k (.setExpiry τ) ∉ es) :
    ∃ v', (mruns mw es).views[k]? = some v' ∧ status v' = .expired ∧ v'.cbLog = v.cbLog := by
  obtain ⟨evs, h, p⟩ := view_after_runs es mw k v hv
  have hno : noRearm evs := by
    intro ev hev τ heq
    subst heq
    rcases p _ hev with h1 | h1
    · simp [isEnv] at h1
    · exact hn τ h1
  obtain ⟨a, b, _⟩ := expired_final v hx evs hno
  exact ⟨_, h, a, b⟩

/-! ### generated facts about the source (regenerated from /repo on every run) -/

/-- guard (not a property): the slots of `AsyncResult`, in any order, are exactly the state the model has:
`_is_ready`, `_is_exc`, `_obj`, `_callbacks`, `_ttl` (the fields of `AR`), `_conn` (the surrounding `World`) and
`_lock` (the exclusion that `addCallbackRace`'s `atomic` stands for); another slot is state the model lacks.
State kept elsewhere (on the `Timeout`, the connection, a base class) is not seen by this guard. -/
theorem slots_are_modelled :
    Gen.Async.slots = ["_callbacks", "_conn", "_is_exc", "_is_ready", "_lock", "_obj", "_ttl"] := by decide

/-! ### re-arming (outside the statement's events, recorded for completeness) -/

/-- `set_expiry` on an expired result makes it pending again when the new deadline lies in the future or
is absent: expiry is final only for as long as the user does not re-arm it. -/
theorem rearm_revives (w : World) (hx : status w = .expired) (τ : Option Int)
    (hτ : ∀ t, τ = some t → t ≠ 0) : status (setExpiry w τ) = .pending := by
  have h := (status_expired_iff w).mp hx
  simp [AR.expired] at h
  rw [status_pending_iff]
  refine ⟨h.1, ?_⟩
  cases τ with
  | none => rfl
  | some t =>
    by_cases ht : 0 ≤ t
    · have : t ≠ 0 := hτ t rfl
      simp [setExpiry, Timeout.make, ht, Timeout.expired]
      omega
    · simp [setExpiry, Timeout.make, ht, Timeout.expired]

/-! ### non-vacuity: concrete runs meet the hypotheses and show each behaviour -/

/-- reply first: two callbacks before, one after; value available; log in order with instants -/
example :
    run (World.init 0) [.setExpiry (some 3), .addCallback 1, .addCallback 2, .send 1 (.reply 0 false 7), .tick 1,
                        .qReady, .addCallback 3, .tick 9, .qValue, .qExpired]
      = (⟨10, 0, ⟨true, some false, some 7, [], ⟨true, 3⟩⟩, false, [], [(1, 1), (2, 1), (3, 1)], some 1, []⟩,
         [.unit, .unit, .unit, .unit, .unit, .bool true, .unit, .unit, .value (some 7), .bool false]) := by
  decide +kernel

/-- expiry first: wait raises exactly at the deadline; the late reply is discarded, callbacks never run -/
example :
    run (World.init 0) [.setExpiry (some 3), .addCallback 1, .send 5 (.reply 0 false 7), .wait, .tick 4, .serve1,
                        .qReady, .qValue]
      = (⟨7, 0, ⟨false, none, none, [1], ⟨true, 3⟩⟩, false, [], [], none, []⟩,
         [.unit, .unit, .unit, .timeout, .unit, .unit, .bool false, .timeout]) := by
  decide +kernel

/-- later than the deadline only by the request being served: deadline 3, a request arriving at 1 keeps the
thread busy for 4, the timeout error is raised at 5 -/
example :
    (run (World.init 0) [.setExpiry (some 3), .send 1 (.other 4), .send 2 (.reply 0 true 9), .qValue]).2
        = [.unit, .unit, .unit, .timeout]
      ∧ (runs (World.init 0) [.setExpiry (some 3), .send 1 (.other 4), .send 2 (.reply 0 true 9), .qValue]).now = 5
      ∧ (runs (World.init 0) [.setExpiry (some 3), .send 1 (.other 4), .send 2 (.reply 0 true 9), .qValue]).busy = [(1, 4)] := by
  decide +kernel

/-- a negative timeout is no timeout: the reply at 50 is waited for and returned (as an exception) -/
example :
    (run (World.init 0) [.setExpiry (some (-1)), .send 50 (.reply 0 true 9), .qValue]).2
      = [.unit, .unit, .raised (some 9)] := by
  decide +kernel

/-- the hypotheses of `expired_final` and `ready_final` are met by reachable worlds -/
example : status (runs (World.init 0) [.setExpiry (some 0)]) = .expired := by decide +kernel
example : Reachable (runs (World.init 0) [.arrive false 1]) ∧ (runs (World.init 0) [.arrive false 1]).ar.isReady = true :=
  ⟨⟨0, _, rfl⟩, by decide +kernel⟩
example : status (runs (World.init 0) [.setExpiry (some 2), .tick 1]) = .pending := by decide +kernel

/-- a synchronous request with timeout 2 whose reply comes at 5 fails at 2; with timeout `None` it returns -/
example : (syncRequest { World.init 0 with chan := [(5, .reply 1 false 1)] } (some 2)).2 = .timeout
    ∧ (syncRequest { World.init 0 with chan := [(5, .reply 1 false 1)] } (some 2)).1.now = 2
    ∧ (syncRequest { World.init 0 with chan := [(5, .reply 1 false 1)] } none).2 = .value (some 1) := by
  decide +kernel

/-- a `timed(…, 3)` wrapper first used 5 ticks after it was made: the call at 5 has its deadline at 8, the reply
at 6 is returned; the second call at 10 has its deadline at 13 and times out exactly then -/
example :
    (Timed.call { World.init 5 with chan := [(6, .reply 1 false 7)] } (Timed.make (some 3))).ar.ttl = ⟨true, 8⟩
    ∧ (value (Timed.call { World.init 5 with chan := [(6, .reply 1 false 7)] } (Timed.make (some 3)))).2 = .value (some 7)
    ∧ (value (Timed.call { World.init 10 with chan := [(20, .reply 1 false 7)] } (Timed.make (some 3)))).2 = .timeout
    ∧ (value (Timed.call { World.init 10 with chan := [(20, .reply 1 false 7)] } (Timed.make (some 3)))).1.now = 13 := by
  decide +kernel

/-- two requests: the first (deadline 2) is abandoned, its reply comes at 5 while the second request (issued at
3) is being waited for; the stale reply does nothing to the second request, whose own reply at 6 is returned -/
example :
    let mw := mruns (MWorld.init 0) [.request (some 2), .on 0 (.send 5 (.reply 1 false 11)), .on 0 .qValue,
                                     .on 0 (.tick 1), .request none, .on 1 (.send 3 (.reply 2 false 22))]
    (mstep mw (.on 1 .qValue)).2 = .value (some 22)
      ∧ ((mstep mw (.on 1 .qValue)).1.views.map (fun v => (v.now, v.ar.isReady, v.ar.obj, v.live)))
          = [(6, false, none, false), (6, true, some 22, false)] := by
  decide +kernel

/-- re-arming: expired at 1, re-armed, the reply at 3 is then accepted -/
example :
    (run (World.init 0) [.setExpiry (some 1), .send 3 (.reply 0 false 7), .tick 1, .qExpired, .setExpiry (some 5),
                         .qExpired, .qValue]).2
      = [.unit, .unit, .unit, .bool true, .unit, .bool false, .value (some 7)] := by
  decide +kernel

end Rpyc.Props.C15

/-! ### corollaries, adequacy lemmas and witnesses

Not property theorems and NOT counted (they live outside `Rpyc.Props.C15`): immediate corollaries of the theorems
above, the fuel-adequacy lemma of `wait`, facts that hold by construction of `mstep`, and the witnesses showing what
the two measured obligations rest on. -/
namespace Rpyc.Async.C15Aux
open Rpyc Rpyc.Async Rpyc.Props.C15

/-- in particular the callbacks that ran are the callbacks registered: same ones, same order, same count -/
theorem callbacks_each_once (t0 : Nat) (evs : List Ev) (hr : (runs (World.init t0) evs).ar.isReady = true) :
    (runs (World.init t0) evs).cbLog.map Prod.fst = (regsOf (World.init t0) evs).map Prod.fst := by
  obtain ⟨_, t, _, h⟩ := (callbacks_once_in_order t0 evs).2 hr
  rw [h]; simp [List.map_map, Function.comp_def]

/-- the loop of `wait` never needs more iterations than messages in the channel plus two -/
theorem wait_total (w : World) : (wait w).2 ≠ .fuel := by
  unfold wait
  have := waitLoop_fuel (waitFuel w) w (Nat.le_refl _)
  split
  · split <;> simp
  · simp
  · next h => exact absurd h this

/-- with `None` or a negative timeout, waiting never raises the timeout error -/
theorem no_deadline_no_timeout (w : World) (h : w.ar.ttl.finite = false) : (wait w).2 ≠ .timeout := by
  intro ht
  have := (timeout_exact w ht).1
  rw [h] at this; cases this

/-- `wait` returning normally means the result is ready (so `value` yields its content) -/
theorem wait_returns_ready (w : World) (h : (wait w).2 = .unit) : (wait w).1.ar.isReady = true := by
  unfold wait at h ⊢
  split at h
  · next w' hl =>
    split at h
    · next hr => simp only [hr, if_true]
    · cases h
  · cases h
  · cases h

/-- with the *default* configuration (`sync_request_timeout` as found in the source) a synchronous request
that fails with the timeout error does so no earlier than that many ticks after it was issued -/
theorem default_sync_timeout (w : World) (h : (syncRequest w Gen.Async.syncRequestTimeout).2 = .timeout) :
    ∃ t : Int, Gen.Async.syncRequestTimeout = some t ∧ 0 ≤ t
      ∧ w.now + t.toNat ≤ (syncRequest w Gen.Async.syncRequestTimeout).1.now := by
  obtain ⟨t, h1, h2, h3, _⟩ := sync_timeout_exact w _ h
  exact ⟨t, h1, h2, h3⟩

/-- what the clause rests on: with the loop that stops at a raising callback (`allRun = false`) it fails — the
callback registered after a raising one never runs, although the result is ready, and both stay stored -/
theorem callbacks_lost_without_all_run :
    callR false true false 5 [⟨1, true, []⟩, ⟨2, false, []⟩] false 7 = ⟨true, some false, some 7, [(1, 5)], [1, 2], true⟩
      ∧ callR true true false 5 [⟨1, true, []⟩, ⟨2, false, []⟩] false 7
          = ⟨true, some false, some 7, [(1, 5), (2, 5)], [], true⟩ := by
  decide

/-- without the exclusion the clause fails: on a fresh pending request, the callback registered during the
publication is stored in a result that is already ready and never runs (no log entry) — whereas the serial order
runs it at the arrival instant -/
theorem racing_registration_lost_without_exclusion :
    (addCallbackRace false (World.init 3) 1 false 7).ar.isReady = true
      ∧ (addCallbackRace false (World.init 3) 1 false 7).ar.callbacks = [1]
      ∧ (addCallbackRace false (World.init 3) 1 false 7).cbLog = []
      ∧ (runs (World.init 3) [.addCallback 1, .arrive false 7]).cbLog = [(1, 3)]
      ∧ ¬ Inv (addCallbackRace false (World.init 3) 1 false 7) := by
  refine ⟨by decide, by decide, by decide, by decide, ?_⟩
  intro h
  have := (h (by decide)).1
  revert this
  decide

/-- **Independence.** Whatever happens to the other requests, the view of request `k` evolves as a
single-request run whose events are exactly the events addressed to request `k` plus environment events —
elapsed time, messages entering the channel, somebody serving: events of request A reach request B only that
way (and a reply carrying another request's sequence number does nothing to B, `dispatch_foreign`). -/
theorem other_requests_are_environment (mw : MWorld) (es : List MEv) (k : Nat) (v : World)
    (hv : mw.views[k]? = some v) :
    ∃ evs : List Ev, (mruns mw es).views[k]? = some (runs v evs)
      ∧ ∀ e' ∈ evs, isEnv e' = true ∨ .on k e' ∈ es :=
  view_after_runs es mw k v hv

end Rpyc.Async.C15Aux
