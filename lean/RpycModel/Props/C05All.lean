import RpycModel.Props.C05
import RpycModel.Compose.EndToEnd
/- aggregator audited by ./check C05: the C05 theorems plus their composition with the brine layer -/
