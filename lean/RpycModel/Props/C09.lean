import RpycModel.Vinegar.Table
/-
C09 — remote exceptions: same class, same data, safely.
Only the property theorems and their non-vacuity examples (namespace Rpyc.Props.C09); helper lemmas are in
RpycModel/Vinegar/{Lemmas,Load}.lean.  Every theorem quantifies over the sender's and the receiver's
switch settings (`SendCfg`: 2^2 x the two local-routing switches, `RecvCfg`: 2^3) — none is enumerated —
and over the receiver's environment `Env` (what `sys.modules`, `getattr`, `__new__`, `setattr` answer).
-/
namespace Rpyc.Props.C09
open Rpyc Rpyc.Vinegar

/-! ### the statement -/

/-- an exception record of a built-in class, as Python presents one: the class is the object `builtins.<name>`,
`dir(val)` lists each name once and `args` among them, and nothing `dump` calls on it raises (its arguments can be
serialized: every `repr()` and `getattr` works) -/
def BuiltinRec (e : ExcRec) : Prop :=
  e.cls.kind = .builtin
    ∧ e.cls.modname = Gen.Vinegar.exceptionsModule
    ∧ argsCount e.dir = 1
    ∧ (e.dir.map (·.name)).Nodup
    ∧ e.walkRaises = none

/-- what the property demands of the object that reaches the requester's `except` clause.
"same class": the object's type is (a cached subclass made by `_get_exception_class` of) the class named — it IS an
instance of that class, so ordinary `except` clauses work — and carries its `__name__` and `__module__` (`ObjType`).
"same immutable arguments": *immutable* is what brine carries by value — exactly the twelve types None, NotImplemented,
Ellipsis, bool, int, float, complex, bytes, str and tuple / frozenset / slice of such (by exact type); everything else —
lists and dicts, but also an IntEnum member, a Fraction, an instance of a str subclass, a tuple holding one — arrives as its
`repr()` text (`sendable`).
`attrs`: every public, immutable data attribute has the same value (extras are allowed).
`tb`/`ver`: the remote traceback / version text when, and only when, the sender's switches allow — else the markers
(`tbShown`: the formatted text; the "unavailable" literal if the traceback module itself fails on this exception).
A bare `StopIteration` (the marker path, `fastPath`) is held to class and arguments only: it arrives as a fresh
`StopIteration()` whose class-level attributes the model does not describe and which carries no traceback. -/
def Faithful (s : SendCfg) (e : ExcRec) (o : ExcObj) : Prop :=
  o.type = ⟨.real (.str e.cls.modname) e.cls.name, .real (.str e.cls.modname) e.cls.name⟩
    ∧ o.args = e.args.map sendable
    ∧ (fastPath e = false → ∀ d ∈ e.dir, ∀ a, d.isData = true → d.value = some a → skipped d.name = false →
        (d.name == Gen.Vinegar.argsName) = false → dumpable a.val = true → o.get d.name = some a.val)
    ∧ (fastPath e = false →
        o.get Gen.Vinegar.remoteTbAttr = some (.str (tbShown s e)))
    ∧ (fastPath e = false →
        o.get Gen.Vinegar.versionAttr
          = some (.str (if s.includeVer then Gen.Vinegar.versionString else Gen.Vinegar.versionDenied)))

/-- **C09 for built-in classes, at full strength**: every built-in exception class the receiver knows (`nn` = does its
`__new__` need arguments — any answer), every argument tuple and `dir` list, every setting of every switch. -/
def C09_statement : Prop :=
  ∀ (s : SendCfg) (r : RecvCfg) (env : Env) (e : ExcRec) (nn : Bool),
    BuiltinRec e → Known env e.cls.name nn → Writable env (.real (.str e.cls.modname) e.cls.name) e →
    ∃ p, dumpExc s e = .ok p ∧ ∃ o, requesterSees (loadExc r env p) = .raised o ∧ Faithful s e o

/-- "when, and only when": withheld -> the marker, whatever the traceback; allowed and formattable -> the text itself -/
theorem traceback_iff_allowed (s : SendCfg) (e : ExcRec) :
    (s.includeTb = false → tbShown s e = Gen.Vinegar.tracebackDenied)
      ∧ (∀ t, s.includeTb = true → e.tbText = .ok t → tbShown s e = t) := by
  constructor
  · intro h; simp [tbShown, h]
  · intro t h ht; simp [tbShown, h, ht]

/-! ### built-in classes -/

/-- the bare-StopIteration path: the marker travels, the requester sees `raise StopIteration` -/
theorem stopiteration_bare (s : SendCfg) (r : RecvCfg) (env : Env) (e : ExcRec) (hf : fastPath e = true) :
    dumpExc s e = .ok (.int Gen.Vinegar.excStopIteration)
      ∧ requesterSees (loadExc r env (.int Gen.Vinegar.excStopIteration)) = .raised ⟨builtinStopIteration, [], []⟩
      ∧ (loadExc r env (.int Gen.Vinegar.excStopIteration)).events = []
      ∧ isStopIteration e.cls = true ∧ e.args = [] := by
  have hd : dumpExc s e = .ok (.int Gen.Vinegar.excStopIteration) := by simp [dumpExc, hf]
  have hl : loadExc r env (.int Gen.Vinegar.excStopIteration) = ⟨[], .ok .stopIterationClass⟩ := by
    simp [loadExc_eq_core, loadCore, isStopMarker]
  refine ⟨hd, by rw [hl]; rfl, by rw [hl], ?_, ?_⟩
  · simp only [fastPath, Bool.and_eq_true] at hf; exact hf.1.2
  · simp only [fastPath, gen_fastPath_shape.2, Bool.and_eq_true, Bool.not_true, Bool.false_or] at hf
    simpa using hf.2

/-- **builtin_fidelity**: a built-in class whose `__new__` takes no arguments, any arguments, any attributes, all
switch settings: same class, normalised arguments, same immutable public data attributes, traceback and version
text exactly as the sender's two switches say; the only events are the (never taken, `builtins` is loaded) import
gate and one `__new__`. -/
theorem builtin_fidelity (s : SendCfg) (r : RecvCfg) (env : Env) (e : ExcRec)
    (hb : BuiltinRec e) (hk : Known env e.cls.name false)
    (hw : Writable env (.real (.str e.cls.modname) e.cls.name) e) (hnf : fastPath e = false) :
    dumpExc s e = .ok (recordPayload s e (.str (tbShown s e)))
      ∧ loadExc r env (recordPayload s e (.str (tbShown s e)))
        = ⟨[.new (.real (.str e.cls.modname) e.cls.name)],
           .ok (.exc (received s e (.real (.str e.cls.modname) e.cls.name)))⟩
      ∧ Faithful s e (received s e (.real (.str e.cls.modname) e.cls.name)) := by
  obtain ⟨_, hmod, hargs1, hnodup, hwalk⟩ := hb
  have hres := resolveClass_builtin r env e.cls.name false hk
  rw [← hmod] at hres
  have hload := loadExc_record s r env e _ false (.str (tbShown s e)) hres
  rw [instantiate_ok env _ _ _ _ _ _ (build_record env s e _ hw)] at hload
  have hloaded : env.loaded (.str e.cls.modname) = true := by rw [hmod]; exact hk.1
  have hev : importEvents r env (.str e.cls.modname) = [] := by simp [importEvents, importAttempted, hloaded]
  rw [hev] at hload
  refine ⟨dumpExc_ok s e hnf hwalk, by simpa using hload, ?_⟩
  refine ⟨rfl, ?_, ?_, ?_, ?_⟩
  · simp [received, walkArgs_once e e.dir hargs1]
  · intro _ d hd a hdata hv hs ha hdump
    rw [received_get_attr s e _ d a hnodup hd hv hs hdata ha]
    simp [sendable, hdump]
  · intro _
    rw [received_get_tb]
  · intro _
    rw [received_get_ver s e _ hnodup]; rfl

/-- **C09_partial**: the statement for every built-in class whose `__new__` takes no arguments. -/
theorem C09_partial (s : SendCfg) (r : RecvCfg) (env : Env) (e : ExcRec)
    (hb : BuiltinRec e) (hk : Known env e.cls.name false)
    (hw : Writable env (.real (.str e.cls.modname) e.cls.name) e) :
    ∃ p, dumpExc s e = .ok p ∧ ∃ o, requesterSees (loadExc r env p) = .raised o ∧ Faithful s e o := by
  cases hf : fastPath e
  · obtain ⟨hd, hl, hfaith⟩ := builtin_fidelity s r env e hb hk hw hf
    exact ⟨_, hd, _, by rw [hl]; rfl, hfaith⟩
  · obtain ⟨hd, hsees, _, hstop, hargs⟩ := stopiteration_bare s r env e hf
    refine ⟨_, hd, _, hsees, ?_, ?_, ?_, ?_, ?_⟩
    · have hn : e.cls.name = stopIterationName := by
        simp only [isStopIteration, Bool.and_eq_true] at hstop; simpa using hstop.2
      simp [builtinStopIteration, hb.2.1, hn, ExcObj.type, getExceptionClass]
    · simp [hargs]
    · intro h; rw [hf] at h; cases h
    · intro h; rw [hf] at h; cases h
    · intro h; rw [hf] at h; cases h

/-- a class whose `__new__` needs arguments: the load raises TypeError — nothing surfaces as that class -/
theorem needsArgs_raises (s : SendCfg) (r : RecvCfg) (env : Env) (e : ExcRec)
    (hb : BuiltinRec e) (hk : Known env e.cls.name true) (hnf : fastPath e = false) :
    dumpExc s e = .ok (recordPayload s e (.str (tbShown s e)))
      ∧ (loadExc r env (recordPayload s e (.str (tbShown s e)))).out = .error .typeError
      ∧ requesterSees (loadExc r env (recordPayload s e (.str (tbShown s e)))) = .error .typeError := by
  have hres := resolveClass_builtin r env e.cls.name true hk
  rw [← hb.2.1] at hres
  rw [loadExc_record s r env e _ true _ hres, instantiate_needsArgs]
  exact ⟨dumpExc_ok s e hnf hb.2.2.2.2, rfl, rfl⟩

/-- **C09 for every built-in exception class of this interpreter** (`Gen.Vinegar.builtinExcTable`, measured and regenerated on
every run) whose `__new__` takes no arguments, with the receiver being this interpreter (`tableEnv`): the environment
hypotheses `Known` and `Writable` are discharged from the table (`known_of_mem`, `writable_of_recOf`).  What remains, `RecOf`,
is ASSUMED of the record, not derived: that `dir()` lists `args` exactly once and no name twice, that nothing `dump` calls on
the exception raises, and that a typed attribute shows a value of a kind its getter returns.  The generator measures these on
sample instances of every class (`builtinDirSane`, `builtinGetattrClean`, observed kinds; `table_dir_and_getattr_sane`,
`table_getters_within_setters`), which supports the assumption without proving it for every instance. -/
theorem C09_partial_interpreter (row : Row) (hrow : row ∈ Gen.Vinegar.builtinExcTable) (hnn : row.2.1 = false)
    (s : SendCfg) (r : RecvCfg) (e : ExcRec) (he : RecOf row e) :
    ∃ p, dumpExc s e = .ok p ∧ ∃ o, requesterSees (loadExc r tableEnv p) = .raised o ∧ Faithful s e o := by
  have hk := known_of_mem row hrow
  rw [hnn] at hk
  have hw := writable_of_recOf row e hrow he
  obtain ⟨hcls, hargs, hnodup, hwalk, _⟩ := he
  have hname : e.cls.name = row.1 := by rw [hcls]
  rw [← hname] at hk
  exact C09_partial s r tableEnv e ⟨by rw [hcls], by rw [hcls], hargs, hnodup, hwalk⟩ hk hw

/-- the classes of this interpreter left out by `C09_partial_interpreter` are at most the two exception-group classes
(the known finding); a new class with a `__new__` that needs arguments breaks this -/
theorem needsArgs_classes_known :
    (Gen.Vinegar.builtinExcTable.filter (·.2.1)).all
      (fun r => [[66, 97, 115, 101, 69, 120, 99, 101, 112, 116, 105, 111, 110, 71, 114, 111, 117, 112],
                 [69, 120, 99, 101, 112, 116, 105, 111, 110, 71, 114, 111, 117, 112]].contains r.1) = true := by decide

/-- **built-in at the sender, unknown at the receiver** (another interpreter version): the generic stand-in named
`builtins.<name>`, under every switch setting, with the arguments, attributes, traceback and version text of the original -/
theorem builtin_unknown_at_receiver (s : SendCfg) (r : RecvCfg) (env : Env) (e : ExcRec)
    (hb : BuiltinRec e) (hnf : fastPath e = false) (hloaded : env.loaded (.str Gen.Vinegar.exceptionsModule) = true)
    (h1 : (env.builtinAttr e.cls.name).isExc = false)
    (h2 : (env.modAttr (.str Gen.Vinegar.exceptionsModule) e.cls.name).isExc = false)
    (hname : typeNameCheck (Gen.Vinegar.exceptionsModule ++ [46] ++ e.cls.name) = .ok ())
    (hw : Writable env (.generic (Gen.Vinegar.exceptionsModule ++ [46] ++ e.cls.name)) e) :
    dumpExc s e = .ok (recordPayload s e (.str (tbShown s e)))
      ∧ loadExc r env (recordPayload s e (.str (tbShown s e)))
        = ⟨[.new (.generic (Gen.Vinegar.exceptionsModule ++ [46] ++ e.cls.name))],
           .ok (.exc (received s e (.generic (Gen.Vinegar.exceptionsModule ++ [46] ++ e.cls.name))))⟩ := by
  obtain ⟨_, hmod, _, _, hwalk⟩ := hb
  have hres : resolveClass r env (.str e.cls.modname) (.str e.cls.name)
      = .ok (.generic (Gen.Vinegar.exceptionsModule ++ [46] ++ e.cls.name), false) := by
    rw [hmod]; exact resolveClass_builtin_unknown r env e.cls.name h1 h2 hname
  have hl : env.loaded (.str e.cls.modname) = true := by rw [hmod]; exact hloaded
  have hev : importEvents r env (.str e.cls.modname) = [] := by simp [importEvents, importAttempted, hl]
  refine ⟨dumpExc_ok s e hnf hwalk, ?_⟩
  rw [loadExc_record s r env e _ false _ hres, instantiate_ok env _ _ _ _ _ _ (build_record env s e _ hw), hev]
  rfl

/-- what `str()` / `repr()` of the received object shows (`Derived.__str__`): the class's own text, then the marker line
numbered 1 + the markers already inside the traceback text, then the remote traceback text (or its marker) -/
theorem received_str (s : SendCfg) (e : ExcRec) (cls : ClsRef) (base : Str) :
    (received s e cls).str (.ok base)
      = .ok (base ++ Gen.Vinegar.remoteLineStart ++ [40]
              ++ natDigits (countSub Gen.Vinegar.remoteLineStart (tbShown s e) + 1) ++ [41]
              ++ Gen.Vinegar.remoteLineEnd ++ tbShown s e) := by
  simp [ExcObj.str, received_get_tb, derivedStr]

/-- **two hops**: an exception received from one peer and raised on to another (what `dump` then sees is the `Derived`
subclass, presented under the copied `__module__` / `__name__`: `ObjType.presentedAs`) is rebuilt by the final receiver as the
SAME built-in class the first receiver built — under every switch setting of the second hop, with arguments, attributes and
texts following the one-hop rule for the record the intermediate peer presents -/
theorem two_hops_same_class (s2 : SendCfg) (r2 : RecvCfg) (env2 : Env) (o1 : ExcObj) (e2 : ExcRec) (n : Str)
    (ho : o1.cls = .real (.str Gen.Vinegar.exceptionsModule) n)
    (he : o1.type.presentedAs = some e2.cls) (hwalk : e2.walkRaises = none)
    (hk : Known env2 n false) (hw : Writable env2 o1.cls e2) :
    dumpExc s2 e2 = .ok (recordPayload s2 e2 (.str (tbShown s2 e2)))
      ∧ loadExc r2 env2 (recordPayload s2 e2 (.str (tbShown s2 e2)))
          = ⟨[.new o1.cls], .ok (.exc (received s2 e2 o1.cls))⟩
      ∧ (received s2 e2 o1.cls).type = o1.type := by
  have hc : e2.cls = ⟨Gen.Vinegar.exceptionsModule, n, .custom⟩ := by
    simp [ExcObj.type, getExceptionClass, ObjType.presentedAs, ho] at he
    exact he.symm
  have hnf : fastPath e2 = false := by simp [fastPath, isStopIteration, hc]
  have hres : resolveClass r2 env2 (.str e2.cls.modname) (.str e2.cls.name)
      = .ok (.real (.str Gen.Vinegar.exceptionsModule) n, false) := by
    rw [hc]; exact resolveClass_builtin r2 env2 n false hk
  have hl : env2.loaded (.str e2.cls.modname) = true := by rw [hc]; exact hk.1
  have hev : importEvents r2 env2 (.str e2.cls.modname) = [] := by simp [importEvents, importAttempted, hl]
  rw [ho] at hw ⊢
  refine ⟨dumpExc_ok s2 e2 hnf hwalk, ?_, by simp [ExcObj.type, getExceptionClass, received, ho]⟩
  rw [loadExc_record s2 r2 env2 e2 _ false _ hres, instantiate_ok env2 _ _ _ _ _ _ (build_record env2 s2 e2 _ hw), hev]
  rfl

/-- **no method is shadowed**: every attribute `dump` sends comes from a `dir` entry whose value is not callable — so `load`
never plants an instance attribute over a method of the rebuilt class (`e.add_note(...)` keeps working) and no method's repr,
with the address it contains, travels.  Rests on the measured `Gen.Vinegar.skipsCallables`. -/
theorem no_method_shadowed (e : ExcRec) : ∀ p ∈ sentAttrs e.dir,
    ∃ d ∈ e.dir, d.name = p.1 ∧ d.isData = true ∧ skipped d.name = false := by
  intro p hp
  obtain ⟨d, hd, o, _, rfl, hdrop⟩ := sentAttrs_origin e.dir p hp
  exact ⟨d, hd, rfl, (skipped_of_dropped_false d hdrop).2, (skipped_of_dropped_false d hdrop).1⟩

/-! ### the witness of the known finding -/

def b : Str := Gen.Vinegar.exceptionsModule
/-- `ExceptionGroup` -/
def groupName : Str := [69, 120, 99, 101, 112, 116, 105, 111, 110, 71, 114, 111, 117, 112]
/-- an environment in which `builtins` is loaded and the class's `__new__` needs arguments (Python 3.11+:
`BaseExceptionGroup`, `ExceptionGroup`) -/
def groupEnv : Env :=
  { loaded := fun _ => true, importable := fun _ => false, lazy := fun _ => false, modAttr := fun _ _ => .excClass true,
    builtinAttr := fun _ => .excClass true, fmtName := fun _ _ => .error .notModelled, setattr := fun _ _ _ => .store }
/-- `ExceptionGroup("m", [ValueError(1)])`: the list argument travels as its repr -/
def groupRec : ExcRec :=
  { cls := ⟨b, groupName, .builtin⟩,
    args := [⟨.str [109], [39, 109, 39]⟩, ⟨.other 0, [91, 86, 40, 49, 41, 93]⟩],
    dir := [⟨Gen.Vinegar.argsName, none, true⟩, ⟨[109, 101, 115, 115, 97, 103, 101], some ⟨.str [109], []⟩, true⟩],
    tbText := .ok [116, 98], walkRaises := none }

theorem groupRec_builtin : BuiltinRec groupRec := ⟨rfl, rfl, by decide, by decide, rfl⟩

/-- **C09_counterexample_group**: concretely, under default switches on both sides the receiver's `load` of a remote
`ExceptionGroup` raises TypeError — which is what the requester then receives instead of the class —, so the full
statement is false of the code. -/
theorem C09_counterexample_group :
    (∃ p, dumpExc defaultSendCfg groupRec = .ok p
        ∧ requesterSees (loadExc defaultRecvCfg groupEnv p) = .error .typeError)
      ∧ ¬ C09_statement := by
  have hk : Known groupEnv groupRec.cls.name true := ⟨rfl, rfl, rfl⟩
  have hnf : fastPath groupRec = false := by decide
  obtain ⟨hd, _, hsees⟩ := needsArgs_raises defaultSendCfg defaultRecvCfg groupEnv groupRec groupRec_builtin hk hnf
  refine ⟨⟨_, hd, hsees⟩, ?_⟩
  intro hst
  obtain ⟨p, hp, o, ho, _⟩ := hst defaultSendCfg defaultRecvCfg groupEnv groupRec true groupRec_builtin hk
    ⟨fun _ _ => rfl, fun _ => rfl⟩
  rw [hd] at hp
  cases hp
  rw [hsees] at ho
  cases ho

/-! ### classes that are not built in -/

/-- **custom_gate**: a class that is not built in (its module is not `builtins`), whose `__new__` takes no arguments
where it exists, is rebuilt as `customClass`: the real class iff `instantiate_custom_exceptions` and the module is loaded
or was just imported under `import_custom_exceptions` and holds an exception class of that name
(`customClass_real_iff`, `inModules_iff`); otherwise the generic stand-in named `module.class`.  Arguments, attributes,
traceback and version text arrive as for built-in classes.  An import is attempted iff `import_custom_exceptions`
and the module is not loaded. -/
theorem custom_gate (s : SendCfg) (r : RecvCfg) (env : Env) (e : ExcRec)
    (hc : e.cls.kind = .custom) (hm : e.cls.modname ≠ Gen.Vinegar.exceptionsModule)
    (hname : typeNameCheck (e.cls.modname ++ [46] ++ e.cls.name) = .ok ())
    (hnn : env.modAttr (.str e.cls.modname) e.cls.name ≠ .excClass true) (hwalk : e.walkRaises = none)
    (hw : Writable env (customClass r env e.cls.modname e.cls.name) e) :
    dumpExc s e = .ok (recordPayload s e (.str (tbShown s e)))
      ∧ loadExc r env (recordPayload s e (.str (tbShown s e)))
      = ⟨importEvents r env (.str e.cls.modname) ++ [.new (customClass r env e.cls.modname e.cls.name)],
         .ok (.exc (received s e (customClass r env e.cls.modname e.cls.name)))⟩ := by
  have hnf : fastPath e = false := by simp [fastPath, isStopIteration, hc]
  refine ⟨dumpExc_ok s e hnf hwalk, ?_⟩
  obtain ⟨nn, hres, hnn'⟩ := resolveClass_custom r env e.cls.modname e.cls.name hm hname
  have : nn = false := by
    cases nn
    · rfl
    · exact absurd (hnn' rfl).2 hnn
  subst this
  rw [loadExc_record s r env e _ false _ hres, instantiate_ok env _ _ _ _ _ _ (build_record env s e _ hw)]

/-- not allowed to instantiate custom classes: always the generic stand-in named after the original -/
theorem custom_denied (r : RecvCfg) (env : Env) (m c : Str) (h : r.instCustom = false) :
    customClass r env m c = .generic (m ++ [46] ++ c) := by
  simp [customClass, moduleRoute, h]

/-- allowed to instantiate but not to import, and the module is not loaded: the generic stand-in, and no import -/
theorem custom_not_imported (r : RecvCfg) (env : Env) (m c : Str) (hi : r.importCustom = false)
    (hl : env.loaded (.str m) = false) :
    customClass r env m c = .generic (m ++ [46] ++ c) ∧ importEvents r env (.str m) = [] := by
  simp [customClass, moduleRoute, inModules, importAttempted, importEvents, hi, hl]

/-- allowed, available, an exception class: the real class -/
theorem custom_rebuilt (r : RecvCfg) (env : Env) (m c : Str) (nn : Bool) (h : r.instCustom = true)
    (ha : env.loaded (.str m) = true ∨ (r.importCustom = true ∧ env.importable (.str m) = true))
    (hk : env.modAttr (.str m) c = .excClass nn) : customClass r env m c = .real (.str m) c :=
  (customClass_real_iff r env m c).mpr ⟨h, (inModules_iff r env _).mpr ha, by simp [hk, ObjKind.isExc]⟩

/-! ### an exception that cannot be dumped or put on the wire (`Connection._send_exception`) -/

/-- when `dump` raises (a `repr()` that raises, ...) or brine refuses the payload (an int beyond the digit limit), the
requester is still answered: with the fallback record — the class name and fixed texts, nothing of the exception's data.
This is the one documented deviation from "same arguments": it applies only to arguments that cannot be serialized. -/
theorem fallback_when_unserializable (s : SendCfg) (e : ExcRec) :
    (∀ err, dumpExc s e = .error err → boxExc s e = .ok (fallbackPayload e))
      ∧ (∀ p err, dumpExc s e = .ok p → Brine.dump p = .error err → boxExc s e = .ok (fallbackPayload e))
      ∧ (∀ p bs, dumpExc s e = .ok p → Brine.dump p = .ok bs → boxExc s e = .ok p) :=
  ⟨boxExc_dump_raises s e, fun p err => boxExc_wire_raises s e p err, fun p bs => boxExc_ok s e p bs⟩

/-- the fallback record surfaces as the same built-in class, carries the note as its only argument and a FIXED text as
traceback: it does not depend on the sender's switches at all, so it cannot disclose a traceback or a version -/
theorem fallback_discloses_nothing (r : RecvCfg) (env : Env) (e : ExcRec) (hb : BuiltinRec e)
    (hk : Known env e.cls.name false) :
    loadExc r env (fallbackPayload e)
      = ⟨[.new (.real (.str e.cls.modname) e.cls.name)], .ok (.exc (fallbackObj (.real (.str e.cls.modname) e.cls.name)))⟩
      ∧ (fallbackObj (.real (.str e.cls.modname) e.cls.name)).get Gen.Vinegar.remoteTbAttr
          = some (.str Gen.Vinegar.fallbackTb)
      ∧ (fallbackObj (.real (.str e.cls.modname) e.cls.name)).get Gen.Vinegar.versionAttr = none := by
  have hres := resolveClass_builtin r env e.cls.name false hk
  rw [← hb.2.1] at hres
  have hloaded : env.loaded (.str e.cls.modname) = true := by rw [hb.2.1]; exact hk.1
  have hev : importEvents r env (.str e.cls.modname) = [] := by simp [importEvents, importAttempted, hloaded]
  refine ⟨by rw [loadExc_fallback r env e _ hres, hev]; rfl, ?_, ?_⟩
  · simp [fallbackObj, ExcObj.get, lookupAttr]
  · have hne : (Gen.Vinegar.remoteTbAttr == Gen.Vinegar.versionAttr) = false := by decide
    simp [fallbackObj, ExcObj.get, lookupAttr, hne]

/-- a traceback the traceback module cannot format does not cost the exception anything else: `dump` succeeds (the
repair of the lost SyntaxError arguments) -/
theorem unformattable_traceback_still_dumps (s : SendCfg) (e : ExcRec) (err : Err) (hnf : fastPath e = false)
    (hw : e.walkRaises = none) (_ht : e.tbText = .error err) : ∃ p, dumpExc s e = .ok p :=
  ⟨_, dumpExc_ok s e hnf hw⟩

/-! ### every payload, however crafted -/

/-- **no_import**: whatever the payload, the receiver attempts an import only if `import_custom_exceptions` is on
(and then only of a module that is not loaded) — and runs no module-level code through the class lookup either (`EvOK` forbids
`moduleCode` events; the lookup reads the module's own namespace: measured `gen_moduleLookupPure`) -/
theorem no_import (r : RecvCfg) (env : Env) (payload m : Val)
    (h : Event.importAttempt m ∈ (loadExc r env payload).events) : r.importCustom = true ∧ env.loaded m = false :=
  loadExc_events r env payload _ h

theorem no_import_by_default (env : Env) (payload m : Val) :
    Event.importAttempt m ∉ (loadExc defaultRecvCfg env payload).events := by
  intro h
  have := (no_import _ env payload m h).1
  revert this
  decide

/-- **no_init**: whatever the payload and whatever the switches, no constructor runs.  The model emits a constructor event
exactly when the generator's canary probe sees `__init__` run (`instantiationEvent`, `Gen.Vinegar.instantiatesByNew`), so this
rests on that measured fact (`gen_instantiatesByNew`; canary subclasses of seven built-in bases, with and without arguments and
attributes in the record), on `loader_calls_allowed` (no call of a local name or expression in
`load`), and on the correspondence's `__init__` canaries -/
theorem no_init (r : RecvCfg) (env : Env) (payload : Val) (c : ClsRef) :
    Event.init c ∉ (loadExc r env payload).events :=
  fun h => loadExc_events r env payload _ h

/-- **outcome_allowed**: whatever the payload, the load raises, or returns the `StopIteration` class / the text itself
(which `raise` refuses), or an instance — made by `__new__` — of the generic stand-in or of an exception class found
where the configuration allows looking: in the module only under `instantiate_custom_exceptions`, else in `builtins` only -/
theorem outcome_allowed (r : RecvCfg) (env : Env) (payload : Val) :
    (∃ err, (loadExc r env payload).out = .error err)
      ∨ (loadExc r env payload).out = .ok .stopIterationClass
      ∨ (∃ t, (loadExc r env payload).out = .ok (.strExc t) ∧ payload = .str t)
      ∨ (∃ o, (loadExc r env payload).out = .ok (.exc o) ∧ ClsAllowed r env o.cls) := by
  cases h : (loadExc r env payload).out with
  | error err => exact Or.inl ⟨err, rfl⟩
  | ok out =>
    cases out with
    | stopIterationClass => exact Or.inr (Or.inl rfl)
    | strExc t =>
      refine Or.inr (Or.inr (Or.inl ⟨t, rfl, ?_⟩))
      rw [loadExc_eq_core] at h
      unfold loadCore at h
      split at h
      · cases h
      · split at h
        · cases h; rfl
        · split at h
          · cases h
          · split at h
            · cases h
            · exfalso
              unfold loadRecord at h
              split at h
              · cases h
              · split at h
                · cases h
                · unfold instantiate at h
                  split at h
                  · cases h
                  · split at h <;> cases h
    | exc o => exact Or.inr (Or.inr (Or.inr ⟨o, rfl, loadExc_out r env payload o h⟩))

/-- the requester never sees anything but a raised exception object or an error -/
theorem hostile_payload_contained (r : RecvCfg) (env : Env) (payload : Val) :
    (∀ ev ∈ (loadExc r env payload).events, EvOK r env ev)
      ∧ (r.instCustom = false → ∀ o, (loadExc r env payload).out = .ok (.exc o) →
          (∃ fn, o.cls = .generic fn) ∨ (∃ m c nn, o.cls = .real m c ∧ isBuiltinsName m = true
            ∧ env.builtinAttr c = .excClass nn)) := by
  refine ⟨loadExc_events r env payload, ?_⟩
  intro hi o ho
  have := loadExc_out r env payload o ho
  cases hc : o.cls with
  | generic fn => exact Or.inl ⟨fn, rfl⟩
  | real m c =>
    rw [hc] at this
    obtain ⟨nn, hnn⟩ := this
    simp only [hi, Bool.false_eq_true, ↓reduceIte] at hnn
    exact Or.inr ⟨m, c, nn, rfl, hnn.1, hnn.2⟩

/-- `instantiate_oldstyle_exceptions` is read by `_unbox_exc` and changes nothing: measured by the generator on probe records
under both settings (`Gen.Vinegar.oldstyleSwitchInert`, through `loadExc_eq_core`); `loadExc` reads the switch and would decline
to answer were that measurement to change -/
theorem oldstyle_switch_irrelevant (r : RecvCfg) (env : Env) (payload : Val) (x : Bool) :
    loadExc { r with instOldstyle := x } env payload = loadExc r env payload := by
  rw [loadExc_eq_core, loadExc_eq_core]
  rfl

/-! ### ties to the source (generated; each breaks when the code moves) -/

/-- `load` and the functions it uses (`_get_exception_class` among them) call nothing outside the allow-lists written in
`Vinegar/Model.lean` (`loadCallsAllowed`, `derivedCallsAllowed`) — in particular no `cls(...)` —, and the probe class's
`__init__` canary stayed silent -/
theorem loader_calls_allowed :
    Gen.Vinegar.loadCalls.all (fun c => loadCallsAllowed.contains c) = true
      ∧ Gen.Vinegar.derivedCalls.all (fun c => derivedCallsAllowed.contains c) = true
      ∧ Gen.Vinegar.derivedCalls ≠ [] ∧ Gen.Vinegar.instantiatesByNew = true := by decide

/-- the StopIteration marker path exists and requires empty arguments (the repair of the lost generator value) -/
theorem fast_path_requires_no_args :
    Gen.Vinegar.stopFastPathExists = true ∧ Gen.Vinegar.stopFastPathRequiresNoArgs = true := gen_fastPath_shape

/-- formatting the traceback is guarded in `dump`, `_send_exception` has its fallback, and the fallback's traceback
texts are constants (observed by the generator: texts that vary with the exception or the switches fail the translation) -/
theorem failure_paths_present : Gen.Vinegar.tbFormatGuarded = true ∧ Gen.Vinegar.fallbackExists = true :=
  ⟨gen_tbFormatGuarded, gen_fallbackExists⟩

/-- each parameter of `vinegar.dump` / `vinegar.load` is fed from the configuration key of the same name, and the two
local re-raises are the ones modelled -/
theorem config_keys_wired :
    Gen.Vinegar.boxExcKeys = [("include_local_traceback", "include_local_traceback"),
                              ("include_local_version", "include_local_version")]
      ∧ Gen.Vinegar.unboxExcKeys = [("import_custom_exceptions", "import_custom_exceptions"),
          ("instantiate_custom_exceptions", "instantiate_custom_exceptions"),
          ("instantiate_oldstyle_exceptions", "instantiate_oldstyle_exceptions")]
      ∧ Gen.Vinegar.localRoutes = [("KeyboardInterrupt", "propagate_KeyboardInterrupt_locally"),
          ("SystemExit", "propagate_SystemExit_locally")]
      ∧ Gen.Vinegar.classTypeIsType = true := by decide

/-- facts tying independently obtained constants together: the attribute `dump` walks as the argument tuple is the one `load`
assigns with `exc.args = ...` (a literal of the model); the own version string and the own major version (two live values of
`rpyc.version`) agree, so a peer of the same version is not warned about.  That the text `dump` sends for a withheld version —
and an absent version — does not trigger `load`'s warning is OBSERVED by the generator (a probe record carrying that text; the
translation fails otherwise), which is why `loadVersionCompare` / `loadVersionDefault` are that text by construction -/
theorem markers_agree :
    Gen.Vinegar.argsName = argsAttr ∧ majorOf Gen.Vinegar.versionString = Gen.Vinegar.versionMajor
      ∧ (Gen.Vinegar.versionDenied == Gen.Vinegar.versionString) = false
      ∧ (Gen.Vinegar.tracebackDenied == Gen.Vinegar.tracebackUnavailable) = false := by decide

/-- out of the box neither importing nor instantiating custom exceptions is allowed -/
theorem defaults_closed : defaultRecvCfg.importCustom = false ∧ defaultRecvCfg.instCustom = false := by decide

/-! ### non-vacuity -/

/-- `KeyError('k', [1])` with an extra attribute `detail = 3`, a method `add_note`, a private name -/
def sampleRec : ExcRec :=
  { cls := ⟨b, [75, 101, 121, 69, 114, 114, 111, 114], .builtin⟩,
    args := [⟨.str [107], [39, 107, 39]⟩, ⟨.other 0, [91, 49, 93]⟩],
    dir := [⟨[95, 95, 100, 111, 99, 95, 95], some ⟨.str [100], []⟩, true⟩,
            ⟨[97, 100, 100, 95, 110, 111, 116, 101], some ⟨.other 99, [60, 109, 62]⟩, false⟩,
            ⟨Gen.Vinegar.argsName, none, true⟩,
            ⟨[100, 101, 116, 97, 105, 108], some ⟨.int 3, [51]⟩, true⟩,
            ⟨[119, 105, 116, 104, 95, 116, 114, 97, 99, 101, 98, 97, 99, 107], some ⟨.other 99, [60, 119, 62]⟩, false⟩],
    tbText := .ok [84, 114, 97, 99, 101], walkRaises := none }
def sampleEnv : Env :=
  { loaded := fun m => isBuiltinsName m, importable := fun _ => false, lazy := fun _ => false,
    modAttr := fun m _ => if isBuiltinsName m then .excClass false else .missing,
    builtinAttr := fun _ => .excClass false, fmtName := fun _ _ => .error .notModelled, setattr := fun _ _ _ => .store }

example : BuiltinRec sampleRec := ⟨rfl, rfl, by decide, by decide, rfl⟩
/-- the sample is a record of the measured row of `KeyError`, so `C09_partial_interpreter` applies to it with `tableEnv` -/
def keyErrorRow : Row := ([75, 101, 121, 69, 114, 114, 111, 114], false, [])
example : keyErrorRow ∈ Gen.Vinegar.builtinExcTable := by decide
example : RecOf keyErrorRow sampleRec := by
  refine ⟨rfl, by decide, by decide, rfl, ?_⟩
  intro d _ a acc _ hfa
  simp [findAttr, keyErrorRow] at hfa
example : ∃ p, dumpExc defaultSendCfg sampleRec = .ok p ∧ ∃ o,
    requesterSees (loadExc defaultRecvCfg tableEnv p) = .raised o ∧ Faithful defaultSendCfg sampleRec o :=
  C09_partial_interpreter keyErrorRow (by decide) rfl _ _ _ (by
    refine ⟨rfl, by decide, by decide, rfl, ?_⟩
    intro d _ a acc _ hfa
    simp [findAttr, keyErrorRow] at hfa)
/-- a typed setter in the table: `BlockingIOError.characters_written` stores ints only -/
example : rowSetattr [66, 108, 111, 99, 107, 105, 110, 103, 73, 79, 69, 114, 114, 111, 114]
      [99, 104, 97, 114, 97, 99, 116, 101, 114, 115, 95, 119, 114, 105, 116, 116, 101, 110] (.int 7) = .store
    ∧ rowSetattr [66, 108, 111, 99, 107, 105, 110, 103, 73, 79, 69, 114, 114, 111, 114]
      [99, 104, 97, 114, 97, 99, 116, 101, 114, 115, 95, 119, 114, 105, 116, 116, 101, 110] (.str [55]) = .raises .typeError := by
  decide
example : Known sampleEnv sampleRec.cls.name false := ⟨rfl, rfl, rfl⟩
example : Writable sampleEnv (.real (.str sampleRec.cls.modname) sampleRec.cls.name) sampleRec :=
  ⟨fun _ _ => rfl, fun _ => rfl⟩
/-- the record above really goes the long way and comes back with `detail = 3`, args `('k', '[1]')`, the marker
instead of the traceback when the sender withholds it -/
example : dumpExc ⟨false, true, false, true⟩ sampleRec
    = .ok (recordPayload ⟨false, true, false, true⟩ sampleRec (.str Gen.Vinegar.tracebackDenied)) := by rfl
example : requesterSees (loadExc ⟨false, false, false⟩ sampleEnv
      (recordPayload ⟨false, true, false, true⟩ sampleRec (.str Gen.Vinegar.tracebackDenied)))
    = .raised ⟨.real (.str b) [75, 101, 121, 69, 114, 114, 111, 114], [.str [107], .str [91, 49, 93]],
        [(Gen.Vinegar.remoteTbAttr, .str Gen.Vinegar.tracebackDenied),
         (Gen.Vinegar.versionAttr, .str Gen.Vinegar.versionString),
         ([100, 101, 116, 97, 105, 108], .int 3)]⟩ := by rfl
/-- the traceback module fails on the exception: it is still dumped, with the "unavailable" literal -/
example : dumpExc defaultSendCfg { sampleRec with tbText := .error .attributeError }
    = .ok (recordPayload defaultSendCfg sampleRec (.str Gen.Vinegar.tracebackUnavailable)) := by rfl
/-- an argument whose repr() raises: `dump` raises, the fallback record travels and discloses nothing -/
example : boxExc ⟨true, true, false, true⟩ { sampleRec with walkRaises := some .valueError }
    = .ok (fallbackPayload sampleRec) := by rfl
/-- a custom record under a receiver that may instantiate but not import, module not loaded: generic stand-in `m.E` -/
example : (loadExc ⟨false, true, false⟩ sampleEnv
      (recordPayload defaultSendCfg { sampleRec with cls := ⟨[109], [69], .custom⟩ } (.str [116]))).out
    = .ok (.exc ⟨.generic [109, 46, 69], [.str [107], .str [91, 49, 93]],
        [(Gen.Vinegar.remoteTbAttr, .str [116]), (Gen.Vinegar.versionAttr, .str Gen.Vinegar.versionString),
         ([100, 101, 116, 97, 105, 108], .int 3)]⟩) := by
  rfl
/-- crafted payloads: `True` is the StopIteration marker; a 3-tuple is a ValueError; `("builtins","int")` is generic -/
example : (loadExc defaultRecvCfg sampleEnv (.bool true)).out = .ok .stopIterationClass := by rfl
example : (loadExc defaultRecvCfg sampleEnv (.tuple [.int 1, .int 2, .int 3])).out = .error .valueError := by rfl
example : (loadExc ⟨true, true, true⟩ { sampleEnv with modAttr := fun _ _ => .typeNotExc }
      (.tuple [.tuple [.str [120], .str [105, 110, 116]], .tuple [], .tuple [], .str []])).events
    = [.importAttempt (.str [120]), .new (.generic [120, 46, 105, 110, 116])] := by rfl

end Rpyc.Props.C09
