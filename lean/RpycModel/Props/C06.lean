import RpycModel.Policy.Lemmas
/-
C06 — attribute access by the peer follows the connection's own policy, and only its own.
Only property theorems and their non-vacuity examples live here (namespace Rpyc.Props.C06); the model is
RpycModel/Policy/Model.lean (`_check_attr`, `_access_attr`, handlers, hooks, connection histories), the
vocabulary `NameAllowed` / `HasTwin` and the helper lemmas are in RpycModel/Policy/Lemmas.lean.

Every theorem quantifies over ALL configurations (all 2^7 switch settings, any prefix, any safe list), all names,
all objects (`has` and the hooks are arbitrary functions), and — for isolation — all histories.
-/
namespace Rpyc.Props.C06
open Rpyc Rpyc.Policy

/-! ### (1) the decision logic, stated outright -/

/-- **Decision table of `_check_attr`, one closed formula.** For every configuration, object and name:
allowed iff the kind of operation is enabled and (the name is allowed by the configuration or the object has the
prefixed twin); the twin is what is accessed exactly when it exists and (the name is not allowed, or the object
lacks the name); every refusal is `AttributeError`. -/
theorem checkAttr_spec (c : Config) (has : PyStr → Bool) (name : PyStr) (op : Op) :
    checkAttr c has name op =
      if c.perm op && (plainAllowed c name || hasExposed c has name) then
        .ok (if hasExposed c has name && (!plainAllowed c name || !has name) then twin c name else name)
      else .error .attributeError :=
  checkAttr_eq c has name op

/-- the Boolean `plainAllowed` is the statement's "everything / exposed-prefix / safe-list / public, as enabled" -/
theorem plainAllowed_spec (c : Config) (name : PyStr) :
    plainAllowed c name = true ↔
      (c.allowAll = true
       ∨ (c.allowExposed = true ∧ c.exposedPrefix <+: name)
       ∨ (c.allowSafe = true ∧ name ∈ c.safe)
       ∨ (c.allowPublic = true ∧ ¬ ([95] : PyStr) <+: name)) :=
  plainAllowed_iff c name

/-- the Boolean `hasExposed` is "exposed attributes enabled, non-empty prefix, object has `prefix ++ name`" -/
theorem hasExposed_spec (c : Config) (has : PyStr → Bool) (name : PyStr) :
    hasExposed c has name = true ↔
      (c.allowExposed = true ∧ c.exposedPrefix ≠ [] ∧ has (c.exposedPrefix ++ name) = true) :=
  hasExposed_iff c has name

/-- **Allowed iff** — in the statement's own words. -/
theorem allowed_iff (c : Config) (has : PyStr → Bool) (name : PyStr) (op : Op) :
    (∃ n, checkAttr c has name op = .ok n) ↔
      (c.perm op = true ∧ (NameAllowed c name ∨ HasTwin c has name)) := by
  rw [checkAttr_eq, ← plainAllowed_iff, ← hasExposed_iff]
  cases c.perm op <;> cases plainAllowed c name <;> cases hasExposed c has name <;> simp

/-- the name itself is accessed when it is allowed and (there is no twin, or the object has the name) -/
theorem plain_access (c : Config) (has : PyStr → Bool) (name : PyStr) (op : Op)
    (hp : c.perm op = true) (ha : NameAllowed c name) (hn : ¬ HasTwin c has name ∨ has name = true) :
    checkAttr c has name op = .ok name := by
  rw [checkAttr_eq]
  rw [← plainAllowed_iff] at ha
  rw [← hasExposed_iff] at hn
  cases he : hasExposed c has name <;> cases hh : has name <;> simp_all

/-- the exposed-prefixed twin is what is accessed when it exists and (the name is not allowed, or the object
lacks the name) -/
theorem twin_access (c : Config) (has : PyStr → Bool) (name : PyStr) (op : Op)
    (hp : c.perm op = true) (ht : HasTwin c has name) (hn : ¬ NameAllowed c name ∨ has name = false) :
    checkAttr c has name op = .ok (c.exposedPrefix ++ name) := by
  rw [checkAttr_eq]
  rw [← hasExposed_iff] at ht
  rw [← plainAllowed_iff] at hn
  cases hpl : plainAllowed c name <;> cases hh : has name <;> simp_all [twin]

/-- anything else fails with `AttributeError`: the kind of operation is disabled, or the name is neither allowed nor
has a twin -/
theorem denied (c : Config) (has : PyStr → Bool) (name : PyStr) (op : Op)
    (h : c.perm op = false ∨ (¬ NameAllowed c name ∧ ¬ HasTwin c has name)) :
    checkAttr c has name op = .error .attributeError := by
  rw [checkAttr_eq]
  rw [← plainAllowed_iff, ← hasExposed_iff] at h
  cases hp : c.perm op <;> cases hpl : plainAllowed c name <;> cases he : hasExposed c has name <;> simp_all

/-- the three cases above are exhaustive -/
theorem cases_exhaustive (c : Config) (has : PyStr → Bool) (name : PyStr) (op : Op) :
    (c.perm op = true ∧ NameAllowed c name ∧ (¬ HasTwin c has name ∨ has name = true))
    ∨ (c.perm op = true ∧ HasTwin c has name ∧ (¬ NameAllowed c name ∨ has name = false))
    ∨ (c.perm op = false ∨ (¬ NameAllowed c name ∧ ¬ HasTwin c has name)) := by
  rw [← plainAllowed_iff, ← hasExposed_iff]
  cases c.perm op <;> cases plainAllowed c name <;> cases hasExposed c has name <;> cases has name <;> simp

/-- the policy never raises anything but `AttributeError`, and never invents a name: the result is the name or its twin -/
theorem checkAttr_range (c : Config) (has : PyStr → Bool) (name : PyStr) (op : Op) :
    checkAttr c has name op = .error .attributeError
    ∨ checkAttr c has name op = .ok name
    ∨ checkAttr c has name op = .ok (c.exposedPrefix ++ name) := by
  rw [checkAttr_eq]
  cases c.perm op <;> cases plainAllowed c name <;> cases hasExposed c has name <;> cases has name <;> simp [twin]

/-- the decision reads the configuration, the name and two facts about the object — nothing else: two objects that
agree on `hasattr` for the name and for the twin get the same answer -/
theorem decided_by_config_and_name (c : Config) (has has' : PyStr → Bool) (name : PyStr) (op : Op)
    (h1 : has name = has' name) (h2 : has (c.exposedPrefix ++ name) = has' (c.exposedPrefix ++ name)) :
    checkAttr c has name op = checkAttr c has' name op := by
  simp [checkAttr_eq, hasExposed, twin, h1, h2]

/-- with exposed attributes on and an EMPTY prefix every name is allowed and no twin is ever substituted
(`name.startswith("")` is true, `"" and …` is falsy) -/
theorem empty_prefix_allows_all (c : Config) (has : PyStr → Bool) (name : PyStr) (op : Op)
    (he : c.allowExposed = true) (hp : c.exposedPrefix = []) (hperm : c.perm op = true) :
    checkAttr c has name op = .ok name := by
  apply plain_access c has name op hperm
  · exact Or.inr (Or.inl ⟨he, by simp [hp]⟩)
  · exact Or.inl (fun h => h.2.1 hp)

/-- the `hasattr` probes made on the way: only ever the name and its twin, none when the kind of operation is
disabled, the twin first -/
theorem probes_spec (c : Config) (has : PyStr → Bool) (name : PyStr) (op : Op) :
    checkProbes c has name op =
      if c.perm op then
        (if prefixTruthy c then [twin c name] else [])
          ++ (if plainAllowed c name && hasExposed c has name then [name] else [])
      else [] :=
  checkProbes_eq c has name op

/-! ### (2) a denied request has no effect -/

/-- **Denied ⇒ no effect.** If the object's type has no hook for the operation and the request fails, nothing but
`hasattr` probes of that same object happened: no accessor ran, nothing was called. For all four request kinds. -/
theorem denied_no_effect (c : Config) (o : Obj) (nm : Name) (r : Req) (e : Err)
    (hh : o.hook r.op = none) (h : (handle c o nm r).out = .error e) :
    (handle c o nm r).log.filter Ev.isEffect = []
    ∧ ∀ ev ∈ (handle c o nm r).log, ∃ n, ev = .probe o.id n := by
  have key : ∀ op, o.hook op = none → (run c o nm op).out = .error e →
      (run c o nm op).log.filter Ev.isEffect = [] ∧ ∀ ev ∈ (run c o nm op).log, ∃ n, ev = .probe o.id n := by
    intro op hh h
    unfold run at h ⊢
    cases hd : decodeName nm with
    | error e' => simp
    | ok name =>
      simp only [hd, runNamed, hh, runDefault] at h ⊢
      cases hc : checkAttr c o.has name op with
      | ok n => simp [hc] at h
      | error e' =>
        simp only [probeEvs_filter_effect, true_and]
        intro ev hev
        obtain ⟨n, _, rfl⟩ := mem_probeEvs _ _ _ hev
        exact ⟨n, rfl⟩
  cases r with
  | getattr => exact key .get hh h
  | setattr => exact key .set hh h
  | delattr => exact key .del hh h
  | callattr =>
    simp only [handle] at h ⊢
    obtain ⟨hr, hl⟩ := thenCall_error o _ e h
    rw [hl]
    exact key .get hh hr

/-- conversely an allowed request reaches exactly one attribute, after the probes: the one `_check_attr` named -/
theorem allowed_effect_exact (c : Config) (o : Obj) (name : PyStr) (op : Op) (n : PyStr)
    (hh : o.hook op = none) (h : checkAttr c o.has name op = .ok n) :
    run c o (.text name) op =
      { out := .ok (.direct n), log := probeEvs o.id (checkProbes c o.has name op) ++ [.access o.id op n] } := by
  simp [run, decodeName, runNamed, hh, runDefault, h]

/-- for a hook-less object the outcome of the request IS the decision table -/
theorem access_is_checkAttr (c : Config) (o : Obj) (name : PyStr) (op : Op) (hh : o.hook op = none) :
    accessAttr c o (.text name) op = (checkAttr c o.has name op).map Action.direct := by
  simp only [accessAttr, run, decodeName, runNamed, hh, runDefault]
  cases checkAttr c o.has name op <;> rfl

/-! ### (3) objects with their own hooks decide instead of the configuration -/

/-- **Hooks override.** If the object's type defines the hook for the operation, the configuration is not
consulted at all: any two configurations give the same result and the same events. -/
theorem hooks_override (c c' : Config) (o : Obj) (nm : Name) (op : Op) (h : Hook) (hh : o.hook op = some h) :
    run c o nm op = run c' o nm op := by
  unfold run
  cases decodeName nm with
  | error e => rfl
  | ok name => simp [runNamed, hh]

/-- … and the result is the hook's own: it is called with the decoded name; it returns or raises as it likes;
no `hasattr` probe is made -/
theorem hook_decides (c : Config) (o : Obj) (name : PyStr) (op : Op) (h : Hook) (hh : o.hook op = some h) :
    run c o (.text name) op =
      { out := match (h name).err with | some e => .error e | none => .ok (.hooked name),
        log := .hook o.id op name :: (h name).evs } := by
  simp only [run, decodeName, runNamed, hh, runHook]
  cases (h name).err <;> rfl

/-- **Restricted views permit exactly their listed names — reading.** Whatever the configuration. -/
theorem restricted_get (c : Config) (id t : Nat) (attrs : List PyStr) (w : Option (List PyStr)) (vh : PyStr → Bool)
    (name : PyStr) :
    run c (restrictedView id t attrs w vh) (.text name) .get =
      if attrs.contains name then { out := .ok (.hooked name), log := [.hook id .get name, .access t .get name] }
      else { out := .error .attributeError, log := [.hook id .get name] } := by
  have hg : Gen.Policy.restrictedHasGetHook = true := by decide
  simp only [run, decodeName, runNamed, restrictedView, hg, if_true, runHook, listHook]
  cases attrs.contains name <;> rfl

/-- **… writing**: `wattrs`, which defaults to `attrs` when not given. -/
theorem restricted_set (c : Config) (id t : Nat) (attrs : List PyStr) (w : Option (List PyStr)) (vh : PyStr → Bool)
    (name : PyStr) :
    run c (restrictedView id t attrs w vh) (.text name) .set =
      if (match w with | some l => l | none => attrs).contains name then
        { out := .ok (.hooked name), log := [.hook id .set name, .access t .set name] }
      else { out := .error .attributeError, log := [.hook id .set name] } := by
  have hs : Gen.Policy.restrictedHasSetHook = true := by decide
  simp only [run, decodeName, runNamed, restrictedView, hs, if_true, runHook, listHook]
  cases (match w with | some l => l | none => attrs).contains name <;> rfl

/-- **… deleting**: the view's class has no delete hook, so the configuration decides — about the VIEW object; the
wrapped target is never reached by a delete, whatever the configuration. -/
theorem restricted_del_never_reaches_target (c : Config) (id t : Nat) (attrs : List PyStr) (w : Option (List PyStr))
    (vh : PyStr → Bool) (nm : Name) :
    run c (restrictedView id t attrs w vh) nm .del = run c (plainObj id vh) nm .del
    ∧ ∀ ev ∈ (run c (restrictedView id t attrs w vh) nm .del).log,
        (∃ n, ev = .probe id n) ∨ (∃ n, ev = .access id .del n) := by
  have hd : Gen.Policy.restrictedHasDelHook = false := by decide
  have heq : run c (restrictedView id t attrs w vh) nm .del = run c (plainObj id vh) nm .del := by
    unfold run; cases decodeName nm <;> simp [runNamed, restrictedView, plainObj, runDefault]
  refine ⟨heq, ?_⟩
  rw [heq]
  unfold run
  cases decodeName nm with
  | error e => simp
  | ok name =>
    simp only [runNamed, plainObj, runDefault]
    cases checkAttr c vh name .del with
    | error e =>
      intro ev hev
      obtain ⟨n, _, rfl⟩ := mem_probeEvs _ _ _ hev
      exact Or.inl ⟨n, rfl⟩
    | ok n =>
      intro ev hev
      simp only [List.mem_append, List.mem_singleton] at hev
      rcases hev with hev | rfl
      · obtain ⟨n', _, rfl⟩ := mem_probeEvs _ _ _ hev
        exact Or.inl ⟨n', rfl⟩
      · exact Or.inr ⟨n, rfl⟩

/-- **Services.** The `Service` base class defines write and delete hooks that refuse every name and touch nothing —
under every configuration, classic-mode blanket permissions included; reading a service follows the configuration. -/
theorem service_write_delete_denied (c : Config) (id : Nat) (has : PyStr → Bool) (name : PyStr) :
    run c (serviceObj id has) (.text name) .set = { out := .error .attributeError, log := [.hook id .set name] }
    ∧ run c (serviceObj id has) (.text name) .del = { out := .error .attributeError, log := [.hook id .del name] }
    ∧ ∀ nm, run c (serviceObj id has) nm .get = run c (plainObj id has) nm .get := by
  have hs : Gen.Policy.serviceSetHookDenies = true := by decide
  have hd : Gen.Policy.serviceDelHookDenies = true := by decide
  refine ⟨?_, ?_, ?_⟩
  · simp [run, decodeName, runNamed, serviceObj, hs, runHook, denyHook]
  · simp [run, decodeName, runNamed, serviceObj, hd, runHook, denyHook]
  · intro nm; unfold run; cases decodeName nm <;> simp [runNamed, serviceObj, plainObj, runDefault]

/-! ### (4) isolation: an invariant over ALL histories

Histories contain, besides opening / classic-mode `on_connect` / requests / closing of any number of connections:
the application EDITING a settings-dict object it has passed (or will pass) to `Connection(...)` and reusing it, and the
application editing the module-level `DEFAULT_CONFIG`. -/

/-- **The defaults are never changed by rpyc**: whatever connections are opened (with whatever dicts), put in classic
mode, used and closed, in whatever order — only the application's own `DEFAULT_CONFIG.update` changes them. -/
theorem default_never_changes (w : World) (evs : List Event) (h : ∀ e ∈ evs, ∀ ov, e ≠ .setDefault ov) :
    (runEvents w evs).dflt = w.dflt :=
  runEvents_dflt w evs h

/-- **A connection's configuration is the copy taken when it was opened.** A history in which connection `j` itself
does not take part — other connections' openings, classic-mode connects, requests, closings, the application editing
ANY settings dict (including the very object `j` was opened with) or `DEFAULT_CONFIG` — leaves `j` exactly as it was. -/
theorem others_cannot_change (w : World) (evs : List Event) (j : Nat) (h : ∀ e ∈ evs, e.conn ≠ some j) :
    (runEvents w evs).conns j = w.conns j := by
  induction evs generalizing w with
  | nil => rfl
  | cons e es ih =>
    simp only [runEvents]
    rw [ih _ (fun x hx => h x (List.mem_cons_of_mem _ hx)), step_other w e j (h e (List.mem_cons_self ..))]

/-- … hence every decision it makes is unchanged: for every object, name and request kind -/
theorem others_cannot_change_decisions (w : World) (evs : List Event) (j : Nat) (h : ∀ e ∈ evs, e.conn ≠ some j)
    (o : Obj) (nm : Name) (r : Req) : (runEvents w evs).decide j o nm r = w.decide j o nm r := by
  simp only [World.decide, others_cannot_change w evs j h]

/-- **Isolation (noninterference).** After ANY history, connection `j`'s state is what it would be had only `j`'s own
events and the application's edits (which decide what a connection opened LATER starts from) happened: erasing every
other connection's opening, classic-mode `on_connect`, requests and closing changes nothing for `j`. -/
theorem isolation (w : World) (evs : List Event) (j : Nat) :
    (runEvents w evs).conns j = (runEvents w (evs.filter (fun e => e.conn == some j || e.isEnv))).conns j :=
  runEvents_filter j evs w w rfl rfl rfl

/-- the same, said about decisions -/
theorem isolation_decisions (w : World) (evs : List Event) (j : Nat) (o : Obj) (nm : Name) (r : Req) :
    (runEvents w evs).decide j o nm r
      = (runEvents w (evs.filter (fun e => e.conn == some j || e.isEnv))).decide j o nm r := by
  simp only [World.decide, isolation w evs j]

/-- **Opening takes a snapshot**: the defaults as they are NOW, overlaid with the dict's content as it is NOW;
the classic-mode `on_connect` then rewrites that connection's own copy -/
theorem open_takes_snapshot (w : World) (i : Nat) (ov : Overlay) (d : Nat) (hf : w.conns i = .fresh) :
    (step w (.open i ov)).conns i = .live (applyOverlay w.dflt ov)
    ∧ (step w (.openWith i d)).conns i = .live (applyOverlay w.dflt (w.dicts d))
    ∧ (step (step w (.open i ov)) (.slave i)).conns i = .live (onConnectSlave (applyOverlay w.dflt ov)) := by
  simp [step, hf]

/-- **… and the snapshot is frozen.** Once connection `j` holds `cfg`, then after ANY further history — edits of
the dict it was opened with and of `DEFAULT_CONFIG` included — it holds `cfg` or `cfg` with the classic-mode update
(its own `on_connect`), live or closed. No other configuration can ever appear in slot `j`. -/
theorem config_frozen_after_open (w : World) (evs : List Event) (j : Nat) (cfg : Config)
    (h : w.conns j = .live cfg) :
    (runEvents w evs).conns j = .live cfg ∨ (runEvents w evs).conns j = .live (onConnectSlave cfg)
    ∨ (runEvents w evs).conns j = .closed cfg ∨ (runEvents w evs).conns j = .closed (onConnectSlave cfg) :=
  runEvents_frozen evs w j cfg (Or.inl h)

/-- connections opened AFTER an edit see the edited values (the other half of "snapshot") -/
theorem later_open_sees_edit (w : World) (d i : Nat) (e : Overlay) (hf : w.conns i = .fresh) :
    (runEvents w [.editDict d e, .openWith i d]).conns i = .live (applyOverlay w.dflt (mergeOverlay (w.dicts d) e))
    ∧ (runEvents w [.setDefault e, .open i {}]).conns i = .live (applyOverlay (applyOverlay w.dflt e) {}) := by
  simp [runEvents, step, hf]

/-- **What classic mode grants itself** (generated from the live `SlaveService.on_connect`): afterwards every name
of every hook-less object may be read, written and deleted, as itself (no twin substitution), on THAT connection. -/
theorem classic_allows_everything (c : Config) (o : Obj) (name : PyStr) (op : Op) (hh : o.hook op = none) :
    accessAttr (onConnectSlave c) o (.text name) op = .ok (.direct name) := by
  rw [access_is_checkAttr _ _ _ _ hh]
  have h1 : (onConnectSlave c).perm op = true := by cases op <;> rfl
  have h2 : (onConnectSlave c).allowAll = true := rfl
  have h3 : (onConnectSlave c).allowExposed = false := rfl
  rw [plain_access (onConnectSlave c) o.has name op h1 (Or.inl h2) (Or.inl (fun h => by have := h.1; simp [h3] at this))]
  rfl

/-! ### (5) name typing -/

/-- a bytes name that is valid UTF-8 behaves exactly as its text -/
theorem bytes_name_as_text (c : Config) (o : Obj) (b : Bytes) (s : PyStr) (op : Op) (h : utf8Dec false b = some s) :
    run c o (.bytes b) op = run c o (.text s) op := by
  simp [run, decodeName, h]

/-- in particular the UTF-8 encoding of any text name (no lone surrogates) is accepted as that name -/
theorem encoded_name_as_text (c : Config) (o : Obj) (s : PyStr) (b : Bytes) (op : Op)
    (hv : ∀ cp ∈ s, cp < 0x110000) (h : utf8Enc false s = some b) :
    run c o (.bytes b) op = run c o (.text s) op :=
  bytes_name_as_text c o b s op (utf8Dec_enc false false (fun x => x) s b hv h)

/-- a name that is not text (int, None, an instance of a str/bytes subclass, …) is `TypeError`, nothing happens:
no hook is called, no probe is made — whatever the configuration and the object -/
theorem nontext_name_typeError (c : Config) (o : Obj) (op : Op) :
    run c o .other op = { out := .error .typeError, log := [] } := rfl

/-- bytes that are not UTF-8 are `UnicodeDecodeError`, nothing happens (documented deviation: the statement says
"TypeError for a name that is not text"; no effect either way) -/
theorem undecodable_name (c : Config) (o : Obj) (b : Bytes) (op : Op) (h : utf8Dec false b = none) :
    run c o (.bytes b) op = { out := .error .unicodeDecodeError, log := [] } := by
  simp [run, decodeName, h]

/-- name typing comes first: it is the same under every configuration and for every object, hooks or not -/
theorem name_error_independent (c c' : Config) (o o' : Obj) (nm : Name) (op op' : Op) (e : Err)
    (h : decodeName nm = .error e) : run c o nm op = run c' o' nm op' := by
  simp [run, h]

/-! ### closed world: the generated facts the model relies on -/

/-- every `_access_attr` call site in `Connection` passes a matching (hook, permission, accessor) triple, on the
object itself (only `_handle_cmp` passes `type(obj)`), and the handlers that fetch by name delegate to
`_handle_getattr` (AST of the live source, variable names not recorded; a re-wired permission key breaks this) -/
theorem call_sites_are_modelled :
    Gen.Policy.accessSites =
      [("_handle_cmp", true, "_rpyc_getattr", "allow_getattr", "getattr"),
       ("_handle_delattr", false, "_rpyc_delattr", "allow_delattr", "delattr"),
       ("_handle_getattr", false, "_rpyc_getattr", "allow_getattr", "getattr"),
       ("_handle_setattr", false, "_rpyc_setattr", "allow_setattr", "setattr")]
    ∧ Gen.Policy.getattrDelegates = ["_handle_callattr", "_handle_ctxexit", "_handle_oldslicing"] := by
  decide

/-- observed on the live code at generation time: `_check_attr` reads exactly the nine modelled keys;
`Connection.__init__` gives each connection its own dict = defaults overlaid with the caller's dict and modifies
neither `DEFAULT_CONFIG` nor the caller's dict, and later edits of either do not show through the connection's
`_config` (this is `step (.open i ov)` / `.openWith` taking a snapshot); `SlaveService.on_connect` leaves
`DEFAULT_CONFIG` deep-equal; `Service` has no read hook; the generated safe list is complete -/
theorem config_handling_is_modelled :
    Gen.Policy.checkAttrReads =
      ["allow_all_attrs", "allow_delattr", "allow_exposed_attrs", "allow_getattr", "allow_public_attrs",
       "allow_safe_attrs", "allow_setattr", "exposed_prefix", "safe_attrs"]
    ∧ Gen.Policy.initOwnCopy = true
    ∧ Gen.Policy.initEqualsDefaults = true
    ∧ Gen.Policy.initOverlaysArg = true
    ∧ Gen.Policy.initLeavesInputsAlone = true
    ∧ Gen.Policy.initSnapshotFrozen = true
    ∧ Gen.Policy.slaveLeavesDefaultsAlone = true
    ∧ Gen.Policy.serviceHasGetHook = false
    ∧ Gen.Policy.cfgSafeAttrsCp.length = Gen.Policy.cfgSafeAttrsCount := by
  decide

/-! ### non-vacuity: concrete, non-trivial instances of the hypotheses -/

/-- "foo", "exposed_foo", "_x", "__eq__" as code points -/
def foo : PyStr := [102, 111, 111]
def expFoo : PyStr := Gen.Policy.cfgExposedPrefixCp ++ foo
def underX : PyStr := [95, 120]
def dunderEq : PyStr := [95, 95, 101, 113, 95, 95]

/-- an object that has only `exposed_foo` -/
def svcLike : Obj := plainObj 0 (fun n => n == expFoo)

/-- default configuration: `foo` is not allowed by name but has a twin → the twin is read -/
example : ¬ NameAllowed defaultConfig foo ∧ HasTwin defaultConfig svcLike.has foo
    ∧ checkAttr defaultConfig svcLike.has foo .get = .ok expFoo := by
  refine ⟨?_, ?_, by decide⟩
  · rw [← plainAllowed_iff]; decide
  · rw [← hasExposed_iff]; decide
/-- default configuration: writing is disabled, `_x` is refused, `__eq__` is safe-listed -/
example : checkAttr defaultConfig svcLike.has foo .set = .error .attributeError
    ∧ checkAttr defaultConfig svcLike.has underX .get = .error .attributeError
    ∧ checkAttr defaultConfig svcLike.has dunderEq .get = .ok dunderEq := by decide
/-- a denied request really is denied, with a probe and no effect (hypotheses of `denied_no_effect` are met) -/
example : svcLike.hook Req.getattr.op = none
    ∧ (handle defaultConfig svcLike (.text underX) .getattr).out = .error .attributeError
    ∧ (handle defaultConfig svcLike (.text underX) .getattr).log = [.probe 0 (expFoo.take 8 ++ underX)] := by decide
/-- an allowed call-by-name: probe, read of the twin, call -/
example : (handle defaultConfig svcLike (.text foo) .callattr).log
    = [.probe 0 expFoo, .access 0 .get expFoo, .call 0 expFoo] := by decide
/-- a restricted view under classic-mode blanket permissions still permits exactly its list -/
example : (run (onConnectSlave defaultConfig) (restrictedView 0 1 [foo] none (fun _ => false)) (.text underX) .get).out
      = .error .attributeError
    ∧ (run defaultConfig (restrictedView 0 1 [foo] none (fun _ => false)) (.text foo) .set).out = .ok (.hooked foo) := by
  decide
/-- a history with three differently configured connections, a classic-mode connect, a close, and the application
editing — after the fact — both the dict object connection 2 was opened with (then reusing it for connection 4) and
`DEFAULT_CONFIG`: connection 2 is exactly what its own opening made it, connection 4 sees the edits -/
def strict : Overlay := { allowPublic := some false, exposedPrefix := some [120] }
def history : List Event :=
  [.open 1 { allowPublic := some true }, .editDict 7 strict, .openWith 2 7,
   .open 3 {}, .slave 3, .access 1, .close 1,
   .editDict 7 { allowPublic := some true, allowSet := some true }, .setDefault { allowAll := some true },
   .openWith 4 7, .access 2, .slave 1]
example : (runEvents World.init history).conns 2 = .live (applyOverlay defaultConfig strict)
    ∧ (runEvents World.init history).conns 3 = .live (onConnectSlave defaultConfig)
    ∧ (runEvents World.init history).conns 1 = .closed (applyOverlay defaultConfig { allowPublic := some true })
    ∧ (runEvents World.init history).conns 4
        = .live (applyOverlay (applyOverlay defaultConfig { allowAll := some true })
                  { allowPublic := some true, allowSet := some true, exposedPrefix := some [120] })
    ∧ (runEvents World.init history).dflt = applyOverlay defaultConfig { allowAll := some true } := by decide
/-- the hypotheses of `others_cannot_change` / `config_frozen_after_open` are met by non-trivial histories -/
example : ∀ e ∈ [Event.editDict 7 { allowAll := some true }, .setDefault { allowAll := some true }, .open 9 {}, .slave 9],
    e.conn ≠ some 2 := by decide
/-- "café" as UTF-8 bytes is the text name -/
example : utf8Dec false [99, 97, 102, 0xC3, 0xA9] = some [99, 97, 102, 233]
    ∧ utf8Dec false [0xED, 0xA0, 0x80] = none ∧ utf8Dec false [0xFF] = none := by decide

end Rpyc.Props.C06
