import RpycModel.Policy.Lemmas
/-
C06 — attribute access by the peer follows the connection's own policy, and only its own.
Only property theorems and their non-vacuity examples live here (namespace Rpyc.Props.C06); the model is
RpycModel/Policy/Model.lean (`_check_attr`, `_access_attr`, handlers, hooks, connection histories), the
vocabulary `NameAllowed` / `HasTwin` and the helper lemmas are in RpycModel/Policy/Lemmas.lean.

Definitional statements (true by unfolding the model; kept because they SAY what the model does at a point the
statement cares about, not counted as evidence of anything beyond that): `nontext_name_typeError`,
`oldslicing_first_succeeds`, `oldslicing_falls_back`, `hook_decides`, `allowed_effect_exact`, `open_takes_snapshot`,
`server_connection_snapshot`, `others_cannot_change`, `probes_spec`, `checkAttr_spec`.

Every theorem quantifies over ALL configurations (all 2^7 switch settings, any prefix, any safe list), all names,
all objects (`has` and the hooks are arbitrary functions), and — for isolation — all histories.
-/
namespace Rpyc.Props.C06
open Rpyc Rpyc.Policy

/-! ### (1) the decision logic, stated outright -/

/-- **Decision table of `_check_attr`, one closed formula.** For every configuration, object and name:
allowed iff the kind of operation is enabled and (the name is allowed by the configuration or the object has the
prefixed twin); the twin is what is accessed exactly when it exists and (the name is not allowed, or the object
lacks the name); every refusal is `AttributeError`. -/
theorem checkAttr_spec (c : Config) (has : PyStr → Bool) (name : PyStr) (op : Op) :
    checkAttr c has name op =
      if c.perm op && (plainAllowed c name || hasExposed c has name) then
        .ok (if hasExposed c has name && (!plainAllowed c name || !has name) then twin c name else name)
      else .error .attributeError :=
  checkAttr_eq c has name op

/-- the Boolean `plainAllowed` is the statement's "everything / exposed-prefix / safe-list / public, as enabled" -/
theorem plainAllowed_spec (c : Config) (name : PyStr) :
    plainAllowed c name = true ↔
      (c.allowAll = true
       ∨ (c.allowExposed = true ∧ c.exposedPrefix <+: name)
       ∨ (c.allowSafe = true ∧ name ∈ c.safe)
       ∨ (c.allowPublic = true ∧ ¬ ([95] : PyStr) <+: name)) :=
  plainAllowed_iff c name

/-- the Boolean `hasExposed` is "exposed attributes enabled, non-empty prefix, object has `prefix ++ name`" -/
theorem hasExposed_spec (c : Config) (has : PyStr → Bool) (name : PyStr) :
    hasExposed c has name = true ↔
      (c.allowExposed = true ∧ c.exposedPrefix ≠ [] ∧ has (c.exposedPrefix ++ name) = true) :=
  hasExposed_iff c has name

/-- **Allowed iff** — in the statement's own words. -/
theorem allowed_iff (c : Config) (has : PyStr → Bool) (name : PyStr) (op : Op) :
    (∃ n, checkAttr c has name op = .ok n) ↔
      (c.perm op = true ∧ (NameAllowed c name ∨ HasTwin c has name)) := by
  rw [checkAttr_eq, ← plainAllowed_iff, ← hasExposed_iff]
  cases c.perm op <;> cases plainAllowed c name <;> cases hasExposed c has name <;> simp

/-- the name itself is accessed when it is allowed and (there is no twin, or the object has the name) -/
theorem plain_access (c : Config) (has : PyStr → Bool) (name : PyStr) (op : Op)
    (hp : c.perm op = true) (ha : NameAllowed c name) (hn : ¬ HasTwin c has name ∨ has name = true) :
    checkAttr c has name op = .ok name := by
  rw [checkAttr_eq]
  rw [← plainAllowed_iff] at ha
  rw [← hasExposed_iff] at hn
  cases he : hasExposed c has name <;> cases hh : has name <;> simp_all

/-- the exposed-prefixed twin is what is accessed when it exists and (the name is not allowed, or the object
lacks the name) -/
theorem twin_access (c : Config) (has : PyStr → Bool) (name : PyStr) (op : Op)
    (hp : c.perm op = true) (ht : HasTwin c has name) (hn : ¬ NameAllowed c name ∨ has name = false) :
    checkAttr c has name op = .ok (c.exposedPrefix ++ name) := by
  rw [checkAttr_eq]
  rw [← hasExposed_iff] at ht
  rw [← plainAllowed_iff] at hn
  cases hpl : plainAllowed c name <;> cases hh : has name <;> simp_all [twin]

/-- anything else fails with `AttributeError`: the kind of operation is disabled, or the name is neither allowed nor
has a twin -/
theorem denied (c : Config) (has : PyStr → Bool) (name : PyStr) (op : Op)
    (h : c.perm op = false ∨ (¬ NameAllowed c name ∧ ¬ HasTwin c has name)) :
    checkAttr c has name op = .error .attributeError := by
  rw [checkAttr_eq]
  rw [← plainAllowed_iff, ← hasExposed_iff] at h
  cases hp : c.perm op <;> cases hpl : plainAllowed c name <;> cases he : hasExposed c has name <;> simp_all

/-- the three cases above are exhaustive -/
theorem cases_exhaustive (c : Config) (has : PyStr → Bool) (name : PyStr) (op : Op) :
    (c.perm op = true ∧ NameAllowed c name ∧ (¬ HasTwin c has name ∨ has name = true))
    ∨ (c.perm op = true ∧ HasTwin c has name ∧ (¬ NameAllowed c name ∨ has name = false))
    ∨ (c.perm op = false ∨ (¬ NameAllowed c name ∧ ¬ HasTwin c has name)) := by
  rw [← plainAllowed_iff, ← hasExposed_iff]
  cases c.perm op <;> cases plainAllowed c name <;> cases hasExposed c has name <;> cases has name <;> simp

/-- the policy never raises anything but `AttributeError`, and never invents a name: the result is the name or its twin -/
theorem checkAttr_range (c : Config) (has : PyStr → Bool) (name : PyStr) (op : Op) :
    checkAttr c has name op = .error .attributeError
    ∨ checkAttr c has name op = .ok name
    ∨ checkAttr c has name op = .ok (c.exposedPrefix ++ name) := by
  rw [checkAttr_eq]
  cases c.perm op <;> cases plainAllowed c name <;> cases hasExposed c has name <;> cases has name <;> simp [twin]

/-- the decision reads the configuration, the name and two facts about the object — nothing else: two objects that
agree on `hasattr` for the name and for the twin get the same answer -/
theorem decided_by_config_and_name (c : Config) (has has' : PyStr → Bool) (name : PyStr) (op : Op)
    (h1 : has name = has' name) (h2 : has (c.exposedPrefix ++ name) = has' (c.exposedPrefix ++ name)) :
    checkAttr c has name op = checkAttr c has' name op := by
  simp [checkAttr_eq, hasExposed, twin, h1, h2]

/-- with exposed attributes on and an EMPTY prefix every name is allowed and no twin is ever substituted
(`name.startswith("")` is true, `"" and …` is falsy) -/
theorem empty_prefix_allows_all (c : Config) (has : PyStr → Bool) (name : PyStr) (op : Op)
    (he : c.allowExposed = true) (hp : c.exposedPrefix = []) (hperm : c.perm op = true) :
    checkAttr c has name op = .ok name := by
  apply plain_access c has name op hperm
  · exact Or.inr (Or.inl ⟨he, by simp [hp]⟩)
  · exact Or.inl (fun h => h.2.1 hp)

/-- the `hasattr` probes made on the way: only ever the name and its twin, none when the kind of operation is
disabled, the twin first -/
theorem probes_spec (c : Config) (has : PyStr → Bool) (name : PyStr) (op : Op) :
    checkProbes c has name op =
      if c.perm op then
        (if prefixTruthy c then [twin c name] else [])
          ++ (if plainAllowed c name && hasExposed c has name then [name] else [])
      else [] :=
  checkProbes_eq c has name op

/-! ### (2) a denied request has no effect — precisely: nothing but `hasattr` probes

`_check_attr` asks `hasattr(obj, prefix+name)` (and `hasattr(obj, name)`) before it refuses, also for writes and
deletes, and `hasattr` EVALUATES the attribute (a property getter, a `__getattr__`).  So "no effect" is: no accessor,
no hook, no call — only probes of the name and its twin on that very object, plus whatever evaluating those two
attributes does by itself (`probeExtra`; nothing for objects with a pure attribute lookup). -/

/-- **Denied ⇒ nothing but probes.** If the object's type has no hook for the operation and the request fails, every
event is a `hasattr` probe of that object (or what evaluating the probed attribute did); with a pure `hasattr` the
effect log is empty. For all four request kinds. -/
theorem denied_no_effect (c : Config) (o : Obj) (nm : Name) (r : Req) (e : Err)
    (hh : o.hook r.op = none) (h : (handle c o nm r).out = .error e) :
    OnlyProbes o (handle c o nm r).log
    ∧ (PureProbes o → (handle c o nm r).log.filter Ev.isEffect = []) := by
  cases r with
  | getattr => exact run_denied c o nm .get e hh h
  | setattr => exact run_denied c o nm .set e hh h
  | delattr => exact run_denied c o nm .del e hh h
  | callattr => exact getcall_denied c o nm e hh h

/-- the probes are of the name and of its twin only, on that object, and none at all when the kind is disabled -/
theorem denied_probes_only_name_and_twin (c : Config) (o : Obj) (name : PyStr) (op : Op) (e : Err)
    (hh : o.hook op = none) (hp : PureProbes o) (h : (run c o (.text name) op).out = .error e) :
    ∀ ev ∈ (run c o (.text name) op).log, ev = .probe o.id name ∨ ev = .probe o.id (c.exposedPrefix ++ name) := by
  simp only [run, decodeName, runNamed, hh, runDefault] at h ⊢
  cases hc : checkAttr c o.has name op with
  | ok n => simp [hc] at h
  | error e' =>
    simp only [probeEvs_pure o hp, List.mem_map]
    rintro ev ⟨n, hn, rfl⟩
    rcases mem_checkProbes c o.has name op n hn with rfl | rfl
    · exact Or.inl rfl
    · exact Or.inr rfl

/-- conversely an allowed request reaches exactly one attribute, after the probes: the one `_check_attr` named -/
theorem allowed_effect_exact (c : Config) (o : Obj) (name : PyStr) (op : Op) (n : PyStr)
    (hh : o.hook op = none) (h : checkAttr c o.has name op = .ok n) :
    run c o (.text name) op =
      { out := .ok (.direct n), log := probeEvs o (checkProbes c o.has name op) ++ [.access o.id op n] } := by
  simp [run, decodeName, runNamed, hh, runDefault, h]

/-! #### the other handlers that reach attributes by a peer-chosen name -/

/-- (used below; the general statement is `hooks_override` in section 3) -/
theorem hooks_override_get (c c' : Config) (o : Obj) (nm : Name) (h : Hook) (hh : o.hook .get = some h) :
    run c o nm .get = run c' o nm .get := by
  unfold run
  cases decodeName nm with
  | error e => rfl
  | ok name => simp [runNamed, hh]


/-- `_handle_cmp` and `_handle_ctxexit` (name `__exit__`) are read-then-call through the same `_access_attr`.
`_handle_cmp` works on `type(obj)` (so that comparing proxies of proxies does not recurse) UNLESS the object's class
defines `_rpyc_getattr`: then the object's own hook decides (`respects`, measured on the live code).
Refused ⇒ nothing but probes; allowed ⇒ only the name `_check_attr` approved is read and called. -/
theorem cmp_denied_no_effect (c : Config) (o ty : Obj) (opName : Name) (e : Err) (r : Bool)
    (ho : o.hook .get = none) (hh : ty.hook .get = none) (h : (handleCmp r c o ty opName).out = .error e) :
    OnlyProbes ty (handleCmp r c o ty opName).log
    ∧ (PureProbes ty → (handleCmp r c o ty opName).log.filter Ev.isEffect = []) := by
  have heq : handleCmp r c o ty opName = thenCall ty (run c ty opName .get) := by
    cases r <;> simp [handleCmp, ho]
  rw [heq] at h ⊢
  exact getcall_denied c ty opName e hh h

/-- **An object's own hook decides comparisons too**: when the object's class defines `_rpyc_getattr` (restricted
views, services or any class with a hook) a HANDLE_CMP request is the hook's to answer — the configuration, the
type's attributes and the metaclass are not consulted: any two configurations and any two `type(obj)` descriptions
give the same result and the same events. -/
theorem cmp_hook_decides (c c' : Config) (o ty ty' : Obj) (opName : Name) (h : Hook) (hh : o.hook .get = some h) :
    handleCmp true c o ty opName = handleCmp true c' o ty' opName := by
  simp only [handleCmp, hh]
  rw [hooks_override_get c c' o opName h hh]

/-- measured on the live code (obligation): `_handle_cmp` asks the object's own hook -/
theorem cmp_respects_object_hook : Gen.Policy.cmpRespectsObjectHook = true := by decide

/-- the "vault" of the counterexample: its hook refuses every name; its class has `__getitem__` -/
def getitemName : PyStr := [95, 95, 103, 101, 116, 105, 116, 101, 109, 95, 95]
def vault : Obj := { id := 0, has := fun _ => true, hook := fun | .get => some denyHook | _ => none }
def vaultType : Obj := plainObj 3 (fun n => n == getitemName)

/-- **Counterexample for the variant that looks the operator up on `type(obj)` unconditionally** (the code before
the repair `fixes/C06-cmp-respects-object-hook.patch`): under the DEFAULT configuration a peer's
`HANDLE_CMP(vault, key, "__getitem__")` reads and calls `Vault.__getitem__` although the vault's own hook refuses
every name — "objects that define their own attribute hooks decide instead of the configuration" fails; with the
object's hook respected the same request is refused and nothing is touched. -/
theorem cmp_bypass_counterexample :
    (handleCmp false defaultConfig vault vaultType (.text getitemName)).out = .ok (.direct getitemName)
    ∧ (handleCmp false defaultConfig vault vaultType (.text getitemName)).log
        = [.probe 3 (Gen.Policy.cfgExposedPrefixCp ++ getitemName), .access 3 .get getitemName, .call 3 getitemName]
    ∧ (handleCmp true defaultConfig vault vaultType (.text getitemName)).out = .error .attributeError
    ∧ (handleCmp true defaultConfig vault vaultType (.text getitemName)).log = [.hook 0 .get getitemName] := by
  decide

theorem ctxexit_denied_no_effect (c : Config) (o : Obj) (e : Err)
    (hh : o.hook .get = none) (h : (handleCtxExit c o).out = .error e) :
    OnlyProbes o (handleCtxExit c o).log
    ∧ (PureProbes o → (handleCtxExit c o).log.filter Ev.isEffect = []) :=
  getcall_denied c o (.text exitName) e hh h

theorem cmp_reaches_only_approved (c : Config) (o ty : Obj) (opName : Name) (r : Bool)
    (ho : o.hook .get = none) (hh : ty.hook .get = none)
    (hp : PureProbes ty) (ev : Ev) (hev : ev ∈ (handleCmp r c o ty opName).log) (heff : ev.isEffect = true) :
    ∃ s n, decodeName opName = .ok s ∧ checkAttr c ty.has s .get = .ok n
      ∧ (ev = .access ty.id .get n ∨ ev = .call ty.id n) := by
  have heq : handleCmp r c o ty opName = thenCall ty (run c ty opName .get) := by
    cases r <;> simp [handleCmp, ho]
  rw [heq] at hev
  exact getcall_effects c ty opName hh hp ev hev heff

theorem ctxexit_reaches_only_approved (c : Config) (o : Obj) (hh : o.hook .get = none)
    (hp : PureProbes o) (ev : Ev) (hev : ev ∈ (handleCtxExit c o).log) (heff : ev.isEffect = true) :
    ∃ n, checkAttr c o.has exitName .get = .ok n ∧ (ev = .access o.id .get n ∨ ev = .call o.id n) := by
  obtain ⟨s, n, hs, hc, h⟩ := getcall_effects c o (.text exitName) hh hp ev hev heff
  simp only [decodeName, Except.ok.injEq] at hs
  subst hs
  exact ⟨n, hc, h⟩

/-- **`_handle_oldslicing`**: the first name is tried; ANY exception there (a policy refusal included) is swallowed
and the second peer-chosen name is tried — through the policy again. So: (a) if the first stage succeeds the second
name is never consulted; (b) otherwise the outcome is the second stage's; (c) whatever happens, on a hook-less object
with a pure `hasattr` the only attributes read or called are the ones `_check_attr` approved for one of the two names;
(d) both refused ⇒ refused, nothing but probes. -/
theorem oldslicing_first_succeeds (c : Config) (o : Obj) (a f : Name) (cr : Bool)
    (h : stageFails o (thenCall o (run c o a .get)) cr = false) :
    handleOldSlicing c o a f cr = thenCall o (run c o a .get) := by
  simp [handleOldSlicing, h]

theorem oldslicing_falls_back (c : Config) (o : Obj) (a f : Name) (cr : Bool)
    (h : stageFails o (thenCall o (run c o a .get)) cr = true) :
    (handleOldSlicing c o a f cr).out = (thenCall o (run c o f .get)).out
    ∧ (handleOldSlicing c o a f cr).log
        = (thenCall o (run c o a .get)).log ++ (thenCall o (run c o f .get)).log := by
  simp [handleOldSlicing, h]

theorem oldslicing_reaches_only_approved (c : Config) (o : Obj) (a f : Name) (cr : Bool)
    (hh : o.hook .get = none) (hp : PureProbes o)
    (ev : Ev) (hev : ev ∈ (handleOldSlicing c o a f cr).log) (heff : ev.isEffect = true) :
    ∃ nm, (nm = a ∨ nm = f) ∧ ∃ s n, decodeName nm = .ok s ∧ checkAttr c o.has s .get = .ok n
      ∧ (ev = .access o.id .get n ∨ ev = .call o.id n) := by
  unfold handleOldSlicing at hev
  split at hev
  · simp only [List.mem_append] at hev
    rcases hev with hev | hev
    · exact ⟨a, Or.inl rfl, getcall_effects c o a hh hp ev hev heff⟩
    · exact ⟨f, Or.inr rfl, getcall_effects c o f hh hp ev hev heff⟩
  · exact ⟨a, Or.inl rfl, getcall_effects c o a hh hp ev hev heff⟩

theorem oldslicing_both_refused (c : Config) (o : Obj) (a f : Name) (cr : Bool) (e1 e2 : Err)
    (hh : o.hook .get = none) (h1 : (run c o a .get).out = .error e1) (h2 : (run c o f .get).out = .error e2) :
    (handleOldSlicing c o a f cr).out = .error e2
    ∧ (PureProbes o → (handleOldSlicing c o a f cr).log.filter Ev.isEffect = []) := by
  have t1 : (thenCall o (run c o a .get)).out = .error e1 := by simp [thenCall, h1]
  have t2 : (thenCall o (run c o f .get)).out = .error e2 := by simp [thenCall, h2]
  have hf : stageFails o (thenCall o (run c o a .get)) cr = true := by simp [stageFails, t1]
  obtain ⟨ho, hl⟩ := oldslicing_falls_back c o a f cr hf
  refine ⟨by rw [ho, t2], fun hp => ?_⟩
  rw [hl, List.filter_append, (getcall_denied c o a e1 hh t1).2 hp, (getcall_denied c o f e2 hh t2).2 hp]
  rfl

/-- for a hook-less object the outcome of the request IS the decision table -/
theorem access_is_checkAttr (c : Config) (o : Obj) (name : PyStr) (op : Op) (hh : o.hook op = none) :
    accessAttr c o (.text name) op = (checkAttr c o.has name op).map Action.direct := by
  simp only [accessAttr, run, decodeName, runNamed, hh, runDefault]
  cases checkAttr c o.has name op <;> rfl

/-! ### (3) objects with their own hooks decide instead of the configuration -/

/-- **Hooks override.** If the object's type defines the hook for the operation, the configuration is not
consulted at all: any two configurations give the same result and the same events. -/
theorem hooks_override (c c' : Config) (o : Obj) (nm : Name) (op : Op) (h : Hook) (hh : o.hook op = some h) :
    run c o nm op = run c' o nm op := by
  unfold run
  cases decodeName nm with
  | error e => rfl
  | ok name => simp [runNamed, hh]

/-- … and the result is the hook's own: it is called with the decoded name; it returns or raises as it likes;
no `hasattr` probe is made -/
theorem hook_decides (c : Config) (o : Obj) (name : PyStr) (op : Op) (h : Hook) (hh : o.hook op = some h) :
    run c o (.text name) op =
      { out := match (h name).err with | some e => .error e | none => .ok (.hooked name),
        log := .hook o.id op name :: (h name).evs } := by
  simp only [run, decodeName, runNamed, hh, runHook]
  cases (h name).err <;> rfl

/-- **Restricted views permit exactly their listed names — reading.** Whatever the configuration. -/
theorem restricted_get (c : Config) (id t : Nat) (attrs : List PyStr) (w : Option (List PyStr))
    (vo th : PyStr → Bool) (name : PyStr) :
    run c (restrictedView id t attrs w vo th) (.text name) .get =
      if attrs.contains name then { out := .ok (.hooked name), log := [.hook id .get name, .access t .get name] }
      else { out := .error .attributeError, log := [.hook id .get name] } := by
  have hg : Gen.Policy.restrictedHasGetHook = true := by decide
  simp only [run, decodeName, runNamed, restrictedView, hg, if_true, runHook, listHook]
  cases attrs.contains name <;> rfl

/-- **… writing**: `wattrs`, which defaults to `attrs` when not given. -/
theorem restricted_set (c : Config) (id t : Nat) (attrs : List PyStr) (w : Option (List PyStr))
    (vo th : PyStr → Bool) (name : PyStr) :
    run c (restrictedView id t attrs w vo th) (.text name) .set =
      if (match w with | some l => l | none => attrs).contains name then
        { out := .ok (.hooked name), log := [.hook id .set name, .access t .set name] }
      else { out := .error .attributeError, log := [.hook id .set name] } := by
  have hs : Gen.Policy.restrictedHasSetHook = true := by decide
  simp only [run, decodeName, runNamed, restrictedView, hs, if_true, runHook, listHook]
  cases (match w with | some l => l | none => attrs).contains name <;> rfl

/-- **… deleting**: the view's class has no delete hook, so the configuration decides — about the VIEW object, and
the delete itself acts on the view.  The `hasattr(view, ..)` probes on the way go through the view's
`__getattr__ = _rpyc_getattr`, which READS the target for names listed in `attrs` (only those, only reads): every
event of a delete request is a probe of the view, a read of a LISTED name on the target, or the delete on the view.
The target is never written, deleted from or called. -/
theorem restricted_del_reaches_target_only_by_listed_reads (c : Config) (id t : Nat) (attrs : List PyStr)
    (w : Option (List PyStr)) (vo th : PyStr → Bool) (nm : Name) :
    ∀ ev ∈ (run c (restrictedView id t attrs w vo th) nm .del).log,
        (∃ n, ev = .probe id n) ∨ (∃ n, attrs.contains n = true ∧ ev = .access t .get n)
        ∨ (∃ n, ev = .access id .del n) := by
  have hprobe : ∀ ns ev, ev ∈ probeEvs (restrictedView id t attrs w vo th) ns →
      (∃ n, ev = .probe id n) ∨ (∃ n, attrs.contains n = true ∧ ev = .access t .get n) := by
    intro ns ev hev
    obtain ⟨n, _, h⟩ := mem_probeEvs _ ns ev hev
    rcases h with rfl | h
    · exact Or.inl ⟨n, rfl⟩
    · simp only [restrictedView] at h
      split at h
      · rename_i hc
        simp only [List.mem_singleton] at h
        simp only [Bool.and_eq_true] at hc
        exact Or.inr ⟨n, hc.2, h⟩
      · simp at h
  unfold run
  cases decodeName nm with
  | error e => simp
  | ok name =>
    have hk : (restrictedView id t attrs w vo th).hook .del = none := rfl
    simp only [runNamed, hk, runDefault]
    cases checkAttr c (restrictedView id t attrs w vo th).has name .del with
    | error e =>
      intro ev hev
      rcases hprobe _ ev hev with h | h
      · exact Or.inl h
      · exact Or.inr (Or.inl h)
    | ok n =>
      intro ev hev
      simp only [List.mem_append, List.mem_singleton] at hev
      rcases hev with hev | rfl
      · rcases hprobe _ ev hev with h | h
        · exact Or.inl h
        · exact Or.inr (Or.inl h)
      · exact Or.inr (Or.inr ⟨n, rfl⟩)

/-- for a name that is not listed (and whose twin is not listed) a delete request does not reach the target at all -/
theorem restricted_del_unlisted_never_reaches_target (c : Config) (id t : Nat) (attrs : List PyStr)
    (w : Option (List PyStr)) (vo th : PyStr → Bool) (name : PyStr)
    (h1 : attrs.contains name = false) (h2 : attrs.contains (c.exposedPrefix ++ name) = false) :
    ∀ ev ∈ (run c (restrictedView id t attrs w vo th) (.text name) .del).log,
        (∃ n, ev = .probe id n) ∨ (∃ n, ev = .access id .del n) := by
  have hk : (restrictedView id t attrs w vo th).hook .del = none := rfl
  have hprobe : ∀ ev, ev ∈ probeEvs (restrictedView id t attrs w vo th)
      (checkProbes c (restrictedView id t attrs w vo th).has name .del) → ∃ n, ev = .probe id n := by
    intro ev hev
    obtain ⟨n, hn, h⟩ := mem_probeEvs _ _ ev hev
    rcases h with rfl | h
    · exact ⟨n, rfl⟩
    · have hc : attrs.contains n = false := by
        rcases mem_checkProbes _ _ _ _ n hn with rfl | rfl
        · exact h1
        · exact h2
      simp [restrictedView] at h
      have hnot : n ∉ attrs := by simpa using hc
      exact absurd h.1.2 hnot
  simp only [run, decodeName, runNamed, hk, runDefault]
  cases checkAttr c (restrictedView id t attrs w vo th).has name .del with
  | error e => intro ev hev; exact Or.inl (hprobe ev hev)
  | ok n =>
    intro ev hev
    simp only [List.mem_append, List.mem_singleton] at hev
    rcases hev with hev | rfl
    · exact Or.inl (hprobe ev hev)
    · exact Or.inr ⟨n, rfl⟩

/-- **Services.** The `Service` base class defines write and delete hooks that refuse every name and touch nothing —
under every configuration, classic-mode blanket permissions included; reading a service follows the configuration. -/
theorem service_write_delete_denied (c : Config) (id : Nat) (has : PyStr → Bool) (name : PyStr) :
    run c (serviceObj id has) (.text name) .set = { out := .error .attributeError, log := [.hook id .set name] }
    ∧ run c (serviceObj id has) (.text name) .del = { out := .error .attributeError, log := [.hook id .del name] }
    ∧ ∀ nm, run c (serviceObj id has) nm .get = run c (plainObj id has) nm .get := by
  have hs : Gen.Policy.serviceSetHookDenies = true := by decide
  have hd : Gen.Policy.serviceDelHookDenies = true := by decide
  refine ⟨?_, ?_, ?_⟩
  · simp [run, decodeName, runNamed, serviceObj, hs, runHook, denyHook]
  · simp [run, decodeName, runNamed, serviceObj, hd, runHook, denyHook]
  · intro nm
    have hpe : probeEvs (serviceObj id has) = probeEvs (plainObj id has) := by
      funext ns; exact probeEvs_congr (serviceObj id has) (plainObj id has) rfl rfl ns
    unfold run; cases decodeName nm <;> simp [runNamed, runDefault, hpe] <;> simp [serviceObj, plainObj]

/-! ### (4) isolation: an invariant over ALL histories of a heap of dict objects

The world (`Policy/Model.lean`, "the configuration heap") has object identity: the module-level `DEFAULT_CONFIG` dict,
the application's settings-dict objects (passed as `config=`, kept, edited, reused), one `_config` lookup chain per
connection, and the ONE set object `DEFAULT_CONFIG["safe_attrs"]` refers to.  `Connection.__init__` and the classic
connect exist in every variant (`InitMode`: own copy / the defaults object itself / the caller's object itself / a
mapping that reads through; classic overrides written to the connection's own object or into the caller's dict; a
classic connect growing the shared set in place).  Which variant the code IS is measured by the generator on the live
objects; `measured_modes_are_good` is the obligation that breaks when a regression shares state, and the `*_breaks_*`
theorems show that each bad variant really does violate the statement in this model (so the isolation theorems below
are not true by construction of the state space). -/

/-- **The code copies.** Measured on the live code: `__init__` builds an own dict (copy of the defaults, then the
caller's keys), classic mode writes its overrides into the connection's own dict and grows no shared set, a server
constructed without a configuration makes a dict of its own.  The two harmless choices — whether a server keeps the
dict object it was given, whether the `safe_attrs` set is copied too — are followed in whichever direction the code
goes. -/
theorem measured_modes_are_good :
    Modes.measured = Modes.good Gen.Policy.serverKeepsGivenDict (!Gen.Policy.initSharesDefaultSafeSet) := by decide

/-- further measured facts the heap model relies on (obligations): `restricted` views have read and write hooks and
NO delete hook (as `restrictedView` says); both per-client paths of the servers (`ThreadedServer._serve_client`,
`ThreadPoolServer._authenticate_and_build_connection`) connect with a private dict; a classic connect leaves a
caller-supplied `safe_attrs` set alone -/
theorem construction_facts_are_modelled :
    Gen.Policy.restrictedHasGetHook = true ∧ Gen.Policy.restrictedHasSetHook = true
    ∧ Gen.Policy.restrictedHasDelHook = false
    ∧ Gen.Policy.serverPerClientDictPrivate = true
    ∧ Gen.Policy.classicGrowsCallerSafeSet = false := by decide

/-- **rpyc never writes (the modelled keys of) the defaults, a caller's dict or another server's configuration**: in
any history from the initial state, a dict object of the application holds exactly what the application itself put
there — directly, or through the server that holds it.  (`Server.__init__` does write a `logger` entry into the dict
it is given: not a key the policy reads, not modelled.) -/
theorem shared_objects_never_written (pre post : List HEvent) (r : Ref) (hr : r.appOwned = true)
    (happ : ∀ e ∈ post, e.mayEdit r = false) (hset : ∀ e ∈ post, e.fair = true) :
    (hrun Modes.measured (hrun Modes.measured HWorld.init pre) post).dicts r
      = (hrun Modes.measured HWorld.init pre).dicts r
    ∧ (hrun Modes.measured (hrun Modes.measured HWorld.init pre) post).dfltSet
      = (hrun Modes.measured HWorld.init pre).dfltSet := by
  rw [measured_modes_are_good]
  exact ⟨hrun_good_sharedDicts _ _ post _ r hr (hrun_good_srvInv _ _ pre _ srvInv_init) happ,
    hrun_good_dfltSet _ _ post _ hset⟩

/-- **A connection's configuration is the copy taken when it was opened.** Once connection `j` is established, after
ANY further fair history — other connections opened with any dict object (the one `j` was opened with included),
classic-mode connects, requests, closes, servers constructed / edited / used, the application editing any of its
dicts or `DEFAULT_CONFIG`, `j`'s own requests and closing — the configuration `j` enforces is the same. -/
theorem config_frozen_after_open (w : HWorld) (evs : List HEvent) (j : Nat) (hinv : OwnInv w)
    (hf : ∀ e ∈ evs, e.fair = true) (hj : w.conns j ≠ .fresh) :
    (hrun Modes.measured w evs).cfgOf j = w.cfgOf j := by
  rw [measured_modes_are_good]
  exact hrun_good_frozen _ _ evs w j hinv hf hj

/-- every state reachable from the initial one has the ownership invariant the theorem above asks for -/
theorem reachable_owns (evs : List HEvent) : OwnInv (hrun Modes.measured HWorld.init evs) := by
  rw [measured_modes_are_good]
  exact hrun_good_inv _ _ evs _ ownInv_init

/-- **Isolation**, from the initial state: whatever happened before (`pre`), whatever fair events happen after
(`post`), an established connection keeps its configuration -/
theorem isolation (pre post : List HEvent) (j : Nat) (hf : ∀ e ∈ post, e.fair = true)
    (hj : (hrun Modes.measured HWorld.init pre).conns j ≠ .fresh) :
    (hrun Modes.measured (hrun Modes.measured HWorld.init pre) post).cfgOf j
      = (hrun Modes.measured HWorld.init pre).cfgOf j :=
  config_frozen_after_open _ post j (reachable_owns pre) hf hj

/-- … hence every decision it makes: for every object, name and request kind (while it is live) -/
theorem isolation_decisions (pre post : List HEvent) (j : Nat) (hf : ∀ e ∈ post, e.fair = true)
    (hother : ∀ e ∈ post, e.conn ≠ some j)
    (hj : (hrun Modes.measured HWorld.init pre).conns j ≠ .fresh) (o : Obj) (nm : Name) (r : Req) :
    (hrun Modes.measured (hrun Modes.measured HWorld.init pre) post).decide j o nm r
      = (hrun Modes.measured HWorld.init pre).decide j o nm r := by
  have hc := hrun_conns_other Modes.measured post (hrun Modes.measured HWorld.init pre) j hother
  have hcfg := isolation pre post j hf hj
  simp only [HWorld.decide, HWorld.cfgOf, hc] at hcfg ⊢
  cases hw : (hrun Modes.measured HWorld.init pre).conns j with
  | fresh => rfl
  | live ch => simp only [hw] at hcfg ⊢; rw [hcfg]
  | closed ch => rfl

/-- (definitional in this model: events are addressed to one slot) a history in which connection `j` does not take
part leaves slot `j` as it is, even before it is opened -/
theorem others_cannot_change (w : HWorld) (evs : List HEvent) (j : Nat) (h : ∀ e ∈ evs, e.conn ≠ some j) :
    (hrun Modes.measured w evs).conns j = w.conns j :=
  hrun_conns_other Modes.measured evs w j h

/-- **Opening takes a snapshot**: connection `i`'s `_config` is one own object holding the defaults as they are NOW
updated with the caller's dict as it is NOW (then the classic overrides iff it is the classic connection) -/
theorem open_takes_snapshot (w : HWorld) (i d : Nat) (classic : Bool) (hf : w.conns i = .fresh) :
    (hstep Modes.measured w (.open i d classic)).conns i = .live [.own i]
    ∧ (hstep Modes.measured w (.open i d classic)).dicts (.own i)
        = goodOwnDict (!Gen.Policy.initSharesDefaultSafeSet) w (.app d) classic := by
  rw [measured_modes_are_good]
  simp [hstep, hf, openConn_good_conns, openConn_good_dicts]

def strictDict : Overlay := { allowPublic := some false, allowSet := some false }
def laxDict : Overlay := { allowAll := some true, allowSet := some true }
def goodClassic : ClassicMode := { writesCallerDict := false, addsToSafe := [] }
/-- a mode record with the two harmless choices as in the pinned code -/
def modes (i : InitMode) (c : ClassicMode) (own : Bool) : Modes :=
  { init := i, classic := c, serversOwnDict := own, serverKeepsGiven := true, copiesSafeSet := false }

/-! #### servers: the server-side source of a connection's configuration

`Server.protocol_config` is a dict object too: the one the caller gave (kept as is — documented sharing), or one the
server makes for itself.  For every client the server builds `dict(self.protocol_config, ...)` and connects with that.
Measured on real servers: two servers constructed without a `protocol_config` hold distinct objects. -/

/-- **A server's configuration is its own.** In any history from the initial state, the dict object server `k` made
for itself holds exactly what the application put there through `k` (or directly): constructing, editing, using and
closing OTHER servers — before or after `k` was constructed — and every connection event leave it alone. -/
theorem server_config_is_private (pre post : List HEvent) (k : Nat)
    (h1 : ∀ e ∈ post, ∀ ov, e ≠ .editDict (.srv k) ov) (h2 : ∀ e ∈ post, ∀ ov, e ≠ .editServer k ov)
    (h3 : ∀ e ∈ post, ∀ d, e ≠ .newServer k d) :
    (hrun Modes.measured (hrun Modes.measured HWorld.init pre) post).dicts (.srv k)
      = (hrun Modes.measured HWorld.init pre).dicts (.srv k) := by
  rw [measured_modes_are_good]
  exact hrun_good_serverDict _ _ post _ k (hrun_good_srvInv _ _ pre _ srvInv_init) h1 h2 h3

/-- **A connection made by server `k` decides as `k`'s configuration says at that moment**: its own dict is the
defaults updated with `k`'s `protocol_config` content (then classic overrides for a classic server) -/
theorem server_connection_snapshot (w : HWorld) (i k : Nat) (classic : Bool) (r : Ref)
    (hf : w.conns i = .fresh) (hs : w.servers k = some r) :
    (hstep Modes.measured w (.serverConn i k classic)).conns i = .live [.own i]
    ∧ (hstep Modes.measured w (.serverConn i k classic)).dicts (.own i)
        = goodOwnDict (!Gen.Policy.initSharesDefaultSafeSet) (w.setDict (.tmp i) (w.dicts r)) (.tmp i) classic := by
  rw [measured_modes_are_good]
  simp [hstep, hf, hs, openConn_good_conns, openConn_good_dicts]

/-- one dict shared by all servers constructed without a configuration (a mutable default argument): editing server
1's configuration changes what server 2 hands to its NEXT client — two connections of the same server 2, nothing
done to server 2 in between, decide differently -/
theorem shared_server_default_breaks_isolation :
    (hrun (modes .copy goodClassic false) HWorld.init
        [.newServer 1 none, .newServer 2 none, .serverConn 3 2 false, .editServer 1 laxDict, .serverConn 5 2 false]).cfgOf 5
    ≠ (hrun (modes .copy goodClassic false) HWorld.init
        [.newServer 1 none, .newServer 2 none, .serverConn 3 2 false, .editServer 1 laxDict, .serverConn 5 2 false]).cfgOf 3 := by
  decide

/-! #### the variants that share state violate the statement (concrete witnesses, each WITHIN its variant) -/

/-- `self._config = DEFAULT_CONFIG`: opening connection 2 with a lax dict changes what the strict connection 1 enforces -/
theorem aliasDefault_breaks_isolation :
    (hrun (modes .aliasDefault goodClassic true) HWorld.init
        [.editDict (.app 1) strictDict, .open 1 1 false, .editDict (.app 2) laxDict, .open 2 2 false]).cfgOf 1
    ≠ (hrun (modes .aliasDefault goodClassic true) HWorld.init
        [.editDict (.app 1) strictDict, .open 1 1 false]).cfgOf 1 := by decide

/-- a mapping that reads through: the application editing the dict it passed changes the open connection -/
theorem layered_breaks_isolation :
    (hrun (modes .layered goodClassic true) HWorld.init
        [.editDict (.app 1) strictDict, .open 1 1 false, .editDict (.app 1) laxDict]).cfgOf 1
    ≠ (hrun (modes .layered goodClassic true) HWorld.init [.editDict (.app 1) strictDict, .open 1 1 false]).cfgOf 1 := by
  decide

/-- the caller's dict object used as `_config`: same -/
theorem aliasArg_breaks_isolation :
    (hrun (modes .aliasArg goodClassic true) HWorld.init
        [.editDict (.app 1) strictDict, .open 1 1 false, .editDict (.app 1) laxDict]).cfgOf 1
    ≠ (hrun (modes .aliasArg goodClassic true) HWorld.init [.editDict (.app 1) strictDict, .open 1 1 false]).cfgOf 1 := by
  decide

/-- classic overrides written into the caller's dict: two plain connections opened with the SAME dict object, which
the application did not touch in between, enforce different policies — because a classic connect came in between -/
theorem classic_into_caller_dict_breaks_isolation :
    (hrun (modes .copy ⟨true, []⟩ true) HWorld.init
        [.editDict (.app 1) strictDict, .open 3 1 false, .open 1 1 true, .open 2 1 false]).cfgOf 2
    ≠ (hrun (modes .copy ⟨true, []⟩ true) HWorld.init
        [.editDict (.app 1) strictDict, .open 3 1 false, .open 1 1 true, .open 2 1 false]).cfgOf 3 := by
  decide

/-- a classic connect growing the shared default set object in place: connection 1, opened before, now allows `_x` -/
theorem classic_growing_shared_set_breaks_isolation :
    (hrun (modes .copy ⟨false, [[95, 120]]⟩ true) HWorld.init [.open 1 1 false, .open 2 2 true]).cfgOf 1
    ≠ (hrun (modes .copy ⟨false, [[95, 120]]⟩ true) HWorld.init [.open 1 1 false]).cfgOf 1 := by decide

/-- the shallow copy (the pinned code: `Modes.good _ false`) shares the default set object: growing it in place —
which rpyc never does; that is what `fair` excludes and `measured_modes_are_good` checks for the classic connect —
reaches every open connection that was not given its own `safe_attrs`; replacing `DEFAULT_CONFIG["safe_attrs"]` by a
new set does not.  A code base that copies the set as well (`Modes.good _ true`) is immune to both. -/
theorem shared_default_set_hazard :
    (hrun (Modes.good true false) HWorld.init [.open 1 1 false, .mutDfltSet [[95, 120]]]).cfgOf 1
      ≠ (hrun (Modes.good true false) HWorld.init [.open 1 1 false]).cfgOf 1
    ∧ (hrun (Modes.good true false) HWorld.init [.open 1 1 false, .editDict .dflt { safe := some [[95, 120]] }]).cfgOf 1
      = (hrun (Modes.good true false) HWorld.init [.open 1 1 false]).cfgOf 1
    ∧ (hrun (Modes.good true true) HWorld.init [.open 1 1 false, .mutDfltSet [[95, 120]]]).cfgOf 1
      = (hrun (Modes.good true true) HWorld.init [.open 1 1 false]).cfgOf 1 := by decide

/-- **What classic mode grants itself** (generated from the live `SlaveService.on_connect`): afterwards every name
of every hook-less object may be read, written and deleted, as itself (no twin substitution), on THAT connection. -/
theorem classic_allows_everything (c : Config) (o : Obj) (name : PyStr) (op : Op) (hh : o.hook op = none) :
    accessAttr (onConnectSlave c) o (.text name) op = .ok (.direct name) := by
  rw [access_is_checkAttr _ _ _ _ hh]
  have h1 : (onConnectSlave c).perm op = true := by cases op <;> rfl
  have h2 : (onConnectSlave c).allowAll = true := rfl
  have h3 : (onConnectSlave c).allowExposed = false := rfl
  rw [plain_access (onConnectSlave c) o.has name op h1 (Or.inl h2) (Or.inl (fun h => by have := h.1; simp [h3] at this))]
  rfl

/-! ### (5) name typing -/

/-- a bytes name that is valid UTF-8 behaves exactly as its text -/
theorem bytes_name_as_text (c : Config) (o : Obj) (b : Bytes) (s : PyStr) (op : Op) (h : utf8Dec false b = some s) :
    run c o (.bytes b) op = run c o (.text s) op := by
  simp [run, decodeName, h]

/-- in particular the UTF-8 encoding of any text name (no lone surrogates) is accepted as that name -/
theorem encoded_name_as_text (c : Config) (o : Obj) (s : PyStr) (b : Bytes) (op : Op)
    (hv : ∀ cp ∈ s, cp < 0x110000) (h : utf8Enc false s = some b) :
    run c o (.bytes b) op = run c o (.text s) op :=
  bytes_name_as_text c o b s op (utf8Dec_enc false false (fun x => x) s b hv h)

/-- a name that is not text (int, None, an instance of a str/bytes subclass, …) is `TypeError`, nothing happens:
no hook is called, no probe is made — whatever the configuration and the object -/
theorem nontext_name_typeError (c : Config) (o : Obj) (op : Op) :
    run c o .other op = { out := .error .typeError, log := [] } := rfl

/-- bytes that are not UTF-8 are `UnicodeDecodeError`, nothing happens (documented deviation: the statement says
"TypeError for a name that is not text"; no effect either way) -/
theorem undecodable_name (c : Config) (o : Obj) (b : Bytes) (op : Op) (h : utf8Dec false b = none) :
    run c o (.bytes b) op = { out := .error .unicodeDecodeError, log := [] } := by
  simp [run, decodeName, h]

/-- name typing comes first: it is the same under every configuration and for every object, hooks or not -/
theorem name_error_independent (c c' : Config) (o o' : Obj) (nm : Name) (op op' : Op) (e : Err)
    (h : decodeName nm = .error e) : run c o nm op = run c' o' nm op' := by
  simp [run, h]

/-! ### closed world: the generated facts the model relies on -/

/-- every `_access_attr` call site in `Connection` passes a matching (hook, permission, accessor) triple, on the
object itself (`_handle_cmp` passes the object when its class has a read hook and `type(obj)` otherwise), and the handlers that fetch by name delegate to
`_handle_getattr` (AST of the live source, variable names not recorded; a re-wired permission key breaks this) -/
theorem call_sites_are_modelled :
    Gen.Policy.accessSites =
      [("_handle_cmp", false, "_rpyc_getattr", "allow_getattr", "getattr"),
       ("_handle_cmp", true, "_rpyc_getattr", "allow_getattr", "getattr"),
       ("_handle_delattr", false, "_rpyc_delattr", "allow_delattr", "delattr"),
       ("_handle_getattr", false, "_rpyc_getattr", "allow_getattr", "getattr"),
       ("_handle_setattr", false, "_rpyc_setattr", "allow_setattr", "setattr")]
    ∧ Gen.Policy.getattrDelegates = ["_handle_callattr", "_handle_ctxexit", "_handle_oldslicing"] := by
  decide

/-- observed on the live code at generation time: `_check_attr` reads exactly the nine modelled keys;
`Connection.__init__` gives each connection its own dict = defaults overlaid with the caller's dict and modifies
neither `DEFAULT_CONFIG` nor the caller's dict, and later edits of either do not show through the connection's
`_config` (this is `step (.open i ov)` / `.openWith` taking a snapshot); `SlaveService.on_connect` leaves
`DEFAULT_CONFIG` deep-equal; `Service` has no read hook; the generated safe list is complete -/
theorem config_handling_is_modelled :
    Gen.Policy.checkAttrReads =
      ["allow_all_attrs", "allow_delattr", "allow_exposed_attrs", "allow_getattr", "allow_public_attrs",
       "allow_safe_attrs", "allow_setattr", "exposed_prefix", "safe_attrs"]
    ∧ Gen.Policy.initOwnCopy = true
    ∧ Gen.Policy.initEqualsDefaults = true
    ∧ Gen.Policy.initOverlaysArg = true
    ∧ Gen.Policy.initLeavesInputsAlone = true
    ∧ Gen.Policy.initSnapshotFrozen = true
    ∧ Gen.Policy.slaveLeavesDefaultsAlone = true
    ∧ Gen.Policy.serviceHasGetHook = false
    ∧ Gen.Policy.cfgSafeAttrsCp.length = Gen.Policy.cfgSafeAttrsCount := by
  decide

/-! ### non-vacuity: concrete, non-trivial instances of the hypotheses -/

/-- "foo", "exposed_foo", "_x", "__eq__" as code points -/
def foo : PyStr := [102, 111, 111]
def expFoo : PyStr := Gen.Policy.cfgExposedPrefixCp ++ foo
def underX : PyStr := [95, 120]
def dunderEq : PyStr := [95, 95, 101, 113, 95, 95]

/-- an object that has only `exposed_foo` -/
def svcLike : Obj := plainObj 0 (fun n => n == expFoo)

/-- default configuration: `foo` is not allowed by name but has a twin → the twin is read -/
example : ¬ NameAllowed defaultConfig foo ∧ HasTwin defaultConfig svcLike.has foo
    ∧ checkAttr defaultConfig svcLike.has foo .get = .ok expFoo := by
  refine ⟨?_, ?_, by decide⟩
  · rw [← plainAllowed_iff]; decide
  · rw [← hasExposed_iff]; decide
/-- default configuration: writing is disabled, `_x` is refused, `__eq__` is safe-listed -/
example : checkAttr defaultConfig svcLike.has foo .set = .error .attributeError
    ∧ checkAttr defaultConfig svcLike.has underX .get = .error .attributeError
    ∧ checkAttr defaultConfig svcLike.has dunderEq .get = .ok dunderEq := by decide
/-- a denied request really is denied, with a probe and no effect (hypotheses of `denied_no_effect` are met) -/
example : svcLike.hook Req.getattr.op = none
    ∧ (handle defaultConfig svcLike (.text underX) .getattr).out = .error .attributeError
    ∧ (handle defaultConfig svcLike (.text underX) .getattr).log = [.probe 0 (expFoo.take 8 ++ underX)] := by decide
/-- an allowed call-by-name: probe, read of the twin, call -/
example : (handle defaultConfig svcLike (.text foo) .callattr).log
    = [.probe 0 expFoo, .access 0 .get expFoo, .call 0 expFoo] := by decide
/-- a restricted view under classic-mode blanket permissions still permits exactly its list -/
example : (run (onConnectSlave defaultConfig) (restrictedView 0 1 [foo] none (fun _ => false) (fun _ => true)) (.text underX) .get).out
      = .error .attributeError
    ∧ (run defaultConfig (restrictedView 0 1 [foo] none (fun _ => false) (fun _ => true)) (.text foo) .set).out = .ok (.hooked foo) := by
  decide
/-- a history with differently configured connections, a classic-mode connect, a close, and the application editing —
after the fact — both the dict object connection 2 was opened with (then reusing it for connection 4) and
`DEFAULT_CONFIG`: connection 2 enforces exactly what its own opening made it, connection 4 sees the edits -/
def strict : Overlay := { allowPublic := some false, exposedPrefix := some [120] }
def historyPre : List HEvent :=
  [.editDict (.app 1) { allowPublic := some true }, .open 1 1 false, .editDict (.app 7) strict, .open 2 7 false,
   .open 3 0 true]
def historyPost : List HEvent :=
  [.access 1, .close 1, .editDict (.app 7) { allowPublic := some true, allowSet := some true },
   .editDict .dflt { allowAll := some true }, .open 4 7 false, .access 2]
example : (hrun Modes.measured HWorld.init (historyPre ++ historyPost)).cfgOf 2
      = some (applyOverlay defaultConfig strict)
    ∧ (hrun Modes.measured HWorld.init (historyPre ++ historyPost)).cfgOf 3 = some (onConnectSlave defaultConfig)
    ∧ (hrun Modes.measured HWorld.init (historyPre ++ historyPost)).cfgOf 1
        = some (applyOverlay defaultConfig { allowPublic := some true })
    ∧ (hrun Modes.measured HWorld.init (historyPre ++ historyPost)).cfgOf 4
        = some (applyOverlay (applyOverlay defaultConfig { allowAll := some true })
                  { allowPublic := some true, allowSet := some true, exposedPrefix := some [120] }) := by decide
/-- two servers constructed without a configuration, the first edited afterwards, a third constructed later: a
connection of server 2 and one of server 3 enforce the defaults, one of server 1 what server 1 was told -/
def serverHistory : List HEvent :=
  [.newServer 1 none, .newServer 2 none, .editServer 1 { allowPublic := some true, allowSet := some true },
   .serverConn 5 2 false, .serverConn 6 1 false, .newServer 3 none, .serverConn 7 3 false]
example : (hrun Modes.measured HWorld.init serverHistory).cfgOf 5 = some defaultConfig
    ∧ (hrun Modes.measured HWorld.init serverHistory).cfgOf 7 = some defaultConfig
    ∧ (hrun Modes.measured HWorld.init serverHistory).cfgOf 6
        = some (applyOverlay defaultConfig { allowPublic := some true, allowSet := some true }) := by decide
/-- the hypotheses of `isolation` are met by that history: every later event is fair, connection 2 is established -/
example : (∀ e ∈ historyPost, e.fair = true)
    ∧ (hrun Modes.measured HWorld.init historyPre).conns 2 ≠ .fresh := by decide
/-- non-vacuity of the cmp / ctxexit / oldslicing theorems: a hook-less object with a pure `hasattr` whose requests
are refused (hypotheses of `*_denied_no_effect`, `oldslicing_both_refused`) resp. served -/
def exitN : PyStr := exitName
def plainWithExit : Obj := plainObj 0 (fun n => n == exitN)
example : plainWithExit.hook .get = none ∧ PureProbes plainWithExit := ⟨rfl, fun _ => rfl⟩
example : (handleCmp true defaultConfig svcLike svcLike (.text underX)).out = .error .attributeError
    ∧ (handleCtxExit { defaultConfig with allowGet := false } plainWithExit).out = .error .attributeError
    ∧ (handleCtxExit defaultConfig plainWithExit).log
        = [.probe 0 (Gen.Policy.cfgExposedPrefixCp ++ exitN), .access 0 .get exitN, .call 0 exitN] := by decide
example : (run defaultConfig svcLike (.text underX) .get).out = .error .attributeError
    ∧ (run defaultConfig svcLike (.text [95, 121]) .get).out = .error .attributeError
    ∧ (handleOldSlicing defaultConfig svcLike (.text underX) (.text [95, 121]) false).out = .error .attributeError := by
  decide
/-- oldslicing really falls back: `_x` is refused, `foo` (twin present) is then served -/
example : stageFails svcLike (thenCall svcLike (run defaultConfig svcLike (.text underX) .get)) false = true
    ∧ (handleOldSlicing defaultConfig svcLike (.text underX) (.text foo) false).out = .ok (.direct expFoo) := by decide
/-- a delete on a restricted view whose probed twin is listed reads the target (hypothesis of
`restricted_del_reaches_target_only_by_listed_reads` is non-trivially met), and for an unlisted name does not -/
example : (run { defaultConfig with allowDel := true } (restrictedView 0 1 [expFoo] none (fun _ => false) (fun _ => true))
      (.text foo) .del).log = [.probe 0 expFoo, .access 1 .get expFoo, .access 0 .del expFoo]
    ∧ (run { defaultConfig with allowDel := true } (restrictedView 0 1 [underX] none (fun _ => false) (fun _ => true))
      (.text foo) .del).log = [.probe 0 expFoo] := by decide
/-- `server_config_is_private` / `shared_objects_never_written`: their hypotheses hold for a history that constructs,
edits and uses OTHER servers and edits other dicts -/
example : (∀ e ∈ serverHistory.drop 2, e.mayEdit .dflt = false)
    ∧ (∀ e ∈ serverHistory.drop 2, e.mayEdit (.srv 2) = false)      -- no edit of / through / re-construction of server 2
    ∧ (∀ e ∈ serverHistory.drop 2, e.fair = true) := by decide
/-- "café" as UTF-8 bytes is the text name -/
example : utf8Dec false [99, 97, 102, 0xC3, 0xA9] = some [99, 97, 102, 233]
    ∧ utf8Dec false [0xED, 0xA0, 0x80] = none ∧ utf8Dec false [0xFF] = none := by decide

end Rpyc.Props.C06
