import RpycModel.Wire.Recv
import RpycModel.Wire.Send
import RpycModel.Wire.DuplexLemmas
/-
C05 — packets arrive whole, in order and unaltered under any fragmentation.

Only the property theorems and their non-vacuity examples live here (namespace Rpyc.Props.C05); the
model is RpycModel/Wire/Model.lean (rpyc/core/channel.py over rpyc/core/stream.py), helper lemmas are
in RpycModel/Wire/{Lemmas,Recv,Send}.lean.

Quantifiers.  Packets: any list of byte strings of any length (the explicit guard `Fits` is Python's
own `struct.error` limit of the header's length field).  Fragmentation: a *script* per direction — what
each `recv`/`os.read` and `send`/`os.write` call does — and every theorem holds for ALL scripts of the
stated kind, of any length: any split / coalescing, transient `socket.timeout` / EAGAIN anywhere, and
(for the safety theorems) a failure or end of stream at any call, i.e. at any byte offset.
zlib is the opaque parameter `z : Zlib`; its round-trip law is the only assumption.
The receiving channel's own `compress` setting does not occur in `recvPacket` (the receiver obeys the
frame's flag byte), so quantifying over the sender's setting `c` covers "compression enabled on
either, both or neither end".
-/
namespace Rpyc.Props.C05
open Rpyc Rpyc.Wire

/-! ### (1) what `Channel.send` writes is the frame, however it is cut into `write` calls -/

/-- the one or three `stream.write` calls of `Channel.send` concatenate to the frame, for every
`MAX_IO_CHUNK` -/
theorem concat_sendWrites (z : ZlibFns) (c : Bool) (maxChunk : Nat) (p : Bytes) (ws : List Bytes)
    (h : sendWrites z c maxChunk p = .ok ws) : frame z c p = .ok ws.flatten :=
  sendWrites_flatten z c maxChunk p ws h

/-- `send` produces writes for every packet whose (compressed) length the header can express -/
theorem sendWrites_total (z : ZlibFns) (c : Bool) (maxChunk : Nat) (p : Bytes) (hf : Fits z c p)
    (hmax : Gen.frameHeaderSize ≤ maxChunk) :
    ∃ ws, sendWrites z c maxChunk p = .ok ws ∧ ws.flatten = frameBytes z c p :=
  sendWrites_ok z c maxChunk p hf hmax

/-- the guard `Fits` of the theorems below excludes nothing smaller than 4 GiB: every packet whose
payload (the data, or its compressed form) is shorter than 2^32 bytes fits the header -/
theorem fits_of_lt_4GiB (z : ZlibFns) (c : Bool) (p : Bytes) (h : (payload z c p).length < 2 ^ 32) : Fits z c p :=
  Nat.lt_of_lt_of_le h lenRange_ge

/-- a packet the header cannot express is refused with `struct.error` before anything is written -/
theorem send_oversized_refused (z : ZlibFns) (c : Bool) (maxChunk : Nat) (p : Bytes) (s : WState)
    (h : ¬ Fits z c p) : chanSend z c maxChunk p s = (.err .structError, s) := by
  simp [chanSend, sendWrites, packHeader_not_fits h]

/-- the layout facts about the generated constants that the theorems below rest on: header size = sum
of the field widths, the flag field can hold 1, the flusher is not empty, a header fits in one chunk -/
theorem constants_sound :
    Gen.frameHeaderSize = Gen.frameLenWidth + Gen.frameFlagWidth ∧ 1 < 256 ^ Gen.frameFlagWidth ∧
    0 < Gen.flusher.length ∧ Gen.frameHeaderSize ≤ Gen.socketMaxIoChunk ∧ Gen.frameHeaderSize ≤ Gen.pipeMaxIoChunk ∧
    1 ≤ Gen.socketMaxIoChunk ∧ 1 ≤ Gen.pipeMaxIoChunk :=
  ⟨hdrSize_eq, one_lt_flagRange, flusher_pos, hdr_le_chunk.1, hdr_le_chunk.2, chunk_pos.1, chunk_pos.2⟩

/-- the code's retry list is exactly the platform's would-block errnos (from the `errno` module), and the
interpreter's exception class relations are the ones the model's fatal/retry branches are written for -/
theorem retry_list_sound :
    (Gen.retryErrnos.contains Gen.eagain = true ∧ Gen.retryErrnos.contains Gen.ewouldblock = true ∧
     Gen.retryErrnos.all (fun e => e == Gen.eagain || e == Gen.ewouldblock) = true) ∧
    (Gen.timeoutIsSocketError = true ∧ Gen.socketErrorIsEnvironmentError = true ∧ Gen.eofErrorIsSocketError = false) :=
  ⟨retry_errnos_are_wouldblock, exception_classes⟩

/-! ### (2) `stream.read(n)`: exactly the next `n` bytes, or `EOFError` + closed, or still waiting -/

/-- For EVERY script: `read(n)` returns exactly the next `n` bytes of the stream and leaves the rest,
or raises `EOFError` having closed the stream, or is still blocked when the script ends.  Never other
bytes, never fewer, never more. -/
theorem readExact_spec (retry : Bool) (maxChunk n : Nat) (s : RState) :
    ((readExact retry maxChunk n s).1 = .ok (s.wire.take n) ∧ n ≤ s.wire.length
        ∧ (readExact retry maxChunk n s).2.wire = s.wire.drop n
        ∧ (readExact retry maxChunk n s).2.closed = s.closed) ∨
    ((readExact retry maxChunk n s).1 = .eof ∧ (readExact retry maxChunk n s).2.closed = true) ∨
    ((readExact retry maxChunk n s).1 = .starved ∧ (readExact retry maxChunk n s).2.script = []
        ∧ (readExact retry maxChunk n s).2.closed = false) :=
  (readExact_cases retry maxChunk n s).2

/-- Under a script without failures (data in pieces of any size ≥ 1, and on a socket any number of
timeouts / would-blocks in between) that has at least `n` data events, `read(n)` succeeds. -/
theorem readExact_complete (retry : Bool) (maxChunk : Nat) (hmax : 1 ≤ maxChunk) (n : Nat) (s : RState)
    (hb : s.script.all (benign retry) = true) (hcl : s.closed = false)
    (hw : n ≤ s.wire.length) (hp : n ≤ progress s.script) :
    (readExact retry maxChunk n s).1 = .ok (s.wire.take n) ∧
    (readExact retry maxChunk n s).2.wire = s.wire.drop n ∧
    (readExact retry maxChunk n s).2.closed = false := by
  have := readExact_benign retry maxChunk hmax n s (by simpa using hb) hcl hw hp
  exact ⟨this.1, this.2.1, this.2.2.1⟩

/-! ### (3) every packet sequence is received exactly, under every failure-free fragmentation -/

/-- For every list of packets, every compression setting of the sender, every stream class
(`retry`), every chunk size ≥ 1 and EVERY failure-free receive script with enough data events (each
delivers at least one byte, so `wire length` events always suffice — a one-byte dribble is the worst
case): `recv()` called once per packet returns exactly the packets sent, in order, consuming exactly
their frames (`rest`, whatever follows, is untouched) and leaving the stream open. -/
theorem recvAll_frames (z : Zlib) (c retry : Bool) (maxChunk : Nat) (hmax : 1 ≤ maxChunk)
    (ps : List Bytes) (rest : Bytes) (script : List RecvEv)
    (hf : ∀ p ∈ ps, Fits z.toZlibFns c p)
    (hb : script.all (benign retry) = true)
    (hp : (wireOf z.toZlibFns c ps).length ≤ progress script) :
    recvMany z.toZlibFns retry maxChunk ps.length ⟨wireOf z.toZlibFns c ps ++ rest, script, false⟩
      = (ps, .done, (recvMany z.toZlibFns retry maxChunk ps.length
            ⟨wireOf z.toZlibFns c ps ++ rest, script, false⟩).2.2) ∧
    (recvMany z.toZlibFns retry maxChunk ps.length ⟨wireOf z.toZlibFns c ps ++ rest, script, false⟩).2.2.wire = rest ∧
    (recvMany z.toZlibFns retry maxChunk ps.length ⟨wireOf z.toZlibFns c ps ++ rest, script, false⟩).2.2.closed = false := by
  obtain ⟨h1, h2, h3, h4⟩ := recvMany_benign z c retry maxChunk hmax ps rest
    ⟨wireOf z.toZlibFns c ps ++ rest, script, false⟩ hf rfl (by simpa using hb) rfl hp
  refine ⟨?_, h3, h4⟩
  generalize recvMany z.toZlibFns retry maxChunk ps.length ⟨wireOf z.toZlibFns c ps ++ rest, script, false⟩ = r at *
  obtain ⟨a, b, c'⟩ := r
  simp only at h1 h2
  rw [h1, h2]

/-! ### (4) whatever the transport does, only whole, unaltered packets in order — then `EOFError` + closed -/

/-- For EVERY receive script (failures, timeouts, end of stream at any call — i.e. at any byte offset),
for a stream that is ANY prefix of the frames sent (the sender or the network may have died anywhere),
and for any number `n` of `recv()` calls: the packets returned are a prefix of the packets sent — never
a shortened, padded, merged or reordered packet — and the series ends in exactly one of three ways: all
`n` calls returned; or `EOFError` was raised and the stream is closed; or the reader is still blocked
when the script ends (nothing lost: stream open).  No other exception (`zlib.error`, ...) is possible. -/
theorem recvAll_prefix (z : Zlib) (c retry : Bool) (maxChunk n : Nat) (ps : List Bytes) (wire : Bytes)
    (script : List RecvEv) (hf : ∀ p ∈ ps, Fits z.toZlibFns c p)
    (hw : wire <+: wireOf z.toZlibFns c ps) :
    (recvMany z.toZlibFns retry maxChunk n ⟨wire, script, false⟩).1 <+: ps ∧
    (((recvMany z.toZlibFns retry maxChunk n ⟨wire, script, false⟩).2.1 = .done
        ∧ (recvMany z.toZlibFns retry maxChunk n ⟨wire, script, false⟩).1.length = n) ∨
     ((recvMany z.toZlibFns retry maxChunk n ⟨wire, script, false⟩).2.1 = .err .eofError
        ∧ (recvMany z.toZlibFns retry maxChunk n ⟨wire, script, false⟩).2.2.closed = true) ∨
     ((recvMany z.toZlibFns retry maxChunk n ⟨wire, script, false⟩).2.1 = .starved
        ∧ (recvMany z.toZlibFns retry maxChunk n ⟨wire, script, false⟩).2.2.script = []
        ∧ (recvMany z.toZlibFns retry maxChunk n ⟨wire, script, false⟩).2.2.closed = false)) :=
  recvMany_prefix_aux z c retry maxChunk n ps ⟨wire, script, false⟩ hf hw

/-- once the whole stream has been consumed, one more `recv()` can only end in `EOFError` + closed (or
block): no phantom packet is ever produced from nothing -/
theorem recv_after_end (z : ZlibFns) (retry : Bool) (maxChunk : Nat) (script : List RecvEv) (cl : Bool) :
    ((recvPacket z retry maxChunk ⟨[], script, cl⟩).1 = .err .eofError
        ∧ (recvPacket z retry maxChunk ⟨[], script, cl⟩).2.closed = true) ∨
    ((recvPacket z retry maxChunk ⟨[], script, cl⟩).1 = .starved
        ∧ (recvPacket z retry maxChunk ⟨[], script, cl⟩).2.script = []
        ∧ (recvPacket z retry maxChunk ⟨[], script, cl⟩).2.closed = false) :=
  recvPacket_nil z retry maxChunk ⟨[], script, cl⟩ rfl

/-! ### (5) `stream.write` and `Channel.send` under every send script -/

/-- For EVERY send script (partial sends of any size, a failure at any call): the bytes the transport
has accepted are the previous ones plus a prefix of `data`; the whole of `data` whenever `write` returned (only this direction is stated);
otherwise `EOFError` was raised and the stream is closed (every `socket.error`, a timeout included, is
fatal to a write), or the writer is still blocked when the script ends. -/
theorem writeAll_spec (maxChunk : Nat) (data : Bytes) (s : WState) :
    ∃ m, m ≤ data.length ∧ (writeAll maxChunk data s).2.sent = s.sent ++ data.take m ∧
      (((writeAll maxChunk data s).1 = .ok ∧ m = data.length ∧ (writeAll maxChunk data s).2.closed = s.closed) ∨
       ((writeAll maxChunk data s).1 = .eof ∧ (writeAll maxChunk data s).2.closed = true) ∨
       ((writeAll maxChunk data s).1 = .starved ∧ (writeAll maxChunk data s).2.script = []
          ∧ (writeAll maxChunk data s).2.closed = false)) := by
  obtain ⟨_, m, hm, hsent, hend⟩ := Wire.writeAll_spec maxChunk data s
  refine ⟨m, hm, hsent, ?_⟩
  unfold WriteEnd at hend
  rcases hend with ⟨a, b, c⟩ | h | h
  · exact Or.inl ⟨a, by simpa using b, c⟩
  · exact Or.inr (Or.inl h)
  · exact Or.inr (Or.inr h)

/-- For every packet list and EVERY send script: what the transport has accepted is a prefix of the
concatenated frames (so the receiver-side theorem (4) applies to it); it is all of them whenever every
`send` returned (only this direction is stated); otherwise `EOFError` + closed, or blocked. -/
theorem sendAll_prefix (z : ZlibFns) (c : Bool) (maxChunk : Nat) (hmax : Gen.frameHeaderSize ≤ maxChunk)
    (ps : List Bytes) (script : List SendEv) (hf : ∀ p ∈ ps, Fits z c p) :
    (sendMany z c maxChunk ps ⟨[], script, false⟩).2.2.sent <+: wireOf z c ps ∧
    (((sendMany z c maxChunk ps ⟨[], script, false⟩).2.1 = .done
        ∧ (sendMany z c maxChunk ps ⟨[], script, false⟩).1 = ps.length
        ∧ (sendMany z c maxChunk ps ⟨[], script, false⟩).2.2.sent = wireOf z c ps
        ∧ (sendMany z c maxChunk ps ⟨[], script, false⟩).2.2.closed = false) ∨
     ((sendMany z c maxChunk ps ⟨[], script, false⟩).2.1 = .err .eofError
        ∧ (sendMany z c maxChunk ps ⟨[], script, false⟩).2.2.closed = true) ∨
     ((sendMany z c maxChunk ps ⟨[], script, false⟩).2.1 = .starved
        ∧ (sendMany z c maxChunk ps ⟨[], script, false⟩).2.2.script = []
        ∧ (sendMany z c maxChunk ps ⟨[], script, false⟩).2.2.closed = false)) := by
  obtain ⟨_, m, hm, hsent, hend⟩ := sendMany_spec z c maxChunk hmax ps ⟨[], script, false⟩ hf
  have hs0 : (WState.mk [] script false).sent = [] := rfl
  rw [hs0, List.nil_append] at hsent
  refine ⟨by rw [hsent]; exact List.take_prefix _ _, ?_⟩
  unfold SendManyEnd at hend
  rcases hend with ⟨a, b, c', d⟩ | h | h
  · simp only [decide_eq_true_eq] at c'
    refine Or.inl ⟨a, b, ?_, d⟩
    rw [hsent, c', List.take_length]
  · exact Or.inr (Or.inl h)
  · exact Or.inr (Or.inr h)

/-! ### end to end: sender's channel → transport → receiver's channel -/

/-- **Exactness.** Any packet sequence, any compression setting at the sender, any stream classes and
chunk sizes, a sending transport that accepts the data in pieces of any sizes, a receiving transport
that delivers what was accepted in pieces of any sizes with any transient conditions in between: the
receiver gets exactly the sequence sent, and both streams stay open. -/
theorem transfer_exact (z : Zlib) (c retry : Bool) (maxS maxR : Nat)
    (hS : Gen.frameHeaderSize ≤ maxS) (hS1 : 1 ≤ maxS) (hR : 1 ≤ maxR)
    (ps : List Bytes) (sscript : List SendEv) (rscript : List RecvEv)
    (hf : ∀ p ∈ ps, Fits z.toZlibFns c p)
    (hsa : sscript.all accepting = true) (hsl : (wireOf z.toZlibFns c ps).length ≤ sscript.length)
    (hrb : rscript.all (benign retry) = true) (hrp : (wireOf z.toZlibFns c ps).length ≤ progress rscript) :
    (sendMany z.toZlibFns c maxS ps ⟨[], sscript, false⟩).2.1 = .done ∧
    (sendMany z.toZlibFns c maxS ps ⟨[], sscript, false⟩).2.2.closed = false ∧
    (recvMany z.toZlibFns retry maxR ps.length
      ⟨(sendMany z.toZlibFns c maxS ps ⟨[], sscript, false⟩).2.2.sent, rscript, false⟩).1 = ps ∧
    (recvMany z.toZlibFns retry maxR ps.length
      ⟨(sendMany z.toZlibFns c maxS ps ⟨[], sscript, false⟩).2.2.sent, rscript, false⟩).2.1 = .done := by
  obtain ⟨_, s2, s3, s4⟩ := sendMany_accepting z.toZlibFns c maxS hS hS1 ps ⟨[], sscript, false⟩ hf rfl
    (by simpa using hsa) hsl
  have hs0 : (WState.mk [] sscript false).sent = [] := rfl
  rw [hs0, List.nil_append] at s3
  rw [s3]
  have hr := recvAll_frames z c retry maxR hR ps [] rscript hf hrb hrp
  rw [List.append_nil] at hr
  refine ⟨s2, s4, ?_, ?_⟩
  · rw [hr.1]
  · rw [hr.1]

/-- **Safety.** With NO assumption on either transport (any send script, any receive script, failures
and ends of stream anywhere), and any number of `recv()` calls: the packets received are a prefix of the
packets sent, followed by `EOFError` with the stream closed (or by a reader still waiting). -/
theorem transfer_safe (z : Zlib) (c retry : Bool) (maxS maxR n : Nat) (hS : Gen.frameHeaderSize ≤ maxS)
    (ps : List Bytes) (sscript : List SendEv) (rscript : List RecvEv)
    (hf : ∀ p ∈ ps, Fits z.toZlibFns c p) :
    (recvMany z.toZlibFns retry maxR n
      ⟨(sendMany z.toZlibFns c maxS ps ⟨[], sscript, false⟩).2.2.sent, rscript, false⟩).1 <+: ps ∧
    (((recvMany z.toZlibFns retry maxR n
        ⟨(sendMany z.toZlibFns c maxS ps ⟨[], sscript, false⟩).2.2.sent, rscript, false⟩).2.1 = .done) ∨
     ((recvMany z.toZlibFns retry maxR n
        ⟨(sendMany z.toZlibFns c maxS ps ⟨[], sscript, false⟩).2.2.sent, rscript, false⟩).2.1 = .err .eofError
      ∧ (recvMany z.toZlibFns retry maxR n
        ⟨(sendMany z.toZlibFns c maxS ps ⟨[], sscript, false⟩).2.2.sent, rscript, false⟩).2.2.closed = true) ∨
     ((recvMany z.toZlibFns retry maxR n
        ⟨(sendMany z.toZlibFns c maxS ps ⟨[], sscript, false⟩).2.2.sent, rscript, false⟩).2.1 = .starved)) := by
  have hpre := (sendAll_prefix z.toZlibFns c maxS hS ps sscript hf).1
  obtain ⟨h1, h2⟩ := recvAll_prefix z c retry maxR n ps _ rscript hf hpre
  refine ⟨h1, ?_⟩
  rcases h2 with ⟨a, _⟩ | h | ⟨a, _⟩
  · exact Or.inl a
  · exact Or.inr (Or.inl h)
  · exact Or.inr (Or.inr a)

/-! ### one stream used in both directions, `poll`, and a descriptor whose own `close()` fails

`Rpyc.Wire.Duplex`: `Channel.send`, `Channel.recv`, `Stream.poll` (with `SocketStream.fileno`) and
`stream.close()` on ONE stream object in any order, continuing after exceptions; `CloseFault` makes
`sock.close()` / `incoming.close()` / `outgoing.close()` raise once. -/

/-- **Interleaving and failing `close()` cannot alter a packet.** Whenever `recv()` returns a packet on the
duplex stream — after any sequence of sends, polls, closes and failures — the one-directional
`recvPacket` returns the same packet from the same reading state and leaves the same reading state, so
theorems (3) and (4) speak about every packet ever returned. -/
theorem duplex_recv_is_recvPacket (z : ZlibFns) (retry : Bool) (maxChunk : Nat) (d : DState) (p : Bytes)
    (h : (dRecv z retry maxChunk d).1 = .ok p) :
    (recvPacket z retry maxChunk d.r).1 = .ok p ∧
    (dRecv z retry maxChunk d).2.r = (recvPacket z retry maxChunk d.r).2 :=
  dRecv_ok z retry maxChunk d p h

/-- `send` — returning, raising or blocked — leaves the incoming byte stream and its script untouched -/
theorem send_transparent_to_reading (z : ZlibFns) (c : Bool) (maxChunk : Nat) (p : Bytes) (d : DState) :
    (dSend z c maxChunk p d).2.r.wire = d.r.wire ∧ (dSend z c maxChunk p d).2.r.script = d.r.script :=
  dSend_reading z c maxChunk p d

/-- `Stream.poll` — answering, raising or blocked — reads nothing and sends nothing -/
theorem poll_transparent (d : DState) :
    (dPoll d).2.r.wire = d.r.wire ∧ (dPoll d).2.r.script = d.r.script ∧
    (dPoll d).2.w.chunks = d.w.chunks ∧ (dPoll d).2.w.script = d.w.script :=
  dPoll_streams d

/-- when `poll` answers, the stream is exactly as before (only the poll script has moved) -/
theorem poll_answer_changes_nothing (d : DState) (b : Bool) (h : (dPoll d).1 = .ok b) :
    (dPoll d).2.r = d.r ∧ (dPoll d).2.w = d.w ∧ (dPoll d).2.fault = d.fault ∧
    (dPoll d).2.inDead = d.inDead ∧ (dPoll d).2.outDead = d.outDead :=
  dPoll_ok d b h

/-- How `poll` can end.  `EOFError` comes with a closed stream; but a failure noticed BY POLL ITSELF — a
failing `poll()` call, a refused descriptor, a non-EBADF error of `fileno()` — is an `OSError`
(`select_error` / the socket error), NOT `EOFError`, and (see `poll_failure_is_not_eof_closed`) may leave the
stream open.  On kernel sockets and pipes a dead peer makes `poll()` ANSWER (readable), so that the failure
is met by the following `read` (kernel probes in the evidence); these poll-error paths need a descriptor
invalidated by the application itself, which is outside "a transport that ends or fails". -/
theorem poll_outcome (d : DState) :
    (∃ b, (dPoll d).1 = .ok b) ∨ ((dPoll d).1 = .eof ∧ (dPoll d).2.r.closed = true) ∨
    (dPoll d).1 = .oserr ∨ (dPoll d).1 = .starved :=
  dPoll_outcome d

/-- a healthy open socket stream to start the witnesses below from -/
def freshSock (wire : Bytes) (rs : List RecvEv) (ps : List PollEv) (fault : CloseFault) : DState :=
  ⟨⟨wire, rs, false⟩, ⟨[], [], false⟩, false, fault, false, false, ps⟩

/-- what "a failure noticed in poll yields EOFError + closed" would say — and its witnesses: (a) a failing
`poll()` call: `OSError`, stream left open; (b) `fileno()` failing with ECONNRESET: `OSError`, stream closed;
(c) `fileno()` failing with EBADF: `EOFError`, closed (the one case the code maps). -/
theorem poll_failure_is_not_eof_closed :
    (dPoll (freshSock [] [] [.selErr 5] .none)).1 = .oserr ∧ (dPoll (freshSock [] [] [.selErr 5] .none)).2.r.closed = false ∧
    (dPoll (freshSock [] [] [.fdErr 104] .none)).1 = .oserr ∧ (dPoll (freshSock [] [] [.fdErr 104] .none)).2.r.closed = true ∧
    (dPoll (freshSock [] [] [.fdErr Gen.ebadf] .none)).1 = .eof
      ∧ (dPoll (freshSock [] [] [.fdErr Gen.ebadf] .none)).2.r.closed = true := by
  refine ⟨?_, ?_, ?_, ?_, ?_, ?_⟩ <;> decide

/-- the descriptor's own `close()` raising inside the failure path of `read`: the peer resets, `sock.close()`
raises — the reader gets that `OSError`, NOT `EOFError`, and `stream.closed` stays `False`; the next `read`
finds the dead descriptor, closes cleanly and raises `EOFError`.  No byte of a packet is involved. -/
theorem close_failure_is_not_eof_closed :
    (dRead true 64000 3 (freshSock [1, 2, 3] [.chunk 1, .err 104] [] .first)).1 = .oserr ∧
    (dRead true 64000 3 (freshSock [1, 2, 3] [.chunk 1, .err 104] [] .first)).2.r.closed = false ∧
    (dRead true 64000 3 (dRead true 64000 3 (freshSock [1, 2, 3] [.chunk 1, .err 104] [] .first)).2).1 = .eof ∧
    (dRead true 64000 3 (dRead true 64000 3 (freshSock [1, 2, 3] [.chunk 1, .err 104] [] .first)).2).2.r.closed = true := by
  refine ⟨?_, ?_, ?_, ?_⟩ <;> decide

/-! ### the clause "whatever transient would-block or timeout conditions it reports", socket vs. pipe -/

/-- an event that is not a failure by the statement's wording: data, a timeout, a would-block — the
platform's `errno.EAGAIN` / `errno.EWOULDBLOCK` as the `errno` module gives them, NOT rpyc's own retry list -/
def transient : RecvEv → Bool
  | .chunk k => decide (1 ≤ k)
  | .timeout => true
  | .err e => e == Gen.eagain || e == Gen.ewouldblock
  | .eof => false

/-- what the code retries covers what the statement calls transient (rests on `retry_errnos_are_wouldblock`) -/
theorem transient_is_retried (e : Nat) (h : (e == Gen.eagain || e == Gen.ewouldblock) = true) : retryErrno e = true := by
  have hc := retry_errnos_are_wouldblock
  unfold retryErrno
  simp only [Bool.or_eq_true, beq_iff_eq] at h
  rcases h with h | h <;> subst h
  · rw [hc.1]; rfl
  · rw [hc.2.1]; rfl

/-- the clause at full strength for a stream class: under any script of transient events with enough data
events, `read(n)` returns the next `n` bytes -/
def C05_transients_statement (retry : Bool) : Prop :=
  ∀ (maxChunk n : Nat) (wire : Bytes) (script : List RecvEv), 1 ≤ maxChunk → script.all transient = true →
    n ≤ wire.length → n ≤ progress script →
    (readExact retry maxChunk n ⟨wire, script, false⟩).1 = .ok (wire.take n)

/-- sockets (`SocketStream.read` retries): the clause holds -/
theorem C05_transients_socket : C05_transients_statement true := by
  intro maxChunk n wire script hmax hb hw hp
  have hb' : script.all (benign true) = true := by
    rw [List.all_eq_true] at hb ⊢
    intro ev hev
    have := hb ev hev
    cases ev with
    | err e => exact by simpa [benign] using transient_is_retried e (by simpa [transient] using this)
    | _ => simp_all [benign, transient]
  exact (readExact_complete true maxChunk hmax n ⟨wire, script, false⟩ hb' rfl hw hp).1

/-- the platform's EAGAIN (`errno.EAGAIN`) -/
def eagain : Nat := Gen.eagain

/-- pipes (`PipeStream.read` has no retry): the clause FAILS by the letter — one would-block from `os.read`
and the stream is closed with `EOFError`, the packet lost although its bytes were on their way.  Reachable on a
real pipe only if O_NONBLOCK is set on the read end (by the application, or through a shared open file
description); rpyc creates its pipes blocking and never sets it (demonstration in the evidence, on a real pipe). -/
theorem C05_pipe_wouldblock_counterexample : ¬ C05_transients_statement false := by
  intro h
  have := h 1 1 [0] [.err eagain, .chunk 1] (by decide) (by decide) (by decide) (by decide)
  revert this
  decide

/-- what does hold for pipes: theorems (3) and `transfer_exact` with `retry = false`, i.e. for scripts of
data events only (a blocking pipe shows no others); and the safety theorems (4) for every script. -/
theorem C05_pipe_partial (maxChunk : Nat) (hmax : 1 ≤ maxChunk) (n : Nat) (wire : Bytes) (script : List RecvEv)
    (hb : script.all (benign false) = true) (hw : n ≤ wire.length) (hp : n ≤ progress script) :
    (readExact false maxChunk n ⟨wire, script, false⟩).1 = .ok (wire.take n) :=
  (readExact_complete false maxChunk hmax n ⟨wire, script, false⟩ hb rfl hw hp).1

/-! ### non-vacuity: concrete instances meet the hypotheses; the model computes the expected runs

The samples are phrased over the generated constants (threshold, header size, flusher, errnos), so a
harmless change of a constant does not break them. -/

/-- a toy zlib that really changes the data: prefix byte 120 and reversal -/
def toyZ : Zlib where
  compress b := 120 :: b.reverse
  decompress
    | 120 :: r => some r.reverse
    | _ => none
  round_trip b := by simp

/-- the errno the interpreter turns into `socket.timeout` -/
def etimedout : Nat := Gen.timeoutErrnos.headD eagain

/-- packets: empty, tiny, and one above the compression threshold (so it travels compressed) -/
def samplePackets : List Bytes := [[], [1, 2, 3], List.replicate (Gen.compressionThreshold + 1) 7, [255]]

/-- a sender transport accepting 1, 7 or 100000 bytes per call -/
def sampleSend : List SendEv :=
  (List.replicate (Gen.compressionThreshold + 100) [SendEv.accept 1, .accept 7, .accept 100000]).flatten

/-- a receiver transport dribbling 1, 3 or 70000 bytes with timeouts and EAGAIN in between -/
def sampleRecv : List RecvEv :=
  (List.replicate (Gen.compressionThreshold + 100)
    [RecvEv.timeout, .chunk 1, .err eagain, .chunk 3, .chunk 70000, .err etimedout]).flatten

/-- every sample packet fits the header's length field -/
def SamplesFit : Prop := ∀ p ∈ samplePackets, Fits toyZ.toZlibFns true p

example : SamplesFit := by
  intro p hp
  simp only [samplePackets, List.mem_cons, List.not_mem_nil, or_false] at hp
  rcases hp with rfl | rfl | rfl | rfl <;> unfold Fits <;> decide +kernel

example : useCompression true (List.replicate (Gen.compressionThreshold + 1) 7) = true := by decide +kernel
example : sampleSend.all accepting = true ∧ (wireOf toyZ.toZlibFns true samplePackets).length ≤ sampleSend.length := by
  decide +kernel
example : sampleRecv.all (benign true) = true
    ∧ (wireOf toyZ.toZlibFns true samplePackets).length ≤ progress sampleRecv := by
  decide +kernel

/-- the end-to-end theorem applies to the samples: the packets arrive -/
example : (recvMany toyZ.toZlibFns true Gen.socketMaxIoChunk samplePackets.length
    ⟨(sendMany toyZ.toZlibFns true Gen.socketMaxIoChunk samplePackets ⟨[], sampleSend, false⟩).2.2.sent,
     sampleRecv, false⟩).1 = samplePackets := by
  have hf : SamplesFit := by
    intro p hp
    simp only [samplePackets, List.mem_cons, List.not_mem_nil, or_false] at hp
    rcases hp with rfl | rfl | rfl | rfl <;> unfold Fits <;> decide +kernel
  exact (transfer_exact toyZ true true Gen.socketMaxIoChunk Gen.socketMaxIoChunk hdr_le_chunk.1 chunk_pos.1
    chunk_pos.1 samplePackets sampleSend sampleRecv hf (by decide +kernel) (by decide +kernel)
    (by decide +kernel) (by decide +kernel)).2.2.1

/-- two small packets; the peer resets one byte into the second frame: the first packet is delivered,
then `EOFError`, stream closed — nothing of the second packet is -/
example : recvMany toyZ.toZlibFns true 64000 3
    ⟨wireOf toyZ.toZlibFns false [[1, 2], [3, 4, 5]],
     [.chunk (Gen.frameHeaderSize - 1), .timeout, .chunk 100, .chunk 100, .chunk 1, .err 104, .chunk 100], false⟩
    = ([[1, 2]], .err .eofError, ⟨(frameBytes toyZ.toZlibFns false [3, 4, 5]).drop 1, [.chunk 100], true⟩) := by
  decide +kernel

/-- the same stream cut off one byte into the second frame by the *sender's* death, the receiver's
transport healthy: again one packet, then `EOFError` + closed (end of stream) -/
example : (recvMany toyZ.toZlibFns false 64000 3
    ⟨(wireOf toyZ.toZlibFns false [[1, 2], [3, 4, 5]]).take ((frameBytes toyZ.toZlibFns false [1, 2]).length + 1),
     List.replicate 20 (.chunk 4), false⟩).1 = [[1, 2]]
    ∧ (recvMany toyZ.toZlibFns false 64000 3
    ⟨(wireOf toyZ.toZlibFns false [[1, 2], [3, 4, 5]]).take ((frameBytes toyZ.toZlibFns false [1, 2]).length + 1),
     List.replicate 20 (.chunk 4), false⟩).2.1 = .err .eofError := by decide +kernel

/-- a pipe (`retry = false`) treats a would-block as fatal; a socket retries -/
example : (readExact false 64000 2 ⟨[1, 2, 3], [.err eagain, .chunk 5], false⟩).1 = .eof
    ∧ (readExact true 64000 2 ⟨[1, 2, 3], [.err eagain, .chunk 5], false⟩).1 = .ok [1, 2] := by decide +kernel

/-- the writer: a partial send then a timeout — 3 of 5 bytes accepted, `EOFError`, closed -/
example : writeAll 64000 [1, 2, 3, 4, 5] ⟨[], [.accept 3, .timeout, .accept 9], false⟩
    = (.eof, ⟨[[1, 2, 3]], [.accept 9], true⟩) := by decide +kernel

/-- the excluded case has teeth: a pipe pair whose `incoming.close()` raises.  A send fails half-way
(3 bytes accepted, then EPIPE); `close()` raises, so the caller sees `OSError` and the stream stays open
with a usable write end; the next `send` returns — and the transport now holds a partial frame followed by
a whole one, which no receiver can parse.  (Outside the claim: ASSUMPTIONS, descriptor's own close() failing.) -/
def brokenClosePipe : DState :=
  ⟨⟨[], [], false⟩, ⟨[], [.accept 3, .err 32, .accept 100], false⟩, true, .first, false, false, []⟩

example : (dSend toyZ.toZlibFns false 64000 [1, 2] brokenClosePipe).1 = .oserr
    ∧ (dSend toyZ.toZlibFns false 64000 [1, 2] brokenClosePipe).2.r.closed = false
    ∧ (dSend toyZ.toZlibFns false 64000 [7] (dSend toyZ.toZlibFns false 64000 [1, 2] brokenClosePipe).2).1 = .ok ()
    ∧ (dSend toyZ.toZlibFns false 64000 [7] (dSend toyZ.toZlibFns false 64000 [1, 2] brokenClosePipe).2).2.w.sent
        = (frameBytes toyZ.toZlibFns false [1, 2]).take 3 ++ frameBytes toyZ.toZlibFns false [7] := by
  decide +kernel

def writeLens : Except Err (List Bytes) → Option (List Nat)
  | .ok ws => some (ws.map List.length)
  | .error _ => none

/-- the one-write / three-write boundary, at a `MAX_IO_CHUNK` that holds header + 10 bytes + flusher -/
example :
    writeLens (sendWrites toyZ.toZlibFns false (Gen.frameHeaderSize + 10 + Gen.flusher.length) (List.replicate 10 0))
      = some [Gen.frameHeaderSize + 10 + Gen.flusher.length]
    ∧ writeLens (sendWrites toyZ.toZlibFns false (Gen.frameHeaderSize + 10 + Gen.flusher.length) (List.replicate 11 0))
      = some [Gen.frameHeaderSize + 11, 0, Gen.flusher.length]
    ∧ writeLens (sendWrites toyZ.toZlibFns false (Gen.frameHeaderSize + 10 + Gen.flusher.length)
        (List.replicate (10 + Gen.flusher.length + 1) 0))
      = some [Gen.frameHeaderSize + 10 + Gen.flusher.length, 1, Gen.flusher.length] := by
  decide +kernel

end Rpyc.Props.C05
