import RpycModel.Srv.ServerContain
/-
C17 — closing a server ends all its clients; departed clients leave nothing behind.
Only property theorems and their non-vacuity examples live here (namespace Rpyc.Props.C17); the automaton is
RpycModel/Srv/Server.lean, the invariant `GOk` and its preservation are in RpycModel/Srv/ServerLemmas.lean.

Quantifier: every sequence (no bound on length or on the number of clients) of connect (with good or failing
credentials, or reset by the client right after the handshake) / call / graceful close / abrupt close / server close, for the threaded, pool, one-shot and forking
automata, with or without an authenticator, any pool size ≥ 1.  TCP vs. unix sockets is not a distinction of
the model (it is one of the correspondence).

On the pinned code the statement is FALSE for the forking server (`ForkingServer.close()` closes the listener
only: the children go on serving, no client sees end-of-stream, no hook runs): `C17_statement` stays visible,
`C17_forking_counterexample` refutes it with a concrete witness, `C17_partial` proves everything else.
-/
namespace Rpyc.Props.C17
open Rpyc Rpyc.Srv

/-! ### the four statements -/

/-- (1) after `close()` the listener is closed and every client that ever connected is terminated -/
def CloseTerminates (cfg : Cfg) : Prop :=
  ∀ s, Reach cfg s → ∃ s', step s .serverClose = .ok (s', .none) ∧ s'.listening = false ∧ s'.closedFlag = true ∧
    ∀ k, (s'.cli k).phase ≠ .absent → Terminated (s'.cli k)

/-- (2) closing twice is harmless: `close()` on a closed server changes nothing -/
def CloseIdempotent (cfg : Cfg) : Prop :=
  ∀ s, Reach cfg s → s.closedFlag = true → step s .serverClose = .ok (s, .none)

/-- (3) while the server runs, a client that has left (gracefully or abruptly, or rejected by the authenticator) is
mentioned by no table, descriptor, queue or registration of the server -/
def NoResidue (cfg : Cfg) : Prop :=
  ∀ s, Reach cfg s → s.closedFlag = false →
    ∀ k, (s.cli k).phase ≠ .absent → (s.cli k).clientOpen = false → Clean s k

/-- (4) a one-shot server takes exactly one connection from its listener, gives a service instance to at most that
one, and once it is finished with it the server is closed -/
def OneShotExactlyOne (cfg : Cfg) : Prop :=
  cfg.kind = .oneshot → ∀ s, Reach cfg s →
    s.accepted ≤ 1 ∧
    (∀ i j, (s.cli i).inst ≠ none → (s.cli j).inst ≠ none → i = j) ∧
    (∀ k, (s.cli k).phase = .done → s.closedFlag = true ∧ s.listening = false) ∧
    (s.closedFlag = false → s.accepted = 0 ∨ ∃ k, s.acceptBusy = some k ∧ (s.cli k).phase = .idle)

/-- the property at full strength: all four, for every server kind -/
def C17_statement : Prop :=
  ∀ cfg, Wf cfg → CloseTerminates cfg ∧ CloseIdempotent cfg ∧ NoResidue cfg ∧ OneShotExactlyOne cfg

/-! ### proofs -/

/-- **close_terminates_clients** (threaded, pool, one-shot): for every op sequence of the statement's alphabet (`Op.c17`:
in it no pool worker is ever blocked and no hook blocks - for states with workers blocked in reads see
`pool_close_ends_blocked_clients`, for blocking hooks `close_passes_client_inside_disconnect_hook` and `closeWaits`),
`close()` returns, the listener is closed, and every client that ever connected — served, waiting in the listen queue,
or already gone — is terminated: end-of-stream for the client, descriptor released, untracked, hook run once -/
theorem close_terminates_clients (cfg : Cfg) (hw : Wf cfg) (hk : cfg.kind ≠ .forking) : CloseTerminates cfg := by
  intro s hr
  obtain ⟨s', hs'⟩ := close_succeeds hw hr
  have hcl := (closedFlag_after_close hs').1
  have hr' : Reach cfg s' := by
    obtain ⟨ops, hops, rfl⟩ := hr
    refine ⟨ops ++ [.serverClose], ?_, ?_⟩
    · intro op hop; simp at hop; rcases hop with h | h
      · exact hops op h
      · subst h; rfl
    · have : ∀ (l : List Op) (t : St), run t (l ++ [.serverClose]) = (match step (run t l) .serverClose with
          | .ok (t', _) => t' | .error _ => run t l) := by
        intro l; induction l with
        | nil => intro t; simp only [List.nil_append, run]; cases step t .serverClose <;> rfl
        | cons a l ih => intro t; simp only [List.cons_append, run]; cases step t a <;> simp [ih]
      rw [this, hs']
  have hg := hr'.ok hw
  refine ⟨s', hs', (hg.closed hcl).1, hcl, ?_⟩
  intro k hk'
  have hc := hg.cli k
  rw [hr'.cfg, hcl] at hc
  rcases hc.phases with hp | hp | hp | hp
  · exact absurd hp hk'
  · exact absurd (hc.backlog hp).2.2 (by simp)
  · exact absurd ((hc.idle hp).2.2.2.2.2.2.2.2.2.2.2.2 rfl) hk
  · obtain ⟨g1, g2, g3, g4, g5, g6, _, _, g9, g10⟩ := hc.done hp
    exact ⟨g1, g2, g3, g4, g5, g6, g9, g10⟩

/-- **close_idempotent**: a second `close()` returns and changes nothing (all kinds) -/
theorem close_idempotent (cfg : Cfg) (hw : Wf cfg) : CloseIdempotent cfg := by
  intro s hr hcl
  have hg := hr.ok hw
  simp only [step]
  split
  · rename_i hk
    have hb : s.blocked = [] := hg.b
    have hpu : s.poolUp = false := (hg.closed hcl).2.2.2.2
    have hcli : (s.mapCli dropEffect).cli = s.cli := by
      funext j; simpa using dropEffect_closed s.cfg (s.cli j) hk (by simpa [hcl] using hg.cli j)
    have hw' : closeWaits s = false := hg.closeWaits_false
    have : poolClose s = some s := by
      simp only [poolClose, hw', baseClose, hcl, if_true]
      simp
      cases s; simp_all [St.mapCli]
    simp [this]
  · simp [baseClose, hcl]

/-- **no_residue**: after any sequence of clients connecting and leaving, nothing of a running server mentions a
client that has left (all kinds) -/
theorem no_residue (cfg : Cfg) (hw : Wf cfg) : NoResidue cfg := by
  intro s hr hcl k hk hco
  have hg := hr.ok hw
  have hc := hg.cli k
  have hq : k ∉ s.queue := by simp [hg.q]
  have hb : k ∉ s.blocked := by simp [hg.b]
  rcases hc.phases with hp | hp | hp | hp
  · exact absurd hp hk
  · obtain ⟨f1, f2, f3, f4, f5, f6, _⟩ := (hc.backlog hp).1
    exact ⟨f1, f2, f3, f4, f5, f6, hq, hb⟩
  · have := (hc.idle hp).2.2.2.2.2.2.1
    simp [hco] at this
  · obtain ⟨g1, g2, g3, g4, g5, g6, _, g8, _⟩ := hc.done hp
    have hpol : (s.cli k).polled = false := by
      cases hpl : (s.cli k).polled with
      | false => rfl
      | true => have := g8 hpl; simp [hcl] at this
    exact ⟨g4, g5, hpol, g2, g3, g6, hq, hb⟩

/-- **oneshot_exactly_one** -/
theorem oneshot_exactly_one (cfg : Cfg) (hw : Wf cfg) : OneShotExactlyOne cfg := by
  intro hk s hr
  have hg := hr.ok hw
  have hk' : s.cfg.kind = .oneshot := by rw [hr.cfg]; exact hk
  refine ⟨(hg.oacc hk').1, hg.ouniq hk', ?_, ?_⟩
  · intro k hd
    have hcl := hg.odone hk' k hd
    exact ⟨hcl, (hg.closed hcl).1⟩
  · intro hcl
    cases hb : s.acceptBusy with
    | none => exact Or.inl ((hg.oacc hk').2 hcl hb)
    | some b => exact Or.inr ⟨b, rfl, (hg.busy b hb).2⟩

/-- everything the property says, except termination of the clients of a closed *forking* server -/
theorem C17_partial (cfg : Cfg) (hw : Wf cfg) :
    (cfg.kind ≠ .forking → CloseTerminates cfg) ∧ CloseIdempotent cfg ∧ NoResidue cfg ∧ OneShotExactlyOne cfg :=
  ⟨close_terminates_clients cfg hw, close_idempotent cfg hw, no_residue cfg hw, oneshot_exactly_one cfg hw⟩

/-- what does hold for a forking server: `close()` returns, stops the listener, is idempotent, and the parent holds
no descriptor of any client (it closed its copy right after the fork) -/
theorem forking_close_listener (cfg : Cfg) (hw : Wf cfg) (hk : cfg.kind = .forking) :
    ∀ s, Reach cfg s → ∃ s', step s .serverClose = .ok (s', .none) ∧ s'.listening = false ∧
      ∀ k, (s'.cli k).srvFd = false ∧ (s'.cli k).tracked = false := by
  intro s hr
  obtain ⟨s', hs'⟩ := close_succeeds hw hr
  have hcl := (closedFlag_after_close hs').1
  have hg : GOk s' := by
    have hk' : s.cfg.kind ≠ .pool := by rw [hr.cfg, hk]; simp
    simp only [step, hk', if_false, Except.ok.injEq, Prod.mk.injEq] at hs'
    rw [← hs'.1]; exact (hr.ok hw).baseClose_nonpool hk'
  have hcfg : s'.cfg = cfg := by rw [step_cfg _ hs', hr.cfg]
  refine ⟨s', hs', (hg.closed hcl).1, ?_⟩
  intro k
  have hc := hg.cli k
  rw [hcfg] at hc
  rcases hc.phases with hp | hp | hp | hp
  · have hf : Free (s'.cli k) := by simpa [Shape, hp] using hc.2.2
    exact ⟨hf.2.2.2.1, hf.1⟩
  · exact absurd (hc.backlog hp).2.1 (by simp [hk])
  · have hs := hc.idle hp
    exact ⟨by simpa [hk] using hs.2.2.2.2.2.2.2.2.1, by simpa [hk] using hs.2.2.2.2.2.2.2.1⟩
  · exact ⟨(hc.done hp).2.1, (hc.done hp).2.2.2.1⟩

/-- **close while a client is inside the authenticator** (slow credentials: `connect k .silent`, later `creds k c`).
`Server.accept` puts the socket into `clients` BEFORE the authenticator runs, so `close()` reaches it: in any state, a
tracked client whose authentication is in progress is terminated by the close (end-of-stream, released, untracked, never
given a service instance), and credentials that arrive afterwards are read by nobody: it is not served.  (Threaded and
one-shot servers; the extended alphabet is run against the real servers by the correspondence, all four kinds.) -/
theorem close_reaches_authenticating_client (s : St) (k : Nat) (hk : s.cfg.kind ≠ .pool) (hcl : s.closedFlag = false)
    (ha : (s.cli k).phase = .authing) (ht : (s.cli k).tracked = true) (c : Cred) :
    ∃ s', step s .serverClose = .ok (s', .none) ∧ s'.listening = false ∧
      (s'.cli k).shut = true ∧ (s'.cli k).phase = .done ∧ (s'.cli k).tracked = false ∧ (s'.cli k).srvFd = false ∧
      (s'.cli k).inst = (s.cli k).inst ∧
      (supply s' k c).cli k = { s'.cli k with cred := c } := by
  refine ⟨baseClose s, by simp [step, hk], ?_, ?_, ?_, ?_, ?_, ?_, ?_⟩ <;>
    simp [baseClose, hcl, closeEffect, ht, shutOne, ha, release, supply]

/-- **a client that resets or vanishes while inside the authenticator** (connected with slow credentials, then gone):
the authenticator's read fails, the exception leaves through the `finally` of `_authenticate_and_serve_client`, which
shuts the socket down and untracks it: nothing of the server mentions the client afterwards (any state; threaded and
forking servers, where the authenticator runs in the client's own thread / child) -/
theorem gone_inside_authenticator_leaves_nothing (s : St) (k : Nat)
    (hk : s.cfg.kind = .threaded ∨ s.cfg.kind = .forking) (ha : (s.cli k).phase = .authing)
    (hs : (s.cli k).shut = false) (ho : (s.cli k).clientOpen = true) :
    ∃ s', step s (.abruptClose k) = .ok (s', .none) ∧ (s'.cli k).tracked = false ∧ (s'.cli k).srvFd = false ∧
      (s'.cli k).child = false ∧ (s'.cli k).shut = true ∧ (s'.cli k).phase = .done ∧ (s'.cli k).inst = (s.cli k).inst := by
  refine ⟨_, by simp [step, ha, ho]; rfl, ?_, ?_, ?_, ?_, ?_, ?_⟩ <;>
    rcases hk with hk | hk <;> simp [send, hs, wake, ha, hk, afterEnd, release]

/-- **close while the thread of a departed client is still inside its service's `on_disconnect`** (a hook that blocks:
`call k .arm`, the client leaves, later `releaseHook k`): the connection is closed - its socket object closed, and still a
member of `clients`, until that thread's `finally` runs.  `Server.close()` must not be stopped by such a socket: in any
state of a threaded / one-shot / forking server it returns, the listener is closed, nothing stays tracked, and every
tracked client that was being served or authenticated is given end-of-stream and its descriptor released; the client
inside the hook stays as it is (its hook has already been entered exactly once) and is finished by `releaseHook` -/
theorem close_passes_client_inside_disconnect_hook (s : St) (k : Nat) (hk : s.cfg.kind ≠ .pool)
    (hcl : s.closedFlag = false) (hp : (s.cli k).phase = .closing) :
    ∃ s', step s .serverClose = .ok (s', .none) ∧ s'.listening = false ∧ (∀ j, (s'.cli j).tracked = false) ∧
      (∀ j, (s.cli j).tracked = true →
        (s.cli j).phase = .idle ∨ (s.cli j).phase = .blocked ∨ (s.cli j).phase = .authing →
        (s'.cli j).shut = true ∧ (s'.cli j).srvFd = false) ∧
      (s'.cli k).phase = .closing ∧ (s'.cli k).discHooks = (s.cli k).discHooks ∧
      ∃ s'', step s' (.releaseHook k) = .ok (s'', .none) ∧ (s''.cli k).phase = .done ∧ (s''.cli k).tracked = false ∧
        (s''.cli k).child = false := by
  refine ⟨baseClose s, by simp [step, hk], by simp [baseClose, hcl], ?_, ?_, ?_, ?_, ?_⟩
  · intro j
    simp only [baseClose, hcl, Bool.false_eq_true, if_false, St.mapCli, closeEffect]
    split
    · rfl
    · rename_i h; split <;> simpa using h
  · intro j ht hph
    simp only [baseClose, hcl, Bool.false_eq_true, if_false, St.mapCli, closeEffect, ht, if_true, shutOne]
    rcases hph with h | h | h <;> rw [h] <;>
      simp [endServeD, endServe, release, closeConn] <;> split <;> simp <;> split <;> simp
  · simp [baseClose, hcl, St.mapCli, closeEffect, shutOne, hp]; split <;> first | rfl | exact hp
  · simp [baseClose, hcl, St.mapCli, closeEffect, shutOne, hp]; split <;> rfl
  · have hp' : ((baseClose s).cli k).phase = .closing := by
      simp [baseClose, hcl, St.mapCli, closeEffect, shutOne, hp]; split <;> first | rfl | exact hp
    refine ⟨dedRelease (baseClose s) k, by simp [step, hp', hk], ?_, ?_, ?_⟩ <;>
      (unfold dedRelease afterEnd; split <;> simp [baseClose, hcl])

/-- **a client for which no thread / child process could be started** (`spawn()` / `os.fork()` failed: threaded and
forking servers): in any state, if it is accepted at all it is terminated at once - end-of-stream, no descriptor, not
tracked, no child, no connection, no service instance, no hook ever run - and every other record, the queue and the
blocked list are exactly as before: nothing of it remains -/
theorem failed_spawn_leaves_nothing (s t : St) (k : Nat) (h : step s (.connectNoSpawn k) = .ok (t, .ok)) :
    Terminated (t.cli k) ∧ (t.cli k).inst = none ∧ (t.cli k).polled = false ∧
    (∀ j, j ≠ k → t.cli j = s.cli j) ∧ t.queue = s.queue ∧ t.blocked = s.blocked ∧ t.listening = s.listening := by
  rcases step_connectNoSpawn h with ⟨_, ho⟩ | ⟨rfl, _⟩
  · cases ho
  · refine ⟨?_, by simp [rejectNew, turnedAway], by simp [rejectNew, turnedAway], ?_, rfl, rfl, rfl⟩
    · refine ⟨?_, ?_, ?_, ?_, ?_, ?_, ?_, ?_⟩ <;> simp [rejectNew, turnedAway]
    · intro j hj; simp [rejectNew, set_cli_ne _ _ _ _ hj]

/-- ... e.g. on a forking server with a client being served: the unlucky client 2 sees end-of-stream, client 1 goes on
being served, client 3 is served -/
example : runObs (init { kind := .forking, auth := false, nb := 1 })
      [.connect 1 .good, .call 1 .ping, .connectNoSpawn 2, .call 1 .ping, .connect 3 .good, .call 3 .ping] =
    [some .ok, some (.reply .pong), some .ok, some (.reply .pong), some .ok, some (.reply .pong)] ∧
    ((run (init { kind := .forking, auth := false, nb := 1 }) [.connect 1 .good, .connectNoSpawn 2]).cli 2).shut = true ∧
    ((run (init { kind := .forking, auth := false, nb := 1 }) [.connect 1 .good, .connectNoSpawn 2]).cli 2).child = false :=
  by decide

/-! ### closing a pool whose workers are busy reading -/

/-- the obligation: the code's `ThreadPoolServer.close()` ends the connections' streams BEFORE it joins the workers -
measured on the live `close()` on every run (stand-in threads and connection recording the order of events); false on a
tree that joins first: there `close()` never returns while one client holds an incomplete frame open -/
theorem pool_close_unblocks_workers : Gen.Srv.poolCloseUnblocksWorkers = true := by decide

/-- **closing a pool with workers blocked in reads** (clients holding incomplete frames open - any number of them, any
state of the queue; the C17 run-level theorems have no such clients in their alphabet): unless application code holds it
up (`hookHolds`: a blocking `on_disconnect`), `close()` returns, the listener is closed, no worker is left blocked, and
every client the pool had in `fd_to_conn` - the ones workers were blocked on included - is given end-of-stream, its
connection closed, its descriptor released, its entry removed -/
theorem pool_close_ends_blocked_clients (s : St) (hk : s.cfg.kind = .pool) (hcl : s.closedFlag = false)
    (hu : s.cfg.closeUnblocks = true) (hh : ∀ k ∈ s.ids, hookHolds (s.cli k) = false) :
    ∃ s', step s .serverClose = .ok (s', .none) ∧ s'.listening = false ∧ s'.closedFlag = true ∧ s'.blocked = [] ∧
      s'.poolUp = false ∧
      ∀ k, (s.cli k).inFd = true →
        (s'.cli k).shut = true ∧ (s'.cli k).inFd = false ∧ (s'.cli k).connOpen = false ∧ (s'.cli k).phase = .done ∧
        (s'.cli k).srvFd = false ∧ (s'.cli k).tracked = false := by
  have hw : closeWaits s = false := by
    have : s.ids.any (fun k => hookHolds (s.cli k)) = false := by
      rw [List.any_eq_false]; intro k hk'; simpa using hh k hk'
    simp [closeWaits, this, hu]
  refine ⟨{ ((baseClose s).mapCli dropEffect) with poolUp := false, blocked := [] }, by simp [step, hk, poolClose, hw],
    by simp [baseClose, hcl, St.mapCli], by simp [baseClose, hcl, St.mapCli], rfl, rfl, ?_⟩
  intro k hin
  have hc : (closeEffect (s.cli k)).inFd = true := by
    unfold closeEffect shutOne endServeD endServe release closeConn
    repeat' split
    all_goals simp_all
  simp only [baseClose, hcl, Bool.false_eq_true, if_false, St.mapCli, dropEffect, hc, if_true]
  refine ⟨?_, ?_, ?_, ?_, ?_, ?_⟩
  · simp [endServe, release]
  · trivial
  · simp only [endServe, release, closeConn]; split <;> simp_all
  · simp [endServe, release]
  · simp [endServe, release]
  · have ht : (closeEffect (s.cli k)).tracked = false := by
      unfold closeEffect
      split
      · rfl
      · rename_i h; split <;> simpa using h
    simp only [endServe, release, closeConn]; split <;> simp_all

/-- ... for the code as it is: the hypothesis `closeUnblocks = true` is the measured obligation -/
theorem code_pool_close_ends_blocked_clients (s : St) (hk : s.cfg.kind = .pool) (hcl : s.closedFlag = false)
    (hc : s.cfg.closeUnblocks = Gen.Srv.poolCloseUnblocksWorkers) (hh : ∀ k ∈ s.ids, hookHolds (s.cli k) = false) :
    ∃ s', step s .serverClose = .ok (s', .none) ∧ s'.listening = false ∧ s'.blocked = [] ∧
      ∀ k, (s.cli k).inFd = true → (s'.cli k).shut = true ∧ (s'.cli k).connOpen = false ∧ (s'.cli k).inFd = false := by
  obtain ⟨s', h1, h2, _, h4, _, h6⟩ :=
    pool_close_ends_blocked_clients s hk hcl (hc.trans pool_close_unblocks_workers) hh
  exact ⟨s', h1, h2, h4, fun k hk' => ⟨(h6 k hk').1, (h6 k hk').2.2.1, (h6 k hk').2.1⟩⟩

/-- the witness `connect 1; call 1; connect 2; raw 2 [incomplete frame]; serverClose` on a pool of two workers.  With the
code that joins its workers first (`closeUnblocks := false`) `close()` does not return (and, not modelled further: the
listener is closed, nobody has seen end-of-stream, no hook has run); with the repaired order it returns and both
clients - the idle one and the one a worker was blocked on - are terminated, each disconnect hook run once -/
def hangOps : List Op := [.connect 1 .good, .call 1 .ping, .connect 2 .good, .raw 2 [.part]]

theorem C17_pool_close_hang_counterexample :
    (run (init { kind := .pool, auth := false, nb := 2, closeUnblocks := false }) hangOps).blocked = [2] ∧
    (poolClose (run (init { kind := .pool, auth := false, nb := 2, closeUnblocks := false }) hangOps)).isNone = true ∧
    (poolClose (run (init { kind := .pool, auth := false, nb := 2 }) hangOps)).isSome = true ∧
    (run (init { kind := .pool, auth := false, nb := 2 }) (hangOps ++ [.serverClose])).closedFlag = true ∧
    ((run (init { kind := .pool, auth := false, nb := 2 }) (hangOps ++ [.serverClose])).cli 1).shut = true ∧
    ((run (init { kind := .pool, auth := false, nb := 2 }) (hangOps ++ [.serverClose])).cli 2).shut = true ∧
    ((run (init { kind := .pool, auth := false, nb := 2 }) (hangOps ++ [.serverClose])).cli 1).discHooks = 1 ∧
    ((run (init { kind := .pool, auth := false, nb := 2 }) (hangOps ++ [.serverClose])).cli 2).discHooks = 1 ∧
    ((run (init { kind := .pool, auth := false, nb := 2 }) (hangOps ++ [.serverClose])).cli 2).inFd = false ∧
    (run (init { kind := .pool, auth := false, nb := 2 }) (hangOps ++ [.serverClose])).blocked = [] := by decide

/-- the hypotheses of `pool_close_ends_blocked_clients` are met by that state (a worker blocked, nothing holding) -/
example : (∀ k ∈ (run (init { kind := .pool, auth := false, nb := 2 }) hangOps).ids,
      hookHolds ((run (init { kind := .pool, auth := false, nb := 2 }) hangOps).cli k) = false) ∧
    (run (init { kind := .pool, auth := false, nb := 2 }) hangOps).blocked ≠ [] ∧
    ((run (init { kind := .pool, auth := false, nb := 2 }) hangOps).cli 2).inFd = true := by decide

/-- application code does hold `close()` up, with either order: a worker inside a blocking `on_disconnect` is joined -/
example : (poolClose (run (init { kind := .pool, auth := false, nb := 2 })
      [.connect 1 .good, .call 1 .arm, .abruptClose 1])).isNone = true := by decide

/-! ### the pool's table is keyed by descriptor NUMBER: a departed client removes only its own entry -/

/-- the obligation: the code's end-of-stream path (`_serve_requests` → `_drop_connection`) removes only the connection it was
serving — measured on the live code on every run; false on a tree whose `_drop_connection(fd)` pops whatever is stored
under that number by then -/
theorem pool_drop_spares_newcomer : Gen.Srv.poolDropSparesNewcomer = true := by decide

/-- a worker comes back from a departed client's blocking `on_disconnect` (the connection was closed, and its descriptor
number free, all the while): that client is finished with and its entry gone, and no other client's record changes —
whoever connected meanwhile and whichever number it was given -/
theorem departed_removes_only_its_own_entry (s t : St) (o : Obs) (k : Nat) (hk : s.cfg.kind = .pool)
    (hs : s.cfg.spare = true) (hst : step s (.releaseHook k) = .ok (t, o)) :
    (∀ g, g ≠ k → (s.cli g).phase ≠ .backlog → g ∉ s.queue → Same (s.cli g) (t.cli g)) := by
  intro g hg hb hq
  exact others_untouched_pool hk hs (.releaseHook k) rfl g (by simp [Op.client, Ne.symm hg]) hb hq
    (by intro _ _ h; cases h) hst

/-- with the pinned `_drop_connection(fd)`: client 1 leaves, client 3 is given its descriptor number while client 1's
`on_disconnect` is still running; when it returns the server removes and closes client 3's connection -/
theorem pool_fd_reuse_counterexample :
    let ops : List Op := [.connect 1 .good, .call 1 .arm, .abruptClose 1, .connectReuse 3 1, .releaseHook 1]
    ((run (init { kind := .pool, auth := false, nb := 2, spare := false }) ops).cli 3).inFd = false ∧
    ((run (init { kind := .pool, auth := false, nb := 2, spare := false }) ops).cli 3).shut = true ∧
    ((run (init { kind := .pool, auth := false, nb := 2, spare := true }) ops).cli 3).inFd = true ∧
    ((run (init { kind := .pool, auth := false, nb := 2, spare := true }) ops).cli 3).shut = false := by decide

/-! ### the forking server: the statement fails (finding `C17:forking:close-leaves-children-serving`) -/

def witnessCfg : Cfg := { kind := .forking, auth := false, nb := 1 }
/-- connect 1; call 1 -/
def witnessOps : List Op := [.connect 1 .good, .call 1 .ping]

/-- the witness as a run: after `serverClose` the listener is closed, but client 1 has not been given end-of-stream, its
child process is alive, its disconnect hook has not run — and its next call is still answered -/
theorem C17_forking_witness :
    let s := run (init witnessCfg) (witnessOps ++ [.serverClose])
    s.listening = false ∧ s.closedFlag = true ∧ (s.cli 1).shut = false ∧ (s.cli 1).child = true ∧
    (s.cli 1).discHooks = 0 ∧ (s.cli 1).connOpen = true ∧
    runObs (init witnessCfg) (witnessOps ++ [.serverClose, .call 1 .ping]) =
      [some .ok, some (.reply .pong), some .none, some (.reply .pong)] := by
  decide

/-- **C17_forking_counterexample**: the full statement is false on the pinned code -/
theorem C17_forking_counterexample : ¬ C17_statement := by
  intro h
  obtain ⟨s', hs', _, _, ht⟩ :=
    (h witnessCfg (by intro h; cases h)).1 (run (init witnessCfg) witnessOps) ⟨witnessOps, by decide, rfl⟩
  have hs : s' = baseClose (run (init witnessCfg) witnessOps) := by
    have : (run (init witnessCfg) witnessOps).cfg.kind ≠ .pool := by decide
    simp only [step, this, if_false, Except.ok.injEq, Prod.mk.injEq] at hs'
    exact hs'.1.symm
  subst hs
  have h1 := (ht 1 (by decide)).1
  revert h1
  decide

/-! ### non-vacuity: concrete sequences of the alphabet reach non-trivial states that meet the hypotheses -/

/-- three clients on a pool of two workers behind an authenticator: one served and still connected, one that left
abruptly, one rejected; then close, twice -/
def sample : List Op :=
  [.connect 1 .good, .call 1 .ping, .connect 2 .good, .call 2 .lend, .connect 3 .bad, .abruptClose 2, .call 1 .ping,
   .serverClose, .serverClose, .call 1 .ping]

def sampleCfg : Cfg := { kind := .pool, auth := true, nb := 2 }

example : Wf sampleCfg ∧ (∀ op ∈ sample, op.c17 = true) := ⟨fun _ => by decide, by decide⟩
example : Reach sampleCfg (run (init sampleCfg) sample) := ⟨sample, by decide, rfl⟩
/-- what the clients saw: served, served, served, lent an object, rejected (the connect itself succeeds), -, served,
-, -, end-of-stream -/
example : runObs (init sampleCfg) sample =
    [some .ok, some (.reply .pong), some .ok, some (.reply (.ref 0)), some .ok, some .none, some (.reply .pong),
     some .none, some .none, some .eof] := by decide
/-- before the close client 1 is in `fd_to_conn` and registered, client 2 (left) and 3 (rejected) are nowhere -/
example : ((run (init sampleCfg) (sample.take 7)).cli 1).inFd = true ∧
    ((run (init sampleCfg) (sample.take 7)).cli 1).polled = true ∧
    Clean (run (init sampleCfg) (sample.take 7)) 2 ∧ Clean (run (init sampleCfg) (sample.take 7)) 3 ∧
    ((run (init sampleCfg) (sample.take 7)).cli 2).discHooks = 1 := by
  refine ⟨by decide, by decide, ?_, ?_, by decide⟩ <;> exact ⟨by decide, by decide, by decide, by decide, by decide, by decide, by decide, by decide⟩
/-- after it, client 1 is terminated with its hook run once -/
example : Terminated ((run (init sampleCfg) sample).cli 1) ∧ ((run (init sampleCfg) sample).cli 1).discHooks = 1 := by
  exact ⟨⟨by decide, by decide, by decide, by decide, by decide, by decide, by decide, by decide⟩, by decide⟩

def oneShotSample : List Op := [.connect 1 .good, .connect 2 .good, .call 2 .ping, .gracefulClose 1]
/-- slow credentials on a threaded server behind an authenticator: client 2 is inside the authenticator when the server is
closed; it gets end-of-stream, its late (good) credentials do not get it served, nothing remains -/
def slowSample : List Op := [.connect 1 .good, .connect 2 .silent, .serverClose, .creds 2 .good, .call 2 .ping]
example : ((run (init { kind := .threaded, auth := true, nb := 1 }) (slowSample.take 2)).cli 2).phase = .authing ∧
    ((run (init { kind := .threaded, auth := true, nb := 1 }) (slowSample.take 2)).cli 2).tracked = true ∧
    runObs (init { kind := .threaded, auth := true, nb := 1 }) slowSample =
      [some .ok, some .ok, some .none, some .none, some .eof] ∧
    ((run (init { kind := .threaded, auth := true, nb := 1 }) slowSample).cli 2).inst = none ∧
    ((run (init { kind := .threaded, auth := true, nb := 1 }) slowSample).cli 2).tracked = false := by decide

/-- a threaded server: client 1's `on_disconnect` blocks; it leaves (its thread sits in the hook, the closed socket still in
`clients`), the server is closed with client 2 connected, then the hook returns: client 2 was given end-of-stream by the
close, both hooks ran once, nothing is tracked -/
def hookSample : List Op :=
  [.connect 1 .good, .call 1 .arm, .connect 2 .good, .abruptClose 1, .serverClose, .releaseHook 1]
example : ((run (init { kind := .threaded, auth := false, nb := 1 }) (hookSample.take 4)).cli 1).phase = .closing ∧
    ((run (init { kind := .threaded, auth := false, nb := 1 }) (hookSample.take 4)).cli 1).tracked = true ∧
    ((run (init { kind := .threaded, auth := false, nb := 1 }) (hookSample.take 4)).cli 1).srvFd = false ∧
    ((run (init { kind := .threaded, auth := false, nb := 1 }) (hookSample.take 5)).cli 2).shut = true ∧
    ((run (init { kind := .threaded, auth := false, nb := 1 }) (hookSample.take 5)).cli 1).phase = .closing ∧
    ((run (init { kind := .threaded, auth := false, nb := 1 }) hookSample).cli 1).phase = .done ∧
    ((run (init { kind := .threaded, auth := false, nb := 1 }) hookSample).cli 1).discHooks = 1 ∧
    ((run (init { kind := .threaded, auth := false, nb := 1 }) hookSample).cli 2).discHooks = 1 ∧
    ((run (init { kind := .threaded, auth := false, nb := 1 }) hookSample).cli 1).tracked = false := by decide

/-- one-shot: the second connection waits in the listen queue and is reset when the server closes itself -/
example : (run (init { kind := .oneshot, auth := false, nb := 1 }) oneShotSample).closedFlag = true ∧
    (run (init { kind := .oneshot, auth := false, nb := 1 }) oneShotSample).accepted = 1 ∧
    ((run (init { kind := .oneshot, auth := false, nb := 1 }) oneShotSample).cli 2).inst = none ∧
    ((run (init { kind := .oneshot, auth := false, nb := 1 }) oneShotSample).cli 2).shut = true := by decide

end Rpyc.Props.C17
