import RpycModel.Conc.Serve
/-
C14 — a thread waiting for a reply returns as soon as that reply has been processed, no matter which
thread happened to receive it; it does not go on waiting for further traffic or for its timeout.

The statement is FALSE of the pinned code (DESIGN.md F3): `serve()` releases the receive lock and notifies
the waiters *before* it dispatches the reply, and `AsyncResult.wait` tests readiness *outside* the receive
lock; a waiter whose readiness test precedes the publication of its result can take the receive lock and
block in `poll()` although its reply has meanwhile been dispatched by the other thread — until its own
deadline, forever if `sync_request_timeout` is None.  The model carries the defect faithfully:
`C14_statement` is the invariant, `C14_counterexample*` are explicit schedules of the executable model
(checked by `decide`), `C14_partial*` say what does hold.
-/
namespace Rpyc.Props.C14
open Rpyc.Conc.Serve

/-- **The property.** In every reachable state, a client whose reply has been processed (`ready`) is not
blocked in `poll()` or asleep on the condition.  (`blocked` in `poll` = nothing to read, deadline not reached,
stream not ended, connection not closed.) -/
def C14_statement : Prop :=
  ∀ s, Reachable s → ∀ t, inCall s t = true → (s.cells (s.loc t).seq).ready = true → blocked s t = false

private def r (t : Tid) (n : Nat) : List Actor := List.replicate n (.run t)

/-- The witness (DESIGN.md Appendix C.1): thread 2 is a background serving thread, thread 1 the caller.
The caller sends its request (`c1 c2 [c3]`); the peer answers; the background thread takes the receive lock,
receives the caller's reply, releases the lock and notifies (`b0 s0 s1 s2 s3 p0 r0 n0 n1 n2`); the caller
tests readiness (false), enters `serve`, takes the lock and polls (`w0 s0 s1 s2 s3`, now at `p0` with an
empty channel); the background thread dispatches the reply (`d0 d1 d2 d3 d4 d5`). -/
def witness (tmo : Option Nat) : List Actor :=
  [.bg 2, .call 1 tmo] ++ r 1 (if tmo.isSome then 3 else 2) ++ [.peer 0 false 7] ++ r 2 10 ++ r 1 5 ++ r 2 6

/-- the caller is blocked in `poll` with its result ready -/
def stalled (s : St) (t : Tid) : Bool :=
  inCall s t && (s.cells (s.loc t).seq).ready && blocked s t && decide ((s.loc t).pc = .p0)

theorem witness_stalls : (run init (witness (some 10))).map (stalled · 1) = some true := by decide

/-- **C14 is false of the pinned code.** -/
theorem C14_counterexample : ¬ C14_statement := by
  intro hst
  have hs := witness_stalls
  cases e : run init (witness (some 10)) with
  | none => rw [e] at hs; cases hs
  | some s =>
    rw [e] at hs
    simp only [Option.map_some, Option.some.injEq, stalled, Bool.and_eq_true, decide_eq_true_eq] at hs
    have := hst s (reachable_run .init _ e) 1 hs.1.1.1 hs.1.1.2
    rw [hs.1.2] at this
    cases this

/-- … and the caller stays blocked until its own deadline: in the witness state the only way out of `poll`
is time reaching the expiry of the request (10), although the reply was processed at time 0; no thread
step of the caller is enabled -/
theorem C14_counterexample_until_deadline :
    (run init (witness (some 10))).map (fun s => (enabled s 1, (s.loc 1).dl, s.now, s.chan.isEmpty))
      = some (false, some 10, 0, true) := by decide

/-- with `sync_request_timeout = None` the caller is blocked for ever: no deadline, nothing to read, and
time passing does not help (any number of ticks later it is still not enabled) -/
theorem C14_counterexample_forever (d : Nat) :
    (run init (witness none ++ [.tick d])).map (fun s => (stalled s 1, enabled s 1, (s.loc 1).dl))
      = some (true, false, none) := by
  have h : run init (witness none ++ [.tick d]) =
      (run init (witness none)).bind (fun s => some { s with now := s.now + d }) := by
    have : ∀ (as : List Actor) (s0 : St), run s0 (as ++ [.tick d]) = (run s0 as).bind (fun s => some { s with now := s.now + d }) := by
      intro as
      induction as with
      | nil => intro s0; simp [run, step]
      | cons a as ih =>
        intro s0
        simp only [List.cons_append, run]
        cases step s0 a with
        | none => simp
        | some s1 => simpa using ih s1
    exact this _ _
  rw [h]
  have hs : (run init (witness none)).isSome = true := by decide
  obtain ⟨s, e⟩ := Option.isSome_iff_exists.1 hs
  have f1 : (s.loc 1).pc = .p0 := by
    have : (run init (witness none)).map (fun s => (s.loc 1).pc) = some .p0 := by decide
    rw [e] at this; simpa using this
  have f2 : (s.loc 1).dl = none := by
    have : (run init (witness none)).map (fun s => (s.loc 1).dl) = some none := by decide
    rw [e] at this; simpa using this
  have f3 : s.chan = [] := by
    have : (run init (witness none)).map (fun s => s.chan.isEmpty) = some true := by decide
    rw [e] at this; simpa using this
  have f4 : (s.cells (s.loc 1).seq).ready = true := by
    have : (run init (witness none)).map (fun s => (s.cells (s.loc 1).seq).ready) = some true := by decide
    rw [e] at this; simpa using this
  have f5 : (s.loc 1).bg = false := by
    have : (run init (witness none)).map (fun s => (s.loc 1).bg) = some false := by decide
    rw [e] at this; simpa using this
  have f6 : s.eof = false := by
    have : (run init (witness none)).map (fun s => s.eof) = some false := by decide
    rw [e] at this; simpa using this
  have f7 : s.closed = false := by
    have : (run init (witness none)).map (fun s => s.closed) = some false := by decide
    rw [e] at this; simpa using this
  rw [e]
  simp [stalled, inCall, blocked, blockedInPoll, blockedOnCond, enabled, stepRun, doP0, expiredAt, f1, f2, f3, f4, f5,
    f6, f7]

/-- second shape of the same defect: the waiter tests readiness *before* the dispatch completes and takes
the receive lock only *after* it (`w0` by the caller, then the background thread's whole `serve`, then the
caller's `s0 s1 s2 s3`) -/
def witnessLate : List Actor :=
  [.bg 2, .call 1 (some 10)] ++ r 1 3 ++ [.peer 0 false 7] ++ r 2 6 ++ r 1 1 ++ r 2 10 ++ r 1 4

theorem C14_counterexample_late : (run init witnessLate).map (stalled · 1) = some true := by decide

/-- third shape: no background thread at all — another *client* receives and dispatches the reply
(thread 2 receives thread 1's reply; thread 1, woken by the notify, takes the lock before the dispatch) -/
def witnessClients : List Actor :=
  [.call 1 none, .call 2 (some 9)] ++ r 1 2 ++ r 2 3 ++ r 2 5 ++ r 1 5 ++ [.peer 0 false 7] ++ r 2 5 ++ r 1 7 ++ r 2 6

theorem C14_counterexample_clients :
    (run init witnessClients).map (fun s => (stalled s 1, s.popper 0, (s.loc 1).dl)) = some (true, some 2, none) := by
  decide

/-- **Partial result 1: the invariant holds whenever the receiver is the waiter itself.**  If the thread
that popped the callback (= received and dispatched the reply) is the waiting thread, it is never blocked
with its result ready: it is on its way out of `wait`. -/
theorem C14_partial_self {s : St} (h : Reachable s) (t : Tid) (hc : inCall s t = true)
    (hr : (s.cells (s.loc t).seq).ready = true) (hp : s.popper (s.loc t).seq = some t) :
    blocked s t = false := by
  have hs : (s.loc t).hasSeq = true := by
    simp only [inCall, Bool.and_eq_true, decide_eq_true_eq, Bool.not_eq_true'] at hc
    simp [Loc.hasSeq, hc.1, hc.2]
  rcases (invS_of_reachable h).self_dispatch t hs hr hp with e | e | e | e
  · simp [blocked, blockedInPoll, blockedOnCond, e]
  · simp [blocked, blockedInPoll, blockedOnCond, e]
  · simp [blocked, blockedInPoll, blockedOnCond, e]
  · -- the thread that closed the connection completed its own request and is on its way out of `serve`
    have hh := (invS_of_reachable h).raising_pc t e
    have h1 : (s.loc t).pc ≠ .p0 := by intro e'; rw [e'] at hh; cases hh
    have h2 : (s.loc t).pc ≠ .zz := by intro e'; rw [e'] at hh; cases hh
    simp [blocked, blockedInPoll, blockedOnCond, h1, h2]

/-- consequently, a stalled waiter's reply was always dispatched by a *different* thread -/
theorem C14_stall_needs_other_receiver {s : St} (h : Reachable s) (t : Tid) (hc : inCall s t = true)
    (hr : (s.cells (s.loc t).seq).ready = true) (hb : blocked s t = true) :
    s.popper (s.loc t).seq ≠ some t := by
  intro hp
  rw [C14_partial_self h t hc hr hp] at hb
  cases hb

/-- **Partial result 2: in all cases the waiter is released no later than its own deadline.**  Once the
request's expiry time has been reached, the client is not blocked in `poll()` nor asleep on the condition
(inside `serve` its deadline is its request's expiry, and the condition wait never outlasts it). -/
theorem C14_partial_deadline {s : St} (h : Reachable s) (t : Tid) (hc : inCall s t = true) (d : Time)
    (httl : (s.cells (s.loc t).seq).ttl = some d) (hd : d ≤ s.now) : blocked s t = false := by
  have i := invS_of_reachable h
  have hs : (s.loc t).hasSeq = true := by
    simp only [inCall, Bool.and_eq_true, decide_eq_true_eq, Bool.not_eq_true'] at hc
    simp [Loc.hasSeq, hc.1, hc.2]
  by_cases hp : (s.loc t).pc = .p0
  · have hdl := i.dl_ttl t hs (by rw [hp]; rfl)
    simp [blocked, blockedInPoll, blockedOnCond, hp, hdl, httl, expiredAt, hd]
  · by_cases hz : (s.loc t).pc = .zz
    · have hdl := i.dl_ttl t hs (by rw [hz]; rfl)
      obtain ⟨w, hw, hle⟩ := i.wdl_le t hz d (by rw [hdl, httl])
      have : w ≤ s.now := by
        have : max s.now d = s.now := Nat.max_eq_left hd
        rw [this] at hle; exact hle
      simp [blocked, blockedInPoll, blockedOnCond, hz, hw, expiredAt, this]
    · simp [blocked, blockedInPoll, blockedOnCond, hp, hz]

/-- a ready cell holds the peer's answer (publication order), restated here for the return theorem -/
theorem publication {s : St} (h : Reachable s) (q : Seq) (hr : (s.cells q).ready = true) :
    s.completions q = 1 ∧ ∃ e v, (s.cells q).isExc = some e ∧ (s.cells q).obj = some v ∧ s.answer q = some (e, v) := by
  have i := invS_of_reachable h
  obtain ⟨hc, ho, he⟩ := i.ready_compl q hr
  refine ⟨hc, ?_⟩
  cases hobj : (s.cells q).obj with
  | none => simp [hobj] at ho
  | some v =>
    cases hexc : (s.cells q).isExc with
    | none => simp [hexc] at he
    | some e =>
      obtain ⟨e', h1⟩ := i.obj_answer q v hobj
      obtain ⟨v', h2⟩ := i.exc_answer q e hexc
      rw [h1] at h2
      cases h2
      exact ⟨e, v, rfl, rfl, h1⟩

/-- **Partial result 3: no wrong result.**  Whatever a finished call returns is the peer's answer to that
very request (the stall delays the caller; it never hands it a wrong or unpublished value). -/
theorem C14_partial_value {s : St} (h : Reachable s) (t : Tid) (e : Option Bool) (o : Option Nat)
    (hb : (s.loc t).bg = false) (hr : (s.loc t).result = some (.value e o)) :
    ∃ e' v, s.answer (s.loc t).seq = some (e', v) ∧ e = some e' ∧ o = some v :=
  (invS_of_reachable h).result_ok t e o hb hr

/-- **Classification of every stall (state form).**  Whenever a client is blocked although its result is ready:
the result was popped and published by ANOTHER thread (`receiver ≠ waiter`), and the client is in exactly one of
two positions — inside `poll()` HOLDING the receive lock with nothing to read and the stream open (it acquired the
lock after the receiver's release: the harness's `waiter-acquires-…` / `…-acquires-after` shapes), or asleep in
the condition's wait-set (queued behind the receive lock, nobody having notified since: the `…-no-notify-after`
shape).  The harness signatures refine these two positions by the order of the readiness test, the lock
acquisition and the publication in the trace; the model state has no history, so that order is not a Lean
statement. -/
theorem C14_stall_classification {s : St} (h : Reachable s) (t : Tid) (hc : inCall s t = true)
    (hr : (s.cells (s.loc t).seq).ready = true) (hb : blocked s t = true) :
    (∃ u, s.popper (s.loc t).seq = some u ∧ u ≠ t) ∧
    (((s.loc t).pc = .p0 ∧ s.recvLock = some t ∧ s.chan = [] ∧ s.eof = false ∧ s.closed = false) ∨
     ((s.loc t).pc = .zz ∧ t ∈ s.waiters ∧ s.condLock ≠ some t)) := by
  constructor
  · obtain ⟨u, hu⟩ := ready_popped h _ hr
    refine ⟨u, hu, fun e => ?_⟩
    subst e
    exact C14_stall_needs_other_receiver h u hc hr hb hu
  · have hL := invL_of_reachable h
    simp only [blocked, Bool.or_eq_true] at hb
    rcases hb with hb | hb
    · simp only [blockedInPoll, Bool.and_eq_true, decide_eq_true_eq, Bool.not_eq_true', List.isEmpty_iff] at hb
      obtain ⟨⟨⟨⟨hp, hch⟩, _⟩, he⟩, hcl⟩ := hb
      exact .inl ⟨hp, (hL.recv_iff t).1 (by rw [hp]; rfl), hch, he, hcl⟩
    · simp only [blockedOnCond, Bool.and_eq_true, decide_eq_true_eq, Bool.not_eq_true', List.contains_iff_mem] at hb
      obtain ⟨⟨hp, hw⟩, _⟩ := hb
      refine .inr ⟨hp, hw, fun e => ?_⟩
      have := (hL.cond_iff t).2 e
      rw [hp] at this; cases this

/-- **Bounded stall.**  A stalled client is released by the next frame, the end of the stream, the closing of the
connection, its deadline or a notify — in that state its next step is enabled (lemma `stalled_waiter_released`) —
and, for a reachable state with its result ready, its uninterrupted continuation from the loop test is exactly three
steps long: it leaves the loop, passes the final readiness test and returns the peer's answer to its own request;
it does not enter `serve` again.  (Under interleaving the same three steps are taken one by one —
`released_waiter_returns` — and the result stays published meanwhile, lemma `ready_stable`.) -/
theorem C14_bounded_stall {s : St} (h : Reachable s) (t : Tid) (_hs : (s.loc t).hasSeq = true)
    (hr : (s.cells (s.loc t).seq).ready = true) :
    (blocked s t = true →
      ((s.loc t).pc = .p0 → (s.chan ≠ [] ∨ s.eof = true ∨ s.closed = true ∨ expiredAt (s.loc t).dl s.now = true) →
          enabled s t = true) ∧
      ((s.loc t).pc = .zz → (t ∉ s.waiters ∨ expiredAt (s.loc t).wdl s.now = true) → enabled s t = true)) ∧
    ((s.loc t).pc = .w0 → ∃ s' e v, run s [.run t, .run t, .run t] = some s' ∧ (s'.loc t).pc = .idle ∧
        s.answer (s.loc t).seq = some (e, v) ∧ (s'.loc t).result = some (.value (some e) (some v))) := by
  refine ⟨fun _ => stalled_waiter_released t, fun hp => ?_⟩
  obtain ⟨_, e, v, he, hv, ha⟩ := publication h _ hr
  have hp1 : ((doW0 s t (s.loc t)).loc t).pc = .w9 := by simp [doW0, hr]
  have hq1 : ((doW0 s t (s.loc t)).loc t).seq = (s.loc t).seq := by simp [doW0]
  have hc1 : (doW0 s t (s.loc t)).cells = s.cells := by simp [doW0]
  have hr1 : ((doW0 s t (s.loc t)).cells ((doW0 s t (s.loc t)).loc t).seq).ready = true := by rw [hc1, hq1]; exact hr
  have hr1' : ((doW0 s t (s.loc t)).cells (s.loc t).seq).ready = true := by rw [hc1]; exact hr
  have hp2 : ((doW9 (doW0 s t (s.loc t)) t ((doW0 s t (s.loc t)).loc t)).loc t).pc = .w10 := by simp [doW9, hr1]
  have hq2 : ((doW9 (doW0 s t (s.loc t)) t ((doW0 s t (s.loc t)).loc t)).loc t).seq = (s.loc t).seq := by
    simp [doW9, hr1', hq1]
  have hc2 : (doW9 (doW0 s t (s.loc t)) t ((doW0 s t (s.loc t)).loc t)).cells = s.cells := by
    simp [doW9, hq1, hc1, hr]
  refine ⟨doW10 (doW9 (doW0 s t (s.loc t)) t ((doW0 s t (s.loc t)).loc t)) t
      ((doW9 (doW0 s t (s.loc t)) t ((doW0 s t (s.loc t)).loc t)).loc t), e, v, ?_, ?_, ha, ?_⟩
  · simp [run, step, stepRun, hp, hp1, hp2]
  · simp [doW10]
  · simp [doW10, hc2, hq2, he, hv]

/-- **Bounded stall, return.**  Once released, a client whose result is ready does not enter `serve` again: at the
loop test it leaves the loop, passes the final readiness test, and returns the peer's answer to its own request;
and a published result stays published under every step of every actor. -/
theorem released_waiter_returns {s s' : St} (h : Reachable s) (t : Tid) (_hs : (s.loc t).hasSeq = true)
    (hr : (s.cells (s.loc t).seq).ready = true) (hst : step s (.run t) = some s') :
    ((s.loc t).pc = .w0 → (s'.loc t).pc = .w9) ∧
    ((s.loc t).pc = .w9 → (s'.loc t).pc = .w10) ∧
    ((s.loc t).pc = .w10 → (s'.loc t).pc = .idle ∧
        ∃ e v, s.answer (s.loc t).seq = some (e, v) ∧ (s'.loc t).result = some (.value (some e) (some v))) := by
  simp only [step, stepRun] at hst
  refine ⟨fun hp => ?_, fun hp => ?_, fun hp => ?_⟩
  · rw [hp] at hst; simp only [Option.some.injEq] at hst; subst hst; simp [doW0, hr]
  · rw [hp] at hst; simp only [Option.some.injEq] at hst; subst hst; simp [doW9, hr]
  · rw [hp] at hst; simp only [Option.some.injEq] at hst; subst hst
    obtain ⟨_, e, v, he, hv, ha⟩ := Rpyc.Props.C14.publication h _ hr
    exact ⟨by simp [doW10], e, v, ha, by simp [doW10, he, hv]⟩

/-- **Corollary: with no second serving thread the property holds.**  In every run in which only thread `t` (in any
roles, one after the other: caller, polling thread, background thread) and the environment act, `t` is never
blocked with its result ready: `C14_statement` restricted to single-threaded use of the connection.  The hypothesis
is about LOGICAL threads of the machine: it covers results that travel by value or as references to builtin classes.
For a reference to a user-class instance the INSPECT round trip of `_unbox` is a second logical thread (run by the same
OS thread), so that case is not covered by this corollary; the harness finds no stall there with a single OS thread. -/
theorem C14_holds_without_second_thread (t : Tid) (as : List Actor) (s : St) (hall : ∀ a ∈ as, a.byOrEnv t)
    (hrun : run init as = some s) (hc : inCall s t = true) (hr : (s.cells (s.loc t).seq).ready = true) :
    blocked s t = false := by
  obtain ⟨hreach, hp⟩ := onlyPopper_run as init s hall .init (fun q u e => by simp [init] at e) hrun
  obtain ⟨u, hu⟩ := ready_popped hreach _ hr
  have : u = t := hp _ _ hu
  subst this
  exact C14_partial_self hreach u hc hr hu

/-- the three partial results together -/
theorem C14_partial {s : St} (h : Reachable s) (t : Tid) (hc : inCall s t = true) :
    ((s.cells (s.loc t).seq).ready = true → s.popper (s.loc t).seq = some t → blocked s t = false) ∧
    (∀ d, (s.cells (s.loc t).seq).ttl = some d → d ≤ s.now → blocked s t = false) ∧
    (∀ e o, (s.loc t).result = some (.value e o) →
        ∃ e' v, s.answer (s.loc t).seq = some (e', v) ∧ e = some e' ∧ o = some v) := by
  refine ⟨C14_partial_self h t hc, fun d => C14_partial_deadline h t hc d, fun e o hr => ?_⟩
  have hb : (s.loc t).bg = false := by
    simp only [inCall, Bool.and_eq_true, decide_eq_true_eq, Bool.not_eq_true'] at hc
    exact hc.2
  exact C14_partial_value h t e o hb hr

/-! ### non-vacuity -/

/-- the self-receiver path really occurs: a lone caller receives and dispatches its own reply and is then at
the loop test with `ready`, not blocked -/
example : (run init ([.call 1 (some 5)] ++ r 1 3 ++ [.peer 0 false 7] ++ r 1 16)).map
    (fun s => (inCall s 1, (s.cells (s.loc 1).seq).ready, s.popper (s.loc 1).seq, (s.loc 1).pc, blocked s 1))
    = some (true, true, some 1, .w0, false) := by decide

/-- the deadline path really occurs: in the witness, once time reaches 10 the caller is no longer blocked,
and it then returns the correct value -/
example : (run init (witness (some 10) ++ [.tick 10])).map (fun s => (blocked s 1, enabled s 1)) = some (false, true) := by
  decide
example : (run init (witness (some 10) ++ [.tick 10] ++ r 1 9)).map (fun s => ((s.loc 1).pc, (s.loc 1).result))
    = some (.idle, some (.value (some false) (some 7))) := by decide

end Rpyc.Props.C14
