import RpycModel.Conc.SendQ
import RpycModel.Gen.Sendq
/-
C12 — concurrent senders never interleave, lose or strand a message.

Model: `RpycModel/Conc/SendQ/Model.lean` (`Connection._send` line by line, any number of threads and
messages, re-entrant sends as nested activations, transport failure).  `Reachable n prog s`: `s` is reached
from the initial state with threads `0 … n-1` running the programs `prog t` by ANY interleaving of lines,
ANY nested sends started at ANY point, and a transport failure at ANY moment.  `ReachableR`: the same with
nested sends started only while the parent is inside `_send` past its append (e.g. wherever it holds the
lock, in particular inside the transport write).  Helper lemmas (the inductive invariants) are in
`Conc/SendQ/{Lemmas,Progress,OsOrder}.lean`; only the property theorems and their non-vacuity examples
live here.

Scope of the statement.  C12 quantifies over schedules.  While the transport works (`dead = false`) every
clause holds at full strength (1–6).  When a stream write fails the popped message cannot be transmitted
by anybody (every rpyc stream closes itself on a failed write), `_send` leaves through its `finally` and
does not look at the queue again: theorem `after_transport_failure` says exactly what is then true — the
lock is not leaked, nothing is duplicated or reordered, the transmitted messages are a prefix of the
append order, and what is lost or left queued is the rest of that order; `stranding_needs_dead_transport`
says it happens in no other case.  What the owner of a stranded request observes is C11's subject.
-/
namespace Rpyc.Props.C12
open Rpyc.Conc.SendQ

variable {n : Nat} {prog : Tid → List Msg} {s : St}

/-- **(1) Mutual exclusion.** The lock is held iff some thread is between the successful
`acquire(False)` and the `release()` (on the normal and on the exceptional path), and at most one thread
ever is.  In particular the lock is never leaked: it is held only by a thread that still has its
`finally: release()` in front of it. -/
theorem mutex (h : Reachable n prog s) :
    (s.lock = true ↔ ∃ t, inCS (s.pc t) = true)
    ∧ (∀ t u, inCS (s.pc t) = true → inCS (s.pc u) = true → t = u) := by
  have hI := (reachable_inv h).1
  refine ⟨⟨fun hl => ?_, fun ⟨t, ht⟩ => (hI.holder_of_cs ht).2⟩, fun t u ht hu => ?_⟩
  · rw [hI.lock_holder] at hl
    cases hh : s.holder with
    | none => rw [hh] at hl; cases hl
    | some v => exact ⟨v, (hI.cs_iff v).2 hh⟩
  · exact hI.cs_unique (hI.holder_of_cs hu).1 ht

/-- **(1b) Only the lock holder writes.** A line that changes the wire is executed by the one thread that
holds the lock, from inside `Channel.send`. -/
theorem only_holder_writes (h : Reachable n prog s) {t : Tid} {s' : St} (hs : step s t = some s')
    (hw : s'.wire ≠ s.wire) :
    s.pc t = .write ∧ s.lock = true ∧ ∀ u, inCS (s.pc u) = true → u = t := by
  have hI := (reachable_inv h).1
  rcases step_wire hs with he | hpc
  · exact absurd he hw
  · have hcs : inCS (s.pc t) = true := by rw [hpc]; rfl
    exact ⟨hpc, (hI.holder_of_cs hcs).2, fun u hu => hI.cs_unique (hI.holder_of_cs hcs).1 hu⟩

/-- **(2) Nothing duplicated, global order = append order.** The items completely transmitted, then
those dropped by a failed write, then the one in the holder's hand, then the queue, are exactly the items
appended so far, in the order they were appended; and nothing is ever dropped while the transport works. -/
theorem conserve_order (h : Reachable n prog s) :
    s.out ++ s.lost ++ s.hand.toList ++ s.queue = s.appended ∧ (s.dead = false → s.lost = []) :=
  ⟨(reachable_inv h).1.conserve, fun hd => ((reachable_inv h).1.alive hd).1⟩

/-- **(2b) Per-sender order.** For every thread `t` given the program `prog t`: the messages of `t` that
have left the thread (transmitted, dropped, in hand, queued — in that order), followed by those it has
still to issue, are `prog t`.  So on the wire the messages of one thread appear in the order the thread
issued them. -/
theorem per_thread_order (h : Reachable n prog s) (t : Tid) (ht : t < n) :
    ((s.out ++ s.lost ++ s.hand.toList ++ s.queue).filter (fun it => it.1 == t)).map (·.2) ++ pending s t
      = prog t := by
  rw [(conserve_order h).1, ← (reachable_prog h).2 t ht]
  exact (reachable_inv h).2.order t

/-- the same for the nested activations (their program is the one message they were started with) -/
theorem per_thread_order_all (h : Reachable n prog s) (t : Tid) :
    ((s.out ++ s.lost ++ s.hand.toList ++ s.queue).filter (fun it => it.1 == t)).map (·.2) ++ pending s t
      = s.prog t := by
  rw [(conserve_order h).1]
  exact (reachable_inv h).2.order t

/-- **(2c) Order per OS thread, nested sends included.** If nested sends start only while their parent is
inside `_send` past its append — wherever it holds the lock, in particular inside the transport write,
which is where finalizers run "during transmission" — then the messages of one OS thread `r` (the thread
and every activation nested on it) are appended, hence transmitted, in the order in which its `_send`
calls started; at most the one call that has started and not yet appended is missing. -/
theorem os_thread_order (h : ReachableR n prog s) (r : Tid) :
    (∃ tail, onThread s r s.started = onThread s r (s.out ++ s.lost ++ s.hand.toList ++ s.queue) ++ tail
      ∧ tail.length ≤ 1)
    ∧ ((∀ u, s.root u = r → ∀ m, s.pc u ≠ .append m) →
        onThread s r (s.out ++ s.lost ++ s.hand.toList ++ s.queue) = onThread s r s.started) := by
  have hO := reachableR_os h
  rw [(conserve_order h.toReachable).1]
  refine ⟨?_, fun hno => (hO.k2 r hno).symm⟩
  by_cases hex : ∃ u m, s.root u = r ∧ s.pc u = .append m
  · obtain ⟨u, m, hu, hpc⟩ := hex
    subst hu
    exact ⟨[(u, m)], hO.k1 u m hpc, Nat.le_refl _⟩
  · refine ⟨[], ?_, Nat.zero_le _⟩
    rw [List.append_nil]
    exact hO.k2 r (fun u hu m hpc => hex ⟨u, m, hu, hpc⟩)

/-- **(3) Contiguous packets.** The wire is the concatenation of the complete packets of the transmitted
items, each as its adjacent pieces in order, followed by at most one unfinished packet: a prefix of the
pieces of the item in hand or — only after the transport has failed — of the packet the failure cut. -/
theorem contiguous (h : Reachable n prog s) :
    s.wire = s.out.flatMap pieces ++ s.stub ++ partialPkt s
    ∧ (partialPkt s = [] ∨ ∃ x, s.hand = some x ∧ partialPkt s = (pieces x).take s.nw)
    ∧ (s.dead = false → s.stub = [])
    ∧ (s.stub = [] ∨ (partialPkt s = [] ∧ ∃ x k, s.stub = (pieces x).take k)) := by
  have hI := (reachable_inv h).1
  refine ⟨hI.contig, ?_, fun hd => (hI.alive hd).2, ?_⟩
  · unfold partialPkt
    cases hh : s.hand with
    | none => exact Or.inl rfl
    | some x => exact Or.inr ⟨x, rfl, rfl⟩
  · rcases hI.cut with hc | ⟨hnw, hc⟩
    · exact Or.inl hc
    · refine Or.inr ⟨?_, hc⟩
      unfold partialPkt
      cases s.hand <;> simp [hnw]

/-- the liveness-carrying invariant behind (4): while the transport works a non-empty queue always has
someone responsible for it -/
theorem queue_has_a_taker (h : Reachable n prog s) (hq : s.queue ≠ []) (hd : s.dead = false) :
    s.lock = true ∨ ∃ t, s.pc t = .check ∨ s.pc t = .tryLock := by
  rcases (reachable_inv h).1.live hq with h1 | h2
  · rw [hd] at h1; cases h1
  · exact h2

/-- what holds once every sender has returned, whatever happened -/
theorem after_transport_failure (h : Reachable n prog s) (hd : ∀ t, isDone s t) :
    s.lock = false ∧ s.hand = none
    ∧ s.out ++ s.lost ++ s.queue = s.appended
    ∧ s.wire = s.out.flatMap pieces ++ s.stub
    ∧ (s.queue ≠ [] ∨ s.lost ≠ [] ∨ s.stub ≠ [] → s.dead = true) := by
  have hI := (reachable_inv h).1
  have hidle : ∀ t, s.pc t = .idle := fun t => (hd t).1
  have hlock : s.lock = false := by
    cases hl : s.lock with
    | false => rfl
    | true =>
      obtain ⟨t, ht⟩ := (mutex h).1.1 hl
      rw [hidle t] at ht; cases ht
  have hh : s.hand = none := by
    rcases hI.hand_n with hn | ⟨t, _, ht⟩
    · exact hn
    · rw [hidle t] at ht; cases ht
  refine ⟨hlock, hh, ?_, ?_, ?_⟩
  · have hc := hI.conserve
    rw [hh] at hc
    simpa using hc
  · have hw := hI.contig
    simp only [partialPkt, hh, List.append_nil] at hw
    exact hw
  · intro hne
    cases hdead : s.dead with
    | true => rfl
    | false =>
      obtain ⟨hl, hs⟩ := hI.alive hdead
      rcases hne with hq | hl' | hs'
      · rcases hI.live hq with h1 | h1 | ⟨t, ht⟩
        · rw [hdead] at h1; cases h1
        · rw [hlock] at h1; cases h1
        · rw [hidle t] at ht; rcases ht with ht | ht <;> cases ht
      · exact absurd hl hl'
      · exact absurd hs hs'

/-- **(4) No stranding.** Once every sender has returned and the transport has not failed, nothing is
queued, in hand or dropped, the lock is free, and the wire is exactly every appended message, once, as one
contiguous packet, in append order. -/
theorem no_stranding (h : Reachable n prog s) (hd : ∀ t, isDone s t) (halive : s.dead = false) :
    s.queue = [] ∧ s.hand = none ∧ s.lock = false ∧ s.lost = [] ∧ s.wire = s.appended.flatMap pieces := by
  obtain ⟨hl, hh, hc, hw, hdead⟩ := after_transport_failure h hd
  have hI := (reachable_inv h).1
  obtain ⟨hlost, hstub⟩ := hI.alive halive
  have hq : s.queue = [] := by
    apply Classical.byContradiction
    intro hne
    have := hdead (Or.inl hne)
    rw [halive] at this; cases this
  refine ⟨hq, hh, hl, hlost, ?_⟩
  rw [hlost, hq] at hc
  rw [hstub] at hw
  simp only [List.append_nil] at hc hw
  rw [hw, hc]

/-- a message is left queued with every sender returned ONLY if the transport has failed -/
theorem stranding_needs_dead_transport (h : Reachable n prog s) (hd : ∀ t, isDone s t) (hq : s.queue ≠ []) :
    s.dead = true :=
  (after_transport_failure h hd).2.2.2.2 (Or.inl hq)

/-- **(4b)** at quiescence each thread's packets are on the wire in exactly the order it issued them -/
theorem quiescent_order (h : Reachable n prog s) (hd : ∀ t, isDone s t) (halive : s.dead = false) :
    s.wire = s.out.flatMap pieces ∧ ∀ t, t < n → (s.out.filter (fun it => it.1 == t)).map (·.2) = prog t := by
  obtain ⟨hq, hh, _, hlost, hw⟩ := no_stranding h hd halive
  have hc := (conserve_order h).1
  rw [hh, hq, hlost] at hc
  simp only [Option.toList_none, List.append_nil] at hc
  refine ⟨by rw [hw, hc], fun t ht => ?_⟩
  have := per_thread_order h t ht
  rw [hh, hq, hlost] at this
  have hp : pending s t = [] := by unfold pending; rw [(hd t).1]; exact (hd t).2
  rw [hp] at this
  simpa using this

/-- **(5a) No line of `_send` blocks, none raises on its own.** A thread that has not returned always has
a defined next line (every line is non-blocking), and `_send` never raises `IndexError` (`pop(0)` never
finds the queue empty) or `RuntimeError` (`release()` never finds the lock free).  (The only exception that
can leave `_send` is the transport's, see `after_transport_failure`.) -/
theorem never_blocks_never_raises (h : Reachable n prog s) (t : Tid) (hd : ¬ isDone s t) :
    (∃ s', step s t = some s') ∧ ∀ u, s.pc u ≠ .crash := by
  have hI := (reachable_inv h).1
  have := step_isSome (hI.nocrash t) hd
  cases hs : step s t with
  | none => rw [hs] at this; cases this
  | some s' => exact ⟨⟨s', rfl⟩, hI.nocrash⟩

/-- **(5) No deadlock, re-entrant sends included.** While some sender has not returned, some thread can
take a step: the innermost nested activation above it is never suspended and its next line is enabled.
(`blocked` is the only way a logical thread can be unable to run: its own nested call has not returned.) -/
theorem no_deadlock (h : Reachable n prog s) (t : Tid) (hd : ¬ isDone s t) :
    ∃ u s', t ≤ u ∧ ¬ blocked s u ∧ step s u = some s' ∧ Reachable n prog s' := by
  obtain ⟨hI, hN⟩ := reachable_inv h
  obtain ⟨u, htu, hb, _, hs⟩ := exists_enabled hI hN (s.next - t) t (Nat.le_refl _) hd
  cases hs' : step s u with
  | none => rw [hs'] at hs; cases hs
  | some s' => exact ⟨u, s', htu, hb, hs', Reachable.step u h hb hs'⟩

/-- a suspended parent waits for a younger activation -/
theorem nesting (h : Reachable n prog s) (p c : Tid) (hw : s.wait p = some c) : p < c ∧ c < s.next :=
  (reachable_inv h).2.wait_lt p c hw

/-- **(5b) Wait-freedom of a sender that does not get the lock.** From the moment thread `t` is about to
append, whatever the rest of the system does in between (`Others`: any lines of other threads, nested sends,
transport failure — none of which moves `t`), after three lines of its own — append, queue test, try-lock —
`t` has returned (already after the second if the queue was drained meanwhile) or has become the lock holder.
Holds from every state, reachable ones in particular. -/
theorem non_holder_gone_after_three_own_lines {t : Tid} {m : Msg} {s0 s1 s2 s3 s4 s5 s6 : St}
    (hpc : s0.pc t = .append m)
    (o1 : Others t s0 s1) (l1 : step s1 t = some s2)
    (o2 : Others t s2 s3) (l2 : step s3 t = some s4)
    (o3 : Others t s4 s5) (l3 : step s5 t = some s6) :
    s4.pc t = .idle ∨ (s6.pc t = .idle ∧ s5.lock = true)
    ∨ (s6.pc t = .recheck ∧ s6.lock = true ∧ s6.holder = some t) := by
  have h1 : s1.pc t = .append m := by rw [o1.pc_eq]; exact hpc
  have h2 : s2.pc t = .check := line_append h1 l1
  have h3 : s3.pc t = .check := by rw [o2.pc_eq]; exact h2
  rcases line_check h3 l2 with h4 | h4
  · exact Or.inl h4
  · have h5 : s5.pc t = .tryLock := by rw [o3.pc_eq]; exact h4
    exact Or.inr (line_tryLock h5 l3)

/-- **(6, obstruction-free form) Bounded return.** From any reachable state, a sender that is not suspended
under a nested send and is left undisturbed has returned from ALL its calls after at most `soloFuel s t`
of its own lines (`9·|queue| + 25·|calls still to start| +` at most 14 for the call it is in); that run is
a real execution, and every single line strictly decreases the bound.  (Under interference no bound in
terms of the thread's own program exists: other threads can keep the queue non-empty; each wasted
iteration is then paid for by another thread's pop.) -/
theorem returns_when_undisturbed (h : Reachable n prog s) (t : Tid) (hb : ¬ blocked s t) :
    Reachable n prog (runSolo s t (soloFuel s t))
    ∧ isDone (runSolo s t (soloFuel s t)) t
    ∧ (¬ isDone s t → ∃ s', step s t = some s' ∧ soloFuel s' t < soloFuel s t) :=
  ⟨runSolo_reachable t _ s h hb, solo_returns_aux t _ s (reachable_inv h).1 (Nat.le_refl _),
   fun hd => solo_step (reachable_inv h).1 hd⟩

/-- **(6b)** a nested (re-entrant) send, which runs while its parent stands still, returns within
`9·|queue| + 25` lines; so the parent is suspended only for a bounded time -/
theorem nested_send_returns (h : Reachable n prog s) (p : Tid) (m : Msg) (hb : ¬ blocked s p) (hp : p < s.next) :
    Reachable n prog (runSolo (reenter s p m) s.next (9 * s.queue.length + 25))
    ∧ isDone (runSolo (reenter s p m) s.next (9 * s.queue.length + 25)) s.next := by
  have hN := (reachable_inv h).2
  have hf := soloFuel_reenter hN p m
  have h' : Reachable n prog (reenter s p m) := .reenter p m h hb hp
  have hnb : ¬ blocked (reenter s p m) s.next := by
    rintro ⟨c, hc, _⟩
    have hpn : s.next ≠ p := Nat.ne_of_gt hp
    simp only [reenter, hpn, if_false] at hc
    rw [(hN.fresh s.next (Nat.le_refl _)).2.2] at hc; cases hc
  have := returns_when_undisturbed h' s.next hnb
  rw [hf] at this
  exact ⟨this.1, this.2.1⟩

/-! ### facts about the code regenerated from the source on every run -/

/-- **The `append` step is blind to the message kind, because the code's is.** The model's `append` puts
the datum where the live `_send` was measured to put a datum of that kind (`Gen/Sendq.lean`: lock busy, two
data queued; request, reply, exception); this theorem — consumed by the invariant behind every theorem
above (`Lemmas.enqueue_eq`) — says that this is the back of the queue for every kind. -/
theorem append_is_kind_blind (q : List Item) (x : Item) :
    enqueue q x = q ++ [x] ∧ Rpyc.Gen.Sendq.enqueuedAtBack.map (·.1) = [1, 2, 3] :=
  ⟨enqueue_eq q x, by decide⟩

/-- **Tripwire (not consumed by any theorem): serialisation is a pure function of the message.** `_send`
serialises outside the lock, where another sender or a finalizer's nested send can run in the middle of it;
the model's messages are values, i.e. it ASSUMES what is measured here on the live `brine.dump` (a complete
`dump` executed at every call inside another, for several values, leaves the result unchanged).  The tie to
`_send` itself is the correspondence: schedules that preempt and re-enter inside `brine.dump`, with every
queued datum compared byte for byte with the serialisation computed beforehand. -/
theorem serialisation_is_pure_under_reentry : Rpyc.Gen.Sendq.dumpSurvivesReentry = true := by
  decide

/-! ### non-vacuity: concrete reachable states -/

/-- thread 0 sends a three-write message then a small one, thread 1 sends one small message -/
def P : Tid → List Msg
  | 0 => [⟨1, true, 1⟩, ⟨2, false, 2⟩]
  | 1 => [⟨3, false, 3⟩]
  | _ => []

/-- thread 0 appends, tests, takes the lock, re-checks, pops, writes one piece; thread 1 appends, tests,
fails the try-lock and returns; a finalizer on thread 0 starts a nested send (logical thread 2) which
appends, tests, fails the try-lock and returns; thread 0 finishes the packet, releases, and drains the
queue (messages 3 and 4), then sends message 2 -/
def demo : List Ev :=
  [.run 0, .run 0, .run 0, .run 0, .run 0, .run 0, .run 0,
   .run 1, .run 1, .run 1, .run 1,
   .reent 0 ⟨4, false, 1⟩, .run 2, .run 2, .run 2, .run 2,
   .run 0, .run 0, .run 0,
   .run 0, .run 0, .run 0, .run 0, .run 0, .run 0,
   .run 0, .run 0, .run 0, .run 0, .run 0, .run 0,
   .run 0,
   .run 0, .run 0, .run 0, .run 0, .run 0, .run 0, .run 0, .run 0, .run 0]

def wireIds (s : St) : List (Nat × Nat) := s.wire.map (fun p => (p.1.2.id, p.2))
def ids (l : List Item) : List Nat := l.map (·.2.id)

example : ∃ s, Reachable 2 P s
    ∧ wireIds s = [(1, 0), (1, 1), (1, 2), (3, 0), (4, 0), (2, 0)]
    ∧ (∀ t, t < 3 → isDone s t) ∧ s.next = 3 ∧ s.appended.length = 4 ∧ s.queue = [] := by
  have h1 : (execAll (init 2 P) demo).map wireIds = some [(1, 0), (1, 1), (1, 2), (3, 0), (4, 0), (2, 0)] := by decide
  have h2 : (execAll (init 2 P) demo).map (fun s => (List.range 3).all (isDoneB s)) = some true := by decide
  have h3 : (execAll (init 2 P) demo).map (fun s => (s.next, s.appended.length, s.queue.length)) = some (3, 4, 0) := by
    decide
  cases hrun : execAll (init 2 P) demo with
  | none => rw [hrun] at h1; cases h1
  | some s =>
    rw [hrun] at h1 h2 h3
    simp only [Option.map_some, Option.some.injEq, Prod.mk.injEq] at h1 h2 h3
    refine ⟨s, reachable_execAll demo Reachable.init hrun, h1, ?_, h3.1, h3.2.1, List.eq_nil_of_length_eq_zero h3.2.2⟩
    intro t ht
    have := List.all_eq_true.1 h2 t (List.mem_range.2 ht)
    exact (isDoneB_iff s t).1 this

/-- a state in the middle of the three-write packet: the hypotheses of (1)–(3) and (5) are met with the
lock held, an item in hand, one piece on the wire, a non-empty queue and a suspended parent -/
example : ∃ s, Reachable 2 P s ∧ s.lock = true ∧ s.pc 0 = .write ∧ s.nw = 1 ∧ s.queue.length = 2
    ∧ blocked s 0 ∧ ¬ isDone s 2 := by
  have h1 : (execAll (init 2 P) (demo.take 14)).map
      (fun s => (s.lock, decide (s.pc 0 = .write), s.nw, s.queue.length, blockedB s 0, isDoneB s 2))
      = some (true, true, 1, 2, true, false) := by decide
  cases hrun : execAll (init 2 P) (demo.take 14) with
  | none => rw [hrun] at h1; cases h1
  | some s =>
    rw [hrun] at h1
    simp only [Option.map_some, Option.some.injEq, Prod.mk.injEq, decide_eq_true_eq] at h1
    refine ⟨s, reachable_execAll _ Reachable.init hrun, h1.1, h1.2.1, h1.2.2.1, h1.2.2.2.1,
      (blockedB_iff s 0).1 h1.2.2.2.2.1, fun hd => ?_⟩
    have := (isDoneB_iff s 2).2 hd
    rw [h1.2.2.2.2.2] at this; cases this

/-- **What a failed write strands (witness).** Thread 0 holds the lock with message 1 in hand and one of
its three pieces written; thread 1 has queued message 3 and returned; the transport fails; thread 0's next
write raises, its `finally` releases the lock and the exception leaves `_send`; thread 0 gives up.  Every
sender that was inside `_send` has returned, the lock is free, message 1 is lost with one piece on the
wire, and message 3 is left queued. -/
def failDemo : List Ev :=
  [.run 0, .run 0, .run 0, .run 0, .run 0, .run 0, .run 0,
   .run 1, .run 1, .run 1, .run 1,
   .brk, .run 0, .run 0]

example : ∃ s, Reachable 2 P s ∧ s.dead = true ∧ s.lock = false ∧ s.pc 0 = .idle ∧ isDone s 1
    ∧ ids s.queue = [3] ∧ ids s.lost = [1] ∧ wireIds s = [(1, 0)] ∧ s.stub.length = 1 ∧ s.out = [] := by
  have h1 : (execAll (init 2 P) failDemo).map
      (fun s => (s.dead, s.lock, decide (s.pc 0 = .idle), isDoneB s 1)) = some (true, false, true, true) := by decide
  have h2 : (execAll (init 2 P) failDemo).map
      (fun s => (ids s.queue, ids s.lost, wireIds s, s.stub.length, s.out.length))
      = some ([3], [1], [(1, 0)], 1, 0) := by decide
  cases hrun : execAll (init 2 P) failDemo with
  | none => rw [hrun] at h1; cases h1
  | some s =>
    rw [hrun] at h1 h2
    simp only [Option.map_some, Option.some.injEq, Prod.mk.injEq, decide_eq_true_eq] at h1 h2
    exact ⟨s, reachable_execAll _ Reachable.init hrun, h1.1, h1.2.1, h1.2.2.1, (isDoneB_iff s 1).1 h1.2.2.2,
      h2.1, h2.2.1, h2.2.2.1, h2.2.2.2.1, List.eq_nil_of_length_eq_zero h2.2.2.2.2⟩

/-- **Why (2c) needs its restriction (witness).** A nested send started BEFORE the parent's append —
e.g. a collection triggered by the allocation in `brine.dump`, whose `netref.__del__` sends — overtakes the
parent's own message: OS thread 0 started `_send(1)` and then `_send(9)`, but 9 is on the wire before 1. -/
def overtakeDemo : List Ev :=
  [.run 0, .reent 0 ⟨9, false, 1⟩,
   .run 2, .run 2, .run 2, .run 2, .run 2, .run 2, .run 2, .run 2, .run 2,
   .run 0, .run 0, .run 0, .run 0, .run 0, .run 0, .run 0, .run 0]

theorem os_thread_order_needs_restriction :
    ∃ s, Reachable 2 P s ∧ ids (onThread s 0 s.started) = [1, 9] ∧ ids (onThread s 0 s.out) = [9, 1] := by
  have h1 : (execAll (init 2 P) overtakeDemo).map
      (fun s => (ids (onThread s 0 s.started), ids (onThread s 0 s.out))) = some ([1, 9], [9, 1]) := by decide
  cases hrun : execAll (init 2 P) overtakeDemo with
  | none => rw [hrun] at h1; cases h1
  | some s =>
    rw [hrun] at h1
    simp only [Option.map_some, Option.some.injEq, Prod.mk.injEq] at h1
    exact ⟨s, reachable_execAll _ Reachable.init hrun, h1.1, h1.2⟩

end Rpyc.Props.C12
