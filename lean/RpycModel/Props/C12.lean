import RpycModel.Conc.SendQ
/-
C12 — concurrent senders never interleave, lose or strand a message.

Model: `RpycModel/Conc/SendQ/Model.lean` (`Connection._send` line by line, any number of threads and
messages, re-entrant sends as nested activations).  `Reachable n prog s`: `s` is reached from the
initial state with threads `0 … n-1` running the programs `prog t` by ANY interleaving of lines and ANY
nested sends started anywhere.  Helper lemmas (the inductive invariants) are in `Conc/SendQ/Lemmas.lean`;
only the property theorems and their non-vacuity examples live here.
-/
namespace Rpyc.Props.C12
open Rpyc.Conc.SendQ

variable {n : Nat} {prog : Tid → List Msg} {s : St}

/-- **(1) Mutual exclusion.** The lock is held iff some thread is between the successful
`acquire(False)` and the `release()`, and at most one thread ever is. -/
theorem mutex (h : Reachable n prog s) :
    (s.lock = true ↔ ∃ t, inCS (s.pc t) = true)
    ∧ (∀ t u, inCS (s.pc t) = true → inCS (s.pc u) = true → t = u) := by
  have hI := (reachable_inv h).1
  refine ⟨⟨fun hl => ?_, fun ⟨t, ht⟩ => (hI.holder_of_cs ht).2⟩, fun t u ht hu => ?_⟩
  · rw [hI.lock_holder] at hl
    cases hh : s.holder with
    | none => rw [hh] at hl; cases hl
    | some v => exact ⟨v, (hI.cs_iff v).2 hh⟩
  · exact hI.cs_unique (hI.holder_of_cs hu).1 ht

/-- **(1b) Only the lock holder writes.** A line that changes the wire is executed by the one thread that
holds the lock, from inside `Channel.send`. -/
theorem only_holder_writes (h : Reachable n prog s) {t : Tid} {s' : St} (hs : step s t = some s')
    (hw : s'.wire ≠ s.wire) :
    s.pc t = .write ∧ s.lock = true ∧ ∀ u, inCS (s.pc u) = true → u = t := by
  have hI := (reachable_inv h).1
  rcases step_wire hs with he | hpc
  · exact absurd he hw
  · have hcs : inCS (s.pc t) = true := by rw [hpc]; rfl
    exact ⟨hpc, (hI.holder_of_cs hcs).2, fun u hu => hI.cs_unique (hI.holder_of_cs hcs).1 hu⟩

/-- **(2) Nothing lost, nothing duplicated, global order = append order.** The items completely
transmitted, then the one in the holder's hand, then the queue, are exactly the items appended so far, in
the order they were appended. -/
theorem conserve_order (h : Reachable n prog s) : s.out ++ s.hand.toList ++ s.queue = s.appended :=
  (reachable_inv h).1.conserve

/-- **(2b) Per-thread order.** For every thread `t` given the program `prog t`: the messages of `t` that
have left (transmitted, in hand, queued — in that order), followed by those it has still to issue, are
`prog t`.  So on the wire the messages of one thread appear in the order the thread issued them. -/
theorem per_thread_order (h : Reachable n prog s) (t : Tid) (ht : t < n) :
    ((s.out ++ s.hand.toList ++ s.queue).filter (fun it => it.1 == t)).map (·.2) ++ pending s t = prog t := by
  rw [conserve_order h, ← (reachable_prog h).2 t ht]
  exact (reachable_inv h).2.order t

/-- the same for the nested activations (their program is the one message they were started with) -/
theorem per_thread_order_all (h : Reachable n prog s) (t : Tid) :
    ((s.out ++ s.hand.toList ++ s.queue).filter (fun it => it.1 == t)).map (·.2) ++ pending s t = s.prog t := by
  rw [conserve_order h]
  exact (reachable_inv h).2.order t

/-- **(3) Contiguous packets.** The wire is the concatenation of the complete packets of the transmitted
items, each as its adjacent pieces in order, followed by a prefix of the pieces of the item in hand:
no piece of another packet ever sits between two pieces of one packet. -/
theorem contiguous (h : Reachable n prog s) :
    s.wire = s.out.flatMap pieces ++ partialPkt s
    ∧ (partialPkt s = [] ∨ ∃ x, s.hand = some x ∧ partialPkt s = (pieces x).take s.nw) := by
  refine ⟨(reachable_inv h).1.contig, ?_⟩
  unfold partialPkt
  cases hh : s.hand with
  | none => exact Or.inl rfl
  | some x => exact Or.inr ⟨x, rfl, rfl⟩

/-- the liveness-carrying invariant behind (4): a non-empty queue always has someone responsible for it -/
theorem queue_has_a_taker (h : Reachable n prog s) (hq : s.queue ≠ []) :
    s.lock = true ∨ ∃ t, s.pc t = .check ∨ s.pc t = .tryLock :=
  (reachable_inv h).1.live hq

/-- **(4) No stranding.** Once every sender has returned, nothing is queued or in hand, the lock is
free, and the wire is exactly every appended message, once, as one contiguous packet, in append order. -/
theorem no_stranding (h : Reachable n prog s) (hd : ∀ t, isDone s t) :
    s.queue = [] ∧ s.hand = none ∧ s.lock = false ∧ s.wire = s.appended.flatMap pieces := by
  have hI := (reachable_inv h).1
  have hidle : ∀ t, s.pc t = .idle := fun t => (hd t).1
  have hlock : s.lock = false := by
    cases hl : s.lock with
    | false => rfl
    | true =>
      obtain ⟨t, ht⟩ := (mutex h).1.1 hl
      rw [hidle t] at ht; cases ht
  have hq : s.queue = [] := by
    apply Classical.byContradiction
    intro hne
    rcases hI.live hne with hl | ⟨t, ht⟩
    · rw [hlock] at hl; cases hl
    · rw [hidle t] at ht; rcases ht with ht | ht <;> cases ht
  have hh : s.hand = none := by
    rcases hI.hand_n with hn | ⟨t, _, ht⟩
    · exact hn
    · rw [hidle t] at ht; cases ht
  refine ⟨hq, hh, hlock, ?_⟩
  have hc := hI.conserve
  rw [hh, hq] at hc
  have hw := hI.contig
  simp only [partialPkt, hh] at hw
  simp only [Option.toList_none, List.append_nil] at hc
  rw [hw, hc, List.append_nil]

/-- **(4b)** at quiescence each thread's packets are on the wire in exactly the order it issued them -/
theorem quiescent_order (h : Reachable n prog s) (hd : ∀ t, isDone s t) :
    s.wire = s.out.flatMap pieces ∧ ∀ t, t < n → (s.out.filter (fun it => it.1 == t)).map (·.2) = prog t := by
  obtain ⟨hq, hh, _, hw⟩ := no_stranding h hd
  have hc := conserve_order h
  rw [hh, hq] at hc
  simp only [Option.toList_none, List.append_nil] at hc
  refine ⟨by rw [hw, hc], fun t ht => ?_⟩
  have := per_thread_order h t ht
  rw [hh, hq] at this
  have hp : pending s t = [] := by unfold pending; rw [(hd t).1]; exact (hd t).2
  rw [hp] at this
  simpa using this

/-- **(5a) No sender ever blocks or raises.** A thread that has not returned and is not suspended under a
nested send has an enabled next line in every reachable state, and no `_send` call ends in an exception
(`pop(0)` never finds the queue empty, `release()` never finds the lock free). -/
theorem enabled_unless_suspended (h : Reachable n prog s) (t : Tid) (hd : ¬ isDone s t) :
    (∃ s', step s t = some s') ∧ ∀ u, s.pc u ≠ .crash := by
  have hI := (reachable_inv h).1
  have := step_isSome (hI.nocrash t) hd
  cases hs : step s t with
  | none => rw [hs] at this; cases this
  | some s' => exact ⟨⟨s', rfl⟩, hI.nocrash⟩

/-- **(5) No deadlock, re-entrant sends included.** While some sender has not returned, some thread can
take a step: the innermost nested activation above it is never suspended and its next line is enabled.
(`blocked` is the only way a logical thread can be unable to run: its own nested call has not returned.) -/
theorem no_deadlock (h : Reachable n prog s) (t : Tid) (hd : ¬ isDone s t) :
    ∃ u s', t ≤ u ∧ ¬ blocked s u ∧ step s u = some s' ∧ Reachable n prog s' := by
  obtain ⟨hI, hN⟩ := reachable_inv h
  obtain ⟨u, htu, hb, _, hs⟩ := exists_enabled hI hN (s.next - t) t (Nat.le_refl _) hd
  cases hs' : step s u with
  | none => rw [hs'] at hs; cases hs
  | some s' => exact ⟨u, s', htu, hb, hs', Reachable.step u h hb hs'⟩

/-- a nested send never outlives the discipline: a suspended parent waits for a younger activation -/
theorem nesting (h : Reachable n prog s) (p c : Tid) (hw : s.wait p = some c) : p < c ∧ c < s.next :=
  (reachable_inv h).2.wait_lt p c hw

/-- **(6, obstruction-free form) Bounded return.** From any reachable state, a sender that is left
undisturbed has returned from ALL its calls after at most `soloFuel s t` of its own lines
(`9·|queue| + 25·|calls still to start| +` at most 14 for the call it is in); every single line
strictly decreases that bound.  (Under interference no bound in terms of the thread's own program exists:
other threads can keep the queue non-empty; each wasted iteration is then paid for by another thread's pop.) -/
theorem returns_when_undisturbed (h : Reachable n prog s) (t : Tid) :
    isDone (runSolo s t (soloFuel s t)) t
    ∧ (¬ isDone s t → ∃ s', step s t = some s' ∧ soloFuel s' t < soloFuel s t) :=
  ⟨solo_returns_aux t _ s (reachable_inv h).1 (Nat.le_refl _), fun hd => solo_step (reachable_inv h).1 hd⟩

/-- **(6b)** a nested (re-entrant) send, which runs while its parent stands still, returns within
`9·|queue| + 25` lines; so the parent is suspended only for a bounded time and the discipline of (5)
never leaves it waiting for ever -/
theorem nested_send_returns (h : Reachable n prog s) (p : Tid) (m : Msg) :
    soloFuel (reenter s p m) s.next = 9 * s.queue.length + 25
    ∧ (Reachable n prog (reenter s p m) →
        isDone (runSolo (reenter s p m) s.next (9 * s.queue.length + 25)) s.next) := by
  have hf := soloFuel_reenter (reachable_inv h).2 p m
  refine ⟨hf, fun h' => ?_⟩
  rw [← hf]
  exact (returns_when_undisturbed h' s.next).1

/-! ### non-vacuity: concrete reachable states -/

/-- thread 0 sends a three-write message then a small one, thread 1 sends one small message -/
def P : Tid → List Msg
  | 0 => [⟨1, true⟩, ⟨2, false⟩]
  | 1 => [⟨3, false⟩]
  | _ => []

/-- thread 0 appends, tests, takes the lock, re-checks, pops, writes one piece; thread 1 appends, tests,
fails the try-lock and returns; a finalizer on thread 0 starts a nested send (logical thread 2) which
appends, tests, fails the try-lock and returns; thread 0 finishes the packet, releases, and drains the
queue (messages 3 and 4), then sends message 2 -/
def demo : List Ev :=
  [.run 0, .run 0, .run 0, .run 0, .run 0, .run 0, .run 0,
   .run 1, .run 1, .run 1, .run 1,
   .reent 0 ⟨4, false⟩, .run 2, .run 2, .run 2, .run 2,
   .run 0, .run 0, .run 0,
   .run 0, .run 0, .run 0, .run 0, .run 0, .run 0,
   .run 0, .run 0, .run 0, .run 0, .run 0, .run 0,
   .run 0,
   .run 0, .run 0, .run 0, .run 0, .run 0, .run 0, .run 0, .run 0, .run 0]

def wireIds (s : St) : List (Nat × Nat) := s.wire.map (fun p => (p.1.2.id, p.2))

example : ∃ s, Reachable 2 P s
    ∧ wireIds s = [(1, 0), (1, 1), (1, 2), (3, 0), (4, 0), (2, 0)]
    ∧ (∀ t, t < 3 → isDone s t) ∧ s.next = 3 ∧ s.appended.length = 4 ∧ s.queue = [] := by
  have h1 : (execAll (init 2 P) demo).map wireIds = some [(1, 0), (1, 1), (1, 2), (3, 0), (4, 0), (2, 0)] := by decide
  have h2 : (execAll (init 2 P) demo).map (fun s => (List.range 3).all (isDoneB s)) = some true := by decide
  have h3 : (execAll (init 2 P) demo).map (fun s => (s.next, s.appended.length, s.queue.length)) = some (3, 4, 0) := by
    decide
  cases hrun : execAll (init 2 P) demo with
  | none => rw [hrun] at h1; cases h1
  | some s =>
    rw [hrun] at h1 h2 h3
    simp only [Option.map_some, Option.some.injEq, Prod.mk.injEq] at h1 h2 h3
    refine ⟨s, reachable_execAll demo Reachable.init hrun, h1, ?_, h3.1, h3.2.1, List.eq_nil_of_length_eq_zero h3.2.2⟩
    intro t ht
    have := List.all_eq_true.1 h2 t (List.mem_range.2 ht)
    exact (isDoneB_iff s t).1 this

/-- a state in the middle of the three-write packet: the hypotheses of (1)–(3) and (5) are met with the
lock held, an item in hand, one piece on the wire, a non-empty queue and a suspended parent -/
example : ∃ s, Reachable 2 P s ∧ s.lock = true ∧ s.pc 0 = .write ∧ s.nw = 1 ∧ s.queue.length = 2
    ∧ blocked s 0 ∧ ¬ isDone s 2 := by
  have h1 : (execAll (init 2 P) (demo.take 14)).map
      (fun s => (s.lock, decide (s.pc 0 = .write), s.nw, s.queue.length, blockedB s 0, isDoneB s 2))
      = some (true, true, 1, 2, true, false) := by decide
  cases hrun : execAll (init 2 P) (demo.take 14) with
  | none => rw [hrun] at h1; cases h1
  | some s =>
    rw [hrun] at h1
    simp only [Option.map_some, Option.some.injEq, Prod.mk.injEq, decide_eq_true_eq] at h1
    refine ⟨s, reachable_execAll _ Reachable.init hrun, h1.1, h1.2.1, h1.2.2.1, h1.2.2.2.1,
      (blockedB_iff s 0).1 h1.2.2.2.2.1, fun hd => ?_⟩
    have := (isDoneB_iff s 2).2 hd
    rw [h1.2.2.2.2.2] at this; cases this

end Rpyc.Props.C12
