import RpycModel.Spec.Grammar
import RpycModel.Spec.WireBridge
/-
C19 — bytes on the wire are those of the published 5.x protocol.
Only property theorems and their non-vacuity examples live here (namespace Rpyc.Props.C19); the
published format is RpycModel/Spec/Published.lean (hand-written, never generated), the model of what
the code does is RpycModel/Brine/Model.lean (L1) and RpycModel/Spec/Code.lean (L2, L6) over the
regenerated constants, helper lemmas are in RpycModel/Spec/Lemmas.lean.
-/
namespace Rpyc.Props.C19
open Rpyc Rpyc.Spec

/-! ### (1) every regenerated constant has its published value — one lemma per group -/

/-- the brine tag table of the tree under check is the documented one -/
theorem tags_published :
    [("TAG_NONE", Gen.tagNone), ("TAG_EMPTY_STR", Gen.tagEmptyStr), ("TAG_EMPTY_TUPLE", Gen.tagEmptyTuple),
     ("TAG_TRUE", Gen.tagTrue), ("TAG_FALSE", Gen.tagFalse), ("TAG_NOT_IMPLEMENTED", Gen.tagNotImplemented),
     ("TAG_ELLIPSIS", Gen.tagEllipsis), ("TAG_UNICODE", Gen.tagUnicode), ("TAG_STR1", Gen.tagStr1),
     ("TAG_STR2", Gen.tagStr2), ("TAG_STR3", Gen.tagStr3), ("TAG_STR4", Gen.tagStr4),
     ("TAG_STR_L1", Gen.tagStrL1), ("TAG_STR_L4", Gen.tagStrL4), ("TAG_TUP1", Gen.tagTup1),
     ("TAG_TUP2", Gen.tagTup2), ("TAG_TUP3", Gen.tagTup3), ("TAG_TUP4", Gen.tagTup4),
     ("TAG_TUP_L1", Gen.tagTupL1), ("TAG_TUP_L4", Gen.tagTupL4), ("TAG_INT_L1", Gen.tagIntL1),
     ("TAG_INT_L4", Gen.tagIntL4), ("TAG_FLOAT", Gen.tagFloat), ("TAG_SLICE", Gen.tagSlice),
     ("TAG_FSET", Gen.tagFset), ("TAG_COMPLEX", Gen.tagComplex)] = tagTable := by decide

/-- the tags the loader is keyed by are exactly the documented ones (no extra, none missing) -/
theorem load_registry_published :
    Gen.loadRegistryTags.all (fun t => (tagTable.map (·.2)).contains t) = true
    ∧ (tagTable.map (·.2)).all (fun t => Gen.loadRegistryTags.contains t) = true := by decide

/-- integers from −48 to 159 travel as the single byte `i + 0x50` -/
theorem imm_window_published : Gen.immLo = IMM_LO ∧ Gen.immHi = IMM_HI ∧ Gen.immBase = IMM_BASE := by decide

/-- length fields and floats are packed `!B`, `!L`, `!d`, `!dd`.  GUARD, not a comparison: the generator emits the
literal `true` after checking the four `Struct` formats and refuses to generate otherwise (the failure then is
"translator: Brine.lean: inexpressible"), so this statement itself cannot turn false. -/
theorem struct_formats_published : Gen.structFormatsStandard = true := by decide

theorem msg_kinds_published : Gen.Consts.msgs = msgTable
    ∧ Gen.Consts.msgRequest = MSG_REQUEST ∧ Gen.Consts.msgReply = MSG_REPLY
    ∧ Gen.Consts.msgException = MSG_EXCEPTION := by decide

theorem labels_published : Gen.Consts.labels = labelTable
    ∧ Gen.Consts.labelValue = LABEL_VALUE ∧ Gen.Consts.labelTuple = LABEL_TUPLE
    ∧ Gen.Consts.labelLocalRef = LABEL_LOCAL_REF ∧ Gen.Consts.labelRemoteRef = LABEL_REMOTE_REF := by decide

/-- the twenty handler numbers -/
theorem handlers_published : Gen.Consts.handlers = handlerTable := by decide

/-- each handler number is served by the operation it is published to mean -/
theorem handler_routing_published : Gen.Consts.requestHandlers = handlerMeaning := by decide

theorem exc_published : Gen.Consts.excs = excTable ∧ Gen.Consts.excStopIteration = EXC_STOP_ITERATION := by decide

/-- threshold 3000, level 1, header = 4-byte big-endian length + 1 flag byte, trailer `\n`, chunk 64000 -/
theorem frame_consts_published :
    Gen.Consts.compressionThreshold = COMPRESSION_THRESHOLD ∧ Gen.Consts.compressionLevel = COMPRESSION_LEVEL
    ∧ Gen.Consts.frameBigEndian = true ∧ Gen.Consts.frameLenWidth = FRAME_LEN_WIDTH
    ∧ Gen.Consts.frameFlagWidth = FRAME_FLAG_WIDTH ∧ Gen.Consts.frameHeaderSize = FRAME_HEADER_SIZE
    ∧ Gen.Consts.flusher = FLUSHER ∧ Gen.Consts.streamChunk = STREAM_CHUNK := by decide

/-- rpyc.core.consts defines nothing besides the published names -/
theorem consts_complete : Gen.Consts.others = otherTable := by decide

/-- **generated = published**, all groups -/
theorem gen_eq_published :
    Gen.Consts.msgs = msgTable ∧ Gen.Consts.labels = labelTable ∧ Gen.Consts.handlers = handlerTable
    ∧ Gen.Consts.requestHandlers = handlerMeaning ∧ Gen.Consts.excs = excTable
    ∧ Gen.Consts.others = otherTable
    ∧ Gen.Consts.compressionThreshold = 3000 ∧ Gen.Consts.compressionLevel = 1
    ∧ Gen.Consts.flusher = [0x0a] ∧ Gen.Consts.streamChunk = 64000
    ∧ Gen.immLo = -48 ∧ Gen.immHi = 160 ∧ Gen.immBase = 80 :=
  ⟨msg_kinds_published.1, labels_published.1, handlers_published, handler_routing_published,
   exc_published.1, consts_complete, frame_consts_published.1, frame_consts_published.2.1,
   frame_consts_published.2.2.2.2.2.2.1, frame_consts_published.2.2.2.2.2.2.2,
   imm_window_published.1, imm_window_published.2.1, imm_window_published.2.2⟩

/-! ### (2) the code's encoder is the reference encoder -/

/-- **`dump` = the published encoder**, for every value whose text is made of Unicode scalar values
(everything the published format can express) — all constructors, all sizes, any nesting, and the same
refusals (`TypeError` for a non-serializable member, the packer's error for a length ≥ 2^32).
`Renderable`: each integer is one the interpreter can turn into text (an interpreter limit, not a format
matter). -/
theorem enc_eq_specEnc (v : Val) (hr : Renderable v = true) (hs : ScalarText v = true) :
    Brine.dump v = specEnc v := by
  unfold Brine.dump specEnc
  rw [enc_eq_specEncWith v hr]
  exact specEncWith_mode v hs _ _

/-- for *all* values, including text with lone surrogates: the code's encoder is the reference encoder
under the text rule the code passes to `str.encode` (the pinned tree: `surrogatepass`, a superset of
the published rule that changes no published encoding — see `enc_eq_specEnc`) -/
theorem enc_eq_specEnc_any_text (v : Val) (hr : Renderable v = true) :
    Brine.dump v = specEncWith Gen.dumpStrSurrogatePass v :=
  enc_eq_specEncWith v hr

/-- the example printed in the documentation of brine encodes to the printed bytes -/
theorem doc_sample_published : specEnc docSample = .ok docSampleBytes := by decide +kernel

theorem doc_sample_dump : Brine.dump docSample = .ok docSampleBytes := by
  rw [enc_eq_specEnc docSample (by decide +kernel) (by decide +kernel)]
  exact doc_sample_published

/-! ### known finding: text with a lone surrogate is transmitted in a form the published format does not define -/

/-- at full strength: whatever `dump` emits is what the published encoder defines for that value -/
def C19_emits_only_published : Prop :=
  ∀ (v : Val) (e : Bytes), Renderable v = true → Brine.dump v = .ok e → specEnc v = .ok e

/-- **false of the tree under check** (since `_dump_str` passes `surrogatepass`, C04's repair so that every dumpable
text is encoded): `"\ud800"` is transmitted as `08 0c ED A0 80`, which the published format — text is UTF-8 — does
not define; a conforming decoder rejects it.  Known finding `C19:lone-surrogate-text-uses-surrogatepass`. -/
theorem C19_emits_only_published_counterexample : ¬ C19_emits_only_published := by
  intro h
  have h1 : Brine.dump (.str [0xD800]) = .ok [0x08, 0x0c, 0xED, 0xA0, 0x80] := by decide +kernel
  have h2 := h (.str [0xD800]) _ (by decide) h1
  have h3 : specEnc (.str [0xD800]) = .error .unicodeEncodeError := by decide +kernel
  rw [h3] at h2
  cases h2

/-- what does hold: on every value whose text consists of Unicode scalar values -/
theorem C19_emits_only_published_partial (v : Val) (e : Bytes) (hr : Renderable v = true)
    (hs : ScalarText v = true) (h : Brine.dump v = .ok e) : specEnc v = .ok e := by
  rw [← enc_eq_specEnc v hr hs]; exact h

/-! ### (5) the frame -/

/-- **frame layout**: what `Channel.send` writes for `data` is `be32 len ++ [flag] ++ payload ++ [0x0a]`
with `flag = 1` and `payload = deflate data` iff compression is on and `len data > 3000`, else `flag = 0`
and `payload = data` (for any `deflate`: zlib is a parameter). -/
theorem frame_layout (deflate : Bytes → Bytes) (compress : Bool) (data : Bytes)
    (h1 : data.length < 2 ^ 32) (h2 : (deflate data).length < 2 ^ 32) :
    Code.channelSend deflate compress data =
      if compress = true ∧ data.length > 3000
      then .ok (beN 4 (deflate data).length ++ [1] ++ deflate data ++ [0x0a])
      else .ok (beN 4 data.length ++ [0] ++ data ++ [0x0a]) := by
  rw [channelSend_eq]
  unfold sendFrame compresses
  by_cases hc : compress = true ∧ data.length > 3000
  · have : (compress && decide (data.length > COMPRESSION_THRESHOLD)) = true := by
      simp [COMPRESSION_THRESHOLD, hc.1, hc.2]
    rw [if_pos this, if_pos h2, if_pos hc, frameOf_explicit 1 _ (by decide)]
  · have : ¬ (compress && decide (data.length > COMPRESSION_THRESHOLD)) = true := by
      intro h; apply hc; simpa [COMPRESSION_THRESHOLD] using h
    rw [if_neg this, if_pos h1, if_neg hc, frameOf_explicit 0 _ (by decide)]

/-- the frame of C05's independently written model of `Channel.send` (RpycModel/Wire/Model.lean, the one
C05's stream theorems are about) is this same published frame -/
theorem frame_eq_wire_model (z : Wire.ZlibFns) (compress : Bool) (data : Bytes) :
    Wire.frame z compress data = sendFrame z.compress compress data
    ∧ Code.channelSend z.compress compress data = Wire.frame z compress data :=
  ⟨wire_frame_published z compress data, channelSend_eq_wire_frame z compress data⟩

/-- **any conforming frame is accepted and means the same**: whatever compressor the sender used (any
level, any implementation — `deflate'`), or none at all, `Channel.recv` returns the data, provided only
that the receiver's zlib inverts it. -/
theorem recv_accepts_conforming_frame (deflate' : Bytes → Bytes) (inflate : Bytes → Option Bytes)
    (hz : ∀ b, inflate (deflate' b) = some b) (compress : Bool) (data rest frame : Bytes)
    (h : sendFrame deflate' compress data = .ok frame) :
    Code.channelRecv inflate (frame ++ rest) = .ok (data, rest) := by
  unfold sendFrame at h
  split at h
  · split at h
    · rename_i hl
      injection h with h; subst h
      rw [channelRecv_frameOf inflate 1 _ rest hl (by decide)]
      simp [Code.recvResult, hz]
    · simp at h
  · split at h
    · rename_i hl
      injection h with h; subst h
      rw [channelRecv_frameOf inflate 0 _ rest hl (by decide)]
      simp [Code.recvResult]
    · simp at h

/-! ### (6) messages -/

/-- **boxing labels**: `_box` yields the published label tree `(1, v) | (2, (…)) | (3, id) | (4, id_pack)` -/
theorem box_layout (o : Code.Obj) : Code.box o = (boxedOf o).toVal := box_eq o

/-- **request** = `(1, seq, (handler, boxed))` -/
theorem msg_layout_request (seq : Int) (handler : Nat) (args : Code.Obj) :
    Code.requestVal seq handler args = (Msg.request seq handler (boxedOf args)).toVal
    ∧ (Msg.request seq handler (boxedOf args)).toVal
        = .tuple [.int 1, .int seq, .tuple [.int handler, (boxedOf args).toVal]] := by
  constructor
  · simp [Code.requestVal, Code.msgVal, Msg.toVal, box_eq, c_msgRequest]
  · rfl

/-- **reply** = `(2, seq, boxed)` -/
theorem msg_layout_reply (seq : Int) (res : Code.Obj) :
    Code.replyVal seq res = (Msg.reply seq (boxedOf res)).toVal
    ∧ (Msg.reply seq (boxedOf res)).toVal = .tuple [.int 2, .int seq, (boxedOf res).toVal] := by
  constructor
  · simp [Code.replyVal, Code.msgVal, Msg.toVal, box_eq, c_msgReply]
  · rfl

/-- **exception** = `(3, seq, dumped)`; the fast path for an argument-less StopIteration is the integer 1 -/
theorem msg_layout_exception (seq : Int) (dumped : Val) :
    Code.exceptionVal seq dumped = (Msg.exception seq dumped).toVal
    ∧ (Msg.exception seq dumped).toVal = .tuple [.int 3, .int seq, dumped]
    ∧ Code.dumpedStopIteration = .int 1 := by
  refine ⟨?_, rfl, ?_⟩
  · simp [Code.exceptionVal, Code.msgVal, Msg.toVal, c_msgException]
  · simp [Code.dumpedStopIteration, c_excStopIteration, EXC_STOP_ITERATION]

/-- **the bytes of a message**: what `_send` hands to the channel is the published encoding of the
published layout -/
theorem msg_layout_wire (m : Msg) (hr : Renderable m.toVal = true) (hs : ScalarText m.toVal = true) :
    Brine.dump m.toVal = m.wire :=
  enc_eq_specEnc m.toVal hr hs

theorem request_wire (seq : Int) (handler : Nat) (args : Code.Obj)
    (hr : Renderable (Msg.request seq handler (boxedOf args)).toVal = true)
    (hs : ScalarText (Msg.request seq handler (boxedOf args)).toVal = true) :
    Code.asyncRequest seq handler args = (Msg.request seq handler (boxedOf args)).wire := by
  unfold Code.asyncRequest
  rw [(msg_layout_request seq handler args).1]
  exact msg_layout_wire _ hr hs

theorem reply_wire (seq : Int) (res : Code.Obj)
    (hr : Renderable (Msg.reply seq (boxedOf res)).toVal = true)
    (hs : ScalarText (Msg.reply seq (boxedOf res)).toVal = true) :
    Code.sendReply seq res = (Msg.reply seq (boxedOf res)).wire := by
  unfold Code.sendReply
  rw [(msg_layout_reply seq res).1]
  exact msg_layout_wire _ hr hs

theorem exception_wire (seq : Int) (dumped : Val)
    (hr : Renderable (Msg.exception seq dumped).toVal = true)
    (hs : ScalarText (Msg.exception seq dumped).toVal = true) :
    Code.sendException seq dumped = (Msg.exception seq dumped).wire := by
  unfold Code.sendException
  rw [(msg_layout_exception seq dumped).1]
  exact msg_layout_wire _ hr hs

/-- **reading**: `_dispatch` takes a published message for what it is … -/
theorem dispatch_reads_published (seq : Int) (handler : Nat) (b : Boxed) (d : Val) :
    Code.dispatch (Msg.request seq handler b).toVal = .ok (.request (.int seq) (.tuple [.int handler, b.toVal]))
    ∧ Code.requestParts (.tuple [.int handler, b.toVal]) = .ok (.int handler, b.toVal)
    ∧ Code.dispatch (Msg.reply seq b).toVal = .ok (.reply (.int seq) b.toVal)
    ∧ Code.dispatch (Msg.exception seq d).toVal = .ok (.exception (.int seq) d) := by
  refine ⟨?_, rfl, ?_, ?_⟩ <;>
    simp [Code.dispatch, Code.unpack3, Code.numEq, Msg.toVal, c_msgRequest, c_msgReply, c_msgException,
      MSG_REQUEST, MSG_REPLY, MSG_EXCEPTION]

/-- … and `_unbox` takes each published label for what it is -/
theorem unbox_reads_published (v p : Val) (xs : List Boxed) :
    Code.unboxNode (Boxed.value v).toVal = .ok (.value v)
    ∧ Code.unboxNode (Boxed.tuple xs).toVal = .ok (.tuple (Boxed.toVals xs))
    ∧ Code.unboxNode (Boxed.localRef p).toVal = .ok (.localRef p)
    ∧ Code.unboxNode (Boxed.remoteRef p).toVal = .ok (.remoteRef p) := by
  refine ⟨?_, ?_, ?_, ?_⟩ <;>
    simp [Code.unboxNode, Code.unpack2, Code.numEq, Boxed.toVal, c_labelValue, c_labelTuple, c_labelLocalRef,
      c_labelRemoteRef, LABEL_VALUE, LABEL_TUPLE, LABEL_LOCAL_REF, LABEL_REMOTE_REF]

/-! ### (6b) below `(kind, seq, args)`: per-handler argument layouts, tied to the live code by generated facts

`Gen/Consts.lean` carries the `_handle_*` signatures (inspect.signature) and every HANDLE_* call site of the package
(AST); `Gen/Recorded.lean` carries what the live code DID on fixed probes when the constants were regenerated: the
requests its call sites emitted (decoded by the independent reference decoder), `_box` on five objects, the
responses of `_dispatch_request`, the classification by `_dispatch`.  The theorems below compare those facts with the
published tables and with the hand-written `Code.*` model, so `Code.*` is tied to the code by proof obligations. -/

/-- every handler takes the published number of required and optional arguments -/
theorem handler_arity_published : Gen.Consts.handlerArity = handlerArity := by decide

/-- every call site of the package that issues a HANDLE_* request passes a number of arguments its handler's
published layout admits -/
theorem call_sites_fit_published :
    Gen.Consts.callSites.all (fun site =>
      match handlerTable.lookup site.1 with
      | none => false
      | some h => match handlerArity.lookup h with
        | none => false
        | some ar => decide (ar.1 ≤ site.2) && decide (site.2 ≤ ar.1 + ar.2)) = true := by decide

/-- the scan is not empty-handed: every one of the twenty published handlers has at least one call site in the
package (a handler whose requests are issued through an extracted helper would vanish from the list — the generator
also refuses any request call whose handler is not a HANDLE_* constant outside the known forwarders) -/
theorem call_sites_cover_published :
    handlerTable.all (fun h => Gen.Consts.callSites.any (fun site => site.1 == h.1)) = true
    ∧ 20 ≤ Gen.Consts.callSites.length := by decide

/-- all probes ran (none of the live operations raised against a conforming responder) -/
theorem recorded_probes_ran : Gen.Recorded.probeErrors = [] := by decide

/-- **each operation issues its published handler**: getattr → HANDLE_GETATTR, setattr → HANDLE_SETATTR, a call
(also through `async_` / `timed`) → HANDLE_CALL, a special method → HANDLE_CALLATTR, == → HANDLE_CMP, leaving a `with`
block → HANDLE_CTXEXIT, isinstance → HANDLE_INSTANCECHECK, finalisation → HANDLE_DEL, …; auxiliary requests (their
number, order and sequence numbers) are not constrained; every probe that emitted anything is accounted for -/
theorem operations_use_published_handlers :
    probeOperations.all (probeUsed Gen.Recorded.callSiteRequests) = true
    ∧ Gen.Recorded.callSiteRequests.all (fun p => p.2.isEmpty || probeOperations.any (fun o => o.1 == p.1)) = true := by
  decide +kernel

/-- **every request the live call sites emitted has the published argument layout**: arities, names as text,
positional arguments as a tuple, keyword arguments as a tuple of `(name, value)` pairs, id_packs as
`(name, class id, instance id)`, counts as integers -/
theorem recorded_requests_conform :
    Gen.Recorded.callSiteRequests.all (fun p => p.2.all conformingMessage) = true := by decide +kernel

/-- `Connection._box` did on the five probe objects what the model `Code.box` says -/
theorem recorded_box_matches_model :
    (Gen.Recorded.boxed.zip boxProbes).all (fun p => p.1.1 == p.2.1 && Val.beq p.1.2 (Code.box p.2.2)) = true
    ∧ Gen.Recorded.boxed.length = boxProbes.length := by decide +kernel

/-- the `(handler, boxed arguments)` of six live call sites are exactly what the model of `_async_request` / `_box`
builds (sequence numbers not compared): getattr; calls with keyword arguments — direct, through `async_`, through
`timed` — as a tuple of pairs by value; a call passing an object by reference; a call passing ANOTHER connection's
proxy (an object of the sender: REMOTE_REF, never LOCAL_REF) -/
theorem recorded_requests_match_model :
    probeEmitted Gen.Recorded.callSiteRequests "getattr" "HANDLE_GETATTR"
        (.tup [.ownProxy probeP, .plain (.str [97, 116, 116, 114])]) = true
    ∧ probeEmitted Gen.Recorded.callSiteRequests "call-kw" "HANDLE_CALL"
        (.tup [.ownProxy probeP, .plain (.tuple [.int 3]),
          .plain (.tuple [.tuple [.str [122], .none], .tuple [.str [121], .tuple [.int 7, .str [107]]]])]) = true
    ∧ probeEmitted Gen.Recorded.callSiteRequests "async-call-kw" "HANDLE_CALL"
        (.tup [.ownProxy probeP, .plain (.tuple [.int 1]), .plain (.tuple [.tuple [.str [98], .int 2]])]) = true
    ∧ probeEmitted Gen.Recorded.callSiteRequests "timed-call-kw" "HANDLE_CALL"
        (.tup [.ownProxy probeP, .plain (.tuple [.int 2]), .plain (.tuple [.tuple [.str [99], .tuple [.int 3]]])]) = true
    ∧ probeEmitted Gen.Recorded.callSiteRequests "call-with-object" "HANDLE_CALL"
        (.tup [.ownProxy probeP, .tup [.object probeObj, .tup [.plain (.int 1), .object probeObj]], .plain (.tuple [])]) = true
    ∧ probeEmitted Gen.Recorded.callSiteRequests "call-with-foreign-proxy" "HANDLE_CALL"
        (.tup [.ownProxy probeP, .tup [.object probeQ], .plain (.tuple [])]) = true := by
  decide +kernel

/-- `Connection._unbox` did on ten boxed values what the model says: by-value leaves, tuples item by item, a LOCAL_REF
resolved to the very object lent before (unknown key: KeyError), a REMOTE_REF resolved to the existing proxy, unknown
labels refused (ValueError), a bool label compared with `==`, a package that is not a pair refused -/
theorem recorded_unbox_matches_model :
    Gen.Recorded.unboxed.all (fun e =>
      Code.showDescr (Code.unboxDescr
        (fun k => if Val.beq k probeObj then some "the-object" else none)
        (fun p => if Val.beq p probeP then some "the-proxy" else none)
        (valSize e.2.1 + 2) e.2.1) == e.2.2) = true
    ∧ Gen.Recorded.unboxed.length = 10 := by decide +kernel

/-- **what `_dispatch_request` sent back** on fourteen published requests (fed in non-shortest encodings): every one
got exactly one response, a published message with the request's sequence number; the replies to ping, getroot and a
keyword-argument call (`c=3, b=2` reordered) and the marker for a bare StopIteration are exactly what the model builds -/
theorem recorded_responses_published :
    Gen.Recorded.served.all (fun e => answeredWith 2 e || answeredWith 3 e) = true
    ∧ Gen.Recorded.served.length = 14
    ∧ isResponse (Code.replyVal 100 (.plain (.tuple [.str [120], .float 0x3ff8000000000000])))
        (responseTo Gen.Recorded.served 100) = true
    ∧ isResponse (Code.replyVal 101 (.object probeSvc)) (responseTo Gen.Recorded.served 101) = true
    ∧ isResponse (Code.exceptionVal 104 Code.dumpedStopIteration) (responseTo Gen.Recorded.served 104) = true
    ∧ isResponse (Code.replyVal 105 (.plain (.tuple [.int 1, .int 2, .int 3]))) (responseTo Gen.Recorded.served 105) = true := by
  decide +kernel

/-- **the dumped-exception tuple**, positions compared: `((module, class), args, ((attr, value)…), traceback text)` for a
built-in exception (`KeyError("k")`), a custom one (`ProbeError("m", 3)` with its public attribute `code = 7`) and an
uncallable target, without traceback/version (`<traceback denied>`) and under the DEFAULT configuration (traceback
text `Traceback (most recent call last): …`, `_remote_version` present) -/
theorem recorded_exceptions_published :
    dumpedIs [98, 117, 105, 108, 116, 105, 110, 115] [75, 101, 121, 69, 114, 114, 111, 114] (.tuple [.str [107]]) none
        [60, 116, 114, 97, 99, 101, 98, 97, 99, 107, 32, 100, 101, 110, 105, 101, 100, 62]
        (responseTo Gen.Recorded.served 102) = true
    ∧ dumpedIs [103, 101, 110, 95, 112, 114, 111, 116, 111, 95, 99, 111, 110, 115, 116, 115]
        [80, 114, 111, 98, 101, 69, 114, 114, 111, 114] (.tuple [.str [109], .int 3])
        (some (.tuple [.str [99, 111, 100, 101], .int 7]))
        [60, 116, 114, 97, 99, 101, 98, 97, 99, 107, 32, 100, 101, 110, 105, 101, 100, 62]
        (responseTo Gen.Recorded.served 103) = true
    ∧ dumpedIs [98, 117, 105, 108, 116, 105, 110, 115] [75, 101, 121, 69, 114, 114, 111, 114] (.tuple [.str [107]]) none
        [84, 114, 97, 99, 101, 98, 97, 99, 107, 32, 40, 109, 111, 115, 116, 32, 114, 101, 99, 101, 110, 116]
        (responseTo Gen.Recorded.servedDefault 200) = true
    ∧ dumpedIs [103, 101, 110, 95, 112, 114, 111, 116, 111, 95, 99, 111, 110, 115, 116, 115]
        [80, 114, 111, 98, 101, 69, 114, 114, 111, 114] (.tuple [.str [109], .int 3])
        (some (.tuple [.str [99, 111, 100, 101], .int 7]))
        [84, 114, 97, 99, 101, 98, 97, 99, 107, 32, 40, 109, 111, 115, 116, 32, 114, 101, 99, 101, 110, 116]
        (responseTo Gen.Recorded.servedDefault 201) = true
    ∧ Gen.Recorded.servedDefault.all (fun e => answeredWith 3 e) = true := by
  decide +kernel

/-- **fixed reply shapes**: what the live handlers answered for repr, str, hash, dir, inspect, buffiter and pickle
(and every other recorded request) has the shape published for that handler: text, text, integer, a tuple of names,
a tuple of `(method name, docstring or None)`, a tuple, a byte string -/
theorem recorded_replies_have_published_shape :
    Gen.Recorded.served.all replyShapeOk = true
    ∧ (replyShape.map (·.1)).all (fun h => Gen.Recorded.served.any (fun e =>
        match Msg.ofVal? e.1, e.2 with
        | some (.request _ h' _), [r] => h' == h && (match Msg.ofVal? r with
            | some (.reply _ _) => true
            | _ => false)
        | _, _ => false)) = true := by
  decide +kernel

/-- **`_dispatch` classified nineteen payloads as the model does**: integer, bool, float and complex message
kinds (Python `==`), a non-integer sequence number, unknown kinds, wrong arities, a non-iterable, a byte string -/
theorem recorded_dispatch_matches_model :
    Gen.Recorded.classified.all (fun p => Code.dispatchOutcome p.1 == p.2) = true
    ∧ Gen.Recorded.classified.length = 19 := by decide +kernel

/-! ### (3), (4) the grammar: every legal form is accepted and means the same; `dump` emits a shortest one -/

/-- **decoder complete for the grammar**: every byte string that denotes `v` in the published format — in
any fitting length class, shortest or not, e.g. a 3-byte string sent with TAG_STR_L4, a 2-tuple with
TAG_TUP_L1, a small integer as decimal text — is loaded, and loaded as exactly `v` (a frozenset comes
back with its members in wire order).  `Parsable`: every integer has no more digits than the
interpreter's `int()` accepts. -/
theorem dec_complete (bs : Bytes) (v : Val) (h : Denotes bs v) (hp : Parsable v = true) :
    Brine.load bs = .ok v := by
  have hn := (need_le_denotes h).1
  have := dec_denotes h hp (2 * bs.length + 2) [] (by omega)
  simp only [List.append_nil] at this
  simp [Brine.load, this]

/-- the same inside any stream: exactly the sentence is consumed -/
theorem dec_complete_stream (bs tail : Bytes) (v : Val) (h : Denotes bs v) (hp : Parsable v = true)
    (fuel : Nat) (hf : Brine.need v ≤ fuel) : Brine.dec fuel (bs ++ tail) = .ok (v, tail) :=
  dec_denotes h hp fuel tail hf

/-- **one packet = one message**: whatever follows the (single) value in a packet's payload — a second encoded
message, garbage — is never read: the payload means its first value and nothing else (`brine.load` stops after
one value; `_dispatch` loads once) -/
theorem one_message_per_packet (bs rest : Bytes) (v : Val) (h : Denotes bs v) (hp : Parsable v = true) :
    Brine.load (bs ++ rest) = .ok v := by
  have hn := (need_le_denotes h).1
  have := dec_denotes h hp (2 * (bs ++ rest).length + 2) rest (by simp; omega)
  unfold Brine.load
  rw [this]

/-- **`dump` emits a shortest form**: no byte string denoting `v` is shorter than `dump v` -/
theorem enc_shortest (bs : Bytes) (v : Val) (h : Denotes bs v) (hr : Renderable v = true)
    (e : Bytes) (he : Brine.dump v = .ok e) : e.length ≤ bs.length := by
  unfold Brine.dump at he
  rw [enc_eq_specEncWith v hr] at he
  exact specEncWith_shortest h _ e he

/-- … and `dump v` is itself a sentence denoting `v` (so the minimum is attained by it) -/
theorem enc_in_grammar (v : Val) (hw : v.wf = true) (hr : Renderable v = true) (hs : ScalarText v = true)
    (e : Bytes) (he : Brine.dump v = .ok e) : Denotes e v := by
  rw [enc_eq_specEnc v hr hs] at he
  exact specEnc_denotes v e hw he

/-! ### non-vacuity -/

/-- a `getattr(root, "answer")` request whose first argument is the peer's own object, as published -/
def sampleRequest : Msg :=
  .request 7 4 (.tuple [.localRef (.tuple [.str [0x61], .int 140001, .int 140002]), .value (.str [0x61, 0x6e])])

example : Renderable sampleRequest.toVal = true ∧ ScalarText sampleRequest.toVal = true := by decide +kernel
example : sampleRequest.wire = .ok
    [0x12, 0x51, 0x57, 0x11, 0x54, 0x11, 0x52, 0x11, 0x11, 0x53, 0x12, 0x08, 0x0a, 0x61, 0x16, 0x06,
     0x31, 0x34, 0x30, 0x30, 0x30, 0x31, 0x16, 0x06, 0x31, 0x34, 0x30, 0x30, 0x30, 0x32, 0x11, 0x51,
     0x08, 0x0b, 0x61, 0x6e] := by decide +kernel
/-- a receiver reading the sample request back finds a getattr request whose arguments fit the published layout -/
example : (Msg.ofVal? sampleRequest.toVal).map Msg.kind = some "request"
    ∧ (Msg.ofVal? sampleRequest.toVal).map Msg.conforms = some true ∧ sampleRequest.conforms = true := by
  decide +kernel
/-- a 3001-byte packet is compressed, a 3000-byte packet is not -/
example : compresses true (List.replicate 3001 0) = true ∧ compresses true (List.replicate 3000 0) = false
    ∧ compresses false (List.replicate 3001 0) = false := by decide +kernel
/-- a value the published text rule cannot express is still encoded by the code (superset) -/
example : ScalarText (.str [0xD800]) = false ∧ specEnc (.str [0xD800]) = .error .unicodeEncodeError
    ∧ specEncWith true (.str [0xD800]) = .ok [0x08, 0x0c, 0xED, 0xA0, 0x80] := by decide +kernel
/-- the boundary between the one-byte and four-byte length classes -/
example : specEnc (.bytes (List.replicate 255 7)) = .ok (0x0e :: 255 :: List.replicate 255 7)
    ∧ specEnc (.bytes (List.replicate 256 7)) = .ok (0x0f :: 0 :: 0 :: 1 :: 0 :: List.replicate 256 7) := by
  decide +kernel

/-- non-shortest sentences: "abc" with the four-byte length class, a pair with TAG_TUP_L1, 5 as text -/
example : Denotes [0x0f, 0, 0, 0, 3, 0x61, 0x62, 0x63] (.bytes [0x61, 0x62, 0x63]) :=
  Denotes.bytes [0x61, 0x62, 0x63] ⟨"TAG_STR_L4", TAG_STR_L4, .l4⟩ (by decide) (by decide)
example : Brine.load [0x14, 2, 0x16, 1, 0x35, 0x00] = .ok (.tuple [.int 5, .none]) :=
  dec_complete _ _ pair_in_long_form (by decide +kernel)
/-- … while `dump` of the same value takes 3 bytes, not 6 -/
example : Brine.dump (.tuple [.int 5, .none]) = .ok [0x11, 0x55, 0x00] := by decide +kernel
example : Parsable docSample = true ∧ docSample.wf = true := by decide +kernel

end Rpyc.Props.C19
