import RpycModel.Box.Values
import RpycModel.Props.C04
import RpycModel.Props.C10
/-
C03 — immutable plain values travel by copy with their exact type, everything else by reference; a reference
handed back to its owner is the original object; a remote object received again while its proxy is alive is that
same proxy.
Only the property theorems and their non-vacuity examples live here (namespace Rpyc.Props.C03); the model is
Part 2 of RpycModel/Box/Model.lean, the helper lemmas RpycModel/Box/Values.lean.

`PyVal` is any value: plain values of any size and nesting, tuples mixing values and references to any depth,
objects with identity, instances of subclasses of the plain types, proxies.  Nothing is bounded.
-/
namespace Rpyc.Props.C03
open Rpyc Rpyc.Box Rpyc.Brine

/-- **unbox ∘ box.**  Whatever value `x` one end boxes, the other end's `_unbox` accepts the result and yields
what `Arrives x ·` describes: an equal plain value of exactly the same type tree, a proxy of the same key for every
object (subclass instances included), the original object for a proxy handed back, component by component through
tuples of any shape — provided the objects behind the proxies in `x` are still in the receiver's table, which C10
(`alive_while_held`) guarantees while those proxies live.  The receiver's table is not touched. -/
theorem unbox_box (x : PyVal) (t t' : Tbl) (l : Label) (s : Side)
    (hb : box t x = .ok (l, t')) (hres : ∀ id ∈ x.proxies, s.tbl id ≠ none) :
    ∃ y s', unbox s l = .ok (y, s') ∧ Arrives x y ∧ s'.tbl = s.tbl :=
  unbox_box_aux x t t' l s hb hres

/-- **The same through the wire.**  The label tree is serialised by brine as a nested tuple; C04's round trip
(`load_dump`) returns exactly that tuple, reading it back gives the label tree `_box` produced, and `_unbox`
then yields what `Arrives` describes.  `pack`/`unpack` stand for `get_id_pack` (any injective encodable key). -/
theorem value_transfer (pack : Id → Val) (unpack : Val → Option Id) (hp : ∀ k, unpack (pack k) = some k)
    (x : PyVal) (t t' : Tbl) (l : Label) (s : Side) (bs : Bytes)
    (hb : box t x = .ok (l, t')) (hwf : (l.toVal pack).wf = true) (hd : dump (l.toVal pack) = .ok bs)
    (hres : ∀ id ∈ x.proxies, s.tbl id ≠ none) :
    load bs = .ok (l.toVal pack) ∧ parseLabel unpack l.depth (l.toVal pack) = .ok l
    ∧ ∃ y s', unbox s l = .ok (y, s') ∧ Arrives x y :=
  ⟨Rpyc.Props.C04.load_dump _ bs hwf hd,
   parse_toVal pack unpack hp l l.depth (box_known x t t' l hb) (Nat.le_refl _),
   let ⟨y, s', hu, ha, _⟩ := unbox_box x t t' l s hb hres; ⟨y, s', hu, ha⟩⟩

/-- **Plain values arrive as equal values of exactly the same type**: same constructor tree — ints stay ints, bools
bools, floats keep their bits, text stays text, tuples/frozensets/slices keep their structure — and neither table
changes. -/
theorem plain_by_value (v : Val) (hd : dumpable v = true) (t : Tbl) (s : Side) :
    box t (.imm v) = .ok (.value v, t) ∧ unbox s (.value v) = .ok (.imm v, s) := by
  simp [box, unbox, resolve, create, hd]

/-- **By value exactly for plain values.**  `_box` answers `VALUE` iff the value is built only from the immutable
plain types (exact types); otherwise the label is a tuple of labels or a reference. -/
theorem by_value_iff_plain (x : PyVal) (t t' : Tbl) (l : Label) (hb : box t x = .ok (l, t')) :
    (∃ v, l = .value v) ↔ x.dumpable = true := by
  cases x with
  | imm v =>
    simp only [box] at hb
    split at hb
    · rename_i hd; cases hb; simp [PyVal.dumpable, hd]
    · cases hb
  | tup xs =>
    simp only [box] at hb
    split at hb
    · rename_i hd; cases hb; simp [PyVal.dumpable, hd]
    · rename_i hd
      cases hbl : boxL t xs with
      | error e => simp only [hbl] at hb; cases hb
      | ok p => simp only [hbl] at hb; cases hb; simp [PyVal.dumpable, hd]
  | obj id => simp only [box] at hb; cases hb; simp [PyVal.dumpable]
  | sub v id => simp only [box] at hb; cases hb; simp [PyVal.dumpable]
  | proxy id pid => simp only [box] at hb; cases hb; simp [PyVal.dumpable]

/-- **Instances of subclasses go by reference**, whatever plain value they wrap (an enum member, a namedtuple, a
`class MyInt(int)` instance equal to a dumpable int): `REMOTE_REF`, one more box in the owner's table. -/
theorem subclass_by_ref (v : Val) (id : Id) (t : Tbl) : box t (.sub v id) = .ok (.remoteRef id, t.add id) := rfl

/-- ... and so does every other object -/
theorem object_by_ref (id : Id) (t : Tbl) : box t (.obj id) = .ok (.remoteRef id, t.add id) := rfl

/-- a tuple holding anything that is not plain — at any depth — is never sent as one value -/
theorem tuple_with_reference_not_value (xs : List PyVal) (t t' : Tbl) (l : Label) (hnd : PyVal.dumpableL xs = false)
    (hb : box t (.tup xs) = .ok (l, t')) : ∃ ls, l = .tuple ls ∧ boxL t xs = .ok (ls, t') := by
  simp only [box, hnd] at hb
  cases hbl : boxL t xs with
  | error e => simp [hbl] at hb
  | ok p => obtain ⟨ls, t2⟩ := p; simp [hbl] at hb; exact ⟨ls, hb.1.symm, by rw [hb.2]⟩

/-- **Echo identity.**  A proxy boxed by its holder is `LOCAL_REF key` (nothing is added anywhere); the owner's
`_unbox` returns the object stored under that key — the original itself — and changes nothing. -/
theorem echo_identity (id : Id) (pid : Nat) (tHolder : Tbl) (owner : Side) (n : Nat) (h : owner.tbl id = some n) :
    box tHolder (.proxy id pid) = .ok (.localRef id, tHolder)
    ∧ unbox owner (.localRef id) = .ok (.obj id, owner) := by
  simp [box, unbox, resolve, create, h]

/-- ... and while the peer holds a live proxy the entry is there: in every state the C10 machine can reach
(any interleaving of sends, drops, hand-backs and deliveries), a live proxy's `LOCAL_REF` resolves to the object. -/
theorem echo_identity_reachable (ops : List Op) (k : Id) (hlive : (run St.init ops).px k ≠ none)
    (owner : Side) (hs : owner.tbl = (run St.init ops).tbl) :
    unbox owner (.localRef k) = .ok (.obj k, owner) := by
  obtain ⟨n, hn⟩ := Rpyc.Props.C10.alive_while_held ops k (Or.inl hlive)
  simp [unbox, resolve, create, hs, hn]

/-- a `LOCAL_REF` for a key the table does not hold is refused with KeyError, an unknown label with ValueError -/
theorem unbox_refuses (s : Side) (id : Id) (tag : Nat) (h : s.tbl id = none) :
    unbox s (.localRef id) = .error .keyError ∧ unbox s (.other tag) = .error .valueError := by
  simp [unbox, resolve, create, h]

/-- **`_unbox` in two passes** (`_resolve_local_refs`, then proxy creation) accepts exactly the packages the
one-pass walk accepts, with the same values and the same counts — the order matters only for errors and for what a
nested serve() can do in between (C10: `never_keyError_nested`, `onePass_order_counterexample`). -/
theorem unbox_two_pass_agrees (s s' : Side) (l : Label) (y : PyVal) :
    unbox s l = .ok (y, s') ↔ unboxOnePass s l = .ok (y, s') := unbox_iff_onePass s s' l y

/-- **KeyError first.**  A package that refers to a key the receiver's table does not hold is refused with KeyError in
the first pass: wherever the reference sits, whatever else the package carries (fresh references, unknown labels),
and before any proxy is created or counted. -/
theorem missing_local_ref_refused_first (s : Side) (l : Label) (h : ∃ id ∈ l.localRefs, s.tbl id = none) :
    unbox s l = .error .keyError := by
  simp [unbox, resolve_keyError_of_missing l s.tbl h]

/-- where the two orders differ: an unknown label in front of a missing local reference (ValueError before, KeyError
now), and a fresh reference in front of it (before: the proxy was created and counted first) -/
example : unbox Side.init (.tuple [.other 9, .localRef 5]) = .error .keyError
    ∧ unboxOnePass Side.init (.tuple [.other 9, .localRef 5]) = .error .valueError
    ∧ unbox Side.init (.tuple [.remoteRef 1, .tuple [.localRef 5]]) = .error .keyError := ⟨rfl, rfl, rfl⟩

/-- **Proxy uniqueness.**  Receiving a key whose proxy is alive returns that very proxy object (and counts the
reference); the identity of every live proxy is untouched. -/
theorem proxy_unique (s : Side) (id : Id) (h : s.px id ≠ none) :
    ∃ s', unbox s (.remoteRef id) = .ok (.proxy id (s.pid id), s') ∧ s'.pid = s.pid
      ∧ s'.px = s.px.recv id ∧ s'.next = s.next := by
  cases hp : s.px id with
  | none => exact absurd hp h
  | some c => exact ⟨{ s with px := s.px.recv id }, by simp [unbox, resolve, create, unboxRef, hp], rfl, rfl, rfl⟩

/-- the same remote object received twice in a row is one proxy, whether or not one existed before -/
theorem same_proxy_twice (s s1 s2 : Side) (id : Id) (y1 y2 : PyVal)
    (h1 : unbox s (.remoteRef id) = .ok (y1, s1)) (h2 : unbox s1 (.remoteRef id) = .ok (y2, s2)) : y1 = y2 := by
  simp only [unbox, resolve, create, Except.ok.injEq] at h1 h2
  cases hp : s.px id with
  | some c =>
    simp only [unboxRef, hp] at h1
    obtain ⟨rfl, rfl⟩ := Prod.mk.inj h1
    have : (s.px.recv id) id = hit (some c) := by simp [Tbl.recv, hp]
    simp only [unboxRef, this, hit] at h2
    exact (Prod.mk.inj h2).1
  | none =>
    simp only [unboxRef, hp] at h1
    obtain ⟨rfl, rfl⟩ := Prod.mk.inj h1
    have : (s.px.recv id) id = hit none := by simp [Tbl.recv, hp]
    simp only [unboxRef, this, hit] at h2
    rw [← (Prod.mk.inj h2).1]; simp

/-- ... and any traffic in between — any message, any label tree — leaves every live proxy alive and the same
object, so a key received again later while its proxy lives is still that proxy -/
theorem proxy_survives_traffic (l : Label) (s s' : Side) (y : PyVal) (hu : unbox s l = .ok (y, s')) (hinv : PxInv s) :
    PxInv s' ∧ ∀ k, s.px k ≠ none → s'.pid k = s.pid k ∧ s'.px k ≠ none :=
  let ⟨a, _, c⟩ := unbox_keeps l s s' y hu hinv; ⟨a, c⟩

/-- after the proxy died, the next receipt creates a new proxy object, different from every live one, counting from 1 -/
theorem fresh_proxy_is_new (s : Side) (id : Id) (hinv : PxInv s) (hdead : s.px id = none) :
    ∃ s', unbox s (.remoteRef id) = .ok (.proxy id s.next, s') ∧ s'.px id = some 1
      ∧ ∀ k, s.px k ≠ none → s.pid k ≠ s.next := by
  refine ⟨{ s with px := s.px.recv id, pid := fun j => if j = id then s.next else s.pid j, next := s.next + 1 },
    by simp [unbox, resolve, create, unboxRef, hdead], by simp [Tbl.recv, hdead, hit], ?_⟩
  intro k hk e
  have := hinv.below k hk
  omega

theorem proxy_invariant_init : PxInv Side.init := pxInv_init

/-! ### all orders of sending, echoing back, handing out, keeping and forgetting

`Conv.run Conv.init ops` is the state after ANY finite sequence of conversation steps (`send` kept or not, `echo`,
`make`, `forget`, with any values).  Between steps nothing is in flight, so the C10 counts balance directly. -/

/-- **In every reachable state of a conversation** both lending directions are balanced (an end's table holds for a key
exactly what the other end's live proxy counts), no proxy counts zero, and at each end live proxies are distinct
objects with serial numbers below `next`. -/
theorem conv_invariant (ops : List ConvOp) : ConvInv (Conv.run Conv.init ops) := convInv_run ops _ convInv_init

/-- hence proxy identity holds in every reachable state: the hypothesis of `fresh_proxy_is_new` and
`proxy_survives_traffic` is always met, at both ends -/
theorem conv_proxies_identified (ops : List ConvOp) :
    PxInv (Conv.run Conv.init ops).a ∧ PxInv (Conv.run Conv.init ops).b :=
  ⟨(conv_invariant ops).2.px, (conv_invariant ops).1.px⟩

/-- ... and echo identity needs no side condition: whenever an end holds a live proxy, the owner's table holds the
key, so handing the proxy back yields the original object (in both directions) -/
theorem conv_echo_identity (ops : List ConvOp) (k : Id) :
    ((Conv.run Conv.init ops).b.px k ≠ none →
        unbox (Conv.run Conv.init ops).a (.localRef k) = .ok (.obj k, (Conv.run Conv.init ops).a))
    ∧ ((Conv.run Conv.init ops).a.px k ≠ none →
        unbox (Conv.run Conv.init ops).b (.localRef k) = .ok (.obj k, (Conv.run Conv.init ops).b)) := by
  have h := conv_invariant ops
  constructor
  · intro hl
    have hb := h.1.bal k
    have hp := cnt_pos_of_ne_zero (h.1.pos k) hl
    cases ht : (Conv.run Conv.init ops).a.tbl k with
    | none => rw [ht] at hb; simp [val] at hb; omega
    | some n => simp [unbox, resolve, create, ht]
  · intro hl
    have hb := h.2.bal k
    have hp := cnt_pos_of_ne_zero (h.2.pos k) hl
    cases ht : (Conv.run Conv.init ops).b.tbl k with
    | none => rw [ht] at hb; simp [val] at hb; omega
    | some n => simp [unbox, resolve, create, ht]

/-- when every proxy has been let go the tables are empty again (nothing is in flight between steps) -/
theorem conv_no_leak (ops : List ConvOp) (k : Id) (h : (Conv.run Conv.init ops).b.px k = none) :
    (Conv.run Conv.init ops).a.tbl k = none := by
  have hb := (conv_invariant ops).1.bal k
  rw [h] at hb
  exact val_eq_zero.mp (by simpa [cnt] using hb)

/-! ### one proxy although receiving it needs a round trip

Creating the first proxy of an object whose class the receiver has not seen performs a `HANDLE_INSPECT` round trip from
inside `_unbox`; a message dispatched by its nested serve() may carry the same object. -/

/-- **Still one proxy** (generated constant `oneProxyAcrossInspect`, observed on the live `_unbox`): the nested
dispatch and the outer `_unbox` end up with the same proxy object, counted twice. -/
theorem one_proxy_across_inspect (s : Side) (id : Id) (h : s.px id = none) :
    (unboxRefAcrossInspect Gen.Box.oneProxyAcrossInspect s id).1 = (unboxRefAcrossInspect Gen.Box.oneProxyAcrossInspect s id).2.1
    ∧ (unboxRefAcrossInspect Gen.Box.oneProxyAcrossInspect s id).2.2.px id = some 2 := by
  have hc : Gen.Box.oneProxyAcrossInspect = true := by decide
  rw [hc]
  have hmiss : unboxRef s id = (.proxy id s.next,
      { s with px := s.px.recv id, pid := fun j => if j = id then s.next else s.pid j, next := s.next + 1 }) := by
    simp [unboxRef, h]
  have hit1 : ∀ (t : Side) (c : Nat), t.px id = some c → unboxRef t id = (.proxy id (t.pid id), { t with px := t.px.recv id }) := by
    intro t c ht; simp [unboxRef, ht]
  have h1 : (unboxRef s id).2.px id = some 1 := by rw [hmiss]; simp [Tbl.recv, h, hit]
  simp only [unboxRefAcrossInspect, if_true]
  rw [hit1 (unboxRef s id).2 1 h1]
  constructor
  · rw [hmiss]; simp
  · simp [Tbl.recv, h1, hit]

/-- **Counterexample for the check-then-insert order** (`_unbox` looking the cache up only before the round trip): two
different proxy objects for one remote object, both alive -/
theorem stale_miss_makes_two_proxies :
    (unboxRefAcrossInspect false Side.init 3).1 = .proxy 3 0 ∧ (unboxRefAcrossInspect false Side.init 3).2.1 = .proxy 3 1 := by
  constructor <;> rfl

/-- **Boxing and unboxing move the counts of C10 and nothing else**: `_box` adds exactly the by-reference keys of
the label tree it returns, in order; `_unbox` counts exactly those keys at the receiver.  (This is what a
`send ks` / `deliver` of the C10 machine abstracts: `ks = l.remoteRefs`.) -/
theorem box_unbox_counts (x : PyVal) (t t' : Tbl) (l : Label) (s s' : Side) (y : PyVal)
    (hb : box t x = .ok (l, t')) (hu : unbox s l = .ok (y, s')) :
    t' = addAll t l.remoteRefs ∧ s'.px = recvAll s.px l.remoteRefs ∧ s'.tbl = s.tbl :=
  ⟨box_adds x t t' l hb, unbox_counts l s s' y hu⟩

/-- the four label numbers of `consts.py` are distinct and select the four branches (generated constants) -/
theorem labels_distinct : labelKind Gen.Box.labelValue = .value ∧ labelKind Gen.Box.labelTuple = .tuple
    ∧ labelKind Gen.Box.labelLocalRef = .localRef ∧ labelKind Gen.Box.labelRemoteRef = .remoteRef := labelKind_table

/-! ### non-vacuity -/

/-- `(1, <list #3>, (<MyInt(5) #4>, <proxy of the peer's #9>, "a"), <list #3> again, (2, 3))` -/
def sample : PyVal :=
  .tup [.imm (.int 1), .obj 3, .tup [.sub (.int 5) 4, .proxy 9 0, .imm (.str [97])], .obj 3, .tup [.imm (.int 2), .imm (.int 3)]]

def sampleLabel : Label :=
  .tuple [.value (.int 1), .remoteRef 3, .tuple [.remoteRef 4, .localRef 9, .value (.str [97])], .remoteRef 3,
          .value (.tuple [.int 2, .int 3])]

/-- the receiver lent its object 9 earlier -/
def receiver : Side := { Side.init with tbl := Tbl.empty.add 9 }

example : ∃ t', box Tbl.empty sample = .ok (sampleLabel, t') ∧ t' 3 = some 1 ∧ t' 4 = some 0 ∧ t' 9 = none := by
  refine ⟨_, rfl, ?_, ?_, ?_⟩ <;> decide

/-- the list arrives twice as ONE proxy (count 2), the subclass instance as a proxy, the handed-back proxy as the
receiver's own object 9, the plain parts as values -/
example : ∃ s', unbox receiver sampleLabel = .ok (.tup [.imm (.int 1), .proxy 3 0,
      .tup [.proxy 4 1, .obj 9, .imm (.str [97])], .proxy 3 0, .imm (.tuple [.int 2, .int 3])], s')
    ∧ s'.px 3 = some 2 ∧ s'.px 4 = some 1 ∧ s'.next = 2 := by
  refine ⟨_, rfl, ?_, ?_, ?_⟩ <;> decide

/-- the hypotheses of `value_transfer` are satisfiable: an id pack shaped like rpyc's `(name, class id, instance id)` -/
def pack (k : Id) : Val := .tuple [.str [98, 46, 108], .int (1000 + k), .int k]
def unpack : Val → Option Id
  | .tuple [.str _, .int _, .int (.ofNat k)] => some k
  | _ => none

example : ∀ k, unpack (pack k) = some k := fun _ => rfl
example : (sampleLabel.toVal pack).wf = true ∧ dumpable (sampleLabel.toVal pack) = true := by decide +kernel
example : ∃ bs, dump (sampleLabel.toVal pack) = .ok bs ∧ load bs = .ok (sampleLabel.toVal pack) := by
  obtain ⟨bs, h⟩ := Rpyc.Props.C04.dump_total (sampleLabel.toVal pack) (by decide +kernel) (by decide +kernel)
  exact ⟨bs, h, Rpyc.Props.C04.load_dump _ bs (by decide +kernel) h⟩

/-- a `MyInt(5)` is by reference although `5` is by value -/
example : box Tbl.empty (.imm (.int 5)) = .ok (.value (.int 5), Tbl.empty)
    ∧ (∃ t, box Tbl.empty (.sub (.int 5) 0) = .ok (.remoteRef 0, t)) := ⟨rfl, _, rfl⟩

end Rpyc.Props.C03
