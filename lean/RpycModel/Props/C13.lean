import RpycModel.Conc.Serve
/-
C13 — when several threads issue requests on, and serve, the same connection concurrently, every request
completes at most once with the reply to that very request, each incoming message is dispatched exactly
once, sequence numbers are never reused, and the threads never deadlock or sleep through a wake-up while
data is pending.

Machine: `RpycModel/Conc/Serve/Model.lean` (any number of client threads, background serving threads and
polling threads (`poll_all` / `AsyncResult.ready`, i.e. `serve(timeout, wait_for_lock=False)`),
any interleaving at source-line granularity, a peer answering outstanding requests in any order, time
passing at any moment).  Every theorem is over `Reachable`, i.e. all interleavings, unbounded threads,
calls and steps.  Helper lemmas and the inductive invariants are in `RpycModel/Conc/Serve/*.lean`.
-/
namespace Rpyc.Props.C13
open Rpyc.Conc.Serve

/-- **Sequence numbers are never reused.** The list of all seqs ever handed out has no duplicates, all lie
below the counter, and two threads that are inside calls at the same time own different seqs. -/
theorem seq_unique {s : St} (h : Reachable s) :
    s.issued.Nodup ∧ (∀ q ∈ s.issued, q < s.seqCounter) ∧
    (∀ t u, (s.loc t).hasSeq = true → (s.loc u).hasSeq = true → (s.loc t).seq = (s.loc u).seq → t = u) ∧
    (∀ t, (s.loc t).hasSeq = true → (s.loc t).seq ∈ s.issued) :=
  let i := invS_of_reachable h
  ⟨i.issued_nodup, i.issued_lt, i.seq_inj, i.seq_issued⟩

/-- the same, dynamically: the seq a new call receives was never handed out before, and nothing about it
exists yet (no callback, no answer, no result) -/
theorem seq_fresh_on_call {s s' : St} (h : Reachable s) (t : Tid) (tmo : Option Nat)
    (hs : step s (.call t tmo) = some s') :
    (s'.loc t).seq ∉ s.issued ∧ freshSeq s (s'.loc t).seq ∧ s'.issued = (s'.loc t).seq :: s.issued := by
  simp only [step] at hs
  split at hs
  · cases hs
    have i := invS_of_reachable h
    refine ⟨?_, ?_, ?_⟩
    · intro hm
      have := i.issued_lt _ hm
      simp [doCall] at this
    · simpa [doCall] using i.fresh s.seqCounter (Nat.le_refl _)
    · simp [doCall, setLoc]
  · cases hs

/-- **Each incoming message is received by exactly one thread and dispatched exactly once.**
For the k-th frame the peer ever sent: it is still in the channel, or in the hand of a thread that has not
yet dispatched it, or it has been dispatched — and then exactly once.  Never more than once. -/
theorem dispatch_once {s : St} (h : Reachable s) :
    (∀ k, s.dcount k ≤ 1) ∧
    (∀ k, k < s.nsent →
      (∃ f ∈ s.chan, f.id = k ∧ s.dcount k = 0) ∨
      (∃ t f, (s.loc t).data = some f ∧ f.id = k ∧ (s.loc t).pc.holding = true ∧ s.dcount k = 0) ∨
      (s.fstat k = .dispatched ∧ s.dcount k = 1)) :=
  ⟨dispatch_at_most_once h, frame_accounted h⟩

/-- no frame is in two hands -/
theorem one_receiver {s : St} (h : Reachable s) (t u : Tid) (f g : Frame)
    (ht : (s.loc t).data = some f) (hu : (s.loc u).data = some g)
    (hpt : (s.loc t).pc.holding = true) (hpu : (s.loc u).pc.holding = true) (hid : f.id = g.id) : t = u :=
  holder_unique h t u f g ht hu hpt hpu hid

/-- **The two reads of one packet are never split between threads**: receiving (`poll` + `recv`, i.e. both
reads of a frame) happens only between taking and releasing the receive lock, and at most one thread is in
that region; frames leave the channel in the order the peer sent them. -/
theorem receive_exclusive {s : St} (h : Reachable s) :
    (∀ t u, (s.loc t).pc.holdsRecv = true → (s.loc u).pc.holdsRecv = true → t = u) ∧
    (∀ t, (s.loc t).pc = .p0 → s.recvLock = some t) ∧
    (s.chan.map (·.id)).Pairwise (· < ·) :=
  ⟨fun t u => recv_exclusive h t u,
   fun t hp => ((invL_of_reachable h).recv_iff t).1 (by rw [hp]; rfl),
   chan_fifo h⟩

/-- (`answer q` is what came back for request `q`: the peer's reply, or — when the connection was closed while the
request was still pending — the end-of-connection marker with which `_cleanup` completes it.)

**A request completes at most once, with the payload of the response bearing its seq.**
`completions q` counts executions of `_is_ready = True` for the result of request `q`; whatever the result
cell holds is what the peer answered to *that* seq; a callback is popped by at most one thread. -/
theorem own_reply {s : St} (h : Reachable s) (q : Seq) :
    s.completions q ≤ 1 ∧
    (∀ v, (s.cells q).obj = some v → ∃ e, s.answer q = some (e, v)) ∧
    (∀ e, (s.cells q).isExc = some e → ∃ v, s.answer q = some (e, v)) ∧
    (∀ t u, (s.loc t).pc.completing = true → (s.loc u).pc.completing = true →
        (s.loc t).cb = some q → (s.loc u).cb = some q → t = u) := by
  have i := invS_of_reachable h
  refine ⟨i.compl_le q, i.obj_answer q, i.exc_answer q, ?_⟩
  intro t u ht hu hcbt hcbu
  obtain ⟨q1, _, h1, _, _, hp1, _⟩ := i.completing t ht
  obtain ⟨q2, _, h2, _, _, hp2, _⟩ := i.completing u hu
  rw [hcbt] at h1; rw [hcbu] at h2
  cases h1; cases h2
  rw [hp1] at hp2
  exact Option.some.inj hp2

/-- what a finished call hands to its caller is the peer's answer to that very call -/
theorem caller_gets_own_reply {s : St} (h : Reachable s) (t : Tid) (e : Option Bool) (o : Option Nat)
    (hb : (s.loc t).bg = false) (hr : (s.loc t).result = some (.value e o)) :
    ∃ e' v, s.answer (s.loc t).seq = some (e', v) ∧ e = some e' ∧ o = some v :=
  (invS_of_reachable h).result_ok t e o hb hr

/-- frames in the channel and in threads' hands are answers the peer really gave — unless the request was
meanwhile completed by `Connection._cleanup` with the end of the connection (`eofed`: the ghost `answer` of that
seq is then the end-of-connection marker `(true, eofVal)`, its callback is gone, and the frame will be dropped) —
and the peer answers only requests that were sent and not yet answered -/
theorem frames_are_answers {s : St} (h : Reachable s) :
    (∀ f ∈ s.chan, s.answer f.seq = some (f.exc, f.val) ∨ (s.cells f.seq).eofed = true) ∧
    (∀ t f, (s.loc t).data = some f → s.answer f.seq = some (f.exc, f.val) ∨ (s.cells f.seq).eofed = true) ∧
    (∀ q ∈ s.outstanding, s.answer q = none ∧ q < s.seqCounter) :=
  let i := invS_of_reachable h
  ⟨i.chan_answer, i.data_answer, i.out_unanswered⟩

/-- **No lost wake-up.** A thread in the condition's wait-set implies that the receive lock is held (by a
thread inside the receive region, which will release and notify) or that a thread that released it has not
yet called `notify_all`. -/
theorem no_lost_wakeup {s : St} (h : Reachable s) (t : Tid) (ht : t ∈ s.waiters) :
    (∃ v, s.recvLock = some v ∧ (s.loc v).pc.holdsRecv = true) ∨
    ∃ u, (s.loc u).pc = .n0 ∨ (s.loc u).pc = .n1 :=
  Rpyc.Conc.Serve.no_lost_wakeup h t ht

/-- **No deadlock while data is pending (weak form).** If the channel holds unread data and some thread is inside a
call or a serving loop, then some thread other than a sleeping background thread has an enabled step (nobody
needs a timeout to get going).  On its own this is weak: a polling thread between two polls, or a background
thread at its loop test, satisfies it trivially.  The content is `waiter_woken_with_data` below: for a thread
asleep on the condition the enabled thread is one that is on its way to wake it. -/
theorem no_deadlock_with_data {s : St} (h : Reachable s) (hc : s.chan ≠ []) (t : Tid)
    (ht : (s.loc t).pc ≠ .idle) (hb : (s.loc t).pc ≠ .bS) :
    ∃ u, enabled s u = true ∧ (s.loc u).pc ≠ .bS :=
  no_deadlock_with_data_strong h hc t ht hb

/-- **No thread sleeps through a wake-up while data is pending.**  If data is unread (or the stream has ended, or
the connection is closed) and thread `t` is in the condition's wait-set, then an ENABLED thread exists that holds
the receive lock (it is in the receive region, will read — `poll` returns at once — release and notify), or is a
pending notifier at `n0`/`n1`, or holds the condition's lock that this notifier is waiting for.  Spinning pollers and
idle background threads do not count. -/
theorem waiter_woken_with_data {s : St} (h : Reachable s) (hc : s.chan ≠ [] ∨ s.eof = true ∨ s.closed = true)
    (t : Tid) (ht : t ∈ s.waiters) :
    ∃ u, enabled s u = true ∧ ((s.loc u).pc.holdsRecv = true ∨ (s.loc u).pc = .n0 ∨ (s.loc u).pc = .n1 ∨
      (s.loc u).pc.holdsCond = true) :=
  waiter_has_waker h hc t ht

/-- **Nobody sleeps through the end of the stream.** Once the peer has closed the stream (or the connection
has been closed), a thread inside a call or a serving loop is never stuck: some thread other than a sleeping
background thread has an enabled step, and needs no timeout for it.  (The receiver that meets the EOF runs
`self.close(); raise` and still goes through `finally: release; notify_all`, so the threads parked in
`serve`'s wait-for-lock branch are woken, find the closed channel and leave with `EOFError` themselves.) -/
theorem no_parking_after_eof {s : St} (h : Reachable s) (he : s.eof = true ∨ s.closed = true) (t : Tid)
    (ht : (s.loc t).pc ≠ .idle) (hb : (s.loc t).pc ≠ .bS) :
    ∃ u, enabled s u = true ∧ (s.loc u).pc ≠ .bS :=
  Rpyc.Conc.Serve.no_parking_after_eof h he t ht hb

/-- on a closed connection a thread in the wait-set always has its wake-up on the way: an enabled thread that
holds the receive lock (it will release and notify), or is about to notify, or holds the condition's lock the
notifier is waiting for -/
theorem waiter_woken_after_close {s : St} (h : Reachable s) (hc : s.closed = true) (t : Tid) (ht : t ∈ s.waiters) :
    ∃ u, enabled s u = true ∧ ((s.loc u).pc.holdsRecv = true ∨ (s.loc u).pc = .n0 ∨ (s.loc u).pc = .n1 ∨
      (s.loc u).pc.holdsCond = true) :=
  waiter_has_waker_after_close h hc t ht

/-- **Publication order.** A reader that sees `ready` sees the value: `ready` implies the result was
stored, exactly once, and it is the peer's answer to this seq. -/
theorem publication_order {s : St} (h : Reachable s) (q : Seq) (hr : (s.cells q).ready = true) :
    s.completions q = 1 ∧ ∃ e v, (s.cells q).isExc = some e ∧ (s.cells q).obj = some v ∧ s.answer q = some (e, v) := by
  have i := invS_of_reachable h
  obtain ⟨hc, ho, he⟩ := i.ready_compl q hr
  refine ⟨hc, ?_⟩
  cases hobj : (s.cells q).obj with
  | none => simp [hobj] at ho
  | some v =>
    cases hexc : (s.cells q).isExc with
    | none => simp [hexc] at he
    | some e =>
      obtain ⟨e', h1⟩ := i.obj_answer q v hobj
      obtain ⟨v', h2⟩ := i.exc_answer q e hexc
      rw [h1] at h2
      cases h2
      exact ⟨e, v, rfl, rfl, h1⟩

/-- a client that has passed the final readiness test reads a published result -/
theorem reader_sees_value {s : St} (h : Reachable s) (t : Tid) (hs : (s.loc t).hasSeq = true)
    (hp : (s.loc t).pc = .w10) : (s.cells (s.loc t).seq).ready = true :=
  (invS_of_reachable h).at_w10 t hs hp

/-! ### non-vacuity: concrete reachable states in which the hypotheses hold non-trivially -/

private def r (t : Tid) (n : Nat) : List Actor := List.replicate n (.run t)

/-- two clients, the second fails the try-lock and sleeps on the condition while the first holds the
receive lock in `poll`; the peer has answered the *second* client's request: data pending, a waiter asleep -/
def contended : List Actor :=
  [.call 1 none, .call 2 (some 9)] ++ r 1 2 ++ r 2 3 ++ r 1 5 ++ r 2 5 ++ [.peer 1 false 77]

example : ∃ s, run init contended = some s ∧ s.waiters = [2] ∧ s.recvLock = some 1 ∧ s.chan ≠ [] ∧
    (s.loc 1).pc = .p0 ∧ (s.loc 2).pc = .zz ∧ s.issued = [1, 0] := by
  refine ⟨(run init contended).get (by decide), by simp, ?_⟩
  decide

/-- continuing: client 1 receives client 2's reply, releases, notifies, dispatches it; client 2 wakes up,
sees its result and returns it; the frame was dispatched once, the request completed once -/
def crossed : List Actor := contended ++ r 1 11 ++ r 2 5

example : ∃ s, run init crossed = some s ∧ (s.loc 2).result = some (.value (some false) (some 77)) ∧
    s.dcount 0 = 1 ∧ s.completions 1 = 1 ∧ s.popper 1 = some 1 ∧ (s.loc 2).pc = .idle := by
  refine ⟨(run init crossed).get (by decide), by simp, ?_⟩
  decide

/-- end of stream while client 1 is in `poll` and client 2 (no expiry) sleeps on the condition: client 1 meets the
EOF, closes — which completes client 2's still-pending request with `EOFError("connection closed")` —, releases,
notifies and leaves with `EOFError`; client 2 wakes up, finds its result ready and gets that error from `value`;
nobody is left inside a call -/
def eofWhileParked : List Actor :=
  [.call 1 (some 9), .call 2 none] ++ r 1 3 ++ r 2 2 ++ r 1 5 ++ r 2 5 ++ [.peerEof]

example : ∃ s, run init eofWhileParked = some s ∧ s.eof = true ∧ s.closed = false ∧ s.waiters = [2] ∧
    (s.loc 1).pc = .p0 ∧ (s.loc 2).pc = .zz ∧ (s.loc 2).wdl = none ∧ enabled s 1 = true := by
  refine ⟨(run init eofWhileParked).get (by decide), by simp, ?_⟩
  decide

example : ∃ s, run init (eofWhileParked ++ r 1 7 ++ r 2 5) = some s ∧ s.closed = true ∧ s.waiters = [] ∧
    (s.loc 1).pc = .idle ∧ (s.loc 1).result = some .eof ∧ (s.loc 2).pc = .idle ∧
    (s.loc 2).result = some (.value (some true) (some eofVal)) ∧ s.popper 1 = some 1 := by
  refine ⟨(run init (eofWhileParked ++ r 1 7 ++ r 2 5)).get (by decide), by simp, ?_⟩
  decide

/-- a polling thread (`conn.poll_all(0)` = `serve(0, wait_for_lock=False)`, thread 2) is the receiver: it holds the
receive lock while caller 1 (no expiry) fails the try-lock and parks on the condition; when its poll times out it
releases the lock — at that moment the wake-up is still owed (`n0`) — then notifies, and the caller is off the
wait-set.  A second poller (thread 3) that finds the lock taken returns at once (`s2f`, then `q1`). -/
def pollerReceives : List Actor :=
  [.pollAll 2 0] ++ r 2 4 ++ [.call 1 none] ++ r 1 7 ++ [.pollAll 3 0] ++ r 3 4

example : ∃ s, run init pollerReceives = some s ∧ s.recvLock = some 2 ∧ s.waiters = [1] ∧ (s.loc 2).pc = .p0 ∧
    (s.loc 2).nowait = true ∧ (s.loc 3).pc = .q1 ∧ (s.loc 1).wdl = none := by
  refine ⟨(run init pollerReceives).get (by decide), by simp, ?_⟩
  decide

example : ∃ s, run init (pollerReceives ++ r 2 2) = some s ∧ s.recvLock = none ∧ s.waiters = [1] ∧ (s.loc 2).pc = .n0 := by
  refine ⟨(run init (pollerReceives ++ r 2 2)).get (by decide), by simp, ?_⟩
  decide

example : ∃ s, run init (pollerReceives ++ r 2 4) = some s ∧ s.waiters = [] ∧ (s.loc 1).pc = .zz ∧ enabled s 1 = true := by
  refine ⟨(run init (pollerReceives ++ r 2 4)).get (by decide), by simp, ?_⟩
  decide

example : ∃ s, Reachable s ∧ s.waiters ≠ [] ∧ s.chan ≠ [] :=
  ⟨(run init contended).get (by decide), reachable_run .init contended (by simp), by decide, by decide⟩

end Rpyc.Props.C13
