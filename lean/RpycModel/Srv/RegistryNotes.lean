import RpycModel.Srv.RegistryLemmas
/-
Notifications against membership changes: `Exact sv notes sv'` says that between the tables `sv` and
`sv'` the notifications `notes` contain exactly one `added` per pair that became a member, exactly one
`removed` per pair that stopped being one, and nothing else.
-/
namespace Rpyc.Registry
open Rpyc

def Note.isAdd : Note → Bool
  | .added _ _ => true
  | .removed _ _ => false

def Note.nameCode : Note → List Nat
  | .added n _ => keyCode n
  | .removed n _ => keyCode n

def Note.addrCode : Note → List Nat
  | .added _ a => Registry.addrCode a
  | .removed _ a => Registry.addrCode a

/-- how many `on_service_added` calls in `ns` were for the pair (n, a) -/
def countAdd (ns : List Note) (n a : List Nat) : Nat :=
  ns.countP (fun x => x.isAdd && (x.nameCode == n && x.addrCode == a))

/-- how many `on_service_removed` calls in `ns` were for the pair (n, a) -/
def countRem (ns : List Note) (n a : List Nat) : Nat :=
  ns.countP (fun x => !x.isAdd && (x.nameCode == n && x.addrCode == a))

/-- membership of the stored table -/
def mem (sv : Services) (n a : List Nat) : Bool := (view sv n a).isSome

def Exact (sv : Services) (ns : List Note) (sv' : Services) : Prop :=
  ∀ n a, countAdd ns n a = (if !mem sv n a && mem sv' n a then 1 else 0)
       ∧ countRem ns n a = (if mem sv n a && !mem sv' n a then 1 else 0)

def Grow (sv sv' : Services) : Prop := ∀ n a, mem sv n a = true → mem sv' n a = true
def Shrink (sv sv' : Services) : Prop := ∀ n a, mem sv' n a = true → mem sv n a = true

theorem exact_refl (sv : Services) : Exact sv [] sv := by
  intro n a
  cases mem sv n a <;> simp [countAdd, countRem]

theorem grow_refl (sv : Services) : Grow sv sv := fun _ _ h => h
theorem shrink_refl (sv : Services) : Shrink sv sv := fun _ _ h => h
theorem grow_trans {a b c : Services} (h1 : Grow a b) (h2 : Grow b c) : Grow a c := fun n x h => h2 n x (h1 n x h)
theorem shrink_trans {a b c : Services} (h1 : Shrink a b) (h2 : Shrink b c) : Shrink a c := fun n x h => h1 n x (h2 n x h)

theorem exact_trans_grow {sv sv1 sv2 : Services} {ns1 ns2 : List Note}
    (h1 : Exact sv ns1 sv1) (h2 : Exact sv1 ns2 sv2) (g1 : Grow sv sv1) (g2 : Grow sv1 sv2) :
    Exact sv (ns1 ++ ns2) sv2 := by
  intro n a
  obtain ⟨a1, r1⟩ := h1 n a
  obtain ⟨a2, r2⟩ := h2 n a
  have g1 := g1 n a
  have g2 := g2 n a
  simp only [countAdd, countRem, List.countP_append] at *
  rw [a1, a2, r1, r2]
  clear a1 a2 r1 r2
  generalize mem sv n a = m0 at *
  generalize mem sv1 n a = m1 at *
  generalize mem sv2 n a = m2 at *
  cases m0 <;> cases m1 <;> cases m2 <;> simp_all

theorem exact_trans_shrink {sv sv1 sv2 : Services} {ns1 ns2 : List Note}
    (h1 : Exact sv ns1 sv1) (h2 : Exact sv1 ns2 sv2) (g1 : Shrink sv sv1) (g2 : Shrink sv1 sv2) :
    Exact sv (ns1 ++ ns2) sv2 := by
  intro n a
  obtain ⟨a1, r1⟩ := h1 n a
  obtain ⟨a2, r2⟩ := h2 n a
  have g1 := g1 n a
  have g2 := g2 n a
  simp only [countAdd, countRem, List.countP_append] at *
  rw [a1, a2, r1, r2]
  clear a1 a2 r1 r2
  generalize mem sv n a = m0 at *
  generalize mem sv1 n a = m1 at *
  generalize mem sv2 n a = m2 at *
  cases m0 <;> cases m1 <;> cases m2 <;> simp_all

theorem mem_addService (sv : Services) (name : Val) (a : Addr) (now : Int) (n x : List Nat) :
    mem (addService sv name a now).1 n x = (decide (n = keyCode name ∧ x = addrCode a) || mem sv n x) := by
  unfold mem
  rw [view_addService]
  by_cases h : n = keyCode name ∧ x = addrCode a <;> simp [h]

theorem grow_addService (sv : Services) (name : Val) (a : Addr) (now : Int) : Grow sv (addService sv name a now).1 := by
  intro n x h
  rw [mem_addService, h]
  simp

theorem exact_addService (sv : Services) (name : Val) (a : Addr) (now : Int) :
    Exact sv (addService sv name a now).2 (addService sv name a now).1 := by
  intro n x
  rw [mem_addService, notes_addService]
  by_cases hk : n = keyCode name ∧ x = addrCode a
  · obtain ⟨rfl, rfl⟩ := hk
    cases hv : view sv (keyCode name) (addrCode a) <;>
      simp [mem, hv, countAdd, countRem, Note.isAdd, Note.nameCode, Note.addrCode]
  · have hk' : ¬ (keyCode name = n ∧ addrCode a = x) := fun h => hk ⟨h.1.symm, h.2.symm⟩
    cases hm : mem sv n x <;> cases hv : (view sv (keyCode name) (addrCode a)).isNone <;>
      simp [hk, hk', countAdd, countRem, Note.isAdd, Note.nameCode, Note.addrCode] <;>
      (intro h1 h2; exact absurd ⟨h1.symm, h2.symm⟩ hk)

theorem mem_removeService (sv : Services) (name : Val) (a : Addr) (h : Inv sv) (n x : List Nat) :
    mem (removeService sv name a).sv n x = (!decide (n = keyCode name ∧ x = addrCode a) && mem sv n x) := by
  unfold mem
  rw [view_removeService sv name a h]
  by_cases hk : n = keyCode name ∧ x = addrCode a <;> simp [hk]

theorem shrink_removeService (sv : Services) (name : Val) (a : Addr) (h : Inv sv) : Shrink sv (removeService sv name a).sv := by
  intro n x hm
  rw [mem_removeService sv name a h] at hm
  simp at hm
  exact hm.2

theorem exact_removeService (sv : Services) (name : Val) (a : Addr) (h : Inv sv) :
    Exact sv (removeService sv name a).notes (removeService sv name a).sv := by
  intro n x
  rw [mem_removeService sv name a h, notes_removeService]
  by_cases hk : n = keyCode name ∧ x = addrCode a
  · obtain ⟨rfl, rfl⟩ := hk
    cases hv : view sv (keyCode name) (addrCode a) <;>
      simp [mem, hv, countAdd, countRem, Note.isAdd, Note.nameCode, Note.addrCode]
  · cases hm : mem sv n x <;> cases hv : (view sv (keyCode name) (addrCode a)).isSome <;>
      simp [hk, countAdd, countRem, Note.isAdd, Note.nameCode, Note.addrCode] <;>
      (intro h1 h2; exact absurd ⟨h1.symm, h2.symm⟩ hk)

end Rpyc.Registry
