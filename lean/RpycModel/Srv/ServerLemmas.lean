import RpycModel.Srv.Server
/-
Invariants of the server automata (helper lemmas for Props/C17.lean and Props/C16.lean).

Part 1 (C17): over the alphabet connect (good / failing credentials), call, graceful close, abrupt close,
server close, every reachable state satisfies `GOk`: each client record has one of four shapes (never
connected, waiting in the listen queue of a busy one-shot server, served and idle, finished) and the
server's tables mention exactly the served-and-idle clients.
-/
set_option linter.unusedSimpArgs false
set_option linter.unusedVariables false
set_option linter.unnecessarySimpa false
namespace Rpyc.Srv

/-! ### projections -/

@[simp] theorem set_cli_same (s : St) (k : Nat) (c : Cli) : (s.set k c).cli k = c := by simp [St.set]
theorem set_cli_ne (s : St) (k j : Nat) (c : Cli) (h : j ≠ k) : (s.set k c).cli j = s.cli j := by simp [St.set, h]
@[simp] theorem set_cfg (s : St) (k : Nat) (c : Cli) : (s.set k c).cfg = s.cfg := rfl
@[simp] theorem set_closed (s : St) (k : Nat) (c : Cli) : (s.set k c).closedFlag = s.closedFlag := rfl
@[simp] theorem set_listening (s : St) (k : Nat) (c : Cli) : (s.set k c).listening = s.listening := rfl
@[simp] theorem set_active (s : St) (k : Nat) (c : Cli) : (s.set k c).active = s.active := rfl
@[simp] theorem set_acceptAlive (s : St) (k : Nat) (c : Cli) : (s.set k c).acceptAlive = s.acceptAlive := rfl
@[simp] theorem set_acceptBusy (s : St) (k : Nat) (c : Cli) : (s.set k c).acceptBusy = s.acceptBusy := rfl
@[simp] theorem set_queue (s : St) (k : Nat) (c : Cli) : (s.set k c).queue = s.queue := rfl
@[simp] theorem set_blocked (s : St) (k : Nat) (c : Cli) : (s.set k c).blocked = s.blocked := rfl
@[simp] theorem set_poolUp (s : St) (k : Nat) (c : Cli) : (s.set k c).poolUp = s.poolUp := rfl
@[simp] theorem set_ids (s : St) (k : Nat) (c : Cli) : (s.set k c).ids = s.ids := rfl
@[simp] theorem set_nextInst (s : St) (k : Nat) (c : Cli) : (s.set k c).nextInst = s.nextInst := rfl
@[simp] theorem set_nextObj (s : St) (k : Nat) (c : Cli) : (s.set k c).nextObj = s.nextObj := rfl
@[simp] theorem set_accepted (s : St) (k : Nat) (c : Cli) : (s.set k c).accepted = s.accepted := rfl
@[simp] theorem set_served (s : St) (k : Nat) (c : Cli) : (s.set k c).served = s.served := rfl

@[simp] theorem mapCli_cli (s : St) (f : Cli → Cli) (j : Nat) : (s.mapCli f).cli j = f (s.cli j) := rfl
@[simp] theorem mapCli_cfg (s : St) (f : Cli → Cli) : (s.mapCli f).cfg = s.cfg := rfl
@[simp] theorem mapCli_closed (s : St) (f : Cli → Cli) : (s.mapCli f).closedFlag = s.closedFlag := rfl
@[simp] theorem mapCli_listening (s : St) (f : Cli → Cli) : (s.mapCli f).listening = s.listening := rfl
@[simp] theorem mapCli_active (s : St) (f : Cli → Cli) : (s.mapCli f).active = s.active := rfl
@[simp] theorem mapCli_acceptAlive (s : St) (f : Cli → Cli) : (s.mapCli f).acceptAlive = s.acceptAlive := rfl
@[simp] theorem mapCli_acceptBusy (s : St) (f : Cli → Cli) : (s.mapCli f).acceptBusy = s.acceptBusy := rfl
@[simp] theorem mapCli_queue (s : St) (f : Cli → Cli) : (s.mapCli f).queue = s.queue := rfl
@[simp] theorem mapCli_blocked (s : St) (f : Cli → Cli) : (s.mapCli f).blocked = s.blocked := rfl
@[simp] theorem mapCli_poolUp (s : St) (f : Cli → Cli) : (s.mapCli f).poolUp = s.poolUp := rfl
@[simp] theorem mapCli_ids (s : St) (f : Cli → Cli) : (s.mapCli f).ids = s.ids := rfl
@[simp] theorem mapCli_nextInst (s : St) (f : Cli → Cli) : (s.mapCli f).nextInst = s.nextInst := rfl
@[simp] theorem mapCli_nextObj (s : St) (f : Cli → Cli) : (s.mapCli f).nextObj = s.nextObj := rfl
@[simp] theorem mapCli_accepted (s : St) (f : Cli → Cli) : (s.mapCli f).accepted = s.accepted := rfl

/-! ### client shapes (C17 alphabet) -/

/-- holds nothing of the server's -/
def Free (c : Cli) : Prop :=
  c.tracked = false ∧ c.inFd = false ∧ c.polled = false ∧ c.srvFd = false ∧ c.child = false ∧
  c.connOpen = false ∧ c.inst = none ∧ c.connHooks = 0 ∧ c.discHooks = 0 ∧ c.shut = false

/-- served, nobody reading, every table of its server kind mentions it -/
def Served (cfg : Cfg) (closed : Bool) (c : Cli) : Prop :=
  c.inbox = [] ∧ c.connOpen = true ∧ c.inst ≠ none ∧ c.connHooks = 1 ∧ c.discHooks = 0 ∧ c.shut = false ∧
  c.clientOpen = true ∧
  c.tracked = (cfg.kind == .threaded || cfg.kind == .oneshot) ∧ c.srvFd = (cfg.kind != .forking) ∧
  c.child = (cfg.kind == .forking) ∧ c.inFd = (cfg.kind == .pool) ∧ c.polled = (cfg.kind == .pool) ∧
  (closed = true → cfg.kind = .forking)

/-- the server has finished with it and keeps nothing -/
def Gone (closed : Bool) (c : Cli) : Prop :=
  c.shut = true ∧ c.srvFd = false ∧ c.child = false ∧ c.tracked = false ∧ c.inFd = false ∧ c.connOpen = false ∧
  c.inbox = [] ∧ (c.polled = true → closed = true) ∧
  (c.inst ≠ none → c.connHooks = 1 ∧ c.discHooks = 1) ∧ (c.inst = none → c.connHooks = 0 ∧ c.discHooks = 0)

def Shape (cfg : Cfg) (closed : Bool) (c : Cli) : Prop :=
  match c.phase with
  | .absent => Free c
  | .backlog => Free c ∧ cfg.kind = .oneshot ∧ closed = false
  | .idle => Served cfg closed c
  | .done => Gone closed c
  | _ => False

def COk (cfg : Cfg) (closed : Bool) (c : Cli) : Prop :=
  (c.partSent = false ∧ c.slowHook = false) ∧ c.cred ≠ .silent ∧ Shape cfg closed c

theorem COk.default (cfg : Cfg) (closed : Bool) : COk cfg closed {} := by
  simp [COk, Shape, Free]


/-! ### per-client lemmas: every way the server rewrites a record keeps its shape -/

theorem answer_ok (cfg : Cfg) (cl : Bool) (c : Cli) (seq : Nat) (r : ReqKind) (n : Nat) (hr : r ≠ .arm)
    (h : COk cfg cl c) : COk cfg cl (answer c seq r n).1 := by
  cases r <;> first | exact absurd rfl hr | simpa [answer, COk, Shape, Free, Served, Gone] using h

theorem answer_phase (c : Cli) (seq : Nat) (r : ReqKind) (n : Nat) : (answer c seq r n).1.phase = c.phase := by
  cases r <;> simp [answer]

theorem answer_inst (c : Cli) (seq : Nat) (r : ReqKind) (n : Nat) : (answer c seq r n).1.inst = c.inst := by
  cases r <;> simp [answer]

theorem untrack_ok (cfg : Cfg) (cl : Bool) (c : Cli) (hk : cfg.kind = .pool ∨ cfg.kind = .forking) (h : COk cfg cl c) :
    COk cfg cl { c with tracked := false } := by
  rcases c with ⟨cred, phase, inbox, inst, connOpen, connHooks, discHooks, srvFd, shut, child, table, replies, nextSeq,
    clientOpen, partSent, tracked, inFd, polled⟩
  rcases hk with hk | hk <;> cases phase <;> simp_all (config := {decide := true}) [COk, Shape, Free, Served, Gone]

/-- `Server.close()` of a threaded, forking or one-shot server, client by client -/
theorem closeEffect_ok (cfg : Cfg) (c : Cli) (hk : cfg.kind ≠ .pool) (h : COk cfg false c) :
    COk cfg true (closeEffect c) := by
  rcases c with ⟨cred, phase, inbox, inst, connOpen, connHooks, discHooks, srvFd, shut, child, table, replies, nextSeq,
    clientOpen, partSent, tracked, inFd, polled⟩
  rcases cfg with ⟨kind, auth, nb⟩
  cases kind <;> cases phase <;>
    simp_all (config := {decide := true}) [COk, Shape, Free, Served, Gone, closeEffect, shutOne, endServeD, endServe, release, closeConn]

/-- `ThreadPoolServer.close()`, client by client -/
theorem poolCloseEffect_ok (cfg : Cfg) (c : Cli) (hk : cfg.kind = .pool) (h : COk cfg false c) :
    COk cfg true (dropEffect (closeEffect c)) := by
  rcases c with ⟨cred, phase, inbox, inst, connOpen, connHooks, discHooks, srvFd, shut, child, table, replies, nextSeq,
    clientOpen, partSent, tracked, inFd, polled⟩
  rcases cfg with ⟨kind, auth, nb⟩
  cases phase <;>
    simp_all (config := {decide := true}) [COk, Shape, Free, Served, Gone, closeEffect, dropEffect, endServe, release, closeConn]

/-! ### the global invariant -/

structure GOk (s : St) : Prop where
  cli : ∀ k, COk s.cfg s.closedFlag (s.cli k)
  q : s.queue = []
  b : s.blocked = []
  nb : s.cfg.kind = .pool → 0 < s.cfg.nb
  closed : s.closedFlag = true →
    s.listening = false ∧ s.active = false ∧ s.acceptAlive = false ∧ s.acceptBusy = none ∧ s.poolUp = false
  opn : s.closedFlag = false →
    s.listening = true ∧ s.active = true ∧ s.acceptAlive = true ∧ s.poolUp = (s.cfg.kind == .pool) ∧
    (s.cfg.kind ≠ .oneshot → s.acceptBusy = none)
  busy : ∀ b, s.acceptBusy = some b → s.cfg.kind = .oneshot ∧ (s.cli b).phase = .idle
  free : s.cfg.kind = .oneshot → s.closedFlag = false → s.acceptBusy = none → ∀ j, (s.cli j).phase = .absent
  oidle : s.cfg.kind = .oneshot → ∀ j, (s.cli j).phase = .idle → s.acceptBusy = some j
  odone : s.cfg.kind = .oneshot → ∀ j, (s.cli j).phase = .done → s.closedFlag = true
  oacc : s.cfg.kind = .oneshot → s.accepted ≤ 1 ∧ (s.closedFlag = false → s.acceptBusy = none → s.accepted = 0)
  ouniq : s.cfg.kind = .oneshot → ∀ i j, (s.cli i).inst ≠ none → (s.cli j).inst ≠ none → i = j

theorem GOk.init (cfg : Cfg) (hnb : cfg.kind = .pool → 0 < cfg.nb) : GOk (init cfg) := by
  refine ⟨?_, rfl, rfl, hnb, ?_, ?_, ?_, ?_, ?_, ?_, ?_, ?_⟩ <;> simp [Srv.init, COk.default]

/-- fields the invariant does not read -/
theorem GOk.congr {s s' : St} (h : GOk s) (h1 : s'.cfg = s.cfg) (h2 : s'.closedFlag = s.closedFlag)
    (h3 : s'.listening = s.listening) (h4 : s'.active = s.active) (h5 : s'.acceptAlive = s.acceptAlive)
    (h6 : s'.acceptBusy = s.acceptBusy) (h7 : s'.queue = s.queue) (h8 : s'.blocked = s.blocked)
    (h9 : s'.poolUp = s.poolUp) (h10 : s'.cli = s.cli) (h11 : s.cfg.kind = .oneshot → s'.accepted = s.accepted) :
    GOk s' := by
  obtain ⟨a1, a2, a3, a4, a5, a6, a7, a8, a9, a10, a11, a12⟩ := h
  refine ⟨?_, ?_, ?_, ?_, ?_, ?_, ?_, ?_, ?_, ?_, ?_, ?_⟩
  case refine_11 => intro hk; rw [h1] at hk; simpa only [h2, h6, h11 hk] using a11 hk
  all_goals (simp only [h1, h2, h3, h4, h5, h6, h7, h8, h9, h10]; assumption)

/-- one record replaced by another of the same phase and instance -/
theorem GOk.upd {s : St} (h : GOk s) (k : Nat) (c' : Cli) (hc : COk s.cfg s.closedFlag c')
    (hp : c'.phase = (s.cli k).phase) (hi : c'.inst = (s.cli k).inst) : GOk (s.set k c') := by
  obtain ⟨a1, a2, a3, a4, a5, a6, a7, a8, a9, a10, a11, a12⟩ := h
  have hcli : ∀ j, ((s.set k c').cli j).phase = (s.cli j).phase := by
    intro j; by_cases hj : j = k
    · subst hj; simp [hp]
    · simp [set_cli_ne _ _ _ _ hj]
  have hinst : ∀ j, ((s.set k c').cli j).inst = (s.cli j).inst := by
    intro j; by_cases hj : j = k
    · subst hj; simp [hi]
    · simp [set_cli_ne _ _ _ _ hj]
  refine ⟨?_, a2, a3, a4, a5, a6, ?_, ?_, ?_, ?_, a11, ?_⟩
  · intro j; by_cases hj : j = k
    · subst hj; simpa using hc
    · simpa [set_cli_ne _ _ _ _ hj] using a1 j
  · intro b hb; simpa [hcli] using a7 b hb
  · intro h1 h2 h3 j; simpa [hcli] using a8 h1 h2 h3 j
  · intro h1 j hj; exact a9 h1 j (by simpa [hcli] using hj)
  · intro h1 j hj; exact a10 h1 j (by simpa [hcli] using hj)
  · intro h1 i j hi' hj'; exact a12 h1 i j (by simpa [hinst] using hi') (by simpa [hinst] using hj')



@[simp] theorem kind_beq (a b : Kind) : (a == b) = decide (a = b) := rfl
@[simp] theorem kind_bne (a b : Kind) : (a != b) = !decide (a = b) := rfl

theorem endServeD_inst' (c : Cli) : (endServeD c).inst = c.inst := by
  unfold endServeD endServe release closeConn; split <;> split <;> rfl

theorem closeEffect_inst (c : Cli) : (closeEffect c).inst = c.inst := by
  unfold closeEffect shutOne
  split
  · cases c.phase <;> simp [endServeD_inst', release]
  · split <;> simp

theorem dropEffect_inst (c : Cli) : (dropEffect c).inst = c.inst := by
  unfold dropEffect endServe release closeConn
  split
  · split <;> simp
  · rfl

theorem closeEffect_not_idle (cfg : Cfg) (c : Cli) (hk : cfg.kind = .oneshot) (h : COk cfg false c) :
    (closeEffect c).phase ≠ .idle := by
  rcases c with ⟨cred, phase, inbox, inst, connOpen, connHooks, discHooks, srvFd, shut, child, table, replies, nextSeq,
    clientOpen, partSent, tracked, inFd, polled⟩
  rcases cfg with ⟨kind, auth, nb⟩
  cases phase <;>
    simp_all (config := {decide := true}) [COk, Shape, Free, Served, Gone, closeEffect, shutOne, endServeD, endServe, release, closeConn]

theorem dropEffect_closed (cfg : Cfg) (c : Cli) (hk : cfg.kind = .pool) (h : COk cfg true c) : dropEffect c = c := by
  rcases c with ⟨cred, phase, inbox, inst, connOpen, connHooks, discHooks, srvFd, shut, child, table, replies, nextSeq,
    clientOpen, partSent, tracked, inFd, polled⟩
  rcases cfg with ⟨kind, auth, nb⟩
  cases phase <;> simp_all (config := {decide := true}) [COk, Shape, Free, Served, Gone, dropEffect]

theorem GOk.baseClose_nonpool {s : St} (h : GOk s) (hk : s.cfg.kind ≠ .pool) : GOk (baseClose s) := by
  unfold baseClose
  by_cases hc : s.closedFlag = true
  · simp [hc, h]
  · have hc' : s.closedFlag = false := by simpa using hc
    simp only [hc', Bool.false_eq_true, if_false]
    obtain ⟨a1, a2, a3, a4, a5, a6, a7, a8, a9, a10, a11, a12⟩ := h
    have hpu := (a6 hc').2.2.2.1
    refine ⟨?_, a2, a3, a4, ?_, ?_, ?_, ?_, ?_, ?_, ?_, ?_⟩
    · intro j; simpa using closeEffect_ok s.cfg (s.cli j) hk (by simpa [hc'] using a1 j)
    · intro _; simp [hpu, hk]
    · simp
    · simp
    · simp
    · intro h1 j hj
      exact absurd hj (by simpa using closeEffect_not_idle s.cfg (s.cli j) h1 (by simpa [hc'] using a1 j))
    · simp
    · intro h1; exact ⟨(a11 h1).1, by simp⟩
    · intro h1 i j hi hj
      exact a12 h1 i j (by simpa [closeEffect_inst] using hi) (by simpa [closeEffect_inst] using hj)


/-- in the states of the C17 alphabet `close()` never has to wait: no hook blocks, no worker is blocked -/
theorem GOk.closeWaits_false {s : St} (h : GOk s) : closeWaits s = false := by
  have hb := h.b
  have hany : s.ids.any (fun k => hookHolds (s.cli k)) = false := by
    rw [List.any_eq_false]
    intro k _
    have hc := h.cli k
    have hsl : (s.cli k).slowHook = false := hc.1.2
    have hph : (s.cli k).phase ≠ .closing := by
      obtain ⟨_, _, hs⟩ := hc
      unfold Shape at hs
      intro hp; simp [hp] at hs
    simp [hookHolds, hsl, hph]
  simp [closeWaits, hany, hb]

theorem GOk.poolClose {s : St} (h : GOk s) (hk : s.cfg.kind = .pool) :
    ∃ s', poolClose s = some s' ∧ GOk s' := by
  have hb : s.blocked = [] := h.b
  have hkn : s.cfg.kind ≠ .oneshot := by simp [hk]
  refine ⟨_, by simp only [Srv.poolClose, h.closeWaits_false]; rfl, ?_⟩
  unfold baseClose
  by_cases hc : s.closedFlag = true
  · -- already closed: nothing left to drop
    simp only [hc, if_true]
    have hcli : (s.mapCli dropEffect).cli = s.cli := by
      funext j; simpa using dropEffect_closed s.cfg (s.cli j) hk (by simpa [hc] using h.cli j)
    exact h.congr rfl (by simp [hc]) rfl rfl rfl rfl rfl hb.symm (by simp [(h.closed hc).2.2.2.2]) hcli (fun _ => rfl)
  · have hc' : s.closedFlag = false := by simpa using hc
    simp only [hc', Bool.false_eq_true, if_false]
    obtain ⟨a1, a2, a3, a4, a5, a6, a7, a8, a9, a10, a11, a12⟩ := h
    refine ⟨?_, a2, rfl, a4, ?_, ?_, ?_, ?_, ?_, ?_, ?_, ?_⟩
    · intro j; simpa using poolCloseEffect_ok s.cfg (s.cli j) hk (by simpa [hc'] using a1 j)
    · intro _; simp
    · simp
    · simp
    · simp
    · intro h1; simp [hk] at h1
    · simp
    · intro h1; simp [hk] at h1
    · intro h1; simp [hk] at h1


theorem set_set_cli (s : St) (k : Nat) (a b : Cli) : ((s.set k a).set k b).cli = (s.set k b).cli := by
  funext j; by_cases hj : j = k <;> simp [St.set, hj]

/-- for the kinds whose accept thread never serves a client itself, any record may be replaced by one in shape -/
theorem GOk.upd_free {s : St} (h : GOk s) (hk : s.cfg.kind ≠ .oneshot) (k : Nat) (c' : Cli)
    (hc : COk s.cfg s.closedFlag c') : GOk (s.set k c') := by
  obtain ⟨a1, a2, a3, a4, a5, a6, a7, a8, a9, a10, a11, a12⟩ := h
  have hnone : s.acceptBusy = none := by
    by_cases hcl : s.closedFlag = true
    · exact (a5 hcl).2.2.2.1
    · exact (a6 (by simpa using hcl)).2.2.2.2 hk
  refine ⟨?_, a2, a3, a4, a5, a6, ?_, ?_, ?_, ?_, a11, ?_⟩
  · intro j; by_cases hj : j = k
    · subst hj; simpa using hc
    · simpa [set_cli_ne _ _ _ _ hj] using a1 j
  · intro b hb; simp [hnone] at hb
  · intro h1; exact absurd h1 hk
  · intro h1; exact absurd h1 hk
  · intro h1; exact absurd h1 hk
  · intro h1; exact absurd h1 hk

/-- a request handled on an idle connection leaves it idle -/
theorem req_ok (cfg : Cfg) (cl : Bool) (c : Cli) (l : List Item) (m seq n : Nat) (r : ReqKind) (p : Bool)
    (hr : r ≠ .arm) (h : COk cfg cl c) (hp : c.phase = .idle) (hpol : p = c.polled) :
    COk cfg cl { (answer { c with inbox := l, nextSeq := m, phase := .queued, polled := false } seq r n).1 with
                 inbox := [], phase := .idle, polled := p } := by
  rcases c with ⟨cred, phase, inbox, inst, connOpen, connHooks, discHooks, srvFd, shut, child, table, replies, nextSeq,
    clientOpen, partSent, tracked, inFd, polled⟩
  cases r <;> first | exact absurd rfl hr | simp_all (config := {decide := true}) [COk, Shape, Free, Served, Gone, answer]


theorem COk.phases {cfg : Cfg} {cl : Bool} {c : Cli} (h : COk cfg cl c) :
    c.phase = .absent ∨ c.phase = .backlog ∨ c.phase = .idle ∨ c.phase = .done := by
  obtain ⟨_, _, hs⟩ := h
  unfold Shape at hs
  cases hp : c.phase <;> simp [hp] at hs ⊢

theorem COk.idle {cfg : Cfg} {cl : Bool} {c : Cli} (h : COk cfg cl c) (hp : c.phase = .idle) : Served cfg cl c := by
  obtain ⟨_, _, hs⟩ := h
  simpa [Shape, hp] using hs

theorem COk.done {cfg : Cfg} {cl : Bool} {c : Cli} (h : COk cfg cl c) (hp : c.phase = .done) : Gone cl c := by
  obtain ⟨_, _, hs⟩ := h
  simpa [Shape, hp] using hs

theorem COk.backlog {cfg : Cfg} {cl : Bool} {c : Cli} (h : COk cfg cl c) (hp : c.phase = .backlog) :
    Free c ∧ cfg.kind = .oneshot ∧ cl = false := by
  obtain ⟨_, _, hs⟩ := h
  simpa [Shape, hp] using hs

/-- fields of a record the shapes do not read -/
theorem COk.irrelevant {cfg : Cfg} {cl : Bool} {c : Cli} (h : COk cfg cl c) (hp : c.phase ≠ .idle) (l : List Item)
    (m : Nat) (o : Bool) (hl : c.phase = .done → l = []) :
    COk cfg cl { c with inbox := l, nextSeq := m, clientOpen := o } := by
  rcases c with ⟨cred, phase, inbox, inst, connOpen, connHooks, discHooks, srvFd, shut, child, table, replies, nextSeq,
    clientOpen, partSent, tracked, inFd, polled⟩
  cases phase <;> simp_all (config := {decide := true}) [COk, Shape, Free, Served, Gone]

/-- `s'` differs from `s` in the record of client `k` only (and in fields the invariant does not read) -/
structure Agree (s s' : St) (k : Nat) : Prop where
  cfg : s'.cfg = s.cfg
  closedFlag : s'.closedFlag = s.closedFlag
  listening : s'.listening = s.listening
  active : s'.active = s.active
  acceptAlive : s'.acceptAlive = s.acceptAlive
  acceptBusy : s'.acceptBusy = s.acceptBusy
  queue : s'.queue = s.queue
  blocked : s'.blocked = s.blocked
  poolUp : s'.poolUp = s.poolUp
  accepted : s.cfg.kind = .oneshot → s'.accepted = s.accepted
  other : ∀ j, j ≠ k → s'.cli j = s.cli j

theorem Agree.cli_eq {s s' : St} {k : Nat} (a : Agree s s' k) : s'.cli = (s.set k (s'.cli k)).cli := by
  funext j; by_cases hj : j = k
  · subst hj; simp
  · simp [set_cli_ne _ _ _ _ hj, a.other j hj]

theorem GOk.agree {s s' : St} (h : GOk s) (k : Nat) (a : Agree s s' k) (hc : COk s.cfg s.closedFlag (s'.cli k))
    (hp : (s'.cli k).phase = (s.cli k).phase) (hi : (s'.cli k).inst = (s.cli k).inst) : GOk s' :=
  (h.upd k (s'.cli k) hc hp hi).congr a.cfg a.closedFlag a.listening a.active a.acceptAlive a.acceptBusy a.queue
    a.blocked a.poolUp a.cli_eq a.accepted

theorem GOk.agree_free {s s' : St} (h : GOk s) (hk : s.cfg.kind ≠ .oneshot) (k : Nat) (a : Agree s s' k)
    (hc : COk s.cfg s.closedFlag (s'.cli k)) : GOk s' :=
  (h.upd_free hk k (s'.cli k) hc).congr a.cfg a.closedFlag a.listening a.active a.acceptAlive a.acceptBusy a.queue
    a.blocked a.poolUp a.cli_eq a.accepted

theorem GOk.send_req {s : St} (h : GOk s) (k m seq : Nat) (r : ReqKind) (hr : r ≠ .arm)
    (hk : (s.cli k).phase ≠ .absent) :
    GOk (send (s.set k { s.cli k with nextSeq := m }) k [.req seq r]) := by
  have hc := h.cli k
  rcases hc.phases with hp | hp | hp | hp
  · exact absurd hp hk
  · -- waiting in the listen queue: the request stays unread
    have hsh : (s.cli k).shut = false := (hc.backlog hp).1.2.2.2.2.2.2.2.2.2
    refine h.agree k ?_ ?_ ?_ ?_
    · constructor <;> simp [send, wake, hsh, hp]
      intro j hj; simp [set_cli_ne _ _ _ _ hj]
    · simpa [send, wake, hsh, hp] using
        hc.irrelevant (by simp [hp]) ((s.cli k).inbox ++ [.req seq r]) m (s.cli k).clientOpen (by simp [hp])
    · simp [send, wake, hsh, hp]
    · simp [send, wake, hsh, hp]
  · -- served and idle: answered at once
    have hs := hc.idle hp
    have hsh : (s.cli k).shut = false := hs.2.2.2.2.2.1
    have hin : (s.cli k).inbox = [] := hs.1
    by_cases hpool : s.cfg.kind = .pool
    · have hcl : s.closedFlag = false := by
        cases hcl : s.closedFlag with
        | false => rfl
        | true => have := hs.2.2.2.2.2.2.2.2.2.2.2.2 hcl; simp [hpool] at this
      have hup : s.poolUp = true := by simpa [hpool] using (h.opn hcl).2.2.2.1
      have hq := h.q
      have hb := h.b
      have hnb := h.nb hpool
      have hfw : s.cfg.nb ≠ 0 := by omega
      refine h.agree k ?_ ?_ ?_ ?_
      · constructor <;>
          simp [send, wake, hsh, hp, hpool, hin, poolWake, hup, hq, drain, freeWorkers, hfw, hb, poolServeOne, poolPlace, poolConsume,
            answer_phase, poolFrames]
        intro j hj; simp [set_cli_ne _ _ _ _ hj]
      · obtain ⟨hq1, hq2, -⟩ := hc
        obtain ⟨h1, h2, h3, h4, h5, h6, h7, h8, h9, h10, h11, h12, h13⟩ := hs
        cases r <;> first | exact absurd rfl hr |
          simp [send, wake, hp, hpool, poolWake, hup, hq, drain, freeWorkers, hfw, hb, poolServeOne, poolPlace, poolConsume, answer,
            poolFrames, COk, Shape, Served, *]
      · simp [send, wake, hsh, hp, hpool, hin, poolWake, hup, hq, drain, freeWorkers, hfw, hb, poolServeOne, poolPlace, poolConsume,
            answer_phase, poolFrames]
      · simp [send, wake, hsh, hp, hpool, hin, poolWake, hup, hq, drain, freeWorkers, hfw, hb, poolServeOne, poolPlace, poolConsume,
            answer_phase, answer_inst, poolFrames]
    · refine h.agree k ?_ ?_ ?_ ?_
      · constructor <;>
          simp [send, wake, hsh, hp, hpool, hin, runDedicated, applyConsumed, consume, answer_phase, dedFrames]
        intro j hj; simp [set_cli_ne _ _ _ _ hj]
      · obtain ⟨hq1, hq2, -⟩ := hc
        obtain ⟨h1, h2, h3, h4, h5, h6, h7, h8, h9, h10, h11, h12, h13⟩ := hs
        cases r <;> first | exact absurd rfl hr |
          (simp [send, wake, hp, hpool, runDedicated, applyConsumed, consume, answer, dedFrames, COk, Shape, Served, *] <;>
           exact h13)
      · simp [send, wake, hsh, hp, hpool, hin, runDedicated, applyConsumed, consume, answer_phase, dedFrames]
      · simp [send, wake, hsh, hp, hpool, hin, runDedicated, applyConsumed, consume, answer_phase, answer_inst, dedFrames]
  · -- finished: nothing arrives
    have hsh : (s.cli k).shut = true := (hc.done hp).1
    refine h.agree k ?_ ?_ ?_ ?_
    · constructor <;> simp [send, hsh]
      intro j hj; simp [set_cli_ne _ _ _ _ hj]
    · simpa [send, hsh] using
        hc.irrelevant (by simp [hp]) (s.cli k).inbox m (s.cli k).clientOpen (by intro _; exact (hc.done hp).2.2.2.2.2.2.1)
    · simp [send, hsh]
    · simp [send, hsh]


/-- `Server.close()` of a one-shot server whose only client has just been finished with -/
theorem GOk.oneshot_end {s u : St} (h : GOk s) (hk : s.cfg.kind = .oneshot) (k : Nat)
    (hp : (s.cli k).phase = .idle ∨ (s.cli k).phase = .backlog ∨ s.closedFlag = false)
    (hcl : s.closedFlag = false)
    (e1 : u.cfg = s.cfg) (e2 : u.closedFlag = false) (e3 : u.queue = []) (e4 : u.blocked = [])
    (e5 : u.poolUp = false) (e6 : u.accepted ≤ 1) (e7 : ∀ j, j ≠ k → u.cli j = s.cli j)
    (e8 : COk s.cfg false (u.cli k)) (e9 : (u.cli k).inst ≠ none → (s.cli k).inst ≠ none ∨ ∀ j, (s.cli j).inst = none) :
    GOk (baseClose u) := by
  have hko : s.cfg.kind ≠ .pool := by simp [hk]
  have hcli : ∀ j, COk s.cfg false (u.cli j) := by
    intro j; by_cases hj : j = k
    · subst hj; exact e8
    · rw [e7 j hj]; simpa [hcl] using h.cli j
  unfold baseClose
  simp only [e2, Bool.false_eq_true, if_false]
  refine ⟨?_, ?_, ?_, ?_, ?_, ?_, ?_, ?_, ?_, ?_, ?_, ?_⟩
  · intro j; simpa [e1] using closeEffect_ok s.cfg (u.cli j) hko (hcli j)
  · simpa using e3
  · simpa using e4
  · intro h1; simp [e1, hk] at h1
  · intro _; simp [e5]
  · simp
  · simp
  · simp
  · intro _ j hj
    exact absurd hj (by simpa using closeEffect_not_idle s.cfg (u.cli j) hk (hcli j))
  · simp
  · intro _; exact ⟨by simpa using e6, by simp⟩
  · intro _ i j hi hj
    simp only [mapCli_cli, closeEffect_inst] at hi hj
    by_cases hik : i = k <;> by_cases hjk : j = k
    · rw [hik, hjk]
    · subst hik
      rw [e7 j hjk] at hj
      rcases e9 hi with h1 | h1
      · exact h.ouniq hk _ _ h1 hj
      · exact absurd (h1 j) hj
    · subst hjk
      rw [e7 i hik] at hi
      rcases e9 hj with h1 | h1
      · exact h.ouniq hk _ _ hi h1
      · exact absurd (h1 i) hi
    · rw [e7 i hik] at hi; rw [e7 j hjk] at hj
      exact h.ouniq hk _ _ hi hj


@[simp] theorem endServe_phase (c : Cli) : (endServe c).phase = .done := rfl
@[simp] theorem release_phase (c : Cli) : (release c).phase = .done := rfl
@[simp] theorem endServe_inst (c : Cli) : (endServe c).inst = c.inst := by
  unfold endServe release closeConn; split <;> rfl

/-- one-shot: the accept thread comes back from its only client and closes the server -/
theorem GOk.afterEnd_oneshot {s t : St} (h : GOk s) (hone : s.cfg.kind = .oneshot) (hcl : s.closedFlag = false)
    (k : Nat) (e1 : t.cfg = s.cfg) (e2 : t.closedFlag = false) (e3 : t.queue = []) (e4 : t.blocked = [])
    (e5 : t.poolUp = false) (e6 : t.accepted ≤ 1) (e7 : ∀ j, j ≠ k → t.cli j = s.cli j)
    (hc : COk s.cfg false { t.cli k with tracked := false })
    (hi : (t.cli k).inst ≠ none → (s.cli k).inst ≠ none ∨ ∀ j, (s.cli j).inst = none) : GOk (afterEnd t k) := by
  unfold afterEnd
  rw [e1, if_pos hone]
  refine h.oneshot_end hone k (Or.inr (Or.inr hcl)) hcl ?_ ?_ ?_ ?_ ?_ ?_ ?_ ?_ ?_
  · simp [e1]
  · simp [e2]
  · simp [e3]
  · simp [e4]
  · simp [e5]
  · simpa using e6
  · intro j hj; simp [set_cli_ne _ _ _ _ hj, e7 j hj]
  · simpa using hc
  · intro h1; exact hi (by simpa using h1)

/-- what the server makes of a connection whose client said goodbye or vanished -/
theorem gone_ok (cfg : Cfg) (cl : Bool) (c : Cli) (l : List Item) (h : COk cfg cl c) (hp : c.phase = .idle) (ph : Phase) :
    COk cfg cl { endServe { c with inbox := l, clientOpen := false, phase := ph, polled := false } with
                    tracked := false, inFd := false } := by
  rcases c with ⟨cred, phase, inbox, inst, connOpen, connHooks, discHooks, srvFd, shut, child, table, replies, nextSeq,
    clientOpen, partSent, tracked, inFd, polled⟩
  simp_all (config := {decide := true}) [COk, Shape, Free, Served, Gone, endServe, release, closeConn]

theorem GOk.send_end {s : St} (h : GOk s) (k : Nat) (it : Item) (hit : it = .bye ∨ it = .fin)
    (hk : (s.cli k).phase ≠ .absent) :
    GOk (send (s.set k { s.cli k with clientOpen := false }) k [it]) := by
  have hc := h.cli k
  rcases hc.phases with hp | hp | hp | hp
  · exact absurd hp hk
  · have hsh : (s.cli k).shut = false := (hc.backlog hp).1.2.2.2.2.2.2.2.2.2
    refine h.agree k ?_ ?_ ?_ ?_
    · constructor <;> simp [send, wake, hsh, hp]
      intro j hj; simp [set_cli_ne _ _ _ _ hj]
    · simpa [send, wake, hsh, hp] using
        hc.irrelevant (by simp [hp]) ((s.cli k).inbox ++ [it]) (s.cli k).nextSeq false (by simp [hp])
    · simp [send, wake, hsh, hp]
    · simp [send, wake, hsh, hp]
  · have hs := hc.idle hp
    have hsh : (s.cli k).shut = false := hs.2.2.2.2.2.1
    have hin : (s.cli k).inbox = [] := hs.1
    have hcl : s.closedFlag = false ∨ s.cfg.kind = .forking := by
      cases hcl : s.closedFlag with
      | false => exact Or.inl rfl
      | true => exact Or.inr (hs.2.2.2.2.2.2.2.2.2.2.2.2 hcl)
    have hg := fun l ph => gone_ok s.cfg s.closedFlag (s.cli k) l hc hp ph
    have hco : (s.cli k).connOpen = true := hs.2.1
    have htr : (s.cli k).tracked = (s.cfg.kind == .threaded || s.cfg.kind == .oneshot) := hs.2.2.2.2.2.2.2.1
    have hfd : (s.cli k).inFd = (s.cfg.kind == .pool) := hs.2.2.2.2.2.2.2.2.2.2.1
    have hpo : (s.cli k).polled = (s.cfg.kind == .pool) := hs.2.2.2.2.2.2.2.2.2.2.2.1
    have hsl : (s.cli k).slowHook = false := hc.1.2
    by_cases hpool : s.cfg.kind = .pool
    · have hcl' : s.closedFlag = false := by
        rcases hcl with h1 | h1
        · exact h1
        · simp [hpool] at h1
      have hup : s.poolUp = true := by simpa [hpool] using (h.opn hcl').2.2.2.1
      have hq := h.q
      have hb := h.b
      have hfw : s.cfg.nb ≠ 0 := by have := h.nb hpool; omega
      have hone : s.cfg.kind ≠ .oneshot := by simp [hpool]
      refine h.agree_free hone k ?_ ?_
      · constructor <;> rcases hit with rfl | rfl <;>
          simp [send, wake, hsh, hp, hpool, hin, poolWake, hup, hq, drain, freeWorkers, hfw, hb, poolServeOne, poolPlace,
            poolConsume, poolFrames, endServe, release, closeConn, hco, hsl] <;>
          (intro j hj; simp [set_cli_ne _ _ _ _ hj])
      · rcases hit with rfl | rfl <;>
          simpa (config := {decide := true}) [send, wake, hsh, hp, hpool, hin, poolWake, hup, hq, drain, freeWorkers, hfw,
            hb, poolServeOne, poolPlace, poolConsume, poolFrames, endServe, release, closeConn, hco, htr, hfd, hpo, hsl]
            using hg [] .queued
    · by_cases hone : s.cfg.kind = .oneshot
      · have hcl' : s.closedFlag = false := by
          rcases hcl with h1 | h1
          · exact h1
          · simp [hone] at h1
        have hpb : (s.cfg.kind == Kind.pool) = false := by simp [hpool]
        have hpu : s.poolUp = false := by simpa [hpool] using (h.opn hcl').2.2.2.1
        have hgk := hg [] .idle
        rw [hcl'] at hgk
        have hpo' : (s.cli k).polled = false := by simpa [hone] using hpo
        have hfd' : (s.cli k).inFd = false := by simpa [hone] using hfd
        rcases hit with rfl | rfl <;>
          simp only [send, wake, set_cli_same, hsh, hp, hone, hin, runDedicated, applyConsumed, consume, endServeD, hsl,
            Bool.false_eq_true, if_false, if_true, List.nil_append, set_cfg, reduceCtorEq, endServe_phase] <;>
          refine h.afterEnd_oneshot hone hcl' k rfl (by simp [hcl']) (by simp [h.q]) (by simp [h.b]) (by simp [hpu])
            (by simpa using (h.oacc hone).1) ?_ ?_ ?_
        all_goals first
          | (intro j hj; simp [set_cli_ne _ _ _ _ hj]; done)
          | (simpa [hpo', hfd', endServe, release, closeConn, hco, hsl] using hgk)
          | (intro _; left; simpa using hs.2.2.1)
      · have hpb : (s.cfg.kind == Kind.pool) = false := by simp [hpool]
        refine h.agree_free hone k ?_ ?_
        · constructor <;> rcases hit with rfl | rfl <;>
            simp [send, wake, hsh, hp, hpool, hone, hin, runDedicated, applyConsumed, consume, afterEnd, dedFrames,
              endServeD, hsl, endServe, release] <;>
            (intro j hj; simp [set_cli_ne _ _ _ _ hj])
        · rcases hit with rfl | rfl <;>
            simpa [send, wake, hsh, hp, hpool, hone, hin, runDedicated, applyConsumed, consume, afterEnd, dedFrames,
              endServeD, hsl, endServe, release, closeConn, hco, htr, hfd, hpo, hpb] using hg [] .idle
  · have hsh : (s.cli k).shut = true := (hc.done hp).1
    refine h.agree k ?_ ?_ ?_ ?_
    · constructor <;> simp [send, hsh]
      intro j hj; simp [set_cli_ne _ _ _ _ hj]
    · simpa [send, hsh] using
        hc.irrelevant (by simp [hp]) (s.cli k).inbox (s.cli k).nextSeq false (by intro _; exact (hc.done hp).2.2.2.2.2.2.1)
    · simp [send, hsh]
    · simp [send, hsh]


/-! ### the accept loop -/

theorem acceptAll_skip (l : List Nat) (s : St) (h : canAccept s = true → ∀ j ∈ l, (s.cli j).phase ≠ .backlog) :
    acceptAll l s = s := by
  induction l with
  | nil => rfl
  | cons a l ih =>
    unfold acceptAll
    have : ¬ (canAccept s = true ∧ (s.cli a).phase = .backlog) := by
      intro ⟨h1, h2⟩; exact h h1 a (by simp) h2
    simp only [Bool.and_eq_true, decide_eq_true_eq, this, if_false]
    exact ih (fun h1 j hj => h h1 j (by simp [hj]))

/-- with exactly one connection waiting, the loop accepts that one and finds nothing else -/
theorem acceptAll_single (l : List Nat) (s : St) (k : Nat) (hk : k ∈ l) (hc : canAccept s = true)
    (hb : (s.cli k).phase = .backlog) (ho : ∀ j, j ≠ k → (s.cli j).phase ≠ .backlog)
    (ha : canAccept (acceptOne s k) = true → ∀ j, ((acceptOne s k).cli j).phase ≠ .backlog) :
    acceptAll l s = acceptOne s k := by
  induction l with
  | nil => simp at hk
  | cons a l ih =>
    unfold acceptAll
    by_cases hak : a = k
    · subst hak
      simp only [hc, hb, Bool.and_self, decide_true, if_true]
      exact acceptAll_skip l _ (fun h1 j _ => ha h1 j)
    · have : (s.cli a).phase ≠ .backlog := ho a hak
      simp only [this, decide_false, Bool.and_false, Bool.false_eq_true, if_false]
      exact ih (by simpa [Ne.symm hak] using hk)

theorem GOk.untrackAll {s : St} (h : GOk s) (hk : s.cfg.kind = .pool) : GOk (untrackAll s) := by
  obtain ⟨a1, a2, a3, a4, a5, a6, a7, a8, a9, a10, a11, a12⟩ := h
  refine ⟨?_, a2, a3, a4, a5, a6, ?_, ?_, ?_, ?_, a11, ?_⟩
  · intro j; exact untrack_ok s.cfg s.closedFlag (s.cli j) (Or.inl hk) (a1 j)
  · intro b hb; simpa [Srv.untrackAll] using a7 b hb
  · intro h1; simp [Srv.untrackAll, hk] at h1
  · intro h1; simp [Srv.untrackAll, hk] at h1
  · intro h1; simp [Srv.untrackAll, hk] at h1
  · intro h1; simp [Srv.untrackAll, hk] at h1



theorem GOk.no_backlog {s : St} (h : GOk s) (hc : canAccept s = true) (j : Nat) : (s.cli j).phase ≠ .backlog := by
  intro hb
  obtain ⟨_, hone, hcl⟩ := (h.cli j).backlog hb
  have hbusy : s.acceptBusy = none := by
    simp [canAccept] at hc; exact hc.2
  have := h.free hone hcl hbusy j
  simp [hb] at this

def fresh (cred : Cred) : Cli :=
  { cred := cred, phase := .backlog, clientOpen := cred != .reset, inbox := if cred = .reset then [.fin] else [] }

/-- a new client is taken from the listener by a free accept loop: threaded and forking servers -/
theorem GOk.accept_dedicated {s : St} (h : GOk s) (k : Nat) (cred : Cred) (ids : List Nat)
    (hk : s.cfg.kind = .threaded ∨ s.cfg.kind = .forking) (hcl : s.closedFlag = false)
    (habs : (s.cli k).phase = .absent) (hcr : cred ≠ .silent) (hbad : cred = .bad → s.cfg.auth = true) :
    GOk (acceptOne { (s.set k (fresh cred)) with ids := ids } k) := by
  have hone : s.cfg.kind ≠ .oneshot := by rcases hk with hk | hk <;> simp [hk]
  refine h.agree_free hone k ?_ ?_
  · constructor <;> rcases hk with hk | hk <;> cases cred <;> cases hau : s.cfg.auth <;>
      simp_all [acceptOne, authServe, serveClient, built, runDedicated, applyConsumed, consume, afterEnd, fresh,
        dedFrames] <;>
      (intro j hj; simp [set_cli_ne _ _ _ _ hj])
  · rcases hk with hk | hk <;> cases cred <;> cases hau : s.cfg.auth <;>
      simp_all (config := {decide := true}) [acceptOne, authServe, serveClient, built, runDedicated, applyConsumed,
        consume, afterEnd, fresh, dedFrames, COk, Shape, Served, Gone, release]


/-- the same for the pool: authenticate and build in the accept thread, register, `clients.clear()` -/
theorem GOk.accept_pool {s : St} (h : GOk s) (k : Nat) (cred : Cred) (ids : List Nat)
    (hk : s.cfg.kind = .pool) (hcl : s.closedFlag = false)
    (habs : (s.cli k).phase = .absent) (hcr : cred ≠ .silent) (hbad : cred = .bad → s.cfg.auth = true) :
    GOk (acceptOne { (s.set k (fresh cred)) with ids := ids } k) := by
  have hone : (Srv.untrackAll s).cfg.kind ≠ .oneshot := by simp [Srv.untrackAll, hk]
  have hup : s.poolUp = true := by simpa [hk] using (h.opn hcl).2.2.2.1
  refine (h.untrackAll hk).agree_free hone k ?_ ?_
  · constructor <;> cases cred <;> cases hau : s.cfg.auth <;>
      simp_all [acceptOne, poolAccept, poolBuild, poolWake, built, fresh, Srv.untrackAll, St.mapCli] <;>
      (intro j hj; simp [set_cli_ne _ _ _ _ hj, St.set, hj])
  · cases cred <;> cases hau : s.cfg.auth <;>
      simp_all (config := {decide := true}) [acceptOne, poolAccept, poolBuild, poolWake, built, fresh, Srv.untrackAll,
        St.mapCli, COk, Shape, Served, Gone, release]


/-- one-shot: the accept thread itself serves the client it took -/
theorem GOk.serve_oneshot {s X : St} (h : GOk s) (k : Nat) (cred : Cred)
    (hk : s.cfg.kind = .oneshot) (hcl : s.closedFlag = false) (hbusy : s.acceptBusy = none) (hcr : cred ≠ .silent)
    (hcr2 : cred ≠ .reset) (e1 : X.cfg = s.cfg) (e2 : X.closedFlag = false) (e3 : X.listening = s.listening) (e4 : X.active = s.active)
    (e5 : X.acceptAlive = s.acceptAlive) (e6 : X.acceptBusy = some k) (e7 : X.queue = []) (e8 : X.blocked = [])
    (e9 : X.poolUp = s.poolUp) (e10 : X.accepted = s.accepted + 1) (e11 : ∀ j, j ≠ k → X.cli j = s.cli j)
    (e12 : X.cli k = { fresh cred with srvFd := true, tracked := true, phase := .idle }) :
    GOk (serveClient X k) := by
  have hall := h.free hk hcl hbusy
  have hacc := (h.oacc hk).2 hcl hbusy
  have hfree : ∀ j, Free (s.cli j) := by
    intro j; have := (h.cli j).2.2; simpa [Shape, hall j] using this
  obtain ⟨a1, a2, a3, a4, a5, a6, a7, a8, a9, a10, a11, a12⟩ := h
  have hph : ∀ j, j ≠ k → (serveClient X k).cli j = s.cli j := by
    intro j hj
    simp [serveClient, built, runDedicated, applyConsumed, consume, fresh, dedFrames, set_cli_ne _ _ _ _ hj, e12, e11 j hj,
      hcr2]
  have hkk : COk s.cfg false ((serveClient X k).cli k) ∧ ((serveClient X k).cli k).phase = .idle ∧
      (serveClient X k).acceptBusy = some k ∧ (serveClient X k).closedFlag = false ∧ (serveClient X k).cfg = s.cfg ∧
      (serveClient X k).queue = [] ∧ (serveClient X k).blocked = [] ∧ (serveClient X k).accepted = 1 ∧
      (serveClient X k).listening = s.listening ∧ (serveClient X k).active = s.active ∧
      (serveClient X k).acceptAlive = s.acceptAlive ∧ (serveClient X k).poolUp = s.poolUp := by
    simp (config := {decide := true}) [serveClient, built, runDedicated, applyConsumed, consume, fresh, dedFrames, COk,
      Shape, Served, hk, hcr, hcr2, e1, e2, e3, e4, e5, e6, e7, e8, e9, e10, e12, hacc]
  obtain ⟨k1, k2, k3, k4, k5, k6, k7, k8, k9, k10, k11, k12⟩ := hkk
  refine ⟨?_, k6, k7, ?_, ?_, ?_, ?_, ?_, ?_, ?_, ?_, ?_⟩
  · intro j; by_cases hj : j = k
    · subst hj; simpa [k5, k4] using k1
    · rw [hph j hj, k5, k4]; simpa [hcl] using a1 j
  · intro h1; simp [k5, hk] at h1
  · intro h1; simp [k4] at h1
  · intro _; rw [k9, k10, k11, k12, k5]; refine ⟨(a6 hcl).1, (a6 hcl).2.1, (a6 hcl).2.2.1, (a6 hcl).2.2.2.1, ?_⟩
    intro h1; exact absurd hk h1
  · intro b hb; rw [k3] at hb; cases hb; exact ⟨by rw [k5]; exact hk, k2⟩
  · intro _ _ h3; simp [k3] at h3
  · intro _ j hj
    by_cases hjk : j = k
    · subst hjk; exact k3
    · rw [hph j hjk, hall j] at hj; simp at hj
  · intro _ j hj
    by_cases hjk : j = k
    · subst hjk; simp [k2] at hj
    · rw [hph j hjk, hall j] at hj; simp at hj
  · intro _; simp [k8, k3]
  · intro _ i j hi hj
    by_cases hik : i = k <;> by_cases hjk : j = k
    · rw [hik, hjk]
    · rw [hph j hjk] at hj; exact absurd (hfree j).2.2.2.2.2.2.1 hj
    · rw [hph i hik] at hi; exact absurd (hfree i).2.2.2.2.2.2.1 hi
    · rw [hph j hjk] at hj; exact absurd (hfree j).2.2.2.2.2.2.1 hj

theorem GOk.accept_oneshot {s : St} (h : GOk s) (k : Nat) (cred : Cred) (ids : List Nat)
    (hk : s.cfg.kind = .oneshot) (hcl : s.closedFlag = false) (hbusy : s.acceptBusy = none)
    (habs : (s.cli k).phase = .absent) (hcr : cred ≠ .silent)
    (hbad : cred = .bad → s.cfg.auth = true) :
    GOk (acceptOne { (s.set k (fresh cred)) with ids := ids } k) := by
  cases cred with
  | silent => exact absurd rfl hcr
  | reset =>
    simp only [acceptOne, hk, authServe, set_cfg, set_cli_same, fresh, if_true, ↓reduceIte]
    have hacc := (h.oacc hk).2 hcl hbusy
    refine h.afterEnd_oneshot hk hcl k rfl (by simp [hcl]) (by simp [h.q]) (by simp [h.b])
      (by simpa [hk] using (h.opn hcl).2.2.2.1) (by simp [hacc]) ?_ ?_ ?_
    · intro j hj; simp [set_cli_ne _ _ _ _ hj]
    · simp (config := {decide := true}) [COk, Shape, Gone, release]
    · intro h1; simp [release] at h1
  | good =>
    have hserved := fun X => h.serve_oneshot (X := X) k .good hk hcl hbusy hcr (by simp)
    cases hau : s.cfg.auth <;> simp only [acceptOne, hk, authServe, set_cfg, hau, if_true, if_false, set_cli_same, fresh,
        Bool.false_eq_true] <;>
      refine hserved _ rfl ?_ rfl rfl rfl rfl ?_ ?_ rfl ?_ ?_ ?_ <;>
      first
        | (simp [hcl, h.q, h.b, fresh]; done)
        | (intro j hj; simp [set_cli_ne _ _ _ _ hj])
  | bad =>
    have hau := hbad rfl
    simp only [acceptOne, hk, authServe, set_cfg, hau, if_true, set_cli_same, fresh]
    have hacc := (h.oacc hk).2 hcl hbusy
    refine h.afterEnd_oneshot hk hcl k rfl (by simp [hcl]) (by simp [h.q]) (by simp [h.b])
      (by simpa [hk] using (h.opn hcl).2.2.2.1) (by simp [hacc]) ?_ ?_ ?_
    · intro j hj; simp [set_cli_ne _ _ _ _ hj]
    · simp (config := {decide := true}) [COk, Shape, Gone, release]
    · intro h1; simp [release] at h1



/-- the alphabet of C17: connect (with good or failing credentials), call, graceful close, abrupt close, server close -/
def Op.c17 : Op → Bool
  | .connect _ c => c != .silent
  | .creds _ _ => false
  | .connectReuse _ _ => false
  | .releaseHook _ => false
  | .call _ r => r != .arm
  | .raw _ _ => false
  | .gracefulClose _ => true
  | .abruptClose _ => true
  | .serverClose => true
  | .acceptFault => false
  | .connectNoSpawn _ => false

/-- a new connection joins the listen queue of a busy one-shot server -/
theorem GOk.add_backlog {s : St} (h : GOk s) (k : Nat) (cred : Cred) (ids : List Nat) (hcr : cred ≠ .silent)
    (habs : (s.cli k).phase = .absent) (hcl : s.closedFlag = false) (b : Nat) (hb : s.acceptBusy = some b) :
    GOk { (s.set k (fresh cred)) with ids := ids } := by
  obtain ⟨a1, a2, a3, a4, a5, a6, a7, a8, a9, a10, a11, a12⟩ := h
  have hone := (a7 b hb).1
  have hbk : b ≠ k := by
    intro hbk; have := (a7 b hb).2; rw [hbk, habs] at this; cases this
  have hfree : Free (s.cli k) := by have := (a1 k).2.2; simpa [Shape, habs] using this
  refine ⟨?_, a2, a3, a4, a5, a6, ?_, ?_, ?_, ?_, a11, ?_⟩
  · intro j; by_cases hj : j = k
    · subst hj; simp (config := {decide := true}) [fresh, COk, Shape, Free, hcr, hone, hcl]
    · simpa [set_cli_ne _ _ _ _ hj] using a1 j
  · intro b' hb'
    have : b' = b := by simp [hb] at hb'; exact hb'.symm
    subst this
    refine ⟨hone, ?_⟩
    simpa [set_cli_ne _ _ _ _ hbk] using (a7 b' hb).2
  · intro _ _ h3; simp [hb] at h3
  · intro h1 j hj
    by_cases hjk : j = k
    · subst hjk; simp [fresh] at hj
    · exact a9 h1 j (by simpa [set_cli_ne _ _ _ _ hjk] using hj)
  · intro h1 j hj
    by_cases hjk : j = k
    · subst hjk; simp [fresh] at hj
    · exact a10 h1 j (by simpa [set_cli_ne _ _ _ _ hjk] using hj)
  · intro h1 i j hi hj
    by_cases hik : i = k
    · subst hik; simp [fresh] at hi
    · by_cases hjk : j = k
      · subst hjk; simp [fresh] at hj
      · exact a12 h1 i j (by simpa [set_cli_ne _ _ _ _ hik] using hi) (by simpa [set_cli_ne _ _ _ _ hjk] using hj)

theorem GOk.connect {s : St} (h : GOk s) (k : Nat) (cred : Cred) (hcr : cred ≠ .silent)
    {s' : St} {o : Obs}
    (hs : step s (.connect k cred) = .ok (s', o)) : GOk s' := by
  unfold step at hs
  by_cases hg : ((s.cli k).phase != .absent || (cred == .bad && !s.cfg.auth)) = true
  · simp [hg] at hs
  · simp only [hg, Bool.false_eq_true, if_false] at hs
    have habs : (s.cli k).phase = .absent := by
      simp at hg; exact hg.1
    have hbad : cred = .bad → s.cfg.auth = true := by
      intro hc; simp [hc] at hg; exact hg.2
    by_cases hl : s.listening = true
    · simp only [hl, Bool.not_true, Bool.false_eq_true, if_false, Except.ok.injEq, Prod.mk.injEq] at hs
      obtain ⟨hs, -⟩ := hs
      subst hs
      have hcl : s.closedFlag = false := by
        cases hcf : s.closedFlag with
        | false => rfl
        | true => have := (h.closed hcf).1; simp [hl] at this
      change GOk (acceptAll (s.ids ++ [k]) { (s.set k (fresh cred)) with ids := s.ids ++ [k] })
      by_cases hca : canAccept s = true
      · -- the accept loop is free: only the new connection is waiting, it is taken at once
        have hbusy : s.acceptBusy = none := by simp [canAccept] at hca; exact hca.2
        have hres : GOk (acceptOne { (s.set k (fresh cred)) with ids := s.ids ++ [k] } k) := by
          cases hkind : s.cfg.kind with
          | threaded => exact h.accept_dedicated k cred _ (Or.inl hkind) hcl habs hcr hbad
          | forking => exact h.accept_dedicated k cred _ (Or.inr hkind) hcl habs hcr hbad
          | pool => exact h.accept_pool k cred _ hkind hcl habs hcr hbad
          | oneshot => exact h.accept_oneshot k cred _ hkind hcl hbusy habs hcr hbad
        rw [acceptAll_single (s.ids ++ [k]) _ k (by simp) (by exact hca) (by simp [fresh])
          (by intro j hj; simpa [set_cli_ne _ _ _ _ hj] using h.no_backlog hca j)
          (fun h1 j => hres.no_backlog h1 j)]
        exact hres
      · -- busy (a one-shot server serving its client): the connection waits
        have hceq : canAccept { (s.set k (fresh cred)) with ids := s.ids ++ [k] } = canAccept s := rfl
        rw [acceptAll_skip _ _ (by intro h1; rw [hceq] at h1; exact absurd h1 hca)]
        have ho := h.opn hcl
        have : s.acceptBusy ≠ none := by
          intro hn; apply hca; simp [canAccept, ho.1, ho.2.1, ho.2.2.1, hn]
        obtain ⟨b, hb⟩ := Option.ne_none_iff_exists'.mp this
        exact h.add_backlog k cred _ hcr habs hcl b hb
    · have hl' : s.listening = false := by simpa using hl
      simp [hl'] at hs
      obtain ⟨hs, -⟩ := hs
      subst hs; exact h


theorem usable_phase {s : St} {k : Nat} (h : usable s k = true) : (s.cli k).phase ≠ .absent := by
  simp [usable] at h; exact h.1.1.1

theorem GOk.step {s s' : St} {o : Obs} (h : GOk s) (op : Op) (hop : op.c17 = true)
    (hs : Srv.step s op = .ok (s', o)) : GOk s' := by
  cases op with
  | connect k cred =>
    exact h.connect k cred (by simpa [Op.c17] using hop) hs
  | raw k items => simp [Op.c17] at hop
  | creds k c => simp [Op.c17] at hop
  | connectReuse k j => simp [Op.c17] at hop
  | releaseHook k => simp [Op.c17] at hop
  | acceptFault => simp [Op.c17] at hop
  | connectNoSpawn k => simp [Op.c17] at hop
  | call k r =>
    unfold Srv.step at hs
    by_cases hu : usable s k = true
    · simp only [hu, Bool.not_true, Bool.false_eq_true, if_false, Except.ok.injEq, Prod.mk.injEq] at hs
      rw [← hs.1]; exact h.send_req k _ _ r (by simpa [Op.c17] using hop) (usable_phase hu)
    · simp [hu] at hs
  | gracefulClose k =>
    unfold Srv.step at hs
    by_cases hu : usable s k = true
    · simp only [hu, Bool.not_true, Bool.false_eq_true, if_false, Except.ok.injEq, Prod.mk.injEq] at hs
      rw [← hs.1]; exact h.send_end k .bye (Or.inl rfl) (usable_phase hu)
    · simp [hu] at hs
  | abruptClose k =>
    unfold Srv.step at hs
    by_cases hu : ((s.cli k).phase == .absent || !(s.cli k).clientOpen) = true
    · simp [hu] at hs
    · simp only [hu, Bool.false_eq_true, if_false, Except.ok.injEq, Prod.mk.injEq] at hs
      rw [← hs.1]
      exact h.send_end k .fin (Or.inr rfl) (by simp at hu; exact hu.1)
  | serverClose =>
    unfold Srv.step at hs
    by_cases hk : s.cfg.kind = .pool
    · obtain ⟨t, ht, hg⟩ := h.poolClose hk
      simp [hk, ht] at hs
      rw [← hs.1]; exact hg
    · simp only [hk, if_false, Except.ok.injEq, Prod.mk.injEq] at hs
      rw [← hs.1]; exact h.baseClose_nonpool hk

theorem GOk.run {s : St} (h : GOk s) (ops : List Op) (hops : ∀ op ∈ ops, op.c17 = true) : GOk (Srv.run s ops) := by
  induction ops generalizing s with
  | nil => exact h
  | cons op ops ih =>
    unfold Srv.run
    cases hs : Srv.step s op with
    | error e => exact ih h (fun o ho => hops o (by simp [ho]))
    | ok r =>
      obtain ⟨s', o⟩ := r
      exact ih (h.step op (hops op (by simp)) hs) (fun o ho => hops o (by simp [ho]))



/-! ### the configuration never changes -/

@[simp] theorem baseClose_cfg (s : St) : (baseClose s).cfg = s.cfg := by
  unfold baseClose; split <;> simp
@[simp] theorem afterEnd_cfg (s : St) (k : Nat) : (afterEnd s k).cfg = s.cfg := by
  unfold afterEnd; split <;> simp
@[simp] theorem applyConsumed_cfg (s : St) (k : Nat) (r : Cli × Nat) : (applyConsumed s k r).cfg = s.cfg := by
  unfold applyConsumed; split <;> simp
@[simp] theorem runDedicated_cfg (s : St) (k : Nat) : (runDedicated s k).cfg = s.cfg := by
  unfold runDedicated; simp
@[simp] theorem built_cfg (s : St) (k : Nat) : (built s k).cfg = s.cfg := rfl
@[simp] theorem serveClient_cfg (s : St) (k : Nat) : (serveClient s k).cfg = s.cfg := by
  unfold serveClient; simp
@[simp] theorem authServe_cfg (s : St) (k : Nat) : (authServe s k).cfg = s.cfg := by
  unfold authServe; split
  · simp
  · split
    · split <;> (try split) <;> simp
    · simp
@[simp] theorem poolPlace_cfg (s : St) (k : Nat) (r : Cli × Nat) : (poolPlace s k r).cfg = s.cfg := by
  unfold poolPlace; split <;> (try split) <;> simp
@[simp] theorem poolServeOne_cfg (s : St) (k : Nat) : (poolServeOne s k).cfg = s.cfg := by
  unfold poolServeOne; simp
@[simp] theorem drain_cfg (l : List Nat) (s : St) : (drain l s).cfg = s.cfg := by
  induction l generalizing s with
  | nil => rfl
  | cons a l ih => unfold drain; split <;> simp [ih]
@[simp] theorem poolWake_cfg (s : St) (k : Nat) : (poolWake s k).cfg = s.cfg := by
  unfold poolWake; split <;> simp
@[simp] theorem poolUnblock_cfg (s : St) (k : Nat) : (poolUnblock s k).cfg = s.cfg := by
  unfold poolUnblock; split <;> simp
@[simp] theorem untrackAll_cfg (s : St) : (untrackAll s).cfg = s.cfg := rfl
@[simp] theorem poolBuild_cfg (s : St) (k : Nat) : (poolBuild s k).cfg = s.cfg := by
  unfold poolBuild; simp
@[simp] theorem poolAccept_cfg (s : St) (k : Nat) : (poolAccept s k).cfg = s.cfg := by
  unfold poolAccept; split
  · simp
  · split
    · split <;> (try split) <;> simp
    · simp
@[simp] theorem acceptOne_cfg (s : St) (k : Nat) : (acceptOne s k).cfg = s.cfg := by
  unfold acceptOne; split <;> simp
@[simp] theorem acceptAll_cfg (l : List Nat) (s : St) : (acceptAll l s).cfg = s.cfg := by
  induction l generalizing s with
  | nil => rfl
  | cons a l ih => unfold acceptAll; split <;> simp [ih]
@[simp] theorem poolAuthGone_cfg (s : St) (k : Nat) : (poolAuthGone s k).cfg = s.cfg := by
  unfold poolAuthGone; simp
@[simp] theorem wake_cfg (s : St) (k : Nat) : (wake s k).cfg = s.cfg := by
  unfold wake; split <;> (try split) <;> (try split) <;> (try split) <;> simp
@[simp] theorem send_cfg (s : St) (k : Nat) (l : List Item) : (send s k l).cfg = s.cfg := by
  unfold send; split <;> simp

@[simp] theorem poolAuthDone_cfg (s : St) (k : Nat) : (poolAuthDone s k).cfg = s.cfg := by
  unfold poolAuthDone; simp
@[simp] theorem supply_cfg (s : St) (k : Nat) (c : Cred) : (supply s k c).cfg = s.cfg := by
  unfold supply; split
  · simp
  · split <;> (try split) <;> (try split) <;> simp

@[simp] theorem poolRelease_cfg (s : St) (k : Nat) : (poolRelease s k).cfg = s.cfg := by
  unfold poolRelease; simp only [drain_cfg]
  split
  · simp
  · split
    · split <;> simp
    · simp

@[simp] theorem dedRelease_cfg (s : St) (k : Nat) : (dedRelease s k).cfg = s.cfg := by
  unfold dedRelease; simp

/-- an error from `accept()`: nothing happens (the code that logs and retries), or the server closes itself -/
theorem step_acceptFault {s t : St} {o : Obs} (h : step s .acceptFault = .ok (t, o)) :
    canAccept s = true ∧
    ((s.cfg.acceptTough = true ∧ t = s ∧ o = .none) ∨
     (s.cfg.acceptTough = false ∧ step s .serverClose = .ok (t, o))) := by
  simp only [step] at h ⊢
  split at h
  · cases h
  · rename_i hc
    have hc' : canAccept s = true := by simpa using hc
    refine ⟨hc', ?_⟩
    split at h
    · rename_i ht
      simp only [Except.ok.injEq, Prod.mk.injEq] at h
      exact Or.inl ⟨ht, h.1.symm, h.2.symm⟩
    · rename_i ht
      exact Or.inr ⟨by simpa using ht, h⟩

theorem step_cfg_close {s s' : St} {o : Obs} (h : step s .serverClose = .ok (s', o)) : s'.cfg = s.cfg := by
  simp only [step] at h
  split at h
  · cases hp : poolClose s with
    | none => simp [hp] at h
    | some t =>
      simp [hp] at h; obtain ⟨rfl, _⟩ := h
      unfold poolClose at hp
      split at hp
      · simp at hp
      · simp at hp; subst hp; simp
  · simp at h; obtain ⟨rfl, _⟩ := h; simp

@[simp] theorem rejectNew_cfg (s : St) (k : Nat) : (rejectNew s k).cfg = s.cfg := rfl

theorem step_cfg {s s' : St} {o : Obs} (op : Op) (h : step s op = .ok (s', o)) : s'.cfg = s.cfg := by
  cases op with
  | serverClose => exact step_cfg_close h
  | acceptFault =>
    rcases (step_acceptFault h).2 with ⟨_, rfl, _⟩ | ⟨_, h'⟩
    · rfl
    · exact step_cfg_close h'
  | _ =>
    simp only [step] at h <;> (repeat' split at h) <;> simp_all <;> (try (obtain ⟨rfl, _⟩ := h; simp))

theorem run_cfg (l : List Op) (s : St) : (run s l).cfg = s.cfg := by
  induction l generalizing s with
  | nil => rfl
  | cons a l ih =>
    unfold run
    cases h : step s a with
    | error e => exact ih s
    | ok r => obtain ⟨s', o⟩ := r; simp only []; rw [ih s', step_cfg a h]


/-! ### vocabulary of the C17 statements -/

/-- configurations: a pool has at least one worker -/
def Wf (cfg : Cfg) : Prop := cfg.kind = .pool → 0 < cfg.nb

/-- states reachable by sequences of the property's alphabet -/
def Reach (cfg : Cfg) (s : St) : Prop := ∃ ops : List Op, (∀ op ∈ ops, op.c17 = true) ∧ s = run (init cfg) ops

theorem Reach.ok {cfg : Cfg} {s : St} (hw : Wf cfg) (h : Reach cfg s) : GOk s := by
  obtain ⟨ops, hops, rfl⟩ := h
  exact (GOk.init cfg hw).run ops hops

theorem Reach.cfg {cfg : Cfg} {s : St} (h : Reach cfg s) : s.cfg = cfg := by
  obtain ⟨ops, _, rfl⟩ := h
  rw [run_cfg]; rfl

/-- the server is finished with client `c`: its socket has been shut down and released (the client observes
end-of-stream), no table and no descriptor of the server mentions it, and if a service instance had been created for
it, its connection is closed and `on_disconnect` has run exactly once -/
def Terminated (c : Cli) : Prop :=
  c.shut = true ∧ c.srvFd = false ∧ c.child = false ∧ c.tracked = false ∧ c.inFd = false ∧ c.connOpen = false ∧
  (c.inst ≠ none → c.connHooks = 1 ∧ c.discHooks = 1) ∧ (c.inst = none → c.connHooks = 0 ∧ c.discHooks = 0)

/-- nothing of the server refers to client `k` -/
def Clean (s : St) (k : Nat) : Prop :=
  (s.cli k).tracked = false ∧ (s.cli k).inFd = false ∧ (s.cli k).polled = false ∧ (s.cli k).srvFd = false ∧
  (s.cli k).child = false ∧ (s.cli k).connOpen = false ∧ k ∉ s.queue ∧ k ∉ s.blocked


theorem closedFlag_after_close {s s' : St} {o : Obs} (h : step s .serverClose = .ok (s', o)) :
    s'.closedFlag = true ∧ o = .none := by
  simp only [step] at h
  split at h
  · cases hp : poolClose s with
    | none => simp [hp] at h
    | some t =>
      simp [hp] at h; obtain ⟨rfl, rfl⟩ := h
      unfold poolClose at hp
      split at hp
      · simp at hp
      · simp at hp; subst hp
        refine ⟨?_, rfl⟩
        simp only [baseClose]; split <;> simp [*]
  · simp at h; obtain ⟨rfl, rfl⟩ := h
    refine ⟨?_, rfl⟩
    simp only [baseClose]; split <;> simp [*]

theorem close_succeeds {cfg : Cfg} (hw : Wf cfg) {s : St} (hr : Reach cfg s) :
    ∃ s', step s .serverClose = .ok (s', .none) := by
  have hg := hr.ok hw
  simp only [step]
  split
  · rename_i hk
    obtain ⟨t, ht, _⟩ := hg.poolClose hk
    exact ⟨t, by simp [ht]⟩
  · exact ⟨_, rfl⟩


end Rpyc.Srv
