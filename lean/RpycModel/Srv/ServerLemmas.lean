import RpycModel.Srv.Server
/-
Invariants of the server automata (helper lemmas for Props/C17.lean and Props/C16.lean).

Part 1 (C17): over the alphabet connect (good / failing credentials), call, graceful close, abrupt close,
server close, every reachable state satisfies `GOk`: each client record has one of four shapes (never
connected, waiting in the listen queue of a busy one-shot server, served and idle, finished) and the
server's tables mention exactly the served-and-idle clients.
-/
namespace Rpyc.Srv

/-! ### projections -/

@[simp] theorem set_cli_same (s : St) (k : Nat) (c : Cli) : (s.set k c).cli k = c := by simp [St.set]
theorem set_cli_ne (s : St) (k j : Nat) (c : Cli) (h : j ≠ k) : (s.set k c).cli j = s.cli j := by simp [St.set, h]
@[simp] theorem set_cfg (s : St) (k : Nat) (c : Cli) : (s.set k c).cfg = s.cfg := rfl
@[simp] theorem set_closed (s : St) (k : Nat) (c : Cli) : (s.set k c).closedFlag = s.closedFlag := rfl
@[simp] theorem set_listening (s : St) (k : Nat) (c : Cli) : (s.set k c).listening = s.listening := rfl
@[simp] theorem set_active (s : St) (k : Nat) (c : Cli) : (s.set k c).active = s.active := rfl
@[simp] theorem set_acceptAlive (s : St) (k : Nat) (c : Cli) : (s.set k c).acceptAlive = s.acceptAlive := rfl
@[simp] theorem set_acceptBusy (s : St) (k : Nat) (c : Cli) : (s.set k c).acceptBusy = s.acceptBusy := rfl
@[simp] theorem set_queue (s : St) (k : Nat) (c : Cli) : (s.set k c).queue = s.queue := rfl
@[simp] theorem set_blocked (s : St) (k : Nat) (c : Cli) : (s.set k c).blocked = s.blocked := rfl
@[simp] theorem set_poolUp (s : St) (k : Nat) (c : Cli) : (s.set k c).poolUp = s.poolUp := rfl
@[simp] theorem set_ids (s : St) (k : Nat) (c : Cli) : (s.set k c).ids = s.ids := rfl
@[simp] theorem set_nextInst (s : St) (k : Nat) (c : Cli) : (s.set k c).nextInst = s.nextInst := rfl
@[simp] theorem set_nextObj (s : St) (k : Nat) (c : Cli) : (s.set k c).nextObj = s.nextObj := rfl
@[simp] theorem set_accepted (s : St) (k : Nat) (c : Cli) : (s.set k c).accepted = s.accepted := rfl
@[simp] theorem set_served (s : St) (k : Nat) (c : Cli) : (s.set k c).served = s.served := rfl

@[simp] theorem mapCli_cli (s : St) (f : Cli → Cli) (j : Nat) : (s.mapCli f).cli j = f (s.cli j) := rfl
@[simp] theorem mapCli_cfg (s : St) (f : Cli → Cli) : (s.mapCli f).cfg = s.cfg := rfl
@[simp] theorem mapCli_closed (s : St) (f : Cli → Cli) : (s.mapCli f).closedFlag = s.closedFlag := rfl
@[simp] theorem mapCli_listening (s : St) (f : Cli → Cli) : (s.mapCli f).listening = s.listening := rfl
@[simp] theorem mapCli_active (s : St) (f : Cli → Cli) : (s.mapCli f).active = s.active := rfl
@[simp] theorem mapCli_acceptAlive (s : St) (f : Cli → Cli) : (s.mapCli f).acceptAlive = s.acceptAlive := rfl
@[simp] theorem mapCli_acceptBusy (s : St) (f : Cli → Cli) : (s.mapCli f).acceptBusy = s.acceptBusy := rfl
@[simp] theorem mapCli_queue (s : St) (f : Cli → Cli) : (s.mapCli f).queue = s.queue := rfl
@[simp] theorem mapCli_blocked (s : St) (f : Cli → Cli) : (s.mapCli f).blocked = s.blocked := rfl
@[simp] theorem mapCli_poolUp (s : St) (f : Cli → Cli) : (s.mapCli f).poolUp = s.poolUp := rfl
@[simp] theorem mapCli_ids (s : St) (f : Cli → Cli) : (s.mapCli f).ids = s.ids := rfl
@[simp] theorem mapCli_nextInst (s : St) (f : Cli → Cli) : (s.mapCli f).nextInst = s.nextInst := rfl
@[simp] theorem mapCli_nextObj (s : St) (f : Cli → Cli) : (s.mapCli f).nextObj = s.nextObj := rfl
@[simp] theorem mapCli_accepted (s : St) (f : Cli → Cli) : (s.mapCli f).accepted = s.accepted := rfl

/-! ### client shapes (C17 alphabet) -/

/-- holds nothing of the server's -/
def Free (c : Cli) : Prop :=
  c.tracked = false ∧ c.inFd = false ∧ c.polled = false ∧ c.srvFd = false ∧ c.child = false ∧
  c.connOpen = false ∧ c.inst = none ∧ c.connHooks = 0 ∧ c.discHooks = 0 ∧ c.shut = false

/-- served, nobody reading, every table of its server kind mentions it -/
def Served (cfg : Cfg) (closed : Bool) (c : Cli) : Prop :=
  c.inbox = [] ∧ c.connOpen = true ∧ c.inst.isSome = true ∧ c.connHooks = 1 ∧ c.discHooks = 0 ∧ c.shut = false ∧
  c.clientOpen = true ∧
  c.tracked = (cfg.kind == .threaded || cfg.kind == .oneshot) ∧ c.srvFd = (cfg.kind != .forking) ∧
  c.child = (cfg.kind == .forking) ∧ c.inFd = (cfg.kind == .pool) ∧ c.polled = (cfg.kind == .pool) ∧
  (closed = true → cfg.kind = .forking)

/-- the server has finished with it and keeps nothing -/
def Gone (closed : Bool) (c : Cli) : Prop :=
  c.shut = true ∧ c.srvFd = false ∧ c.child = false ∧ c.tracked = false ∧ c.inFd = false ∧ c.connOpen = false ∧
  c.inbox = [] ∧ (c.polled = true → closed = true) ∧
  (c.inst.isSome = true → c.connHooks = 1 ∧ c.discHooks = 1) ∧ (c.inst = none → c.connHooks = 0 ∧ c.discHooks = 0)

def Shape (cfg : Cfg) (closed : Bool) (c : Cli) : Prop :=
  match c.phase with
  | .absent => Free c
  | .backlog => Free c ∧ cfg.kind = .oneshot ∧ closed = false
  | .idle => Served cfg closed c
  | .done => Gone closed c
  | _ => False

def COk (cfg : Cfg) (closed : Bool) (c : Cli) : Prop :=
  c.partSent = false ∧ c.cred ≠ .silent ∧ Shape cfg closed c

theorem COk.default (cfg : Cfg) (closed : Bool) : COk cfg closed {} := by
  simp [COk, Shape, Free]

end Rpyc.Srv
