import RpycModel.Srv.RegistryTable
/-
The abstract view of the registry's table, its representation invariant, and the effect of
`_add_service`, `_remove_service` and the three commands on both.
-/
namespace Rpyc.Registry
open Rpyc

/-! ### facts about the interpreter the check runs under (generated; each is a named obligation) -/

/-- every brine value can be a dict key (Python >= 3.12: `slice` is hashable) -/
theorem brine_values_hashable : Gen.allBrineValuesHashable = true := by decide

/-- the real `logging.Logger` survives the two `warn` calls that sit outside every `try` in `_work` -/
theorem real_logger_survives_warn : Gen.realLoggerSurvivesWarn = true := by decide

/-- `brine.dump(reply)` and `_send` sit inside a guard of their own: when they raise, `_work` logs and goes on
(observed on the live loop with a `brine` whose dump of one reply raises RecursionError) -/
theorem reply_dump_guarded : Gen.replyDumpGuarded = true := by decide

mutual
theorem hashable_true : ∀ v, hashable v = true
  | .none | .notImpl | .ellipsis | .bool _ | .int _ | .float _ | .complex _ _ | .bytes _ | .str _ | .fset _ | .other _ => by
    first | rfl | (simp only [hashable]; decide)
  | .tuple xs => by simp only [hashable, hashableL_true xs, Bool.and_true]; decide
  | .slice a b c => by simp only [hashable, hashable_true a, hashable_true b, hashable_true c, Bool.and_true]; decide
theorem hashableL_true : ∀ xs, hashableL xs = true
  | [] => rfl
  | x :: xs => by simp only [hashableL, hashable_true x, hashableL_true xs, Bool.and_true]
end

theorem warnStep_eq_idle (sv : Services) : warnStep sv = idle sv := by
  simp [warnStep, idle, real_logger_survives_warn]

/-- the abstract registry: (name code, address code) ↦ time of the last refresh -/
abbrev AbsMap := List Nat → List Nat → Option Int

def viewInner (o : Option Inner) (a : List Nat) : Option Int :=
  match o with
  | none => none
  | some inner => alFind addrCode inner a

/-- what the concrete table denotes -/
def view (sv : Services) : AbsMap := fun n a => viewInner (alFind keyCode sv n) a

/-- the representation invariant of a dict of non-empty dicts: keys distinct at both levels, no empty inner dict -/
def Inv (sv : Services) : Prop :=
  (alKeys keyCode sv).Nodup ∧ ∀ e ∈ sv, (alKeys addrCode e.2).Nodup ∧ e.2 ≠ []

theorem inv_nil : Inv [] := ⟨by simp, by simp⟩

theorem view_nil (n a : List Nat) : view [] n a = none := rfl

theorem innerOf_nodup (sv : Services) (name : Val) (h : Inv sv) : (alKeys addrCode (innerOf sv name)).Nodup := by
  unfold innerOf
  cases hf : alFind keyCode sv (keyCode name) with
  | none => simp
  | some inner =>
    obtain ⟨k, hm, _⟩ := mem_of_alFind keyCode sv _ inner hf
    exact (h.2 _ hm).1

theorem viewInner_innerOf (sv : Services) (name : Val) (a : List Nat) :
    alFind addrCode (innerOf sv name) a = view sv (keyCode name) a := by
  unfold innerOf view viewInner
  cases alFind keyCode sv (keyCode name) <;> rfl

/-! ### `_add_service` -/

theorem view_addService (sv : Services) (name : Val) (a : Addr) (now : Int) (n x : List Nat) :
    view (addService sv name a now).1 n x
      = if n = keyCode name ∧ x = addrCode a then some now else view sv n x := by
  unfold addService
  simp only [view]
  by_cases hn : n = keyCode name
  · subst hn
    rw [alFind_alSet_same]
    simp only [viewInner]
    by_cases hx : x = addrCode a
    · subst hx
      simp [alFind_alSet_same]
    · rw [alFind_alSet_other _ _ _ _ _ hx, viewInner_innerOf]
      simp [hx, view, viewInner]
  · rw [alFind_alSet_other _ _ _ _ _ hn]
    simp [hn]

theorem inv_addService (sv : Services) (name : Val) (a : Addr) (now : Int) (h : Inv sv) :
    Inv (addService sv name a now).1 := by
  unfold addService
  refine ⟨nodup_alSet _ _ _ _ h.1, ?_⟩
  intro e he
  rcases mem_alSet _ _ _ _ _ he with he' | he'
  · exact h.2 e he'
  · rw [he']
    exact ⟨nodup_alSet _ _ _ _ (innerOf_nodup sv name h), alSet_ne_nil _ _ _ _⟩

theorem notes_addService (sv : Services) (name : Val) (a : Addr) (now : Int) :
    (addService sv name a now).2
      = if (view sv (keyCode name) (addrCode a)).isNone then [.added name a] else [] := by
  unfold addService
  simp only [viewInner_innerOf]

/-! ### `_remove_service` -/

theorem view_afterPop (sv : Services) (name : Val) (inner : Inner) (c : List Nat) (h : Inv sv)
    (hf : alFind keyCode sv (keyCode name) = some inner) (n x : List Nat) :
    view (afterPop sv name (alErase addrCode inner c)) n x
      = if n = keyCode name ∧ x = c then none else view sv n x := by
  have hnd : (alKeys addrCode inner).Nodup := by
    obtain ⟨k, hm, _⟩ := mem_of_alFind keyCode sv _ inner hf
    exact (h.2 _ hm).1
  unfold afterPop
  by_cases he : (alErase addrCode inner c).isEmpty = true
  · rw [if_pos he]
    have he' : alErase addrCode inner c = [] := List.isEmpty_iff.mp he
    simp only [view]
    by_cases hn : n = keyCode name
    · subst hn
      rw [alFind_alErase_same _ _ _ h.1, hf]
      simp only [viewInner]
      by_cases hx : x = c
      · simp [hx]
      · simp [hx, alFind_of_alErase_nil addrCode inner c x he' hx]
    · rw [alFind_alErase_other _ _ _ _ hn]
      simp [hn]
  · rw [if_neg he]
    simp only [view]
    by_cases hn : n = keyCode name
    · subst hn
      rw [alFind_alSet_same, hf]
      simp only [viewInner]
      by_cases hx : x = c
      · subst hx
        simp [alFind_alErase_same _ _ _ hnd]
      · simp [hx, alFind_alErase_other _ _ _ _ hx]
    · rw [alFind_alSet_other _ _ _ _ _ hn]
      simp [hn]

theorem view_none_of_absent (sv : Services) (n : List Nat) (h : alFind keyCode sv n = none) (x : List Nat) :
    view sv n x = none := by
  simp [view, h, viewInner]

theorem view_removeService (sv : Services) (name : Val) (a : Addr) (h : Inv sv) (n x : List Nat) :
    view (removeService sv name a).sv n x
      = if n = keyCode name ∧ x = addrCode a then none else view sv n x := by
  unfold removeService
  cases hf : alFind keyCode sv (keyCode name) with
  | none =>
    simp only
    by_cases hn : n = keyCode name ∧ x = addrCode a
    · rw [if_pos hn, hn.1]
      exact view_none_of_absent sv _ hf x
    · rw [if_neg hn]
  | some inner => exact view_afterPop sv name inner _ h hf n x

theorem inv_afterPop (sv : Services) (name : Val) (inner : Inner) (c : List Nat) (h : Inv sv)
    (hf : alFind keyCode sv (keyCode name) = some inner) : Inv (afterPop sv name (alErase addrCode inner c)) := by
  have hnd : (alKeys addrCode inner).Nodup := by
    obtain ⟨k, hm, _⟩ := mem_of_alFind keyCode sv _ inner hf
    exact (h.2 _ hm).1
  unfold afterPop
  by_cases he : (alErase addrCode inner c).isEmpty = true
  · rw [if_pos he]
    exact ⟨nodup_alErase _ _ _ h.1, fun e hm => h.2 e ((alErase_sublist keyCode sv _).subset hm)⟩
  · rw [if_neg he]
    refine ⟨nodup_alSet _ _ _ _ h.1, ?_⟩
    intro e hm
    rcases mem_alSet _ _ _ _ _ hm with hm' | hm'
    · exact h.2 e hm'
    · rw [hm']
      exact ⟨nodup_alErase _ _ _ hnd, fun hnil => he (by simp [hnil])⟩

theorem inv_removeService (sv : Services) (name : Val) (a : Addr) (h : Inv sv) : Inv (removeService sv name a).sv := by
  unfold removeService
  cases hf : alFind keyCode sv (keyCode name) with
  | none => exact h
  | some inner => exact inv_afterPop sv name inner _ h hf

theorem notes_removeService (sv : Services) (name : Val) (a : Addr) :
    (removeService sv name a).notes
      = if (view sv (keyCode name) (addrCode a)).isSome then [.removed name a] else [] := by
  unfold removeService
  cases hf : alFind keyCode sv (keyCode name) with
  | none => simp [view, hf, viewInner]
  | some inner => simp [view, hf, viewInner]

theorem err_removeService (sv : Services) (name : Val) (a : Addr) :
    (removeService sv name a).err = if (alFind keyCode sv (keyCode name)).isSome then none else some .keyError := by
  unfold removeService
  cases hf : alFind keyCode sv (keyCode name) <;> simp

theorem present_of_view (sv : Services) (n x : List Nat) (t : Int) (h : view sv n x = some t) :
    (alFind keyCode sv n).isSome = true := by
  unfold view viewInner at h
  cases hf : alFind keyCode sv n with
  | none => rw [hf] at h; cases h
  | some _ => rfl

end Rpyc.Registry
