import RpycModel.Srv.RegistrySpec
import RpycModel.Brine.Closed
/-
One iteration of `_work` on an arbitrary datagram, histories of datagrams, and the TCP front end.
-/
namespace Rpyc.Registry
open Rpyc Rpyc.Brine

/-! ### every datagram: invariant, exact notifications, refinement -/

@[simp] theorem finishG_sv (g : Bool) (env : Env) (r : CmdRes) : (finishG g env r).sv = r.sv := by
  unfold finishG; cases r.out with
  | error e => rfl
  | ok reply =>
    dsimp only
    split
    · rfl
    · cases dump reply <;> rfl

@[simp] theorem finishG_notes (g : Bool) (env : Env) (r : CmdRes) : (finishG g env r).notes = r.notes := by
  unfold finishG; cases r.out with
  | error e => rfl
  | ok reply =>
    dsimp only
    split
    · rfl
    · cases dump reply <;> rfl

@[simp] theorem finish_sv (env : Env) (r : CmdRes) : (finish env r).sv = r.sv := finishG_sv _ env r
@[simp] theorem finish_notes (env : Env) (r : CmdRes) : (finish env r).notes = r.notes := finishG_notes _ env r

/-- with the reply guarded, no outcome of a command ends the loop -/
theorem finishG_alive (env : Env) (r : CmdRes) : (finishG true env r).alive = true := by
  unfold finishG; cases r.out with
  | error e => rfl
  | ok reply =>
    dsimp only
    split
    · rfl
    · cases dump reply <;> rfl

theorem finish_alive' (env : Env) (r : CmdRes) : (finish env r).alive = true := by
  unfold finish; rw [reply_dump_guarded]; exact finishG_alive env r

/-- without the guard, a reply that cannot be dumped ends the loop -/
theorem finishG_unguarded_dies (env : Env) (r : CmdRes) (reply : Val) (ho : r.out = .ok reply)
    (hov : env.dumpOverflows reply = true) : (finishG false env r).alive = false := by
  unfold finishG; simp [ho, hov]

/-- a command that returned is answered with exactly what it returned, unless the interpreter cannot dump it -/
theorem finish_sends (env : Env) (r : CmdRes) (reply : Val) (ho : r.out = .ok reply)
    (hov : env.dumpOverflows reply = false) (he : ∃ e, dump reply = .ok e) : (finish env r).reply = some reply := by
  obtain ⟨e, he⟩ := he
  unfold finish finishG; simp [ho, hov, he]

theorem callCmd_good (env : Env) (pruning : Int) (sv : Services) (host : Val) (now : Int) (h : Inv sv)
    (c : CmdName) (xs : List Val) :
    Good pruning now sv (callCmd env pruning sv host now c xs).sv (callCmd env pruning sv host now c xs).notes
      (intentCall env host c xs) := by
  cases c with
  | query =>
    match xs with
    | [] => exact good_idle pruning now sv h
    | [name] => exact cmdQuery_good env pruning sv host name now h
    | _ :: _ :: _ => exact good_idle pruning now sv h
  | register =>
    match xs with
    | [] => exact good_idle pruning now sv h
    | [_] => exact good_idle pruning now sv h
    | [names, port] => exact cmdRegister_good env pruning sv host names port now h
    | _ :: _ :: _ :: _ => exact good_idle pruning now sv h
  | unregister =>
    match xs with
    | [] => exact good_idle pruning now sv h
    | [port] => exact (cmdUnregister_good env pruning sv host port now h).1
    | _ :: _ :: _ => exact good_idle pruning now sv h

theorem execute_good (env : Env) (pruning : Int) (sv : Services) (host : Val) (now : Int) (h : Inv sv)
    (c : CmdName × Nat) (args : Val) :
    Good pruning now sv (execute env pruning sv host now c args).sv (execute env pruning sv host now c args).notes
      (intentExec env host c args) := by
  unfold execute intentExec
  cases iterate' env args with
  | error e => exact good_idle pruning now sv h
  | ok xs =>
    dsimp only
    split
    · simp only [finish_sv, finish_notes]
      exact callCmd_good env pruning sv host now h c.1 xs
    · exact good_idle pruning now sv h

theorem dispatch3_good (env : Env) (pruning : Int) (sv : Services) (host : Val) (now : Int) (h : Inv sv)
    (m : Val × Val × Val) :
    Good pruning now sv (dispatch3 env pruning sv host now m).sv (dispatch3 env pruning sv host now m).notes
      (intent3 env host m) := by
  unfold dispatch3 intent3
  split
  · cases lookupCmd env m.2.1 with
    | none => exact good_idle pruning now sv h
    | some c => exact execute_good env pruning sv host now h c m.2.2
  · exact good_idle pruning now sv h

theorem dispatch_good (env : Env) (pruning : Int) (sv : Services) (host : Val) (now : Int) (h : Inv sv) (v : Val) :
    Good pruning now sv (dispatch env pruning sv host now v).sv (dispatch env pruning sv host now v).notes
      (intentVal env host v) := by
  unfold dispatch intentVal
  cases unpack3' env v with
  | error e => exact good_idle pruning now sv h
  | ok m => exact dispatch3_good env pruning sv host now h m

/-- for EVERY datagram: the step keeps the representation invariant, fires exactly the notifications of the
membership changes it makes, and changes the abstract map exactly as the datagram's meaning says -/
theorem workStep_good (env : Env) (pruning : Int) (sv : Services) (host : Val) (dgram : Bytes) (now : Int) (h : Inv sv) :
    Good pruning now sv (workStep env pruning sv host dgram now).sv (workStep env pruning sv host dgram now).notes
      (intent env host dgram) := by
  unfold workStep intent
  by_cases hov : env.loadOverflows dgram = true
  · rw [if_pos hov, if_pos hov]; exact good_idle pruning now sv h
  · rw [if_neg hov, if_neg hov]
    cases load dgram with
    | error e => exact good_idle pruning now sv h
    | ok v => exact dispatch_good env pruning sv host now h v

/-! ### the loop keeps running -/

/-- `brine.dump` accepts the value -/
def Storable (v : Val) : Bool := dumpable v && InDomain v

/-- every stored address can be sent back, and fewer than 2^32 servers share a name -/
def SvStorable (sv : Services) : Prop :=
  ∀ e ∈ sv, e.2.length < 2 ^ 32 ∧ ∀ x ∈ e.2, Storable x.1.1 = true ∧ Storable x.1.2 = true

theorem dump_ack : ∃ e, dump ack = .ok e :=
  enc_ok ack (by decide) (by decide)

theorem dumpable_addrVal (a : Addr) : dumpable (addrVal a) = (dumpable a.1 && dumpable a.2) := by
  simp [addrVal, dumpable, dumpableL]

theorem inDomain_addrVal (a : Addr) : InDomain (addrVal a) = (InDomain a.1 && InDomain a.2) := by
  simp [addrVal, InDomain, InDomainL]

theorem storable_addrs (l : List (Addr × Int)) (h : ∀ x ∈ l, Storable x.1.1 = true ∧ Storable x.1.2 = true) :
    dumpableL (l.map (fun x => addrVal x.1)) = true ∧ InDomainL (l.map (fun x => addrVal x.1)) = true := by
  induction l with
  | nil => exact ⟨rfl, rfl⟩
  | cons x xs ih =>
    obtain ⟨h1, h2⟩ := h x (by simp)
    obtain ⟨i1, i2⟩ := ih (fun y hy => h y (by simp [hy]))
    simp only [Storable, Bool.and_eq_true] at h1 h2
    simp only [List.map_cons, dumpableL, InDomainL, dumpable_addrVal, inDomain_addrVal]
    simp [h1.1, h1.2, h2.1, h2.2, i1, i2]

theorem answer_encodes (pruning : Int) (sv : Services) (NAME : Val) (now : Int) (hs : SvStorable sv) :
    ∃ e, dump (.tuple ((answer pruning sv NAME now).map addrVal)) = .ok e := by
  unfold answer innerOf
  cases hf : alFind keyCode sv (keyCode NAME) with
  | none => exact enc_ok _ (by simp [sortByTime, dumpable, dumpableL]) (by simp [sortByTime, InDomain, InDomainL])
  | some inner =>
    obtain ⟨k, hm, _⟩ := mem_of_alFind keyCode sv _ inner hf
    obtain ⟨hlen, hst⟩ := hs _ hm
    dsimp only at hlen hst ⊢
    have hsub : ∀ x ∈ (sortByTime inner).filter (fun e => !decide (e.2 < now - pruning)),
        Storable x.1.1 = true ∧ Storable x.1.2 = true := by
      intro x hx
      exact hst x ((sortByTime_perm inner).mem_iff.mp (List.mem_filter.mp hx).1)
    obtain ⟨d1, d2⟩ := storable_addrs _ hsub
    have hl : ((sortByTime inner).filter (fun e => !decide (e.2 < now - pruning))).length < 2 ^ 32 :=
      Nat.lt_of_le_of_lt (List.length_filter_le _ _) (by rw [(sortByTime_perm inner).length_eq]; exact hlen)
    rw [List.map_map]
    apply enc_ok
    · simp only [dumpable]; exact d1
    · simp only [InDomain, List.length_map, Bool.and_eq_true, decide_eq_true_eq]
      exact ⟨hl, d2⟩

theorem callCmd_out_encodes (env : Env) (pruning : Int) (sv : Services) (host : Val) (now : Int) (h : Inv sv)
    (hs : SvStorable sv) (c : CmdName) (xs : List Val) (reply : Val)
    (ho : (callCmd env pruning sv host now c xs).out = .ok reply) : ∃ e, dump reply = .ok e := by
  cases c with
  | query =>
    match xs, ho with
    | [], ho => simp [callCmd] at ho
    | _ :: _ :: _, ho => simp [callCmd] at ho
    | [name], ho =>
      simp only [callCmd, cmdQuery] at ho
      cases hu : pyUpper env name with
      | error e => simp [hu] at ho
      | ok NAME =>
        simp only [hu] at ho
        rw [(queryUpper_good pruning sv NAME now h).2] at ho
        injection ho with ho
        subst ho
        exact answer_encodes pruning sv NAME now hs
  | register =>
    match xs, ho with
    | [], ho => simp [callCmd] at ho
    | [_], ho => simp [callCmd] at ho
    | _ :: _ :: _ :: _, ho => simp [callCmd] at ho
    | [names, port], ho =>
      simp only [callCmd, cmdRegister] at ho
      cases hi : iterate' env names with
      | error e => simp [hi] at ho
      | ok ys =>
        simp only [hi] at ho
        cases hs' : allStr ys with
        | none => simp [hs'] at ho
        | some ss =>
          simp only [hs'] at ho
          by_cases hr : registerRefuses env (host, port) = true
          · rw [if_pos hr] at ho; cases ho
          · rw [if_neg hr, if_pos (hashable_true _)] at ho
            injection ho with ho
            subst ho
            exact dump_ack
  | unregister =>
    match xs, ho with
    | [], ho => simp [callCmd] at ho
    | _ :: _ :: _, ho => simp [callCmd] at ho
    | [port], ho =>
      simp only [callCmd] at ho
      rw [(cmdUnregister_good env pruning sv host port now h).2] at ho
      injection ho with ho
      subst ho
      exact dump_ack

/-- for EVERY datagram, every table, every environment the iteration ends with the loop still running -/
theorem workStep_alive (env : Env) (pruning : Int) (sv : Services) (host : Val) (dgram : Bytes) (now : Int) :
    (workStep env pruning sv host dgram now).alive = true := by
  unfold workStep
  split
  · rfl
  · cases load dgram with
    | error e => rfl
    | ok v =>
      dsimp only
      unfold dispatch
      cases unpack3' env v with
      | error e => rfl
      | ok m =>
        dsimp only
        unfold dispatch3
        split
        · cases lookupCmd env m.2.1 with
          | none => rw [warnStep_eq_idle]; rfl
          | some c =>
            dsimp only
            unfold execute
            cases iterate' env m.2.2 with
            | error e => rfl
            | ok xs =>
              dsimp only
              split
              · exact finish_alive' env _
              · rfl
        · rw [warnStep_eq_idle]; rfl

/-- a command that ran to its end is answered with what it returned — whatever is stored can be dumped — unless the
interpreter's recursion limit stops `brine.dump` -/
theorem callCmd_is_answered (env : Env) (pruning : Int) (sv : Services) (host : Val) (now : Int) (h : Inv sv)
    (hs : SvStorable sv) (c : CmdName) (xs : List Val) (reply : Val)
    (ho : (callCmd env pruning sv host now c xs).out = .ok reply) (hov : env.dumpOverflows reply = false) :
    (finish env (callCmd env pruning sv host now c xs)).reply = some reply :=
  finish_sends env _ reply ho hov (callCmd_out_encodes env pruning sv host now h hs c xs reply ho)

/-! ### histories -/

/-- `added` and `removed` notifications so far balance the current membership -/
def Balanced (st : St) : Prop :=
  ∀ n a, countAdd st.log n a = countRem st.log n a + (if mem st.sv n a then 1 else 0)

theorem balanced_init : Balanced St.init := by
  intro n a; simp [St.init, countAdd, countRem, mem, view_nil]

theorem balanced_after (st : St) (s : Step) (hb : Balanced st) (he : Exact st.sv s.notes s.sv) : Balanced (st.after s) := by
  intro n a
  obtain ⟨ea, er⟩ := he n a
  have hb := hb n a
  show countAdd (st.log ++ s.notes) n a = countRem (st.log ++ s.notes) n a + (if mem s.sv n a then 1 else 0)
  unfold countAdd countRem at *
  rw [List.countP_append, List.countP_append, ea, er, hb]
  cases mem st.sv n a <;> cases mem s.sv n a <;> simp <;> omega

/-- the abstract registry run over the meanings of a history's datagrams -/
def absRun (env : Env) (pruning : Int) : AbsMap → List Event → AbsMap
  | m, [] => m
  | m, e :: es => absRun env pruning (absApply pruning e.now m (intent env e.host e.dgram)) es

theorem run_good (env : Env) (pruning : Int) : ∀ (evs : List Event) (st : St), Inv st.sv → Balanced st →
    Inv (run env pruning st evs).sv ∧ Balanced (run env pruning st evs)
    ∧ ∀ n x, view (run env pruning st evs).sv n x = absRun env pruning (view st.sv) evs n x
  | [], st, hi, hb => ⟨hi, hb, fun _ _ => rfl⟩
  | e :: es, st, hi, hb => by
    have g := workStep_good env pruning st.sv e.host e.dgram e.now hi
    have hb' := balanced_after st (stepEvent env pruning st e) hb g.exact
    obtain ⟨i2, b2, v2⟩ := run_good env pruning es (st.after (stepEvent env pruning st e)) g.inv hb'
    refine ⟨i2, b2, ?_⟩
    intro n x
    simp only [run, absRun]
    rw [v2]
    have : view (st.after (stepEvent env pruning st e)).sv = absApply pruning e.now (view st.sv) (intent env e.host e.dgram) := by
      funext n x; exact g.refines n x
    rw [this]

/-! ### TCP -/

theorem tcpStale_nil (h : Gen.tcpRecvClosesUnreplied = true) (conn : List Nat) : tcpStale conn = [] := by
  simp [tcpStale, h]

theorem tcpStep_conn (env : Env) (pruning : Int) (fdLimit : Nat) (ts : TcpSt) (ev : TcpEv)
    (h : Gen.tcpRecvClosesUnreplied = true) : (tcpStep env pruning fdLimit ts ev).1.conn = [] := by
  cases ev <;> simp only [tcpStep] <;> split <;> simp [tcpStale_nil h]

theorem tcpStep_accepted (env : Env) (pruning : Int) (fdLimit : Nat) (ts : TcpSt) (ev : TcpEv)
    (hc : ts.conn.length < fdLimit) : (tcpStep env pruning fdLimit ts ev).2.accepted = true := by
  cases ev <;> simp [tcpStep, hc]

def isSilent : TcpEv → Bool
  | .silent _ => true
  | .client _ _ _ => false

theorem tcpStep_elapsed (env : Env) (pruning : Int) (fdLimit : Nat) (ts : TcpSt) (ev : TcpEv) :
    (tcpStep env pruning fdLimit ts ev).2.elapsed = (if isSilent ev && (tcpStep env pruning fdLimit ts ev).2.accepted then Gen.tcpServerTimeoutMs else 0)
    ∧ (tcpStep env pruning fdLimit ts ev).1.clock = ts.clock + ((tcpStep env pruning fdLimit ts ev).2.elapsed : Nat) := by
  cases ev <;> simp only [tcpStep] <;> split <;> simp [isSilent]

theorem tcpStep_silent_sv (env : Env) (pruning : Int) (fdLimit : Nat) (ts : TcpSt) (p : Nat) :
    (tcpStep env pruning fdLimit ts (.silent p)).1.sv = ts.sv ∧ (tcpStep env pruning fdLimit ts (.silent p)).2.step.notes = [] := by
  simp only [tcpStep]; split <;> simp [idle]

theorem tcpRun_spec (env : Env) (pruning : Int) (fdLimit : Nat) (hfd : 0 < fdLimit)
    (h : Gen.tcpRecvClosesUnreplied = true) : ∀ (evs : List TcpEv) (ts : TcpSt), ts.conn = [] →
    (∀ o ∈ (tcpRun env pruning fdLimit ts evs).2, o.accepted = true)
    ∧ (tcpRun env pruning fdLimit ts evs).1.clock = ts.clock + Gen.tcpServerTimeoutMs * (evs.countP isSilent)
  | [], ts, _ => ⟨by simp [tcpRun], by simp [tcpRun]⟩
  | ev :: evs, ts, hc => by
    have hacc := tcpStep_accepted env pruning fdLimit ts ev (by rw [hc]; exact hfd)
    obtain ⟨he1, he2⟩ := tcpStep_elapsed env pruning fdLimit ts ev
    obtain ⟨ih1, ih2⟩ := tcpRun_spec env pruning fdLimit hfd h evs _ (tcpStep_conn env pruning fdLimit ts ev h)
    simp only [tcpRun]
    refine ⟨?_, ?_⟩
    · intro o ho
      simp only [List.mem_cons] at ho
      rcases ho with rfl | ho
      · exact hacc
      · exact ih1 o ho
    · rw [ih2, he2, he1, hacc, List.countP_cons]
      cases isSilent ev <;> simp [Int.mul_add] <;> omega

end Rpyc.Registry

namespace Rpyc.Registry
open Rpyc Rpyc.Brine

/-! ### a datagram that is not a well-formed command does nothing at all -/

/-- the iteration was a plain `continue` / a logged exception: table identical, nothing fired, nothing sent -/
def Step.Noop (sv : Services) (s : Step) : Prop := s.sv = sv ∧ s.notes = [] ∧ s.reply = none ∧ s.alive = true

theorem noop_idle (sv : Services) : (idle sv).Noop sv := ⟨rfl, rfl, rfl, rfl⟩

theorem noop_finish_error (env : Env) (sv : Services) (e : Err) : (finish env ⟨sv, [], .error e⟩).Noop sv := ⟨rfl, rfl, rfl, rfl⟩

theorem callCmd_noop (env : Env) (pruning : Int) (sv : Services) (host : Val) (now : Int) (c : CmdName) (xs : List Val)
    (hi : intentCall env host c xs = .none) : (finish env (callCmd env pruning sv host now c xs)).Noop sv := by
  cases c with
  | query =>
    match xs, hi with
    | [], _ => exact noop_finish_error env sv _
    | _ :: _ :: _, _ => exact noop_finish_error env sv _
    | [name], hi =>
      simp only [intentCall] at hi
      simp only [callCmd, cmdQuery]
      cases hu : pyUpper env name with
      | error e => exact noop_finish_error env sv e
      | ok NAME => simp [hu] at hi
  | register =>
    match xs, hi with
    | [], _ => exact noop_finish_error env sv _
    | [_], _ => exact noop_finish_error env sv _
    | _ :: _ :: _ :: _, _ => exact noop_finish_error env sv _
    | [names, port], hi =>
      simp only [intentCall] at hi
      simp only [callCmd, cmdRegister]
      cases hit : iterate' env names with
      | error e => exact noop_finish_error env sv e
      | ok ys =>
        simp only [hit] at hi ⊢
        cases hs : allStr ys with
        | none => exact noop_finish_error env sv _
        | some ss =>
          simp only [hs] at hi ⊢
          by_cases hr : registerRefuses env (host, port) = true
          · rw [if_pos hr]; exact noop_finish_error env sv _
          · rw [if_neg hr] at hi; cases hi
  | unregister =>
    match xs, hi with
    | [], _ => exact noop_finish_error env sv _
    | _ :: _ :: _, _ => exact noop_finish_error env sv _
    | [port], hi => simp [intentCall] at hi

/-- for EVERY datagram whose meaning is "not a well-formed command": nothing changes, nothing fires, nothing is sent -/
theorem workStep_noop (env : Env) (pruning : Int) (sv : Services) (host : Val) (dgram : Bytes) (now : Int)
    (hi : intent env host dgram = .none) : (workStep env pruning sv host dgram now).Noop sv := by
  unfold intent at hi
  unfold workStep
  by_cases hov : env.loadOverflows dgram = true
  · rw [if_pos hov]; exact noop_idle sv
  rw [if_neg hov] at hi ⊢
  cases hl : load dgram with
  | error e => exact noop_idle sv
  | ok v =>
    simp only [hl] at hi
    dsimp only
    unfold intentVal at hi
    unfold dispatch
    cases hu : unpack3' env v with
    | error e => exact noop_idle sv
    | ok m =>
      simp only [hu] at hi
      dsimp only
      unfold intent3 at hi
      unfold dispatch3
      by_cases hm : isMagic m.1 = true
      · rw [if_pos hm] at hi ⊢
        cases hc : lookupCmd env m.2.1 with
        | none => exact noop_idle sv
        | some c =>
          simp only [hc] at hi
          dsimp only
          unfold intentExec at hi
          unfold execute
          cases hit : iterate' env m.2.2 with
          | error e => exact noop_idle sv
          | ok xs =>
            simp only [hit] at hi
            dsimp only
            by_cases hlen : xs.length = c.2
            · rw [if_pos hlen] at hi ⊢
              exact callCmd_noop env pruning sv host now c.1 xs hi
            · rw [if_neg hlen]
              exact noop_idle sv
      · rw [if_neg hm]
        exact noop_idle sv

/-! ### a datagram that IS a command, as the clients build it -/

/-- `brine.dump((magic, command, args))` as a value -/
def request (cmd : List Nat) (args : List Val) : Val := .tuple [.str Gen.magic, .str cmd, .tuple args]

theorem load_dump' (v : Val) (e : Bytes) (hwf : v.wf = true) (h : dump v = .ok e) : load e = .ok v := by
  have hn := (need_le v e h).1
  have := dec_enc v e hwf h (2 * e.length + 2) [] (by omega)
  simp only [List.append_nil] at this
  simp [load, this]

/-- the registry executes exactly the command a well-formed request names, with exactly its arguments -/
theorem workStep_request (env : Env) (pruning : Int) (sv : Services) (host : Val) (now : Int)
    (cmd : List Nat) (args : List Val) (e : Bytes) (c : CmdName × Nat)
    (hwf : (request cmd args).wf = true) (hd : dump (request cmd args) = .ok e)
    (hc : lookupCmd env (.str cmd) = some c) (hlen : args.length = c.2) (hov : env.loadOverflows e = false) :
    workStep env pruning sv host e now = finish env (callCmd env pruning sv host now c.1 args) := by
  unfold workStep
  rw [hov, load_dump' _ _ hwf hd]
  simp only [request, dispatch, unpack3', iterate', three, dispatch3, isMagic, beq_self_eq_true, if_true, hc, execute, hlen]
  simp

theorem lookup_QUERY (env : Env) : lookupCmd env (.str [81, 85, 69, 82, 89]) = some (.query, 1) := by
  simp [lookupCmd, strLower, isAscii, asciiLower, findCmd, Gen.cmdTable, cmdOfName, nmQuery, nmRegister, nmUnregister]

theorem lookup_REGISTER (env : Env) : lookupCmd env (.str [82, 69, 71, 73, 83, 84, 69, 82]) = some (.register, 2) := by
  simp [lookupCmd, strLower, isAscii, asciiLower, findCmd, Gen.cmdTable, cmdOfName, nmQuery, nmRegister, nmUnregister]

theorem lookup_UNREGISTER (env : Env) : lookupCmd env (.str [85, 78, 82, 69, 71, 73, 83, 84, 69, 82]) = some (.unregister, 1) := by
  simp [lookupCmd, strLower, isAscii, asciiLower, findCmd, Gen.cmdTable, cmdOfName, nmQuery, nmRegister, nmUnregister]

/-- which pairs a meaning is allowed to touch -/
def Intent.names (oldest : Int) (m : AbsMap) : Intent → List Nat → List Nat → Prop
  | .none, _, _ => False
  | .query name, n, x => n = name ∧ staleOpt oldest (m n x) = true
  | .register names a, n, x => n ∈ names ∧ x = a
  | .unregister a, _, x => x = a

theorem absApply_frame (pruning now : Int) (m : AbsMap) (i : Intent) (n x : List Nat)
    (h : absApply pruning now m i n x ≠ m n x) : i.names (now - pruning) m n x := by
  cases i with
  | none => exact absurd rfl h
  | query name =>
    simp only [absApply] at h
    by_cases hc : n = name ∧ staleOpt (now - pruning) (m n x) = true
    · exact hc
    · rw [if_neg hc] at h; exact absurd rfl h
  | register names a =>
    simp only [absApply] at h
    by_cases hc : n ∈ names ∧ x = a
    · exact hc
    · rw [if_neg hc] at h; exact absurd rfl h
  | unregister a =>
    simp only [absApply] at h
    by_cases hc : x = a
    · exact hc
    · rw [if_neg hc] at h; exact absurd rfl h

end Rpyc.Registry
