import RpycModel.Srv.RegistryBrine2
/-
`dec_fits`: the main induction (one case per wire tag), and its consequence for `brine.load`.
-/
namespace Rpyc.Registry
open Rpyc Rpyc.Brine

theorem small_int_fits (B : Nat) (hB : 1 ≤ B) (i : Int) (h1 : -1000 < i) (h2 : i < 1000) : intFits B i = true := by
  have hn : i.natAbs < 10 ^ 3 := by omega
  have hd : (natDigits i.natAbs).length ≤ 3 := natDigits_length_le 3 _ (by omega) hn
  have hl := limit_allows_3
  simp only [Bool.or_eq_true, beq_iff_eq, decide_eq_true_eq] at hl
  simp only [intFits, Bool.or_eq_true, Bool.and_eq_true, decide_eq_true_eq, beq_iff_eq]
  right
  refine ⟨?_, ?_⟩
  · rcases hl with hl | hl
    · exact Or.inl hl
    · exact Or.inr (by omega)
  · have : (intRepr i).length ≤ (natDigits i.natAbs).length + 1 := by
      unfold intRepr; split <;> simp
    omega

theorem immBase_small : -176 < Gen.immBase ∧ Gen.immBase < 256 := by decide

theorem take_lt (l : Bytes) (k : Nat) (h : ∀ x ∈ l, x < 256) : ∀ x ∈ l.take k, x < 256 :=
  fun x hx => h x (List.mem_of_mem_take hx)

theorem dec_fits_both : ∀ fuel, DecOk fuel ∧ DecNOk fuel := by
  intro fuel
  induction fuel with
  | zero =>
    refine ⟨fun bs v r h _ => by simp [dec] at h, fun n bs xs r h _ => ?_⟩
    cases n with
    | zero => simp [decN] at h; obtain ⟨rfl, rfl⟩ := h; exact ⟨rfl, by simp, fun x hx => hx⟩
    | succ n => simp [decN] at h
  | succ fuel ih =>
    obtain ⟨ihD, ihN⟩ := ih
    refine ⟨?_, decN_fits_of fuel ihD⟩
    intro bs v r h hb
    cases bs with
    | nil => simp [dec] at h
    | cons t rest =>
      have hbr : ∀ x ∈ rest, x < 256 := fun x hx => hb x (by simp [hx])
      have ht : t < 256 := hb t (by simp)
      have hB1 : 1 ≤ (t :: rest).length := by simp
      have hsub0 : rest.length ≤ rest.length ∧ ∀ x ∈ rest, x ∈ rest := ⟨Nat.le_refl _, fun _ hx => hx⟩
      simp only [dec] at h
      cases hc : classify t with
      | none => simp [hc] at h
      | some tag =>
        rw [hc] at h
        cases tag <;> simp only at h
        case imm =>
          cases h
          have := immBase_small
          exact ⟨by simp only [fits]; exact small_int_fits _ hB1 _ (by omega) (by omega), rem_self t _⟩
        case none => cases h; exact ⟨rfl, rem_self t _⟩
        case notImpl => cases h; exact ⟨rfl, rem_self t _⟩
        case ellipsis => cases h; exact ⟨rfl, rem_self t _⟩
        case true_ => cases h; exact ⟨rfl, rem_self t _⟩
        case false_ => cases h; exact ⟨rfl, rem_self t _⟩
        case emptyTuple => cases h; exact ⟨by simp [fits, fitsL], rem_self t _⟩
        case emptyStr => cases h; exact ⟨by simp [fits], rem_self t _⟩
        case float =>
          split at h
          · simp at h
          · cases h; exact ⟨rfl, rem_drop t rest 8⟩
        case complex =>
          split at h
          · simp at h
          · cases h; exact ⟨rfl, rem_drop t rest 16⟩
        case str1 =>
          cases h
          exact ⟨bytes_fits _ _ (by simp only [List.length_take, List.length_cons]; omega) (take_lt rest 1 hbr), rem_drop t rest 1⟩
        case str2 =>
          cases h
          exact ⟨bytes_fits _ _ (by simp only [List.length_take, List.length_cons]; omega) (take_lt rest 2 hbr), rem_drop t rest 2⟩
        case str3 =>
          cases h
          exact ⟨bytes_fits _ _ (by simp only [List.length_take, List.length_cons]; omega) (take_lt rest 3 hbr), rem_drop t rest 3⟩
        case str4 =>
          cases h
          exact ⟨bytes_fits _ _ (by simp only [List.length_take, List.length_cons]; omega) (take_lt rest 4 hbr), rem_drop t rest 4⟩
        case strL1 =>
          cases rest with
          | nil => simp [decStrL1] at h
          | cons l r' =>
            simp only [decStrL1] at h; cases h
            have hbr' : ∀ x ∈ r', x < 256 := fun x hx => hbr x (by simp [hx])
            exact ⟨bytes_fits _ _ (by simp only [List.length_take, List.length_cons]; omega) (take_lt r' l hbr'),
              rem_of_le t (l :: r') _ (by simp only [List.length_drop, List.length_cons]; omega)
                (fun x hx => by simp [List.mem_of_mem_drop hx])⟩
        case strL4 =>
          split at h
          · simp at h
          · cases h
            refine ⟨bytes_fits _ _ (by simp only [List.length_take, List.length_drop, List.length_cons]; omega)
              (fun x hx => hbr x (List.mem_of_mem_drop (List.mem_of_mem_take hx))), ?_⟩
            exact rem_of_le t rest _ (by simp only [List.length_drop]; omega)
              (fun x hx => List.mem_of_mem_drop (List.mem_of_mem_drop hx))
        case unicode =>
          obtain ⟨v0, hv0, hf⟩ := thenMap_ok _ _ v r h
          obtain ⟨f0, rem0⟩ := ihD _ _ _ hv0 hbr
          exact ⟨decodeText_fits _ v0 v (fits_mono _ _ (by simp) v0 f0) hf, rem_cons t rest r rem0⟩
        case tup1 => exact decTup_fits_of fuel ihN t _ rest rest v r hsub0 hb h
        case tup2 => exact decTup_fits_of fuel ihN t _ rest rest v r hsub0 hb h
        case tup3 => exact decTup_fits_of fuel ihN t _ rest rest v r hsub0 hb h
        case tup4 => exact decTup_fits_of fuel ihN t _ rest rest v r hsub0 hb h
        case tupL1 =>
          split at h
          · simp at h
          · exact decTup_fits_of fuel ihN t _ rest rest.tail v r
              ⟨by simp only [List.length_tail]; omega, fun x hx => List.mem_of_mem_tail hx⟩ hb h
        case tupL4 =>
          split at h
          · simp at h
          · exact decTup_fits_of fuel ihN t _ rest (rest.drop 4) v r
              ⟨by simp only [List.length_drop]; omega, fun x hx => List.mem_of_mem_drop hx⟩ hb h
        case slice =>
          obtain ⟨v0, hv0, hf⟩ := thenMap_ok _ _ v r h
          obtain ⟨f0, rem0⟩ := ihD _ _ _ hv0 hbr
          exact ⟨sliceOf_fits _ hB1 v0 v (fits_mono _ _ (by simp) v0 f0) hf, rem_cons t rest r rem0⟩
        case fset =>
          obtain ⟨v0, hv0, hf⟩ := thenMap_ok _ _ v r h
          obtain ⟨f0, rem0⟩ := ihD _ _ _ hv0 hbr
          exact ⟨fsetOf_fits _ hB1 v0 v (fits_mono _ _ (by simp) v0 f0) hf, rem_cons t rest r rem0⟩
        case intL1 =>
          cases rest with
          | nil => simp [decIntL1] at h
          | cons l r' =>
            simp only [decIntL1] at h
            obtain ⟨f0, rfl⟩ := decIntAt_fits _ _ _ v h
            exact ⟨fits_mono _ _ (by simp only [List.length_take, List.length_cons]; omega) v f0,
              rem_of_le t (l :: r') _ (by simp only [List.length_drop, List.length_cons]; omega)
                (fun x hx => by simp [List.mem_of_mem_drop hx])⟩
        case intL4 =>
          split at h
          · simp at h
          · obtain ⟨f0, rfl⟩ := decIntAt_fits _ _ _ v h
            exact ⟨fits_mono _ _ (by simp only [List.length_take, List.length_drop, List.length_cons]; omega) v f0,
              rem_of_le t rest _ (by simp only [List.length_drop]; omega)
                (fun x hx => List.mem_of_mem_drop (List.mem_of_mem_drop hx))⟩

/-- **whatever `brine.load` returns for a genuine byte string of fewer than 2^29 bytes can be dumped again** -/
theorem load_storable (bs : Bytes) (v : Val) (hb : ∀ x ∈ bs, x < 256) (hlen : bs.length < 2 ^ 29) (h : load bs = .ok v) :
    dumpable v = true ∧ InDomain v = true ∧ fits bs.length v = true := by
  unfold load at h
  cases hd : dec (2 * bs.length + 2) bs with
  | error e => simp [hd] at h
  | ok p =>
    obtain ⟨v', r⟩ := p
    simp [hd] at h
    subst h
    have hf := ((dec_fits_both _).1 bs v' r hd hb).1
    have hB : 4 * bs.length + 4 < 2 ^ 32 := by
      have h29 : (2:Nat) ^ 29 = 536870912 := by decide
      have h32 : (2:Nat) ^ 32 = 4294967296 := by decide
      rw [h29] at hlen; rw [h32]; omega
    exact ⟨dec_dumpable _ _ _ _ hd, fits_inDomain bs.length hB v' hf, hf⟩

end Rpyc.Registry
