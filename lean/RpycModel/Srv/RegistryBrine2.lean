import RpycModel.Srv.RegistryBrine
/-
`dec_fits`: every length inside a decoded value is bounded by the length of the (genuine) byte string it was
decoded from.
-/
namespace Rpyc.Registry
open Rpyc Rpyc.Brine

/-- `r` is what is left of `bs` after at least one byte was consumed -/
def Rem (bs r : Bytes) : Prop := r.length < bs.length ∧ ∀ x ∈ r, x ∈ bs

theorem rem_self (t : Nat) (rest : Bytes) : Rem (t :: rest) rest :=
  ⟨by simp, fun x hx => by simp [hx]⟩

theorem rem_drop (t : Nat) (rest : Bytes) (k : Nat) : Rem (t :: rest) (rest.drop k) :=
  ⟨by simp only [List.length_drop, List.length_cons]; omega, fun x hx => by simp [List.mem_of_mem_drop hx]⟩

theorem rem_cons (t : Nat) (rest r : Bytes) (h : Rem rest r) : Rem (t :: rest) r :=
  ⟨by have := h.1; simp only [List.length_cons]; omega, fun x hx => by simp [h.2 x hx]⟩

theorem rem_of_le (t : Nat) (rest r : Bytes) (h1 : r.length ≤ rest.length) (h2 : ∀ x ∈ r, x ∈ rest) : Rem (t :: rest) r :=
  ⟨by simp only [List.length_cons]; omega, fun x hx => by simp [h2 x hx]⟩

theorem utf8DecFuel_length (sp : Bool) : ∀ (f : Nat) (bs : Bytes) (cs : List Nat), utf8DecFuel sp f bs = some cs → cs.length ≤ f
  | _, [], cs, h => by simp [utf8DecFuel] at h; subst h; simp
  | 0, _ :: _, cs, h => by simp [utf8DecFuel] at h
  | f+1, b :: bs, cs, h => by
    simp only [utf8DecFuel] at h
    cases hc : utf8DecCp sp (b :: bs) with
    | none => simp [hc] at h
    | some p =>
      obtain ⟨c, r⟩ := p
      cases hr : utf8DecFuel sp f r with
      | none => simp [hc, hr] at h
      | some cs' =>
        simp [hc, hr] at h
        subst h
        have := utf8DecFuel_length sp f r cs' hr
        simp only [List.length_cons]; omega

theorem decodeText_fits (B : Nat) (v w : Val) (hv : fits B v = true) (h : decodeText v = .ok w) : fits B w = true := by
  unfold decodeText at h
  split at h
  · rename_i b
    split at h
    · cases h
    · rename_i s hs
      injection h with h; subst h
      simp only [fits, Bool.and_eq_true, decide_eq_true_eq] at hv
      have := utf8DecFuel_length _ _ _ _ hs
      simp only [fits, decide_eq_true_eq]; omega
  · cases h

theorem fitsL_map_int (B : Nat) (b : Bytes) (hb : ∀ x ∈ b, x < 256) : fitsL B (b.map (fun x => Val.int (x : Nat))) = true := by
  apply fitsL_of_forall
  intro v hv
  obtain ⟨x, hx, rfl⟩ := List.mem_map.mp hv
  simp only [fits]
  exact byte_int_fits B x (hb x hx)

theorem fitsL_map_str (B : Nat) (hB : 1 ≤ B) (s : List Nat) : fitsL B (s.map (fun c => Val.str [c])) = true := by
  apply fitsL_of_forall
  intro v hv
  obtain ⟨x, _, rfl⟩ := List.mem_map.mp hv
  simp only [fits, List.length_cons, List.length_nil, decide_eq_true_eq]; omega

theorem bytes_lt (B : Nat) (b : Bytes) (h : fits B (.bytes b) = true) : ∀ x ∈ b, x < 256 := by
  simp only [fits, Bool.and_eq_true, decide_eq_true_eq, List.all_eq_true] at h
  exact h.2

theorem sliceOf_fits (B : Nat) (hB : 1 ≤ B) (v w : Val) (hv : fits B v = true) (h : sliceOf v = .ok w) : fits B w = true := by
  unfold sliceOf at h
  split at h
  · cases h
  · rename_i a b c hu
    injection h with h; subst h
    unfold unpack3 at hu
    split at hu <;> try (simp at hu)
    · obtain ⟨rfl, rfl, rfl⟩ := hu
      simp only [fits, fitsL, Bool.and_eq_true, decide_eq_true_eq, Bool.and_true] at hv ⊢
      exact ⟨⟨hv.2.1, hv.2.2.1⟩, hv.2.2.2⟩
    · rename_i x y z
      obtain ⟨rfl, rfl, rfl⟩ := hu
      have hlt := bytes_lt B _ hv
      simp only [fits, Bool.and_eq_true]
      exact ⟨⟨byte_int_fits B x (hlt x (by simp)), byte_int_fits B y (hlt y (by simp))⟩, byte_int_fits B z (hlt z (by simp))⟩
    · obtain ⟨rfl, rfl, rfl⟩ := hu
      simp only [fits, List.length_cons, List.length_nil, decide_eq_true_eq, Bool.and_eq_true]
      omega

theorem fsetOf_fits (B : Nat) (hB : 1 ≤ B) (v w : Val) (hv : fits B v = true) (h : fsetOf v = .ok w) : fits B w = true := by
  unfold fsetOf at h
  split at h
  · cases h
  · rename_i xs hu
    injection h with h; subst h
    unfold iterate at hu
    split at hu <;> try (simp at hu)
    · subst hu; simpa [fits] using hv
    · subst hu; simpa [fits] using hv
    · rename_i b
      subst hu
      have hlt := bytes_lt B _ hv
      simp only [fits, Bool.and_eq_true, decide_eq_true_eq] at hv
      simp only [fits, Bool.and_eq_true, decide_eq_true_eq, List.length_map]
      exact ⟨hv.1, fitsL_map_int B b hlt⟩
    · rename_i s
      subst hu
      simp only [fits, decide_eq_true_eq] at hv
      simp only [fits, Bool.and_eq_true, decide_eq_true_eq, List.length_map]
      exact ⟨hv, fitsL_map_str B hB s⟩

theorem decIntAt_fits (raw r r' : Bytes) (v : Val) (h : decIntAt raw r = .ok (v, r')) :
    fits raw.length v = true ∧ r' = r := by
  unfold decIntAt decInt at h
  split at h
  · cases h
  · rename_i w hw
    split at hw
    · cases hw
    · rename_i i hp
      injection hw with hw; subst hw
      simp at h
      obtain ⟨rfl, rfl⟩ := h
      exact ⟨by simp only [fits]; exact parseInt_fits raw i hp, rfl⟩

theorem bytes_fits (B : Nat) (b : Bytes) (h1 : b.length ≤ B) (h2 : ∀ x ∈ b, x < 256) : fits B (.bytes b) = true := by
  simp only [fits, Bool.and_eq_true, decide_eq_true_eq, List.all_eq_true]
  exact ⟨h1, fun x hx => by simpa using h2 x hx⟩

/-- what the induction carries for `_load` -/
def DecOk (fuel : Nat) : Prop :=
  ∀ bs v r, dec fuel bs = .ok (v, r) → (∀ x ∈ bs, x < 256) → fits bs.length v = true ∧ Rem bs r

/-- ... and for the items of a tuple -/
def DecNOk (fuel : Nat) : Prop :=
  ∀ n bs xs r, decN fuel n bs = .ok (xs, r) → (∀ x ∈ bs, x < 256) →
    fitsL bs.length xs = true ∧ xs.length + r.length ≤ bs.length ∧ ∀ x ∈ r, x ∈ bs

theorem decN_fits_of (fuel : Nat) (ih : DecOk fuel) : DecNOk (fuel + 1) := by
  intro n
  induction n with
  | zero =>
    intro bs xs r h _
    simp [decN] at h; obtain ⟨rfl, rfl⟩ := h
    exact ⟨rfl, by simp, fun x hx => hx⟩
  | succ n ihn =>
    intro bs xs r h hb
    simp only [decN] at h
    cases hx : dec fuel bs with
    | error e => simp [hx] at h
    | ok p =>
      obtain ⟨x, r1⟩ := p
      cases hxs : decN (fuel+1) n r1 with
      | error e => simp [hx, hxs] at h
      | ok q =>
        obtain ⟨xs', r2⟩ := q
        simp [hx, hxs] at h
        obtain ⟨rfl, rfl⟩ := h
        obtain ⟨f1, rem1⟩ := ih bs x r1 hx hb
        obtain ⟨f2, l2, m2⟩ := ihn r1 xs' r2 hxs (fun y hy => hb y (rem1.2 y hy))
        refine ⟨?_, ?_, fun y hy => rem1.2 y (m2 y hy)⟩
        · simp only [fitsL, Bool.and_eq_true]
          exact ⟨f1, fitsL_mono _ _ (by have := rem1.1; omega) xs' f2⟩
        · have := rem1.1
          simp only [List.length_cons]; omega

theorem decTup_fits_of (fuel : Nat) (ihN : DecNOk fuel) (t : Nat) (n : Nat) (rest0 rest : Bytes) (v : Val) (r : Bytes)
    (hsub : rest.length ≤ rest0.length ∧ ∀ x ∈ rest, x ∈ rest0) (hb : ∀ x ∈ t :: rest0, x < 256)
    (h : decTup fuel n rest = .ok (v, r)) : fits (t :: rest0).length v = true ∧ Rem (t :: rest0) r := by
  simp only [decTup] at h
  cases hN : decN fuel n rest with
  | error e => simp [hN] at h
  | ok q =>
    obtain ⟨xs, r'⟩ := q
    simp [hN] at h
    obtain ⟨rfl, rfl⟩ := h
    obtain ⟨f, l, m⟩ := ihN n rest xs r' hN (fun y hy => hb y (by simp [hsub.2 y hy]))
    refine ⟨?_, rem_of_le t rest0 r' (by omega) (fun y hy => hsub.2 y (m y hy))⟩
    simp only [fits, Bool.and_eq_true, decide_eq_true_eq, List.length_cons]
    exact ⟨by omega, fitsL_mono _ _ (by omega) xs f⟩

end Rpyc.Registry
