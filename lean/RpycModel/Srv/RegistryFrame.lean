import RpycModel.Srv.RegistryAlive
/-
Statements that do not go through the model's own notion of "what a datagram means": whose registrations a
datagram can touch at all, which decoded values are no command, case-insensitivity, and the arithmetic of a
waiting client's patience against silent TCP clients.
-/
namespace Rpyc.Registry
open Rpyc Rpyc.Brine

/-- every address a meaning can add or remove belongs to the sender -/
def Intent.Own (host : Val) : Intent → Prop
  | .none => True
  | .query _ => True
  | .register _ a => ∃ port, a = addrCode (host, port)
  | .unregister a => ∃ port, a = addrCode (host, port)

theorem intentCall_own (env : Env) (host : Val) (c : CmdName) (xs : List Val) : (intentCall env host c xs).Own host := by
  cases c with
  | query =>
    match xs with
    | [] => trivial
    | _ :: _ :: _ => trivial
    | [name] => simp only [intentCall]; cases pyUpper env name <;> trivial
  | register =>
    match xs with
    | [] => trivial
    | [_] => trivial
    | _ :: _ :: _ :: _ => trivial
    | [names, port] =>
      simp only [intentCall]
      cases iterate' env names with
      | error e => trivial
      | ok ys =>
        dsimp only
        cases allStr ys with
        | none => trivial
        | some ss =>
          dsimp only
          split
          · trivial
          · exact ⟨port, rfl⟩
  | unregister =>
    match xs with
    | [] => trivial
    | _ :: _ :: _ => trivial
    | [port] => exact ⟨port, rfl⟩

theorem intent_own (env : Env) (host : Val) (dgram : Bytes) : (intent env host dgram).Own host := by
  unfold intent
  split
  · trivial
  cases load dgram with
  | error e => trivial
  | ok v =>
    dsimp only
    unfold intentVal
    cases unpack3' env v with
    | error e => trivial
    | ok m =>
      dsimp only
      unfold intent3
      split
      · cases lookupCmd env m.2.1 with
        | none => trivial
        | some c =>
          dsimp only
          unfold intentExec
          cases iterate' env m.2.2 with
          | error e => trivial
          | ok xs =>
            dsimp only
            split
            · exact intentCall_own env host c.1 xs
            · trivial
      · trivial

/-- **Whose registrations a datagram can touch.**  Whatever the bytes: a pair whose abstract value differs after
the step either has an address of the sender's own host, or was a stale entry and is gone. -/
theorem sender_frame (env : Env) (pruning : Int) (sv : Services) (host : Val) (dgram : Bytes) (now : Int)
    (hinv : Inv sv) (n x : List Nat)
    (hch : view (workStep env pruning sv host dgram now).sv n x ≠ view sv n x) :
    (∃ port, x = addrCode (host, port))
    ∨ (∃ t, view sv n x = some t ∧ t < now - pruning ∧ view (workStep env pruning sv host dgram now).sv n x = none) := by
  have href := (workStep_good env pruning sv host dgram now hinv).refines n x
  have hown := intent_own env host dgram
  rw [href] at hch ⊢
  have hnm := absApply_frame pruning now (view sv) _ n x hch
  cases hi : intent env host dgram with
  | none => rw [hi] at hnm; exact absurd hnm id
  | query name =>
    rw [hi] at hnm
    simp only [Intent.names] at hnm
    right
    cases hv : view sv n x with
    | none => rw [hv] at hnm; simp [staleOpt] at hnm
    | some t =>
      rw [hv] at hnm
      simp only [staleOpt, decide_eq_true_eq] at hnm
      refine ⟨t, rfl, hnm.2, ?_⟩
      simp only [absApply, hv, staleOpt, decide_eq_true_eq]
      rw [if_pos ⟨hnm.1, hnm.2⟩]
  | register names a =>
    rw [hi] at hnm hown
    obtain ⟨port, hp⟩ := hown
    left; exact ⟨port, hnm.2.trans hp⟩
  | unregister a =>
    rw [hi] at hnm hown
    obtain ⟨port, hp⟩ := hown
    left; exact ⟨port, hnm.trans hp⟩

/-! ### decoded values that are no command, stated on the value itself -/

/-- Python values that cannot be unpacked into three at all -/
def notIterable : Val → Bool
  | .none | .notImpl | .ellipsis | .bool _ | .int _ | .float _ | .complex _ _ | .slice _ _ _ | .other _ => true
  | _ => false

theorem noop_of_load_error (env : Env) (pruning : Int) (sv : Services) (host : Val) (d : Bytes) (now : Int) (e : Err)
    (h : load d = .error e) : (workStep env pruning sv host d now).Noop sv := by
  unfold workStep
  split
  · exact noop_idle sv
  simp only [h]; exact noop_idle sv

theorem noop_of_not_iterable (env : Env) (pruning : Int) (sv : Services) (host : Val) (d : Bytes) (now : Int) (v : Val)
    (h : load d = .ok v) (hv : notIterable v = true) : (workStep env pruning sv host d now).Noop sv := by
  unfold workStep
  split
  · exact noop_idle sv
  simp only [h, dispatch, unpack3']
  cases v <;> simp [notIterable] at hv <;> exact noop_idle sv

theorem noop_of_wrong_length (env : Env) (pruning : Int) (sv : Services) (host : Val) (d : Bytes) (now : Int) (xs : List Val)
    (h : load d = .ok (.tuple xs)) (hl : xs.length ≠ 3) : (workStep env pruning sv host d now).Noop sv := by
  unfold workStep
  split
  · exact noop_idle sv
  simp only [h, dispatch, unpack3', iterate']
  match xs, hl with
  | [], _ => exact noop_idle sv
  | [_], _ => exact noop_idle sv
  | [_, _], _ => exact noop_idle sv
  | [_, _, _], hl => exact absurd rfl hl
  | _ :: _ :: _ :: _ :: _, _ => exact noop_idle sv

theorem noop_of_wrong_magic (env : Env) (pruning : Int) (sv : Services) (host : Val) (d : Bytes) (now : Int) (m c a : Val)
    (h : load d = .ok (.tuple [m, c, a])) (hm : ∀ s, m = .str s → s ≠ Gen.magic) :
    (workStep env pruning sv host d now).Noop sv := by
  have him : isMagic m = false := by
    cases m <;> try rfl
    rename_i s
    simp only [isMagic, beq_eq_false_iff_ne, ne_eq]
    exact hm s rfl
  unfold workStep
  split
  · exact noop_idle sv
  simp only [h, dispatch, unpack3', iterate', three, dispatch3, him]
  rw [warnStep_eq_idle]; exact noop_idle sv

theorem noop_of_non_text_command (env : Env) (pruning : Int) (sv : Services) (host : Val) (d : Bytes) (now : Int) (m c a : Val)
    (h : load d = .ok (.tuple [m, c, a])) (hc : ∀ s, c ≠ .str s) : (workStep env pruning sv host d now).Noop sv := by
  have hl : lookupCmd env c = none := by
    cases c <;> first | rfl | exact absurd rfl (hc _)
  unfold workStep
  split
  · exact noop_idle sv
  simp only [h, dispatch, unpack3', iterate', three, dispatch3, hl]
  split <;> (rw [warnStep_eq_idle]; exact noop_idle sv)

theorem findCmd_none_of_not_mem (lowered : List Nat) : ∀ (tbl : List (List Nat × Nat)), lowered ∉ tbl.map Prod.fst →
    findCmd lowered tbl = none
  | [], _ => rfl
  | e :: rest, h => by
    simp only [List.map_cons, List.mem_cons, not_or] at h
    simp only [findCmd]
    rw [if_neg (fun hh => h.1 hh.symm)]
    exact findCmd_none_of_not_mem lowered rest h.2

theorem noop_of_unknown_command (env : Env) (pruning : Int) (sv : Services) (host : Val) (d : Bytes) (now : Int) (m a : Val)
    (s : List Nat) (h : load d = .ok (.tuple [m, .str s, a]))
    (hs : strLower env s ∉ [nmQuery, nmRegister, nmUnregister]) : (workStep env pruning sv host d now).Noop sv := by
  have hl : lookupCmd env (.str s) = none := by
    simp only [lookupCmd]
    apply findCmd_none_of_not_mem
    have : Gen.cmdTable.map Prod.fst = [nmQuery, nmRegister, nmUnregister] := by decide
    rw [this]; exact hs
  unfold workStep
  split
  · exact noop_idle sv
  simp only [h, dispatch, unpack3', iterate', three, dispatch3, hl]
  split <;> (rw [warnStep_eq_idle]; exact noop_idle sv)

theorem noop_of_wrong_arg_count (env : Env) (pruning : Int) (sv : Services) (host : Val) (d : Bytes) (now : Int) (m : Val)
    (s : List Nat) (args : List Val) (c : CmdName × Nat) (h : load d = .ok (.tuple [m, .str s, .tuple args]))
    (hc : lookupCmd env (.str s) = some c) (hn : args.length ≠ c.2) : (workStep env pruning sv host d now).Noop sv := by
  unfold workStep
  split
  · exact noop_idle sv
  simp only [h, dispatch, unpack3', iterate', three, dispatch3, hc, execute, hn]
  split
  · exact noop_idle sv
  · rw [warnStep_eq_idle]; exact noop_idle sv

/-- a request of the right shape whose arguments the command refuses before touching anything -/
theorem noop_of_refused_arguments (env : Env) (pruning : Int) (sv : Services) (host : Val) (d : Bytes) (now : Int) (m : Val)
    (s : List Nat) (args : List Val) (c : CmdName × Nat) (h : load d = .ok (.tuple [m, .str s, .tuple args]))
    (hc : lookupCmd env (.str s) = some c) (hi : intentCall env host c.1 args = .none) :
    (workStep env pruning sv host d now).Noop sv := by
  unfold workStep
  split
  · exact noop_idle sv
  simp only [h, dispatch, unpack3', iterate', three, dispatch3, hc, execute]
  split
  · split
    · exact callCmd_noop env pruning sv host now c.1 args hi
    · exact noop_idle sv
  · rw [warnStep_eq_idle]; exact noop_idle sv

/-- wrong argument types, query: the name is neither text nor a byte string (nothing else has `.upper()`) -/
theorem noop_of_query_bad_name (env : Env) (pruning : Int) (sv : Services) (host : Val) (d : Bytes) (now : Int) (m name : Val)
    (s : List Nat) (n : Nat) (h : load d = .ok (.tuple [m, .str s, .tuple [name]]))
    (hc : lookupCmd env (.str s) = some (.query, n)) (h1 : ∀ t, name ≠ .str t) (h2 : ∀ b, name ≠ .bytes b) :
    (workStep env pruning sv host d now).Noop sv := by
  apply noop_of_refused_arguments env pruning sv host d now m s [name] (.query, n) h hc
  simp only [intentCall]
  cases name <;> first | rfl | exact absurd rfl (h1 _) | exact absurd rfl (h2 _)

/-- wrong argument types, register: `names` is a tuple with an item that is not text -/
theorem noop_of_register_bad_names (env : Env) (pruning : Int) (sv : Services) (host : Val) (d : Bytes) (now : Int)
    (m port : Val) (s : List Nat) (n : Nat) (names : List Val)
    (h : load d = .ok (.tuple [m, .str s, .tuple [.tuple names, port]]))
    (hc : lookupCmd env (.str s) = some (.register, n)) (hbad : allStr names = none) :
    (workStep env pruning sv host d now).Noop sv := by
  apply noop_of_refused_arguments env pruning sv host d now m s [.tuple names, port] (.register, n) h hc
  simp [intentCall, iterate', hbad]

/-- wrong argument types, register: `names` cannot be iterated at all -/
theorem noop_of_register_names_not_iterable (env : Env) (pruning : Int) (sv : Services) (host : Val) (d : Bytes) (now : Int)
    (m names port : Val) (s : List Nat) (n : Nat)
    (h : load d = .ok (.tuple [m, .str s, .tuple [names, port]]))
    (hc : lookupCmd env (.str s) = some (.register, n)) (hbad : notIterable names = true) :
    (workStep env pruning sv host d now).Noop sv := by
  apply noop_of_refused_arguments env pruning sv host d now m s [names, port] (.register, n) h hc
  simp only [intentCall]
  cases names <;> simp [notIterable] at hbad <;> rfl

/-- `", ".join(names)` refuses exactly the lists with an item that is not text -/
theorem allStr_none_iff (xs : List Val) : allStr xs = none ↔ ∃ x ∈ xs, ∀ t, x ≠ .str t := by
  induction xs with
  | nil => simp [allStr]
  | cons x xs ih =>
    cases x <;> simp [allStr] <;> (try (cases hr : allStr xs <;> simp [hr] at ih ⊢ <;> exact ih))

/-! ### case-insensitivity -/

theorem asciiUpper_asciiLower (c : Nat) : asciiUpper (asciiLower c) = asciiUpper c := by
  unfold asciiUpper asciiLower
  split <;> split <;> (try split) <;> omega

theorem isAscii_map_lower (s : List Nat) (h : isAscii s = true) : isAscii (s.map asciiLower) = true := by
  simp only [isAscii, List.all_eq_true, decide_eq_true_eq, List.mem_map] at h ⊢
  rintro x ⟨y, hy, rfl⟩
  have := h y hy
  unfold asciiLower; split <;> omega

theorem isAscii_map_upper (s : List Nat) (h : isAscii s = true) : isAscii (s.map asciiUpper) = true := by
  simp only [isAscii, List.all_eq_true, decide_eq_true_eq, List.mem_map] at h ⊢
  rintro x ⟨y, hy, rfl⟩
  have := h y hy
  unfold asciiUpper; split <;> omega

/-- for ASCII names, lower-casing (or upper-casing) a name does not change the name it is stored and queried under -/
theorem strUpper_case_insensitive (env : Env) (s : List Nat) (h : isAscii s = true) :
    strUpper env (s.map asciiLower) = strUpper env s ∧ strUpper env (s.map asciiUpper) = strUpper env s := by
  have hu : ∀ c, asciiUpper (asciiUpper c) = asciiUpper c := by
    intro c; unfold asciiUpper; split <;> (try split) <;> omega
  simp only [strUpper, h, isAscii_map_lower s h, isAscii_map_upper s h, if_true, List.map_map]
  exact ⟨List.map_congr_left (fun c _ => asciiUpper_asciiLower c), List.map_congr_left (fun c _ => hu c)⟩

/-- a query sees only the upper-cased name -/
theorem cmdQuery_congr (env : Env) (pruning : Int) (sv : Services) (s1 s2 : List Nat) (now : Int)
    (h : strUpper env s1 = strUpper env s2) :
    cmdQuery env pruning sv (.str s1) now = cmdQuery env pruning sv (.str s2) now := by
  simp only [cmdQuery, pyUpper, h]

/-- a server registered under one spelling is stored under the upper-cased name, with refresh time `now` -/
theorem registered_view (env : Env) (sv : Services) (host port : Val) (s : List Nat) (now : Int) (h : Inv sv)
    (hr : registerRefuses env (host, port) = false) :
    view (cmdRegister env sv host (.tuple [.str s]) port now).sv (keyCode (.str (strUpper env s))) (addrCode (host, port))
      = some now := by
  have g := cmdRegister_good env 0 sv host (.tuple [.str s]) port now h
  rw [g.refines]
  simp [intentCall, iterate', allStr, absApply, upperCodes, hr]

/-- what the abstract map holds under a name is in the inner dict the answer is computed from -/
theorem mem_innerOf_of_view (sv : Services) (NAME : Val) (x : List Nat) (t : Int) (h : view sv (keyCode NAME) x = some t) :
    ∃ a, (a, t) ∈ innerOf sv NAME ∧ addrCode a = x := by
  rw [← viewInner_innerOf] at h
  exact mem_of_alFind addrCode _ x t h

/-! ### a waiting client's patience against silent TCP clients -/

/-- how many silent TCP clients a client with the default reply timeout can queue behind and still be answered in time -/
def silentClientsTolerated : Nat := (Gen.tcpClientTimeoutMs - 1) / Gen.tcpServerTimeoutMs

theorem timeouts_positive : 0 < Gen.tcpServerTimeoutMs ∧ 0 < Gen.tcpClientTimeoutMs := by decide

theorem patience (k : Nat) : k * Gen.tcpServerTimeoutMs < Gen.tcpClientTimeoutMs ↔ k ≤ silentClientsTolerated := by
  obtain ⟨hT, hC⟩ := timeouts_positive
  unfold silentClientsTolerated
  rw [Nat.le_div_iff_mul_le hT]
  omega

theorem countP_replicate_silent (k p : Nat) : (List.replicate k (TcpEv.silent p)).countP isSilent = k := by
  induction k with
  | zero => rfl
  | succ k ih => simp [List.replicate_succ, List.countP_cons, isSilent, ih]

end Rpyc.Registry
