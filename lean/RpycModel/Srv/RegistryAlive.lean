import RpycModel.Srv.RegistryWork
import RpycModel.Srv.RegistryBrine3
/-
The loop never dies, over whole histories: every address the registry stores was decoded from a genuine
datagram (or is the transport's host text), so it can be dumped again; and a name gains at most one server per
datagram, so a reply is a tuple of fewer than 2^32 items for any history shorter than that.
-/
namespace Rpyc.Registry
open Rpyc Rpyc.Brine

/-- the one law assumed of the environment: iterating a frozenset yields members of it -/
def EnvOk (env : Env) : Prop := ∀ xs x, x ∈ env.fsetIter xs → x ∈ xs

/-- dumpable, and every length inside bounded by `B` -/
def Fine (B : Nat) (v : Val) : Prop := dumpable v = true ∧ fits B v = true

theorem dumpableL_mem : ∀ (xs : List Val) (x : Val), dumpableL xs = true → x ∈ xs → dumpable x = true
  | [], _, _, hm => by simp at hm
  | y :: ys, x, hd, hm => by
    simp only [dumpableL, Bool.and_eq_true] at hd
    simp only [List.mem_cons] at hm
    rcases hm with rfl | hm
    · exact hd.1
    · exact dumpableL_mem ys x hd.2 hm

theorem iterate_fine (env : Env) (hE : EnvOk env) (B : Nat) (hB : 1 ≤ B) (v : Val) (xs : List Val)
    (hv : Fine B v) (h : iterate' env v = .ok xs) : ∀ x ∈ xs, Fine B x := by
  obtain ⟨hd, hf⟩ := hv
  unfold iterate' at h
  split at h <;> try (cases h; done)
  · rename_i ys
    cases h
    simp only [dumpable] at hd
    simp only [fits, Bool.and_eq_true] at hf
    exact fun x hx => ⟨dumpableL_mem _ x hd hx, fitsL_mem B _ x hf.2 hx⟩
  · rename_i ys
    cases h
    simp only [dumpable] at hd
    simp only [fits, Bool.and_eq_true] at hf
    exact fun x hx => ⟨dumpableL_mem _ x hd (hE _ _ hx), fitsL_mem B _ x hf.2 (hE _ _ hx)⟩
  · rename_i b
    cases h
    have hlt := bytes_lt B b hf
    intro x hx
    obtain ⟨y, hy, rfl⟩ := List.mem_map.mp hx
    exact ⟨rfl, by simp only [fits]; exact byte_int_fits B y (hlt y hy)⟩
  · rename_i s
    cases h
    intro x hx
    obtain ⟨y, _, rfl⟩ := List.mem_map.mp hx
    exact ⟨rfl, by simp only [fits, List.length_cons, List.length_nil, decide_eq_true_eq]; omega⟩

theorem fine_storable (B : Nat) (hB : 4 * B + 4 < 2 ^ 32) (v : Val) (h : Fine B v) : Storable v = true := by
  simp only [Storable, Bool.and_eq_true]
  exact ⟨h.1, fits_inDomain B hB v h.2⟩

/-! ### stored addresses stay storable -/

def ElemStorable (sv : Services) : Prop := ∀ e ∈ sv, ∀ x ∈ e.2, Storable x.1.1 = true ∧ Storable x.1.2 = true

section AL
variable {κ β : Type} (code : κ → List Nat)

theorem alSet_key_cases (l : List (κ × β)) (k : κ) (v : β) (e : κ × β) (h : e ∈ alSet code l k v) :
    e.1 = k ∨ ∃ w, (e.1, w) ∈ l := by
  induction l with
  | nil => simp [alSet] at h; left; simp [h]
  | cons e' l ih =>
    obtain ⟨k', w⟩ := e'
    simp only [alSet] at h
    by_cases hk : code k' = code k
    · rw [if_pos hk] at h
      simp only [List.mem_cons] at h
      rcases h with rfl | h
      · right; exact ⟨w, by simp⟩
      · right; exact ⟨e.2, by simp [h]⟩
    · rw [if_neg hk] at h
      simp only [List.mem_cons] at h
      rcases h with rfl | h
      · right; exact ⟨w, by simp⟩
      · rcases ih h with h' | ⟨w', h'⟩
        · left; exact h'
        · right; exact ⟨w', by simp [h']⟩

theorem alSet_length (l : List (κ × β)) (k : κ) (v : β) :
    (alSet code l k v).length = if (alFind code l (code k)).isSome then l.length else l.length + 1 := by
  induction l with
  | nil => simp [alSet, alFind]
  | cons e' l ih =>
    obtain ⟨k', w⟩ := e'
    by_cases hk : code k' = code k
    · simp [alSet, alFind, hk]
    · have h1 : alSet code ((k', w) :: l) k v = (k', w) :: alSet code l k v := by simp [alSet, hk]
      have h2 : alFind code ((k', w) :: l) (code k) = alFind code l (code k) := by simp [alFind, hk]
      rw [h1, h2, List.length_cons, ih]
      split <;> simp

end AL

theorem elem_addService (sv : Services) (name : Val) (a : Addr) (now : Int) (h : ElemStorable sv)
    (ha : Storable a.1 = true ∧ Storable a.2 = true) : ElemStorable (addService sv name a now).1 := by
  unfold addService
  intro e he x hx
  rcases mem_alSet keyCode _ _ _ e he with he' | he'
  · exact h e he' x hx
  · rw [he'] at hx
    rcases alSet_key_cases addrCode _ _ _ x hx with hk | ⟨w, hw⟩
    · rw [hk]; exact ha
    · unfold innerOf at hw
      cases hf : alFind keyCode sv (keyCode name) with
      | none => simp [hf] at hw
      | some inner =>
        simp only [hf] at hw
        obtain ⟨k, hm, _⟩ := mem_of_alFind keyCode sv _ inner hf
        exact h _ hm (x.1, w) hw

theorem elem_removeService (sv : Services) (name : Val) (a : Addr) (h : ElemStorable sv) :
    ElemStorable (removeService sv name a).sv := by
  unfold removeService
  cases hf : alFind keyCode sv (keyCode name) with
  | none => exact h
  | some inner =>
    obtain ⟨k, hm, _⟩ := mem_of_alFind keyCode sv _ inner hf
    simp only [afterPop]
    split
    · exact fun e he => h e ((alErase_sublist keyCode sv _).subset he)
    · intro e he x hx
      rcases mem_alSet keyCode _ _ _ e he with he' | he'
      · exact h e he' x hx
      · rw [he'] at hx
        exact h _ hm x ((alErase_sublist addrCode inner _).subset hx)

theorem elem_regLoop (env : Env) (a : Addr) (now : Int) (ha : Storable a.1 = true ∧ Storable a.2 = true) :
    ∀ (ss : List (List Nat)) (sv : Services), ElemStorable sv → ElemStorable (regLoop env a now ss sv).1
  | [], _, h => h
  | s :: ss, sv, h => by
    simp only [regLoop]
    exact elem_regLoop env a now ha ss _ (elem_addService sv _ a now h ha)

theorem elem_unregLoop (a : Addr) : ∀ (names : List Val) (sv : Services), ElemStorable sv → ElemStorable (unregLoop a names sv).sv
  | [], _, h => h
  | m :: ms, sv, h => by
    simp only [unregLoop]
    cases (removeService sv m a).err with
    | some e => exact elem_removeService sv m a h
    | none => exact elem_unregLoop a ms _ (elem_removeService sv m a h)

theorem elem_queryLoop (name : Val) (oldest : Int) : ∀ (work : List (Addr × Int)) (sv : Services), ElemStorable sv →
    ElemStorable (queryLoop name oldest work sv).1.sv
  | [], _, h => h
  | (a, t) :: rest, sv, h => by
    simp only [queryLoop]
    split
    · cases (removeService sv name a).err with
      | some e => exact elem_removeService sv name a h
      | none => exact elem_queryLoop name oldest rest _ (elem_removeService sv name a h)
    · exact elem_queryLoop name oldest rest sv h

theorem elem_callCmd (env : Env) (pruning : Int) (sv : Services) (host : Val) (now : Int) (c : CmdName) (xs : List Val)
    (h : ElemStorable sv) (hh : Storable host = true) (hx : ∀ x ∈ xs, Storable x = true) :
    ElemStorable (callCmd env pruning sv host now c xs).sv := by
  cases c with
  | query =>
    match xs with
    | [] => exact h
    | _ :: _ :: _ => exact h
    | [name] =>
      simp only [callCmd, cmdQuery]
      cases pyUpper env name with
      | error e => exact h
      | ok NAME =>
        simp only [queryUpper]
        cases alFind keyCode sv (keyCode NAME) with
        | none => exact h
        | some inner =>
          simp only [queryFinish]
          have := elem_queryLoop NAME (now - pruning) (sortByTime inner) sv h
          cases (queryLoop NAME (now - pruning) (sortByTime inner) sv).1.err <;> exact this
  | register =>
    match xs, hx with
    | [], _ => exact h
    | [_], _ => exact h
    | _ :: _ :: _ :: _, _ => exact h
    | [names, port], hx =>
      simp only [callCmd, cmdRegister]
      cases iterate' env names with
      | error e => exact h
      | ok ys =>
        dsimp only
        cases allStr ys with
        | none => exact h
        | some ss =>
          dsimp only
          by_cases hr : registerRefuses env (host, port) = true
          · rw [if_pos hr]; exact h
          rw [if_neg hr, if_pos (hashable_true _)]
          exact elem_regLoop env (host, port) now ⟨hh, hx port (by simp)⟩ ss sv h
  | unregister =>
    match xs with
    | [] => exact h
    | _ :: _ :: _ => exact h
    | [port] =>
      simp only [callCmd, cmdUnregister, unregFinish, hashable_true, if_true]
      have := elem_unregLoop (host, port) (sv.map Prod.fst) sv h
      cases (unregLoop (host, port) (sv.map Prod.fst) sv).err <;> exact this

/-- a genuine datagram: bytes, and short enough (real ones have at most MAX_DGRAM_SIZE bytes) -/
def Genuine (d : Bytes) : Prop := (∀ x ∈ d, x < 256) ∧ d.length < 2 ^ 29

theorem three_mem (xs : List Val) (m : Val × Val × Val) (h : three xs = .ok m) : m.1 ∈ xs ∧ m.2.1 ∈ xs ∧ m.2.2 ∈ xs := by
  unfold three at h
  split at h
  · cases h; simp
  · cases h

theorem elem_workStep (env : Env) (hE : EnvOk env) (pruning : Int) (sv : Services) (host : Val) (dgram : Bytes) (now : Int)
    (h : ElemStorable sv) (hh : Storable host = true) (hg : Genuine dgram) :
    ElemStorable (workStep env pruning sv host dgram now).sv := by
  unfold workStep
  by_cases hov : env.loadOverflows dgram = true
  · rw [if_pos hov]; exact h
  rw [if_neg hov]
  cases hl : load dgram with
  | error e => exact h
  | ok v =>
    dsimp only
    obtain ⟨hd, _, hf⟩ := load_storable dgram v hg.1 hg.2 hl
    have hB : 4 * (dgram.length + 1) + 4 < 2 ^ 32 := by
      have h29 : (2:Nat) ^ 29 = 536870912 := by decide
      have h32 : (2:Nat) ^ 32 = 4294967296 := by decide
      have := hg.2
      rw [h29] at this; rw [h32]; omega
    have hv : Fine (dgram.length + 1) v := ⟨hd, fits_mono _ _ (by omega) v hf⟩
    unfold dispatch
    cases hu : unpack3' env v with
    | error e => exact h
    | ok m =>
      dsimp only
      unfold unpack3' at hu
      cases hi : iterate' env v with
      | error e => simp [hi] at hu
      | ok ys =>
        simp only [hi] at hu
        have hys := iterate_fine env hE _ (by omega) v ys hv hi
        obtain ⟨_, _, hm3⟩ := three_mem ys m hu
        unfold dispatch3
        split
        · cases lookupCmd env m.2.1 with
          | none => exact h
          | some c =>
            dsimp only
            unfold execute
            cases hi2 : iterate' env m.2.2 with
            | error e => exact h
            | ok xs =>
              dsimp only
              have hxs := iterate_fine env hE _ (by omega) m.2.2 xs (hys _ hm3) hi2
              split
              · simp only [finish_sv]
                exact elem_callCmd env pruning sv host now c.1 xs h hh (fun x hx => fine_storable _ hB x (hxs x hx))
              · exact h
        · exact h

/-! ### a name gains at most one server per datagram -/

/-- every inner dict has at most `k` entries -/
def Bounded (k : Nat) (sv : Services) : Prop := ∀ e ∈ sv, e.2.length ≤ k

/-- during one register: an inner dict has at most `k` entries, or at most `k+1` and already holds `a` -/
def BoundedOr (k : Nat) (a : Addr) (sv : Services) : Prop :=
  ∀ e ∈ sv, e.2.length ≤ k ∨ (e.2.length ≤ k + 1 ∧ (alFind addrCode e.2 (addrCode a)).isSome = true)

theorem boundedOr_addService (k : Nat) (sv : Services) (name : Val) (a : Addr) (now : Int) (h : BoundedOr k a sv) :
    BoundedOr k a (addService sv name a now).1 := by
  unfold addService
  intro e he
  rcases mem_alSet keyCode _ _ _ e he with he' | he'
  · exact h e he'
  · rw [he']
    right
    refine ⟨?_, by rw [alFind_alSet_same]; rfl⟩
    rw [alSet_length]
    unfold innerOf
    cases hf : alFind keyCode sv (keyCode name) with
    | none => simp [alFind]
    | some inner =>
      dsimp only
      obtain ⟨k', hm, _⟩ := mem_of_alFind keyCode sv _ inner hf
      rcases h _ hm with hle | ⟨hle, hp⟩
      · dsimp only at hle; split <;> omega
      · dsimp only at hle hp; rw [hp]; simp; exact hle

theorem boundedOr_regLoop (env : Env) (k : Nat) (a : Addr) (now : Int) :
    ∀ (ss : List (List Nat)) (sv : Services), BoundedOr k a sv → BoundedOr k a (regLoop env a now ss sv).1
  | [], _, h => h
  | s :: ss, sv, h => by
    simp only [regLoop]
    exact boundedOr_regLoop env k a now ss _ (boundedOr_addService k sv _ a now h)

theorem bounded_removeService (k : Nat) (sv : Services) (name : Val) (a : Addr) (h : Bounded k sv) :
    Bounded k (removeService sv name a).sv := by
  unfold removeService
  cases hf : alFind keyCode sv (keyCode name) with
  | none => exact h
  | some inner =>
    obtain ⟨k', hm, _⟩ := mem_of_alFind keyCode sv _ inner hf
    simp only [afterPop]
    split
    · exact fun e he => h e ((alErase_sublist keyCode sv _).subset he)
    · intro e he
      rcases mem_alSet keyCode _ _ _ e he with he' | he'
      · exact h e he'
      · rw [he']
        exact Nat.le_trans (alErase_sublist addrCode inner _).length_le (h _ hm)

theorem bounded_unregLoop (k : Nat) (a : Addr) : ∀ (names : List Val) (sv : Services), Bounded k sv → Bounded k (unregLoop a names sv).sv
  | [], _, h => h
  | m :: ms, sv, h => by
    simp only [unregLoop]
    cases (removeService sv m a).err with
    | some e => exact bounded_removeService k sv m a h
    | none => exact bounded_unregLoop k a ms _ (bounded_removeService k sv m a h)

theorem bounded_queryLoop (k : Nat) (name : Val) (oldest : Int) : ∀ (work : List (Addr × Int)) (sv : Services), Bounded k sv →
    Bounded k (queryLoop name oldest work sv).1.sv
  | [], _, h => h
  | (a, t) :: rest, sv, h => by
    simp only [queryLoop]
    split
    · cases (removeService sv name a).err with
      | some e => exact bounded_removeService k sv name a h
      | none => exact bounded_queryLoop k name oldest rest _ (bounded_removeService k sv name a h)
    · exact bounded_queryLoop k name oldest rest sv h

theorem bounded_succ (k : Nat) (sv : Services) (h : Bounded k sv) : Bounded (k + 1) sv :=
  fun e he => Nat.le_succ_of_le (h e he)

theorem bounded_callCmd (env : Env) (pruning : Int) (sv : Services) (host : Val) (now : Int) (c : CmdName) (xs : List Val)
    (k : Nat) (h : Bounded k sv) : Bounded (k + 1) (callCmd env pruning sv host now c xs).sv := by
  cases c with
  | query =>
    match xs with
    | [] => exact bounded_succ k sv h
    | _ :: _ :: _ => exact bounded_succ k sv h
    | [name] =>
      simp only [callCmd, cmdQuery]
      cases pyUpper env name with
      | error e => exact bounded_succ k sv h
      | ok NAME =>
        simp only [queryUpper]
        cases alFind keyCode sv (keyCode NAME) with
        | none => exact bounded_succ k sv h
        | some inner =>
          simp only [queryFinish]
          have := bounded_succ k _ (bounded_queryLoop k NAME (now - pruning) (sortByTime inner) sv h)
          cases (queryLoop NAME (now - pruning) (sortByTime inner) sv).1.err <;> exact this
  | register =>
    match xs with
    | [] => exact bounded_succ k sv h
    | [_] => exact bounded_succ k sv h
    | _ :: _ :: _ :: _ => exact bounded_succ k sv h
    | [names, port] =>
      simp only [callCmd, cmdRegister]
      cases iterate' env names with
      | error e => exact bounded_succ k sv h
      | ok ys =>
        dsimp only
        cases allStr ys with
        | none => exact bounded_succ k sv h
        | some ss =>
          dsimp only
          by_cases hr : registerRefuses env (host, port) = true
          · rw [if_pos hr]; exact bounded_succ k sv h
          rw [if_neg hr, if_pos (hashable_true _)]
          have := boundedOr_regLoop env k (host, port) now ss sv (fun e he => Or.inl (h e he))
          intro e he
          rcases this e he with hle | ⟨hle, _⟩ <;> omega
  | unregister =>
    match xs with
    | [] => exact bounded_succ k sv h
    | _ :: _ :: _ => exact bounded_succ k sv h
    | [port] =>
      simp only [callCmd, cmdUnregister, unregFinish, hashable_true, if_true]
      have := bounded_succ k _ (bounded_unregLoop k (host, port) (sv.map Prod.fst) sv h)
      cases (unregLoop (host, port) (sv.map Prod.fst) sv).err <;> exact this

theorem bounded_workStep (env : Env) (pruning : Int) (sv : Services) (host : Val) (dgram : Bytes) (now : Int)
    (k : Nat) (h : Bounded k sv) : Bounded (k + 1) (workStep env pruning sv host dgram now).sv := by
  unfold workStep
  by_cases hov : env.loadOverflows dgram = true
  · rw [if_pos hov]; exact bounded_succ k sv h
  rw [if_neg hov]
  cases load dgram with
  | error e => exact bounded_succ k sv h
  | ok v =>
    dsimp only
    unfold dispatch
    cases unpack3' env v with
    | error e => exact bounded_succ k sv h
    | ok m =>
      dsimp only
      unfold dispatch3
      split
      · cases lookupCmd env m.2.1 with
        | none => exact bounded_succ k sv h
        | some c =>
          dsimp only
          unfold execute
          cases iterate' env m.2.2 with
          | error e => exact bounded_succ k sv h
          | ok xs =>
            dsimp only
            split
            · simp only [finish_sv]
              exact bounded_callCmd env pruning sv host now c.1 xs k h
            · exact bounded_succ k sv h
      · exact bounded_succ k sv h

/-! ### the loop never dies, and what it stores can always be sent back -/

/-- the hosts the transport reports are text `brine.dump` accepts, the datagrams are genuine byte strings -/
def EventsOk (evs : List Event) : Prop := ∀ e ∈ evs, Storable e.host = true ∧ Genuine e.dgram

/-- every iteration of every history leaves the loop running -/
theorem allAlive_all (env : Env) (pruning : Int) : ∀ (evs : List Event) (st : St), allAlive env pruning st evs = true
  | [], _ => rfl
  | e :: es, st => by
    simp only [allAlive, stepEvent, workStep_alive, Bool.true_and]
    exact allAlive_all env pruning es _

/-- after any history of genuine datagrams everything stored can be dumped again, and no name has 2^32 servers -/
theorem run_storable (env : Env) (hE : EnvOk env) (pruning : Int) : ∀ (evs : List Event) (st : St) (k : Nat),
    Inv st.sv → ElemStorable st.sv → Bounded k st.sv → EventsOk evs → k + evs.length < 2 ^ 32 →
    SvStorable (run env pruning st evs).sv
  | [], st, k, _, hs, hb, _, hk => fun x hx => ⟨Nat.lt_of_le_of_lt (hb x hx) (by simp at hk; omega), hs x hx⟩
  | e :: es, st, k, hi, hs, hb, hev, hk => by
    obtain ⟨hh, hg⟩ := hev e (by simp)
    simp only [List.length_cons] at hk
    have g := workStep_good env pruning st.sv e.host e.dgram e.now hi
    simp only [run]
    exact run_storable env hE pruning es _ (k + 1) g.inv
      (elem_workStep env hE pruning st.sv e.host e.dgram e.now hs hh hg)
      (bounded_workStep env pruning st.sv e.host e.dgram e.now k hb)
      (fun x hx => hev x (by simp [hx])) (by omega)

end Rpyc.Registry
