import RpycModel.Srv.ServerEffects
/-
Part 3 (C16): invariants of a running server under arbitrary client behaviour, derived from `Eff`.
-/
set_option linter.unusedSimpArgs false
set_option linter.unusedVariables false
set_option linter.unnecessarySimpa false
namespace Rpyc.Srv

/-- the alphabet of C16: everything clients can do, good or hostile; the administrator does not close the server -/
def Op.c16 : Op → Bool
  | .serverClose => false
  -- an error from `accept()` is an event of the environment, not a client action; for the code that survives it the step
  -- changes nothing (`accept_fault_harmless`, `run_ignores_accept_faults`)
  | .acceptFault => false
  -- a client for which no thread / child can be started: an event of the environment too (`spawn_failure_*`)
  | .connectNoSpawn _ => false
  -- (a newcomer whose socket is given the descriptor number of a connection closed before - `connectReuse`, what every
  -- connect after a disconnect is on a real server - is part of the alphabet)
  | _ => true

/-- the server is up: listener open, accept loop running -/
def Up (s : St) : Prop :=
  s.closedFlag = false ∧ s.listening = true ∧ s.active = true ∧ s.acceptAlive = true ∧
  s.poolUp = (s.cfg.kind == .pool)

/-- no client stalls its authentication (connects and sends no credentials) -/
def NoSilent (s : St) : Prop := ∀ j, (s.cli j).cred ≠ .silent

def NoBacklog (s : St) : Prop := ∀ j, (s.cli j).phase ≠ .backlog

/-- service instances and lent objects are never shared between clients -/
def Iso (s : St) : Prop :=
  Bound s ∧ (∀ i j a, (s.cli i).inst = some a → (s.cli j).inst = some a → i = j) ∧
  (∀ i j o, o ∈ (s.cli i).table → o ∈ (s.cli j).table → i = j)

theorem Iso.init (cfg : Cfg) : Iso (init cfg) := by
  refine ⟨⟨?_, ?_⟩, ?_, ?_⟩ <;> simp [Srv.init]

theorem Iso.eff {s t : St} {T : Nat → Prop} (h : Iso s) (e : EffC s t T) : Iso t := by
  obtain ⟨b, hi, ho⟩ := h
  refine ⟨e.bound b, ?_, ?_⟩
  · intro i j a h1 h2
    rcases e.uniqI b i j a h1 h2 with h | ⟨h3, h4⟩
    · exact h
    · exact hi i j a h3 h4
  · intro i j o h1 h2
    rcases e.uniqO b i j o h1 h2 with h | ⟨h3, h4⟩
    · exact h
    · exact ho i j o h3 h4

theorem Iso.joined {s : St} (h : Iso s) (k : Nat) (cred : Cred) : Iso (Srv.joined s k cred) := by
  obtain ⟨⟨b1, b2⟩, hi, ho⟩ := h
  have hk : ((Srv.joined s k cred).cli k).inst = none ∧ ((Srv.joined s k cred).cli k).table = [] := by
    simp [Srv.joined]
  have hne : ∀ j, j ≠ k → (Srv.joined s k cred).cli j = s.cli j :=
    fun j hj => by simp [Srv.joined, set_cli_ne _ _ _ _ hj]
  refine ⟨⟨?_, ?_⟩, ?_, ?_⟩
  · intro j a hj
    by_cases hjk : j = k
    · subst hjk; rw [hk.1] at hj; cases hj
    · rw [hne j hjk] at hj; exact b1 j a hj
  · intro j o hj
    by_cases hjk : j = k
    · subst hjk; rw [hk.2] at hj; cases hj
    · rw [hne j hjk] at hj; exact b2 j o hj
  · intro i j a h1 h2
    by_cases hik : i = k
    · subst hik; rw [hk.1] at h1; cases h1
    · by_cases hjk : j = k
      · subst hjk; rw [hk.1] at h2; cases h2
      · rw [hne i hik] at h1; rw [hne j hjk] at h2; exact hi i j a h1 h2
  · intro i j o h1 h2
    by_cases hik : i = k
    · subst hik; rw [hk.2] at h1; cases h1
    · by_cases hjk : j = k
      · subst hjk; rw [hk.2] at h2; cases h2
      · rw [hne i hik] at h1; rw [hne j hjk] at h2; exact ho i j o h1 h2

/-- a client that connects and is turned away at once: either nothing happens (listener closed) or its record is
`turnedAway` and nobody else's changes -/
theorem step_connectNoSpawn {s t : St} {o : Obs} {k : Nat} (h : step s (.connectNoSpawn k) = .ok (t, o)) :
    (t = s ∧ o = .refused) ∨ (t = rejectNew s k ∧ o = .ok ∧ (s.cli k).phase = .absent ∧ canAccept s = true) := by
  simp only [step] at h
  split at h
  · cases h
  · rename_i hg
    split at h
    · simp only [Except.ok.injEq, Prod.mk.injEq] at h; exact Or.inl ⟨h.1.symm, h.2.symm⟩
    · split at h
      · cases h
      · rename_i hc
        simp only [Except.ok.injEq, Prod.mk.injEq] at h
        refine Or.inr ⟨h.1.symm, h.2.symm, ?_, by simpa using hc⟩
        cases hp : (s.cli k).phase <;> simp [hp] at hg ⊢

theorem Iso.rejectNew {s : St} (h : Iso s) (k : Nat) : Iso (Srv.rejectNew s k) := by
  obtain ⟨⟨b1, b2⟩, hi, ho⟩ := h
  have hk : ((Srv.rejectNew s k).cli k).inst = none ∧ ((Srv.rejectNew s k).cli k).table = [] := by
    simp [Srv.rejectNew, turnedAway]
  have hne : ∀ j, j ≠ k → (Srv.rejectNew s k).cli j = s.cli j :=
    fun j hj => by simp [Srv.rejectNew, set_cli_ne _ _ _ _ hj]
  refine ⟨⟨?_, ?_⟩, ?_, ?_⟩
  · intro j a hj
    by_cases hjk : j = k
    · subst hjk; rw [hk.1] at hj; cases hj
    · rw [hne j hjk] at hj; exact b1 j a hj
  · intro j o hj
    by_cases hjk : j = k
    · subst hjk; rw [hk.2] at hj; cases hj
    · rw [hne j hjk] at hj; exact b2 j o hj
  · intro i j a h1 h2
    by_cases hik : i = k
    · subst hik; rw [hk.1] at h1; cases h1
    · by_cases hjk : j = k
      · subst hjk; rw [hk.1] at h2; cases h2
      · rw [hne i hik] at h1; rw [hne j hjk] at h2; exact hi i j a h1 h2
  · intro i j o h1 h2
    by_cases hik : i = k
    · subst hik; rw [hk.2] at h1; cases h1
    · by_cases hjk : j = k
      · subst hjk; rw [hk.2] at h2; cases h2
      · rw [hne i hik] at h1; rw [hne j hjk] at h2; exact ho i j o h1 h2

theorem Iso.joinedReuse {s : St} (h : Iso s) (k j : Nat) (hkj : k ≠ j) : Iso (Srv.joinedReuse s k j) := by
  obtain ⟨⟨b1, b2⟩, hi, ho⟩ := h
  have hk : ((Srv.joinedReuse s k j).cli k).inst = none ∧ ((Srv.joinedReuse s k j).cli k).table = [] := by
    simp [Srv.joinedReuse]
  have hne : ∀ i, i ≠ k → ((Srv.joinedReuse s k j).cli i).inst = (s.cli i).inst ∧
      ((Srv.joinedReuse s k j).cli i).table = (s.cli i).table := by
    intro i hi'
    by_cases hij : i = j
    · subst hij; simp [Srv.joinedReuse, set_cli_ne _ _ _ _ hi']
    · simp [Srv.joinedReuse, set_cli_ne _ _ _ _ hi', set_cli_ne _ _ _ _ hij]
  refine ⟨⟨?_, ?_⟩, ?_, ?_⟩
  · intro i a hi'
    by_cases hik : i = k
    · subst hik; rw [hk.1] at hi'; cases hi'
    · rw [(hne i hik).1] at hi'; exact b1 i a hi'
  · intro i o hi'
    by_cases hik : i = k
    · subst hik; rw [hk.2] at hi'; cases hi'
    · rw [(hne i hik).2] at hi'; exact b2 i o hi'
  · intro i i' a h1 h2
    by_cases hik : i = k
    · subst hik; rw [hk.1] at h1; cases h1
    · by_cases hjk : i' = k
      · subst hjk; rw [hk.1] at h2; cases h2
      · rw [(hne i hik).1] at h1; rw [(hne i' hjk).1] at h2; exact hi i i' a h1 h2
  · intro i i' o h1 h2
    by_cases hik : i = k
    · subst hik; rw [hk.2] at h1; cases h1
    · by_cases hjk : i' = k
      · subst hjk; rw [hk.2] at h2; cases h2
      · rw [(hne i hik).2] at h1; rw [(hne i' hjk).2] at h2; exact ho i i' o h1 h2

/-- **isolation is an invariant of every action**, the server's own close included -/
theorem Iso.close {s t : St} {o : Obs} (h : Iso s) (hs : step s .serverClose = .ok (t, o)) : Iso t := by
  simp only [Srv.step] at hs
  split at hs
  · cases hp : poolClose s with
    | none => simp [hp] at hs
    | some u =>
      simp [hp] at hs; obtain ⟨rfl, _⟩ := hs
      exact h.eff (poolClose_effC s u hp)
  · simp at hs; obtain ⟨rfl, _⟩ := hs
    exact h.eff (baseClose_effC s)

theorem Iso.step {s t : St} {o : Obs} (h : Iso s) (op : Op) (hs : step s op = .ok (t, o)) : Iso t := by
  cases op with
  | serverClose => exact h.close hs
  | acceptFault =>
    rcases (step_acceptFault hs).2 with ⟨_, rfl, _⟩ | ⟨_, hs'⟩
    · exact h
    · exact h.close hs'
  | connectNoSpawn k =>
    rcases step_connectNoSpawn hs with ⟨rfl, _⟩ | ⟨rfl, _⟩
    · exact h
    · exact h.rejectNew k
  | connect k cred =>
    rcases step_connect hs with ⟨rfl, _, _⟩ | ⟨rfl, _, _, _, _⟩
    · exact h
    · exact (h.joined k cred).eff (acceptAll_eff _ _).toC
  | call k r => exact h.eff (step_eff _ (by simp) (by simp) (by simp) (by simp) (by simp) hs).toC
  | raw k l => exact h.eff (step_eff _ (by simp) (by simp) (by simp) (by simp) (by simp) hs).toC
  | gracefulClose k => exact h.eff (step_eff _ (by simp) (by simp) (by simp) (by simp) (by simp) hs).toC
  | abruptClose k => exact h.eff (step_eff _ (by simp) (by simp) (by simp) (by simp) (by simp) hs).toC
  | creds k c => exact h.eff (step_eff _ (by simp) (by simp) (by simp) (by simp) (by simp) hs).toC
  | releaseHook k => exact h.eff (step_eff _ (by simp) (by simp) (by simp) (by simp) (by simp) hs).toC
  | connectReuse k j =>
    obtain ⟨rfl, _, _, hkj, _, _⟩ := step_connectReuse hs
    exact (h.joinedReuse k j hkj).eff (acceptAll_eff _ _).toC

theorem Iso.run {s : St} (h : Iso s) (ops : List Op) : Iso (Srv.run s ops) := by
  induction ops generalizing s with
  | nil => exact h
  | cons op ops ih =>
    unfold Srv.run
    cases hs : Srv.step s op with
    | error e => exact ih h
    | ok r => obtain ⟨s', o⟩ := r; exact ih (h.step op hs)


/-! ### the accept loop survives -/

theorem Up.eff {s t : St} {T : Nat → Prop} (h : Up s) (hk : s.cfg.kind ≠ .oneshot) (e : Eff s t T) : Up t := by
  obtain ⟨h1, h2, h3, h4, h5⟩ := h
  obtain ⟨f1, f2, f3, f4, f5⟩ := e.flags hk h1
  exact ⟨f4.trans h1, f1.trans h2, f2.trans h3, f3.trans h4, by rw [f5, h5, e.cfg]⟩

theorem NoSilent.eff {s t : St} {T : Nat → Prop} (h : NoSilent s) (e : Eff s t T) : NoSilent t :=
  fun j => by
    rcases (e.cli j).cred with h1 | h1
    · rw [h1]; exact h j
    · exact absurd h1 (h j)

theorem NoBacklog.eff {s t : St} {T : Nat → Prop} (h : NoBacklog s) (e : Eff s t T) : NoBacklog t := by
  intro j hj
  rcases (e.cli j).phase with h1 | h1
  · exact h j (h1 ▸ hj)
  · rw [hj] at h1; simp [Live] at h1

/-- accepting makes the accepted connection leave the listen queue -/
theorem acceptOne_not_backlog (s : St) (k : Nat) : ((acceptOne s k).cli k).phase ≠ .backlog := by
  have key : ∀ (u v : St) (T : Nat → Prop), Eff u v T → (u.cli k).phase = .idle → (v.cli k).phase ≠ .backlog := by
    intro u v T e hu hv
    rcases (e.cli k).phase with h1 | h1
    · rw [hv, hu] at h1; cases h1
    · rw [hv] at h1; simp [Live] at h1
  unfold acceptOne
  split
  · exact key _ _ _ (authServe_eff _ k) (by simp)
  · exact key _ _ _ (authServe_eff _ k) (by simp)
  · exact key _ _ _ (authServe_eff _ k) (by simp)
  · rename_i hk
    exact key _ _ _ (poolAccept_eff _ k hk) (by simp)

/-- what the invariants need of the state in which a new connection has just joined the listen queue -/
theorem joined_facts (s : St) (k : Nat) (cred : Cred) :
    (joined s k cred).cfg = s.cfg ∧ (joined s k cred).closedFlag = s.closedFlag ∧
    (joined s k cred).listening = s.listening ∧ (joined s k cred).active = s.active ∧
    (joined s k cred).acceptAlive = s.acceptAlive ∧ (joined s k cred).poolUp = s.poolUp ∧
    (joined s k cred).acceptBusy = s.acceptBusy ∧ (joined s k cred).queue = s.queue ∧
    (joined s k cred).blocked = s.blocked ∧
    ((joined s k cred).cli k).phase = .backlog ∧ ((joined s k cred).cli k).cred = cred ∧
    ∀ j, j ≠ k → (joined s k cred).cli j = s.cli j := by
  refine ⟨rfl, rfl, rfl, rfl, rfl, rfl, rfl, rfl, rfl, by simp [joined], by simp [joined], ?_⟩
  intro j hj; simp [joined, set_cli_ne _ _ _ _ hj]

/-- the accept loop is free and nobody waits: the invariant behind `accept_survives` -/
structure Accepting (s : St) : Prop where
  up : Up s
  free : s.acceptBusy = none
  nobacklog : NoBacklog s

theorem Accepting.canAccept {s : St} (h : Accepting s) : canAccept s = true := by
  obtain ⟨⟨_, h2, h3, h4, _⟩, h5, _⟩ := h
  simp [Srv.canAccept, h2, h3, h4, h5]

/-- `busy` clause of `Eff`, packaged: which servers cannot have their accept thread occupied by a client -/
def Unstallable (s : St) : Prop :=
  s.cfg.kind = .threaded ∨ s.cfg.kind = .forking ∨ (s.cfg.kind = .pool ∧ NoSilent s)

theorem Unstallable.kind {s : St} (h : Unstallable s) : s.cfg.kind ≠ .oneshot := by
  rcases h with h | h | ⟨h, _⟩ <;> simp [h]

theorem Unstallable.eff {s t : St} {T : Nat → Prop} (h : Unstallable s) (e : Eff s t T) : Unstallable t := by
  rcases h with h | h | ⟨h, h'⟩
  · exact Or.inl (by rw [e.cfg]; exact h)
  · exact Or.inr (Or.inl (by rw [e.cfg]; exact h))
  · exact Or.inr (Or.inr ⟨by rw [e.cfg]; exact h, h'.eff e⟩)

theorem Accepting.eff {s t : St} {T : Nat → Prop} (h : Accepting s) (hu : Unstallable s) (e : Eff s t T) :
    Accepting t := by
  refine ⟨h.up.eff hu.kind e, ?_, h.nobacklog.eff e⟩
  refine e.busy ?_ h.up.1 h.free hu.kind
  rcases hu with h1 | h1 | ⟨_, h1⟩
  · exact Or.inl h1
  · exact Or.inr (Or.inl h1)
  · exact Or.inr (Or.inr h1)

/-- with the accept loop free, a new connection is taken from the listener at once -/
theorem connect_accepted {s : St} (h : Accepting s) (k : Nat) (cred : Cred) :
    acceptAll (s.ids ++ [k]) (joined s k cred) = acceptOne (joined s k cred) k := by
  obtain ⟨f1, f2, f3, f4, f5, f6, f7, f8, f9, f10, f11, f12⟩ := joined_facts s k cred
  have hca : canAccept (joined s k cred) = true := by
    have := h.canAccept
    simp only [Srv.canAccept] at this ⊢
    rw [f3, f4, f5, f7]; exact this
  refine acceptAll_single _ _ k (by simp) hca f10 ?_ ?_
  · intro j hj; rw [f12 j hj]; exact h.nobacklog j
  · intro _ j
    by_cases hj : j = k
    · subst hj; exact acceptOne_not_backlog _ _
    · intro hb
      rcases ((acceptOne_eff (joined s k cred) k).cli j).phase with h1 | h1
      · rw [hb, f12 j hj] at h1; exact h.nobacklog j h1.symm
      · rw [hb] at h1; simp [Live] at h1

theorem joinedReuse_facts (s : St) (k j : Nat) (hkj : k ≠ j) :
    (joinedReuse s k j).cfg = s.cfg ∧ (joinedReuse s k j).closedFlag = s.closedFlag ∧
    (joinedReuse s k j).listening = s.listening ∧ (joinedReuse s k j).active = s.active ∧
    (joinedReuse s k j).acceptAlive = s.acceptAlive ∧ (joinedReuse s k j).poolUp = s.poolUp ∧
    (joinedReuse s k j).acceptBusy = s.acceptBusy ∧ (joinedReuse s k j).queue = s.queue ∧
    (joinedReuse s k j).blocked = s.blocked ∧
    ((joinedReuse s k j).cli k).phase = .backlog ∧ ((joinedReuse s k j).cli k).cred = .good ∧
    (∀ i, i ≠ k → ((joinedReuse s k j).cli i).phase = (s.cli i).phase ∧ ((joinedReuse s k j).cli i).cred = (s.cli i).cred) ∧
    (∀ i, i ≠ k → i ≠ j → (joinedReuse s k j).cli i = s.cli i) := by
  refine ⟨rfl, rfl, rfl, rfl, rfl, rfl, rfl, rfl, rfl, by simp [joinedReuse], by simp [joinedReuse], ?_, ?_⟩
  · intro i hi
    by_cases hij : i = j
    · subst hij; simp [joinedReuse, set_cli_ne _ _ _ _ hi]
    · simp [joinedReuse, set_cli_ne _ _ _ _ hi, set_cli_ne _ _ _ _ hij]
  · intro i hi hij; simp [joinedReuse, set_cli_ne _ _ _ _ hi, set_cli_ne _ _ _ _ hij]

/-- ... also when its socket gets a descriptor number that was in use before -/
theorem connectReuse_accepted {s : St} (h : Accepting s) (k j : Nat) (hkj : k ≠ j) :
    acceptAll (s.ids ++ [k]) (joinedReuse s k j) = acceptOne (joinedReuse s k j) k := by
  obtain ⟨f1, f2, f3, f4, f5, f6, f7, f8, f9, f10, f11, f12, f13⟩ := joinedReuse_facts s k j hkj
  have hca : canAccept (joinedReuse s k j) = true := by
    have := h.canAccept
    simp only [Srv.canAccept] at this ⊢
    rw [f3, f4, f5, f7]; exact this
  refine acceptAll_single _ _ k (by simp) hca f10 ?_ ?_
  · intro i hi; rw [(f12 i hi).1]; exact h.nobacklog i
  · intro _ i
    by_cases hi : i = k
    · subst hi; exact acceptOne_not_backlog _ _
    · intro hb
      rcases ((acceptOne_eff (joinedReuse s k j) k).cli i).phase with h1 | h1
      · rw [hb, (f12 i hi).1] at h1; exact h.nobacklog i h1.symm
      · rw [hb] at h1; simp [Live] at h1

/-- **the accept loop survives every client action** -/
theorem Accepting.step {s t : St} {o : Obs} (h : Accepting s) (hu : Unstallable s) (op : Op) (hop : op.c16 = true)
    (hsil : ∀ k, op ≠ .connect k .silent ∨ s.cfg.kind ≠ .pool)
    (hs : Srv.step s op = .ok (t, o)) : Accepting t ∧ Unstallable t := by
  cases op with
  | serverClose => simp [Op.c16] at hop
  | acceptFault => simp [Op.c16] at hop
  | connectNoSpawn k => simp [Op.c16] at hop
  | connect k cred =>
    rcases step_connect hs with ⟨rfl, _, _⟩ | ⟨rfl, _, habs, _, _⟩
    · exact ⟨h, hu⟩
    · obtain ⟨f1, f2, f3, f4, f5, f6, f7, f8, f9, f10, f11, f12⟩ := joined_facts s k cred
      have e := acceptAll_eff (s.ids ++ [k]) (joined s k cred)
      have hu' : Unstallable (joined s k cred) := by
        rcases hu with h1 | h1 | ⟨h1, h2⟩
        · exact Or.inl (by rw [f1]; exact h1)
        · exact Or.inr (Or.inl (by rw [f1]; exact h1))
        · refine Or.inr (Or.inr ⟨by rw [f1]; exact h1, ?_⟩)
          intro j
          by_cases hj : j = k
          · subst hj; rw [f11]
            intro hc; subst hc
            rcases hsil j with h3 | h3
            · exact h3 rfl
            · exact h3 h1
          · rw [f12 j hj]; exact h2 j
      have hup : Up (joined s k cred) := by
        obtain ⟨u1, u2, u3, u4, u5⟩ := h.up
        exact ⟨by rw [f2]; exact u1, by rw [f3]; exact u2, by rw [f4]; exact u3, by rw [f5]; exact u4,
          by rw [f6, f1]; exact u5⟩
      refine ⟨⟨hup.eff hu'.kind e, ?_, ?_⟩, hu'.eff e⟩
      · refine e.busy ?_ hup.1 (by rw [f7]; exact h.free) hu'.kind
        rcases hu' with h1 | h1 | ⟨_, h1⟩
        · exact Or.inl h1
        · exact Or.inr (Or.inl h1)
        · exact Or.inr (Or.inr h1)
      · rw [connect_accepted h k cred]
        intro j
        by_cases hj : j = k
        · subst hj; exact acceptOne_not_backlog _ _
        · intro hb
          rcases ((acceptOne_eff (joined s k cred) k).cli j).phase with h1 | h1
          · rw [hb, f12 j hj] at h1; exact h.nobacklog j h1.symm
          · rw [hb] at h1; simp [Live] at h1
  | call k r =>
    have e := step_eff _ (by simp) (by simp) (by simp) (by simp) (by simp) hs
    exact ⟨h.eff hu e, hu.eff e⟩
  | raw k l =>
    have e := step_eff _ (by simp) (by simp) (by simp) (by simp) (by simp) hs
    exact ⟨h.eff hu e, hu.eff e⟩
  | gracefulClose k =>
    have e := step_eff _ (by simp) (by simp) (by simp) (by simp) (by simp) hs
    exact ⟨h.eff hu e, hu.eff e⟩
  | abruptClose k =>
    have e := step_eff _ (by simp) (by simp) (by simp) (by simp) (by simp) hs
    exact ⟨h.eff hu e, hu.eff e⟩
  | creds k c =>
    have e := step_eff _ (by simp) (by simp) (by simp) (by simp) (by simp) hs
    exact ⟨h.eff hu e, hu.eff e⟩
  | releaseHook k =>
    have e := step_eff _ (by simp) (by simp) (by simp) (by simp) (by simp) hs
    exact ⟨h.eff hu e, hu.eff e⟩
  | connectReuse k j =>
    obtain ⟨rfl, _, _, hkj, _, _⟩ := step_connectReuse hs
    obtain ⟨f1, f2, f3, f4, f5, f6, f7, f8, f9, f10, f11, f12, f13⟩ := joinedReuse_facts s k j hkj
    have e := acceptAll_eff (s.ids ++ [k]) (joinedReuse s k j)
    have hu' : Unstallable (joinedReuse s k j) := by
      rcases hu with h1 | h1 | ⟨h1, h2⟩
      · exact Or.inl (by rw [f1]; exact h1)
      · exact Or.inr (Or.inl (by rw [f1]; exact h1))
      · refine Or.inr (Or.inr ⟨by rw [f1]; exact h1, ?_⟩)
        intro i
        by_cases hi : i = k
        · subst hi; rw [f11]; simp
        · rw [(f12 i hi).2]; exact h2 i
    have hup : Up (joinedReuse s k j) := by
      obtain ⟨u1, u2, u3, u4, u5⟩ := h.up
      exact ⟨by rw [f2]; exact u1, by rw [f3]; exact u2, by rw [f4]; exact u3, by rw [f5]; exact u4,
        by rw [f6, f1]; exact u5⟩
    refine ⟨⟨hup.eff hu'.kind e, ?_, ?_⟩, hu'.eff e⟩
    · refine e.busy ?_ hup.1 (by rw [f7]; exact h.free) hu'.kind
      rcases hu' with h1 | h1 | ⟨_, h1⟩
      · exact Or.inl h1
      · exact Or.inr (Or.inl h1)
      · exact Or.inr (Or.inr h1)
    · rw [connectReuse_accepted h k j hkj]
      intro i
      by_cases hi : i = k
      · subst hi; exact acceptOne_not_backlog _ _
      · intro hb
        rcases ((acceptOne_eff (joinedReuse s k j) k).cli i).phase with h1 | h1
        · rw [hb, (f12 i hi).1] at h1; exact h.nobacklog i h1.symm
        · rw [hb] at h1; simp [Live] at h1


/-! ### a well-behaved client is not affected -/

/-- connected, served, nothing pending, nobody has hung up -/
def Ready (c : Cli) : Prop :=
  c.phase = .idle ∧ c.inbox = [] ∧ c.shut = false ∧ c.clientOpen = true ∧ c.partSent = false ∧ c.cred ≠ .silent ∧
  c.connOpen = true

/-- the pool's queue is used by the pool only -/
def QueueIdle (s : St) : Prop := s.cfg.kind ≠ .pool → s.queue = []

theorem QueueIdle.eff {s t : St} {T : Nat → Prop} (h : QueueIdle s) (e : Eff s t T) (hT : ∀ j, T j → j ∉ t.queue) :
    QueueIdle t := by
  intro hk
  have hs := h (by rw [← e.cfg]; exact hk)
  cases hq : t.queue with
  | nil => rfl
  | cons a l =>
    have ha : a ∈ t.queue := by simp [hq]
    rcases e.queue a ha with h1 | h1
    · simp [hs] at h1
    · exact absurd ha (hT a h1)

/-- what `step_eff` says about one client that is not the acting one -/
theorem step_frame {s t : St} {o : Obs} (op : Op) (hop : op.c16 = true) (hnc : ∀ k c, op ≠ .connect k c)
    (hs : step s op = .ok (t, o)) (g : Nat) (hg : op.client ≠ some g) (hb : (s.cli g).phase ≠ .backlog)
    (hone : s.cfg.kind ≠ .oneshot) (hsp : s.cfg.spare = true ∨ s.cfg.kind ≠ .pool ∨ ∀ k, op ≠ .releaseHook k) (hq : g ∉ s.queue)
    (hnx : ∀ k j, op ≠ .connectReuse k j) :
    Same (s.cli g) (t.cli g) ∧ (s.cfg.kind ≠ .pool → t.cli g = s.cli g) := by
  have hns : op ≠ .serverClose := by intro h; subst h; simp [Op.c16] at hop
  have hnf : op ≠ .acceptFault := by intro h; subst h; simp [Op.c16] at hop
  have hnsp : ∀ k, op ≠ .connectNoSpawn k := by intro k h; subst h; simp [Op.c16] at hop
  have e := step_eff op hns hnc hnx hnf hnsp hs
  have hT : ¬ (some g = op.client ∨ (s.cli g).phase = .backlog ∨ s.cfg.kind = .oneshot ∨
      ((∃ k, op = .releaseHook k) ∧ s.cfg.spare = false ∧ s.cfg.kind = .pool)) := by
    intro h
    rcases h with h | h | h | ⟨⟨k, hk⟩, h, hp⟩
    · exact hg h.symm
    · exact hb h
    · exact hone h
    · rcases hsp with h1 | h1 | h1
      · rw [h1] at h; cases h
      · exact h1 hp
      · exact h1 k hk
  exact ⟨e.frame g hT hq, fun hp => e.exact hp g hT hq⟩

/-- **containment** (threaded and forking servers): whatever a client does, the record of every *other* connected
client stays exactly as it was -/
theorem others_untouched {s t : St} {o : Obs} (hk : s.cfg.kind = .threaded ∨ s.cfg.kind = .forking) (hq : s.queue = [])
    (op : Op) (hop : op.c16 = true) (g : Nat) (hg : op.client ≠ some g) (hb : (s.cli g).phase ≠ .backlog)
    (hj : ∀ k j, op = .connectReuse k j → g ≠ j)
    (hs : step s op = .ok (t, o)) : t.cli g = s.cli g := by
  have hone : s.cfg.kind ≠ .oneshot := by rcases hk with h | h <;> simp [h]
  have hpool : s.cfg.kind ≠ .pool := by rcases hk with h | h <;> simp [h]
  by_cases hx : ∃ k j, op = .connectReuse k j
  · obtain ⟨k, j, rfl⟩ := hx
    have hgk : g ≠ k := fun h => hg (by simp [Op.client, h])
    have hgj : g ≠ j := hj k j rfl
    obtain ⟨rfl, _, _, hkj, _, _⟩ := step_connectReuse hs
    have hJ : (joinedReuse s k j).cli g = s.cli g := by
      simp [joinedReuse, set_cli_ne _ _ _ _ hgk, set_cli_ne _ _ _ _ hgj]
    have e := acceptAll_eff (s.ids ++ [k]) (joinedReuse s k j)
    rw [e.exact (by simpa [joinedReuse] using hpool) g (by
      intro h; rcases h with h | h
      · rw [hJ] at h; exact hb h
      · exact hone h) (by simpa [joinedReuse] using (by rw [hq]; simp : g ∉ s.queue)), hJ]
  by_cases hc : ∃ k c, op = .connect k c
  · obtain ⟨k, cred, rfl⟩ := hc
    have hgk : g ≠ k := fun h => hg (by simp [Op.client, h])
    rcases step_connect hs with ⟨rfl, _, _⟩ | ⟨rfl, _, _, _, _⟩
    · rfl
    · obtain ⟨f1, f2, f3, f4, f5, f6, f7, f8, f9, f10, f11, f12⟩ := joined_facts s k cred
      have e := acceptAll_eff (s.ids ++ [k]) (joined s k cred)
      rw [e.exact (by rw [f1]; exact hpool) g (by
        intro h; rcases h with h | h
        · rw [f12 g hgk] at h; exact hb h
        · rw [f1] at h; exact hone h) (by rw [f8, hq]; simp), f12 g hgk]
  · exact (step_frame op hop (fun k c h => hc ⟨k, c, h⟩) hs g hg hb hone (Or.inr (Or.inl hpool)) (by rw [hq]; simp)
      (fun k j h => hx ⟨k, j, h⟩)).2 hpool

/-- the same for the pool - whose end-of-stream path removes only the connection it was serving
(`cfg.spare`, the repaired code) -, up to membership of `Server.clients`, for a client that is not waiting in the queue -/
theorem others_untouched_pool {s t : St} {o : Obs} (hk : s.cfg.kind = .pool) (hspare : s.cfg.spare = true)
    (op : Op) (hop : op.c16 = true) (g : Nat) (hg : op.client ≠ some g) (hb : (s.cli g).phase ≠ .backlog)
    (hq : g ∉ s.queue) (hj : ∀ k j, op = .connectReuse k j → g ≠ j) (hs : step s op = .ok (t, o)) :
    Same (s.cli g) (t.cli g) := by
  have hone : s.cfg.kind ≠ .oneshot := by simp [hk]
  by_cases hx : ∃ k j, op = .connectReuse k j
  · obtain ⟨k, j, rfl⟩ := hx
    have hgk : g ≠ k := fun h => hg (by simp [Op.client, h])
    have hgj : g ≠ j := hj k j rfl
    obtain ⟨rfl, _, _, hkj, _, _⟩ := step_connectReuse hs
    have hJ : (joinedReuse s k j).cli g = s.cli g := by
      simp [joinedReuse, set_cli_ne _ _ _ _ hgk, set_cli_ne _ _ _ _ hgj]
    have e := acceptAll_eff (s.ids ++ [k]) (joinedReuse s k j)
    have := e.frame g (by
      intro h; rcases h with h | h
      · rw [hJ] at h; exact hb h
      · exact hone h) (by simpa [joinedReuse] using hq)
    rw [hJ] at this; exact this
  by_cases hc : ∃ k c, op = .connect k c
  · obtain ⟨k, cred, rfl⟩ := hc
    have hgk : g ≠ k := fun h => hg (by simp [Op.client, h])
    rcases step_connect hs with ⟨rfl, _, _⟩ | ⟨rfl, _, _, _, _⟩
    · exact Same.refl _
    · obtain ⟨f1, f2, f3, f4, f5, f6, f7, f8, f9, f10, f11, f12⟩ := joined_facts s k cred
      have e := acceptAll_eff (s.ids ++ [k]) (joined s k cred)
      have := e.frame g (by
        intro h; rcases h with h | h
        · rw [f12 g hgk] at h; exact hb h
        · rw [f1] at h; exact hone h) (by rw [f8]; exact hq)
      rw [f12 g hgk] at this; exact this
  · exact (step_frame op hop (fun k c h => hc ⟨k, c, h⟩) hs g hg hb hone (Or.inl hspare) hq (fun k j h => hx ⟨k, j, h⟩)).1

/-- a newcomer whose socket is given the descriptor number of a closed connection (`Op.connectReuse k j`): nobody but
the newcomer and the previous holder of that number `j` (whose stale table entry is replaced) is touched -/
theorem newcomer_on_reused_number {s t : St} {o : Obs} (k j g : Nat) (hs : step s (.connectReuse k j) = .ok (t, o))
    (hgk : g ≠ k) (hgj : g ≠ j) (hb : (s.cli g).phase ≠ .backlog) (hone : s.cfg.kind ≠ .oneshot) (hq : g ∉ s.queue) :
    Same (s.cli g) (t.cli g) := by
  obtain ⟨rfl, _, _, hkj, _, _⟩ := step_connectReuse hs
  have hJ : (joinedReuse s k j).cli g = s.cli g := by
    simp [joinedReuse, set_cli_ne _ _ _ _ hgk, set_cli_ne _ _ _ _ hgj]
  have e := acceptAll_eff (s.ids ++ [k]) (joinedReuse s k j)
  have := e.frame g (by
    intro h; rcases h with h | h
    · rw [hJ] at h; exact hb h
    · exact hone h) (by simpa [joinedReuse] using hq)
  rw [hJ] at this; exact this

/-! ### the pool's queue -/

@[simp] theorem afterEnd_queue (s : St) (k : Nat) : (afterEnd s k).queue = s.queue := by
  unfold afterEnd; split <;> simp
@[simp] theorem dedRelease_queue (s : St) (k : Nat) : (dedRelease s k).queue = s.queue := by
  unfold dedRelease; simp
@[simp] theorem applyConsumed_queue (s : St) (k : Nat) (r : Cli × Nat) : (applyConsumed s k r).queue = s.queue := by
  unfold applyConsumed; split <;> simp
@[simp] theorem runDedicated_queue (s : St) (k : Nat) : (runDedicated s k).queue = s.queue := by
  unfold runDedicated; simp
@[simp] theorem built_queue (s : St) (k : Nat) : (built s k).queue = s.queue := rfl
@[simp] theorem serveClient_queue (s : St) (k : Nat) : (serveClient s k).queue = s.queue := by
  unfold serveClient; simp
@[simp] theorem authServe_queue (s : St) (k : Nat) : (authServe s k).queue = s.queue := by
  unfold authServe; split
  · simp
  · split
    · split <;> (try split) <;> simp
    · simp

theorem acceptOne_queue (s : St) (k : Nat) (hk : s.cfg.kind ≠ .pool) : (acceptOne s k).queue = s.queue := by
  unfold acceptOne; split <;> simp_all

theorem acceptAll_queue (l : List Nat) (s : St) (hk : s.cfg.kind ≠ .pool) : (acceptAll l s).queue = s.queue := by
  induction l generalizing s with
  | nil => rfl
  | cons a l ih =>
    unfold acceptAll; split
    · rw [ih _ (by simpa using hk), acceptOne_queue s a hk]
    · exact ih s hk

theorem wake_queue (s : St) (k : Nat) (hk : s.cfg.kind ≠ .pool) : (wake s k).queue = s.queue := by
  unfold wake; split <;> (try split) <;> (try split) <;> (try split) <;> simp_all

theorem send_queue (s : St) (k : Nat) (l : List Item) (hk : s.cfg.kind ≠ .pool) : (send s k l).queue = s.queue := by
  unfold send; split
  · rfl
  · rw [wake_queue _ k (by simpa using hk)]; rfl

theorem supply_queue (s : St) (k : Nat) (c : Cred) (hk : s.cfg.kind ≠ .pool) : (supply s k c).queue = s.queue := by
  unfold supply; split
  · rfl
  · split
    · simp [hk]; split <;> simp
    · rfl

/-- a threaded, forking or one-shot server never uses the queue -/
theorem step_queue {s t : St} {o : Obs} (op : Op) (hk : s.cfg.kind ≠ .pool) (h : step s op = .ok (t, o)) :
    t.queue = s.queue := by
  cases op with
  | serverClose =>
    simp only [step, hk, if_false, Except.ok.injEq, Prod.mk.injEq] at h
    rw [← h.1]; simp
  | acceptFault =>
    rcases (step_acceptFault h).2 with ⟨_, rfl, _⟩ | ⟨_, h'⟩
    · rfl
    · simp only [step, hk, if_false, Except.ok.injEq, Prod.mk.injEq] at h'
      rw [← h'.1]; simp
  | connectNoSpawn k =>
    rcases step_connectNoSpawn h with ⟨rfl, _⟩ | ⟨rfl, _⟩ <;> rfl
  | connect k cred =>
    rcases step_connect h with ⟨rfl, _, _⟩ | ⟨rfl, _, _, _, _⟩
    · rfl
    · rw [acceptAll_queue _ _ (by simpa [joined] using hk)]; rfl
  | call k r =>
    simp only [step] at h; split at h
    · cases h
    · simp only [Except.ok.injEq, Prod.mk.injEq] at h; rw [← h.1, send_queue _ _ _ (by simpa using hk)]; rfl
  | raw k l =>
    simp only [step] at h; split at h
    · cases h
    · simp only [Except.ok.injEq, Prod.mk.injEq] at h; rw [← h.1, send_queue _ _ _ (by simpa using hk)]; rfl
  | gracefulClose k =>
    simp only [step] at h; split at h
    · cases h
    · simp only [Except.ok.injEq, Prod.mk.injEq] at h; rw [← h.1, send_queue _ _ _ (by simpa using hk)]; rfl
  | abruptClose k =>
    simp only [step] at h; split at h
    · cases h
    · simp only [Except.ok.injEq, Prod.mk.injEq] at h; rw [← h.1, send_queue _ _ _ (by simpa using hk)]; rfl
  | creds k c =>
    simp only [step] at h; split at h
    · cases h
    · simp only [Except.ok.injEq, Prod.mk.injEq] at h; rw [← h.1, supply_queue _ _ _ hk]
  | connectReuse k j =>
    obtain ⟨rfl, _, _, _, _, _⟩ := step_connectReuse h
    rw [acceptAll_queue _ _ (by simpa [joinedReuse] using hk)]; rfl
  | releaseHook k =>
    simp only [step] at h; split at h
    · cases h
    · simp only [hk, if_false, Except.ok.injEq, Prod.mk.injEq] at h; rw [← h.1]; exact dedRelease_queue s k

/-- pool: a descriptor waits in the queue only while every worker is blocked -/
def QInv (s : St) : Prop := s.queue ≠ [] → freeWorkers s = 0

theorem QInv.congr {s t : St} (h : QInv s) (h1 : t.queue = s.queue) (h2 : t.blocked = s.blocked) (h3 : t.cfg = s.cfg) :
    QInv t := by
  intro hq; rw [h1] at hq
  have := h hq
  simpa [freeWorkers, h2, h3] using this

theorem drain_QInv (l : List Nat) (s : St) : QInv (drain l s) := by
  induction l generalizing s with
  | nil => intro h; simp [drain] at h
  | cons a l ih =>
    unfold drain
    split
    · rename_i hf; intro _; simpa [freeWorkers] using hf
    · exact ih _

theorem poolWake_QInv (s : St) (k : Nat) (h : QInv s) : QInv (poolWake s k) := by
  unfold poolWake; split
  · exact h
  · exact drain_QInv _ _

theorem poolUnblock_QInv (s : St) (k : Nat) (h : QInv s) : QInv (poolUnblock s k) := by
  unfold poolUnblock; split
  · exact h.congr rfl rfl rfl
  · exact drain_QInv _ _

theorem poolBuild_QInv (s : St) (k : Nat) (h : QInv s) : QInv (poolBuild s k) := by
  unfold poolBuild
  exact poolWake_QInv _ k (h.congr rfl rfl rfl)

theorem poolAccept_QInv (s : St) (k : Nat) (h : QInv s) : QInv (poolAccept s k) := by
  unfold poolAccept
  split
  · exact h.congr rfl rfl rfl
  split
  · split
    · exact poolBuild_QInv s k h
    · exact h.congr rfl rfl rfl
    · split
      · exact h.congr rfl rfl rfl
      · exact h.congr rfl rfl rfl
    · exact h.congr rfl rfl rfl
  · exact poolBuild_QInv s k h

theorem acceptOne_QInv (s : St) (k : Nat) (hk : s.cfg.kind = .pool) (h : QInv s) : QInv (acceptOne s k) := by
  unfold acceptOne
  split <;> simp_all
  exact poolAccept_QInv _ k (h.congr rfl rfl rfl)

theorem acceptAll_QInv (l : List Nat) (s : St) (hk : s.cfg.kind = .pool) (h : QInv s) : QInv (acceptAll l s) := by
  induction l generalizing s with
  | nil => exact h
  | cons a l ih =>
    unfold acceptAll; split
    · exact ih _ (by simpa using hk) (acceptOne_QInv s a hk h)
    · exact ih s hk h

theorem wake_QInv (s : St) (k : Nat) (hk : s.cfg.kind = .pool) (h : QInv s) : QInv (wake s k) := by
  unfold wake
  split
  · simp only [hk, if_true]; exact poolWake_QInv s k h
  · split
    · exact poolUnblock_QInv s k h
    · exact h
  · split
    · unfold poolAuthGone
      exact acceptAll_QInv _ _ (by simpa using hk) (h.congr rfl rfl rfl)
    · exact h
  · exact h

theorem send_QInv (s : St) (k : Nat) (l : List Item) (hk : s.cfg.kind = .pool) (h : QInv s) : QInv (send s k l) := by
  unfold send; split
  · exact h
  · exact wake_QInv _ k (by simpa using hk) (h.congr rfl rfl rfl)

theorem QInv.step {s t : St} {o : Obs} (h : QInv s) (hk : s.cfg.kind = .pool) (op : Op) (hop : op.c16 = true)
    (hs : Srv.step s op = .ok (t, o)) : QInv t := by
  cases op with
  | serverClose => simp [Op.c16] at hop
  | acceptFault => simp [Op.c16] at hop
  | connectNoSpawn k => simp [Op.c16] at hop
  | connect k cred =>
    rcases step_connect hs with ⟨rfl, _, _⟩ | ⟨rfl, _, _, _, _⟩
    · exact h
    · exact acceptAll_QInv _ _ (by simpa [joined] using hk) (h.congr rfl rfl rfl)
  | call k r =>
    simp only [Srv.step] at hs; split at hs
    · cases hs
    · simp only [Except.ok.injEq, Prod.mk.injEq] at hs; rw [← hs.1]
      exact send_QInv _ _ _ (by simpa using hk) (h.congr rfl rfl rfl)
  | raw k l =>
    simp only [Srv.step] at hs; split at hs
    · cases hs
    · simp only [Except.ok.injEq, Prod.mk.injEq] at hs; rw [← hs.1]
      exact send_QInv _ _ _ (by simpa using hk) (h.congr rfl rfl rfl)
  | gracefulClose k =>
    simp only [Srv.step] at hs; split at hs
    · cases hs
    · simp only [Except.ok.injEq, Prod.mk.injEq] at hs; rw [← hs.1]
      exact send_QInv _ _ _ (by simpa using hk) (h.congr rfl rfl rfl)
  | abruptClose k =>
    simp only [Srv.step] at hs; split at hs
    · cases hs
    · simp only [Except.ok.injEq, Prod.mk.injEq] at hs; rw [← hs.1]
      exact send_QInv _ _ _ (by simpa using hk) (h.congr rfl rfl rfl)
  | creds k c =>
    simp only [Srv.step] at hs; split at hs
    · cases hs
    · simp only [Except.ok.injEq, Prod.mk.injEq] at hs; rw [← hs.1]
      unfold supply
      split
      · exact h.congr rfl rfl rfl
      · split
        · simp only [hk, if_true]
          split
          · unfold poolAuthDone
            exact acceptAll_QInv _ _ (by simpa using hk)
              ((poolBuild_QInv _ k (h.congr (t := s.set k { s.cli k with cred := c }) rfl rfl rfl)).congr rfl rfl rfl)
          · unfold poolAuthGone
            exact acceptAll_QInv _ _ (by simpa using hk) (h.congr rfl rfl rfl)
        · exact h.congr rfl rfl rfl
  | connectReuse k j =>
    obtain ⟨rfl, _, _, _, _, _⟩ := step_connectReuse hs
    exact acceptAll_QInv _ _ (by simpa [joinedReuse] using hk) (h.congr rfl rfl rfl)
  | releaseHook k =>
    simp only [Srv.step] at hs; split at hs
    · cases hs
    · simp only [Except.ok.injEq, Prod.mk.injEq] at hs; rw [← hs.1]
      unfold poolRelease; exact drain_QInv _ _

/-! ### a ready client is answered -/

/-- what the reply to a request is, executed on the client's own connection -/
def expected (c : Cli) (nextObj : Nat) : ReqKind → Reply
  | .ping => .pong
  | .lend => .ref nextObj
  | .probe oid => if c.table.contains oid then .resolved else .keyError
  | .drop _ => .done
  | .arm => .done

/-- the connection's object table after the request -/
def tableAfter (tbl : List Nat) (nextObj : Nat) : ReqKind → List Nat
  | .lend => nextObj :: tbl
  | .drop oid => tbl.filter (· != oid)
  | _ => tbl

theorem Ready.usable {s : St} {g : Nat} (h : Ready (s.cli g)) : usable s g = true := by
  obtain ⟨h1, _, _, h4, h5, h6, _⟩ := h
  simp [Srv.usable, h1, h4, h5, h6]

/-- threaded / forking / one-shot: the client's own thread answers at once -/
theorem call_answered {s : St} (g : Nat) (r : ReqKind) (hk : s.cfg.kind ≠ .pool) (h : Ready (s.cli g)) :
    ∃ t, step s (.call g r) = .ok (t, .reply (expected (s.cli g) s.nextObj r)) ∧ Ready (t.cli g) ∧
      (t.cli g).inst = (s.cli g).inst ∧ (t.cli g).table = tableAfter (s.cli g).table s.nextObj r := by
  have hu := h.usable
  obtain ⟨h1, h2, h3, h4, h5, h6, h7⟩ := h
  have hcli : (send (s.set g { s.cli g with nextSeq := (s.cli g).nextSeq + 1 }) g [.req (s.cli g).nextSeq r]).cli g =
      { (answer { s.cli g with nextSeq := (s.cli g).nextSeq + 1, inbox := [.req (s.cli g).nextSeq r] }
          (s.cli g).nextSeq r s.nextObj).1 with inbox := [], phase := .idle } := by
    cases r <;> simp [send, wake, h1, h2, h3, hk, runDedicated, applyConsumed, consume, answer]
  refine ⟨send (s.set g { s.cli g with nextSeq := (s.cli g).nextSeq + 1 }) g [.req (s.cli g).nextSeq r], ?_, ?_, ?_, ?_⟩
  · simp only [step, hu, Bool.not_true, Bool.false_eq_true, if_false]
    rw [hcli]
    cases r <;> simp [callObs, answer, expected, List.lookup]
  · rw [hcli]; cases r <;> simp [Ready, answer, h3, h4, h5, h6, h7]
  · rw [hcli]; cases r <;> simp [answer]
  · rw [hcli]; cases r <;> simp [answer, tableAfter]


/-- the record of a client whose request the poller has just handed to the queue -/
def queuedReq (c : Cli) (r : ReqKind) : Cli :=
  { c with nextSeq := c.nextSeq + 1, inbox := [.req c.nextSeq r], phase := .queued, polled := false }

/-- pool: a worker is free, so the poller's hand-over is picked up at once -/
theorem call_answered_pool {s : St} (g : Nat) (r : ReqKind) (hk : s.cfg.kind = .pool) (hup : s.poolUp = true)
    (hq : QInv s) (hfree : s.blocked.length < s.cfg.nb) (h : Ready (s.cli g)) :
    ∃ t, step s (.call g r) = .ok (t, .reply (expected (s.cli g) s.nextObj r)) ∧ Ready (t.cli g) ∧
      (t.cli g).inst = (s.cli g).inst ∧ t.blocked = s.blocked ∧ t.queue = [] ∧
      (t.cli g).table = tableAfter (s.cli g).table s.nextObj r := by
  have hu := h.usable
  obtain ⟨h1, h2, h3, h4, h5, h6, h7⟩ := h
  have hfw : freeWorkers s ≠ 0 := by simp [freeWorkers]; omega
  have hqe : s.queue = [] := by
    cases hql : s.queue with
    | nil => rfl
    | cons a l => exact absurd (hq (by simp [hql])) hfw
  have hnb : ¬ (s.cfg.nb - s.blocked.length = 0) := by omega
  have hcli : (send (s.set g { s.cli g with nextSeq := (s.cli g).nextSeq + 1 }) g [.req (s.cli g).nextSeq r]).cli g =
      { (answer (queuedReq (s.cli g) r) (s.cli g).nextSeq r s.nextObj).1 with
        inbox := [], phase := .idle, polled := true } := by
    cases r <;> simp [send, wake, h1, h2, h3, hk, poolWake, hup, hqe, drain, freeWorkers, hnb, poolServeOne, poolPlace,
      poolConsume, answer, queuedReq]
  refine ⟨send (s.set g { s.cli g with nextSeq := (s.cli g).nextSeq + 1 }) g [.req (s.cli g).nextSeq r], ?_, ?_, ?_, ?_, ?_,
    ?_⟩
  rotate_right
  · rw [hcli]; cases r <;> simp [answer, queuedReq, tableAfter]
  · simp only [step, hu, Bool.not_true, Bool.false_eq_true, if_false]
    rw [hcli]
    cases r <;> simp [callObs, answer, expected, List.lookup, queuedReq]
  · rw [hcli]; cases r <;> simp [Ready, answer, h3, h4, h5, h6, h7, queuedReq]
  · rw [hcli]; cases r <;> simp [answer, queuedReq]
  · cases r <;> simp [send, wake, h1, h2, h3, hk, poolWake, hup, hqe, drain, freeWorkers, hnb, poolServeOne, poolPlace,
      poolConsume, answer]
  · cases r <;> simp [send, wake, h1, h2, h3, hk, poolWake, hup, hqe, drain, freeWorkers, hnb, poolServeOne, poolPlace,
      poolConsume, answer]

/-- an object lent to one client does not resolve on another client's connection -/
theorem foreign_id_fails {s : St} (hi : Iso s) (i g oid : Nat) (hne : i ≠ g) (ho : oid ∈ (s.cli i).table) :
    expected (s.cli g) s.nextObj (.probe oid) = .keyError := by
  have : oid ∉ (s.cli g).table := fun h => hne (hi.2.2 i g oid ho h)
  simp [expected, this]

/-- a new well-behaved client of a server whose accept loop is free is served at once, by a service instance of
its own (threaded, forking and pool servers; with or without an authenticator) -/
theorem connect_served {s : St} (h : Accepting s) (hk : s.cfg.kind ≠ .oneshot) (g : Nat)
    (habs : (s.cli g).phase = .absent) :
    ∃ t, step s (.connect g .good) = .ok (t, .ok) ∧ Ready (t.cli g) ∧ (t.cli g).inst = some s.nextInst ∧
      (t.cli g).connHooks = 1 := by
  have hl : s.listening = true := h.up.2.1
  refine ⟨acceptAll (s.ids ++ [g]) (joined s g .good), ?_, ?_, ?_, ?_⟩
  · simp [step, habs, hl, joined]
  all_goals
    rw [connect_accepted h g .good]
    cases hkind : s.cfg.kind <;> cases hau : s.cfg.auth <;>
      simp_all [acceptOne, joined, authServe, serveClient, built, runDedicated, applyConsumed, consume, Ready, poolAccept,
        poolBuild, poolWake, Srv.untrackAll, St.mapCli]


/-- the connection whose descriptor number a newcomer is given is closed: it is not that of a client being served -/
theorem reuse_not_ready {s t : St} {o : Obs} {g : Nat} {op : Op} (h : Ready (s.cli g)) (hs : step s op = .ok (t, o)) :
    ∀ k j, op = .connectReuse k j → g ≠ j := by
  intro k j hop hgj
  subst hop; subst hgj
  obtain ⟨_, _, _, _, hp, _⟩ := step_connectReuse hs
  rw [h.1] at hp
  rcases hp with hp | hp <;> cases hp

/-! ### whole runs -/

/-- the other clients do anything; client `g` itself only calls -/
def OthersAndPings (g : Nat) (ops : List Op) : Prop :=
  ∀ op ∈ ops, op.c16 = true ∧ (op.client = some g → op = .call g .ping)

/-- every call of `g` in `ops` is answered, correctly -/
def pongs (g : Nat) : List Op → List (Option Obs) → Prop
  | [], _ => True
  | op :: ops, o :: os => (op = .call g .ping → o = some (.reply .pong)) ∧ pongs g ops os
  | _ :: _, [] => False

theorem accepting_run {s : St} (h : Accepting s) (hu : Unstallable s) (ops : List Op) (hops : ∀ op ∈ ops, op.c16 = true)
    (hsil : ∀ op ∈ ops, ∀ k, op ≠ .connect k .silent ∨ s.cfg.kind ≠ .pool) : Accepting (Srv.run s ops) := by
  induction ops generalizing s with
  | nil => exact h
  | cons op ops ih =>
    unfold run
    cases hs : step s op with
    | error e => exact ih h hu (fun o ho => hops o (by simp [ho])) (fun o ho => hsil o (by simp [ho]))
    | ok r =>
      obtain ⟨t, o⟩ := r
      obtain ⟨h', hu'⟩ := h.step hu op (hops op (by simp)) (hsil op (by simp)) hs
      refine ih h' hu' (fun o ho => hops o (by simp [ho])) ?_
      intro o ho k; rw [step_cfg op hs]; exact hsil o (by simp [ho]) k

theorem accepting_init (cfg : Cfg) : Accepting (init cfg) := by
  refine ⟨⟨rfl, rfl, rfl, rfl, rfl⟩, rfl, ?_⟩
  intro j; simp [Srv.init]

theorem Ready.same {c d : Cli} (h : Ready c) (hs : Same c d) : Ready d := by
  rcases hs with rfl | rfl
  · exact h
  · exact h

theorem unaffected_run {s : St} (g : Nat) (hk : s.cfg.kind = .threaded ∨ s.cfg.kind = .forking) (hq : s.queue = [])
    (h : Ready (s.cli g)) (ops : List Op) (hops : OthersAndPings g ops) : pongs g ops (runObs s ops) := by
  induction ops generalizing s with
  | nil => trivial
  | cons op ops ih =>
    have hop := hops op (by simp)
    have hrest : OthersAndPings g ops := fun o ho => hops o (by simp [ho])
    have hpool : s.cfg.kind ≠ .pool := by rcases hk with h | h <;> simp [h]
    unfold runObs
    cases hs : step s op with
    | error e =>
      refine ⟨?_, ih hk hq h hrest⟩
      intro hcall; subst hcall
      obtain ⟨t, ht, _⟩ := call_answered g .ping hpool h
      rw [ht] at hs; cases hs
    | ok r =>
      obtain ⟨t, o⟩ := r
      have hk' : t.cfg.kind = .threaded ∨ t.cfg.kind = .forking := by rw [step_cfg op hs]; exact hk
      have hq' : t.queue = [] := by rw [step_queue op hpool hs]; exact hq
      by_cases hc : op.client = some g
      · have := hop.2 hc; subst this
        obtain ⟨t', ht, hr, _⟩ := call_answered g .ping hpool h
        rw [ht] at hs
        simp only [Except.ok.injEq, Prod.mk.injEq] at hs
        obtain ⟨rfl, rfl⟩ := hs
        exact ⟨fun _ => by simp [expected], ih hk' hq' hr hrest⟩
      · have hsame := others_untouched hk hq op hop.1 g hc (by rw [h.1]; simp) (reuse_not_ready h hs) hs
        refine ⟨?_, ih hk' hq' (by rw [hsame]; exact h) hrest⟩
        intro hcall; subst hcall; simp [Op.client] at hc

theorem init_queue (cfg : Cfg) : (init cfg).queue = [] := rfl

theorem run_queue (cfg : Cfg) (hk : cfg.kind ≠ .pool) (ops : List Op) : (run (init cfg) ops).queue = [] := by
  suffices ∀ (l : List Op) (s : St), s.cfg.kind ≠ .pool → s.queue = [] → (run s l).queue = [] from
    this ops (init cfg) hk rfl
  intro l
  induction l with
  | nil => intro s _ h; exact h
  | cons a l ih =>
    intro s hk hq
    unfold run
    cases hs : step s a with
    | error e => exact ih s hk hq
    | ok r =>
      obtain ⟨t, o⟩ := r
      exact ih t (by rw [step_cfg a hs]; exact hk) (by rw [step_queue a hk hs]; exact hq)


theorem Up.step {s t : St} {o : Obs} (h : Up s) (hk : s.cfg.kind ≠ .oneshot) (op : Op) (hop : op.c16 = true)
    (hs : Srv.step s op = .ok (t, o)) : Up t := by
  cases op with
  | serverClose => simp [Op.c16] at hop
  | acceptFault => simp [Op.c16] at hop
  | connectNoSpawn k => simp [Op.c16] at hop
  | connect k cred =>
    rcases step_connect hs with ⟨rfl, _, _⟩ | ⟨rfl, _, _, _, _⟩
    · exact h
    · obtain ⟨f1, f2, f3, f4, f5, f6, f7, f8, f9, f10, f11, f12⟩ := joined_facts s k cred
      obtain ⟨u1, u2, u3, u4, u5⟩ := h
      have hup : Up (joined s k cred) :=
        ⟨by rw [f2]; exact u1, by rw [f3]; exact u2, by rw [f4]; exact u3, by rw [f5]; exact u4, by rw [f6, f1]; exact u5⟩
      exact hup.eff (by rw [f1]; exact hk) (acceptAll_eff _ _)
  | call k r => exact h.eff hk (step_eff _ (by simp) (by simp) (by simp) (by simp) (by simp) hs)
  | raw k l => exact h.eff hk (step_eff _ (by simp) (by simp) (by simp) (by simp) (by simp) hs)
  | gracefulClose k => exact h.eff hk (step_eff _ (by simp) (by simp) (by simp) (by simp) (by simp) hs)
  | abruptClose k => exact h.eff hk (step_eff _ (by simp) (by simp) (by simp) (by simp) (by simp) hs)
  | creds k c => exact h.eff hk (step_eff _ (by simp) (by simp) (by simp) (by simp) (by simp) hs)
  | releaseHook k => exact h.eff hk (step_eff _ (by simp) (by simp) (by simp) (by simp) (by simp) hs)
  | connectReuse k j =>
    obtain ⟨rfl, _, _, hkj, _, _⟩ := step_connectReuse hs
    obtain ⟨u1, u2, u3, u4, u5⟩ := h
    have hup : Up (joinedReuse s k j) := ⟨u1, u2, u3, u4, u5⟩
    exact hup.eff hk (acceptAll_eff _ _)

/-- a worker is free in every state the run passes through -/
def FreeWorkerAlong (s : St) : List Op → Prop
  | [] => s.blocked.length < s.cfg.nb
  | op :: ops =>
    s.blocked.length < s.cfg.nb ∧
    match Srv.step s op with
    | .ok (t, _) => FreeWorkerAlong t ops
    | .error _ => FreeWorkerAlong s ops

/-- the same as a computation, for concrete runs -/
def freeAlongB (s : St) : List Op → Bool
  | [] => decide (s.blocked.length < s.cfg.nb)
  | op :: ops =>
    decide (s.blocked.length < s.cfg.nb) &&
    match Srv.step s op with
    | .ok (t, _) => freeAlongB t ops
    | .error _ => freeAlongB s ops

theorem FreeWorkerAlong.of_bool (ops : List Op) (s : St) (h : freeAlongB s ops = true) : FreeWorkerAlong s ops := by
  induction ops generalizing s with
  | nil => simpa [freeAlongB, FreeWorkerAlong] using h
  | cons op ops ih =>
    simp only [freeAlongB, Bool.and_eq_true, decide_eq_true_eq] at h
    refine ⟨h.1, ?_⟩
    cases hs : Srv.step s op with
    | ok r => obtain ⟨t, o⟩ := r; simp only [hs] at h; exact ih t h.2
    | error e => simp only [hs] at h; exact ih s h.2

theorem unaffected_run_pool {s : St} (g : Nat) (hk : s.cfg.kind = .pool) (hspare : s.cfg.spare = true) (hup : Up s)
    (hq : QInv s)
    (h : Ready (s.cli g)) (ops : List Op) (hfree : FreeWorkerAlong s ops) (hops : OthersAndPings g ops) :
    pongs g ops (runObs s ops) := by
  induction ops generalizing s with
  | nil => trivial
  | cons op ops ih =>
    have hop := hops op (by simp)
    have hrest : OthersAndPings g ops := fun o ho => hops o (by simp [ho])
    have hone : s.cfg.kind ≠ .oneshot := by simp [hk]
    have hpu : s.poolUp = true := by rw [hup.2.2.2.2]; simp [hk]
    obtain ⟨hfw, hfree'⟩ := hfree
    have hqe : s.queue = [] := by
      cases hql : s.queue with
      | nil => rfl
      | cons a l =>
        have := hq (by simp [hql]); simp [freeWorkers] at this; omega
    unfold runObs
    cases hs : Srv.step s op with
    | error e =>
      rw [hs] at hfree'
      refine ⟨?_, ih hk hspare hup hq h hfree' hrest⟩
      intro hcall; subst hcall
      obtain ⟨t, ht, _⟩ := call_answered_pool g .ping hk hpu hq hfw h
      rw [ht] at hs; cases hs
    | ok r =>
      obtain ⟨t, o⟩ := r
      rw [hs] at hfree'
      have hk' : t.cfg.kind = .pool := by rw [step_cfg op hs]; exact hk
      have hup' := hup.step hone op hop.1 hs
      have hq' := hq.step hk op hop.1 hs
      by_cases hc : op.client = some g
      · have := hop.2 hc; subst this
        obtain ⟨t', ht, hr, _⟩ := call_answered_pool g .ping hk hpu hq hfw h
        rw [ht] at hs
        simp only [Except.ok.injEq, Prod.mk.injEq] at hs
        obtain ⟨rfl, rfl⟩ := hs
        exact ⟨fun _ => by simp [expected], ih hk' (by rw [step_cfg _ ht]; exact hspare) hup' hq' hr hfree' hrest⟩
      · have hsame := others_untouched_pool hk hspare op hop.1 g hc (by rw [h.1]; simp) (by rw [hqe]; simp)
          (reuse_not_ready h hs) hs
        refine ⟨?_, ih hk' (by rw [step_cfg op hs]; exact hspare) hup' hq' (h.same hsame) hfree' hrest⟩
        intro hcall; subst hcall; simp [Op.client] at hc

theorem QInv.init (cfg : Cfg) : QInv (init cfg) := by intro h; simp [Srv.init] at h

theorem run_pool_inv (cfg : Cfg) (hk : cfg.kind = .pool) (ops : List Op) (hops : ∀ op ∈ ops, op.c16 = true) :
    Up (run (init cfg) ops) ∧ QInv (run (init cfg) ops) := by
  suffices ∀ (l : List Op) (s : St), s.cfg.kind = .pool → Up s → QInv s → (∀ op ∈ l, op.c16 = true) →
      Up (run s l) ∧ QInv (run s l) from
    this ops (init cfg) hk ⟨rfl, rfl, rfl, rfl, rfl⟩ (QInv.init cfg) hops
  intro l
  induction l with
  | nil => intro s _ h1 h2 _; exact ⟨h1, h2⟩
  | cons a l ih =>
    intro s hk h1 h2 hops
    unfold run
    cases hs : Srv.step s a with
    | error e => exact ih s hk h1 h2 (fun o ho => hops o (by simp [ho]))
    | ok r =>
      obtain ⟨t, o⟩ := r
      exact ih t (by rw [step_cfg a hs]; exact hk) (h1.step (by simp [hk]) a (hops a (by simp)) hs)
        (h2.step hk a (hops a (by simp)) hs) (fun o ho => hops o (by simp [ho]))

/-! ### errors from `accept()` -/

/-- **an error from `accept()` changes nothing** for the code that logs it and goes on: the server, its accept loop and
every client are exactly as they were -/
theorem accept_fault_harmless (s : St) (ht : s.cfg.acceptTough = true) (hc : canAccept s = true) :
    step s .acceptFault = .ok (s, .none) := by
  simp [step, hc, ht]

def Op.isFault : Op → Bool
  | .acceptFault => true
  | _ => false

/-- ... so a run with such errors interleaved anywhere is the run without them: every run-level theorem extends to
alphabets with `acceptFault` -/
theorem run_cons (s : St) (op : Op) (ops : List Op) :
    run s (op :: ops) = match step s op with
      | .ok (s', _) => run s' ops
      | .error _ => run s ops := rfl

theorem run_ignores_accept_faults (s : St) (ht : s.cfg.acceptTough = true) (ops : List Op) :
    run s ops = run s (ops.filter (fun op => !op.isFault)) := by
  induction ops generalizing s with
  | nil => rfl
  | cons op ops ih =>
    by_cases hf : op.isFault = true
    · have hop : op = .acceptFault := by cases op <;> simp [Op.isFault] at hf ⊢
      subst hop
      have hfl : (Op.acceptFault :: ops).filter (fun op => !op.isFault) = ops.filter (fun op => !op.isFault) := by
        simp [Op.isFault]
      rw [hfl, run_cons]
      cases hs : step s .acceptFault with
      | error e => exact ih s ht
      | ok r =>
        obtain ⟨t, o⟩ := r
        rcases (step_acceptFault hs).2 with ⟨_, rfl, _⟩ | ⟨hf', _⟩
        · exact ih _ ht
        · rw [ht] at hf'; cases hf'
    · have hfl : (op :: ops).filter (fun op => !op.isFault) = op :: ops.filter (fun op => !op.isFault) := by
        simp [hf]
      rw [hfl, run_cons, run_cons]
      cases hs : step s op with
      | error e => exact ih s ht
      | ok r =>
        obtain ⟨t, o⟩ := r
        exact ih t (by rw [step_cfg _ hs]; exact ht)

/-! ### a well-behaved client making ANY requests: its ledger depends on its own history only -/

/-- the request, if `op` is a call of client `g` -/
def callOf (g : Nat) : Op → Option ReqKind
  | .call k r => if k = g then some r else none
  | _ => none

/-- the other clients do anything (hostile bytes, stalled authentication, disconnects, blocking hooks ...); client `g`
itself only calls - any requests -/
def OthersAndCalls (g : Nat) (ops : List Op) : Prop :=
  ∀ op ∈ ops, op.c16 = true ∧ (op.client = some g → ∃ r, op = .call g r)

/-- is `rep` the right reply to request `r` on a connection whose table of lent objects is `tbl`: what the connection's OWN
history entitles it to, whatever anybody else did (an object id is fresh for the connection: not one it holds) -/
def replyOk (tbl : List Nat) : ReqKind → Reply → Prop
  | .ping, rep => rep = .pong
  | .lend, rep => ∃ o, rep = .ref o ∧ o ∉ tbl
  | .probe oid, rep => rep = (if tbl.contains oid then .resolved else .keyError)
  | .drop _, rep => rep = .done
  | .arm, rep => rep = .done

/-- the table after the request was answered with `rep` -/
def tblAfter (tbl : List Nat) : ReqKind → Reply → List Nat
  | .lend, .ref o => o :: tbl
  | .drop oid, _ => tbl.filter (· != oid)
  | _, _ => tbl

/-- the ledger of client `g` along a run: every one of its calls is answered, with the reply its own history entitles it
to; what the other clients do in between does not enter -/
def answered (g : Nat) : List Nat → List Op → List (Option Obs) → Prop
  | _, [], _ => True
  | tbl, op :: ops, o :: os =>
    match callOf g op with
    | some r => ∃ rep, o = some (.reply rep) ∧ replyOk tbl r rep ∧ answered g (tblAfter tbl r rep) ops os
    | none => answered g tbl ops os
  | _, _ :: _, [] => False

theorem expected_ok (c : Cli) (n : Nat) (r : ReqKind) (hb : ∀ o ∈ c.table, o < n) :
    replyOk c.table r (expected c n r) ∧ tblAfter c.table r (expected c n r) = tableAfter c.table n r := by
  cases r with
  | ping => exact ⟨rfl, rfl⟩
  | lend => exact ⟨⟨n, rfl, fun h => Nat.lt_irrefl _ (hb n h)⟩, rfl⟩
  | probe oid => exact ⟨rfl, by simp only [expected]; split <;> rfl⟩
  | drop oid => exact ⟨rfl, rfl⟩
  | arm => exact ⟨rfl, rfl⟩

theorem callOf_other {g : Nat} {op : Op} (h : op.client ≠ some g) : callOf g op = none := by
  cases op <;> simp [callOf, Op.client] at h ⊢
  exact h

theorem Same.table {c d : Cli} (h : Same c d) : d.table = c.table := by rcases h with rfl | rfl <;> rfl

/-- **threaded / forking**: whatever the others do, every request of a served client - ping, a call that lends an object,
use of an object id, release - is answered as its own history says -/
theorem answered_run {s : St} (g : Nat) (hk : s.cfg.kind = .threaded ∨ s.cfg.kind = .forking) (hq : s.queue = [])
    (hi : Iso s) (h : Ready (s.cli g)) (ops : List Op) (hops : OthersAndCalls g ops) :
    answered g (s.cli g).table ops (runObs s ops) := by
  induction ops generalizing s with
  | nil => trivial
  | cons op ops ih =>
    have hop := hops op (by simp)
    have hrest : OthersAndCalls g ops := fun o ho => hops o (by simp [ho])
    have hpool : s.cfg.kind ≠ .pool := by rcases hk with h | h <;> simp [h]
    have hbound : ∀ o ∈ (s.cli g).table, o < s.nextObj := fun o ho => hi.1.2 g o ho
    unfold runObs
    by_cases hc : op.client = some g
    · obtain ⟨r, rfl⟩ := hop.2 hc
      obtain ⟨t, ht, hr, _, htab⟩ := call_answered g r hpool h
      obtain ⟨e1, e2⟩ := expected_ok (s.cli g) s.nextObj r hbound
      have hk' : t.cfg.kind = .threaded ∨ t.cfg.kind = .forking := by rw [step_cfg _ ht]; exact hk
      have hq' : t.queue = [] := by rw [step_queue _ hpool ht]; exact hq
      rw [ht]
      simp only [answered, callOf, if_true]
      refine ⟨_, rfl, e1, ?_⟩
      rw [e2, ← htab]
      exact ih hk' hq' (hi.step _ ht) hr hrest
    · have hno := callOf_other hc
      cases hs : step s op with
      | error e =>
        simp only [answered, hno]
        exact ih hk hq hi h hrest
      | ok r =>
        obtain ⟨t, o⟩ := r
        have hk' : t.cfg.kind = .threaded ∨ t.cfg.kind = .forking := by rw [step_cfg op hs]; exact hk
        have hq' : t.queue = [] := by rw [step_queue op hpool hs]; exact hq
        have hsame := others_untouched hk hq op hop.1 g hc (by rw [h.1]; simp) (reuse_not_ready h hs) hs
        simp only [answered, hno]
        have := ih hk' hq' (hi.step op hs) (by rw [hsame]; exact h) hrest
        rw [hsame] at this; exact this

/-- **pool** (the repaired end-of-stream path, a worker free at every point of the run): the same -/
theorem answered_run_pool {s : St} (g : Nat) (hk : s.cfg.kind = .pool) (hspare : s.cfg.spare = true) (hup : Up s)
    (hq : QInv s) (hi : Iso s) (h : Ready (s.cli g)) (ops : List Op) (hfree : FreeWorkerAlong s ops)
    (hops : OthersAndCalls g ops) : answered g (s.cli g).table ops (runObs s ops) := by
  induction ops generalizing s with
  | nil => trivial
  | cons op ops ih =>
    have hop := hops op (by simp)
    have hrest : OthersAndCalls g ops := fun o ho => hops o (by simp [ho])
    have hone : s.cfg.kind ≠ .oneshot := by simp [hk]
    have hpu : s.poolUp = true := by rw [hup.2.2.2.2]; simp [hk]
    have hbound : ∀ o ∈ (s.cli g).table, o < s.nextObj := fun o ho => hi.1.2 g o ho
    obtain ⟨hfw, hfree'⟩ := hfree
    have hqe : s.queue = [] := by
      cases hql : s.queue with
      | nil => rfl
      | cons a l =>
        have := hq (by simp [hql]); simp [freeWorkers] at this; omega
    unfold runObs
    by_cases hc : op.client = some g
    · obtain ⟨r, rfl⟩ := hop.2 hc
      obtain ⟨t, ht, hr, _, _, _, htab⟩ := call_answered_pool g r hk hpu hq hfw h
      obtain ⟨e1, e2⟩ := expected_ok (s.cli g) s.nextObj r hbound
      rw [ht] at hfree'
      rw [ht]
      simp only [answered, callOf, if_true]
      refine ⟨_, rfl, e1, ?_⟩
      rw [e2, ← htab]
      exact ih (by rw [step_cfg _ ht]; exact hk) (by rw [step_cfg _ ht]; exact hspare) (hup.step hone _ hop.1 ht)
        (hq.step hk _ hop.1 ht) (hi.step _ ht) hr hfree' hrest
    · have hno := callOf_other hc
      cases hs : step s op with
      | error e =>
        rw [hs] at hfree'
        simp only [answered, hno]
        exact ih hk hspare hup hq hi h hfree' hrest
      | ok r =>
        obtain ⟨t, o⟩ := r
        rw [hs] at hfree'
        have hsame := others_untouched_pool hk hspare op hop.1 g hc (by rw [h.1]; simp) (by rw [hqe]; simp)
          (reuse_not_ready h hs) hs
        simp only [answered, hno]
        have := ih (by rw [step_cfg op hs]; exact hk) (by rw [step_cfg op hs]; exact hspare) (hup.step hone op hop.1 hs)
          (hq.step hk op hop.1 hs) (hi.step op hs) (h.same hsame) hfree' hrest
        rw [hsame.table] at this; exact this

end Rpyc.Srv